// rh — in-process counterpart of the Lean driver `redomodel`: same line protocol,
// answers computed by the real redo library (built with feature `verif`).
use std::ffi::OsStr;
use std::io::{self, BufRead, Write};
use std::os::unix::ffi::OsStrExt;
use std::path::{Path, PathBuf};

fn enc(b: &[u8]) -> String {
    if b.is_empty() {
        return "-".to_string();
    }
    let mut s = String::with_capacity(b.len() * 2);
    for x in b {
        s.push_str(&format!("{:02x}", x));
    }
    s
}

fn dec(s: &str) -> Option<Vec<u8>> {
    if s == "-" {
        return Some(Vec::new());
    }
    if s.len() % 2 != 0 {
        return None;
    }
    let mut v = Vec::with_capacity(s.len() / 2);
    let b = s.as_bytes();
    for i in (0..b.len()).step_by(2) {
        let h = (b[i] as char).to_digit(16)?;
        let l = (b[i + 1] as char).to_digit(16)?;
        v.push((h * 16 + l) as u8);
    }
    Some(v)
}

fn path(b: &[u8]) -> PathBuf {
    PathBuf::from(OsStr::from_bytes(b))
}

fn pb(p: &Path) -> String {
    enc(p.as_os_str().as_bytes())
}

fn respond(line: &str) -> String {
    let words: Vec<&str> = line.trim().split(' ').collect();
    match words.as_slice() {
        ["normpath", p] => match dec(p) {
            Some(p) => pb(&redo::normpath(&path(&p))),
            None => "bad-op".into(),
        },
        ["abspath", c, p] => match (dec(c), dec(p)) {
            (Some(c), Some(p)) => pb(&redo::abs_path(&path(&c), &path(&p))),
            _ => "bad-op".into(),
        },
        // relpath for absolute arguments whose directories do not exist on disk
        // (so `realdirpath` falls back to lexical cleaning); the caller guarantees that.
        ["relpath-lex", t, b] => match (dec(t), dec(b)) {
            (Some(t), Some(b)) => match redo::relpath(path(&t), path(&b)) {
                Ok(r) => pb(&r),
                Err(e) => format!("err {}", e.kind() as i32),
            },
            _ => "bad-op".into(),
        },
        _ => "bad-op".into(),
    }
}

fn main() {
    let stdin = io::stdin();
    let stdout = io::stdout();
    let mut out = io::BufWriter::new(stdout.lock());
    for line in stdin.lock().lines() {
        let line = match line {
            Ok(l) => l,
            Err(_) => break,
        };
        let r = std::panic::catch_unwind(|| respond(&line)).unwrap_or_else(|_| "panic".to_string());
        let _ = writeln!(out, "{}", r);
    }
    let _ = out.flush();
}
