// rh — in-process counterpart of the Lean driver `redomodel`: same line protocol,
// answers computed by the real redo library (built with feature `verif`).
use std::ffi::OsStr;
use std::io::{self, BufRead, Write};
use std::os::unix::ffi::OsStrExt;
use std::path::{Path, PathBuf};

fn enc(b: &[u8]) -> String {
    if b.is_empty() {
        return "-".to_string();
    }
    let mut s = String::with_capacity(b.len() * 2);
    for x in b {
        s.push_str(&format!("{:02x}", x));
    }
    s
}

fn dec(s: &str) -> Option<Vec<u8>> {
    if s == "-" {
        return Some(Vec::new());
    }
    if s.len() % 2 != 0 {
        return None;
    }
    let mut v = Vec::with_capacity(s.len() / 2);
    let b = s.as_bytes();
    for i in (0..b.len()).step_by(2) {
        let h = (b[i] as char).to_digit(16)?;
        let l = (b[i + 1] as char).to_digit(16)?;
        v.push((h * 16 + l) as u8);
    }
    Some(v)
}

fn path(b: &[u8]) -> PathBuf {
    PathBuf::from(OsStr::from_bytes(b))
}

fn pb(p: &Path) -> String {
    enc(p.as_os_str().as_bytes())
}

fn respond(line: &str) -> String {
    let words: Vec<&str> = line.trim().split(' ').collect();
    match words.as_slice() {
        ["normpath", p] => match dec(p) {
            Some(p) => pb(&redo::normpath(&path(&p))),
            None => "bad-op".into(),
        },
        ["abspath", c, p] => match (dec(c), dec(p)) {
            (Some(c), Some(p)) => pb(&redo::abs_path(&path(&c), &path(&p))),
            _ => "bad-op".into(),
        },
        // relpath for absolute arguments whose directories do not exist on disk
        // (so `realdirpath` falls back to lexical cleaning); the caller guarantees that.
        ["relpath-lex", t, b] => match (dec(t), dec(b)) {
            (Some(t), Some(b)) => match redo::relpath(path(&t), path(&b)) {
                Ok(r) => pb(&r),
                Err(e) => format!("err {}", e.kind() as i32),
            },
            _ => "bad-op".into(),
        },
        // relpath against the real file system (symlinks resolved by the OS); run with the wanted cwd
        ["relpath-real", t, b] => match (dec(t), dec(b)) {
            (Some(t), Some(b)) => match redo::relpath(path(&t), path(&b)) {
                Ok(r) => pb(&r),
                Err(e) => format!("err {}", e.kind() as i32),
            },
            _ => "bad-op".into(),
        },
        ["dofiles", p] => match dec(p) {
            Some(p) => {
                let p = path(&p);
                if !p.is_absolute() {
                    return "bad-op".into();
                }
                // `possible_do_files` aborts (Option::unwrap) on a path without a final component.
                let r = std::panic::catch_unwind(|| {
                    redo::possible_do_files(&p)
                        .map(|df| {
                            let mut a1 = df.verif_base_name().as_os_str().to_os_string();
                            a1.push(df.verif_ext());
                            let a2 = df.verif_base_name().as_os_str().to_os_string();
                            let mut tmp = a1.clone();
                            tmp.push(".redo.tmp");
                            let tmp_name = df.do_dir().join(tmp);
                            let a3 = redo::relpath(&tmp_name, df.do_dir())
                                .map(|r| pb(&r))
                                .unwrap_or_else(|_| "err".into());
                            [
                                pb(df.do_dir()),
                                enc(df.do_file().as_bytes()),
                                pb(df.verif_base_dir()),
                                pb(df.verif_base_name()),
                                enc(df.verif_ext().as_bytes()),
                                enc(a1.as_bytes()),
                                enc(a2.as_bytes()),
                                a3,
                            ]
                            .join("|")
                        })
                        .collect::<Vec<String>>()
                        .join(",")
                });
                match r {
                    Ok(s) => s,
                    Err(_) => "none".into(),
                }
            }
            None => "bad-op".into(),
        },
        ["meta-parse", l] => match dec(l).and_then(|b| String::from_utf8(b).ok()) {
            Some(l) => match redo::logs::Meta::parse(&l) {
                Ok(m) => {
                    // the timestamp is echoed in the canonical {:.4} rendering
                    format!(
                        "ok {} {} {} {}",
                        enc(m.kind().as_bytes()),
                        enc(m.pid().as_raw().to_string().as_bytes()),
                        enc(format!("{:.4}", m.timestamp()).as_bytes()),
                        enc(m.text().as_bytes())
                    )
                }
                Err(_) => "err".into(),
            },
            None => "bad-op".into(),
        },
        ["meta-format", k, p, t, x] => {
            let f = |s: &str| dec(s).and_then(|b| String::from_utf8(b).ok());
            match (f(k), f(p), f(t), f(x)) {
                (Some(k), Some(p), Some(t), Some(x)) => {
                    match (p.parse::<i32>(), t.parse::<f64>()) {
                        (Ok(p), Ok(t)) => {
                            let m = redo::logs::Meta::verif_new(&k, p, t, &x);
                            enc(format!("{}", m).as_bytes())
                        }
                        _ => "bad-op".into(),
                    }
                }
                _ => "bad-op".into(),
            }
        }
        ["done-text", x] => match dec(x).and_then(|b| String::from_utf8(b).ok()) {
            Some(x) => match redo::verif::parse_done_text(&x) {
                Some((rv, n)) => format!("some {} {}", enc(rv.to_string().as_bytes()), enc(n.as_bytes())),
                None => "none".into(),
            },
            None => "bad-op".into(),
        },
        ["stamp-override", a, b] => {
            let f = |s: &str| dec(s).and_then(|b| String::from_utf8(b).ok());
            match (f(a), f(b)) {
                (Some(a), Some(b)) => redo::verif::verif_detect_override(&a, &b).to_string(),
                _ => "bad-op".into(),
            }
        }
        ["makeflags", x] => match dec(x) {
            Some(x) => match redo::verif::verif_parse_makeflags(OsStr::from_bytes(&x)) {
                Ok(None) => "absent".into(),
                Ok(Some((a, b))) => format!("fds {} {}", a, b),
                Err(_) => "invalid".into(),
            },
            None => "bad-op".into(),
        },
        ["cycles", v, ops] => {
            // REDO_CYCLES is process state: set it to the given value, apply the operations, read it back
            if *v == "!" {
                std::env::remove_var("REDO_CYCLES");
            } else {
                match dec(v).and_then(|b| String::from_utf8(b).ok()) {
                    Some(x) => std::env::set_var("REDO_CYCLES", x),
                    None => return "bad-op".into(),
                }
            }
            let mut out = String::new();
            if *ops != "-" {
                for o in ops.split(',') {
                    let (k, r) = o.split_at(1);
                    let f = match dec(r).and_then(|b| String::from_utf8(b).ok()) {
                        Some(f) => f,
                        None => return "bad-op".into(),
                    };
                    match k {
                        "a" => redo::verif::cycles_add(&f),
                        "c" => out.push(if redo::verif::cycles_check(&f) { '1' } else { '0' }),
                        _ => return "bad-op".into(),
                    }
                }
            }
            let fin = match std::env::var("REDO_CYCLES") {
                Ok(x) => enc(x.as_bytes()),
                Err(_) => "!".to_string(),
            };
            format!("{} {}", if out.is_empty() { "-" } else { &out }, fin)
        }
        // pretty-line <debug> <debug_locks> <debug_pids> <verbose> <xtrace> <log> <depth> <color> <line without newline>
        ["pretty-line", d, dl, dp, v, x, lg, depth, color, l] => {
            let line = match dec(l).and_then(|b| String::from_utf8(b).ok()) {
                Some(l) => l,
                None => return "bad-op".into(),
            };
            match (d.parse::<i32>(), v.parse::<i32>(), x.parse::<i32>(), depth.parse::<usize>()) {
                (Ok(d), Ok(v), Ok(x), Ok(depth)) => {
                    if line.contains('\n') || depth > 4096 {
                        return "bad-op".into();
                    }
                    let b = |s: &str| s == "1";
                    enc(&redo::verif::pretty_line(d, b(dl), b(dp), v, x, b(lg), depth, b(color), &format!("{}\n", line)))
                }
                _ => "bad-op".into(),
            }
        }
        ["raw-line", l] => match dec(l).and_then(|b| String::from_utf8(b).ok()) {
            Some(line) => {
                if line.contains('\n') {
                    return "bad-op".into();
                }
                enc(&redo::verif::raw_line(&format!("{}\n", line)))
            }
            None => "bad-op".into(),
        },
        ["valid-line", x] => match dec(x).and_then(|b| String::from_utf8(b).ok()) {
            Some(x) => redo::verif::is_valid_log_line(&x).to_string(),
            None => "bad-op".into(),
        },
        _ => "bad-op".into(),
    }
}

fn main() {
    std::panic::set_hook(Box::new(|_| {}));
    let stdin = io::stdin();
    let stdout = io::stdout();
    let mut out = io::BufWriter::new(stdout.lock());
    for line in stdin.lock().lines() {
        let line = match line {
            Ok(l) => l,
            Err(_) => break,
        };
        let r = std::panic::catch_unwind(|| respond(&line)).unwrap_or_else(|_| "panic".to_string());
        let _ = writeln!(out, "{}", r);
    }
    let _ = out.flush();
}
