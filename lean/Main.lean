import RedoModel.Wire
import RedoModel.Paths
import RedoModel.DoFiles
import RedoModel.LogRec
import RedoModel.Commit
import RedoModel.Makeflags
import RedoModel.StampStr
import RedoModel.Argv
import RedoModel.DepsWire
import RedoModel.CoreWire
import RedoModel.TokensWire
import RedoModel.SqlTxnWire
import RedoModel.LocksWire
import RedoModel.OnceWire
import RedoModel.WaitsWire
import RedoModel.PathsSemWire
import RedoModel.LogFollowWire
import RedoModel.ParWire
import RedoModel.ParFWire
import RedoModel.RowCacheWire
import RedoModel.CyclesWire
import RedoModel.RunLoopWire
import RedoModel.TokLoopWire
import RedoModel.Base
import RedoModel.Pretty
import RedoModel.StatusLine
open RedoModel RedoModel.Wire

def decList (s : String) : Option (List (List Char)) :=
  if s = "" then some [] else (s.splitOn ",").mapM dec

def decForest (s : String) : Option LogRec.Forest :=
  if s = "" then some [] else
  (s.splitOn ";").mapM fun e =>
    match e.splitOn ":" with
    | [n, "!"] => (dec n).map fun n => (n, none)
    | [n, ls] => do
      let n ← dec n
      let ls ← decList ls
      pure (n, some ls)
    | _ => none

def showOut (o : LogRec.Tagged) : String :=
  match o.out with
  | .record k t => "m:" ++ enc k ++ ":" ++ enc t
  | .raw l => "r:" ++ enc l

def decStat (s : String) : Option (Option Commit.TStat) :=
  if s = "-" then some none else
  match s.splitOn "," with
  | [k, m] => match m.toNat? with
    | some m => if k = "d" then some (some ⟨true, m⟩) else if k = "f" then some (some ⟨false, m⟩) else none
    | none => none
  | _ => none

def showOp : Commit.FsOp → String
  | .unlinkTmp => "unlinkTmp" | .createTmpFromStdout => "createTmp"
  | .renameTmpToTarget => "rename" | .unlinkTarget => "unlinkTarget"

/-- One request line → one response line.  Unknown or malformed requests answer `bad-op`
(never a default value). -/
def respond (line : String) : String :=
  match line.trimAscii.toString.splitOn " " with
  | ["normpath", p] =>
    match dec p with
    | some p => enc (Paths.normpath p)
    | none => "bad-op"
  | ["abspath", c, p] =>
    match dec c, dec p with
    | some c, some p => enc (Paths.absPath c p)
    | _, _ => "bad-op"
  | ["relpath-lex", t, b] =>
    match dec t, dec b with
    | some t, some b => enc (Paths.relpathLex t b)
    | _, _ => "bad-op"
  | ["relpath-full", cwd, t, b, ct, cb] =>
    -- ct / cb: what `Path::canonicalize` answers for the directory part of (absolutised) t / base and for its leading
    -- parts: `;`-separated `<path>=<canonical path>` pairs (hex), paths that do not exist are left out; `!` = none exist
    let table (x : String) : List (List Char × List Char) :=
      if x = "!" then [] else
      (x.splitOn ";").filterMap fun e =>
        match e.splitOn "=" with
        | [a, c] => match dec a, dec c with
          | some a, some c => some (a, c)
          | _, _ => none
        | _ => none
    match dec cwd, dec t, dec b with
    | some cwd, some t, some b =>
      let tab := table ct ++ table cb
      let canon : List Char → Option (List Char) := fun d =>
        (tab.find? (fun e => e.1 == d)).map (·.2)
      enc (Paths.relpath canon cwd t b)
    | _, _, _ => "bad-op"
  | ["dofiles", p] =>
    match dec p with
    | some p =>
      if !Paths.rooted p then "bad-op" else
      match DoFiles.possibleDoFiles p with
      | none => "none"
      | some cs => ",".intercalate (cs.map fun c =>
          "|".intercalate [enc c.doDir, enc c.doFile, enc c.baseDir, enc c.baseName, enc c.ext,
            enc (DoFiles.arg1 c), enc (DoFiles.arg2 c), enc (Paths.relpathLex (DoFiles.tmpName c) c.doDir)])
    | none => "bad-op"
  | ["meta-parse", l] =>
    match dec l with
    | some l =>
      match LogRec.parse l with
      | .ok r => "ok " ++ enc r.kind ++ " " ++ enc r.pid ++ " " ++ (if LogRec.canonTs r.ts then enc r.ts else "*") ++ " " ++ enc r.text
      | .error _ => "err"
    | none => "bad-op"
  | ["meta-format", k, p, t, x] =>
    match dec k, dec p, dec t, dec x with
    | some k, some p, some t, some x =>
      if LogRec.canonI32 p = some p && LogRec.canonTs t then enc (LogRec.format ⟨k, p, t, x⟩) else "bad-op"
    | _, _, _, _ => "bad-op"
  | ["done-text", x] =>
    match dec x with
    | some x => match LogRec.parseDoneText x with
      | some (rv, n) => "some " ++ enc rv ++ " " ++ enc n
      | none => "none"
    | none => "bad-op"
  | ["pretty-line", d, dl, dp, v, x, lg, depth, color, l] =>
    match d.toInt?, v.toInt?, x.toInt?, depth.toNat?, dec l with
    | some d, some v, some x, some depth, some l =>
      if l.contains '\n' || depth > 4096 then "bad-op" else
      let cfg : Pretty.Cfg := ⟨d, dl == "1", dp == "1", v, x, lg == "1"⟩
      enc (Pretty.writeLine cfg (if color == "1" then Pretty.ansi else Pretty.noEsc) depth l)
    | _, _, _, _, _ => "bad-op"
  | ["catlog-pretty", v, x, u, r, ts, f] =>
    match v.toInt?, x.toInt?, decList ts, decForest f with
    | some v, some x, some ts, some F =>
      match LogRec.redoLog F (u == "1") (r == "1") (F.length + 2) ts ⟨[], []⟩ with
      | .ok st =>
        match Pretty.replayText ⟨0, false, false, v, x, true⟩ Pretty.noEsc st.out.reverse [] with
        | some t => "ok " ++ enc t
        | none => "err:depth"
      | .error e => "err:" ++ (match e with
          | .outOfFuel => "fuel" | .unknownTarget => "unknown" | .badDone => "baddone" | .emptyText => "empty")
    | _, _, _, _ => "bad-op"
  | ["status-line", w, n, names] =>
    match w.toNat?, n.toNat?, decList names with
    | some w, some n, some ns =>
      if w > 100000 then "bad-op" else enc (StatusLine.shown w (StatusLine.status w n ns))
    | _, _, _ => "bad-op"
  | ["thousands", n] =>
    match n.toNat? with
    | some n => if n < 18446744073709551616 then String.ofList (StatusLine.thousands n) else "bad-op"
    | none => "bad-op"
  | ["raw-line", l] =>
    match dec l with
    | some l => if l.contains '\n' then "bad-op" else enc (Pretty.rawLine l)
    | none => "bad-op"
  | ["valid-line", x] =>
    match dec x with
    | some x => toString (LogRec.isValidLogLine x)
    | none => "bad-op"
  | ["clean-line", x] =>
    match dec x with
    | some x => enc (LogRec.cleanLine x)
    | none => "bad-op"
  | ["catlog", u, r, ts, f] =>
    match decList ts, decForest f with
    | some ts, some F =>
      match LogRec.redoLog F (u == "1") (r == "1") (F.length + 2) ts ⟨[], []⟩ with
      | .ok st => ",".intercalate (st.out.reverse.map showOut)
      | .error e => "err:" ++ (match e with
          | .outOfFuel => "fuel" | .unknownTarget => "unknown" | .badDone => "baddone" | .emptyText => "empty")
    | _, _ => "bad-op"
  | ["commit-decide", b, a, sz, tmp, rv, rf] =>
    match decStat b, decStat a, sz.toNat?, rv.toInt? with
    | some b, some a, some sz, some rv =>
      let d := Commit.decide { before := b, after := a, stdoutSize := sz, tmpExists := tmp == "1", rv := rv, renameFails := rf == "1" }
      "ops=" ++ ",".intercalate (d.ops.map showOp) ++ " rv=" ++ toString d.rv ++ " ok=" ++ toString d.recordedOk
    | _, _, _, _ => "bad-op"
  | ["commit-decide", b, a, sz, tmp, rv, rf, cf] =>
    match decStat b, decStat a, sz.toNat?, rv.toInt? with
    | some b, some a, some sz, some rv =>
      let d := Commit.decide { before := b, after := a, stdoutSize := sz, tmpExists := tmp == "1", rv := rv, renameFails := rf == "1", createFails := cf == "1" }
      "ops=" ++ ",".intercalate (d.ops.map showOp) ++ " rv=" ++ toString d.rv ++ " ok=" ++ toString d.recordedOk
    | _, _, _, _ => "bad-op"
  | ["deps-run", d, n, rules, ops] => DepsWire.respond d n rules ops
  | ["core-run", n, graph, ops] => CoreWire.respond n graph ops
  | ["tokens-replay", k, evs] => TokensWire.respond k evs
  | ["sqltxn-replay", evs] => SqlTxnWire.respond evs
  | ["locks-replay", evs] => LocksWire.respond evs
  | ["once-replay", evs] => OnceWire.respond evs
  | ["logfollow-replay", evs] => LogFollowWire.respond evs
  | ["logfollow-run", insts, ph, evs] => LogFollowWire.respondRun insts ph evs
  | ["cycles", v, ops] => CyclesWire.respond v ops
  | ["rowcache-replay", evs] => RowCacheWire.respond evs
  | ["par-replay", graph, pre, evs] => ParWire.respond graph pre evs
  | ["par-serial", graph, pre, tops] => ParWire.respondSerial graph pre tops
  | ["parf-replay", graph, kg, tops, evs] => ParFWire.respond graph kg tops evs
  | ["parf-serial", graph, kg, tops] => ParFWire.respondSerial graph kg tops
  | ["waits-replay", reach, evs] => WaitsWire.respond reach evs
  | ["runloop-replay", kg, evs] => RunLoopWire.respond kg evs
  | ["tokloop-replay", kind, evs] => TokLoopWire.respond kind evs
  | ["base-of", cwd, redos, targets, ct] =>
    -- cwd: hex; redos: `,`-separated hex directories that contain `.redo` (`-` = none); targets: `,`-separated hex spellings;
    -- ct: what `Path::canonicalize` answers (`;`-separated `<path>=<canonical path>` hex pairs, `!` = nothing exists)
    let table : List (List Char × List Char) :=
      if ct = "!" then [] else
      (ct.splitOn ";").filterMap fun e =>
        match e.splitOn "=" with
        | [k, v] => match dec k, dec v with
          | some k, some v => some (k, v)
          | _, _ => none
        | _ => none
    let canon (p : List Char) : Option (List Char) := (table.find? (fun e => e.1 == p)).map (·.2)
    match dec cwd, (if redos = "-" then some [] else (redos.splitOn ",").mapM dec), (targets.splitOn ",").mapM dec with
    | some cwd, some rs, some ts =>
      let rcs := rs.map (fun r => Paths.comps (Paths.normpath r))
      enc (Paths.render true (Base.baseOf canon (fun d => rcs.contains d) cwd ts))
    | _, _, _ => "bad-op"
  | ["stamp-override", a, b] =>
    match dec a, dec b with
    | some a, some b => toString (StampStr.detectOverride a b)
    | _, _ => "bad-op"
  | ["stamp-render", mt, sz, ino, mode, uid, gid] =>
    match sz.toNat?, ino.toNat?, mode.toNat?, uid.toNat?, gid.toNat? with
    | some sz, some ino, some mode, some uid, some gid =>
      String.ofList (StampStr.render { mtime := mt.toList, size := sz, ino := ino, mode := mode, uid := uid, gid := gid })
    | _, _, _, _, _ => "bad-op"
  | ["argv", v, x, fl, d, a1, a2, a3] =>
    match dec fl, dec d, dec a1, dec a2, dec a3 with
    | some fl, some d, some a1, some a2, some a3 =>
      ",".intercalate ((Argv.argv (v == "1") (x == "1") fl d a1 a2 a3).map enc)
    | _, _, _, _, _ => "bad-op"
  | ["makeflags", x] =>
    match dec x with
    | some x => match Makeflags.parse x with
      | .absent => "absent"
      | .fds a b => "fds " ++ String.ofList a ++ " " ++ String.ofList b
      | .invalid => "invalid"
    | none => "bad-op"
  | ["makeflags-format", a, b] => enc (Makeflags.format a.toList b.toList)
  | ["resolve", dirs, files, cwd, path] => PathsSemWire.respond dirs files cwd path
  | _ => "bad-op"

partial def loop (h : IO.FS.Stream) (out : IO.FS.Stream) : IO Unit := do
  let line ← h.getLine
  if line.isEmpty then return ()
  out.putStrLn (respond line)
  loop h out

def main : IO Unit := do
  let out ← IO.getStdout
  loop (← IO.getStdin) out
  out.flush
