import RedoModel.Wire
import RedoModel.Paths
open RedoModel RedoModel.Wire

/-- One request line → one response line.  Unknown or malformed requests answer `bad-op`
(never a default value). -/
def respond (line : String) : String :=
  match line.trimAscii.toString.splitOn " " with
  | ["normpath", p] =>
    match dec p with
    | some p => enc (Paths.normpath p)
    | none => "bad-op"
  | ["abspath", c, p] =>
    match dec c, dec p with
    | some c, some p => enc (Paths.absPath c p)
    | _, _ => "bad-op"
  | ["relpath-lex", t, b] =>
    match dec t, dec b with
    | some t, some b => enc (Paths.relpathLex t b)
    | _, _ => "bad-op"
  | _ => "bad-op"

partial def loop (h : IO.FS.Stream) (out : IO.FS.Stream) : IO Unit := do
  let line ← h.getLine
  if line.isEmpty then return ()
  out.putStrLn (respond line)
  loop h out

def main : IO Unit := do
  let out ← IO.getStdout
  loop (← IO.getStdin) out
  out.flush
