import RedoModel.Paths
