import RedoModel.Waits
/-
The guarded acceptor of the wait-for model: `Waits.step` plus the guard on `script` that the progress
proof showed to be necessary (without it an accepted run on an acyclic graph can end deadlocked, see
`C09.unguarded_script_deadlock`): a process starts the execution keyed `k` only if it owns the lock of
`k`, or was spawned for it by the out-of-band rebuild of `k` (its second phase), or `k = oobKey f` for
a lock `f` it owns.  This is the acceptor the traces are replayed through (`waits-replay`), and the
one the theorem `C09.progress` is about.  No imports beyond the model: part of the compiled driver.
-/
namespace RedoModel.Waits

/-- May `p` start the execution keyed `k`?  (see the header) -/
def scriptGuard (s : State) (p k : Nat) : Bool :=
  s.owner k == some p
    || (match find s p with
        | some x => x.under == some (oobKey k)
        | none => false)
    || (decide (1000000 ≤ k) && s.owner (k - 1000000) == some p)

/-- `step` with the extra guard on `script`. -/
def stepG (reach : Nat → List Nat) (univ : List Nat) (s : State) : Ev → Except Reject State
  | .script p k =>
    if scriptGuard s p k then step reach univ s (.script p k)
    else .error (.shape p k "execution started by a process that neither owns the lock nor was spawned for it")
  | ev => step reach univ s ev

def runG (reach : Nat → List Nat) (univ : List Nat) (s : State) : List Ev → Except (Nat × Reject) State
  | [] => .ok s
  | e :: es =>
    match stepG reach univ s e with
    | .error r => .error (es.length, r)
    | .ok s' => runG reach univ s' es

/-- The only use of `univ` by the guards is `G1` at `waitBegin`; so the only thing the theorem needs
of the event list is that every awaited lock is listed in `univ`. -/
def evIn (univ : List Nat) : Ev → Bool
  | .waitBegin _ f => univ.contains f
  | _ => true

/-- The stronger, more natural condition: every lock event is about a target in `univ`. -/
def mentionsIn (univ : List Nat) : Ev → Bool
  | .lockOk _ f | .waitBegin _ f | .waitEnd _ f | .unlock _ f => univ.contains f
  | _ => true

end RedoModel.Waits
