import RedoModel.Generated
/-
Executable model of the serial (-j1) dependency engine of redo-rs, kept in the order of
tests and side effects of the Rust:

* `deps::private_is_dirty`                       (src/deps.rs:58-233)
* `ifchange::should_build`, `redo-ifchange`       (src/bin/redo/ifchange.rs)
* `BuildJob::start / start_self / start_deps_unlocked / record_new_state` (src/builder.rs)
* `builder::run`, first loop, at -j1              (src/builder.rs:717-790)
* `redo-unlocked`, `redo-stamp`, `redo-always`, `redo-ifcreate` (src/bin/redo/*.rs)
* `state::File::{set_static,set_failed,set_override,update_stamp,set_changed,is_source,is_target,deps,zap_deps1/2,add_dep}`
* `redo-ood`, `redo-targets`, `redo-sources`; top-level `redo` / `redo-ifchange` (run-id allocation)

Files are numbers (one flat directory); file 0 is the `//ALWAYS` pseudo file.  The .do
candidates of a target are given as a priority list of file ids (`rules`), which is what the
`DoFiles` layer establishes about the real enumeration.  A .do file's behaviour is looked up
from its *content* (`progs`), so editing a .do file changes the script.

`Defects` switches describe known defects of the pinned tree (see DESIGN §6).
-/
namespace RedoModel.Deps
open RedoModel.Generated

abbrev Content := List Nat

/-- Content of a hand-written file, version `v`. -/
def srcContent (v : Nat) : Content := [2 * v + 3]

/-- Content a script with tag `tag` produces from what it read. -/
def outContent (tag : Nat) (ins : List (Option Content)) : Content :=
  (2 * tag + 2) :: ins.flatMap (fun i => match i with
    | none => [0, 1]
    | some c => 0 :: (c ++ [1]))

/-- What `stat` shows: `ms` stands for (mtime, size) — the part `detect_override` looks at —
and `rest` for inode/mode/uid/gid. -/
structure FNode where
  content : Content
  ms : Nat
  rest : Nat
  deriving DecidableEq, Repr

inductive DStamp
  | missing
  | st (ms rest : Nat)
  deriving DecidableEq, Repr

structure Rec where
  row : Nat := 0            -- Files.rowid (order of first registration); 0 = no row yet
  isGenerated : Bool := false
  isOverride : Bool := false
  checked : Option Nat := none
  changed : Option Nat := none
  failed : Option Nat := none
  stamp : Option DStamp := none
  csum : Option Content := none
  deriving DecidableEq, Repr

structure Dep where
  target : Nat
  source : Nat
  modeM : Bool        -- true = `m` (modified), false = `c` (created)
  deleteMe : Bool
  deriving DecidableEq, Repr

structure Script where
  always : Bool := false
  ifcreate : List Nat := []
  cond : List Nat := []                 -- `if [ -e f ]; then redo-ifchange f; else redo-ifcreate f; fi` for each f
  ifchange : List (List Nat) := []     -- successive `redo-ifchange` commands
  failIfOdd : Option Nat := none        -- `exit 1` if that file holds an odd source version
  reads : List Nat := []                -- files whose bytes go into the output
  tag : Nat := 0
  outMode : Nat := 1                    -- 0 stdout, 1 `$3`, 2 no output
  stamp : Nat := 0                      -- 0 none, 1 `redo-stamp <output`, k+2 `redo-stamp` of constant k
  exit : Nat := 0
  deriving DecidableEq, Repr

structure Defects where
  oobRebuildsDepsNotTarget : Bool := false
  failedTargetAbortsRun : Bool := false
  oobRecordsDepsOnCaller : Bool := false   -- redo-unlocked's first phase ran with REDO_TARGET set
  deriving DecidableEq, Repr

inductive Ev
  | ran (t : Nat)                 -- the .do of `t` was executed
  | warnOverride (t : Nat)
  deriving DecidableEq, Repr

structure World where
  fs : Nat → Option FNode
  recs : Nat → Rec
  deps : List Dep
  runCounter : Nat
  clock : Nat
  nextRow : Nat                        -- next Files.rowid
  progs : Content → Option Script      -- behaviour of a .do file, by content
  rules : Nat → List Nat               -- .do candidates of a target, highest priority first
  trace : List Ev                       -- ghost: most recent first
  stash : Nat → Option FNode := fun _ => none   -- files the user moved out of the way (same inode, same mtime when moved back)
  oobRev : Bool := false                -- the order in which redo-unlocked is handed its targets is a hash-set order:
                                        -- unspecified; `true` = reversed

structure Ctx where
  runid : Nat
  parent : Option Nat := none     -- REDO_TARGET
  cycles : List Nat := []         -- REDO_CYCLES
  unlocked : Bool := false
  noOob : Bool := false
  keepGoing : Bool := false
  isRedo : Bool := false          -- `redo` (always dirty) rather than `redo-ifchange`
  crash : Option (Nat × Nat) := none  -- kill the whole process tree when the script of target `t` reaches step `k`

def alwaysId : Nat := 0

def setRec (w : World) (f : Nat) (r : Rec) : World :=
  { w with recs := fun x => if x = f then r else w.recs x }

def setFile (w : World) (f : Nat) (n : Option FNode) : World :=
  { w with fs := fun x => if x = f then n else w.fs x }

def ev (w : World) (e : Ev) : World := { w with trace := e :: w.trace }

/-- `File::from_cols_with_runid`: the record as a process with run id `R` sees it. -/
def getRec (w : World) (R : Nat) (f : Nat) : Rec :=
  let r := w.recs f
  if f = alwaysId then
    { r with changed := some (match r.changed with
        | some c => max R c
        | none => R) }
  else r

/-- `File::from_name(…, allow_add = true)`. -/
def addKnown (w : World) (f : Nat) : World :=
  if (w.recs f).row ≠ 0 then w
  else { setRec w f { (w.recs f) with row := w.nextRow } with nextRow := w.nextRow + 1 }

def known (w : World) (f : Nat) : Bool := (w.recs f).row != 0

def readStamp (w : World) (f : Nat) : DStamp :=
  match w.fs f with
  | none => .missing
  | some n => .st n.ms n.rest

def existsF (w : World) (f : Nat) : Bool := (w.fs f).isSome

/-- `Stamp::detect_override`: differ in mtime or size. -/
def detectOverride (a b : DStamp) : Bool :=
  if a = b then false else
  match a, b with
  | .st m1 _, .st m2 _ => m1 != m2
  | _, _ => true

def isCheckedR (r : Rec) (R : Nat) : Bool :=
  match r.checked with
  | some c => c != 0 && c ≥ R
  | none => false

def isChangedR (r : Rec) (R : Nat) : Bool :=
  match r.changed with
  | some c => c != 0 && c ≥ R
  | none => false

def isFailedR (r : Rec) (R : Nat) : Bool :=
  match r.failed with
  | some c => c != 0 && c ≥ R
  | none => false

def setChanged (r : Rec) (R : Nat) : Rec :=
  { r with changed := some R, failed := none, isOverride := false }

/-- `File::update_stamp(must_exist = false)`. -/
def updateStamp (w : World) (f : Nat) (r : Rec) (R : Nat) : Rec :=
  let ns := readStamp w f
  if r.stamp = some ns then r else setChanged { r with stamp := some ns } R

def setFailed (w : World) (f : Nat) (r : Rec) (R : Nat) : Rec :=
  let r := updateStamp w f r R
  { r with failed := some R, isGenerated := r.stamp != some .missing }

def setStatic (w : World) (f : Nat) (r : Rec) (R : Nat) : Rec :=
  let r := updateStamp w f r R
  -- a source has no checksum (repaired in /repo: a checksum left over from the file's time as a target made
  -- `redo-stamp` report "unchanged" when the target was generated again with its old data)
  { r with failed := none, isOverride := false, isGenerated := false, csum := none }

def setOverride (w : World) (f : Nat) (r : Rec) (R : Nat) : Rec :=
  let r := updateStamp w f r R
  -- the recorded checksum described the generated content, not the hand-made one (repaired in /repo, 5acd6b9)
  { r with failed := none, isOverride := true, csum := none }

/-- `File::deps`: rows of the `Deps` table for `f`, in the order SQLite yields them (ascending
rowid of the source), unless the file is not (or no longer) redo's. -/
def depsOf (w : World) (r : Rec) (f : Nat) : List Dep :=
  if r.isOverride || !r.isGenerated then []
  else (w.deps.filter (fun d => d.target = f)).mergeSort (fun a b => (w.recs a.source).row ≤ (w.recs b.source).row)

/-- The same query also loads the `Files` row of every dependency at that moment; the loop over
the dependencies later works on these copies, not on what the database holds by then. -/
def depsWithRecs (w : World) (R : Nat) (r : Rec) (f : Nat) : List (Dep × Rec) :=
  (depsOf w r f).map (fun d => (d, getRec w R d.source))

/-- `File::add_dep` (insert or replace on the key (target, source)). -/
def addDep (w : World) (t s : Nat) (m : Bool) : World :=
  let w := addKnown w s
  { w with deps := { target := t, source := s, modeM := m, deleteMe := false }
      :: w.deps.filter (fun d => !(d.target = t && d.source = s)) }

def zapDeps1 (w : World) (t : Nat) : World :=
  { w with deps := w.deps.map (fun d => if d.target = t then { d with deleteMe := true } else d) }

def zapDeps2 (w : World) (t : Nat) : World :=
  { w with deps := w.deps.filter (fun d => !(d.target = t && d.deleteMe)) }

inductive DR
  | clean
  | dirty
  | need (ts : List Nat)
  | cyclic
  deriving DecidableEq, Repr

/-- The loop over recorded dependencies inside `private_is_dirty`; `chk` is the recursive
call for an `m` dependency.  Returns `none` when every dependency is clean and nothing must be
built first (the caller then marks the file checked). -/
def goDeps (chk : World → List Nat → Nat → Rec → DR × World × List Nat) (hasCsum : Bool) (f : Nat) :
    List (Dep × Rec) → World → List Nat → List Nat → Option DR × World × List Nat
  | [], w, cache, must => (if must.isEmpty then none else some (.need must), w, cache)
  | (d, snap) :: ds, w, cache, must =>
    let (sub, w, cache) :=
      if d.modeM then chk w cache d.source snap
      else (if existsF w d.source then DR.dirty else DR.clean, w, cache)
    match sub with
    | .cyclic => (some .cyclic, w, cache)
    | .clean => goDeps chk hasCsum f ds w cache must
    | .dirty => (some (if hasCsum then .need [f] else .dirty), w, cache)
    | .need ts => goDeps chk hasCsum f ds w cache (must ++ ts)

/-- `deps::private_is_dirty`.  `ood = true` is `redo-ood`'s variant, whose checked marks live
in the in-memory `cache` instead of the database.  `pre` is the copy of the file's record the
caller already holds (loaded together with its dependency list); `none` = load it now. -/
def isDirty (ood : Bool) (R : Nat) : Nat → World → List Nat → Nat → Nat → List Nat → Option Rec → DR × World × List Nat
  | 0, w, cache, _, _, _, _ => (.cyclic, w, cache)
  | fuel + 1, w, cache, f, mx, seen, pre =>
    if f ∈ seen then (.cyclic, w, cache) else
    let r := pre.getD (getRec w R f)
    if r.failed.isSome then (.dirty, w, cache) else
    match r.changed with
    | none => (.dirty, w, cache)
    | some ch =>
      if ch > mx then (.dirty, w, cache) else
      if (if ood then decide (f ∈ cache) else isCheckedR r R) then (.clean, w, cache) else
      match r.stamp with
      | none => (.dirty, w, cache)
      | some old =>
        let new := readStamp w f
        if old ≠ new then
          let w := if new = .missing ∧ r.isGenerated then
              setRec w f { r with isGenerated := false, isOverride := false, failed := some 0 } else w
          (if r.csum.isSome then .need [f] else .dirty, w, cache)
        else
          let mx' := max ch (r.checked.getD 0)
          match goDeps (fun w cache s snap => isDirty ood R fuel w cache s mx' (f :: seen) (some snap)) r.csum.isSome f
              (depsWithRecs w R r f) w cache [] with
          | (some dr, w, cache) => (dr, w, cache)
          | (none, w, cache) =>
            let w := if r.isOverride && !ood then ev w (.warnOverride f) else w
            if ood then (.clean, w, f :: cache)
            else (.clean, setRec w f { r with checked := some R }, cache)

/-- Outcome of a command or job. -/
abbrev Status := Int

/-- Pseudo status of a command whose process tree was killed (SIGKILL): nothing after the kill
instant happens, in any process. -/
def CRASHED : Status := -9

/-- First existing .do candidate; earlier ones are recorded as `c` dependencies, the chosen
one as `m` (`paths::find_do_file`). -/
def findDoFile (t : Nat) : List Nat → World → Option Nat × World
  | [], w => (none, w)
  | c :: cs, w =>
    if existsF w c then (some c, addDep w t c true)
    else findDoFile t cs (addDep w t c false)

/-- The mutually recursive part: `builder::run` over a target list, a build job, a script. -/
structure Engine where
  ifchangeCmd : Ctx → List Nat → World → Status × World

def newNode (w : World) (c : Content) : FNode × World :=
  ({ content := c, ms := w.clock + 1, rest := 0 }, { w with clock := w.clock + 1 })

/-- `redo-stamp`: `set_generated`, then `changed := R` and the new checksum if it differs from
the recorded one, else only `checked := R`. -/
def stampRec (r : Rec) (R : Nat) (data : Content) : Rec :=
  let r := { r with isGenerated := true, isOverride := false, failed := none }
  if r.csum ≠ some data then { setChanged r R with csum := some data }
  else { r with checked := some R }

/-- Run the script `sc` for target `t` (the child `sh -e` process and the commands it calls).
Returns the script's status, whether `$3`/stdout output exists and its content. -/
def runScript (E : Engine) (_d : Defects) (cx : Ctx) (t : Nat) (sc : Script) (w : World) :
    Status × Option Content × World :=
  let cx' : Ctx := { runid := cx.runid, parent := some t, cycles := t :: cx.cycles, keepGoing := cx.keepGoing, crash := cx.crash }
  -- redo-always
  let w := if sc.always then
      let w := addDep w t alwaysId true
      setRec w alwaysId (setChanged { (w.recs alwaysId) with stamp := some .missing } cx.runid)
    else w
  -- redo-ifcreate f…  (one command; fails on the first existing file, earlier ones stay declared
  -- only if the transaction commits, which it does not on error)
  let icErr := sc.ifcreate.any (fun f => existsF w f)
  if icErr then (1, none, w) else
  let w := sc.ifcreate.foldl (fun w f => addDep w t f false) w
  -- redo-ifchange commands, in order; `sh -e` stops at the first failure
  let rec cmds : List (List Nat) → Nat → World → Status × World
    | [], k, w => (if cx.crash = some (t, k) then CRASHED else 0, w)
    | c :: cs, k, w =>
      if cx.crash = some (t, k) then (CRASHED, w) else
      match E.ifchangeCmd cx' c w with
      | (0, w) => cmds cs (k + 1) w
      | (rv, w) => (rv, w)
  -- the conditional declarations, in order; `sh -e` stops at the first failure
  let rec conds : List Nat → World → Status × World
    | [], w => (0, w)
    | f :: fs, w =>
      if existsF w f then
        match E.ifchangeCmd cx' [f] w with
        | (0, w) => conds fs w
        | (rv, w) => (rv, w)
      else conds fs (addDep w t f false)
  match conds sc.cond w with
  | (rvc, w) =>
  if rvc ≠ 0 then (rvc, none, w) else
  match cmds sc.ifchange 0 w with
  | (rv, w) =>
    if rv ≠ 0 then (rv, none, w) else
    let failNow := match sc.failIfOdd with
      | none => false
      | some f => match w.fs f with
        | some n => (match n.content with
          | [x] => x ≥ 3 && x % 2 == 1 && ((x - 3) / 2) % 2 == 1
          | _ => false)
        | none => false
    if failNow then (1, none, w) else
    let out := outContent sc.tag (sc.reads.map (fun f => (w.fs f).map (·.content)))
    -- redo-stamp
    let w := if sc.stamp = 0 then w else
      let data : Content := if sc.stamp = 1 then out else [sc.stamp - 2]
      let w := addKnown w t
      setRec w t (stampRec (w.recs t) cx.runid data)
    -- a kill after `redo-stamp` (which commits its marks on the target's record in its own transaction) and
    -- before the script ends: step `#ifchange + 1`, only for scripts that stamp
    if sc.stamp != 0 && decide (cx.crash = some (t, sc.ifchange.length + 1)) then (CRASHED, none, w) else
    ((sc.exit : Int), if sc.outMode = 2 then none else some out, w)

/-- `BuildJob::record_new_state` (the `Commit` decision specialised to a script that did not
touch `$1` and produced at most one of stdout/`$3`). -/
def recordNewState (cx : Ctx) (t : Nat) (sfPre : Rec) (rv : Status) (out : Option Content) (w : World) :
    Status × World :=
  let R := cx.runid
  if rv = 0 then
    let w := match out with
      | some c => let (n, w) := newNode w c; setFile w t (some n)
      | none => setFile w t none
    let sf := w.recs t                     -- refresh
    let sf := { sf with isGenerated := true, isOverride := false }
    let sf := if isCheckedR sf R || isChangedR sf R then { sf with stamp := some (readStamp w t) }
      else setChanged (updateStamp w t { sf with csum := none } R) R
    let w := zapDeps2 w t
    (0, setRec w t sf)
  else
    let sf := setFailed w t sfPre R
    let w := zapDeps2 w t
    (rv, setRec w t sf)

/-- `BuildJob::start_self`.  `sf0` is the job's in-memory copy of the record, loaded under the
lock *before* `should_build` ran (so it does not see what the dirtiness check wrote). -/
def startSelf (E : Engine) (d : Defects) (cx : Ctx) (t : Nat) (sf0 : Rec) (w : World) : Status × World :=
  let R := cx.runid
  let sf := sf0
  let ns := readStamp w t
  let (sf, w) :=
    if sf.isGenerated && ns != .missing && (sf.isOverride || detectOverride (sf.stamp.getD .missing) ns) then
      let w := ev w (.warnOverride t)
      -- (also when the override is already known: the file may have been edited again, and the new
      -- stamp is recorded with the flag kept — repaired in /repo, see known_findings.json)
      let sf := setOverride w t sf R
      (sf, setRec w t sf)
    else (sf, w)
  if existsF w t && (sf.isOverride || !sf.isGenerated) then
    let sf := if !sf.isOverride then setStatic w t sf R else sf
    (0, setRec w t sf)
  else
    let w := zapDeps1 w t
    match findDoFile t (w.rules t) w with
    | (none, w) =>
      if existsF w t then (0, setRec w t (setStatic w t sf R))
      else (1, setRec w t (setFailed w t sf R))
    | (some dof, w) =>
      let w := setRec w dof (setStatic w dof (w.recs dof) R)
      let w := ev w (.ran t)
      let sc : Script := match w.fs dof with
        | some n => (w.progs n.content).getD {}
        | none => {}
      match runScript E d cx t sc w with
      | (rv, out, w) => if rv = CRASHED then (CRASHED, w) else recordNewState cx t sf rv out w

/-- `ifchange::should_build` (or the constant answer of `redo`).  `none` = the target already
failed in this run (`ImmediateExit(EXIT_TARGET_FAILED)`). -/
def shouldBuild (cx : Ctx) (fuel : Nat) (t : Nat) (w : World) : Option DR × World :=
  if cx.isRedo then (some .dirty, w) else
  let r := getRec w cx.runid t
  if isFailedR r cx.runid then (none, w)
  else
    let (dr, w, _) := isDirty false cx.runid fuel w [] t cx.runid [] none
    let dr := match dr with
      | .need [x] => if x = t then DR.dirty else dr
      | x => x
    (some dr, w)

inductive JobResult
  | abort (code : Status)      -- an error left `builder::run` through `?`
  | done (rv : Status)

/-- One `BuildJob`, from `start` to the recorded result. -/
def buildJob (E : Engine) (d : Defects) (cx : Ctx) (fuel : Nat) (t : Nat) (w : World) : JobResult × World :=
  let sf0 := w.recs t
  match shouldBuild cx fuel t w with
  | (none, w) =>
    -- pinned behaviour: the error left `builder::run`; repaired: it is this job's result
    (if d.failedTargetAbortsRun then .abort EXIT_TARGET_FAILED else .done EXIT_TARGET_FAILED, w)
  | (some .cyclic, w) => (.abort EXIT_CYCLIC_DEPENDENCY, w)
  | (some .clean, w) => (.done 0, w)
  | (some .dirty, w) => let (rv, w) := startSelf E d cx t sf0 w; (.done rv, w)
  | (some (.need ts), w) =>
    if cx.noOob then let (rv, w) := startSelf E d cx t sf0 w; (.done rv, w)
    else
      -- `redo-unlocked t deps…` : two `redo-ifchange` runs in the caller's environment
      let ts := if w.oobRev then ts.eraseDups.reverse else ts.eraseDups
      -- (the caller holds `t`'s lock meanwhile: `t` is under construction for everything below — repaired in
      -- /repo, 330eb41; before, a dependency leading back to `t` waited for that lock for ever)
      match E.ifchangeCmd { cx with noOob := true, unlocked := false, isRedo := false, cycles := t :: cx.cycles,
                                    parent := if d.oobRecordsDepsOnCaller then cx.parent else none } ts w with
      | (0, w) =>
        let second := if d.oobRebuildsDepsNotTarget then ts else [t]
        let (rv, w) := E.ifchangeCmd { cx with noOob := true, unlocked := true, isRedo := false } second w
        (.done rv, w)
      | (rv, w) => (.done rv, w)

/-- `builder::run` at -j1 over the command's targets (after the `add_dep` of `redo-ifchange`). -/
def runTargets (E : Engine) (d : Defects) (cx : Ctx) (fuel : Nat) :
    List Nat → List Nat → Bool → World → Status × World
  | [], _, errored, w => (if errored then 1 else 0, w)
  | t :: ts, seen, errored, w =>
    if t ∈ seen then runTargets E d cx fuel ts seen errored w else
    if errored && !cx.keepGoing then (1, w) else
    let w := addKnown w t
    if !cx.unlocked && t ∈ cx.cycles then (EXIT_CYCLIC_DEPENDENCY, w) else
    match buildJob E d cx fuel t w with
    | (.abort code, w) => (code, w)
    | (.done rv, w) =>
      if rv = CRASHED then (CRASHED, w)       -- this process was killed too
      else runTargets E d cx fuel ts (t :: seen) (errored || rv ≠ 0) w

/-- `redo-ifchange targets…` as run by a script (or at top level when `cx.parent = none`). -/
def ifchangeWith (E : Engine) (d : Defects) (fuel : Nat) (cx : Ctx) (ts : List Nat) (w : World) : Status × World :=
  -- a target that names itself is the shortest cycle: `add_dep` refuses it, the transaction that
  -- was recording the declarations is rolled back, and the command fails with the cyclic status
  if (match cx.parent with
      | some p => !cx.unlocked && ts.contains p
      | none => false) then (EXIT_CYCLIC_DEPENDENCY, w) else
  let w := match cx.parent with
    | some p => if cx.unlocked then w else
        let w := addKnown w p
        ts.foldl (fun w t => addDep w p t true) w
    | none => w
  runTargets E d cx fuel ts [] false w

/-- Tie the knot with fuel: at fuel 0 nested commands fail (never reached when fuel exceeds
the number of files; cycles are cut by `REDO_CYCLES`). -/
def engine (d : Defects) : Nat → Engine
  | 0 => { ifchangeCmd := fun _ _ w => (EXIT_FAILURE, w) }
  | n + 1 => { ifchangeCmd := fun cx ts w => ifchangeWith (engine d n) d (n + 1) cx ts w }

/-! ### Top-level commands and user operations -/

inductive Cmd
  | redo (ts : List Nat) (keepGoing : Bool)
  | ifchange (ts : List Nat) (keepGoing : Bool)
  | ood
  | targets
  | sources
  deriving DecidableEq, Repr

inductive UserOp
  | write (f : Nat) (v : Nat)            -- create or edit a file by hand (new inode, new mtime)
  | remove (f : Nat)
  | chmod (f : Nat)                      -- changes mode only
  | hide (f : Nat)                       -- `mv f f.away` : the path disappears, the inode is kept
  | unhide (f : Nat)                     -- `mv f.away f` : same inode, same mtime, same size as before
  | setProg (c : Content) (s : Script)   -- meaning of a .do content (given before it is written)
  | cmd (c : Cmd)
  | crashCmd (ts : List Nat) (t k : Nat)   -- `redo-ifchange ts`, whole tree killed when t's script reaches step k
  deriving Repr

def allocRun (w : World) : Nat × World := (w.runCounter + 1, { w with runCounter := w.runCounter + 1 })

/-- `File::is_source`. -/
def isSource (w : World) (R f : Nat) : Bool :=
  if f = alwaysId then false else
  let r := getRec w R f
  let ns := readStamp w f
  if r.isGenerated && (!isFailedR r R || ns != .missing) && !r.isOverride
      && (match r.stamp with
          | some st => !detectOverride st ns     -- as we left it, as far as the builder's own override test can tell
          | none => false) then false
  else if (!r.isGenerated || r.stamp != some ns) && ns == .missing then false
  else true

def isTarget (w : World) (R f : Nat) : Bool :=
  if !(getRec w R f).isGenerated then false else !isSource w R f

def knownFiles (w : World) (n : Nat) : List Nat := (List.range n).filter (known w)

/-- Result of a top-level command: exit status and printed list (for the queries). -/
structure Result where
  status : Status
  listing : List Nat := []
  deriving Repr

def runCmd (d : Defects) (nfiles : Nat) (c : Cmd) (w : World) : Result × World :=
  let (R, w) := allocRun w
  let fuel := 2 * nfiles + 4
  match c with
  | .redo ts kg =>
    let cx : Ctx := { runid := R, keepGoing := kg, isRedo := true }
    -- (the pre-pass of `redo` registers existing targets inside a transaction that is never
    -- committed, so it leaves no trace)
    let (rv, w) := runTargets (engine d fuel) d cx fuel ts [] false w
    ({ status := rv }, w)
  | .ifchange ts kg =>
    let cx : Ctx := { runid := R, keepGoing := kg }
    let (rv, w) := runTargets (engine d fuel) d cx fuel ts [] false w
    ({ status := rv }, w)
  | .ood =>
    let tgts := (knownFiles w nfiles).filter (isTarget w R)
    let rec go : List Nat → World → List Nat → List Nat → List Nat × World
      | [], w, _, acc => (acc.reverse, w)
      | f :: fs, w, cache, acc =>
        let (dr, w, cache) := isDirty true R fuel w cache f R [] none
        go fs w cache (if dr = .clean then acc else f :: acc)
    let (l, w') := go tgts w [] []
    -- redo-ood runs in a deferred transaction that is never committed: what the dirtiness
    -- check wrote (target -> source conversion) is rolled back when the process exits
    ({ status := 0, listing := l }, { w' with recs := w.recs, deps := w.deps, trace := w'.trace })
  | .targets => ({ status := 0, listing := (knownFiles w nfiles).filter (isTarget w R) }, w)
  | .sources => ({ status := 0, listing := (knownFiles w nfiles).filter (isSource w R) }, w)

def applyOp (d : Defects) (nfiles : Nat) (op : UserOp) (w : World) : Option Result × World :=
  match op with
  | .write f v => let (n, w) := newNode w (srcContent v); (none, setFile w f (some n))
  | .remove f => (none, setFile w f none)
  | .chmod f => (none, match w.fs f with
      | some n => setFile w f (some { n with rest := n.rest + 1 })
      | none => w)
  | .hide f => (none, match w.fs f with
      | some n => { setFile w f none with stash := fun x => if x = f then some n else w.stash x }
      | none => w)
  | .unhide f => (none, match w.stash f with
      | some n => { setFile w f (some n) with stash := fun x => if x = f then none else w.stash x }
      | none => w)
  | .setProg c s => (none, { w with progs := fun x => if x = c then some s else w.progs x })
  | .cmd c => let (r, w) := runCmd d nfiles c w; (some r, w)
  | .crashCmd ts t k =>
    let (R, w) := allocRun w
    let fuel := 2 * nfiles + 4
    let cx : Ctx := { runid := R, crash := some (t, k) }
    let (rv, w) := runTargets (engine d fuel) d cx fuel ts [] false w
    (some { status := rv }, w)

def initWorld (rules : Nat → List Nat) : World :=
  { fs := fun _ => none, recs := fun f => if f = alwaysId then { row := 1 } else {},
    deps := [], runCounter := 0, clock := 0, nextRow := 2, progs := fun _ => none, rules := rules, trace := [] }

end RedoModel.Deps
