import RedoModel.Core.Clean
namespace P


theorem upd_db_other (w t ft r' c') {x} (h : x ≠ t) : (upd w t ft r' c').db x = w.db x := by simp [upd, h]
theorem upd_fs_other (w t ft r' c') {x} (h : x ≠ t) : (upd w t ft r' c').fs x = w.fs x := by simp [upd, h]
theorem upd_db_self (w t ft r' c') : (upd w t ft r' c').db t = r' := by simp [upd]
theorem upd_fs_self (w t ft r' c') : (upd w t ft r' c').fs t = ft := by simp [upd]
theorem upd_curStamp_other (w t ft r' c') {x} (h : x ≠ t) : curStamp (upd w t ft r' c') x = curStamp w x := by
  simp [curStamp, upd, h]
theorem upd_contentOf_other (w t ft r' c') {x} (h : x ≠ t) : contentOf (upd w t ft r' c') x = contentOf w x := by
  simp [contentOf, upd, h]

theorem Mof_le {g R w} (hi : Inv g R w) (u : Nat) : Mof (w.db u) ≤ R := by
  unfold Mof
  have h1 : (w.db u).changed.getD 0 ≤ R := by
    cases h : (w.db u).changed with
    | none => simp
    | some c => simpa using hi.chLe u c h
  have h2 : (w.db u).checked.getD 0 ≤ R := by
    cases h : (w.db u).checked with
    | none => simp
    | some c => simpa using hi.ckLe u c h
  omega

theorem Mof_eq_R {R : Nat} {r : Rec} (h : Mof r = R) (hR : 0 < R) : r.changed = some R ∨ r.checked = some R := by
  unfold Mof at h
  cases hc : r.changed with
  | none =>
    cases hk : r.checked with
    | none => rw [hc, hk] at h; simp at h; omega
    | some k => rw [hc, hk] at h; simp at h; right; rw [h]
  | some c =>
    cases hk : r.checked with
    | none => rw [hc, hk] at h; simp at h; left; rw [h]
    | some k =>
      rw [hc, hk] at h; simp at h
      by_cases hck : c = R
      · left; rw [hck]
      · right; have : k = R := by omega
        rw [this]

/-- verified files stay up to date when an unverified file is rewritten -/
theorem upToDate_upd {g R w} (hg : Ordered g) (hi : Inv g R w) {t} (hnv : ¬ VerR w R t) (ft r' c') :
    ∀ n x, x < n → VerR w R x → UpToDate g (upd w t ft r' c').fs x
  | 0, x, h, _ => by omega
  | n+1, x, hx, hv => by
    obtain ⟨_, hu, hd⟩ := hi.ver x hv
    have hxt : x ≠ t := fun e => hnv (e ▸ hv)
    cases hu with
    | source hs => exact UpToDate.source hs
    | @target _ sc hsc hdeps hcont =>
      refine UpToDate.target hsc (fun d hdm => upToDate_upd hg hi hnv ft r' c' n d
        (by have := hg x sc hsc d hdm; omega) (hd sc hsc d hdm)) ?_
      rw [upd_fs_other _ _ _ _ _ hxt, hcont]
      congr 2
      apply List.map_congr_left
      intro d hdm
      have hdt : d ≠ t := fun e => hnv (e ▸ hd sc hsc d hdm)
      rw [upd_fs_other _ _ _ _ _ hdt]

theorem Inv_upd {g R w} (hg : Ordered g) (hR : 0 < R) (hi : Inv g R w) {t} (hnv : ¬ VerR w R t)
    (ft : Option File) (r' : Rec) (c' : Nat)
    (hch : ∀ ch, r'.changed = some ch → ch ≤ R) (hck : ∀ ck, r'.checked = some ck → ck ≤ R)
    (hsg : g t = none → r'.gen = false) (hsc : r'.stamp ≠ none → r'.changed ≠ none)
    (hsf : g t = none → r'.failed ≠ none → r'.stamp = some 0)
    (hsp : ∀ x, ft = some x → 1 ≤ x.stamp)
    (hdet : r'.failed ≠ none ∨ r'.changed = some R)
    (hA : ∀ sc, g t = some sc → RecCur (upd w t ft r' c') t →
        r'.gen = true ∧ r'.deps = sc.deps ∧
        ∃ cs, contentOf (upd w t ft r' c') t = some (.out sc.tag cs) ∧ cs.length = sc.deps.length ∧
          ∀ p ∈ List.zip sc.deps cs, p.2 ≠ contentOf (upd w t ft r' c') p.1 →
            Detect (upd w t ft r' c') (Mof r') p.1)
    (hV : VerR (upd w t ft r' c') R t → RecCur (upd w t ft r' c') t ∧ UpToDate g (upd w t ft r' c').fs t ∧
        (∀ sc, g t = some sc → ∀ d ∈ sc.deps, VerR w R d)) :
    Inv g R (upd w t ft r' c') := by
  have hver_other : ∀ x, x ≠ t → (VerR (upd w t ft r' c') R x ↔ VerR w R x) := by
    intro x hx; unfold VerR; rw [upd_db_other _ _ _ _ _ hx]
  have hrc_other : ∀ x, x ≠ t → (RecCur (upd w t ft r' c') x ↔ RecCur w x) := by
    intro x hx; unfold RecCur; rw [upd_db_other _ _ _ _ _ hx, upd_curStamp_other _ _ _ _ _ hx]
  refine ⟨?_, ?_, ?_, ?_, ?_, ?_, ?_, ?_⟩
  · intro x ch h
    by_cases hx : x = t
    · subst hx; rw [upd_db_self] at h; exact hch ch h
    · rw [upd_db_other _ _ _ _ _ hx] at h; exact hi.chLe x ch h
  · intro x ck h
    by_cases hx : x = t
    · subst hx; rw [upd_db_self] at h; exact hck ck h
    · rw [upd_db_other _ _ _ _ _ hx] at h; exact hi.ckLe x ck h
  · intro x hgx
    by_cases hx : x = t
    · subst hx; rw [upd_db_self]; exact hsg hgx
    · rw [upd_db_other _ _ _ _ _ hx]; exact hi.srcNotGen x hgx
  · intro x h
    by_cases hx : x = t
    · subst hx; rw [upd_db_self] at h ⊢; exact hsc h
    · rw [upd_db_other _ _ _ _ _ hx] at h ⊢; exact hi.stampCh x h
  · intro x hgx h
    by_cases hx : x = t
    · subst hx; rw [upd_db_self] at h ⊢; exact hsf hgx h
    · rw [upd_db_other _ _ _ _ _ hx] at h ⊢; exact hi.srcFailed x hgx h
  · intro x y h
    by_cases hx : x = t
    · subst hx; rw [upd_fs_self] at h; exact hsp y h
    · rw [upd_fs_other _ _ _ _ _ hx] at h; exact hi.stampPos x y h
  · intro u sc hgu hrc
    by_cases hu : u = t
    · subst hu; rw [upd_db_self]; exact hA sc hgu hrc
    · have hrc' := (hrc_other u hu).1 hrc
      obtain ⟨h1, h2, cs, hc, hlen, hz⟩ := hi.recA u sc hgu hrc'
      rw [upd_db_other _ _ _ _ _ hu]
      refine ⟨h1, h2, cs, by rw [upd_contentOf_other _ _ _ _ _ hu]; exact hc, hlen, ?_⟩
      intro p hp hne
      by_cases hpt : p.1 = t
      · -- the rewritten file: visible through failed / changed = R
        rw [hpt]
        unfold Detect; rw [upd_db_self]
        rcases hdet with hf | hcR
        · exact Or.inl hf
        · refine Or.inr (Or.inr (Or.inl ⟨R, hcR, ?_⟩))
          have hle := Mof_le hi u
          by_cases hlt : Mof (w.db u) < R
          · exact hlt
          · have heq : Mof (w.db u) = R := by omega
            have hvu : VerR w R u := ⟨hrc'.1, (Mof_eq_R heq hR).symm⟩
            have := (hi.ver u hvu).2.2 sc hgu p.1 (zip_fst_mem _ _ p hp)
            rw [hpt] at this; exact absurd this hnv
      · rw [upd_contentOf_other _ _ _ _ _ hpt] at hne
        have := hz p hp hne
        unfold Detect at this ⊢
        rw [upd_db_other _ _ _ _ _ hpt, upd_curStamp_other _ _ _ _ _ hpt]; exact this
  · intro x hx
    by_cases hxt : x = t
    · subst hxt
      obtain ⟨a, b, c⟩ := hV hx
      refine ⟨a, b, fun sc hsc d hd => ?_⟩
      have hdt : d ≠ x := fun e => by have := hg x sc hsc d hd; omega
      exact (hver_other d hdt).2 (c sc hsc d hd)
    · have hx' := (hver_other x hxt).1 hx
      obtain ⟨a, _, c⟩ := hi.ver x hx'
      refine ⟨(hrc_other x hxt).2 a, upToDate_upd hg hi hnv ft r' c' (x+1) x (Nat.lt_succ_self x) hx', fun sc hsc d hd => ?_⟩
      have hdv := c sc hsc d hd
      have hdt : d ≠ t := fun e => hnv (e ▸ hdv)
      exact (hver_other d hdt).2 hdv

end P
