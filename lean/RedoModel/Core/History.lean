import RedoModel.Core.Main
import RedoModel.Core.Hist
/-!
C01 for the plain-target core over whole histories (`Core/Hist.lean`): source edits, removals of any
file, and earlier runs (successful, partial or failed).

Between two commands the invariant `Inv g R w` of the last run `R` is *not* the right statement: an edit
of a source that run `R` verified breaks its `ver` clause (see `inv_reachable_false`).  What is carried is
`Btw g R w`: `Inv` for the *next* run id `R+1` (where nothing is verified yet), all recorded run ids `≤ R`,
and `Aux`: stamps are bounded by the clock (so a user's stamp `clock+1` is fresh) and a recorded stamp `0`
("missing") only occurs on failed records (so a removal is always visible).
-/
namespace P

/-! ### the auxiliary invariant -/

structure Aux (w : World) : Prop where
  fsB : ∀ f x, w.fs f = some x → 1 ≤ x.stamp ∧ x.stamp ≤ w.clock
  dbB : ∀ f s, (w.db f).stamp = some s → s ≤ w.clock
  z : ∀ f, (w.db f).stamp = some 0 → (w.db f).failed ≠ none

theorem Aux.curStamp_le {w} (ha : Aux w) (f : Nat) : curStamp w f ≤ w.clock := by
  unfold curStamp
  cases h : w.fs f with
  | none => exact Nat.zero_le _
  | some x => exact (ha.fsB f x h).2

theorem Aux.curStamp_pos {w} (ha : Aux w) {f : Nat} (h : (w.fs f).isSome = true) : 1 ≤ curStamp w f := by
  unfold curStamp
  cases hx : w.fs f with
  | none => rw [hx] at h; simp at h
  | some x => exact (ha.fsB f x hx).1

theorem Aux.ckExt {R b w w'} (ha : Aux w) (h : CkExt R b w w') : Aux w' := by
  refine ⟨fun f x hx => ?_, fun f s hs => ?_, fun f hs => ?_⟩
  · rw [h.1] at hx; rw [h.2.1]; exact ha.fsB f x hx
  · obtain ⟨_, _, f3, _⟩ := h.fields f
    rw [f3] at hs; rw [h.2.1]; exact ha.dbB f s hs
  · obtain ⟨f1, _, f3, _⟩ := h.fields f
    rw [f3] at hs; rw [f1]; exact ha.z f hs

theorem Aux.upd {w} (ha : Aux w) (t : Nat) (ft : Option File) (r' : Rec) (c' : Nat) (hc : w.clock ≤ c')
    (hft : ∀ x, ft = some x → 1 ≤ x.stamp ∧ x.stamp ≤ c')
    (hs : ∀ s, r'.stamp = some s → s ≤ c')
    (hz : r'.stamp = some 0 → r'.failed ≠ none) : Aux (P.upd w t ft r' c') := by
  refine ⟨fun f x hx => ?_, fun f s hs' => ?_, fun f hs' => ?_⟩
  · by_cases hf : f = t
    · subst hf; rw [upd_fs_self] at hx; exact hft x hx
    · rw [upd_fs_other _ _ _ _ _ hf] at hx
      have := ha.fsB f x hx
      exact ⟨this.1, Nat.le_trans this.2 hc⟩
  · by_cases hf : f = t
    · subst hf; rw [upd_db_self] at hs'; exact hs s hs'
    · rw [upd_db_other _ _ _ _ _ hf] at hs'
      exact Nat.le_trans (ha.dbB f s hs') hc
  · by_cases hf : f = t
    · subst hf; rw [upd_db_self] at hs' ⊢; exact hz hs'
    · rw [upd_db_other _ _ _ _ _ hf] at hs' ⊢; exact ha.z f hs'

theorem Aux.setStatic {w} (ha : Aux w) {t : Nat} (R : Nat) (hex : (w.fs t).isSome = true) :
    Aux (P.setStatic w t R) := by
  have hpos := ha.curStamp_pos hex
  have hle := ha.curStamp_le t
  unfold P.setStatic
  by_cases hs : (w.db t).stamp = some (curStamp w t)
  · simp only [hs, if_true]
    rw [setDb_eq_upd]
    refine ha.upd t _ _ _ (Nat.le_refl _) (fun x hx => ha.fsB t x hx) (fun s h => ?_) (fun h => ?_)
    · simp only [Option.some.injEq] at h; omega
    · simp only [Option.some.injEq] at h; omega
  · simp only [hs, if_false]
    rw [setDb_eq_upd]
    refine ha.upd t _ _ _ (Nat.le_refl _) (fun x hx => ha.fsB t x hx) (fun s h => ?_) (fun h => ?_)
    · simp only [Option.some.injEq] at h; omega
    · simp only [Option.some.injEq] at h; omega

theorem Aux.setFailed {w} (ha : Aux w) (t R : Nat) : Aux (P.setFailed w t R) := by
  have hle := ha.curStamp_le t
  unfold P.setFailed
  rw [setDb_eq_upd]
  refine ha.upd t _ _ _ (Nat.le_refl _) (fun x hx => ha.fsB t x hx) (fun s h => ?_) (fun _ => by simp)
  by_cases hs : (w.db t).stamp = some (curStamp w t)
  · simp only [hs, if_true, Option.some.injEq] at h; omega
  · simp only [hs, if_false, Option.some.injEq] at h; omega

/-! ### `build` preserves the auxiliary invariant -/

def AuxSpec (g : Graph) (R : Nat) (bld : World → Nat → Bool × World) (d : Nat) : Prop :=
  ∀ w ok w', Inv g R w → Aux w → bld w d = (ok, w') → Aux w'

theorem runDeps_aux {g R} (bld : World → Nat → Bool × World) :
    ∀ ds, (∀ d ∈ ds, BldSpec g R bld d ∧ AuxSpec g R bld d) → ∀ w ok w' cs, Inv g R w → Aux w →
      runDeps bld w ds = (ok, w', cs) → Aux w'
  | [], _, w, ok, w', cs, _, ha, he => by
    simp only [runDeps, Prod.mk.injEq] at he
    obtain ⟨rfl, rfl, rfl⟩ := he
    exact ha
  | d :: ds, hs, w, ok, w', cs, hi, ha, he => by
    obtain ⟨hspec, haux⟩ := hs d (by simp)
    unfold runDeps at he
    generalize hb : bld w d = r at he
    obtain ⟨ok1, w1⟩ := r
    obtain ⟨hi1, _, _⟩ := hspec w ok1 w1 hi hb
    have ha1 := haux w ok1 w1 hi ha hb
    cases ok1 with
    | false =>
      dsimp only at he; simp only [Prod.mk.injEq] at he
      obtain ⟨rfl, rfl, rfl⟩ := he
      exact ha1
    | true =>
      dsimp only at he
      generalize hr : runDeps bld w1 ds = r2 at he
      obtain ⟨ok2, w2, cs2⟩ := r2
      dsimp only at he; simp only [Prod.mk.injEq] at he
      obtain ⟨rfl, rfl, rfl⟩ := he
      exact runDeps_aux bld ds (fun x hx => hs x (List.mem_cons_of_mem _ hx)) w1 ok2 w2 cs2 hi1 ha1 hr

theorem build_aux {g R} (hg : Ordered g) (hR : 0 < R) (k : Nat) :
    ∀ n t, t < k → AuxSpec g R (fun w d => build g R k n w d) t
  | 0, t, _ => by
    intro w ok w' _ ha he
    simp only [build, Prod.mk.injEq] at he
    obtain ⟨rfl, rfl⟩ := he
    exact ha
  | n+1, t, htk => by
    intro w ok w' hi ha he
    simp only [build] at he
    generalize hd : isDirty R k w t R = r at he
    obtain ⟨b, w1⟩ := r
    obtain ⟨hi1, hce, _, _⟩ := isDirty_spec (R := R) hg k t R w b w1 hi hd
    have ha1 := ha.ckExt hce
    cases b with
    | false =>
      dsimp only at he; simp only [Prod.mk.injEq] at he
      obtain ⟨rfl, rfl⟩ := he
      exact ha1
    | true =>
      dsimp only at he
      cases hgt : g t with
      | none =>
        rw [hgt] at he; dsimp only at he
        by_cases hex : (w1.fs t).isSome = true
        · simp only [hex, if_true, Prod.mk.injEq] at he
          obtain ⟨rfl, rfl⟩ := he
          exact ha1.setStatic R hex
        · simp only [hex, Bool.false_eq_true, if_false, Prod.mk.injEq] at he
          obtain ⟨rfl, rfl⟩ := he
          exact ha1.setFailed t R
      | some sc =>
        rw [hgt] at he; dsimp only at he
        have hspecs : ∀ d ∈ sc.deps, BldSpec g R (fun w d => build g R k n w d) d ∧
            AuxSpec g R (fun w d => build g R k n w d) d := by
          intro d hdm
          have := hg t sc hgt d hdm
          exact ⟨build_spec hg hR k n d (by omega), build_aux hg hR k n d (by omega)⟩
        generalize hr : runDeps (fun w d => build g R k n w d) w1 sc.deps = r at he
        obtain ⟨ok3, w3, cs⟩ := r
        have ha3 := runDeps_aux _ sc.deps hspecs w1 ok3 w3 cs hi1 ha1 hr
        cases ok3 with
        | false =>
          dsimp only at he; simp only [Prod.mk.injEq] at he
          obtain ⟨rfl, rfl⟩ := he
          exact ha3.setFailed t R
        | true =>
          dsimp only at he; simp only [Prod.mk.injEq] at he
          obtain ⟨rfl, rfl⟩ := he
          refine ha3.upd t _ _ _ (Nat.le_succ _) (fun x hx => ?_) (fun s h => ?_) (fun h => ?_)
          · cases hx; exact ⟨Nat.succ_le_succ (Nat.zero_le _), Nat.le_refl _⟩
          · simp only [Option.some.injEq] at h; omega
          · simp only [Option.some.injEq] at h; omega

/-! ### several targets in one command -/

theorem buildAll_spec {g R} (hg : Ordered g) (hR : 0 < R) (k n : Nat) :
    ∀ ts, (∀ t ∈ ts, t < k) → ∀ w ok w', Inv g R w → Aux w → buildAll g R k n w ts = (ok, w') →
      Inv g R w' ∧ Aux w' ∧ BExt g R k w w' ∧ (ok = true → ∀ t ∈ ts, VerR w' R t)
  | [], _, w, ok, w', hi, ha, he => by
    simp only [buildAll, Prod.mk.injEq] at he
    obtain ⟨rfl, rfl⟩ := he
    exact ⟨hi, ha, BExt.refl _ _ _ _, fun _ t ht => by simp at ht⟩
  | t :: ts, hts, w, ok, w', hi, ha, he => by
    have htk : t < k := hts t (by simp)
    unfold buildAll at he
    generalize hb : build g R k n w t = r at he
    obtain ⟨ok1, w1⟩ := r
    obtain ⟨hi1, he1, hv1⟩ := build_spec hg hR k n t htk w ok1 w1 hi hb
    have ha1 := build_aux hg hR k n t htk w ok1 w1 hi ha hb
    cases ok1 with
    | false =>
      dsimp only at he; simp only [Prod.mk.injEq] at he
      obtain ⟨rfl, rfl⟩ := he
      exact ⟨hi1, ha1, he1.mono htk, fun h => by cases h⟩
    | true =>
      dsimp only at he
      obtain ⟨hi2, ha2, he2, hv2⟩ := buildAll_spec hg hR k n ts (fun x hx => hts x (List.mem_cons_of_mem _ hx))
        w1 ok w' hi1 ha1 he
      refine ⟨hi2, ha2, (he1.mono htk).trans he2, fun hok x hx => ?_⟩
      simp only [List.mem_cons] at hx
      rcases hx with rfl | hx
      · exact (he2.ver x (hv1 rfl)).1
      · exact hv2 hok x hx

/-! ### the invariant between two commands -/

structure Btw (g : Graph) (R : Nat) (w : World) : Prop where
  inv : Inv g (R + 1) w
  chLe : ∀ f ch, (w.db f).changed = some ch → ch ≤ R
  ckLe : ∀ f ck, (w.db f).checked = some ck → ck ≤ R
  aux : Aux w

theorem Btw.notVer {g R w} (h : Btw g R w) (f : Nat) : ¬ VerR w (R + 1) f := by
  intro hv
  rcases hv.2 with e | e
  · have := h.ckLe f _ e; omega
  · have := h.chLe f _ e; omega

/-- after a run, before the next command -/
theorem Btw.ofInv {g R w} (hi : Inv g R w) (ha : Aux w) : Btw g R w :=
  ⟨hi.nextRun, hi.chLe, hi.ckLe, ha⟩

theorem Btw.init (g : Graph) : Btw g init.R init.w := by
  refine ⟨⟨?_, ?_, ?_, ?_, ?_, ?_, ?_, ?_⟩, ?_, ?_, ⟨?_, ?_, ?_⟩⟩
  · intro f ch h; simp [P.init] at h
  · intro f ck h; simp [P.init] at h
  · intro f _; rfl
  · intro f h; simp [P.init] at h
  · intro f _ h; simp [P.init] at h
  · intro f x h; simp [P.init] at h
  · intro t sc _ hrc; exact absurd rfl hrc.2.1
  · intro f hv; rcases hv.2 with e | e <;> simp [P.init] at e
  · intro f ch h; simp [P.init] at h
  · intro f ck h; simp [P.init] at h
  · intro f x h; simp [P.init] at h
  · intro f s h; simp [P.init] at h
  · intro f h; simp [P.init] at h

theorem writeFile_curStamp_other (w : World) (f v : Nat) {x : Nat} (h : x ≠ f) :
    curStamp (writeFile w f v) x = curStamp w x := by simp [curStamp, writeFile, h]
theorem writeFile_curStamp_self (w : World) (f v : Nat) : curStamp (writeFile w f v) f = w.clock + 1 := by
  simp [curStamp, writeFile]
theorem writeFile_contentOf_other (w : World) (f v : Nat) {x : Nat} (h : x ≠ f) :
    contentOf (writeFile w f v) x = contentOf w x := by simp [contentOf, writeFile, h]
theorem removeFile_curStamp_other (w : World) (f : Nat) {x : Nat} (h : x ≠ f) :
    curStamp (removeFile w f) x = curStamp w x := by simp [curStamp, removeFile, h]
theorem removeFile_curStamp_self (w : World) (f : Nat) : curStamp (removeFile w f) f = 0 := by
  simp [curStamp, removeFile]
theorem removeFile_contentOf_other (w : World) (f : Nat) {x : Nat} (h : x ≠ f) :
    contentOf (removeFile w f) x = contentOf w x := by simp [contentOf, removeFile, h]

/-- the user creates or edits a source: fresh stamp, so every recorded reader sees the change -/
theorem Btw.write {g R w} (h : Btw g R w) {f : Nat} (v : Nat) (hf : g f = none) : Btw g R (writeFile w f v) := by
  have hi := h.inv
  have hfresh : (w.db f).stamp ≠ some (curStamp (writeFile w f v) f) := by
    rw [writeFile_curStamp_self]
    intro e
    have := h.aux.dbB f _ e
    omega
  refine ⟨⟨hi.chLe, hi.ckLe, hi.srcNotGen, hi.stampCh, hi.srcFailed, ?_, ?_, ?_⟩, h.chLe, h.ckLe, ⟨?_, ?_, h.aux.z⟩⟩
  · intro x y hx
    by_cases hxf : x = f
    · subst hxf
      simp only [writeFile, if_true, Option.some.injEq] at hx
      subst hx; exact Nat.succ_le_succ (Nat.zero_le _)
    · simp only [writeFile, hxf, if_false] at hx
      exact hi.stampPos x y hx
  · intro t sc hgt hrc
    have htf : t ≠ f := by intro e; subst e; rw [hf] at hgt; cases hgt
    have hrc' : RecCur w t := by
      unfold RecCur at hrc ⊢
      rw [writeFile_curStamp_other w f v htf] at hrc
      exact hrc
    obtain ⟨h1, h2, cs, hc, hlen, hz⟩ := hi.recA t sc hgt hrc'
    refine ⟨h1, h2, cs, by rw [writeFile_contentOf_other w f v htf]; exact hc, hlen, ?_⟩
    intro p hp hne
    by_cases hpf : p.1 = f
    · rw [hpf]
      exact Or.inr (Or.inr (Or.inr hfresh))
    · rw [writeFile_contentOf_other w f v hpf] at hne
      have := hz p hp hne
      unfold Detect at this ⊢
      rw [writeFile_curStamp_other w f v hpf]
      exact this
  · intro x hv
    exact absurd hv (h.notVer x)
  · intro x y hx
    by_cases hxf : x = f
    · subst hxf
      simp only [writeFile, if_true, Option.some.injEq] at hx
      subst hx
      exact ⟨Nat.succ_le_succ (Nat.zero_le _), Nat.le_refl _⟩
    · simp only [writeFile, hxf, if_false] at hx
      have := h.aux.fsB x y hx
      exact ⟨this.1, Nat.le_succ_of_le this.2⟩
  · intro x s hs
    exact Nat.le_succ_of_le (h.aux.dbB x s hs)

/-- the user removes a file (source or target): the recorded stamp is never the "missing" stamp of a
non-failed record, so every recorded reader (and the file's own record) sees the removal -/
theorem Btw.remove {g R w} (h : Btw g R w) (f : Nat) : Btw g R (removeFile w f) := by
  have hi := h.inv
  have hvis : (w.db f).failed ≠ none ∨ (w.db f).stamp ≠ some (curStamp (removeFile w f) f) := by
    rw [removeFile_curStamp_self]
    by_cases e : (w.db f).stamp = some 0
    · exact Or.inl (h.aux.z f e)
    · exact Or.inr e
  refine ⟨⟨hi.chLe, hi.ckLe, hi.srcNotGen, hi.stampCh, hi.srcFailed, ?_, ?_, ?_⟩, h.chLe, h.ckLe, ⟨?_, h.aux.dbB, h.aux.z⟩⟩
  · intro x y hx
    by_cases hxf : x = f
    · subst hxf; simp [removeFile] at hx
    · simp only [removeFile, hxf, if_false] at hx
      exact hi.stampPos x y hx
  · intro t sc hgt hrc
    have htf : t ≠ f := by
      intro e; subst e
      rcases hvis with hv | hv
      · exact hv hrc.1
      · exact hv hrc.2.2
    have hrc' : RecCur w t := by
      unfold RecCur at hrc ⊢
      rw [removeFile_curStamp_other w f htf] at hrc
      exact hrc
    obtain ⟨h1, h2, cs, hc, hlen, hz⟩ := hi.recA t sc hgt hrc'
    refine ⟨h1, h2, cs, by rw [removeFile_contentOf_other w f htf]; exact hc, hlen, ?_⟩
    intro p hp hne
    by_cases hpf : p.1 = f
    · rw [hpf]
      rcases hvis with hv | hv
      · exact Or.inl hv
      · exact Or.inr (Or.inr (Or.inr hv))
    · rw [removeFile_contentOf_other w f hpf] at hne
      have := hz p hp hne
      unfold Detect at this ⊢
      rw [removeFile_curStamp_other w f hpf]
      exact this
  · intro x hv
    exact absurd hv (h.notVer x)
  · intro x y hx
    by_cases hxf : x = f
    · subst hxf; simp [removeFile] at hx
    · simp only [removeFile, hxf, if_false] at hx
      exact h.aux.fsB x y hx

/-- a command: a new run with id `R+1` -/
theorem Btw.buildAll {g R w} (hg : Ordered g) (h : Btw g R w) (k n : Nat) {ts : List Nat} (hts : ∀ t ∈ ts, t < k)
    {ok w'} (he : P.buildAll g (R + 1) k n w ts = (ok, w')) :
    Inv g (R + 1) w' ∧ Aux w' ∧ (ok = true → ∀ t ∈ ts, UpToDate g w'.fs t) := by
  obtain ⟨hi', ha', _, hv⟩ := buildAll_spec hg (Nat.succ_pos R) k n ts hts w ok w' h.inv h.aux he
  exact ⟨hi', ha', fun hok t ht => (hi'.ver t (hv hok t ht)).2.1⟩

theorem Btw.step {g : Graph} (hg : Ordered g) (k n : Nat) {s : HState} (h : Btw g s.R s.w) {op : Op} (hwf : op.WF g k) :
    Btw g (step g k n s op).1.R (step g k n s op).1.w := by
  cases op with
  | write f v => exact h.write v hwf.1
  | remove f => exact h.remove f
  | build ts =>
    simp only [P.step]
    generalize hb : P.buildAll g (s.R + 1) k n s.w ts = r
    obtain ⟨ok, w'⟩ := r
    obtain ⟨hi', ha', _⟩ := h.buildAll hg k n hwf hb
    exact Btw.ofInv hi' ha'

theorem Btw.run {g : Graph} (hg : Ordered g) (k n : Nat) :
    ∀ (ops : List Op) (s : HState), Btw g s.R s.w → (∀ op ∈ ops, op.WF g k) →
      Btw g (run g k n s ops).R (run g k n s ops).w
  | [], _, h, _ => h
  | op :: ops, s, h, hwf => by
    simp only [P.run]
    exact Btw.run hg k n ops _ (h.step hg k n (hwf op (by simp))) (fun o ho => hwf o (List.mem_cons_of_mem _ ho))

theorem btw_reachable {g : Graph} (hg : Ordered g) (k n : Nat) (ops : List Op) (hwf : ∀ op ∈ ops, op.WF g k) :
    Btw g (run g k n init ops).R (run g k n init ops).w :=
  Btw.run hg k n ops init (Btw.init g) hwf

/-! ### main theorems -/

/-- The invariant *of the next run* holds in every state reachable by a well-formed history.
(The requested form with `s.R` instead of `s.R + 1` is false, see `inv_reachable_false`.) -/
theorem inv_reachable_next {g : Graph} (hg : Ordered g) (k n : Nat) (ops : List Op) (hwf : ∀ op ∈ ops, op.WF g k) :
    Inv g ((run g k n init ops).R + 1) (run g k n init ops).w :=
  (btw_reachable hg k n ops hwf).inv

theorem run_append (g : Graph) (k n : Nat) : ∀ (ops : List Op) (s : HState) (op : Op),
    run g k n s (ops ++ [op]) = (step g k n (run g k n s ops) op).1
  | [], _, _ => rfl
  | o :: ops, s, op => by
    simp only [List.cons_append, P.run]
    exact run_append g k n ops _ op

/-- `inv_reachable` with the extra hypothesis that no user operation follows the last command: the
invariant of the *last* run holds in the initial state and right after every command. -/
theorem inv_reachable_partial {g : Graph} (hg : Ordered g) (k n : Nat) (ops : List Op) (hwf : ∀ op ∈ ops, op.WF g k)
    (hlast : ops = [] ∨ ∃ pre ts, ops = pre ++ [.build ts]) :
    Inv g (run g k n init ops).R (run g k n init ops).w := by
  rcases hlast with rfl | ⟨pre, ts, rfl⟩
  · have h := (Btw.init g)
    refine ⟨?_, ?_, h.inv.srcNotGen, h.inv.stampCh, h.inv.srcFailed, h.inv.stampPos, h.inv.recA, ?_⟩
    · intro f ch e; simp [P.run, P.init] at e
    · intro f ck e; simp [P.run, P.init] at e
    · intro f hv; rcases hv.2 with e | e <;> simp [P.run, P.init] at e
  · rw [run_append]
    have hb := btw_reachable hg k n pre (fun o ho => hwf o (List.mem_append_left _ ho))
    have hts : ∀ t ∈ ts, t < k := hwf (.build ts) (by simp)
    simp only [P.step]
    generalize hbb : P.buildAll g ((run g k n init pre).R + 1) k n (run g k n init pre).w ts = r
    obtain ⟨ok, w'⟩ := r
    exact (hb.buildAll hg k n hts hbb).1

/-- C01 for the plain-target core, over all histories: whenever `redo-ifchange ts` exits 0, every target named
is up to date (recursively: everything it depends on holds what its script produces from up-to-date inputs). -/
theorem no_stale_history {g : Graph} (hg : Ordered g) (k n : Nat) (ops : List Op) (hwf : ∀ op ∈ ops, op.WF g k)
    (ts : List Nat) (hts : ∀ t ∈ ts, t < k) :
    let s := run g k n init ops
    (step g k n s (.build ts)).2 = some true → ∀ t ∈ ts, UpToDate g (step g k n s (.build ts)).1.w.fs t := by
  intro s
  have hb : Btw g s.R s.w := btw_reachable hg k n ops hwf
  simp only [P.step]
  generalize hbb : P.buildAll g (s.R + 1) k n s.w ts = r
  obtain ⟨ok, w'⟩ := r
  intro hok
  simp only [Option.some.injEq] at hok
  exact (hb.buildAll hg k n hts hbb).2.2 hok

/-! ### the requested `inv_reachable` (invariant of the *last* run in every reachable state) is false -/

/-- one source, no rule -/
def cexG : Graph := fun _ => none
/-- edit, build (run 2 verifies the source: `changed = 2`, recorded stamp 1), edit again (current stamp 2) -/
def cexOps : List Op := [.write 0 7, .build [0], .write 0 8]

theorem cexG_ordered : Ordered cexG := fun t sc h => by cases h
theorem cexOps_wf : ∀ op ∈ cexOps, op.WF cexG 1 := by
  intro op h
  simp only [cexOps, List.mem_cons, List.mem_nil_iff, or_false] at h
  rcases h with rfl | rfl | rfl
  · exact ⟨rfl, Nat.lt_succ_self 0⟩
  · intro t ht; simp only [List.mem_cons, List.mem_nil_iff, or_false] at ht; subst ht; exact Nat.lt_succ_self 0
  · exact ⟨rfl, Nat.lt_succ_self 0⟩

/-- Counterexample to `Inv g s.R s.w` for all reachable `s`: after the second edit the source is still
"verified in run 2" (`VerR`), but its recorded stamp (1) is not the current one (2), so `Inv.ver` fails. -/
theorem inv_reachable_false :
    ¬ Inv cexG (run cexG 1 1 init cexOps).R (run cexG 1 1 init cexOps).w := by
  intro h
  have hv : VerR (run cexG 1 1 init cexOps).w (run cexG 1 1 init cexOps).R 0 := ⟨by decide, Or.inr (by decide)⟩
  have := (h.ver 0 hv).1.2.2
  revert this
  decide

/-! ### non-vacuity -/

/-- source 0; target 1 reads 0; target 2 reads 1 and 0 -/
def exG : Graph := fun t => match t with
  | 1 => some ⟨10, [0]⟩
  | 2 => some ⟨20, [1, 0]⟩
  | _ => none

theorem exG_ordered : Ordered exG := by
  intro t sc h d hd
  match t, h with
  | 1, h => simp only [exG, Option.some.injEq] at h; subst h; simp at hd; omega
  | 2, h => simp only [exG, Option.some.injEq] at h; subst h; simp at hd; omega

/-- edit, build, edit again, delete the intermediate target -/
def exOps : List Op := [.write 0 7, .build [2], .write 0 8, .remove 1]

theorem exOps_wf : ∀ op ∈ exOps, op.WF exG 3 := by
  intro op h
  simp only [exOps, List.mem_cons, List.mem_nil_iff, or_false] at h
  rcases h with rfl | rfl | rfl | rfl
  · exact ⟨rfl, by decide⟩
  · intro t ht; simp only [List.mem_cons, List.mem_nil_iff, or_false] at ht; subst ht; decide
  · exact ⟨rfl, by decide⟩
  · show 1 < 3; decide

/-- the history [write 0 7, build [2], write 0 8, remove 1, build [2]]: the last build exits 0 … -/
example : (step exG 3 3 (run exG 3 3 init exOps) (.build [2])).2 = some true := by decide

/-- … it really rebuilt both targets from the new source … -/
example : contentOf (step exG 3 3 (run exG 3 3 init exOps) (.build [2])).1.w 2
    = some (.out 20 [some (.out 10 [some (.src 8)]), some (.src 8)]) := rfl

/-- … and `no_stale_history` applies to it. -/
example : UpToDate exG (step exG 3 3 (run exG 3 3 init exOps) (.build [2])).1.w.fs 2 :=
  no_stale_history exG_ordered 3 3 exOps exOps_wf [2] (by decide) (by decide) 2 (by simp)

/-- a history with a failed build first (source 0 missing, so `redo-ifchange 2` fails and records 0, 1, 2 as
failed), then the source appears and the next build succeeds -/
example : (step exG 3 3 init (.build [2])).2 = some false
    ∧ (step exG 3 3 (run exG 3 3 init [.build [2], .write 0 5]) (.build [2, 1])).2 = some true := by decide

example : Inv exG ((run exG 3 3 init exOps).R + 1) (run exG 3 3 init exOps).w :=
  inv_reachable_next exG_ordered 3 3 exOps exOps_wf

example : Inv exG (run exG 3 3 init (exOps ++ [.build [2]])).R (run exG 3 3 init (exOps ++ [.build [2]])).w :=
  inv_reachable_partial exG_ordered 3 3 _
    (by
      intro op h
      rcases List.mem_append.1 h with h | h
      · exact exOps_wf op h
      · simp only [List.mem_cons, List.mem_nil_iff, or_false] at h; subst h
        intro t ht; simp only [List.mem_cons, List.mem_nil_iff, or_false] at ht; subst ht; decide)
    (Or.inr ⟨exOps, [2], rfl⟩)

end P
