import RedoModel.Core.Build
namespace P


theorem build_spec {g R} (hg : Ordered g) (hR : 0 < R) (k : Nat) :
    ∀ n t, t < k → BldSpec g R (fun w d => build g R k n w d) t
  | 0, t, _ => by
    intro w ok w' hi he
    simp only [build, Prod.mk.injEq] at he
    obtain ⟨rfl, rfl⟩ := he
    exact ⟨hi, BExt.refl _ _ _ _, fun h => by cases h⟩
  | n+1, t, htk => by
    intro w ok w' hi he
    simp only [build] at he
    generalize hd : isDirty R k w t R = r at he
    obtain ⟨b, w1⟩ := r
    obtain ⟨hi1, hce, hstrict, hclean⟩ := isDirty_spec (R := R) hg k t R w b w1 hi hd
    cases b with
    | false =>
      dsimp only at he; simp only [Prod.mk.injEq] at he
      obtain ⟨rfl, rfl⟩ := he
      exact ⟨hi1, hce.toBExt, fun _ => (hclean rfl).1⟩
    | true =>
      dsimp only at he
      have hce' := hstrict rfl
      have hnv : ¬ VerR w R t := by
        intro hv
        obtain ⟨w'', h''⟩ := verR_clean hg k t htk w hi hv
        rw [hd] at h''; cases h''
      have hsame : w1.db t = w.db t := hce'.above (Nat.le_refl t)
      have hnv1 : ¬ VerR w1 R t := by unfold VerR; rw [hsame]; exact hnv
      cases hgt : g t with
      | none =>
        rw [hgt] at he; dsimp only at he
        by_cases hex : (w1.fs t).isSome = true
        · -- existing source: set_static
          simp only [hex, if_true, Prod.mk.injEq] at he
          obtain ⟨rfl, rfl⟩ := he
          obtain ⟨k', rfl⟩ : ∃ k', k = k' + 1 := ⟨k - 1, by omega⟩
          have hds := dirty_src hi hgt hd
          have hcur : curStamp w1 t = curStamp w t := hce'.curStamp t
          obtain ⟨x, hx⟩ := Option.isSome_iff_exists.1 hex
          have hpos : 1 ≤ curStamp w1 t := by
            unfold curStamp; rw [hx]; exact hi1.stampPos t x hx
          have hne : (w1.db t).stamp ≠ some (curStamp w1 t) := by
            rw [hsame, hcur]
            rcases hds with h | h
            · exact h
            · omega
          have hform : setStatic w1 t R = upd w1 t (w1.fs t)
              { w1.db t with stamp := some (curStamp w1 t), changed := some R, failed := none, gen := false } w1.clock := by
            unfold setStatic; simp only [hne, if_false]; exact setDb_eq_upd _ _ _
          rw [hform]
          have hcs : curStamp (upd w1 t (w1.fs t)
              { w1.db t with stamp := some (curStamp w1 t), changed := some R, failed := none, gen := false } w1.clock) t
              = curStamp w1 t := by simp [curStamp, upd]
          have hv : VerR (upd w1 t (w1.fs t)
              { w1.db t with stamp := some (curStamp w1 t), changed := some R, failed := none, gen := false } w1.clock) R t := by
            unfold VerR; rw [upd_db_self]; exact ⟨rfl, Or.inr rfl⟩
          refine ⟨?_, hce.toBExt.trans (upd_BExt hnv1 _ _ _ (fun _ => rfl)), fun _ => hv⟩
          apply Inv_upd hg hR hi1 hnv1
          · intro ch h; simp at h; omega
          · intro ck h; exact hi1.ckLe t ck h
          · intro _; rfl
          · intro _; simp
          · intro _ h; simp at h
          · intro y hy; exact hi1.stampPos t y hy
          · exact Or.inr rfl
          · intro sc hsc; rw [hgt] at hsc; cases hsc
          · intro _
            refine ⟨?_, UpToDate.source hgt, fun sc hsc => by rw [hgt] at hsc; cases hsc⟩
            unfold RecCur; rw [upd_db_self, hcs]; exact ⟨rfl, by simp, rfl⟩
        · -- missing source without rule: set_failed
          simp only [hex, Bool.false_eq_true, if_false, Prod.mk.injEq] at he
          obtain ⟨rfl, rfl⟩ := he
          have hnone : w1.fs t = none := by
            cases h : w1.fs t with
            | none => rfl
            | some x => rw [h] at hex; simp at hex
          have hcur0 : curStamp w1 t = 0 := by unfold curStamp; rw [hnone]
          have hform : setFailed w1 t R = upd w1 t (w1.fs t)
              { (if (w1.db t).stamp = some 0 then w1.db t else { w1.db t with stamp := some 0, changed := some R })
                  with failed := some R, gen := false } w1.clock := by
            unfold setFailed; rw [hcur0]; simp only [ne_eq, not_true_eq_false, decide_false]
            exact setDb_eq_upd _ _ _
          rw [hform]
          refine ⟨?_, hce.toBExt.trans (upd_BExt hnv1 _ _ _ (fun _ => rfl)), fun h => by cases h⟩
          apply Inv_upd hg hR hi1 hnv1
          · intro ch h
            by_cases hs : (w1.db t).stamp = some 0
            · simp only [hs, if_true] at h; exact hi1.chLe t ch h
            · simp only [hs, if_false] at h; cases h; exact Nat.le_refl _
          · intro ck h
            by_cases hs : (w1.db t).stamp = some 0
            · simp only [hs, if_true] at h; exact hi1.ckLe t ck h
            · simp only [hs, if_false] at h; exact hi1.ckLe t ck h
          · intro _; rfl
          · intro _
            by_cases hs : (w1.db t).stamp = some 0
            · simp only [hs, if_true]; exact hi1.stampCh t (by rw [hs]; simp)
            · simp only [hs, if_false]; simp
          · intro _ _
            by_cases hs : (w1.db t).stamp = some 0
            · simp only [hs, if_true]
            · simp only [hs, if_false]
          · intro y hy; exact hi1.stampPos t y hy
          · left; simp
          · intro sc hsc; rw [hgt] at hsc; cases hsc
          · intro hv; unfold VerR at hv; rw [upd_db_self] at hv; simp at hv
      | some sc =>
        rw [hgt] at he; dsimp only at he
        have hspecs : ∀ d ∈ sc.deps, d < t ∧ BldSpec g R (fun w d => build g R k n w d) d := by
          intro d hdm
          have := hg t sc hgt d hdm
          exact ⟨this, build_spec hg hR k n d (by omega)⟩
        generalize hr : runDeps (fun w d => build g R k n w d) w1 sc.deps = r at he
        obtain ⟨ok3, w3, cs⟩ := r
        obtain ⟨hi3, he3, hv3⟩ := runDeps_spec _ t sc.deps hspecs w1 ok3 w3 cs hi1 hr
        have hsame3 : w3.db t = w1.db t := (he3.above t (Nat.le_refl t)).1
        have hnv3 : ¬ VerR w3 R t := by unfold VerR; rw [hsame3]; exact hnv1
        cases ok3 with
        | false =>
          dsimp only at he; simp only [Prod.mk.injEq] at he
          obtain ⟨rfl, rfl⟩ := he
          have hform : setFailed w3 t R = upd w3 t (w3.fs t)
              { (if (w3.db t).stamp = some (curStamp w3 t) then w3.db t
                 else { w3.db t with stamp := some (curStamp w3 t), changed := some R })
                  with failed := some R, gen := decide (curStamp w3 t ≠ 0) } w3.clock := by
            unfold setFailed; exact setDb_eq_upd _ _ _
          rw [hform]
          refine ⟨?_, (hce.toBExt.trans (he3.mono (Nat.le_succ t))).trans (upd_BExt hnv3 _ _ _ (fun _ => rfl)), fun h => by cases h⟩
          apply Inv_upd hg hR hi3 hnv3
          · intro ch h
            by_cases hs : (w3.db t).stamp = some (curStamp w3 t)
            · simp only [hs, if_true] at h; exact hi3.chLe t ch h
            · simp only [hs, if_false] at h; cases h; exact Nat.le_refl _
          · intro ck h
            by_cases hs : (w3.db t).stamp = some (curStamp w3 t)
            · simp only [hs, if_true] at h; exact hi3.ckLe t ck h
            · simp only [hs, if_false] at h; exact hi3.ckLe t ck h
          · intro h; rw [hgt] at h; cases h
          · intro _
            by_cases hs : (w3.db t).stamp = some (curStamp w3 t)
            · simp only [hs, if_true]; exact hi3.stampCh t (by rw [hs]; simp)
            · simp only [hs, if_false]; simp
          · intro h; rw [hgt] at h; cases h
          · intro y hy; exact hi3.stampPos t y hy
          · left; simp
          · intro sc' _ hrc; unfold RecCur at hrc; rw [upd_db_self] at hrc; simp at hrc
          · intro hv; unfold VerR at hv; rw [upd_db_self] at hv; simp at hv
        | true =>
          dsimp only at he; simp only [Prod.mk.injEq] at he
          obtain ⟨rfl, rfl⟩ := he
          obtain ⟨hcs, hvs⟩ := hv3 rfl
          have hv : VerR (upd w3 t (some { content := .out sc.tag cs, stamp := w3.clock + 1 })
              { w3.db t with gen := true, stamp := some (w3.clock + 1), changed := some R, failed := none, deps := sc.deps }
              (w3.clock + 1)) R t := by
            unfold VerR; rw [upd_db_self]; exact ⟨rfl, Or.inr rfl⟩
          refine ⟨?_, (hce.toBExt.trans (he3.mono (Nat.le_succ t))).trans (upd_BExt hnv3 _ _ _ (fun h => by rw [hgt] at h; cases h)), fun _ => hv⟩
          have hdne : ∀ d ∈ sc.deps, d ≠ t := fun d hdm e => by have := hg t sc hgt d hdm; omega
          apply Inv_upd hg hR hi3 hnv3
          · intro ch h; simp at h; omega
          · intro ck h; exact hi3.ckLe t ck h
          · intro h; rw [hgt] at h; cases h
          · intro _; simp
          · intro h; rw [hgt] at h; cases h
          · intro y hy; cases hy; simp
          · exact Or.inr rfl
          · intro sc' hsc' _
            rw [hgt] at hsc'; cases hsc'
            refine ⟨rfl, rfl, cs, by simp [contentOf, upd], by rw [hcs]; simp, ?_⟩
            intro p hp hne
            exfalso; apply hne
            have hp1 : p.1 ∈ sc.deps := zip_fst_mem _ _ p hp
            rw [upd_contentOf_other _ _ _ _ _ (hdne p.1 hp1)]
            rw [hcs] at hp
            exact zip_map_snd (contentOf w3) sc.deps p hp
          · intro _
            refine ⟨?_, ?_, fun sc' hsc' d hdm => by
              rw [hgt] at hsc'; cases hsc'; exact hvs d hdm⟩
            · unfold RecCur; rw [upd_db_self]; exact ⟨rfl, by simp, by simp [curStamp, upd]⟩
            refine UpToDate.target hgt (fun d hdm => upToDate_upd hg hi3 hnv3 _ _ _ (d+1) d (Nat.lt_succ_self d) (hvs d hdm)) ?_
            simp only [upd, if_true]
            rw [hcs]
            simp only [Option.map_some]
            congr 2
            apply List.map_congr_left
            intro d hdm
            simp [contentOf, hdne d hdm]
end P

namespace P
/-- headline of the probe: a successful `redo-ifchange t` leaves `t` up to date, and the invariant holds afterwards -/
theorem build_sound {g R} (hg : Ordered g) (hR : 0 < R) {k n t w w'} (htk : t < k)
    (hi : Inv g R w) (he : build g R k n w t = (true, w')) : UpToDate g w'.fs t ∧ Inv g R w' := by
  obtain ⟨hi', _, hv⟩ := build_spec hg hR k n t htk w true w' hi he
  exact ⟨(hi'.ver t (hv rfl)).2.1, hi'⟩

/-- starting a new run keeps the invariant (nothing is verified yet in the new run) -/
theorem Inv.nextRun {g R w} (hi : Inv g R w) : Inv g (R+1) w := by
  refine ⟨fun f ch h => Nat.le_succ_of_le (hi.chLe f ch h), fun f ck h => Nat.le_succ_of_le (hi.ckLe f ck h),
    hi.srcNotGen, hi.stampCh, hi.srcFailed, hi.stampPos, hi.recA, ?_⟩
  intro f hv
  exfalso
  rcases hv.2 with h | h
  · have := hi.ckLe f _ h; omega
  · have := hi.chLe f _ h; omega
end P
