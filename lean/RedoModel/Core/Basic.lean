/-! Probe: simplified serial redo engine (plain targets, static DAG), to test the soundness invariant. -/
namespace P


inductive Content where
  | src (v : Nat)
  | out (tag : Nat) (ins : List (Option Content))

structure File where
  content : Content
  stamp : Nat            -- ≥ 1 by construction; 0 encodes "missing" in records

structure Rec where
  gen : Bool := false
  changed : Option Nat := none
  checked : Option Nat := none
  failed : Option Nat := none
  stamp : Option Nat := none
  deps : List Nat := []

structure World where
  fs : Nat → Option File
  db : Nat → Rec
  clock : Nat

structure Script where
  tag : Nat
  deps : List Nat

abbrev Graph := Nat → Option Script

def curStamp (w : World) (f : Nat) : Nat := match w.fs f with | some x => x.stamp | none => 0
def contentOf (w : World) (f : Nat) : Option Content := (w.fs f).map (·.content)

def setDb (w : World) (f : Nat) (r : Rec) : World :=
  { w with db := fun x => if x = f then r else w.db x }

def setChecked (w : World) (f : Nat) (R : Nat) : World :=
  setDb w f { w.db f with checked := some R }

/-- fold of the dirtiness check over a dependency list, stopping at the first dirty one -/
def foldDirty (chk : World → Nat → Bool × World) : World → List Nat → Bool × World
  | w, [] => (false, w)
  | w, d :: ds =>
    match chk w d with
    | (true, w') => (true, w')
    | (false, w') => foldDirty chk w' ds

/-- `deps.rs` private_is_dirty, plain targets only.  `true` = dirty. -/
def isDirty (R : Nat) : Nat → World → Nat → Nat → Bool × World
  | 0, w, _, _ => (true, w)
  | n+1, w, f, mx =>
    let r := w.db f
    if r.failed.isSome then (true, w) else
    match r.changed with
    | none => (true, w)
    | some ch =>
      if ch > mx then (true, w) else
      if r.checked = some R then (false, w) else
      if r.stamp ≠ some (curStamp w f) then (true, w) else
      let m := max ch (r.checked.getD 0)
      match foldDirty (fun w d => isDirty R n w d m) w (if r.gen then r.deps else []) with
      | (true, w') => (true, w')
      | (false, w') => (false, setChecked w' f R)

/-- set_static for a source -/
def setStatic (w : World) (f : Nat) (R : Nat) : World :=
  let r := w.db f
  let ns := curStamp w f
  if r.stamp = some ns then setDb w f { r with failed := none, gen := false }
  else setDb w f { r with stamp := some ns, changed := some R, failed := none, gen := false }

/-- set_failed: update_stamp(false) then failed := R -/
def setFailed (w : World) (f : Nat) (R : Nat) : World :=
  let r := w.db f
  let ns := curStamp w f
  let r1 := if r.stamp = some ns then r else { r with stamp := some ns, changed := some R }
  setDb w f { r1 with failed := some R, gen := decide (ns ≠ 0) }

/-- replace file and record of `t` -/
def upd (w : World) (t : Nat) (ft : Option File) (r' : Rec) (c' : Nat) : World :=
  { fs := fun x => if x = t then ft else w.fs x, db := fun x => if x = t then r' else w.db x, clock := c' }

/-- run `redo-ifchange d` for each declared dep in order, then read it -/
def runDeps (bld : World → Nat → Bool × World) : World → List Nat → Bool × World × List (Option Content)
  | w, [] => (true, w, [])
  | w, d :: ds =>
    match bld w d with
    | (false, w') => (false, w', [])
    | (true, w') =>
      let c := contentOf w' d
      match runDeps bld w' ds with
      | (ok, w'', cs) => (ok, w'', c :: cs)

def build (g : Graph) (R : Nat) (k : Nat) : Nat → World → Nat → Bool × World
  | 0, w, _ => (false, w)
  | n+1, w, t =>
    match isDirty R k w t R with
    | (false, w1) => (true, w1)
    | (true, w1) =>
      match g t with
      | none =>
        if (w1.fs t).isSome then (true, setStatic w1 t R) else (false, setFailed w1 t R)
      | some sc =>
        -- old edges stay visible during the build (delete_me); the new list is committed with the result
        match runDeps (fun w d => build g R k n w d) w1 sc.deps with
        | (false, w3, _) => (false, setFailed w3 t R)
        | (true, w3, cs) =>
          let st := w3.clock + 1
          let r' : Rec := { w3.db t with gen := true, stamp := some st, changed := some R, failed := none, deps := sc.deps }
          (true, upd w3 t (some { content := .out sc.tag cs, stamp := st }) r' st)
end P
