import RedoModel.Core.Dirty
namespace P

theorem fold_clean {g R} (hg : Ordered g) (n : Nat)
    (ih : ∀ d, d < n → ∀ w, Inv g R w → VerR w R d → ∃ w', isDirty R n w d R = (false, w')) :
    ∀ (ds : List Nat) w, Inv g R w → (∀ d ∈ ds, d < n ∧ VerR w R d) →
      ∃ w', foldDirty (fun w1 d => isDirty R n w1 d R) w ds = (false, w')
  | [], w, _, _ => ⟨w, rfl⟩
  | d :: ds, w, hi, hv => by
    obtain ⟨hdn, hdv⟩ := hv d (by simp)
    obtain ⟨w1, h1⟩ := ih d hdn w hi hdv
    obtain ⟨hi1, he1, _, _⟩ := isDirty_spec (R := R) hg n d R w false w1 hi h1
    obtain ⟨w2, h2⟩ := fold_clean hg n ih ds w1 hi1 (fun x hx =>
      ⟨(hv x (List.mem_cons_of_mem _ hx)).1, VerR_ext he1 (hv x (List.mem_cons_of_mem _ hx)).2⟩)
    refine ⟨w2, ?_⟩
    simp only [foldDirty, h1, h2]

/-- Lemma F: a file verified in this run is found clean (given fuel > id). -/
theorem verR_clean {g R} (hg : Ordered g) :
    ∀ n f, f < n → ∀ w, Inv g R w → VerR w R f → ∃ w', isDirty R n w f R = (false, w')
  | 0, f, h, _, _, _ => by omega
  | n+1, f, hfn, w, hi, hv => by
    obtain ⟨hrc, _, hdv⟩ := hi.ver f hv
    obtain ⟨hf, hc, hs⟩ := hrc
    cases hch : (w.db f).changed with
    | none => exact absurd hch hc
    | some ch =>
      have hle : ch ≤ R := hi.chLe f ch hch
      simp only [isDirty, hf, hch, Option.isSome_none, Bool.false_eq_true, if_false]
      have hng : ¬ ch > R := by omega
      simp only [hng, if_false]
      by_cases hck : (w.db f).checked = some R
      · simp only [hck, if_true]; exact ⟨w, rfl⟩
      · simp only [hck, if_false, hs, ne_eq, not_true_eq_false]
        have hchR : ch = R := by
          rcases hv.2 with h | h
          · exact absurd h hck
          · rw [hch] at h; cases h; rfl
        have hm : max ch ((w.db f).checked.getD 0) = R := by
          have : (w.db f).checked.getD 0 ≤ R := by
            cases hcc : (w.db f).checked with
            | none => simp
            | some ck => simpa using hi.ckLe f ck hcc
          omega
        rw [hm]
        have hds : ∀ d ∈ (if (w.db f).gen = true then (w.db f).deps else []), d < n ∧ VerR w R d := by
          intro d hd
          cases hgf : g f with
          | none => rw [hi.srcNotGen f hgf] at hd; simp at hd
          | some sc =>
            obtain ⟨h1, h2, _⟩ := hi.recA f sc hgf ⟨hf, hc, hs⟩
            rw [h1, h2] at hd; simp only [if_true] at hd
            have := hg f sc hgf d hd
            exact ⟨by omega, hdv sc hgf d hd⟩
        obtain ⟨w2, h2⟩ := fold_clean hg n (fun d hd w hi hv => verR_clean hg n d hd w hi hv) _ w hi hds
        rw [h2]
        exact ⟨_, rfl⟩

end P
