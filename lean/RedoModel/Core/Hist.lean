import RedoModel.Core.Basic
/-!
Histories over the plain-target core: what a user does between commands (edit or create a source,
remove any file) and the commands themselves (`redo-ifchange t…` as a new run).  Executable: this is
what the driver's `core-run` verb folds over a case, and what `Core/History.lean` proves C01 about.
-/
namespace P

inductive Op where
  | write (f v : Nat)        -- the user creates or edits file `f` (content `src v`, fresh stamp)
  | remove (f : Nat)         -- the user removes file `f` (source or target)
  | build (ts : List Nat)    -- a new run: `redo-ifchange ts`

/-- `redo-ifchange t…` at -j1 without --keep-going: targets in order, stop at the first failure. -/
def buildAll (g : Graph) (R k n : Nat) : World → List Nat → Bool × World
  | w, [] => (true, w)
  | w, t :: ts =>
    match build g R k n w t with
    | (false, w') => (false, w')
    | (true, w') => buildAll g R k n w' ts

structure HState where
  w : World
  R : Nat          -- the run id of the most recent run

def writeFile (w : World) (f v : Nat) : World :=
  { w with fs := fun x => if x = f then some { content := .src v, stamp := w.clock + 1 } else w.fs x,
           clock := w.clock + 1 }

def removeFile (w : World) (f : Nat) : World :=
  { w with fs := fun x => if x = f then none else w.fs x }

/-- One step of a history; the `Option Bool` is the command's outcome (`some true` = exit 0). -/
def step (g : Graph) (k n : Nat) (s : HState) : Op → HState × Option Bool
  | .write f v => ({ s with w := writeFile s.w f v }, none)
  | .remove f => ({ s with w := removeFile s.w f }, none)
  | .build ts =>
    match buildAll g (s.R + 1) k n s.w ts with
    | (ok, w') => ({ w := w', R := s.R + 1 }, some ok)

def run (g : Graph) (k n : Nat) : HState → List Op → HState
  | s, [] => s
  | s, op :: ops => run g k n (step g k n s op).1 ops

/-- A fresh project: no file, no record; run ids start above zero. -/
def init : HState := { w := { fs := fun _ => none, db := fun _ => {}, clock := 0 }, R := 1 }

/-- The hypotheses of C01 on a history: the user edits sources only (hand edits of generated
targets are C11's subject), and every file named is below the bound `k` given to the dirtiness
check as fuel. -/
def Op.WF (g : Graph) (k : Nat) : Op → Prop
  | .write f _ => g f = none ∧ f < k
  | .remove f => f < k
  | .build ts => ∀ t ∈ ts, t < k

end P
