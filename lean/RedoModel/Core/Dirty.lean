import RedoModel.Core.Sound
namespace P

/-- what one dirtiness call guarantees -/
def ChkSpec (g : Graph) (R m : Nat) (chk : World → Nat → Bool × World) (d : Nat) : Prop :=
  ∀ w b w', Inv g R w → chk w d = (b, w') →
    Inv g R w' ∧ CkExt R (d+1) w w' ∧ (b = true → CkExt R d w w') ∧ (b = false → VerR w' R d ∧ ¬ Detect w m d)

theorem foldDirty_spec {g R m} (chk : World → Nat → Bool × World) (bnd : Nat) :
    ∀ (ds : List Nat), (∀ d ∈ ds, d < bnd ∧ ChkSpec g R m chk d) →
    ∀ w b w', Inv g R w → foldDirty chk w ds = (b, w') →
      Inv g R w' ∧ CkExt R bnd w w' ∧ (b = false → ∀ d ∈ ds, VerR w' R d ∧ ¬ Detect w m d)
  | [], _, w, b, w', hi, he => by
    simp only [foldDirty, Prod.mk.injEq] at he
    obtain ⟨rfl, rfl⟩ := he
    exact ⟨hi, CkExt.refl _ _ _, fun _ d hd => by simp at hd⟩
  | d :: ds, hs, w, b, w', hi, he => by
    have hd := hs d (by simp)
    unfold foldDirty at he
    cases hc : chk w d with
    | mk b1 w1 =>
      rw [hc] at he
      obtain ⟨hi1, he1, _, hb1⟩ := hd.2 w b1 w1 hi hc
      cases b1 with
      | true =>
        simp only [Prod.mk.injEq] at he
        obtain ⟨rfl, rfl⟩ := he
        exact ⟨hi1, he1.mono hd.1, fun h => by cases h⟩
      | false =>
        simp only at he
        obtain ⟨hi2, he2, hb2⟩ := foldDirty_spec chk bnd ds (fun x hx => hs x (List.mem_cons_of_mem _ hx)) w1 b w' hi1 he
        refine ⟨hi2, (he1.mono hd.1).trans he2, fun hb x hx => ?_⟩
        simp only [List.mem_cons] at hx
        rcases hx with rfl | hx
        · exact ⟨VerR_ext he2 (hb1 rfl).1, (hb1 rfl).2⟩
        · obtain ⟨a, c⟩ := hb2 hb x hx
          exact ⟨a, fun hdet => c ((Detect_ext (he1.mono hd.1) m x).2 hdet)⟩

theorem isDirty_spec {g R} (hg : Ordered g) :
    ∀ n f mx, ChkSpec g R mx (fun w d => isDirty R n w d mx) f
  | 0, f, mx => by
    intro w b w' hi he
    simp only [isDirty, Prod.mk.injEq] at he
    obtain ⟨rfl, rfl⟩ := he
    exact ⟨hi, CkExt.refl _ _ _, fun _ => CkExt.refl _ _ _, fun h => by cases h⟩
  | n+1, f, mx => by
    intro w b w' hi he
    simp only [isDirty] at he
    split at he
    · simp only [Prod.mk.injEq] at he; obtain ⟨rfl, rfl⟩ := he
      exact ⟨hi, CkExt.refl _ _ _, fun _ => CkExt.refl _ _ _, fun h => by cases h⟩
    · rename_i hfail
      split at he
      · simp only [Prod.mk.injEq] at he; obtain ⟨rfl, rfl⟩ := he
        exact ⟨hi, CkExt.refl _ _ _, fun _ => CkExt.refl _ _ _, fun h => by cases h⟩
      · rename_i ch hch
        split at he
        · simp only [Prod.mk.injEq] at he; obtain ⟨rfl, rfl⟩ := he
          exact ⟨hi, CkExt.refl _ _ _, fun _ => CkExt.refl _ _ _, fun h => by cases h⟩
        · rename_i hle
          have hfn : (w.db f).failed = none := by
            cases hf : (w.db f).failed with
            | none => rfl
            | some _ => rw [hf] at hfail; simp at hfail
          split at he
          · -- already checked in this run
            rename_i hck
            simp only [Prod.mk.injEq] at he; obtain ⟨rfl, rfl⟩ := he
            have hv : VerR w R f := ⟨hfn, Or.inl hck⟩
            obtain ⟨hrc, _, _⟩ := hi.ver f hv
            refine ⟨hi, CkExt.refl _ _ _, (fun h => by cases h), fun _ => ⟨hv, ?_⟩⟩
            rintro (h | h | ⟨c, hc, hgt⟩ | h)
            · exact h hfn
            · rw [hch] at h; cases h
            · rw [hch] at hc; cases hc; exact hle hgt
            · exact h hrc.2.2
          · rename_i hnck
            split at he
            · simp only [Prod.mk.injEq] at he; obtain ⟨rfl, rfl⟩ := he
              exact ⟨hi, CkExt.refl _ _ _, fun _ => CkExt.refl _ _ _, fun h => by cases h⟩
            · rename_i hst
              have hst' : (w.db f).stamp = some (curStamp w f) := by
                by_cases h : (w.db f).stamp = some (curStamp w f)
                · exact h
                · exact absurd h hst
              have hrc : RecCur w f := ⟨hfn, by rw [hch]; simp, hst'⟩
              -- the dependency list that is walked
              have hMof : Mof (w.db f) = max ch ((w.db f).checked.getD 0) := by
                unfold Mof; rw [hch]; rfl
              have hdeps : ∀ d ∈ (if (w.db f).gen = true then (w.db f).deps else []),
                  d < f ∧ ChkSpec g R (max ch ((w.db f).checked.getD 0))
                    (fun w1 d => isDirty R n w1 d (max ch ((w.db f).checked.getD 0))) d := by
                intro d hd
                refine ⟨?_, isDirty_spec (R := R) hg n d _⟩
                cases hgf : g f with
                | none => rw [hi.srcNotGen f hgf] at hd; simp at hd
                | some sc =>
                  obtain ⟨h1, h2, _⟩ := hi.recA f sc hgf hrc
                  rw [h1, h2] at hd; simp only [if_true] at hd
                  exact hg f sc hgf d hd
              generalize hfold : foldDirty (fun w1 d => isDirty R n w1 d (max ch ((w.db f).checked.getD 0))) w
                  (if (w.db f).gen = true then (w.db f).deps else []) = r at he
              obtain ⟨b2, w2⟩ := r
              · 
                obtain ⟨hi2, he2, hb2⟩ := foldDirty_spec _ f _ hdeps w b2 w2 hi hfold
                cases b2 with
                | true =>
                  dsimp only at he; simp only [Prod.mk.injEq] at he; obtain ⟨rfl, rfl⟩ := he
                  exact ⟨hi2, he2.mono (Nat.le_succ f), fun _ => he2, fun h => by cases h⟩
                | false =>
                  dsimp only at he; simp only [Prod.mk.injEq] at he; obtain ⟨rfl, rfl⟩ := he
                  -- f's own record is untouched by the sub-calls (they only touch ids < f)
                  have hsame : w2.db f = w.db f := he2.above (Nat.le_refl f)
                  have hrc2 : RecCur w2 f := (RecCur_ext he2 f).2 hrc
                  have hd2 : ∀ sc, g f = some sc → ∀ d ∈ sc.deps, VerR w2 R d ∧ ¬ Detect w2 (Mof (w2.db f)) d := by
                    intro sc hgf d hd
                    obtain ⟨h1, h2, _⟩ := hi.recA f sc hgf hrc
                    have hmem : d ∈ (if (w.db f).gen = true then (w.db f).deps else []) := by
                      rw [h1, h2]; simpa using hd
                    obtain ⟨a, c⟩ := hb2 rfl d hmem
                    refine ⟨a, ?_⟩
                    rw [hsame, hMof, Detect_ext he2]; exact c
                  obtain ⟨hi3, hv3⟩ := hi2.setChecked hrc2 hd2
                  refine ⟨hi3, (he2.mono (Nat.le_succ f)).trans (setChecked_ext w2 f R), (fun h => by cases h), fun _ => ⟨hv3, ?_⟩⟩
                  rintro (h | h | ⟨c, hc, hgt⟩ | h)
                  · exact h hfn
                  · rw [hch] at h; cases h
                  · rw [hch] at hc; cases hc; exact hle hgt
                  · exact h hst'

end P
