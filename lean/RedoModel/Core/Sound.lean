import RedoModel.Core.Inv
namespace P

theorem zip_all_eq {α β} (F : α → β) : ∀ (l : List α) (cs : List β), cs.length = l.length →
    (∀ p ∈ List.zip l cs, p.2 = F p.1) → cs = l.map F
  | [], [], _, _ => rfl
  | [], _ :: _, h, _ => by simp at h
  | _ :: _, [], h, _ => by simp at h
  | a :: l, c :: cs, h, hp => by
    have h1 : c = F a := hp (a, c) (by simp)
    have h2 : cs = l.map F := zip_all_eq F l cs (by simpa using h) (fun p hp' => hp p (by
      simp only [List.zip_cons_cons, List.mem_cons]; exact Or.inr hp'))
    simp [h1, h2]

theorem zip_fst_mem {α β} : ∀ (l : List α) (cs : List β) (p : α × β), p ∈ List.zip l cs → p.1 ∈ l
  | [], _, p, h => by simp at h
  | _ :: _, [], p, h => by simp at h
  | a :: l, c :: cs, p, h => by
    simp only [List.zip_cons_cons, List.mem_cons] at h
    rcases h with rfl | h
    · simp
    · exact List.mem_cons_of_mem _ (zip_fst_mem l cs p h)

theorem setChecked_ext (w : World) (f R : Nat) : CkExt R (f+1) w (setChecked w f R) := by
  refine ⟨rfl, rfl, fun x => ?_⟩
  unfold setChecked setDb
  by_cases hx : x = f
  · subst hx; exact Or.inr ⟨Nat.lt_succ_self _, by simp⟩
  · exact Or.inl (by simp [hx])

theorem setChecked_self (w : World) (f R : Nat) : (setChecked w f R).db f = { w.db f with checked := some R } := by
  simp [setChecked, setDb]
theorem setChecked_other (w : World) (f R x : Nat) (h : x ≠ f) : (setChecked w f R).db x = w.db x := by
  simp [setChecked, setDb, h]

/-- marking a verified-clean file as checked preserves the invariant -/
theorem Inv.setChecked {g R w f} (h : Inv g R w) (hr : RecCur w f)
    (hd : ∀ sc, g f = some sc → ∀ d ∈ sc.deps, VerR w R d ∧ ¬ Detect w (Mof (w.db f)) d) :
    Inv g R (P.setChecked w f R) ∧ VerR (P.setChecked w f R) R f := by
  have hext := setChecked_ext w f R
  -- up-to-date-ness of f
  have hu : UpToDate g w.fs f := by
    cases hgf : g f with
    | none => exact UpToDate.source hgf
    | some sc =>
      obtain ⟨_, _, cs, hc, hlen, hz⟩ := h.recA f sc hgf hr
      have hall : ∀ p ∈ List.zip sc.deps cs, p.2 = contentOf w p.1 := by
        intro p hp
        by_cases he : p.2 = contentOf w p.1
        · exact he
        · exact absurd (hz p hp he) (hd sc hgf p.1 (zip_fst_mem _ _ p hp)).2
      have hcs := zip_all_eq (contentOf w) sc.deps cs hlen hall
      refine UpToDate.target hgf (fun d hdm => ((h.ver d (hd sc hgf d hdm).1).2.1)) ?_
      have : contentOf w f = some (.out sc.tag (sc.deps.map (contentOf w))) := by rw [hc, hcs]
      exact this
  have hv : VerR (P.setChecked w f R) R f := by
    unfold VerR; rw [setChecked_self]; exact ⟨hr.1, Or.inl rfl⟩
  refine ⟨⟨?_, ?_, ?_, ?_, ?_, ?_, ?_, ?_⟩, hv⟩
  · intro x ch hx
    have := (hext.fields x).2.1; rw [this] at hx; exact h.chLe x ch hx
  · intro x ck hx
    rcases (hext.fields x).2.2.2.2.2 with e | e
    · rw [e] at hx; exact h.ckLe x ck hx
    · rw [e] at hx; cases hx; exact Nat.le_refl _
  · intro x hx
    have := (hext.fields x).2.2.2.1; rw [this]; exact h.srcNotGen x hx
  · intro x hx
    obtain ⟨_, f2, f3, _, _, _⟩ := hext.fields x
    rw [f2]; rw [f3] at hx; exact h.stampCh x hx
  · intro x hg hx
    obtain ⟨f1, _, f3, _, _, _⟩ := hext.fields x
    rw [f3]; rw [f1] at hx; exact h.srcFailed x hg hx
  · intro x y hx
    rw [hext.1] at hx; exact h.stampPos x y hx
  · intro t sc hgt hrc
    have hrc' := (RecCur_ext hext t).1 hrc
    obtain ⟨h1, h2, cs, hc, hlen, hz⟩ := h.recA t sc hgt hrc'
    obtain ⟨_, _, _, f4, f5, _⟩ := hext.fields t
    refine ⟨by rw [f4]; exact h1, by rw [f5]; exact h2, cs, by rw [hext.contentOf]; exact hc, hlen, ?_⟩
    intro p hp hne
    rw [hext.contentOf] at hne
    by_cases htf : t = f
    · subst htf
      exact absurd (hz p hp hne) (hd sc hgt p.1 (zip_fst_mem _ _ p hp)).2
    · rw [setChecked_other w f R t htf, Detect_ext hext]
      exact hz p hp hne
  · intro x hx
    by_cases hxf : x = f
    · subst hxf
      refine ⟨(RecCur_ext hext x).2 hr, by rw [hext.1]; exact hu, fun sc hsc d hdm => VerR_ext hext (hd sc hsc d hdm).1⟩
    · have hx' : VerR w R x := by
        unfold VerR at hx ⊢; rw [setChecked_other w f R x hxf] at hx; exact hx
      obtain ⟨a, b, c⟩ := h.ver x hx'
      exact ⟨(RecCur_ext hext x).2 a, by rw [hext.1]; exact b, fun sc hsc d hdm => VerR_ext hext (c sc hsc d hdm)⟩

end P
