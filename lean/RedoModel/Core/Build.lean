import RedoModel.Core.Upd
namespace P

theorem setDb_eq_upd (w : World) (f : Nat) (r : Rec) : setDb w f r = upd w f (w.fs f) r w.clock := by
  unfold setDb upd
  congr 1
  funext x
  by_cases h : x = f <;> simp [h]

/-- frame of a build of a target `< b`: ids `≥ b` untouched, verified files stay verified and unchanged, sources' files untouched -/
structure BExt (g : Graph) (R b : Nat) (w w' : World) : Prop where
  above : ∀ x, b ≤ x → w'.db x = w.db x ∧ w'.fs x = w.fs x
  ver : ∀ x, VerR w R x → VerR w' R x ∧ w'.fs x = w.fs x
  src : ∀ x, g x = none → w'.fs x = w.fs x

theorem BExt.refl (g R b w) : BExt g R b w w := ⟨fun _ _ => ⟨rfl, rfl⟩, fun _ h => ⟨h, rfl⟩, fun _ _ => rfl⟩

theorem BExt.mono {g R b b' w w'} (h : BExt g R b w w') (hb : b ≤ b') : BExt g R b' w w' :=
  ⟨fun x hx => h.above x (Nat.le_trans hb hx), h.ver, h.src⟩

theorem BExt.trans {g R b w w' w''} (h1 : BExt g R b w w') (h2 : BExt g R b w' w'') : BExt g R b w w'' :=
  ⟨fun x hx => ⟨(h2.above x hx).1.trans (h1.above x hx).1, (h2.above x hx).2.trans (h1.above x hx).2⟩,
   fun x hv => ⟨(h2.ver x (h1.ver x hv).1).1, (h2.ver x (h1.ver x hv).1).2.trans (h1.ver x hv).2⟩,
   fun x hs => (h2.src x hs).trans (h1.src x hs)⟩

theorem CkExt.toBExt {g R b w w'} (h : CkExt R b w w') : BExt g R b w w' :=
  ⟨fun x hx => ⟨h.above hx, by rw [h.1]⟩, fun x hv => ⟨VerR_ext h hv, by rw [h.1]⟩, fun x _ => by rw [h.1]⟩

theorem upd_BExt {g R w t} (hnv : ¬ VerR w R t) (ft r' c') (hsrc : g t = none → ft = w.fs t) :
    BExt g R (t+1) w (upd w t ft r' c') := by
  refine ⟨fun x hx => ?_, fun x hv => ?_, fun x hs => ?_⟩
  · have : x ≠ t := by omega
    exact ⟨upd_db_other _ _ _ _ _ this, upd_fs_other _ _ _ _ _ this⟩
  · have : x ≠ t := fun e => hnv (e ▸ hv)
    refine ⟨?_, upd_fs_other _ _ _ _ _ this⟩
    unfold VerR; rw [upd_db_other _ _ _ _ _ this]; exact hv
  · by_cases hx : x = t
    · subst hx; rw [upd_fs_self]; exact hsrc hs
    · exact upd_fs_other _ _ _ _ _ hx

/-- if a source is reported dirty although fuel is available, its recorded stamp is not current or the file is missing -/
theorem dirty_src {g R w} (hi : Inv g R w) {k t w1} (hgt : g t = none)
    (hd : isDirty R (k+1) w t R = (true, w1)) : (w.db t).stamp ≠ some (curStamp w t) ∨ curStamp w t = 0 := by
  by_cases hs : (w.db t).stamp = some (curStamp w t)
  · right
    simp only [isDirty] at hd
    cases hf : (w.db t).failed with
    | some x =>
      have := hi.srcFailed t hgt (by rw [hf]; simp)
      rw [this] at hs; exact (Option.some.inj hs).symm
    | none =>
      rw [hf] at hd
      simp only [Option.isSome_none, Bool.false_eq_true, if_false] at hd
      cases hc : (w.db t).changed with
      | none => exact absurd hc (hi.stampCh t (by rw [hs]; simp))
      | some ch =>
        rw [hc] at hd
        have hle := hi.chLe t ch hc
        have hng : ¬ ch > R := by omega
        simp only [hng, if_false] at hd
        by_cases hck : (w.db t).checked = some R
        · simp [hck] at hd
        · simp only [hck, if_false, hs, ne_eq, not_true_eq_false, hi.srcNotGen t hgt, Bool.false_eq_true, foldDirty] at hd
          simp at hd
  · exact Or.inl hs

end P

namespace P

theorem zip_map_snd {α β} (F : α → β) : ∀ (l : List α) (p : α × β), p ∈ List.zip l (l.map F) → p.2 = F p.1
  | [], p, h => by simp at h
  | a :: l, p, h => by
    simp only [List.map_cons, List.zip_cons_cons, List.mem_cons] at h
    rcases h with rfl | h
    · rfl
    · exact zip_map_snd F l p h

def BldSpec (g : Graph) (R : Nat) (bld : World → Nat → Bool × World) (d : Nat) : Prop :=
  ∀ w ok w', Inv g R w → bld w d = (ok, w') →
    Inv g R w' ∧ BExt g R (d+1) w w' ∧ (ok = true → VerR w' R d)

theorem runDeps_spec {g R} (bld : World → Nat → Bool × World) (t : Nat) :
    ∀ ds, (∀ d ∈ ds, d < t ∧ BldSpec g R bld d) → ∀ w ok w' cs, Inv g R w → runDeps bld w ds = (ok, w', cs) →
      Inv g R w' ∧ BExt g R t w w' ∧ (ok = true → cs = ds.map (contentOf w') ∧ ∀ d ∈ ds, VerR w' R d)
  | [], _, w, ok, w', cs, hi, he => by
    simp only [runDeps, Prod.mk.injEq] at he
    obtain ⟨rfl, rfl, rfl⟩ := he
    exact ⟨hi, BExt.refl _ _ _ _, fun _ => ⟨rfl, fun d hd => by simp at hd⟩⟩
  | d :: ds, hs, w, ok, w', cs, hi, he => by
    obtain ⟨hdt, hspec⟩ := hs d (by simp)
    unfold runDeps at he
    generalize hb : bld w d = r at he
    obtain ⟨ok1, w1⟩ := r
    obtain ⟨hi1, he1, hv1⟩ := hspec w ok1 w1 hi hb
    cases ok1 with
    | false =>
      dsimp only at he; simp only [Prod.mk.injEq] at he
      obtain ⟨rfl, rfl, rfl⟩ := he
      exact ⟨hi1, he1.mono hdt, fun h => by cases h⟩
    | true =>
      dsimp only at he
      generalize hr : runDeps bld w1 ds = r2 at he
      obtain ⟨ok2, w2, cs2⟩ := r2
      dsimp only at he; simp only [Prod.mk.injEq] at he
      obtain ⟨rfl, rfl, rfl⟩ := he
      obtain ⟨hi2, he2, hv2⟩ := runDeps_spec bld t ds (fun x hx => hs x (List.mem_cons_of_mem _ hx)) w1 ok2 w2 cs2 hi1 hr
      refine ⟨hi2, (he1.mono hdt).trans he2, fun hok => ?_⟩
      obtain ⟨hcs, hvs⟩ := hv2 hok
      have hd2 := he2.ver d (hv1 rfl)
      refine ⟨?_, fun x hx => ?_⟩
      · simp only [List.map_cons, hcs]
        congr 1
        unfold contentOf; rw [hd2.2]
      · simp only [List.mem_cons] at hx
        rcases hx with rfl | hx
        · exact hd2.1
        · exact hvs x hx

end P
