import RedoModel.Core.Basic
namespace P

def Ordered (g : Graph) : Prop := ∀ t sc, g t = some sc → ∀ d ∈ sc.deps, d < t

inductive UpToDate (g : Graph) (fs : Nat → Option File) : Nat → Prop
  | source {f} : g f = none → UpToDate g fs f
  | target {t sc} : g t = some sc → (∀ d ∈ sc.deps, UpToDate g fs d) →
      (fs t).map (·.content) = some (.out sc.tag (sc.deps.map (fun d => (fs d).map (·.content)))) →
      UpToDate g fs t

def RecCur (w : World) (f : Nat) : Prop :=
  (w.db f).failed = none ∧ (w.db f).changed ≠ none ∧ (w.db f).stamp = some (curStamp w f)

/-- a change of `d` is visible to a parent whose max(changed,checked) is `M` -/
def Detect (w : World) (M : Nat) (d : Nat) : Prop :=
  (w.db d).failed ≠ none ∨ (w.db d).changed = none ∨
  (∃ ch, (w.db d).changed = some ch ∧ ch > M) ∨ (w.db d).stamp ≠ some (curStamp w d)

def Mof (r : Rec) : Nat := max (r.changed.getD 0) (r.checked.getD 0)

def VerR (w : World) (R : Nat) (f : Nat) : Prop :=
  (w.db f).failed = none ∧ ((w.db f).checked = some R ∨ (w.db f).changed = some R)

structure Inv (g : Graph) (R : Nat) (w : World) : Prop where
  chLe : ∀ f ch, (w.db f).changed = some ch → ch ≤ R
  ckLe : ∀ f ck, (w.db f).checked = some ck → ck ≤ R
  srcNotGen : ∀ f, g f = none → (w.db f).gen = false
  stampCh : ∀ f, (w.db f).stamp ≠ none → (w.db f).changed ≠ none
  srcFailed : ∀ f, g f = none → (w.db f).failed ≠ none → (w.db f).stamp = some 0
  stampPos : ∀ f x, w.fs f = some x → 1 ≤ x.stamp
  recA : ∀ t sc, g t = some sc → RecCur w t →
      (w.db t).gen = true ∧ (w.db t).deps = sc.deps ∧
      ∃ cs, contentOf w t = some (.out sc.tag cs) ∧ cs.length = sc.deps.length ∧
        ∀ p ∈ List.zip sc.deps cs, p.2 ≠ contentOf w p.1 → Detect w (Mof (w.db t)) p.1
  ver : ∀ f, VerR w R f → RecCur w f ∧ UpToDate g w.fs f ∧
      (∀ sc, g f = some sc → ∀ d ∈ sc.deps, VerR w R d)

/-- `w'` differs from `w` only by `checked := some R` on some ids `< b` -/
def CkExt (R : Nat) (b : Nat) (w w' : World) : Prop :=
  w'.fs = w.fs ∧ w'.clock = w.clock ∧
  ∀ x, w'.db x = w.db x ∨ (x < b ∧ w'.db x = { w.db x with checked := some R })

theorem CkExt.refl (R b w) : CkExt R b w w := ⟨rfl, rfl, fun _ => Or.inl rfl⟩

theorem CkExt.mono {R b b' w w'} (h : CkExt R b w w') (hb : b ≤ b') : CkExt R b' w w' :=
  ⟨h.1, h.2.1, fun x => (h.2.2 x).imp id (fun ⟨hx, e⟩ => ⟨Nat.lt_of_lt_of_le hx hb, e⟩)⟩

theorem CkExt.trans {R b w w' w''} (h1 : CkExt R b w w') (h2 : CkExt R b w' w'') : CkExt R b w w'' := by
  refine ⟨h2.1.trans h1.1, h2.2.1.trans h1.2.1, fun x => ?_⟩
  rcases h1.2.2 x with e1 | ⟨hx1, e1⟩ <;> rcases h2.2.2 x with e2 | ⟨hx2, e2⟩
  · exact Or.inl (e2.trans e1)
  · exact Or.inr ⟨hx2, by rw [e2, e1]⟩
  · exact Or.inr ⟨hx1, by rw [e2, e1]⟩
  · exact Or.inr ⟨hx1, by rw [e2, e1]⟩

theorem CkExt.curStamp {R b w w'} (h : CkExt R b w w') (f) : curStamp w' f = curStamp w f := by
  unfold P.curStamp; rw [h.1]
theorem CkExt.contentOf {R b w w'} (h : CkExt R b w w') (f) : contentOf w' f = contentOf w f := by
  unfold P.contentOf; rw [h.1]

/-- fields other than `checked` are preserved -/
theorem CkExt.fields {R b w w'} (h : CkExt R b w w') (x) :
    (w'.db x).failed = (w.db x).failed ∧ (w'.db x).changed = (w.db x).changed ∧
    (w'.db x).stamp = (w.db x).stamp ∧ (w'.db x).gen = (w.db x).gen ∧ (w'.db x).deps = (w.db x).deps ∧
    ((w'.db x).checked = (w.db x).checked ∨ (w'.db x).checked = some R) := by
  rcases h.2.2 x with e | ⟨_, e⟩ <;> rw [e] <;> simp

theorem CkExt.above {R b w w'} (h : CkExt R b w w') {x} (hx : b ≤ x) : w'.db x = w.db x := by
  rcases h.2.2 x with e | ⟨hx', _⟩
  · exact e
  · omega

theorem Detect_ext {R b w w'} (h : CkExt R b w w') (M d) : Detect w' M d ↔ Detect w M d := by
  obtain ⟨f1, f2, f3, _, _, _⟩ := h.fields d
  unfold Detect; rw [f1, f2, f3, h.curStamp]

theorem RecCur_ext {R b w w'} (h : CkExt R b w w') (f) : RecCur w' f ↔ RecCur w f := by
  obtain ⟨f1, f2, f3, _, _, _⟩ := h.fields f
  unfold RecCur; rw [f1, f2, f3, h.curStamp]

theorem VerR_ext {R b w w'} (h : CkExt R b w w') {f} (hv : VerR w R f) : VerR w' R f := by
  obtain ⟨f1, f2, _, _, _, f6⟩ := h.fields f
  unfold VerR at *; rw [f1, f2]
  refine ⟨hv.1, ?_⟩
  rcases hv.2 with h1 | h1
  · rcases f6 with e | e
    · exact Or.inl (e.trans h1)
    · exact Or.inl e
  · exact Or.inr h1

end P
