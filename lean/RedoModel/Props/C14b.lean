import RedoModel.Lemmas.DepsIfcreate3
import RedoModel.Lemmas.DepsOwned
/-!
# C14 at the level of whole top-level commands

"A target that declared `redo-ifcreate F` is rebuilt by the next redo-ifchange after F comes into existence and
not before; a target that declared `redo-always` is rebuilt by every top-level run that needs it, exactly once
per run however many dependents request it."

Property theorems only (one-line applications); proofs in `RedoModel/Lemmas/DepsTrace.lean`,
`DepsIfcreate.lean`, `DepsIfcreate2.lean`.  Vocabulary (all in `RedoModel.Deps`):

* `Current w t` — the record of `t` says "built successfully in an earlier run, file as recorded":
  generated, not overridden, not failed, `changed = some ch` with `ch ≤ w.runCounter`, `checked` none or
  `≤ w.runCounter`, recorded stamp = `readStamp w t`.
* `RanIn t w w'` — `w'.trace = pre ++ w.trace` with `.ran t ∈ pre`: the script of `t` was executed between `w`
  and `w'` (stronger than `.ran t ∈ w'.trace`, which an earlier build already makes true).
* `QuietDep w t d0` — the row `d0` of `t` gives no reason to rebuild: a `c` row whose source does not exist; an
  `m` row on a plain source (not `//ALWAYS`, record not generated, not failed, changed no later than
  `mark (w.recs t) = max changed checked`, stamp current).
* `QuietExt w w'` — same files, rows, clock, programs, rules; the new part of the trace has no `.ran`.
* `AlwaysFresh w R` — the `//ALWAYS` record as `redo-always` leaves it in run `R`.

All defect switches are arbitrary in every theorem.
-/
namespace C14
open RedoModel.Deps RedoModel.Generated

/-- **ifcreate fires.**  `t` has a current record, a `c` row (declared by `redo-ifcreate`, or an absent
higher-priority .do candidate) whose source now exists, and still some existing .do candidate.  Then the
top-level `redo-ifchange t` executes `t`'s script — or exits with the cyclic-dependency status (208) because a
row that SQLite yields before the `c` row runs into a dependency cycle.  It never answers "up to date", and
never takes the out-of-band (`redo-unlocked`) path: the `c` row turns any pending `need` into `dirty`. -/
theorem ifcreate_fires (d : Defects) (n : Nat) (kg : Bool) (w : World) (t : Nat) (ht : t ≠ alwaysId)
    (hcur : Current w t) (d0 : Dep) (hd : d0 ∈ w.deps) (hdt : d0.target = t) (hm : d0.modeM = false)
    (hF : existsF w d0.source = true) (hdo : ∃ c ∈ w.rules t, existsF w c = true) :
    (runCmd d n (.ifchange [t] kg) w).1.status = EXIT_CYCLIC_DEPENDENCY ∨
    RanIn t w (runCmd d n (.ifchange [t] kg) w).2 :=
  runCmd_fires d n kg w t ht hcur d0 hd hdt (Or.inl ⟨hm, hF⟩) hdo

/-- The form asked for: exit status 0 implies the script of `t` was executed by this command. -/
theorem ifcreate_fires_of_success (d : Defects) (n : Nat) (kg : Bool) (w : World) (t : Nat) (ht : t ≠ alwaysId)
    (hcur : Current w t) (d0 : Dep) (hd : d0 ∈ w.deps) (hdt : d0.target = t) (hm : d0.modeM = false)
    (hF : existsF w d0.source = true) (hdo : ∃ c ∈ w.rules t, existsF w c = true)
    (h0 : (runCmd d n (.ifchange [t] kg) w).1.status = 0) :
    RanIn t w (runCmd d n (.ifchange [t] kg) w).2 :=
  runCmd_fires_of_zero d n kg w t ht hcur d0 hd hdt (Or.inl ⟨hm, hF⟩) hdo h0

/-- **… and not before.**  Current record, every `c` row's source still absent, every `m` row on an unchanged
plain source: the top-level `redo-ifchange t` exits 0, executes no script, and changes no file (nor any
dependency row). -/
theorem ifcreate_not_before (d : Defects) (n : Nat) (kg : Bool) (w : World) (t : Nat) (ht : t ≠ alwaysId)
    (hcur : Current w t) (hq : ∀ d0 ∈ w.deps, d0.target = t → QuietDep w t d0) :
    (runCmd d n (.ifchange [t] kg) w).1.status = 0 ∧ QuietExt w (runCmd d n (.ifchange [t] kg) w).2 :=
  runCmd_quiet d n kg w t ht hcur hq

/-- **always, every run.**  `t` has a current record and a row on `//ALWAYS`: every top-level `redo-ifchange t`
executes `t`'s script (or exits 208, as above).  No condition on the `//ALWAYS` record is needed: its snapshot
reads as changed in the current run, which is newer than any mark of an earlier run — and were it failed, that
is dirty too. -/
theorem always_every_run (d : Defects) (n : Nat) (kg : Bool) (w : World) (t : Nat) (ht : t ≠ alwaysId)
    (hcur : Current w t) (d0 : Dep) (hd : d0 ∈ w.deps) (hdt : d0.target = t) (hm : d0.modeM = true)
    (hs : d0.source = alwaysId) (hdo : ∃ c ∈ w.rules t, existsF w c = true) :
    (runCmd d n (.ifchange [t] kg) w).1.status = EXIT_CYCLIC_DEPENDENCY ∨
    RanIn t w (runCmd d n (.ifchange [t] kg) w).2 :=
  runCmd_fires d n kg w t ht hcur d0 hd hdt (Or.inr ⟨hm, hs⟩) hdo

theorem always_every_run_of_success (d : Defects) (n : Nat) (kg : Bool) (w : World) (t : Nat) (ht : t ≠ alwaysId)
    (hcur : Current w t) (d0 : Dep) (hd : d0 ∈ w.deps) (hdt : d0.target = t) (hm : d0.modeM = true)
    (hs : d0.source = alwaysId) (hdo : ∃ c ∈ w.rules t, existsF w c = true)
    (h0 : (runCmd d n (.ifchange [t] kg) w).1.status = 0) :
    RanIn t w (runCmd d n (.ifchange [t] kg) w).2 :=
  runCmd_fires_of_zero d n kg w t ht hcur d0 hd hdt (Or.inr ⟨hm, hs⟩) hdo h0

/-- **always, once per run (local form).**  After `t` was rebuilt in run `R = cx.runid` (record `changed = R`,
stamp current, `//ALWAYS` as `redo-always` left it; or `checked = R` after a `redo-stamp` that found the same
checksum), the `should_build` of any further dependent's `redo-ifchange t` in the same run answers `clean`
— so the job is `done 0` without `start_self` — provided `t`'s other rows are quiet. -/
theorem always_once (cx : Ctx) (m : Nat) (hm : 0 < m) (t : Nat) (w : World) (hr : cx.isRedo = false)
    (ht : t ≠ alwaysId) (hg : (w.recs t).isGenerated = true) (hf : (w.recs t).failed = none)
    (h : (cx.runid ≠ 0 ∧ (w.recs t).checked = some cx.runid ∧ ∃ ch, (w.recs t).changed = some ch ∧ ch ≤ cx.runid) ∨
      ((w.recs t).changed = some cx.runid ∧ (w.recs t).stamp = some (readStamp w t) ∧ AlwaysFresh w cx.runid ∧
        ∀ d0 ∈ w.deps, d0.target = t → (d0.modeM = true ∧ d0.source = alwaysId) ∨ QuietDep w t d0)) :
    (shouldBuild cx (m + 1) t w).1 = some .clean :=
  shouldBuild_after_rebuild cx m hm t w hr ht hg hf h

/-- … hence that job runs nothing. -/
theorem always_once_job (E : Engine) (d : Defects) (cx : Ctx) (m : Nat) (hm : 0 < m) (t : Nat) (w : World)
    (hr : cx.isRedo = false)
    (ht : t ≠ alwaysId) (hg : (w.recs t).isGenerated = true) (hf : (w.recs t).failed = none)
    (h : (cx.runid ≠ 0 ∧ (w.recs t).checked = some cx.runid ∧ ∃ ch, (w.recs t).changed = some ch ∧ ch ≤ cx.runid) ∨
      ((w.recs t).changed = some cx.runid ∧ (w.recs t).stamp = some (readStamp w t) ∧ AlwaysFresh w cx.runid ∧
        ∀ d0 ∈ w.deps, d0.target = t → (d0.modeM = true ∧ d0.source = alwaysId) ∨ QuietDep w t d0)) :
    (buildJob E d cx (m + 1) t w).1 = .done 0 ∧ QuietExt w (buildJob E d cx (m + 1) t w).2 := by
  rw [buildJob_of_clean E d cx _ t w (shouldBuild_after_rebuild cx m hm t w hr ht hg hf h)]
  exact ⟨rfl, shouldBuild_rel QuietExt.dirtyRel cx _ t w⟩

/-- **always, once per run, for each further dependent.**  `RebuiltIn R t w` bundles the hypothesis of
`always_once`.  In the run in which `t` was rebuilt, the `redo-ifchange t` run by the script of another
dependent `p` exits 0 and only records the row `p → t`: no script is executed, no file changes. -/
theorem always_once_cmd (d : Defects) (n : Nat) (hn : 0 < n) (cx : Ctx) (p t : Nat) (w : World)
    (hp : cx.parent = some p) (hpt : p ≠ t) (hu : cx.unlocked = false) (hcy : t ∉ cx.cycles)
    (hr : cx.isRedo = false) (ht : t ≠ alwaysId) (hb : RebuiltIn cx.runid t w) :
    ((engine d (n + 1)).ifchangeCmd cx [t] w).1 = 0 ∧
    QuietExt (addDep (addKnown w p) p t true) ((engine d (n + 1)).ifchangeCmd cx [t] w).2 :=
  ifchangeCmd_after_rebuild d n hn cx p t w hp hpt hu hcy hr ht hb

/-- **always, once per run, however many dependents.**  `Dependent R t cx`: a process of run `R` whose parent
is some `p ≠ t`, not `redo-unlocked`, `t` not among its `REDO_CYCLES`, not `redo`.  After `t` was rebuilt in
run `R ≠ 0` (run ids start at 1), any number of such processes may run `redo-ifchange t` one after the other
(`runDependents`): every command exits 0, no script is executed, no file changes — and `t` is still
`RebuiltIn R` afterwards. -/
theorem always_once_many (d : Defects) (n : Nat) (hn : 0 < n) (R t : Nat) (ht : t ≠ alwaysId) (h0 : R ≠ 0)
    (cxs : List Ctx) (w : World) (hc : ∀ cx ∈ cxs, Dependent R t cx) (hb : RebuiltIn R t w) :
    (∀ rv ∈ (runDependents d n t cxs w).1, rv = 0) ∧ NoRun w (runDependents d n t cxs w).2 ∧
    RebuiltIn R t (runDependents d n t cxs w).2 :=
  many_dependents d n hn R t ht h0 cxs w hc hb

/-- `redo-always` establishes the part of `AlwaysFresh` that concerns the record, and the row. -/
theorem always_declares (cx : Ctx) (t : Nat) (sc : Script) (w : World) (ha : sc.always = true)
    (hng : (w.recs alwaysId).isGenerated = false) :
    ((rsAlways cx t sc w).recs alwaysId).failed = none ∧ ((rsAlways cx t sc w).recs alwaysId).changed = some cx.runid ∧
    ((rsAlways cx t sc w).recs alwaysId).stamp = some .missing ∧
    ((rsAlways cx t sc w).recs alwaysId).isGenerated = false ∧
    { target := t, source := alwaysId, modeM := true, deleteMe := false } ∈ (rsAlways cx t sc w).deps :=
  rsAlways_fresh cx t sc w ha hng

/-! ### Non-vacuity: concrete histories from `initWorld`

The kernel cannot unfold `List.mergeSort` (well-founded recursion) on two or more rows, so a command that
re-checks a built target is evaluated in two steps: the outermost `isDirty` is unfolded by `rw`, its row list
is given by `depsOf_pair`, the rest is `decide +kernel`.

ifcreate.  Files: 2 = `t.do`, 3 = the target `t`, 4 = `F`.  `t.do` is `redo-ifcreate F; output`. -/

instance decExLe (o : Option Nat) (m : Nat) : Decidable (∃ c, o = some c ∧ c ≤ m) :=
  match o with
  | none => isFalse (fun ⟨_, h, _⟩ => by cases h)
  | some c => if h : c ≤ m then isTrue ⟨c, rfl, h⟩ else isFalse (fun ⟨_, h1, h2⟩ => by cases h1; exact h h2)

instance (w : World) (t : Nat) (d0 : Dep) : Decidable (QuietDep w t d0) := by unfold QuietDep; exact inferInstance

theorem current_of (w : World) (t ch : Nat) (h1 : (w.recs t).isGenerated = true) (h2 : (w.recs t).isOverride = false)
    (h3 : (w.recs t).failed = none) (h4 : (w.recs t).changed = some ch) (h5 : ch ≤ w.runCounter)
    (h6 : (w.recs t).checked = none ∨ ∃ c, (w.recs t).checked = some c ∧ c ≤ w.runCounter)
    (h7 : (w.recs t).stamp = some (readStamp w t)) : Current w t :=
  ⟨h1, h2, h3, ⟨ch, h4, h5⟩, (fun c hc => by
    rcases h6 with h | ⟨c', h, hle⟩
    · rw [h] at hc; cases hc
    · rw [h] at hc; cases hc; exact hle), h7⟩

def icRules : Nat → List Nat := fun t => if t = 3 then [2] else []

/-- `t` built once; `F` does not exist. -/
def icA : World :=
  runOps {} 5 [.write 2 0, .setProg (srcContent 0) { ifcreate := [4], tag := 7 }, .cmd (.ifchange [3] false)]
    (initWorld icRules)

/-- … then the user creates `F`. -/
def icB : World := runOps {} 5 [.write 4 1] icA

theorem icA_current : Current icA 3 :=
  current_of icA 3 1 (by decide +kernel) (by decide +kernel) (by decide +kernel) (by decide +kernel)
    (by decide +kernel) (Or.inl (by decide +kernel)) (by decide +kernel)

theorem icB_current : Current icB 3 :=
  current_of icB 3 1 (by decide +kernel) (by decide +kernel) (by decide +kernel) (by decide +kernel)
    (by decide +kernel) (Or.inl (by decide +kernel)) (by decide +kernel)

/-- Before `F` exists: the hypotheses of `ifcreate_not_before` hold on `icA` (rows of `t`: the `c` row on `F`
and the `m` row on `t.do`), so the next `redo-ifchange t` does nothing. -/
example : (runCmd {} 5 (.ifchange [3] false) icA).1.status = 0 ∧
    QuietExt icA (runCmd {} 5 (.ifchange [3] false) icA).2 :=
  ifcreate_not_before {} 5 false icA 3 (by decide) icA_current (by decide +kernel)

/-- After `F` was created: the hypotheses of `ifcreate_fires` hold on `icB`. -/
example : (runCmd {} 5 (.ifchange [3] false) icB).1.status = EXIT_CYCLIC_DEPENDENCY ∨
    RanIn 3 icB (runCmd {} 5 (.ifchange [3] false) icB).2 :=
  ifcreate_fires {} 5 false icB 3 (by decide) icB_current
    { target := 3, source := 4, modeM := false, deleteMe := false } (by decide +kernel) rfl rfl (by decide +kernel)
    ⟨2, (by decide +kernel), (by decide +kernel)⟩

/-- Checked independently by evaluation: the script ran a second time — and since it declares `redo-ifcreate F`
for the now existing `F`, this rebuild fails with status 1 (`ifcreate_existing_is_error` seen from the command). -/
example : (runCmd {} 5 (.ifchange [3] false) icB).2.trace = [.ran 3, .ran 3] ∧
    (runCmd {} 5 (.ifchange [3] false) icB).1.status = 1 := by
  have hf : (addKnown (nextRun icB) 3).deps.filter (fun d => d.target = 3) =
      [⟨3, 4, false, false⟩, ⟨3, 2, true, false⟩] := by decide +kernel
  rw [runCmd_ifchange_single]
  unfold buildJob shouldBuild
  simp only [Bool.false_eq_true, if_false]
  rw [show (2 * 5 + 4 : Nat) = 13 + 1 from rfl, isDirty]
  simp only [depsWithRecs, depsOf_pair _ _ _ _ _ hf]
  decide +kernel

/-- The hypothesis "some .do candidate of `t` still exists" is needed: remove `t.do` as well and the same
command exits 0 *without* executing anything (`t` silently becomes a source file). -/
example : (runCmd {} 5 (.ifchange [3] false) (runOps {} 5 [.remove 2] icB)).2.trace = [.ran 3] ∧
    (runCmd {} 5 (.ifchange [3] false) (runOps {} 5 [.remove 2] icB)).1.status = 0 := by
  have hf : (addKnown (nextRun (runOps {} 5 [.remove 2] icB)) 3).deps.filter (fun d => d.target = 3) =
      [⟨3, 4, false, false⟩, ⟨3, 2, true, false⟩] := by decide +kernel
  rw [runCmd_ifchange_single]
  unfold buildJob shouldBuild
  simp only [Bool.false_eq_true, if_false]
  rw [show (2 * 5 + 4 : Nat) = 13 + 1 from rfl, isDirty]
  simp only [depsWithRecs, depsOf_pair _ _ _ _ _ hf]
  decide +kernel

/-- The same with the usual idiom `if [ -e F ]; then redo-ifchange F; else redo-ifcreate F; fi`: after `F` is
created the rebuild succeeds. -/
def icC : World :=
  runOps {} 5 [.write 2 0, .setProg (srcContent 0) { cond := [4], tag := 7 }, .cmd (.ifchange [3] false),
    .write 4 1] (initWorld icRules)

example : Current icC 3 ∧ (⟨3, 4, false, false⟩ : Dep) ∈ icC.deps ∧ existsF icC 4 = true :=
  ⟨current_of icC 3 1 (by decide +kernel) (by decide +kernel) (by decide +kernel) (by decide +kernel)
    (by decide +kernel) (Or.inl (by decide +kernel)) (by decide +kernel), (by decide +kernel), (by decide +kernel)⟩

example : (runCmd {} 5 (.ifchange [3] false) icC).2.trace = [.ran 3, .ran 3] ∧
    (runCmd {} 5 (.ifchange [3] false) icC).1.status = 0 := by
  have hf : (addKnown (nextRun icC) 3).deps.filter (fun d => d.target = 3) =
      [⟨3, 4, false, false⟩, ⟨3, 2, true, false⟩] := by decide +kernel
  rw [runCmd_ifchange_single]
  unfold buildJob shouldBuild
  simp only [Bool.false_eq_true, if_false]
  rw [show (2 * 5 + 4 : Nat) = 13 + 1 from rfl, isDirty]
  simp only [depsWithRecs, depsOf_pair _ _ _ _ _ hf]
  decide +kernel

/-- The `cyclic` alternative of `ifcreate_fires` is real in the model (a hand-made state, not a history): `t = 3`
and `4` depend on each other, both records current; the row on `4` comes before the `c` row on `5`. -/
def cycW : World :=
  { fs := fun f => if f = 2 ∨ f = 3 ∨ f = 4 ∨ f = 5 then some { content := [], ms := 1, rest := 0 } else none,
    recs := fun f => if f = 3 ∨ f = 4 then
        { row := f, isGenerated := true, changed := some 1, stamp := some (.st 1 0) } else { row := f },
    deps := [⟨3, 4, true, false⟩, ⟨4, 3, true, false⟩, ⟨3, 5, false, false⟩],
    runCounter := 1, clock := 1, nextRow := 6, progs := fun _ => none, rules := fun _ => [2], trace := [] }

example : Current cycW 3 ∧ (⟨3, 5, false, false⟩ : Dep) ∈ cycW.deps ∧ existsF cycW 5 = true ∧
    (∃ c ∈ cycW.rules 3, existsF cycW c = true) :=
  ⟨current_of cycW 3 1 (by decide +kernel) (by decide +kernel) (by decide +kernel) (by decide +kernel)
    (by decide +kernel) (Or.inl (by decide +kernel)) (by decide +kernel), (by decide +kernel), (by decide +kernel),
    ⟨2, (by decide +kernel), (by decide +kernel)⟩⟩

example : (runCmd {} 6 (.ifchange [3] false) cycW).1.status = EXIT_CYCLIC_DEPENDENCY ∧
    (runCmd {} 6 (.ifchange [3] false) cycW).2.trace = [] := by
  have hf : (addKnown (nextRun cycW) 3).deps.filter (fun d => d.target = 3) =
      [⟨3, 4, true, false⟩, ⟨3, 5, false, false⟩] := by decide +kernel
  rw [runCmd_ifchange_single]
  unfold buildJob shouldBuild
  simp only [Bool.false_eq_true, if_false]
  rw [show (2 * 6 + 4 : Nat) = 15 + 1 from rfl, isDirty]
  simp only [depsWithRecs, depsOf_pair _ _ _ _ _ hf]
  decide +kernel

/-! always.  Files: 1, 2, 3 = the .do files of 5, 6, 7; `5.do` and `6.do` are `redo-ifchange 7; output`,
`7.do` is `redo-always; output`. -/

def alRules : Nat → List Nat := fun t => if t = 5 then [1] else if t = 6 then [2] else if t = 7 then [3] else []

def al0 : World :=
  runOps {} 8 [.write 1 0, .write 2 1, .write 3 2,
    .setProg (srcContent 0) { ifchange := [[7]], tag := 1 }, .setProg (srcContent 1) { ifchange := [[7]], tag := 2 },
    .setProg (srcContent 2) { always := true, tag := 3 }] (initWorld alRules)

/-- After `redo-ifchange 5` (run 1): 5 was built, and with it 7.  This is also the state *in the middle* of a run
`redo-ifchange 5 6`, at the moment the second dependent 6 is about to ask for 7. -/
def alM : World := runOps {} 8 [.cmd (.ifchange [5] false)] al0

example : alM.trace = [.ran 7, .ran 5] ∧ alM.runCounter = 1 ∧ (alM.recs 7).checked = none := by decide +kernel

theorem alM_current : Current alM 7 :=
  current_of alM 7 1 (by decide +kernel) (by decide +kernel) (by decide +kernel) (by decide +kernel)
    (by decide +kernel) (Or.inl (by decide +kernel)) (by decide +kernel)

/-- `always_every_run` applies to that state: a later run that needs 7 rebuilds it … -/
example : (runCmd {} 8 (.ifchange [7] false) alM).1.status = EXIT_CYCLIC_DEPENDENCY ∨
    RanIn 7 alM (runCmd {} 8 (.ifchange [7] false) alM).2 :=
  always_every_run {} 8 false alM 7 (by decide) alM_current
    { target := 7, source := 0, modeM := true, deleteMe := false } (by decide +kernel) rfl rfl rfl
    ⟨3, (by decide +kernel), (by decide +kernel)⟩

/-- … (checked independently by evaluation: run 2 executes 7's script again, successfully). -/
example : (runCmd {} 8 (.ifchange [7] false) alM).2.trace = [.ran 7, .ran 7, .ran 5] ∧
    (runCmd {} 8 (.ifchange [7] false) alM).1.status = 0 := by
  have hf : (addKnown (nextRun alM) 7).deps.filter (fun d => d.target = 7) =
      [⟨7, 0, true, false⟩, ⟨7, 3, true, false⟩] := by decide +kernel
  rw [runCmd_ifchange_single]
  unfold buildJob shouldBuild
  simp only [Bool.false_eq_true, if_false]
  rw [show (2 * 8 + 4 : Nat) = 19 + 1 from rfl, isDirty]
  simp only [depsWithRecs, depsOf_pair _ _ _ _ _ hf]
  decide +kernel

theorem alM_fresh : AlwaysFresh alM 1 :=
  ⟨(by decide +kernel), (by decide +kernel), (by decide +kernel), (by decide +kernel),
   (fun c h => by
     have h' : (alM.recs alwaysId).changed = some 1 := by decide +kernel
     rw [h'] at h; cases h; exact Nat.le_refl 1)⟩

/-- Within run 1 the hypothesis of the once-per-run theorems holds (second alternative: `changed = R`, not yet
checked; rows of 7: the one on `//ALWAYS` and the quiet one on `7.do`). -/
theorem alM_rebuilt : RebuiltIn 1 7 alM :=
  ⟨(by decide +kernel), (by decide +kernel),
   Or.inr ⟨(by decide +kernel), (by decide +kernel), alM_fresh, (by decide +kernel)⟩⟩

/-- `always_once`: the second dependent's `should_build 7` (same run id 1) answers `clean` … -/
example : (shouldBuild { runid := 1, parent := some 6, cycles := [6] } 20 7 alM).1 = some .clean :=
  always_once { runid := 1, parent := some 6, cycles := [6] } 19 (by decide) 7 alM rfl (by decide)
    alM_rebuilt.1 alM_rebuilt.2.1 alM_rebuilt.2.2

/-- … and `always_once_cmd`: the `redo-ifchange 7` inside `6.do` exits 0 without executing anything. -/
example : ((engine {} 20).ifchangeCmd { runid := 1, parent := some 6, cycles := [6] } [7] alM).1 = 0 ∧
    QuietExt (addDep (addKnown alM 6) 6 7 true)
      ((engine {} 20).ifchangeCmd { runid := 1, parent := some 6, cycles := [6] } [7] alM).2 :=
  always_once_cmd {} 19 (by decide) { runid := 1, parent := some 6, cycles := [6] } 6 7 alM rfl (by decide) rfl
    (by decide) rfl (by decide) alM_rebuilt

/-- `always_once_many`: three more dependents (6, 8, 9) ask for 7 in run 1, one after the other. -/
example :
    let cxs : List Ctx := [{ runid := 1, parent := some 6, cycles := [6] }, { runid := 1, parent := some 8, cycles := [8] },
      { runid := 1, parent := some 9, cycles := [9, 8] }]
    (∀ rv ∈ (runDependents {} 19 7 cxs alM).1, rv = 0) ∧ NoRun alM (runDependents {} 19 7 cxs alM).2 ∧
      RebuiltIn 1 7 (runDependents {} 19 7 cxs alM).2 :=
  always_once_many {} 19 (by decide) 1 7 (by decide) (by decide) _ alM
    (by
      intro cx hcx
      simp only [List.mem_cons, List.not_mem_nil, or_false] at hcx
      rcases hcx with rfl | rfl | rfl
      · exact ⟨rfl, ⟨6, rfl, (by decide)⟩, rfl, (by decide), rfl⟩
      · exact ⟨rfl, ⟨8, rfl, (by decide)⟩, rfl, (by decide), rfl⟩
      · exact ⟨rfl, ⟨9, rfl, (by decide)⟩, rfl, (by decide), rfl⟩)
    alM_rebuilt

/-
For the record (not kernel-checkable for the reason above; `#eval`):
  (runOps {} 8 [.cmd (.ifchange [5, 6] false)] al0).trace                               = [ran 6, ran 7, ran 5]
  (runOps {} 8 [.cmd (.ifchange [5, 6] false), .cmd (.ifchange [5, 6] false)] al0).trace
                                                                  = [ran 6, ran 7, ran 5, ran 6, ran 7, ran 5]
-/

end C14

section
open C14
#print axioms ifcreate_fires
#print axioms ifcreate_fires_of_success
#print axioms ifcreate_not_before
#print axioms always_every_run
#print axioms always_every_run_of_success
#print axioms always_once
#print axioms always_once_job
#print axioms always_once_cmd
#print axioms always_once_many
#print axioms always_declares
end
