import RedoModel.Lemmas.Deps
/-!
# C05 — Failures propagate, are remembered as dirty, and are retried next run
Property theorems only.  Model: `RedoModel/Deps.lean`.
-/
namespace C05
open RedoModel.Deps RedoModel.Generated

/-- A recorded failure makes the target dirty for every later check, whatever else is
recorded: it is retried by the next run even if nothing changed. -/
theorem failed_is_dirty (ood : Bool) (R n : Nat) (w : World) (c : List Nat) (f mx : Nat) (seen : List Nat)
    (hf : (getRec w R f).failed.isSome = true) (hs : f ∉ seen) :
    isDirty ood R (n + 1) w c f mx seen none = (.dirty, w, c) := by
  simp (config := { zeta := true, zetaHave := true }) only [isDirty, Option.getD_none, hs, hf, if_true, if_false]

/-- A failing script is recorded as failed in this run and the target file is left alone. -/
theorem failure_recorded (cx : Ctx) (t : Nat) (sf : Rec) (rv : Status) (out : Option Content) (w : World)
    (hrv : rv ≠ 0) :
    (recordNewState cx t sf rv out w).1 = rv ∧ (recordNewState cx t sf rv out w).2.fs = w.fs ∧
    ((recordNewState cx t sf rv out w).2.recs t).failed = some cx.runid := by
  simp [recordNewState, hrv, setRec, zapDeps2, setFailed]

/-- A target that already failed in this run is not executed a second time: the request is
answered with `EXIT_TARGET_FAILED` (32) as the job's result and nothing is changed or run. -/
theorem once_per_run (E : Engine) (d : Defects) (cx : Ctx) (fuel t : Nat) (w : World)
    (hd : d.failedTargetAbortsRun = false)
    (hr : cx.isRedo = false) (hf : isFailedR (getRec w cx.runid t) cx.runid = true) :
    buildJob E d cx fuel t w = (.done EXIT_TARGET_FAILED, w) ∧ EXIT_TARGET_FAILED = 32 := by
  simp [buildJob, shouldBuild, hr, hf, hd, EXIT_TARGET_FAILED]

/-- With `--keep-going`, an already-failed target does not stop the command: the remaining
targets are still considered (the pinned tree aborted the whole run here; see known findings). -/
theorem keep_going_past_failed (E : Engine) (d : Defects) (cx : Ctx) (fuel t : Nat) (ts seen : List Nat) (w : World) (e : Bool)
    (hd : d.failedTargetAbortsRun = false) (hk : cx.keepGoing = true) (hs : t ∉ seen)
    (hcyc : (!cx.unlocked && decide (t ∈ cx.cycles)) = false)
    (hr : cx.isRedo = false) (hf : isFailedR (getRec (addKnown w t) cx.runid t) cx.runid = true) :
    runTargets E d cx fuel (t :: ts) seen e w = runTargets E d cx fuel ts (t :: seen) true (addKnown w t) := by
  have hj := (once_per_run E d cx fuel t (addKnown w t) hd hr hf).1
  rw [runTargets]
  simp only [hs, if_false, hk, Bool.not_true, Bool.and_false, Bool.false_eq_true, hcyc, hj]
  simp [EXIT_TARGET_FAILED, CRASHED]

/-- Witness for the repaired defect `failedTargetAbortsRun`: with the switch on, the same
request aborts the run with status 32 whatever targets remain. -/
theorem failed_aborts_witness (E : Engine) (cx : Ctx) (fuel t : Nat) (w : World)
    (hr : cx.isRedo = false) (hf : isFailedR (getRec w cx.runid t) cx.runid = true) :
    buildJob E { failedTargetAbortsRun := true } cx fuel t w = (.abort EXIT_TARGET_FAILED, w) := by
  simp [buildJob, shouldBuild, hr, hf]

/-- Once a failure is known in a command, the command's status is non-zero whatever happens
to the remaining targets. -/
theorem propagates (E : Engine) (d : Defects) (cx : Ctx) (fuel : Nat) :
    ∀ (ts seen : List Nat) (w : World), (runTargets E d cx fuel ts seen true w).1 ≠ 0
  | [], seen, w => by simp [runTargets]
  | t :: ts, seen, w => by
    rw [runTargets]
    split
    · exact propagates E d cx fuel ts seen w
    · split
      · simp
      · simp only
        split
        · simp [EXIT_CYCLIC_DEPENDENCY]
        · have hab : ∀ w0 code w1, buildJob E d cx fuel t w0 = (.abort code, w1) → code ≠ 0 := by
            intro w0 code w1 h
            rcases buildJob_abort_code E d cx fuel t w0 code w1 h with e | e <;> subst e <;>
              simp [EXIT_TARGET_FAILED, EXIT_CYCLIC_DEPENDENCY]
          split
          · rename_i heq; exact hab _ _ _ heq
          · simp only [Bool.true_or]
            split
            · simp [CRASHED]
            · exact propagates E d cx fuel ts _ _

/-- Without `--keep-going`, no further target of the command is started after a failure is
known. -/
theorem stop_after_failure (E : Engine) (d : Defects) (cx : Ctx) (fuel t : Nat) (ts seen : List Nat) (w : World)
    (hk : cx.keepGoing = false) (hs : t ∉ seen) :
    runTargets E d cx fuel (t :: ts) seen true w = (1, w) := by
  simp [runTargets, hs, hk]

end C05
