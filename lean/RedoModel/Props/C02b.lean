import RedoModel.Lemmas.DepsQuiet16
/-!
# C02, the converse direction — nothing is rebuilt without a reason
Property theorems only (one-line applications of `RedoModel/Lemmas/DepsQuiet*.lean`).  Model: `RedoModel/Deps.lean`.

`C01.no_stale_full_rich` says that what `redo-ifchange` leaves behind is up to date (nothing stale survives).  Here is
the other half of "the rebuild set is exactly the set of targets whose inputs changed": a repeated build runs
nothing, changes outside the *recorded dependency closure* of the targets (`RecReach`: all rows of the `Deps` table,
followed transitively) trigger nothing, and every script that `redo-ifchange` does execute belongs to a file that had
a `Reason` in the world the command started from.

Same class of histories as `C01.no_stale_full_rich` (`RichOp`, `RankedR`, `OpsOkW`) for the first three theorems;
`runs_only_for_a_reason_world` and `settled_left_alone` hold for arbitrary worlds and defect switches.
-/
namespace C02
open RedoModel.Deps RedoModel.Deps.Rich

/-- **A repeated build with no changes runs nothing.**  After any rich history, let `redo-ifchange ts` (or `redo ts`:
`forced`) exit 0, and let the recorded dependency closure of `ts` contain no row on the `//ALWAYS` pseudo file (no
script in the closure said `redo-always`; such targets rightly re-run in every command: `repeat_needs_no_always`).
Then the immediately repeated `redo-ifchange ts` exits 0, executes no script at all, and leaves every file as it was. -/
theorem repeat_runs_nothing (n : Nat) (rules : Nat → List Nat) (rank : Nat → Nat) (ops : List UserOp) (ts : List Nat)
    (kg forced : Bool) (hr : RulesOk rules) (hp : ∀ op ∈ ops, RichOp rules op)
    (hrk : ∀ w ∈ worldsOf n {} (initWorld rules) ops, RankedR rank w) (hN : ∀ f, rank f < n)
    (hok : OpsOkW n (initWorld rules) ops) (hts0 : ∀ t ∈ ts, t ≠ alwaysId) (kg2 : Bool) :
    let w := ops.foldl (fun w op => (applyOp {} n op w).2) (initWorld rules)
    let r1 := runCmd {} n (if forced then .redo ts kg else .ifchange ts kg) w
    r1.1.status = 0 → ¬ RecReach r1.2 ts alwaysId →
    let r2 := runCmd {} n (.ifchange ts kg2) { r1.2 with trace := [] }
    r2.1.status = 0 ∧ (∀ t, Ev.ran t ∉ r2.2.trace) ∧ r2.2.fs = r1.2.fs :=
  repeatQuiet n rules rank ops ts kg forced hr hp hrk hN hok hts0 kg2

/-- The hypothesis on `//ALWAYS` cannot be dropped: a `redo-always` target is executed again by the repeated command
(concrete rich history `alOps`; all other hypotheses hold). -/
theorem repeat_needs_no_always : ¬ RepeatQuietUnconditional := repeatQuietUnconditional_false

/-- **Changes outside the recorded closure trigger nothing.**  As `repeat_runs_nothing`, but between the two commands
the user does any list `us` of operations that are `Unrelated` to the recorded dependency closure of `ts`: creating,
editing, removing, chmod-ing, moving away/back files that are NOT in the closure, `setProg`, and the queries
`redo-ood` / `redo-targets` / `redo-sources`.  (The .do candidates that `find_do_file` looked at are recorded as rows,
so they are in the closure, and so are the objects of `redo-ifcreate`.)  In particular a dependency that a target
stopped declaring is no longer in the closure (its row is deleted when the build is recorded) and no longer triggers
it: `dropped_dep`. -/
theorem unrelated_change_runs_nothing (n : Nat) (rules : Nat → List Nat) (rank : Nat → Nat) (ops : List UserOp)
    (ts : List Nat) (kg forced : Bool) (hr : RulesOk rules) (hp : ∀ op ∈ ops, RichOp rules op)
    (hrk : ∀ w ∈ worldsOf n {} (initWorld rules) ops, RankedR rank w) (hN : ∀ f, rank f < n)
    (hok : OpsOkW n (initWorld rules) ops) (hts0 : ∀ t ∈ ts, t ≠ alwaysId) (us : List UserOp) (kg2 : Bool) :
    let w := ops.foldl (fun w op => (applyOp {} n op w).2) (initWorld rules)
    let r1 := runCmd {} n (if forced then .redo ts kg else .ifchange ts kg) w
    r1.1.status = 0 → ¬ RecReach r1.2 ts alwaysId → (∀ u ∈ us, Unrelated (RecReach r1.2 ts) u) →
    let w2 := us.foldl (fun w op => (applyOp {} n op w).2) r1.2
    let r2 := runCmd {} n (.ifchange ts kg2) { w2 with trace := [] }
    r2.1.status = 0 ∧ (∀ t, Ev.ran t ∉ r2.2.trace) ∧ r2.2.fs = w2.fs :=
  unrelatedChangeQuiet n rules rank ops ts kg forced hr hp hrk hN hok hts0 us kg2

/-- **Neither does building something else.**  The stronger form of `unrelated_change_runs_nothing`: between the two
commands the user may do any list of `Harmless` operations — those of `Unrelated`, and in addition `redo-ifchange` of
ANY targets (members of the closure of `ts` or not; whatever these commands build, fail to build, or find clean).
The closure of `ts` stays settled (`settled_left_alone`), so the final `redo-ifchange ts` exits 0, executes nothing
and touches no file. -/
theorem other_builds_run_nothing (n : Nat) (rules : Nat → List Nat) (rank : Nat → Nat) (ops : List UserOp)
    (ts : List Nat) (kg forced : Bool) (hr : RulesOk rules) (hp : ∀ op ∈ ops, RichOp rules op)
    (hrk : ∀ w ∈ worldsOf n {} (initWorld rules) ops, RankedR rank w) (hN : ∀ f, rank f < n)
    (hok : OpsOkW n (initWorld rules) ops) (hts0 : ∀ t ∈ ts, t ≠ alwaysId) (us : List UserOp) (kg2 : Bool) :
    let w := ops.foldl (fun w op => (applyOp {} n op w).2) (initWorld rules)
    let r1 := runCmd {} n (if forced then .redo ts kg else .ifchange ts kg) w
    r1.1.status = 0 → ¬ RecReach r1.2 ts alwaysId → (∀ u ∈ us, Harmless (RecReach r1.2 ts) u) →
    let w2 := us.foldl (fun w op => (applyOp {} n op w).2) r1.2
    let r2 := runCmd {} n (.ifchange ts kg2) { w2 with trace := [] }
    r2.1.status = 0 ∧ (∀ t, Ev.ran t ∉ r2.2.trace) ∧ r2.2.fs = w2.fs :=
  otherBuildsQuiet n rules rank ops ts kg forced hr hp hrk hN hok hts0 us kg2

/-- **A dependency that a target stopped declaring no longer triggers it** — concrete history `ddOps`: target 2 (.do
file 1) declared the sources 4 and 5 (`dropped_dep_before`: the row 2 → 5 existed); the .do file is replaced by one
that declares 4 only and 2 is rebuilt (`ddRes`).  From then on, whatever is written into 5, or if 5 is removed,
`redo-ifchange 2` exits 0, executes nothing and touches no file. -/
theorem dropped_dep (us : List UserOp) (hus : ∀ u ∈ us, (∃ v, u = .write 5 v) ∨ u = .remove 5) (kg2 : Bool) :
    let w2 := us.foldl (fun w op => (applyOp {} 6 op w).2) ddRes.2
    let r2 := runCmd {} 6 (.ifchange [2] kg2) { w2 with trace := [] }
    r2.1.status = 0 ∧ (∀ t, Ev.ran t ∉ r2.2.trace) ∧ r2.2.fs = w2.fs :=
  droppedDep us hus kg2

theorem dropped_dep_before :
    (⟨2, 5, true, false⟩ : Dep) ∈ ((ddOps.take 6).foldl (fun w op => (applyOp {} 6 op w).2) (initWorld cxRules)).deps :=
  dd_before

/-- **Nothing runs without a reason.**  After any rich history, every script executed by `redo-ifchange ts` belongs
to a file `t` that had a `Reason` in the world `w` the command started from: it is the `//ALWAYS` pseudo file, carries
a failure mark, was never built, its file is not as recorded (missing, replaced, edited), one of its recorded
`redo-ifchange` dependencies was built or changed in a later run than `t` was last built or verified, one of its
recorded `redo-ifcreate` objects / higher-priority .do candidates exists, or — hereditarily — one of its recorded
`redo-ifchange` dependencies has a reason (e.g. says `redo-always`).  Rows of files redo does not (or no longer) own
do not count. -/
theorem runs_only_for_a_reason (n : Nat) (rules : Nat → List Nat) (rank : Nat → Nat) (ops : List UserOp) (ts : List Nat)
    (kg : Bool) (hr : RulesOk rules) (hp : ∀ op ∈ ops, RichOp rules op)
    (hrk : ∀ w ∈ worldsOf n {} (initWorld rules) ops, RankedR rank w) (hN : ∀ f, rank f < n)
    (hok : OpsOkW n (initWorld rules) ops) :
    let w := ops.foldl (fun w op => (applyOp {} n op w).2) (initWorld rules)
    ∀ t, Ev.ran t ∈ (runCmd {} n (.ifchange ts kg) { w with trace := [] }).2.trace → Reason w t :=
  runsOnlyForAReason n rules rank ops ts kg hr hp hrk hN hok

/-- The same for an arbitrary world and arbitrary defect switches, under the two facts about reachable worlds that
the proof uses: no `changed`/`checked` mark is from the future, and `c` rows name plain files (files without .do
candidates).  A script executed by the command either had a reason or was already in the trace. -/
theorem runs_only_for_a_reason_world (d : Defects) (n : Nat) (w : World) (ts : List Nat) (kg : Bool)
    (hch : ∀ f c, (w.recs f).changed = some c → c ≤ w.runCounter)
    (hck : ∀ f c, (w.recs f).checked = some c → c ≤ w.runCounter)
    (hcp : ∀ d ∈ w.deps, d.modeM = false → w.rules d.source = []) (t : Nat)
    (hran : Ev.ran t ∈ (runCmd d n (.ifchange ts kg) w).2.trace) : Ev.ran t ∈ w.trace ∨ Reason w t :=
  ran_reason_of_world d n w ts kg hch hck hcp t hran

/-- The mechanism behind it: a *settled* set `S` of files (`SSet`: closed under the recorded `m` rows of its
redo-owned members; every member's record is current and no dependency is newer than its dependent; no recorded
`redo-ifcreate` object exists) is left alone by a whole `redo-ifchange ts`, whatever `ts` is and whatever else gets
built: afterwards (`SRel`) the rows, files and records of the members are as before up to `checked` marks, and no
member's script was executed. -/
theorem settled_left_alone {S : Nat → Prop} {w : World} (d : Defects) (n : Nat) (ts : List Nat) (kg : Bool)
    (hq : SSet (w.runCounter + 1) S w) :
    SRel (w.runCounter + 1) S w (runCmd d n (.ifchange ts kg) w).2 :=
  ifchange_leaves_settled d n ts kg hq

end C02
