import RedoModel.Lemmas.DepsOk9
import RedoModel.Lemmas.DepsOkP3
/-!
# C09 / C10 / C05 — the SUCCESS direction of the serial engine: a build whose scripts all succeed exits 0
Property theorems only (applications of `RedoModel/Lemmas/DepsOk*.lean`).  Model: `RedoModel/Deps.lean`.

`Buildable w f` (`Lemmas/DepsOk0.lean`) : "a from-scratch build of `f` would succeed" —
* `source`   : no .do candidate of `f` exists, and `f` exists;
* `user` / `override` / `edited` : `f` exists and redo does not own it (not generated / marked overridden / a
  generated file whose (mtime,size) differs from the recorded stamp): it stands for itself;
* `target`   : the chosen .do (`firstEx w (w.rules t) = some dof`) has a script `sc := scriptAt w dof` with
  `sc.exit = 0`, every file in `sc.ifchange.flatten` is `Buildable`, every existing `sc.cond` file is `Buildable`,
  no `sc.ifcreate` object exists, and `failNowOf w sc = false` (the content-dependent failure does not fire on the
  present contents; a target's own output never makes it fire).
`Buildable` does not look at the records of earlier runs at all (`failed` marks, stale stamps, rows, half-built
states), nor at whether a target's file exists.

At the end (`namespace C10`): the same for plain histories WITH kills (`UserOp.crashCmd`), hypotheses exactly those of
`C10.recovers_plain` (`SingleDo`), proofs in `Lemmas/DepsOkP*.lean` (port to the plain development on which
`DepsSoundK*` is built).

Hypotheses: exactly those of `C01.no_stale_full_rich` — none was added (the command may name a target twice;
`t ≠ alwaysId` follows from `Buildable`).  The bound `∀ f, rank f < n` IS needed for success (`fuel_bound_needed`).
-/
namespace C09
open RedoModel.Deps RedoModel.Deps.Rich

/-- **C09 for the full serial engine over rich histories.**  Start from an empty project; after any rich history
(scripts in place respect one rank, no `setProg` redefines a .do content in place) — whatever was built, failed,
removed, overridden or half-built before — if every target named is `Buildable` in the present world then
`redo-ifchange ts` exits 0, and so does `redo ts`, with and without `--keep-going`. -/
theorem buildable_exits_zero (n : Nat) (rules : Nat → List Nat) (rank : Nat → Nat) (ops : List UserOp) (ts : List Nat)
    (kg forced : Bool) (hr : RulesOk rules) (hp : ∀ op ∈ ops, RichOp rules op)
    (hrk : ∀ w ∈ worldsOf n {} (initWorld rules) ops, RankedR rank w) (hN : ∀ f, rank f < n)
    (hok : OpsOkW n (initWorld rules) ops) :
    let w := ops.foldl (fun w op => (applyOp {} n op w).2) (initWorld rules)
    (∀ t ∈ ts, Buildable w t) →
    (runCmd {} n (if forced then .redo ts kg else .ifchange ts kg) w).1.status = 0 :=
  buildableExitsZero n rules rank ops ts kg forced hr hp hrk hN hok

/-- The same from any state satisfying the between-commands invariant `Btw` of the soundness proof. -/
theorem buildable_exits_zero_btw {rank : Nat → Nat} {N : Nat} {w : World} (hN : ∀ f, rank f < N) (h : Rich.Btw rank w)
    (ts : List Nat) (kg forced : Bool) (hB : ∀ t ∈ ts, Buildable w t) :
    (runCmd {} N (if forced then .redo ts kg else .ifchange ts kg) w).1.status = 0 :=
  runCmd_succ {} hN h ts kg forced (fun t ht => (hB t ht).ne_always h) hB

/-- C10 for a buildable project: success and freshness together — the command exits 0 and (by
`C01.no_stale_full_rich`) every target named is up to date afterwards. -/
theorem buildable_exits_zero_and_is_fresh (n : Nat) (rules : Nat → List Nat) (rank : Nat → Nat) (ops : List UserOp)
    (ts : List Nat) (kg forced : Bool) (hr : RulesOk rules) (hp : ∀ op ∈ ops, RichOp rules op)
    (hrk : ∀ w ∈ worldsOf n {} (initWorld rules) ops, RankedR rank w) (hN : ∀ f, rank f < n)
    (hok : OpsOkW n (initWorld rules) ops) :
    let w := ops.foldl (fun w op => (applyOp {} n op w).2) (initWorld rules)
    let r := runCmd {} n (if forced then .redo ts kg else .ifchange ts kg) w
    (∀ t ∈ ts, Buildable w t) → r.1.status = 0 ∧ ∀ t ∈ ts, UpToDateR r.2 t :=
  retriedAndRepaired n rules rank ops ts kg forced hr hp hrk hN hok

/-- **C05, last clause, at history level.**  History `ops1`; `redo-ifchange ts` (which may fail: a script exits
non-zero, `failIfOdd` fires, a source is missing …); the user repairs (`repair`: writes sources, replaces .do
files, removes `redo-ifcreate` objects …).  If after that the targets are `Buildable`, the next `redo-ifchange ts`
runs them again, exits 0, and leaves them up to date: the recorded failure is neither sticky nor skipped. -/
theorem failure_is_retried_and_repaired (n : Nat) (rules : Nat → List Nat) (rank : Nat → Nat)
    (ops1 repair : List UserOp) (ts : List Nat) (kg kg' : Bool) (hr : RulesOk rules)
    (hp : ∀ op ∈ ops1 ++ .cmd (.ifchange ts kg) :: repair, RichOp rules op)
    (hrk : ∀ w ∈ worldsOf n {} (initWorld rules) (ops1 ++ .cmd (.ifchange ts kg) :: repair), RankedR rank w)
    (hN : ∀ f, rank f < n) (hok : OpsOkW n (initWorld rules) (ops1 ++ .cmd (.ifchange ts kg) :: repair)) :
    let w := (ops1 ++ .cmd (.ifchange ts kg) :: repair).foldl (fun w op => (applyOp {} n op w).2) (initWorld rules)
    let r := runCmd {} n (.ifchange ts kg') w
    (∀ t ∈ ts, Buildable w t) → r.1.status = 0 ∧ ∀ t ∈ ts, UpToDateR r.2 t :=
  retriedAndRepaired n rules rank (ops1 ++ .cmd (.ifchange ts kg) :: repair) ts kg' false hr hp hrk hN hok

/-! ### Non-vacuity: a concrete history with two failures and two repairs (`Lemmas/DepsOk8.lean`)

Target 2, .do file 1; content `[17]` = "declare and read source 5, fail if 5 holds an odd version", content `[19]` =
"exit 1".  `rpOps` = set both meanings; write 5 (odd) and the good .do; `redo-ifchange 2` (fails); write 5 (even)
and the bad .do; `redo-ifchange 2` (fails); write the good .do. -/

/-- The two commands inside the history fail (kernel-checked): once by `failIfOdd`, once by `exit 1`; the record
of the target says "failed in run 2" when the last command starts. -/
theorem example_failures :
    (runCmd {} 2 (.ifchange [2] false) rpW1).1.status = 1 ∧ (runCmd {} 2 (.ifchange [2] false) rpW2).1.status = 1 ∧
    (rpW.recs 2).failed = some 2 :=
  ⟨rp_fail1, rp_fail2, rp_failed_mark⟩

/-- All hypotheses of `failure_is_retried_and_repaired` hold for that history; hence the next `redo-ifchange 2`
exits 0 and 2 is up to date. -/
theorem example_repaired :
    (runCmd {} 2 (.ifchange [2] false) rpW).1.status = 0 ∧ UpToDateR (runCmd {} 2 (.ifchange [2] false) rpW).2 2 :=
  rp_repaired

/-- No hypothesis about duplicates is needed: `redo --keep-going 2 2` after the same history exits 0. -/
theorem example_named_twice : (runCmd {} 2 (.redo [2, 2] true) rpW).1.status = 0 := rp_repaired_twice

/-! ### Necessity -/

/-- A source named on the command line that does not exist makes the command fail (empty project, empty history):
the `existsF` clause of `Buildable.source` is needed. -/
theorem missing_source_fails : (runCmd {} 2 (.ifchange [5] false) (initWorld cxRules)).1.status = 1 :=
  RedoModel.Deps.Rich.missing_source_fails

/-- The clause `failNowOf w sc = false` is needed: before the first repair the target satisfies every other clause
of `Buildable.target` (the source exists, the script exits 0), and the command fails (`example_failures`). -/
theorem odd_clause_needed :
    Rich.firstEx rpW1 (rpW1.rules 2) = some 1 ∧ Rich.scriptAt rpW1 1 = rpGood ∧ existsF rpW1 5 = true ∧
    failNowOf rpW1 rpGood = true := rp_only_odd

/-- The clause `sc.exit = 0` is needed: before the second repair the chosen script is the one that exits 1. -/
theorem exit_clause_needed : Rich.firstEx rpW2 (rpW2.rules 2) = some 1 ∧ Rich.scriptAt rpW2 1 = rpBad := rp_only_exit

/-- The bound `rank f < n` (engine depth / fuel `2n+4`) is needed for SUCCESS, not only for soundness: a chain of
five buildable targets is built with `n = 6` and fails with `n = 0` (kernel-checked). -/
theorem fuel_bound_needed :
    Buildable chW 15 ∧ (runCmd {} 0 (.ifchange [15] false) chW).1.status ≠ 0 ∧
    (runCmd {} 6 (.ifchange [15] false) chW).1.status = 0 :=
  ⟨ch_buildable, ch_small_fuel_fails, ch_enough_fuel⟩

end C09

namespace C10
open RedoModel.Deps
open RedoModel.Deps.Rich (Buildable)

/-- **C10, success direction, plain histories with kills.**  After ANY plain history interleaved with ANY number
of killed `redo-ifchange` runs (whole process tree killed when any script reaches any step; hypotheses exactly
those of `C10.recovers_plain`, in particular `SingleDo`), if the targets are `Buildable` then the next
`redo-ifchange ts` / `redo ts` exits 0 and leaves every target up to date: "simply running redo again" works. -/
theorem recovery_exits_zero_plain (n : Nat) (rules : Nat → List Nat) (rank : Nat → Nat) (ops : List UserOp)
    (ts : List Nat) (kg forced : Bool) (hr : RulesOk rules) (hS : SingleDo rules) (hp : ∀ op ∈ ops, PlainOpK rules op)
    (hrk : ∀ w ∈ worldsOf n {} (initWorld rules) ops, Ranked rank w) (hN : ∀ f, rank f < n)
    (hok : OpsOk n (initWorld rules) ops) :
    let w := ops.foldl (fun w op => (applyOp {} n op w).2) (initWorld rules)
    let r := runCmd {} n (if forced then .redo ts kg else .ifchange ts kg) w
    (∀ t ∈ ts, Buildable w t) → r.1.status = 0 ∧ ∀ t ∈ ts, UpToDateD r.2 t :=
  recoveryExitsZeroPlain n rules rank ops ts kg forced hr hS hp hrk hN hok

/-- Kill anywhere, then build: from any state satisfying the between-commands invariant of the plain development,
after a killed `redo-ifchange ts` the next command over buildable targets exits 0. -/
theorem kill_then_build_succeeds {rank : Nat → Nat} {N : Nat} {w : World} (hN : ∀ f, rank f < N)
    (hS : SingleDo w.rules) (h : RedoModel.Deps.Btw rank w) (ts : List Nat) (t k : Nat) (ts' : List Nat)
    (kg forced : Bool) :
    let w1 := (applyOp {} N (.crashCmd ts t k) w).2
    (∀ x ∈ ts', Buildable w1 x) →
    (runCmd {} N (if forced then .redo ts' kg else .ifchange ts' kg) w1).1.status = 0 :=
  recovery_succeeds hN hS h ts t k ts' kg forced

/-- Non-vacuity: the history `exOps` of `Lemmas/DepsSoundK9.lean` (two-level project; build; edit a source;
rebuild killed at step 1 of the inner script) satisfies every hypothesis, the project is buildable after the
kill, so the recovery run exits 0 and 5 is up to date. -/
theorem example_recovery_succeeds :
    (runCmd {} 3 (.ifchange [5] false) (exOps.foldl (fun w op => (applyOp {} 3 op w).2) (initWorld exRules))).1.status = 0 ∧
    UpToDateD (runCmd {} 3 (.ifchange [5] false)
      (exOps.foldl (fun w op => (applyOp {} 3 op w).2) (initWorld exRules))).2 5 :=
  ex_recovery_succeeds

end C10
