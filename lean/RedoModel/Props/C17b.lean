import RedoModel.Lemmas.DepsOod3
import RedoModel.Lemmas.DepsShift4
import RedoModel.Lemmas.DepsWF2
import RedoModel.Props.C17a
/-!
# C17 (continued) — redo-ood is a lower bound of what the next redo-ifchange rebuilds; coverage of
redo-targets / redo-sources

Property theorems only (one-line applications); proofs in `RedoModel/Lemmas/DepsOod*.lean`.
-/
namespace C17
open RedoModel.Deps

/-! ### Well-formed worlds: recorded run ids are ids of past runs -/

theorem wf_init (rules : Nat → List Nat) : WF (initWorld rules) := WF_initWorld rules

/-- Every user operation and every command (also a crashed one) keeps the world well-formed. -/
theorem wf_applyOp (d : Defects) (n : Nat) (op : UserOp) (w : World) (hwf : WF w) : WF (applyOp d n op w).2 :=
  WF_applyOp d n op w hwf

/-- Hence every world reachable from the initial one is well-formed. -/
theorem wf_reachable (d : Defects) (n : Nat) (rules : Nat → List Nat) (ops : List UserOp) :
    WF (ops.foldl (fun w op => (applyOp d n op w).2) (initWorld rules)) :=
  WF_reachable d n rules ops

/-! ### redo-targets ∪ redo-sources -/

/-- `redo-targets` and `redo-sources` together list exactly the known files that are marked
generated or exist (the `//ALWAYS` pseudo file counts only if marked generated).  So *no* known
file that exists or was generated is in neither list; with `partition` the two lists split that set. -/
theorem targets_sources_cover (w : World) (R f : Nat) :
    (isTarget w R f = true ∨ isSource w R f = true) ↔
      ((getRec w R f).isGenerated = true ∨ (f ≠ alwaysId ∧ existsF w f = true)) :=
  targets_or_sources_iff w R f

/-! ### redo-ood lists every target the next redo-ifchange finds not clean -/

/-- `ood_lower`, with the one extra hypothesis `hb`: the scenario size `n` (from which the model
derives its recursion fuel `2n+4`) bounds the files that occur as sources of `m` (redo-ifchange)
dependency rows.  `w2` is any
world with the files, records and dependency rows of `w` (such as the world after the query). -/
theorem ood_lower_partial (d : Defects) (n : Nat) (w : World) (hwf : WF w)
    (hb : ∀ dep ∈ w.deps, dep.modeM = true → dep.source < n) (t : Nat) (hlt : t < n) (hkn : known w t = true)
    (ht : isTarget w (w.runCounter + 1) t = true)
    (w2 : World) (hfs : w2.fs = w.fs) (hrecs : w2.recs = w.recs) (hdeps : w2.deps = w.deps)
    (hne : (isDirty false (w.runCounter + 2) (2 * n + 4) w2 [] t (w.runCounter + 2) [] none).1 ≠ .clean) :
    t ∈ (runCmd d n .ood w).1.listing :=
  ood_lower_core d n w hwf hb t hlt hkn ht w2 hfs hrecs hdeps hne

/-- The same for the world the query leaves behind. -/
theorem ood_lower_partial_after (d : Defects) (n : Nat) (w : World) (hwf : WF w)
    (hb : ∀ dep ∈ w.deps, dep.modeM = true → dep.source < n) (t : Nat) (hlt : t < n) (hkn : known w t = true)
    (ht : isTarget w (w.runCounter + 1) t = true)
    (hne : (isDirty false (w.runCounter + 2) (2 * n + 4) (runCmd d n .ood w).2 [] t (w.runCounter + 2) [] none).1
      ≠ .clean) :
    t ∈ (runCmd d n .ood w).1.listing :=
  ood_lower_core d n w hwf hb t hlt hkn ht _ (read_only d n w .ood (.inl rfl)).1
    (read_only d n w .ood (.inl rfl)).2.1 (read_only d n w .ood (.inl rfl)).2.2.1 hne

/-- In terms of `should_build` of the following top-level `redo-ifchange` (which allocates the
next run id): whatever it does not find clean was listed. -/
theorem ood_lower_shouldBuild (d : Defects) (n : Nat) (w : World) (hwf : WF w)
    (hb : ∀ dep ∈ w.deps, dep.modeM = true → dep.source < n) (t : Nat) (hlt : t < n) (hkn : known w t = true)
    (ht : isTarget w (w.runCounter + 1) t = true) (kg : Bool)
    (hne : (shouldBuild { runid := (allocRun (runCmd d n .ood w).2).1, keepGoing := kg } (2 * n + 4) t
      (allocRun (runCmd d n .ood w).2).2).1 ≠ some .clean) :
    t ∈ (runCmd d n .ood w).1.listing :=
  ood_lower_shouldBuild_core d n w hwf hb t hlt hkn ht kg (read_only d n w .ood (.inl rfl)) hne

/-! ### None of the three queries alters what later build commands do -/

/-- The queries keep worlds well-formed (they change no record and consume one run id). -/
theorem wf_query (d : Defects) (n : Nat) (w : World) (hwf : WF w) (c : Cmd)
    (hc : c = .ood ∨ c = .targets ∨ c = .sources) : WF (runCmd d n c w).2 :=
  WF_query d n w hwf c hc

/-- A query leaves *everything* but the run counter as it was (also the ghost trace, the stash …). -/
theorem query_only_consumes_run_id (d : Defects) (n : Nat) (w : World) (c : Cmd)
    (hc : c = .ood ∨ c = .targets ∨ c = .sources) :
    (runCmd d n c w).2 = { w with runCounter := w.runCounter + 1 } :=
  query_world d n w c hc

/-- Third sentence of C17, at full strength: the build command after a query returns the same
result and leaves the same world as without the query, up to the renaming `sh` of its own run id
(`shW R` maps every recorded run id `≥ R` to its successor and adds one to the run counter;
files, dependency rows, clock, row ids and the trace of executed scripts are untouched by it). -/
theorem queries_do_not_change_builds (d : Defects) (n : Nat) (w : World) (hwf : WF w) (c : Cmd)
    (hc : c = .ood ∨ c = .targets ∨ c = .sources) (b : Cmd)
    (hb : ∃ ts kg, b = .redo ts kg ∨ b = .ifchange ts kg) :
    runCmd d n b (runCmd d n c w).2 = ((runCmd d n b w).1, shW (w.runCounter + 1) (runCmd d n b w).2) :=
  build_after_query d n w hwf c hc b hb

/-- Same files, same exit status, same events (executed scripts, override warnings), same
dependency rows. -/
theorem queries_do_not_change_builds_obs (d : Defects) (n : Nat) (w : World) (hwf : WF w) (c : Cmd)
    (hc : c = .ood ∨ c = .targets ∨ c = .sources) (b : Cmd)
    (hb : ∃ ts kg, b = .redo ts kg ∨ b = .ifchange ts kg) :
    (runCmd d n b (runCmd d n c w).2).2.fs = (runCmd d n b w).2.fs ∧
    (runCmd d n b (runCmd d n c w).2).1.status = (runCmd d n b w).1.status ∧
    (runCmd d n b (runCmd d n c w).2).2.trace = (runCmd d n b w).2.trace ∧
    (runCmd d n b (runCmd d n c w).2).2.deps = (runCmd d n b w).2.deps :=
  build_after_query_obs d n w hwf c hc b hb

/-- The scripts executed by the next build command are the same with or without the query. -/
theorem queries_do_not_change_ran (d : Defects) (n : Nat) (w : World) (hwf : WF w) (c : Cmd)
    (hc : c = .ood ∨ c = .targets ∨ c = .sources) (b : Cmd)
    (hb : ∃ ts kg, b = .redo ts kg ∨ b = .ifchange ts kg) (t : Nat) :
    Ev.ran t ∈ (runCmd d n b (runCmd d n c w).2).2.trace ↔ Ev.ran t ∈ (runCmd d n b w).2.trace :=
  Eq.to_iff (congrArg (fun l => Ev.ran t ∈ l) (build_after_query_obs d n w hwf c hc b hb).2.2.1)

/-! ### The extra hypothesis is needed (in the model): counterexample -/

/-- Two targets 1 and 2 (`n = 3`, fuel 10); both reach the chain 10 → … → 15 of files outside the
scenario size, target 2 through five more such files. -/
def cexWorld : World :=
  { fs := fun f => if f = 0 then none else some { content := [], ms := 1, rest := 0 },
    recs := fun f => if f = 0 then { row := 1 } else
      { row := f + 1, isGenerated := true, checked := some 1, changed := some 1, stamp := some (.st 1 0) },
    deps := [(1,10),(10,11),(11,12),(12,13),(13,14),(14,15),
             (2,20),(20,21),(21,22),(22,23),(23,24),(24,10)].map
      (fun p => { target := p.1, source := p.2, modeM := true, deleteMe := false }),
    runCounter := 1, clock := 1, nextRow := 100, progs := fun _ => none, rules := fun _ => [], trace := [] }

theorem cex_wf : WF cexWorld := by
  intro f
  simp only [cexWorld]
  split <;> simp

/-- Without `hb` the statement fails in the model: `redo-ood` walks target 1 first, caches the
chain, and finds target 2 clean at depth 6, while the next command's own walk of target 2 runs out
of fuel at depth 11 and answers "cyclic".  (An artefact of the model's fuel, not of redo: real
walks have no depth limit.) -/
theorem ood_lower_needs_bound :
    WF cexWorld ∧ known cexWorld 2 = true ∧ isTarget cexWorld (cexWorld.runCounter + 1) 2 = true ∧
    (isDirty false (cexWorld.runCounter + 2) (2 * 3 + 4) (runCmd {} 3 .ood cexWorld).2 [] 2
      (cexWorld.runCounter + 2) [] none).1 = .cyclic ∧
    (runCmd {} 3 .ood cexWorld).1.listing = [] :=
  ⟨cex_wf, by decide +kernel, by decide +kernel, by decide +kernel, by decide +kernel⟩

/-! ### Non-vacuity -/

/-- Target 1 was built from source 2, which has been edited since. -/
def exWorld : World :=
  { fs := fun f => if f = 1 ∨ f = 2 then some { content := [], ms := 1, rest := 0 } else none,
    recs := fun f =>
      if f = 0 then { row := 1 }
      else if f = 1 then { row := 2, isGenerated := true, checked := some 1, changed := some 1, stamp := some (.st 1 0) }
      else if f = 2 then { row := 3, checked := some 1, changed := some 1, stamp := some (.st 0 0) }
      else {},
    deps := [{ target := 1, source := 2, modeM := true, deleteMe := false }],
    runCounter := 1, clock := 1, nextRow := 4, progs := fun _ => none, rules := fun _ => [], trace := [] }

theorem ex_wf : WF exWorld := by
  intro f
  simp only [exWorld]
  split
  · simp
  · split
    · simp
    · split <;> simp

example : (runCmd {} 3 .ood exWorld).1.listing = [1] := by decide +kernel

example : 1 ∈ (runCmd {} 3 .ood exWorld).1.listing :=
  ood_lower_partial_after {} 3 exWorld ex_wf (by decide) 1 (by decide) (by decide +kernel) (by decide +kernel)
    (by decide +kernel)

example : (isTarget exWorld 2 1 = true ∨ isSource exWorld 2 1 = true) :=
  (targets_sources_cover exWorld 2 1).2 (.inl (by decide +kernel))

example : (runCmd {} 3 (.ifchange [1] false) (runCmd {} 3 .ood exWorld).2).2.fs
    = (runCmd {} 3 (.ifchange [1] false) exWorld).2.fs :=
  (queries_do_not_change_builds_obs {} 3 exWorld ex_wf .ood (.inl rfl) (.ifchange [1] false) ⟨[1], false, .inr rfl⟩).1

end C17
