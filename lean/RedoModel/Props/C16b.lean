import RedoModel.Lemmas.RowCache1
/-!
# C16 (continued) — "the dependency records written by each concurrent command are all present afterwards"

Property theorems only (one-line applications); proofs in `RedoModel/Lemmas/RowCache0.lean`, `RowCache1.lean`.
Model: `RedoModel/RowCache.lean` — processes inside transactions (one at a time holds the write lock), loading copies of
database rows and saving them back whole.  `File::save` writes EVERY column from the in-memory copy, so a copy that is
older than another process's save would wipe that save out (a lost update).  The acceptor checks the discipline
"a copy is saved only by the process that loaded it, inside the transaction that loaded it" on every real trace; here is
what that discipline buys.

`s.writes f` is the log of row `f`: the processes that saved it, most recent first; `s.stamps f` the same log with the
number of the saver's transaction added (its first transaction is number 1); `since s p f id` is the part of
`s.writes f` that is newer than the load of copy `id` by process `p`.
-/
namespace C16
open RedoModel.RowCache

/-! ### No lost update -/

/-- In every accepted event list, whenever a save is accepted, every save of that row since the copy was loaded was made
by the saving process itself.  So the copy lacks nobody else's update, and writing all its columns loses nothing. -/
theorem no_lost_update (es : List Ev) (s s' : State) (p f id : Nat) (h : run {} es = some s)
    (hs : step s (.save p f id) = some s') : ∀ q ∈ since s p f id, q = p :=
  noLostUpdate es s s' p f id h hs

/-- `since` in `no_lost_update` is not cut short by a wrong count: the number of saves the copy has seen at load time
is at most the length of the log, so `since` is exactly the log entries added after the load. -/
theorem since_is_exact (es : List Ev) (s s' : State) (p f id : Nat) (h : run {} es = some s)
    (hs : step s (.save p f id) = some s') : s.seenAt p id ≤ (s.writes f).length :=
  seenAt_le es s s' p f id h hs

/-- The same without any ghost field, on the event list alone: an accepted save of copy `id` of row `f` by `p` comes
after a load of exactly that copy of that row by `p`, and every event in between is a load or a save of `p` itself — no
other process saved anything, and no transaction began or ended, between the load and the save. -/
theorem save_follows_own_load (es : List Ev) (s s' : State) (p f id : Nat) (h : run {} es = some s)
    (hs : step s (.save p f id) = some s') :
    ∃ pre post, es = pre ++ .load p f id :: post ∧ ∀ e ∈ post, ownRowOp p e :=
  RedoModel.RowCache.save_follows_own_load es s s' p f id h hs

/-- Not vacuous: process 1 saves its copy twice; at the second save the log since the load is its own first save. -/
theorem no_lost_update_nonvacuous :
    (run {} [.begin 1, .load 1 5 1, .save 1 5 1, .save 1 5 1]).map (fun s => (s.writes 5, since s 1 5 1))
      = some ([1, 1], [1, 1]) :=
  clone_accepted

/-! ### The log of every row is consistent with transaction order -/

/-- `stamps` is `writes` with the transaction numbers added. -/
theorem stamps_are_writes (es : List Ev) (s : State) (h : run {} es = some s) (f : Nat) :
    (s.stamps f).map Prod.fst = s.writes f :=
  stamps_fst es s h f

/-- The saves of one transaction are a contiguous block of the row's log: between two saves of transaction `a` (the
`n`-th transaction of process `p`, `a = (p, n)`) there is no save of any other transaction — never A … B … A. -/
theorem saves_are_contiguous (es : List Ev) (s : State) (h : run {} es = some s) (f : Nat) (a : Nat × Nat)
    (i j k : Nat) (hi : (s.stamps f)[i]? = some a) (hk : (s.stamps f)[k]? = some a) (hij : i ≤ j) (hjk : j ≤ k) :
    (s.stamps f)[j]? = some a :=
  stamps_block es s h f a i j k hi hk hij hjk

/-- Hence the log is serial: if ONE save of transaction `a` is more recent than ONE save of a different transaction `b`
(positions `i < j`; the log is most recent first), then EVERY save of `a` is more recent than EVERY save of `b`
(`i' < j'`).  In particular for transactions of two different processes. -/
theorem saves_are_serial (es : List Ev) (s : State) (h : run {} es = some s) (f : Nat) (a b : Nat × Nat) (hab : a ≠ b)
    (i j i' j' : Nat) (hi : (s.stamps f)[i]? = some a) (hj : (s.stamps f)[j]? = some b) (hij : i < j)
    (hi' : (s.stamps f)[i']? = some a) (hj' : (s.stamps f)[j']? = some b) : i' < j' :=
  stamps_order es s h f a b hab i j i' j' hi hj hij hi' hj'

/-- The transaction numbers in the log are numbers of transactions that have begun, … -/
theorem stamps_are_begun (es : List Ev) (s : State) (h : run {} es = some s) (f q n : Nat)
    (hm : (q, n) ∈ s.stamps f) : 1 ≤ n ∧ n ≤ s.txn q :=
  stamps_numbers es s h f q n hm

/-- … and for one process the order of the log is the order of its transaction numbers (most recent first). -/
theorem stamps_follow_txn_numbers (es : List Ev) (s : State) (h : run {} es = some s) (f p n m i j : Nat)
    (hi : (s.stamps f)[i]? = some (p, n)) (hj : (s.stamps f)[j]? = some (p, m)) (hij : i < j) : m ≤ n :=
  stamps_mono es s h f p n m i j hi hj hij

/-- Not vacuous: three transactions of two processes saving row 5 twice each (process 2 also saves row 6 in between). -/
theorem saves_are_serial_nonvacuous :
    (run {} [.begin 1, .load 1 5 1, .save 1 5 1, .save 1 5 1, .commit 1,
             .begin 2, .load 2 5 7, .save 2 5 7, .load 2 6 8, .save 2 6 8, .save 2 5 7, .commit 2,
             .begin 1, .load 1 5 2, .save 1 5 2, .save 1 5 2]).map (fun s => s.stamps 5)
      = some [(1, 2), (1, 2), (2, 1), (2, 1), (1, 1), (1, 1)] :=
  serial_example

/-! ### The lost-update pattern of the seeded mutant -/

/-- `staleTrace`: process 1 loads row 5 (load id 1) in its transaction 1 and commits; process 2 begins, loads row 5,
saves it and commits; process 1 begins its transaction 2.  All that is accepted; saving load id 1 now is rejected … -/
theorem stale_copy_is_rejected :
    (run {} staleTrace).isSome = true ∧ (run {} (staleTrace ++ [.save 1 5 1])).isNone = true :=
  stale_rejected

/-- … (the replay reports the last event, index 8, as the first rejected one) … -/
theorem stale_copy_is_rejected_at :
    (match runIdx {} (staleTrace ++ [.save 1 5 1]) 0 with | .error i => i = 8 | .ok _ => False) :=
  stale_rejected_at

/-- … whereas loading the row again in transaction 2 (load id 2) and saving that copy is accepted, and the log of row 5
then is: process 1 in its transaction 2, before that process 2 in its transaction 1. -/
theorem reloaded_copy_is_accepted :
    (run {} (staleTrace ++ [.load 1 5 2, .save 1 5 2])).isSome = true ∧
    (run {} (staleTrace ++ [.load 1 5 2, .save 1 5 2])).map (fun s => s.stamps 5) = some [(1, 2), (2, 1)] :=
  reload_accepted

/-- The guard is needed: the acceptor without the `loadedIn` test (`stepNoGuard`, otherwise identical) accepts the
stale save after `staleTrace`, and process 2 has saved row 5 since that copy was loaded: the conclusion of
`no_lost_update` fails. -/
theorem guard_needed :
    ∃ s s', runNoGuard {} staleTrace = some s ∧ stepNoGuard s (.save 1 5 1) = some s' ∧
      2 ∈ since s 1 5 1 ∧ 2 ≠ 1 :=
  noGuard_accepts_stale

/-- So `no_lost_update` is false for the acceptor without the guard. -/
theorem no_lost_update_fails_without_guard :
    ¬ ∀ (es : List Ev) (s s' : State) (p f id : Nat), runNoGuard {} es = some s →
        stepNoGuard s (.save p f id) = some s' → ∀ q ∈ since s p f id, q = p :=
  noGuard_loses_updates

/-! ### Clones of a copy; load ids are private -/

/-- Clones share the load id: after an accepted save the same copy can be saved again (same process, same
transaction). -/
theorem clones_share_load (s s' : State) (p f id : Nat) (hs : step s (.save p f id) = some s') :
    (step s' (.save p f id)).isSome = true :=
  save_twice s s' p f id hs

/-- A load id is usable only by the process that loaded it (and only for the row it was loaded from): an accepted save
`save p f id` has a `load p f id` before it. -/
theorem load_id_is_private (es : List Ev) (s s' : State) (p f id : Nat) (h : run {} es = some s)
    (hs : step s (.save p f id) = some s') : Ev.load p f id ∈ es :=
  load_id_private es s s' p f id h hs

/-- Concretely: process 2 offering process 1's load id is rejected. -/
theorem foreign_load_id_is_rejected :
    (run {} [.begin 1, .load 1 5 1, .commit 1, .begin 2]).isSome = true ∧
    (run {} [.begin 1, .load 1 5 1, .commit 1, .begin 2, .save 2 5 1]).isNone = true :=
  foreign_load_id_rejected

end C16
