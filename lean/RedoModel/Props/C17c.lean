import RedoModel.Lemmas.DepsQuiet14
/-!
# C17 (continued) — `redo-ood` lists nothing right after a successful full build
Property theorem only (application of `RedoModel/Lemmas/DepsQuiet6.lean`).  Model: `RedoModel/Deps.lean`.
-/
namespace C17
open RedoModel.Deps RedoModel.Deps.Rich

/-- After any rich history, let `redo-ifchange ts` (or `redo ts`: `forced`) exit 0, let the recorded dependency
closure of `ts` hold no row on the `//ALWAYS` pseudo file (a `redo-always` target is always out of date), and let `ts`
name every known target (what `redo-targets` would print).  Then `redo-ood`, run next, prints nothing. -/
theorem ood_empty_after_build (n : Nat) (rules : Nat → List Nat) (rank : Nat → Nat) (ops : List UserOp) (ts : List Nat)
    (kg forced : Bool) (hr : RulesOk rules) (hp : ∀ op ∈ ops, RichOp rules op)
    (hrk : ∀ w ∈ worldsOf n {} (initWorld rules) ops, RankedR rank w) (hN : ∀ f, rank f < n)
    (hok : OpsOkW n (initWorld rules) ops) (hts0 : ∀ t ∈ ts, t ≠ alwaysId) :
    let w := ops.foldl (fun w op => (applyOp {} n op w).2) (initWorld rules)
    let r1 := runCmd {} n (if forced then .redo ts kg else .ifchange ts kg) w
    r1.1.status = 0 → ¬ RecReach r1.2 ts alwaysId →
    (∀ f, f < n → known r1.2 f = true → isTarget r1.2 (r1.2.runCounter + 1) f = true → f ∈ ts) →
    (runCmd {} n .ood r1.2).1.listing = [] :=
  oodEmptyAfterBuild n rules rank ops ts kg forced hr hp hrk hN hok hts0

end C17
