import RedoModel.Lemmas.DepsFuel
/-!
# C12 (continued) — the fuel is an artefact; a cycle of any length is reported at every level
Property theorems only (one-line applications of `RedoModel/Lemmas/DepsFuel*.lean`).  Model: `RedoModel/Deps.lean`.

Every function of the model is total, so "terminates" holds by construction.  What is proven here is that
this is not bought by the fuel: with all ids below `N`

1. the dirtiness check never reaches its `fuel = 0` case (`.cyclic` always stems from a genuine revisit);
2. (A) the engine never reaches its innermost level (`engine d 0`, which answers `EXIT_FAILURE`), at the bound
   `2 * (N - |REDO_CYCLES|) + 2` — so never in `runCmd d nfiles` when `N ≤ nfiles + 1`;
   (B) the *whole* result of a nested command is independent of the fuel from `N` levels more: the dirtiness
   check inside a nested command is handed the engine's index as its fuel, and the index has gone down by up
   to two per level of nesting (a script level and the out-of-band level in front of it) — see
   `Ex.suggested_bound_too_small` for why the `N` cannot be dropped for arbitrary contexts and worlds.  For
   `runCmd` this means `2 * nfiles + 4 ≥ 3 * N + 1`;
   (B′) in a project that never uses `redo-stamp` there is no out-of-band level and `runCmd` at `nfiles = N`
   already has more fuel than can be used.
   NOT proven: that `runCmd d N` with `redo-stamp` in use never exhausts the fuel of a dirtiness check deep
   inside a build (`N ≥ 4`); the reason it should hold is semantic (every out-of-band level marks a distinct
   file as checked in this run), not the counting argument used here.
3. a request that leads back to a target being built is refused with 208, and that failure travels up through
   every script, job and command of a chain of any length, from every entry point, whatever the innermost
   engine level would answer.
-/
namespace C12
open RedoModel.Deps RedoModel.Generated

/-! ## 1. The dirtiness check -/

/-- More fuel changes nothing once the fuel exceeds the number of files not yet on the path. -/
theorem isDirty_fuel_irrelevant (ood : Bool) (R N fuel k : Nat) (w : World) (cache : List Nat) (f mx : Nat)
    (seen : List Nat) (pre : Option Rec)
    (hb : ∀ d ∈ w.deps, d.source < N) (hf : f < N) (hnd : seen.Nodup) (hsb : ∀ x ∈ seen, x < N)
    (hfuel : N - seen.length + 1 ≤ fuel) :
    isDirty ood R fuel w cache f mx seen pre = isDirty ood R (fuel + k) w cache f mx seen pre :=
  RedoModel.Deps.isDirty_fuel_irrelevant ood R N fuel k w cache f mx seen pre hb hf hnd hsb hfuel

/-- The `fuel = 0` case is never consulted: put *any* answer `base` there (`isDirtyFrom base`), the result is
that of the model.  Hence a `.cyclic` verdict always stems from `f ∈ seen`. -/
theorem isDirty_base_irrelevant (base) (ood : Bool) (R N n1 n2 : Nat) (w : World) (cache : List Nat) (f mx : Nat)
    (seen : List Nat) (pre : Option Rec)
    (hb : ∀ d ∈ w.deps, d.source < N) (hf : f < N) (hnd : seen.Nodup) (hsb : ∀ x ∈ seen, x < N)
    (h1 : N - seen.length + 1 ≤ n1) (h2 : N - seen.length + 1 ≤ n2) :
    isDirtyFrom base ood R n1 w cache f mx seen pre = isDirty ood R n2 w cache f mx seen pre :=
  isDirtyFrom_eq_isDirty base ood R N n1 n2 w cache f mx seen pre hb hf hnd hsb h1 h2

/-- `isDirtyFrom` is the model's `isDirty` when `base` is the model's answer. -/
theorem isDirty_is_from (ood : Bool) (R n : Nat) :
    isDirty ood R n = isDirtyFrom (fun w c _ _ _ _ => (.cyclic, w, c)) ood R n :=
  isDirty_eq_from ood R n

/-- In `runCmd`'s own top-level checks (`fuel = 2 * nfiles + 4`, `seen = []`) the base case is never reached. -/
theorem isDirty_top_level (base) (ood : Bool) (R nf : Nat) (w : World) (cache : List Nat) (f mx : Nat)
    (hb : ∀ d ∈ w.deps, d.source < nf) (hf : f < nf) :
    isDirtyFrom base ood R (2 * nf + 4) w cache f mx [] none = isDirty ood R (2 * nf + 4) w cache f mx [] none :=
  isDirtyFrom_eq_isDirty base ood R nf _ _ w cache f mx [] none hb hf List.nodup_nil (fun _ h => by cases h)
    (by simp; omega) (by simp; omega)

/-- `redo-ood` (the query walks every known target with the model's fuel): any fuel above `nfiles` gives the
same listing and world; the files it starts from are below `nfiles` by construction. -/
theorem ood_fuel_irrelevant (d : Defects) (nf fuel : Nat) (w : World) (hb : ∀ dp ∈ w.deps, dp.source < nf)
    (hfuel : nf + 1 ≤ fuel) : runCmd d nf .ood w = oodWith fuel nf w := by
  rw [runCmd_ood_eq]
  exact oodWith_fuel nf _ fuel w hb (by omega) hfuel

/-! ## 2. The engine -/

/-- `engine d n` is `engineFrom failBase d n`: the engine over the innermost level that answers `EXIT_FAILURE`. -/
theorem engine_is_from (d : Defects) (n : Nat) : engine d n = engineFrom failBase d n := engine_eq_from d n

/-- **(A)** The innermost level is never consulted: over any two innermost levels the nested command gives the
same result, from index `2 * (N - |cycles|) + 2` on (`+ 1` when no out-of-band rebuild can follow).
(`WInv false N w`: every id in `w` — sources of dependency rows, .do candidates, names in programs — is
below `N`; `CtxOK N cx`: `REDO_CYCLES` holds distinct ids below `N`.) -/
theorem engine_base_irrelevant (b1 b2 : Engine) (d : Defects) (N n : Nat) (cx : Ctx) (ts : List Nat) (w : World)
    (hcx : CtxOK N cx) (hts : ∀ t ∈ ts, t < N) (hun : cx.unlocked = true → ∀ t ∈ ts, t ∉ cx.cycles) (hw : WInv false N w)
    (hn : 2 * (N - cx.cycles.length) + 2 ≤ n) :
    (engineFrom b1 d n).ifchangeCmd cx ts w = (engineFrom b2 d n).ifchangeCmd cx ts w :=
  (engineFrom_base_irrelevant b1 b2 d N n cx ts w hcx hts hun hw (by simp only [lvl, Bool.false_eq_true, if_false]; split <;> omega)).1

/-- **(B)** Fuel irrelevance of nested commands: `N` more levels (the share of the dirtiness check, which
is handed the engine's index as its fuel) make the result independent of the fuel altogether. -/
theorem engine_fuel_irrelevant (d : Defects) (N n k : Nat) (cx : Ctx) (ts : List Nat) (w : World)
    (hcx : CtxOK N cx) (hts : ∀ t ∈ ts, t < N) (hun : cx.unlocked = true → ∀ t ∈ ts, t ∉ cx.cycles) (hw : WInv false N w)
    (hn : 2 * (N - cx.cycles.length) + 2 + N ≤ n) :
    (engine d n).ifchangeCmd cx ts w = (engine d (n + k)).ifchangeCmd cx ts w := by
  rw [engine_eq_from, engine_eq_from]
  exact (engineFrom_fuel_irrelevant failBase failBase d N n (n + k) cx ts w hcx hts hun hw
    (by simp only [lvl, Bool.false_eq_true, if_false]; split <;> omega) (by simp only [lvl, Bool.false_eq_true, if_false]; split <;> omega)).1

/-- **(B′)** In a project that never uses `redo-stamp` (`WInv true N w`: moreover no record carries a checksum and
no program calls `redo-stamp`) there is no out-of-band level: one engine level per id that is not yet an
ancestor, plus the share of the dirtiness check. -/
theorem engine_fuel_irrelevant_nostamp (d : Defects) (N n k : Nat) (cx : Ctx) (ts : List Nat) (w : World)
    (hcx : CtxOK N cx) (hts : ∀ t ∈ ts, t < N) (hun : cx.unlocked = true → ∀ t ∈ ts, t ∉ cx.cycles) (hw : WInv true N w)
    (hn : (N - cx.cycles.length) + N + 1 ≤ n) :
    (engine d n).ifchangeCmd cx ts w = (engine d (n + k)).ifchangeCmd cx ts w := by
  rw [engine_eq_from, engine_eq_from]
  exact (engineFrom_fuel_irrelevant failBase failBase d N n (n + k) cx ts w hcx hts hun hw
    (by simp only [lvl]; simp; omega) (by simp only [lvl]; simp; omega)).1

/-- The invariant "all ids below `N`" survives every nested command. -/
theorem engine_keeps_ids_below (d : Defects) (N n : Nat) (cx : Ctx) (ts : List Nat) (w : World)
    (hcx : CtxOK N cx) (hts : ∀ t ∈ ts, t < N) (hun : cx.unlocked = true → ∀ t ∈ ts, t ∉ cx.cycles) (hw : WInv false N w)
    (hn : 2 * (N - cx.cycles.length) + 2 ≤ n) : WInv false N ((engine d n).ifchangeCmd cx ts w).2 := by
  rw [engine_eq_from]
  exact (engineFrom_base_irrelevant failBase failBase d N n cx ts w hcx hts hun hw
    (by simp only [lvl, Bool.false_eq_true, if_false]; split <;> omega)).2

/-- (A) for the model's commands: in `runCmd d nf (redo-ifchange ts)` with all ids below `N ≤ nf + 1` the
`EXIT_FAILURE` answer of `engine d 0` is never observed — any other innermost level gives the same run. -/
theorem runCmd_ifchange_base_irrelevant (base : Engine) (d : Defects) (N nf : Nat) (ts : List Nat) (kg : Bool) (w : World)
    (hw : WInv false N w) (hts : ∀ t ∈ ts, t < N) (hN : N ≤ nf + 1) :
    runCmd d nf (.ifchange ts kg) w = runTop (engineFrom base d (2 * nf + 4)) d (2 * nf + 4) false kg ts w := by
  rw [runCmd_ifchange_eq, engine_eq_from]
  exact runTop_base_irrelevant failBase base d N _ _ false kg ts w hw hts (by simp; omega)

theorem runCmd_redo_base_irrelevant (base : Engine) (d : Defects) (N nf : Nat) (ts : List Nat) (kg : Bool) (w : World)
    (hw : WInv false N w) (hts : ∀ t ∈ ts, t < N) (hN : N ≤ nf + 1) :
    runCmd d nf (.redo ts kg) w = runTop (engineFrom base d (2 * nf + 4)) d (2 * nf + 4) true kg ts w := by
  rw [runCmd_redo_eq, engine_eq_from]
  exact runTop_base_irrelevant failBase base d N _ _ true kg ts w hw hts (by simp; omega)

/-- (B) for the model's commands: the result does not depend on `nfiles` once `2 * nfiles + 4 ≥ 3 * N + 1`. -/
theorem runCmd_ifchange_fuel_irrelevant (d : Defects) (N nf nf' : Nat) (ts : List Nat) (kg : Bool) (w : World)
    (hw : WInv false N w) (hts : ∀ t ∈ ts, t < N) (h : 3 * N ≤ 2 * nf + 3) (h' : 3 * N ≤ 2 * nf' + 3) :
    runCmd d nf (.ifchange ts kg) w = runCmd d nf' (.ifchange ts kg) w := by
  rw [runCmd_ifchange_eq, runCmd_ifchange_eq, engine_eq_from, engine_eq_from]
  exact runTop_fuel_irrelevant failBase failBase d N _ _ _ _ false kg ts w hw hts (by simp; omega) (by simp; omega)
    (by omega) (by omega)

theorem runCmd_redo_fuel_irrelevant (d : Defects) (N nf nf' : Nat) (ts : List Nat) (kg : Bool) (w : World)
    (hw : WInv false N w) (hts : ∀ t ∈ ts, t < N) (h : 3 * N ≤ 2 * nf + 3) (h' : 3 * N ≤ 2 * nf' + 3) :
    runCmd d nf (.redo ts kg) w = runCmd d nf' (.redo ts kg) w := by
  rw [runCmd_redo_eq, runCmd_redo_eq, engine_eq_from, engine_eq_from]
  exact runTop_fuel_irrelevant failBase failBase d N _ _ _ _ true kg ts w hw hts (by simp; omega) (by simp; omega)
    (by omega) (by omega)

/-- (B′) for the model's commands: in a project that never uses `redo-stamp`, `runCmd` at its own setting
`nfiles = N` already has more fuel than can be used: any larger `nfiles` gives the same run. -/
theorem runCmd_ifchange_fuel_irrelevant_nostamp (d : Defects) (N nf nf' : Nat) (ts : List Nat) (kg : Bool) (w : World)
    (hw : WInv true N w) (hts : ∀ t ∈ ts, t < N) (h : N ≤ nf) (h' : N ≤ nf') :
    runCmd d nf (.ifchange ts kg) w = runCmd d nf' (.ifchange ts kg) w := by
  rw [runCmd_ifchange_eq, runCmd_ifchange_eq, engine_eq_from, engine_eq_from]
  exact runTop_fuel_irrelevant failBase failBase d N _ _ _ _ false kg ts w hw hts (by simp; omega) (by simp; omega)
    (by omega) (by omega)

theorem runCmd_redo_fuel_irrelevant_nostamp (d : Defects) (N nf nf' : Nat) (ts : List Nat) (kg : Bool) (w : World)
    (hw : WInv true N w) (hts : ∀ t ∈ ts, t < N) (h : N ≤ nf) (h' : N ≤ nf') :
    runCmd d nf (.redo ts kg) w = runCmd d nf' (.redo ts kg) w := by
  rw [runCmd_redo_eq, runCmd_redo_eq, engine_eq_from, engine_eq_from]
  exact runTop_fuel_irrelevant failBase failBase d N _ _ _ _ true kg ts w hw hts (by simp; omega) (by simp; omega)
    (by omega) (by omega)

/-! ## 3. Cycles are reported -/

/-- (a) `redo-ifchange` naming the target whose script runs it: 208, nothing recorded. -/
theorem self_request_is_208 (E : Engine) (d : Defects) (fuel : Nat) (cx : Ctx) (ts : List Nat) (w : World) (p : Nat)
    (hp : cx.parent = some p) (hu : cx.unlocked = false) (hm : p ∈ ts) :
    ifchangeWith E d fuel cx ts w = (EXIT_CYCLIC_DEPENDENCY, w) ∧ EXIT_CYCLIC_DEPENDENCY = 208 :=
  ⟨ifchangeWith_self E d fuel cx ts w p hp hu hm, rfl⟩

/-- (b) A target list that contains a member of `REDO_CYCLES` has a non-zero status — with and without
`--keep-going`, wherever the member stands in the list, whatever the other targets do. -/
theorem cycle_member_fails (E : Engine) (d : Defects) (cx : Ctx) (fuel : Nat) (ts : List Nat) (e : Bool) (w : World)
    (hu : cx.unlocked = false) (h : ∃ t ∈ ts, t ∈ cx.cycles) : (runTargets E d cx fuel ts [] e w).1 ≠ 0 :=
  runTargets_cycle_nonzero E d cx fuel hu ts [] e w (h.elim fun t ht => ⟨t, ht.1, ht.2, by simp⟩)

/-- … the same for the whole command, at every engine level. -/
theorem cycle_member_fails_cmd (d : Defects) (n : Nat) (cx : Ctx) (ts : List Nat) (w : World)
    (hu : cx.unlocked = false) (h : ∃ t ∈ ts, t ∈ cx.cycles) : ((engine d n).ifchangeCmd cx ts w).1 ≠ 0 :=
  engine_cycle_nonzero d n cx ts w hu h

/-- … and exactly 208 when the member is the first target. -/
theorem cycle_head_is_208 (E : Engine) (d : Defects) (fuel : Nat) (cx : Ctx) (t : Nat) (ts : List Nat) (w : World)
    (hu : cx.unlocked = false) (h : t ∈ cx.cycles) : (ifchangeWith E d fuel cx (t :: ts) w).1 = 208 :=
  ifchangeWith_head_cycle E d fuel cx t ts w hu h

/-- (c) step, script: `sh -e` — a script one of whose `redo-ifchange` commands fails (in every world) fails. -/
theorem failing_command_fails_script (E : Engine) (d : Defects) (cx : Ctx) (t : Nat) (sc : Script) (w : World)
    (c : List Nat) (hc : c ∈ sc.ifchange) (h : ∀ w', (E.ifchangeCmd (scriptCtx cx t) c w').1 ≠ 0) :
    (runScript E d cx t sc w).1 ≠ 0 :=
  runScript_nonzero E d cx t sc w (fun w1 => cmds_mem_nonzero E cx t _ c h sc.ifchange 0 w1 hc)

/-- (c) step, job: a target that is forced to run (missing; never built, or failed when last built) and whose
script starts with a failing `redo-ifchange` is a failed job: its result is never `.done 0` (it is the script's
failure recorded by `record_new_state`, or `EXIT_TARGET_FAILED` if it already failed in this run). -/
theorem failing_command_fails_job (E : Engine) (d : Defects) (cx : Ctx) (fuel t x : Nat) (w : World)
    (hF : Forced w t x) (hfuel : 0 < fuel)
    (hE : ∀ rest w', Desc w w' → (E.ifchangeCmd (scriptCtx cx t) (x :: rest) w').1 ≠ 0) :
    ∀ rv w1, buildJob E d cx fuel t w = (.done rv, w1) → rv ≠ 0 :=
  buildJob_forced E d cx fuel t x w hF hfuel hE

/-- (c) step, command: a failed job makes the enclosing command fail, whatever else it names. -/
theorem failing_job_fails_command (E : Engine) (d : Defects) (cx : Ctx) (fuel t : Nat) (ts seen : List Nat) (e : Bool)
    (w : World) (hs : t ∉ seen) (hj : ∀ rv w1, buildJob E d cx fuel t (addKnown w t) = (.done rv, w1) → rv ≠ 0) :
    (runTargets E d cx fuel (t :: ts) seen e w).1 ≠ 0 :=
  runTargets_head_nonzero E d cx fuel t ts seen e w hs hj

/-- (c) **The chain theorem.**  `ch 0 → ch 1 → … → ch k → ch (k+1) = ch j`, `j ≤ k`: every element is forced to
run and its script starts by asking for the next; the last request returns into the chain.  Then a command
that starts with `ch 0` fails — for every length `k`, every entry point (every rotation of the loop is such a
chain, as is every path leading into one), every context that is not `redo-unlocked`'s, with and without
`--keep-going`, and *whatever the innermost engine level `base` answers* as soon as there is one engine
level per chain element: the failure is the cycle's, not the fuel's. -/
theorem cycle_of_any_length_fails (base : Engine) (d : Defects) (w0 : World) (ch : Nat → Nat) (k j : Nat)
    (hL : Lasso w0 ch k j) (n fuel : Nat) (cx : Ctx) (rest : List Nat) (w : World) (hn : k + 1 ≤ n) (hfuel : 0 < fuel)
    (hu : cx.unlocked = false) (hw : Desc w0 w) :
    (runTargets (engineFrom base d n) d cx fuel (ch 0 :: rest) [] false w).1 ≠ 0 :=
  lasso_fails base d w0 ch k j hL n fuel cx rest w hn hfuel hu hw

/-- … for the model's own commands. -/
theorem cycle_fails_redo_ifchange (d : Defects) (nf : Nat) (w : World) (ch : Nat → Nat) (k j : Nat) (hL : Lasso w ch k j)
    (hk : k ≤ 2 * nf + 3) (rest : List Nat) (kg : Bool) :
    (runCmd d nf (.ifchange (ch 0 :: rest) kg) w).1.status ≠ 0 :=
  lasso_runCmd_ifchange d nf w ch k j hL hk rest kg

theorem cycle_fails_redo (d : Defects) (nf : Nat) (w : World) (ch : Nat → Nat) (k j : Nat) (hL : Lasso w ch k j)
    (hk : k ≤ 2 * nf + 3) (rest : List Nat) (kg : Bool) :
    (runCmd d nf (.redo (ch 0 :: rest) kg) w).1.status ≠ 0 :=
  lasso_runCmd_redo d nf w ch k j hL hk rest kg

/-! ## 4. Non-vacuity: concrete worlds -/

namespace Ex

/-- A fresh project with the 3-cycle `1 → 2 → 3 → 1`: `1.do = 4`, `2.do = 5`, `3.do = 6`. -/
def rules3 : Nat → List Nat := fun t => if t = 1 then [4] else if t = 2 then [5] else if t = 3 then [6] else []

def ops3 : List UserOp :=
  [ .setProg (srcContent 1) { ifchange := [[2]] }, .setProg (srcContent 2) { ifchange := [[3]] },
    .setProg (srcContent 3) { ifchange := [[1]] }, .write 4 1, .write 5 2, .write 6 3 ]

def w3 : World := ops3.foldl (fun w op => (applyOp {} 7 op w).2) (initWorld rules3)

/-- Entered at each of its three members (and with `redo`, and with `--keep-going`), the cycle gives a non-zero status… -/
example : (runCmd {} 7 (.ifchange [1] false) w3).1.status = 1 := by decide +kernel
example : (runCmd {} 7 (.ifchange [2] false) w3).1.status = 1 := by decide +kernel
example : (runCmd {} 7 (.ifchange [3] false) w3).1.status = 1 := by decide +kernel
example : (runCmd {} 7 (.redo [2] true) w3).1.status = 1 := by decide +kernel
example : (runCmd {} 7 (.ifchange [1, 2, 3] true) w3).1.status = 1 := by decide +kernel

/-- … each member ran exactly once, innermost last (the descent stopped where the loop closed)… -/
example : (runCmd {} 7 (.ifchange [1] false) w3).2.trace = [.ran 3, .ran 2, .ran 1] := by decide +kernel
example : (runCmd {} 7 (.ifchange [2] false) w3).2.trace = [.ran 1, .ran 3, .ran 2] := by decide +kernel
example : (runCmd {} 7 (.ifchange [3] false) w3).2.trace = [.ran 2, .ran 1, .ran 3] := by decide +kernel

/-- … the innermost, detecting command (the one `3.do` issues with `REDO_CYCLES = 3 2 1`) answers exactly 208,
and the commands above it answer 1 … -/
example : ((engine {} 3).ifchangeCmd { runid := 1, parent := some 3, cycles := [3, 2, 1] } [1] w3).1 = 208 := by
  decide +kernel
example : ((engine {} 9).ifchangeCmd { runid := 1, parent := some 2, cycles := [2, 1] } [3] w3).1 = 1 := by
  decide +kernel
example : ((engine {} 9).ifchangeCmd { runid := 1, parent := some 1, cycles := [1] } [2] w3).1 = 1 := by
  decide +kernel

/-- … all three are recorded as failed in this run. -/
example : ((runCmd {} 7 (.ifchange [1] false) w3).2.recs 1).failed = some 1 ∧
    ((runCmd {} 7 (.ifchange [1] false) w3).2.recs 2).failed = some 1 ∧
    ((runCmd {} 7 (.ifchange [1] false) w3).2.recs 3).failed = some 1 := by decide +kernel

def ch3 (a : Nat) : Nat → Nat := fun i => (a + i - 1) % 3 + 1

theorem forced12 : Forced w3 1 2 :=
  ⟨by decide, by decide +kernel, Or.inr (by decide +kernel), 4, { content := srcContent 1, ms := 1, rest := 0 },
    { ifchange := [[2]] }, [], [], by decide +kernel, by decide +kernel, by decide +kernel, (fun _ h => by cases h), rfl⟩

theorem forced23 : Forced w3 2 3 :=
  ⟨by decide, by decide +kernel, Or.inr (by decide +kernel), 5, { content := srcContent 2, ms := 2, rest := 0 },
    { ifchange := [[3]] }, [], [], by decide +kernel, by decide +kernel, by decide +kernel, (fun _ h => by cases h), rfl⟩

theorem forced31 : Forced w3 3 1 :=
  ⟨by decide, by decide +kernel, Or.inr (by decide +kernel), 6, { content := srcContent 3, ms := 3, rest := 0 },
    { ifchange := [[1]] }, [], [], by decide +kernel, by decide +kernel, by decide +kernel, (fun _ h => by cases h), rfl⟩

/-- The hypotheses of the chain theorem hold for the 3-cycle from every entry point `a ∈ {1, 2, 3}`. -/
theorem lasso3 (a : Nat) (ha : a = 1 ∨ a = 2 ∨ a = 3) : Lasso w3 (ch3 a) 2 0 := by
  refine ⟨?_, ?_, by decide⟩
  · intro i hi
    have hi' : i = 0 ∨ i = 1 ∨ i = 2 := by omega
    rcases ha with rfl | rfl | rfl <;> rcases hi' with rfl | rfl | rfl <;>
      first | exact forced12 | exact forced23 | exact forced31
  · rcases ha with rfl | rfl | rfl <;> rfl

example (a : Nat) (ha : a = 1 ∨ a = 2 ∨ a = 3) (kg : Bool) :
    (runCmd {} 7 (.ifchange (ch3 a 0 :: []) kg) w3).1.status ≠ 0 :=
  cycle_fails_redo_ifchange {} 7 w3 (ch3 a) 2 0 (lasso3 a ha) (by omega) [] kg

/-- The next run reports the cycle again (now every member is a target that failed when last built). -/
def w3' : World := (runCmd {} 7 (.ifchange [1] false) w3).2

theorem lasso3' : Lasso w3' (ch3 1) 2 0 := by
  refine ⟨?_, rfl, by decide⟩
  intro i hi
  have hi' : i = 0 ∨ i = 1 ∨ i = 2 := by omega
  rcases hi' with rfl | rfl | rfl
  · exact ⟨by decide, by decide +kernel, Or.inl (by decide +kernel), 4, { content := srcContent 1, ms := 1, rest := 0 },
      { ifchange := [[2]] }, [], [], by decide +kernel, by decide +kernel, by decide +kernel, (fun _ h => by cases h), rfl⟩
  · exact ⟨by decide, by decide +kernel, Or.inl (by decide +kernel), 5, { content := srcContent 2, ms := 2, rest := 0 },
      { ifchange := [[3]] }, [], [], by decide +kernel, by decide +kernel, by decide +kernel, (fun _ h => by cases h), rfl⟩
  · exact ⟨by decide, by decide +kernel, Or.inl (by decide +kernel), 6, { content := srcContent 3, ms := 3, rest := 0 },
      { ifchange := [[1]] }, [], [], by decide +kernel, by decide +kernel, by decide +kernel, (fun _ h => by cases h), rfl⟩

example : (runCmd {} 7 (.ifchange [1] true) w3').1.status ≠ 0 :=
  cycle_fails_redo_ifchange {} 7 w3' (ch3 1) 2 0 lasso3' (by omega) [] true
example : (runCmd {} 7 (.ifchange [1] false) w3').1.status = 1 ∧
    (runCmd {} 7 (.ifchange [1] false) w3').2.trace = [.ran 3, .ran 2, .ran 1, .ran 3, .ran 2, .ran 1] := by decide +kernel

/-- The bound `k + 1 ≤ n` of the chain theorem is sharp: over an innermost level that answers 0, two engine
levels let the 3-cycle "succeed", three do not. -/
def zeroBase : Engine := { ifchangeCmd := fun _ _ w => (0, w) }
example : (runTop (engineFrom zeroBase {} 2) {} 1 false false [1] w3).1.status = 0 := by decide +kernel
example : (runTop (engineFrom zeroBase {} 3) {} 1 false false [1] w3).1.status = 1 := by decide +kernel

/-! ### A long recorded chain, deep in a build -/

/-- Files 1…7, all built in run 1, with the recorded chain `7 → 1 → 2 → 3 → 4 → 5 → 6`; nothing changed. -/
def wc : World :=
  { fs := fun f => if 1 ≤ f ∧ f ≤ 7 then some { content := [f], ms := 1, rest := 0 } else none,
    recs := fun f => if 1 ≤ f ∧ f ≤ 7 then
        { row := f + 1, isGenerated := true, checked := some 1, changed := some 1, stamp := some (.st 1 0) }
      else if f = 0 then { row := 1 } else {},
    deps := [⟨7, 1, true, false⟩, ⟨1, 2, true, false⟩, ⟨2, 3, true, false⟩, ⟨3, 4, true, false⟩, ⟨4, 5, true, false⟩,
      ⟨5, 6, true, false⟩],
    runCounter := 2, clock := 1, nextRow := 9, progs := fun _ => none, rules := fun _ => [], trace := [] }

/-- A context six levels deep: `1 … 6` are being built. -/
def cxc : Ctx := { runid := 2, cycles := [1, 2, 3, 4, 5, 6] }

theorem wc_inv (nc : Bool) : WInv nc 8 wc :=
  ⟨by decide, (by unfold DepsBelow; decide), (fun _ _ h => by cases h), (fun _ _ h => by cases h),
    (fun _ f => by unfold wc; dsimp only; repeat' split
                   all_goals rfl)⟩

theorem cxc_ok : CtxOK 8 cxc := ⟨by decide, by decide, (fun h => by cases h)⟩

/-- Theorem 1 on it: the walk from 7 needs 7 units of fuel; 9 or 14 make no difference, and any base will do. -/
example : isDirty false 2 9 wc [] 7 2 [] none = isDirty false 2 (9 + 5) wc [] 7 2 [] none :=
  C12.isDirty_fuel_irrelevant false 2 8 9 5 wc [] 7 2 [] none (by decide) (by decide) (by decide) (by decide) (by decide)
example : (isDirty false 2 9 wc [] 7 2 [] none).1 = .clean := by decide +kernel
example : (isDirty false 2 6 wc [] 7 2 [] none).1 = .cyclic := by decide +kernel

/-- Theorems (A) and (B) on it (`N = 8`, six ancestors: (A) from index 6, (B) from index 14). -/
example (b1 b2 : Engine) : (engineFrom b1 {} 6).ifchangeCmd cxc [7] wc = (engineFrom b2 {} 6).ifchangeCmd cxc [7] wc :=
  engine_base_irrelevant b1 b2 {} 8 6 cxc [7] wc cxc_ok (by decide) (fun h => by cases h) (wc_inv false) (by decide)
example : (engine {} 14).ifchangeCmd cxc [7] wc = (engine {} (14 + 3)).ifchangeCmd cxc [7] wc :=
  engine_fuel_irrelevant {} 8 14 3 cxc [7] wc cxc_ok (by decide) (fun h => by cases h) (wc_inv false) (by decide)

/-- (A), (B), (B′) for the model's commands on it (`wc` has no checksums, so both invariants hold). -/
example (base : Engine) : runCmd {} 8 (.ifchange [7] false) wc =
    runTop (engineFrom base {} (2 * 8 + 4)) {} (2 * 8 + 4) false false [7] wc :=
  runCmd_ifchange_base_irrelevant base {} 8 8 [7] false wc (wc_inv false) (by decide) (by decide)
example : runCmd {} 11 (.ifchange [7] false) wc = runCmd {} 20 (.ifchange [7] false) wc :=
  runCmd_ifchange_fuel_irrelevant {} 8 11 20 [7] false wc (wc_inv false) (by decide) (by decide) (by decide)
example : runCmd {} 8 (.redo [7] true) wc = runCmd {} 20 (.redo [7] true) wc :=
  runCmd_redo_fuel_irrelevant_nostamp {} 8 8 20 [7] true wc (wc_inv true) (by decide) (by decide) (by decide)
example : (runCmd {} 8 (.ifchange [7] false) wc).1.status = 0 := by decide +kernel
example : runCmd {} 8 .ood wc = oodWith 9 8 wc :=
  ood_fuel_irrelevant {} 8 9 wc (by decide) (by decide)

/-- **Counterexample to the bound `2 * (N - |cycles|) + 2` for full fuel irrelevance** (the statement
`(engine d n).ifchangeCmd cx ts w = (engine d (n + k)).ifchangeCmd cx ts w` for `n ≥ 2 * (N - |cycles|) + 2`):
all ids are below `N = 8`, six ancestors, `n = 6`.  The nested command hands its index `6` to the dirtiness
check as fuel; the recorded chain from `7` has seven files, the check runs out at the last one and reports a
cyclic dependency that does not exist; one more level and the target is (correctly) clean.  The engine's own
innermost level is *not* involved (that is (A)); what is too small is the fuel of `isDirty` deep inside a
build.  `runCmd` hands `2 * nfiles + 4` to the top level and one less per level of nesting. -/
theorem suggested_bound_too_small :
    WInv true 8 wc ∧ CtxOK 8 cxc ∧ 2 * (8 - cxc.cycles.length) + 2 = 6 ∧
    ((engine {} 6).ifchangeCmd cxc [7] wc).1 = 208 ∧ ((engine {} (6 + 1)).ifchangeCmd cxc [7] wc).1 = 0 :=
  ⟨wc_inv true, cxc_ok, rfl, by decide +kernel, by decide +kernel⟩

end Ex

end C12
