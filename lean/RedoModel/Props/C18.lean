import RedoModel.Props.C18d
import RedoModel.Props.C18c
import RedoModel.Lemmas.LogRecRt
import RedoModel.Props.C18e
import RedoModel.Props.C18f
import RedoModel.Props.C18g
import RedoModel.Props.C18b
import RedoModel.Generated
/-!
# C18 — Build output is logged completely, once, and under the right target
Property theorems only.  Model: `RedoModel/LogRec.lean`.
-/
namespace C18
open RedoModel.LogRec

/-- The record syntax the theorems are about is the one in the source (re-extracted on every run). -/
theorem syntax_tied : String.ofList pre = RedoModel.Generated.metaPrefix ∧
    String.ofList sep = RedoModel.Generated.metaSep ∧
    RedoModel.Generated.metaFormat = "{}{}:{}:{:.4}{}{}" := by decide

/-- Structured records survive formatting and re-parsing unchanged: for every kind without
`:`, `@`, newline, every canonical pid and timestamp token and every text without newline. -/
theorem roundtrip (r : Rec)
    (hk : ∀ c ∈ r.kind, c ≠ ':' ∧ c ≠ '@' ∧ c ≠ '\n')
    (hp : canonI32 r.pid = some r.pid) (ht : canonTs r.ts = true) (hx : '\n' ∉ r.text) :
    parse (format r) = .ok r := roundtrip_proof r hk hp ht hx

/-- `"<rv> <name>"` of a `done` record re-parses to the same status and name, for any name
(spaces included) and any canonical status. -/
theorem done_roundtrip (rv name : List Char) (hrv : canonI32 rv = some rv) :
    parseDoneText (rv ++ ' ' :: name) = some (rv, name) := done_roundtrip_proof rv name hrv

/-- What `logs::write` accepts: text without newline plus one final newline. -/
theorem valid_line (l : List Char) (h : '\n' ∉ l) : isValidLogLine (l ++ ['\n']) = true := by
  unfold isValidLogLine
  simp [h]

/-- Non-vacuity: a concrete record meets the hypotheses of `roundtrip`. -/
example : parse (format ⟨kDone, ['3','1','9','2','4'], "1790659939.3597".toList, "0 a b".toList⟩)
    = .ok ⟨kDone, ['3','1','9','2','4'], "1790659939.3597".toList, "0 a b".toList⟩ := by
  apply roundtrip <;> decide

/-- Known finding `inbandRecordsInStderr`, stated on the model: a stderr line that has the
record syntax is parsed as a record (so `catlog` consumes it instead of showing it). -/
theorem inband_witness :
    parsedKind "@@REDO:do:1:0.0000@@ x".toList = some (kDo, ['x']) := by decide +kernel

end C18
