import RedoModel.Commit
/-!
# C04 — Targets are replaced atomically and only by complete, unambiguous output
Property theorems only.  Model: `RedoModel/Commit.lean` (decision part of `record_new_state`).
The documented statuses are the generated constants (re-extracted from src/exits.rs each run).
-/
namespace C04
open RedoModel.Commit RedoModel.Generated

/-- The input of the decision describes the two-name file system the script left behind. -/
def Coherent (i : Input) (fs : Fs) (stdout : Bytes) : Prop :=
  i.tmpExists = fs.tmp.isSome ∧ (decide (i.stdoutSize > 0) = !stdout.isEmpty) ∧
  i.createFails = false ∧ i.renameFails = false

def final (i : Input) (fs : Fs) (stdout : Bytes) : Fs := applyOps stdout false fs (decide i).ops

/-- The documented statuses. -/
theorem status (i : Input) :
    (modifiedDirectly i = true → (decide i).rv = EXIT_TARGET_DIRECTLY_MODIFIED) ∧
    (modifiedDirectly i = false → bothOutputs i = true → (decide i).rv = EXIT_MULTIPLE_OUTPUTS) ∧
    (modifiedDirectly i = false → bothOutputs i = false → i.rv ≠ 0 → (decide i).rv = i.rv) ∧
    EXIT_TARGET_DIRECTLY_MODIFIED = 206 ∧ EXIT_MULTIPLE_OUTPUTS = 207 := by
  refine ⟨?_, ?_, ?_, rfl, rfl⟩
  · intro h; simp [RedoModel.Commit.decide, rv1, h, EXIT_TARGET_DIRECTLY_MODIFIED, EXIT_SUCCESS]
  · intro h1 h2; simp [RedoModel.Commit.decide, rv1, h1, h2, EXIT_MULTIPLE_OUTPUTS, EXIT_SUCCESS]
  · intro h1 h2 h3; simp [RedoModel.Commit.decide, rv1, h1, h2, h3, EXIT_SUCCESS]

/-- The command succeeds only if the script succeeded, did not write `$1`, and did not
produce both outputs. -/
theorem success_iff (i : Input) (hc : i.createFails = false) (hr : i.renameFails = false) :
    (decide i).rv = 0 ↔ (i.rv = 0 ∧ modifiedDirectly i = false ∧ bothOutputs i = false) := by
  unfold RedoModel.Commit.decide rv1
  cases hm : modifiedDirectly i <;> cases hb : bothOutputs i <;>
    simp [hc, hr, EXIT_SUCCESS, EXIT_TARGET_DIRECTLY_MODIFIED, EXIT_MULTIPLE_OUTPUTS]
  · by_cases h0 : i.rv = 0 <;> simp [h0]

/-- A failing command leaves the target exactly as the script left it (redo performs no
write to it), and removes the temporary file. -/
theorem failure_keeps_target (i : Input) (fs : Fs) (stdout : Bytes) (h : Coherent i fs stdout)
    (hf : (decide i).rv ≠ 0) :
    (final i fs stdout).target = fs.target ∧ (final i fs stdout).tmp = none := by
  obtain ⟨_, _, hc, hr⟩ := h
  unfold final RedoModel.Commit.decide
  by_cases h1 : rv1 i = EXIT_SUCCESS
  · exfalso
    apply hf
    unfold RedoModel.Commit.decide
    simp [h1, hc, hr, EXIT_SUCCESS]
  · simp [h1, applyOps, applyOp]

/-- The same under file-system faults (repaired in /repo, 9bb5b43: a failed copy of the script's stdout used to fall
into the "no output" branch and REMOVE the previous target): whether or not `File::create($3)` or `rename($3, $1)`
fails, a failing command performs no write to the target and leaves no temporary file. -/
theorem failure_keeps_target_under_faults (i : Input) (fs : Fs) (stdout : Bytes)
    (ht : i.tmpExists = fs.tmp.isSome) (hf : (decide i).rv ≠ 0) :
    (applyOps stdout i.renameFails fs (decide i).ops).target = fs.target ∧
    (applyOps stdout i.renameFails fs (decide i).ops).tmp = none := by
  unfold RedoModel.Commit.decide at hf ⊢
  by_cases h1 : rv1 i = EXIT_SUCCESS
  · cases hcf : i.createFails <;> cases hrf : i.renameFails <;> cases hte : i.tmpExists <;>
      by_cases hsz : i.stdoutSize > 0 <;>
      simp [h1, hcf, hrf, hte, hsz, EXIT_SUCCESS, EXIT_BUILD_JOB_ERROR, applyOps, applyOp] at hf ⊢
  · simp [h1, applyOps, applyOp]

/-- The fault that used to delete the target: the script succeeded with output on stdout, `$3` cannot be created. -/
example : let i : Input := { before := some ⟨false, 1⟩, after := some ⟨false, 1⟩, stdoutSize := 4, tmpExists := false, rv := 0, createFails := true }
    (decide i).rv = EXIT_BUILD_JOB_ERROR ∧ FsOp.unlinkTarget ∉ (decide i).ops ∧
    (applyOps [1] false ⟨some [7], none⟩ (decide i).ops).target = some [7] := by
  decide

/-- On success the target becomes exactly the script's output: stdout if that is non-empty
and there is no `$3`; the `$3` file if there is one; and it is removed if there is neither. -/
theorem exact_output (i : Input) (fs : Fs) (stdout : Bytes) (h : Coherent i fs stdout)
    (hs : (decide i).rv = 0) :
    (final i fs stdout).target =
      (if fs.tmp.isSome then fs.tmp else if stdout.isEmpty then none else some stdout) ∧
    (final i fs stdout).tmp = none := by
  obtain ⟨ht, ho, hc, hr⟩ := h
  have hsucc := (success_iff i hc hr).1 hs
  have h1 : rv1 i = EXIT_SUCCESS := by
    unfold rv1; simp [hsucc.2.1, hsucc.2.2, hsucc.1, EXIT_SUCCESS]
  unfold final RedoModel.Commit.decide
  simp only [h1, if_true, hc, hr]
  cases htmp : fs.tmp with
  | some b =>
    have : i.tmpExists = true := by rw [ht, htmp]; rfl
    simp [this, applyOps, applyOp, htmp, EXIT_SUCCESS]
  | none =>
    have hte : i.tmpExists = false := by rw [ht, htmp]; rfl
    cases hso : stdout.isEmpty with
    | true =>
      have : decide (i.stdoutSize > 0) = false := by rw [ho, hso]; rfl
      simp [hte, this, applyOps, applyOp, EXIT_SUCCESS, htmp]
    | false =>
      have : decide (i.stdoutSize > 0) = true := by rw [ho, hso]; rfl
      simp [hte, this, applyOps, applyOp, EXIT_SUCCESS]

/-- The target's bytes change only on success. -/
theorem only_on_success (i : Input) (fs : Fs) (stdout : Bytes) (h : Coherent i fs stdout)
    (hch : (final i fs stdout).target ≠ fs.target) :
    (decide i).rv = 0 ∧ i.rv = 0 ∧ modifiedDirectly i = false ∧ bothOutputs i = false := by
  by_cases hs : (decide i).rv = 0
  · exact ⟨hs, (success_iff i h.2.2.1 h.2.2.2).1 hs⟩
  · exact absurd (failure_keeps_target i fs stdout h hs).1 hch

/-- No temporary output file is left behind, whatever the outcome. -/
theorem no_tmp_left (i : Input) (fs : Fs) (stdout : Bytes) (h : Coherent i fs stdout) :
    (final i fs stdout).tmp = none := by
  by_cases hs : (decide i).rv = 0
  · exact (exact_output i fs stdout h hs).2
  · exact (failure_keeps_target i fs stdout h hs).2

/-- At no instant is a partially written target visible: after every prefix of redo's
operations the target holds either its old or its final content (the only operations that
name the target are one `rename` and one `unlink`, each last among the target-changing ones). -/
theorem atomic (i : Input) (fs : Fs) (stdout : Bytes) (h : Coherent i fs stdout)
    (k : Nat) :
    (applyOps stdout false fs ((decide i).ops.take k)).target = fs.target ∨
    (applyOps stdout false fs ((decide i).ops.take k)).target = (final i fs stdout).target := by
  obtain ⟨ht, ho, hc, hr⟩ := h
  unfold final RedoModel.Commit.decide
  by_cases h1 : rv1 i = EXIT_SUCCESS
  · simp only [h1, if_true, hc, hr]
    cases hte : i.tmpExists <;> cases hso : decide (i.stdoutSize > 0) <;>
      simp [EXIT_SUCCESS] <;>
      (rcases k with _ | _ | _ | k <;> simp [applyOps, applyOp])
  · simp only [h1, if_false]
    rcases k with _ | k <;> simp [applyOps, applyOp]

/-- Non-vacuity: a script that wrote 5 bytes to stdout and exited 0, previous target present. -/
example : Coherent { before := some ⟨false, 1⟩, after := some ⟨false, 1⟩, stdoutSize := 5, tmpExists := false, rv := 0 }
    { target := some [1], tmp := none } [7, 7, 7, 7, 7] := by
  simp [Coherent]

example : (decide { before := some ⟨false, 1⟩, after := some ⟨false, 1⟩, stdoutSize := 5, tmpExists := false, rv := 0 }).ops
    = [.unlinkTmp, .createTmpFromStdout, .renameTmpToTarget] := by decide

end C04
