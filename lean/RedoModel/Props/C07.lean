import RedoModel.Props.C07d
import RedoModel.Props.C07c
import RedoModel.Props.C07b
import RedoModel.Once
import RedoModel.Lemmas.Deps
/-!
# C07 — Each target built at most once per run; outcome independent of schedule
Property theorems only.  Models: `RedoModel/Once.lean` (per-run protocol) and the engine model
(`RedoModel/Deps.lean`) for the memoised verdict that justifies its guard.
The schedule-independence of the *outcome* (contents, status class, dependency records) is not proven;
it is checked on the implementation by building the same projects serially and at -j2..8, shuffled
and not (DESIGN §7 C07, partial).
-/
namespace C07
open RedoModel.Once

structure Inv (s : State) : Prop where
  nodup : s.started.Nodup
  acct : ∀ f ∈ s.started, f ∈ s.running ∨ f ∈ s.built

theorem step_inv (s s' : State) (e : Ev) (hi : Inv s) (h : step s e = some s') : Inv s' := by
  cases e with
  | script fid forced =>
    simp only [step] at h
    split at h
    · cases h
    · rename_i hnr
      split at h
      · cases h
        exact ⟨hi.nodup, fun f hf => (hi.acct f hf).imp (fun h => List.mem_cons_of_mem _ h) id⟩
      · split at h
        · cases h
        · rename_i hnb
          cases h
          refine ⟨List.nodup_cons.2 ⟨?_, hi.nodup⟩, ?_⟩
          · intro hm
            rcases hi.acct fid hm with h1 | h1
            · exact hnr h1
            · exact hnb h1
          · intro f hf
            rcases List.mem_cons.1 hf with rfl | hf
            · left; simp
            · exact (hi.acct f hf).imp (fun h => List.mem_cons_of_mem _ h) id
  | recordEnd fid =>
    simp only [step] at h
    split at h
    · cases h
      refine ⟨hi.nodup, ?_⟩
      intro f hf
      rcases hi.acct f hf with h1 | h1
      · by_cases hff : f = fid
        · right; simp [hff]
        · left; simp [List.mem_filter, h1, hff]
      · right; exact List.mem_cons_of_mem _ h1
    · cases h

/-- Within one run, however many dependents request a target and in whatever order the events
happen, its script is started at most once by `redo-ifchange` (executions forced by naming the
target on `redo`'s command line are counted separately). -/
theorem at_most_once (es : List Ev) (s' : State) (h : run {} es = some s') (fid : Nat) :
    s'.started.count fid ≤ 1 := by
  have hinv : ∀ (es : List Ev) (s s' : State), Inv s → run s es = some s' → Inv s' := by
    intro es
    induction es with
    | nil => intro s s' hi h; simp [run] at h; cases h; exact hi
    | cons e es ih =>
      intro s s' hi h
      simp only [run] at h
      split at h
      · cases h
      · rename_i s1 hs1
        exact ih s1 s' (step_inv s s1 e hi hs1) h
  have hi := hinv es {} s' ⟨by simp, by simp⟩ h
  have hcount : ∀ (l : List Nat), l.Nodup → l.count fid ≤ 1 := by
    intro l
    induction l with
    | nil => intro _; simp
    | cons a r ih =>
      intro hn
      have ⟨hna, hnr⟩ := List.nodup_cons.1 hn
      by_cases hf : a = fid
      · subst hf
        have : r.count a = 0 := List.count_eq_zero.2 hna
        simp [this]
      · have hne : (a == fid) = false := by simp [hf]
        simp only [List.count_cons, hne]
        have := ih hnr
        simp
        omega
  exact hcount _ hi.nodup

/-- What justifies the guard: a file verified in this run is found clean again without any write
(see `C02.memoised_clean`), and one that failed in this run is answered with status 32 without
being executed (see `C05.once_per_run`). -/
theorem guard_is_the_memoised_verdict (R n : Nat) (w : RedoModel.Deps.World) (c : List Nat) (f mx ch : Nat) (seen : List Nat)
    (hs : f ∉ seen) (hf : (RedoModel.Deps.getRec w R f).failed = none)
    (hc : (RedoModel.Deps.getRec w R f).changed = some ch) (hle : ch ≤ mx)
    (hck : RedoModel.Deps.isCheckedR (RedoModel.Deps.getRec w R f) R = true) :
    RedoModel.Deps.isDirty false R (n + 1) w c f mx seen none = (.clean, w, c) := by
  have : ¬ ch > mx := by omega
  simp (config := { zeta := true, zetaHave := true }) only [RedoModel.Deps.isDirty, Option.getD_none, hs, hf, hc, this, hck, if_true, if_false,
    Option.isSome_none, Bool.false_eq_true]

end C07
