import RedoModel.Lemmas.ParFExample
/-!
# C07 (continued) — with failing scripts the status class does not depend on the schedule

Model: `RedoModel/ParF.lean` = `Par.lean` plus failure.  A script may be marked `fails` (exits non-zero after
its last command, no output); a target may be recorded `failed` (never started again, every request for it
answers non-zero); `ret t ok` is the return of the current command of `t` (`ok = true`: everything named is a
source or built; `ok = false`: something named has failed and, only with `--keep-going`, everything named has
an answer — without it the moment of the non-zero return is free); after `ret t false` the script is
`aborting` and its only possible event is `fail t`.  Which targets get attempted depends on the schedule;
what is proved here is that the *answers* do not: `failed` is only ever recorded for targets that cannot be
built (`Bad`), `done` only for targets that can, for every target and at every `-j`, with or without
`--keep-going`.

Property theorems only (one-line applications); proofs in `RedoModel/Lemmas/ParF*.lean`.

As in C07b the unguarded `clean` event forces the hypothesis `CleanOk g s0 es` (what the run declares clean
can be built and holds the from-scratch content; `status_class_needs_cleanOk` shows it cannot be dropped).  It is
empty for schedules without `clean` events, and `Init` is implied by `AllIdle` ("everything is dirty").
-/
namespace C07
open RedoModel.ParF

/-! ### 1. At most once, also with failures -/

/-- Whatever the schedule, no script is started twice in a run; every started target has left the idle
state for good; and the ghost list is the list of `start` events of the schedule, so no target occurs in
two of them. -/
theorem parf_at_most_once {g : Graph} {s0 s : State} {es : List Ev} (h0 : Init g s0)
    (h : run g s0 es = some s) :
    s.starts.Nodup ∧ (∀ t ∈ s.starts, s.st t ≠ .idle) ∧ s.starts = (startsOf es).reverse ∧
    (startsOf es).Nodup :=
  RedoModel.ParF.parf_at_most_once h0 h

/-! ### 2. The status class -/

/-- A target is recorded as failed only if it cannot be built (its script fails or, hereditarily, one of
the files it asks for cannot be built).  No hypothesis on the graph or on clean targets. -/
theorem parf_failed_is_bad {g : Graph} {s0 s : State} {es : List Ev} (h0 : Init g s0)
    (h : run g s0 es = some s) {t : Nat} (ht : s.st t = .failed) : Bad g t :=
  RedoModel.ParF.failed_bad h0 h ht

/-- A target that cannot be built is never recorded as built. -/
theorem parf_done_is_not_bad {g : Graph} {s0 s : State} {es : List Ev} (h0 : Init g s0)
    (hc : CleanOk g s0 es) (h : run g s0 es = some s) {t : Nat} (ht : s.st t = .done) : ¬ Bad g t :=
  RedoModel.ParF.done_not_bad h0 hc h ht

/-- Hence for EVERY target `t` (top or not, early return or `--keep-going`) that is settled at the end of
a run, the answer is determined by the graph alone: failed iff it cannot be built.  What depends on the
schedule is only whether `t` was settled at all (a `Bad` target may stay idle or running, see
`example_parf`). -/
theorem parf_status_class {g : Graph} {s0 s : State} {es : List Ev} (h0 : Init g s0)
    (hc : CleanOk g s0 es) (h : run g s0 es = some s) {t : Nat}
    (ht : s.st t = .done ∨ s.st t = .failed) : s.st t = .failed ↔ Bad g t :=
  RedoModel.ParF.status_class h0 hc h ht

/-- The form asked for: everything dirty at the start, nothing declared clean. -/
theorem parf_status_class_all_idle {g : Graph} {s0 s : State} {es : List Ev} (h0 : AllIdle s0)
    (hnc : ∀ t, Ev.clean t ∉ es) (h : run g s0 es = some s) {t : Nat}
    (ht : s.st t = .done ∨ s.st t = .failed) : s.st t = .failed ↔ Bad g t :=
  RedoModel.ParF.status_class (allIdle_init h0) (cleanOk_of_no_clean hnc) h ht

/-- The hypothesis on clean targets cannot be dropped: a target whose script fails can be declared clean. -/
theorem parf_status_class_needs_cleanOk :
    ∃ (g : Graph) (s0 s : State) (es : List Ev), AllIdle s0 ∧ run g s0 es = some s ∧
      ∃ t, s.st t = .done ∧ Bad g t :=
  RedoModel.ParF.status_class_needs_cleanOk

/-- The invocation `redo ts`: at any point of any run where the top level may return, its exit status is 0
exactly when every top target can be built. -/
theorem parf_exit_class {g : Graph} {s0 s : State} {es : List Ev} {ts : List Nat} (h0 : Init g s0)
    (hc : CleanOk g s0 es) (h : run g s0 es = some s) (hret : topReturns g s ts = true) :
    status g s ts = 0 ↔ ∀ t ∈ ts, ¬ Bad g t :=
  RedoModel.ParF.exit_class h0 hc h hret

/-- So two schedules of the same invocation give the same exit status. -/
theorem parf_exit_schedule_independent {g : Graph} {s0 s₁ s₂ : State} {es₁ es₂ : List Ev} {ts : List Nat}
    (h0 : Init g s0) (hc₁ : CleanOk g s0 es₁) (hc₂ : CleanOk g s0 es₂)
    (h₁ : run g s0 es₁ = some s₁) (h₂ : run g s0 es₂ = some s₂)
    (hr₁ : topReturns g s₁ ts = true) (hr₂ : topReturns g s₂ ts = true) :
    status g s₁ ts = status g s₂ ts :=
  RedoModel.ParF.exit_schedule_independent h0 hc₁ hc₂ h₁ h₂ hr₁ hr₂

/-- The serial build (depth first, stopping at the first failure unless `--keep-going`) of an acyclic
graph is itself an accepted run, ends where the top level returns, and declares nothing clean. -/
theorem parf_serial_is_a_run {g : Graph} {rank : Nat → Nat} {s0 : State} {fuel : Nat} {ts : List Nat}
    (hr : Ranked g rank) (h0 : Init g s0) (hfuel : ∀ t ∈ ts, rank t < fuel) :
    run g s0 (serialTop g fuel ts s0).1 = some (serialTop g fuel ts s0).2 ∧
    topReturns g (serialTop g fuel ts s0).2 ts = true ∧
    (∀ u, Ev.clean u ∉ (serialTop g fuel ts s0).1) :=
  RedoModel.ParF.serial_is_a_run hr h0 hfuel

/-- The exit status of any schedule equals that of the serial build. -/
theorem parf_exit_equals_serial {g : Graph} {rank : Nat → Nat} {s0 s : State} {es : List Ev} {fuel : Nat}
    {ts : List Nat} (hr : Ranked g rank) (h0 : Init g s0) (hc : CleanOk g s0 es)
    (h : run g s0 es = some s) (hret : topReturns g s ts = true) (hfuel : ∀ t ∈ ts, rank t < fuel) :
    status g s ts = status g (serialTop g fuel ts s0).2 ts :=
  RedoModel.ParF.exit_equals_serial hr h0 hc h hret hfuel

/-- Every run accepted with `--keep-going` is also accepted without it: keep-going only restricts the
moment of a non-zero return. -/
theorem parf_keepGoing_weaken {g : Graph} {s s' : State} {es : List Ev} (h : run g s es = some s') :
    run { g with keepGoing := false } s es = some s' :=
  RedoModel.ParF.run_keepGoing_weaken es s s' h

/-! ### Built targets still hold the from-scratch content -/

/-- Every target recorded as built holds the content a from-scratch build gives it (`Spec` exists only for
targets whose script does not fail). -/
theorem parf_done_is_spec {g : Graph} {s0 s : State} {es : List Ev} (hw : WellFormed g) (h0 : Init g s0)
    (hc : CleanOk g s0 es) (h : run g s0 es = some s) :
    ∀ t sc, g.script t = some sc → s.st t = .done → Spec g t (s.content t) :=
  RedoModel.ParF.done_is_spec hw h0 hc h

/-- So two schedules agree on the bytes of every target built in both. -/
theorem parf_confluent {g : Graph} {s0 s₁ s₂ : State} {es₁ es₂ : List Ev} (hw : WellFormed g)
    (h0 : Init g s0) (hc₁ : CleanOk g s0 es₁) (hc₂ : CleanOk g s0 es₂)
    (h₁ : run g s0 es₁ = some s₁) (h₂ : run g s0 es₂ = some s₂) (t : Nat) {sc : Script}
    (hsc : g.script t = some sc) (hd₁ : s₁.st t = .done) (hd₂ : s₂.st t = .done) :
    s₁.content t = s₂.content t :=
  RedoModel.ParF.confluent hw h0 hc₁ hc₂ h₁ h₂ t hsc hd₁ hd₂

/-! ### 3. No dependent of a failed target is recorded as up to date -/

/-- In every accepted run: if `d` is recorded as failed and a command of the script of `t` names `d`, then
`t` is not recorded as built (it is failed, aborting, running or idle) — at the end of the run, hence,
every prefix of a run being a run and `failed` being permanent, at every moment after the failure. -/
theorem parf_no_dependent_recorded_ok {g : Graph} {s0 s : State} {es : List Ev} (h0 : Init g s0)
    (hc : CleanOk g s0 es) (h : run g s0 es = some s) {t d : Nat} {sc : Script}
    (hsc : g.script t = some sc) (hd : d ∈ sc.cmds.flatten) (hf : s.st d = .failed) : s.st t ≠ .done :=
  RedoModel.ParF.no_dependent_recorded_ok h0 hc h hsc hd hf

/-! ### 4. A concrete instance: the failing leaf 3 is shared by the branches 1 and 2 of the top target 5 -/

/-- The hypotheses hold together; schedule A (branch 1 meets the failure; it is the serial schedule) and
schedule B (branch 2 runs the failing script, branch 1 only learns of it) are both accepted, as is the
serial `--keep-going` schedule K; all end where the top level returns with status 1; the targets attempted
differ (in A the unbuildable 2 and the buildable 4 stay idle). -/
theorem example_parf :
    WellFormed Ex.g ∧ Ranked Ex.g Ex.rank ∧ AllIdle Ex.s0 ∧ Bad Ex.g 2 ∧ Bad Ex.g 5 ∧
    (serialTop Ex.g 4 [5] Ex.s0).1 = Ex.esA ∧ (serialTop Ex.gK 4 [5] Ex.s0).1 = Ex.esK ∧
    (run Ex.g Ex.s0 Ex.esA).map (fun s => (topReturns Ex.g s [5], status Ex.g s [5])) = some (true, 1) ∧
    (run Ex.g Ex.s0 Ex.esB).map (fun s => (topReturns Ex.g s [5], status Ex.g s [5])) = some (true, 1) ∧
    (run Ex.gK Ex.s0 Ex.esK).map (fun s => (topReturns Ex.gK s [5], status Ex.gK s [5])) = some (true, 1) ∧
    (run Ex.g Ex.s0 Ex.esA).map (fun s => [1, 2, 3, 4, 5].map s.st)
      = some [.failed, .idle, .failed, .idle, .failed] ∧
    (run Ex.g Ex.s0 Ex.esB).map (fun s => [1, 2, 3, 4, 5].map s.st)
      = some [.failed, .failed, .failed, .done, .failed] :=
  ⟨Ex.wellFormed, Ex.ranked, Ex.allIdle, Ex.bad2, Ex.bad5, Ex.serial_schedule, Ex.serial_schedule_keepGoing,
   Ex.same_status⟩

/-- The failing script ran once in each schedule although it was asked for twice; a buildable top target
gives status 0. -/
theorem example_parf_once :
    ((run Ex.g Ex.s0 Ex.esA).map (·.starts) = some [3, 1, 5] ∧
     (run Ex.g Ex.s0 Ex.esB).map (·.starts) = some [3, 4, 1, 2, 5]) ∧
    (run Ex.g Ex.s0 [.start 4 none, .ret 4 true, .finish 4]).map
      (fun s => (topReturns Ex.g s [4], status Ex.g s [4])) = some (true, 0) :=
  ⟨Ex.starts, Ex.good_status⟩

/-- Rejected: `finish` of a failing script; a zero return of a command naming a failed target; a non-zero
return while nothing named has failed; going on after a non-zero return (`finish`, another `ret`);
running a failed target again for its second requester; with `--keep-going`, returning before every named
target has an answer (schedule A). -/
theorem example_parf_rejected :
    (run Ex.g Ex.s0 [.start 3 none, .ret 3 true, .finish 3]).isNone = true ∧
    (run Ex.g Ex.s0 [.start 5 none, .start 1 (some 5), .start 3 (some 1), .ret 3 true, .fail 3,
                     .ret 1 true]).isNone = true ∧
    (run Ex.g Ex.s0 [.start 5 none, .start 1 (some 5), .start 3 (some 1), .ret 1 false]).isNone = true ∧
    ((run Ex.g Ex.s0 [.start 5 none, .start 1 (some 5), .start 3 (some 1), .ret 3 true, .fail 3,
                      .ret 1 false, .finish 1]).isNone = true ∧
     (run Ex.g Ex.s0 [.start 5 none, .start 1 (some 5), .start 3 (some 1), .ret 3 true, .fail 3,
                      .ret 1 false, .ret 1 true]).isNone = true) ∧
    (run Ex.g Ex.s0 [.start 5 none, .start 1 (some 5), .start 2 (some 5), .start 3 (some 1), .ret 3 true,
                     .fail 3, .start 4 (some 2), .ret 4 true, .finish 4, .ret 2 true,
                     .start 3 (some 2)]).isNone = true ∧
    (run Ex.gK Ex.s0 Ex.esA).isNone = true :=
  ⟨Ex.finish_of_failing_rejected, Ex.ok_after_failure_rejected, Ex.bad_return_without_failure_rejected,
   Ex.continue_after_bad_return_rejected, Ex.restart_of_failed_rejected,
   Ex.early_return_rejected_with_keepGoing⟩

end C07
