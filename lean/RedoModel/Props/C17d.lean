import RedoModel.Lemmas.DepsOodUp9
/-!
# C17 (continued) — the UPPER bound for `redo-ood`
Property theorems only (applications of `RedoModel/Lemmas/DepsOodUp*.lean`).  Model: `RedoModel/Deps.lean`.

`C17b` has the lower bound (what the next `redo-ifchange`'s check does not find clean is listed).  Here: what is
listed is not found clean by that check (so, for known targets, `redo-ood` is *exact* with respect to `should_build`),
and whenever redo-ood's verdict is `need ts`, the members of `ts` are checksummed targets below the listed one that
themselves need rebuilding — "beyond the targets that will really be rebuilt it lists only direct or indirect
dependents of a checksummed target that needs rebuilding" (the dependents are listed because whether they will be
rebuilt is only known once the checksummed target has been rebuilt: `C17e.overapproximation_is_real`).

Run ids: the query consumes `runCounter + 1`; the following command runs as `runCounter + 2` on the world the
query leaves, which is `w` with the run counter advanced (`C17.query_only_consumes_run_id`).
-/
namespace C17
open RedoModel.Deps RedoModel.Deps.Rich

/-- **Exactness after a rich history** (rich scripts never use `redo-stamp`; the class of `C01.no_stale_full_rich`):
`redo-ood` lists `t` iff `t` is a known target below `n` and `should_build` of the following `redo-ifchange` does
not answer "clean" for it.  No bound on file ids is needed (the fuel is justified by the rank). -/
theorem ood_exact_rich (n : Nat) (rules : Nat → List Nat) (rank : Nat → Nat) (ops : List UserOp)
    (hr : RulesOk rules) (hp : ∀ op ∈ ops, RichOp rules op)
    (hrk : ∀ w ∈ worldsOf n {} (initWorld rules) ops, RankedR rank w) (hN : ∀ f, rank f < n)
    (hok : OpsOkW n (initWorld rules) ops) (kg : Bool) (t : Nat) :
    let w := ops.foldl (fun w op => (applyOp {} n op w).2) (initWorld rules)
    t ∈ (runCmd {} n .ood w).1.listing ↔
      ((t < n ∧ known w t = true ∧ isTarget w (w.runCounter + 1) t = true) ∧
        (shouldBuild { runid := (allocRun (runCmd {} n .ood w).2).1, keepGoing := kg } (2 * n + 4) t
          (allocRun (runCmd {} n .ood w).2).2).1 ≠ some .clean) :=
  oodExactRich n rules rank ops hr hp hrk hN hok kg t

/-- **Upper bound after a rich history**: what `redo-ood` lists is a known target that `should_build` of the
following `redo-ifchange` does not find clean (the `→` half of `ood_exact_rich`).  `_partial`: the further step
"not clean ⇒ the script of `t` is executed, unless no .do file exists any more or the command stops earlier" is not
proven here. -/
theorem ood_upper_rich_partial (n : Nat) (rules : Nat → List Nat) (rank : Nat → Nat) (ops : List UserOp)
    (hr : RulesOk rules) (hp : ∀ op ∈ ops, RichOp rules op)
    (hrk : ∀ w ∈ worldsOf n {} (initWorld rules) ops, RankedR rank w) (hN : ∀ f, rank f < n)
    (hok : OpsOkW n (initWorld rules) ops) (kg : Bool) (t : Nat) :
    let w := ops.foldl (fun w op => (applyOp {} n op w).2) (initWorld rules)
    t ∈ (runCmd {} n .ood w).1.listing →
      (shouldBuild { runid := (allocRun (runCmd {} n .ood w).2).1, keepGoing := kg } (2 * n + 4) t
        (allocRun (runCmd {} n .ood w).2).2).1 ≠ some .clean :=
  fun h => ((oodExactRich n rules rank ops hr hp hrk hN hok kg t).1 h).2

/-- **Exactness for any well-formed world and any defect switches** (checksums allowed), under the hypothesis of
`ood_lower_partial` (file ids of `m` rows below the scenario size `n`, which justifies the fuel `2n+4`): a known
target below `n` is listed iff the check of the following command (run id `runCounter + 2`) does not find it clean. -/
theorem ood_exact_partial (d : Defects) (n : Nat) (w : World) (hwf : WF w)
    (hb : ∀ dep ∈ w.deps, dep.modeM = true → dep.source < n) (t : Nat) (hlt : t < n) (hkn : known w t = true)
    (ht : isTarget w (w.runCounter + 1) t = true)
    (w2 : World) (hfs : w2.fs = w.fs) (hrecs : w2.recs = w.recs) (hdeps : w2.deps = w.deps) :
    t ∈ (runCmd d n .ood w).1.listing ↔
      (isDirty false (w.runCounter + 2) (2 * n + 4) w2 [] t (w.runCounter + 2) [] none).1 ≠ .clean :=
  oodExactPartial d n w hwf hb t hlt hkn ht w2 hfs hrecs hdeps

/-- **General upper bound** (any defect switches, checksums allowed; `_partial`: well-formed world and the bound `hb`
on file ids).  If `redo-ood` lists `t` then `t` is a known target; its own dirtiness walk (`isDirty true`, on the
world and with the run id of the query) answers `dirty`, `need _` or `cyclic` — never `clean`; so does the builder's
check of the following command; and whenever redo-ood's walk answers `need ts`, every member `x` of `ts` is in the
recorded dependency closure of `t`, has a recorded checksum, and is itself found clean neither by redo-ood's walk
nor by the check of the following command: a checksummed target that needs rebuilding. -/
theorem ood_upper_general_partial (d : Defects) (n : Nat) (w : World) (hwf : WF w)
    (hb : ∀ dep ∈ w.deps, dep.modeM = true → dep.source < n) (t : Nat) (ht : t ∈ (runCmd d n .ood w).1.listing) :
    (t < n ∧ known w t = true ∧ isTarget w (w.runCounter + 1) t = true) ∧
    (∀ fuel, (isDirty true (w.runCounter + 1) fuel { w with runCounter := w.runCounter + 1 } [] t
        (w.runCounter + 1) [] none).1 ≠ .clean) ∧
    (∀ fuel, (isDirty false (w.runCounter + 2) fuel { w with runCounter := w.runCounter + 2 } [] t
        (w.runCounter + 2) [] none).1 ≠ .clean) ∧
    ∀ fuel ts, (isDirty true (w.runCounter + 1) fuel { w with runCounter := w.runCounter + 1 } [] t
        (w.runCounter + 1) [] none).1 = .need ts → ∀ x ∈ ts,
      RecReach w [t] x ∧ ((w.recs x).csum.isSome = true) ∧
      (∀ fuel' mx', (isDirty true (w.runCounter + 1) fuel' { w with runCounter := w.runCounter + 1 } [] x mx' [] none).1
        ≠ .clean) ∧
      (∀ fuel', (isDirty false (w.runCounter + 2) fuel' { w with runCounter := w.runCounter + 2 } [] x
        (w.runCounter + 2) [] none).1 ≠ .clean) :=
  oodUpperGeneral d n w hwf hb t ht

/-- The part about `need` verdicts needs no hypothesis at all (any world, any fuel, any bound): every member of a
`need ts` verdict of redo-ood's walk for `t` lies below `t` along recorded `m` rows, has a recorded checksum, has no
`PC` ("provably clean") derivation under any bound, and is not found clean by redo-ood's walk itself. -/
theorem need_members_are_dirty_checksummed (w : World) (R fuel t mx : Nat) (ts : List Nat)
    (h : (isDirty true R fuel w [] t mx [] none).1 = .need ts) (x : Nat) (hx : x ∈ ts) :
    MReach w R t x ∧ (getRec w R x).csum.isSome = true ∧ (∀ mx', ¬ PC w R x mx') ∧
    ∀ fuel' mx', (isDirty true R fuel' w [] x mx' [] none).1 ≠ .clean :=
  ood_need_members w R fuel t mx ts h x hx

/-- Non-vacuity (history `uOps`: source 5, checksummed `mid` = 3, `top` = 4 reading `mid`, all built, the file of
`mid` removed; scenario size 6): the hypotheses of `ood_upper_general_partial` hold, `top` is listed, the verdict for
`top` is `need [mid]`, and `mid` is as the theorem says. -/
theorem ood_upper_general_nonvacuous :
    WF uW ∧ (∀ dep ∈ uW.deps, dep.modeM = true → dep.source < 6) ∧ 4 ∈ (runCmd {} 6 .ood uW).1.listing ∧
    (isDirty true 2 16 { uW with runCounter := 2 } [] 4 2 [] none).1 = .need [3] :=
  ⟨u_wf, u_hb, u_top_listed, u_need⟩

end C17
