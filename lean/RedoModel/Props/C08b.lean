import RedoModel.Lemmas.Makeflags
/-!
# C08 (continued) — the jobserver pipe reaches the children through `MAKEFLAGS`
Property theorems only.  Model: `RedoModel/Makeflags.lean` (`parse` = `parse_makeflags`, `format` = the string
`JobServer::setup` exports).  Tokens are conserved only if every child really joins the parent's pipe; these
theorems say the hand-over through the environment variable is loss-free for every pair of `i32` descriptors.
-/
namespace C08
open RedoModel.Makeflags
open RedoModel.LogRec (canonI32)

/-- What `JobServer::setup` exports is read back by every child as the same two descriptors, for every pair
of `i32` values (in canonical decimal form). -/
theorem roundtrip (r w : List Char) (hr : canonI32 r = some r) (hw : canonI32 w = some w) :
    parse (format r w) = .fds r w := by
  have hp : CleanPrefix " -j ".toList := by decide
  have hf : " --jobserver-fds=".toList = ' ' :: "--jobserver-fds=".toList := by decide
  have hs : CleanSuffix (" --jobserver-fds=".toList ++ r ++ ',' :: w) := by
    rw [hf]; exact Or.inr rfl
  have h := parse_inside " -j ".toList (" --jobserver-fds=".toList ++ r ++ ',' :: w) r w hp hs hr hw
  rw [← h]; congr 1
  have : " -j --jobserver-auth=".toList = " -j ".toList ++ "--jobserver-auth=".toList := by decide
  unfold format
  rw [this]
  generalize " -j ".toList = P
  generalize "--jobserver-auth=".toList = A
  generalize " --jobserver-fds=".toList = F
  simp only [List.append_assoc]

example : parse (format "-2147483648".toList "2147483647".toList)
    = .fds "-2147483648".toList "2147483647".toList := roundtrip _ _ (by decide) (by decide)

/-- The same when other words surround the option: `pre` is empty or ends with a blank and the option name does
not occur earlier (`CleanPrefix`, decidable), and a blank follows the two numbers. -/
theorem roundtrip_inside (pre post r w : List Char) (hpre : CleanPrefix pre)
    (hr : canonI32 r = some r) (hw : canonI32 w = some w) :
    parse (pre ++ "--jobserver-auth=".toList ++ r ++ ',' :: w ++ ' ' :: post) = .fds r w :=
  parse_inside pre (' ' :: post) r w hpre (Or.inr rfl) hr hw

/-- … and when the option is the last word. -/
theorem roundtrip_at_end (pre r w : List Char) (hpre : CleanPrefix pre)
    (hr : canonI32 r = some r) (hw : canonI32 w = some w) :
    parse (pre ++ "--jobserver-auth=".toList ++ r ++ ',' :: w) = .fds r w := by
  simpa using parse_inside pre [] r w hpre (Or.inl rfl) hr hw

example : CleanPrefix "-k --jobserver-fds=8,9 -j ".toList := by decide
example : parse ("-k --jobserver-fds=8,9 -j ".toList ++ "--jobserver-auth=".toList ++ "3".toList
    ++ ',' :: "4".toList ++ ' ' :: "-s".toList) = .fds "3".toList "4".toList :=
  roundtrip_inside _ _ _ _ (by decide) (by decide) (by decide)
/-- Both parts of `CleanPrefix` are needed: glued to a previous word the option is not seen, and an earlier
occurrence wins. -/
example : ¬ CleanPrefix "-j".toList ∧ parse "-j--jobserver-auth=3,4".toList = .absent ∧
    ¬ CleanPrefix "--jobserver-auth=x ".toList ∧ parse "--jobserver-auth=x --jobserver-auth=3,4".toList = .invalid := by
  decide

/-- `--jobserver-auth=` wins: when it occurs, the result is a function (`decode`: cut at the first blank, split
at the first comma, both halves through `parse::<i32>`) of the text after its first occurrence alone, whatever
`--jobserver-fds=` options the string also holds. -/
theorem auth_preferred (flags s : List Char) (h : after find1 (' ' :: (flags ++ [' '])) = some s) :
    parse flags = decode s := by
  rw [parse_eq, h]

/-- `--jobserver-fds=` is consulted only when `--jobserver-auth=` is absent, and then decides alone. -/
theorem fds_fallback (flags s : List Char) (h1 : after find1 (' ' :: (flags ++ [' '])) = none)
    (h2 : after find2 (' ' :: (flags ++ [' '])) = some s) : parse flags = decode s := by
  rw [parse_eq, h1, h2]

/-- `decode` written out. -/
theorem decode_eq (s : List Char) : decode s =
    match cutComma (s.takeWhile (· ≠ ' ')) with
    | none => .invalid
    | some (a, b) =>
      match canonI32 a, canonI32 b with
      | some a, some b => .fds a b
      | _, _ => .invalid := rfl

example : after find1 (' ' :: ("--jobserver-fds=1,2 --jobserver-auth=3,4".toList ++ [' '])) = some "3,4 ".toList ∧
    decode "3,4 ".toList = .fds "3".toList "4".toList := by decide
example : after find1 (' ' :: ("--jobserver-fds=1,2".toList ++ [' '])) = none ∧
    after find2 (' ' :: ("--jobserver-fds=1,2".toList ++ [' '])) = some "1,2 ".toList := by decide

/-- `after` finds nothing exactly when the pattern is not a substring. -/
theorem after_none_iff (pat s : List Char) : after pat s = none ↔ ¬ pat <:+: s :=
  after_eq_none_iff pat s

/-- No jobserver is assumed exactly when neither option name occurs (as the start of a word). -/
theorem absent_iff (flags : List Char) :
    parse flags = .absent ↔
      after find1 (' ' :: (flags ++ [' '])) = none ∧ after find2 (' ' :: (flags ++ [' '])) = none := by
  rw [parse_eq]
  cases h1 : after find1 (' ' :: (flags ++ [' '])) with
  | some s => simp [decode_ne_absent]
  | none =>
    cases h2 : after find2 (' ' :: (flags ++ [' '])) with
    | some s => simp [decode_ne_absent]
    | none => simp

/-- … in terms of substrings. -/
theorem absent_iff_infix (flags : List Char) :
    parse flags = .absent ↔
      ¬ find1 <:+: ' ' :: (flags ++ [' ']) ∧ ¬ find2 <:+: ' ' :: (flags ++ [' ']) := by
  rw [absent_iff, after_none_iff, after_none_iff]

example : parse "-j4 --jobserver".toList = .absent := by decide

/-- Descriptors handed out by the parser are canonical `i32` tokens. -/
theorem fds_are_canonical (flags a b : List Char) (h : parse flags = .fds a b) :
    canonI32 a = some a ∧ canonI32 b = some b := by
  rw [parse_eq] at h
  cases h1 : after find1 (' ' :: (flags ++ [' '])) with
  | some s => rw [h1] at h; exact decode_fds h
  | none =>
    rw [h1] at h
    cases h2 : after find2 (' ' :: (flags ++ [' '])) with
    | some s => rw [h2] at h; exact decode_fds h
    | none => rw [h2] at h; cases h

/-- Different descriptor pairs are exported as different strings. -/
theorem format_injective (r w r' w' : List Char) (hr : canonI32 r = some r) (hw : canonI32 w = some w)
    (hr' : canonI32 r' = some r') (hw' : canonI32 w' = some w') (h : format r w = format r' w') :
    r = r' ∧ w = w' := by
  have h1 := roundtrip r w hr hw
  rw [h, roundtrip r' w' hr' hw'] at h1
  cases h1; exact ⟨rfl, rfl⟩

/-- Canonicity is needed: arbitrary strings can collide. -/
example : format "1,2".toList "3".toList = format "1".toList "2,3".toList := by decide
example : parse "--jobserver-auth=+07,-0".toList = .fds "7".toList "0".toList ∧
    canonI32 "7".toList = some "7".toList ∧ canonI32 "0".toList = some "0".toList := by decide

/-! The vectors of the Rust unit test `test_parse_makeflags`, and the error cases. -/
example : parse "".toList = .absent := by decide
example : parse "--jobserver-auth=1,2".toList = .fds "1".toList "2".toList := by decide
example : parse "--jobserver-fds=1,2".toList = .fds "1".toList "2".toList := by decide
example : parse "--jobserver-fds=1,2 --jobserver-auth=3,4".toList = .fds "3".toList "4".toList := by decide
example : parse " -j --jobserver-auth=1,2 --jobserver-fds=3,4".toList = .fds "1".toList "2".toList := by decide
example : parse "--jobserver-auth=1".toList = .invalid := by decide
example : parse "--jobserver-auth=+07,-0".toList = .fds "7".toList "0".toList := by decide
example : parse "--jobserver-auth=2147483648,1".toList = .invalid := by decide

end C08
