import RedoModel.Lemmas.DepsCsum4
import RedoModel.Lemmas.DepsFuel1
import RedoModel.Lemmas.DepsOwned
/-!
# C03 (continued) — the checksum cut-off across a rebuild, a command, and the out-of-band path

"When a target that records a content checksum is rebuilt and its checksum is unchanged, nothing that depends on it
is rebuilt because of that rebuild.  When its checksum does change, every dependent is rebuilt before the same
top-level command returns success, at any nesting depth."

Property theorems only (one-line applications); proofs in `RedoModel/Lemmas/DepsCsum*.lean`.
Vocabulary (namespace `RedoModel.Deps`): `PlainStamped`, `scriptOut`, `LeavesAlone`, `NestedLeave`, `StampedJob`
(DepsCsum); `MemoDep`, `CurrentBefore`, `finishS` (DepsCsum2); `ChangedDep` (DepsCsum3); `oobPath`, `oobCx1/2`,
`oobOrder` (DepsCsum4); `QuietDep`, `QuietExt`, `mark` (DepsIfcreate2); `RanIn` (DepsTrace).
-/
namespace C03
open RedoModel.Deps RedoModel.Generated

/-! ### 1. What the rebuild of a checksummed target writes -/

/-- The record after the job, in one formula. -/
theorem rebuild_record (E : Engine) (d : Defects) (cx : Ctx) (m : Nat) (sf0 : Rec) (sc : Script) (w : World)
    (hj : StampedJob E cx m sf0 sc w) (h0 : (startSelf E d cx m sf0 w).1 = 0) :
    (startSelf E d cx m sf0 w).2.recs m =
      { stampRec (w.recs m) cx.runid (scriptOut sc w) with
        stamp := some (readStamp (startSelf E d cx m sf0 w).2 m) } :=
  startSelf_stamped E d cx m sf0 sc w hj h0

/-- Same data ⇒ `changed` is left alone (so dependents see no change), `checked = R`. -/
theorem rebuild_same_checksum_marks (E : Engine) (d : Defects) (cx : Ctx) (m : Nat) (sf0 : Rec) (sc : Script)
    (w : World) (hj : StampedJob E cx m sf0 sc w) (c0 : Content) (hcs : (w.recs m).csum = some c0)
    (hsame : scriptOut sc w = c0) (h0 : (startSelf E d cx m sf0 w).1 = 0) :
    ((startSelf E d cx m sf0 w).2.recs m).changed = (w.recs m).changed ∧
    ((startSelf E d cx m sf0 w).2.recs m).checked = some cx.runid ∧
    ((startSelf E d cx m sf0 w).2.recs m).csum = some c0 ∧
    ((startSelf E d cx m sf0 w).2.recs m).failed = none ∧
    ((startSelf E d cx m sf0 w).2.recs m).isGenerated = true ∧
    ((startSelf E d cx m sf0 w).2.recs m).isOverride = false ∧
    ((startSelf E d cx m sf0 w).2.recs m).stamp = some (readStamp (startSelf E d cx m sf0 w).2 m) :=
  startSelf_same_checksum E d cx m sf0 sc w hj c0 hcs hsame h0

/-- Different data ⇒ `changed = R`. -/
theorem rebuild_changed_checksum_marks (E : Engine) (d : Defects) (cx : Ctx) (m : Nat) (sf0 : Rec) (sc : Script)
    (w : World) (hj : StampedJob E cx m sf0 sc w) (hdiff : (w.recs m).csum ≠ some (scriptOut sc w))
    (h0 : (startSelf E d cx m sf0 w).1 = 0) :
    ((startSelf E d cx m sf0 w).2.recs m).changed = some cx.runid ∧
    ((startSelf E d cx m sf0 w).2.recs m).csum = some (scriptOut sc w) ∧
    ((startSelf E d cx m sf0 w).2.recs m).failed = none ∧
    ((startSelf E d cx m sf0 w).2.recs m).isGenerated = true ∧
    ((startSelf E d cx m sf0 w).2.recs m).isOverride = false ∧
    ((startSelf E d cx m sf0 w).2.recs m).stamp = some (readStamp (startSelf E d cx m sf0 w).2 m) :=
  startSelf_changed_checksum E d cx m sf0 sc w hj hdiff h0

/-- A leaf script (no nested command) in a process tree that is not killed: the job's status *is* 0. -/
theorem rebuild_leaf_succeeds (E : Engine) (d : Defects) (cx : Ctx) (m : Nat) (sf0 : Rec) (sc : Script)
    (w : World) (hj : StampedJob E cx m sf0 sc w) (hleaf : sc.ifchange = []) (hcr : cx.crash = none) :
    (startSelf E d cx m sf0 w).1 = 0 :=
  startSelf_stamped_leaf_status E d cx m sf0 sc w hj hleaf hcr

/-! ### 2. Unchanged checksum: the dependent is not rebuilt -/

/-- The check of `m` made while checking a dependent (`snap` = the record of `m` as loaded with the dependent's
rows): not failed, `changed ≤` the dependent's mark, checked in this run ⇒ `clean`, and *nothing is written*. -/
theorem cutoff_check_is_clean (R n : Nat) (w : World) (c : List Nat) (m mx : Nat) (seen : List Nat) (snap : Rec)
    (ca : Nat) (hs : m ∉ seen) (hf : snap.failed = none) (hch : snap.changed = some ca) (hle : ca ≤ mx)
    (hck : isCheckedR snap R = true) :
    isDirty false R (n + 1) w c m mx seen (some snap) = (.clean, w, c) :=
  isDirty_memo_clean R n w c m mx seen snap ca hs hf hch hle hck

/-- `should_build t` when every row of `t` is quiet (`QuietDep`) or points to a source that was checked /
rebuilt-with-unchanged-checksum in this run (`MemoDep`): `clean`. -/
theorem cutoff_shouldBuild (cx : Ctx) (m : Nat) (hm : 0 < m) (t : Nat) (w : World) (ch : Nat) (hr : cx.isRedo = false)
    (hR : cx.runid ≠ 0) (ht : t ≠ alwaysId) (hg : (w.recs t).isGenerated = true) (hf : (w.recs t).failed = none)
    (hch : (w.recs t).changed = some ch) (hle : ch ≤ cx.runid)
    (hst : (w.recs t).stamp = some (readStamp w t))
    (hq : ∀ d0 ∈ w.deps, d0.target = t → QuietDep w t d0 ∨ MemoDep w cx.runid t d0) :
    (shouldBuild cx (m + 1) t w).1 = some .clean :=
  shouldBuild_cut cx m hm t w ch hr hR ht hg hf hch hle hst hq

/-- The command `redo-ifchange t` (top level or unlocked second phase) of run `R`: exit 0, no script runs, no file,
row, clock change (`QuietExt`). -/
theorem cutoff_dependent_not_rebuilt (E : Engine) (d : Defects) (m : Nat) (hm : 0 < m) (cx : Ctx) (t : Nat) (w : World)
    (hp : cx.parent = none ∨ cx.unlocked = true) (hcy : cx.unlocked = true ∨ t ∉ cx.cycles)
    (hr : cx.isRedo = false) (hR : cx.runid ≠ 0) (ht : t ≠ alwaysId) (hcur : CurrentBefore w cx.runid t)
    (hq : ∀ d0 ∈ w.deps, d0.target = t → QuietDep w t d0 ∨ MemoDep w cx.runid t d0) :
    (ifchangeWith E d (m + 1) cx [t] w).1 = 0 ∧ QuietExt w (ifchangeWith E d (m + 1) cx [t] w).2 :=
  ifchangeWith_cutoff E d m hm cx t w hp hcy hr hR ht hcur hq

/-! ### 3. Changed checksum: the dependent is rebuilt, or the command fails -/

theorem changed_checksum_verdict (cx : Ctx) (fuel t : Nat) (w : World) (hr : cx.isRedo = false)
    (ht : t ≠ alwaysId) (hcur : CurrentBefore w cx.runid t)
    (d0 : Dep) (hd : d0 ∈ w.deps) (hdt : d0.target = t) (hfire : ChangedDep w t d0) :
    (shouldBuild cx (fuel + 2) t w).1 = some .cyclic ∨ (shouldBuild cx (fuel + 2) t w).1 = some .dirty :=
  shouldBuild_changedDep cx fuel t w hr ht hcur d0 hd hdt hfire

theorem changed_checksum_forwards (E : Engine) (hE : EngineExt E) (d : Defects) (fuel : Nat) (cx : Ctx) (t : Nat)
    (w : World) (hp : cx.parent = none ∨ cx.unlocked = true) (hcy : cx.unlocked = true ∨ t ∉ cx.cycles)
    (hr : cx.isRedo = false) (ht : t ≠ alwaysId) (hcur : CurrentBefore w cx.runid t)
    (d0 : Dep) (hd : d0 ∈ w.deps) (hdt : d0.target = t) (hfire : ChangedDep w t d0)
    (hdo : ∃ c ∈ w.rules t, existsF w c = true) (h0 : (ifchangeWith E d (fuel + 2) cx [t] w).1 = 0) :
    RanIn t w (ifchangeWith E d (fuel + 2) cx [t] w).2 :=
  ifchangeWith_changed_of_zero E hE d fuel cx t w hp hcy hr ht hcur d0 hd hdt hfire hdo h0

/-- The row on a source whose checksum changed in this run (`changed = R`) is such a row. -/
theorem changed_now_is_newer (w : World) (R t : Nat) (d0 : Dep) (hcur : CurrentBefore w R t)
    (hm : d0.modeM = true) (h0 : d0.source ≠ alwaysId) (hne : d0.source ≠ t)
    (hch : (w.recs d0.source).changed = some R) : ChangedDep w t d0 :=
  changedDep_of_changed_now w R t d0 hcur hm h0 hne hch

/-! ### 4. The out-of-band decision (`redo-unlocked`): depth -/

/-- A `need ts` verdict (OOB allowed, defect switches off) makes the job exactly `oobPath`: `redo-ifchange ts`
with no parent, then — if that exits 0 — `redo-ifchange t` unlocked, whose status is the job's; a non-zero status of
the first command is the job's status (`oobPath_first_ok`, `oobPath_first_fails`). -/
theorem buildJob_need (E : Engine) (d : Defects) (cx : Ctx) (fuel t : Nat) (w : World) (ts : List Nat)
    (hno : cx.noOob = false) (hd1 : d.oobRecordsDepsOnCaller = false) (hd2 : d.oobRebuildsDepsNotTarget = false)
    (hs : (shouldBuild cx fuel t w).1 = some (.need ts)) :
    buildJob E d cx fuel t w = oobPath E cx t ts (shouldBuild cx fuel t w).2 :=
  RedoModel.Deps.buildJob_need E d cx fuel t w ts hno hd1 hd2 hs

theorem oob_first_phase_fails (E : Engine) (cx : Ctx) (t : Nat) (ts : List Nat) (w : World) (rv : Status) (w2 : World)
    (h1 : E.ifchangeCmd (oobCx1 cx t) (oobOrder w ts) w = (rv, w2)) (hrv : rv ≠ 0) :
    oobPath E cx t ts w = (.done rv, w2) :=
  oobPath_first_fails E cx t ts w rv w2 h1 hrv

theorem oob_second_phase_decides (E : Engine) (cx : Ctx) (t : Nat) (ts : List Nat) (w : World) (w2 : World)
    (h1 : E.ifchangeCmd (oobCx1 cx t) (oobOrder w ts) w = (0, w2)) :
    oobPath E cx t ts w = (.done (E.ifchangeCmd (oobCx2 cx) [t] w2).1, (E.ifchangeCmd (oobCx2 cx) [t] w2).2) :=
  oobPath_first_ok E cx t ts w w2 h1

/-- The cut-off survives the OOB path: if after the first phase (world `w2`) `t`'s record is still current and its
rows are quiet or memoised (`ts` rebuilt with unchanged checksums: `rebuild_same_checksum_marks`), the job is done
with status 0 and nothing ran after the first phase. -/
theorem need_then_recheck (d : Defects) (n : Nat) (hn : 0 < n) (cx : Ctx) (fuel t : Nat) (w : World)
    (ts : List Nat) (w2 : World)
    (hno : cx.noOob = false) (hd1 : d.oobRecordsDepsOnCaller = false) (hd2 : d.oobRebuildsDepsNotTarget = false)
    (hs : (shouldBuild cx fuel t w).1 = some (.need ts))
    (h1 : (engine d (n + 1)).ifchangeCmd (oobCx1 cx t) (oobOrder (shouldBuild cx fuel t w).2 ts)
      (shouldBuild cx fuel t w).2 = (0, w2))
    (hR : cx.runid ≠ 0) (ht : t ≠ alwaysId) (hcur : CurrentBefore w2 cx.runid t)
    (hq : ∀ d0 ∈ w2.deps, d0.target = t → QuietDep w2 t d0 ∨ MemoDep w2 cx.runid t d0) :
    (buildJob (engine d (n + 1)) d cx fuel t w).1 = .done 0 ∧
    QuietExt w2 (buildJob (engine d (n + 1)) d cx fuel t w).2 :=
  need_then_recheck_cutoff d n hn cx fuel t w ts w2 hno hd1 hd2 hs h1 hR ht hcur hq

/-- … and a change is forwarded through it: if in `w2` some source of `t` is newer than `t`'s mark (a member of
`ts` ended with `changed = R`: `rebuild_changed_checksum_marks`, `changed_now_is_newer`), the job ends with the
cyclic status or `t`'s script ran in the second phase. -/
theorem need_then_recheck_forwards (d : Defects) (n : Nat) (cx : Ctx) (fuel t : Nat) (w : World)
    (ts : List Nat) (w2 : World)
    (hno : cx.noOob = false) (hd1 : d.oobRecordsDepsOnCaller = false) (hd2 : d.oobRebuildsDepsNotTarget = false)
    (hs : (shouldBuild cx fuel t w).1 = some (.need ts))
    (h1 : (engine d (n + 2)).ifchangeCmd (oobCx1 cx t) (oobOrder (shouldBuild cx fuel t w).2 ts)
      (shouldBuild cx fuel t w).2 = (0, w2))
    (ht : t ≠ alwaysId) (hcur : CurrentBefore w2 cx.runid t)
    (d0 : Dep) (hd : d0 ∈ w2.deps) (hdt : d0.target = t) (hfire : ChangedDep w2 t d0)
    (hdo : ∃ c ∈ w2.rules t, existsF w2 c = true) :
    (buildJob (engine d (n + 2)) d cx fuel t w).1 = .done EXIT_CYCLIC_DEPENDENCY ∨
    ((∃ rv, (buildJob (engine d (n + 2)) d cx fuel t w).1 = .done rv) ∧
      RanIn t w2 (buildJob (engine d (n + 2)) d cx fuel t w).2) :=
  need_then_recheck_changed d n cx fuel t w ts w2 hno hd1 hd2 hs h1 ht hcur d0 hd hdt hfire hdo

/-! ### 5. Without checksums there is no out-of-band path -/

theorem no_need_without_checksums (ood : Bool) (R fuel : Nat) (w : World) (cache : List Nat) (f mx : Nat)
    (seen : List Nat) (pre : Option Rec) (hw : NoCsum w) (hpre : ∀ r, pre = some r → r.csum = none) (ts : List Nat) :
    (isDirty ood R fuel w cache f mx seen pre).1 ≠ .need ts :=
  (isDirty_nocsum ood R fuel w cache f mx seen pre hw hpre).2 ts

theorem no_need_without_checksums_job (cx : Ctx) (fuel t : Nat) (w : World) (h : NoCsum w) (ts : List Nat) :
    (shouldBuild cx fuel t w).1 ≠ some (.need ts) :=
  shouldBuild_nocsum cx fuel t w h ts

/-! ### Non-vacuity: concrete histories from `initWorld`

Files: 1 = source `s`, 2 = `mid.do`, 3 = `mid` (checksummed), 4 = `top.do`, 5 = `top` (reads `mid`). -/

instance decExLe' (o : Option Nat) (m : Nat) : Decidable (∃ c, o = some c ∧ c ≤ m) :=
  match o with
  | none => isFalse (fun ⟨_, h, _⟩ => by cases h)
  | some c => if h : c ≤ m then isTrue ⟨c, rfl, h⟩ else isFalse (fun ⟨_, h1, h2⟩ => by cases h1; exact h h2)

instance decExLt' (o : Option Nat) (m : Nat) : Decidable (∃ c, o = some c ∧ m < c) :=
  match o with
  | none => isFalse (fun ⟨_, h, _⟩ => by cases h)
  | some c => if h : m < c then isTrue ⟨c, rfl, h⟩ else isFalse (fun ⟨_, h1, h2⟩ => by cases h1; exact h h2)

instance (w : World) (t : Nat) (d0 : Dep) : Decidable (QuietDep w t d0) := by unfold QuietDep; exact inferInstance
instance (w : World) (R t : Nat) (d0 : Dep) : Decidable (MemoDep w R t d0) := by unfold MemoDep; exact inferInstance
instance (w : World) (t : Nat) (d0 : Dep) : Decidable (ChangedDep w t d0) := by unfold ChangedDep; exact inferInstance

theorem currentBefore_of (w : World) (R t ch : Nat) (h1 : (w.recs t).isGenerated = true)
    (h2 : (w.recs t).isOverride = false) (h3 : (w.recs t).failed = none) (h4 : (w.recs t).changed = some ch)
    (h5 : ch < R) (h6 : (w.recs t).checked = none ∨ ∃ c, (w.recs t).checked = some c ∧ c < R)
    (h7 : (w.recs t).stamp = some (readStamp w t)) : CurrentBefore w R t :=
  ⟨h1, h2, h3, ⟨ch, h4, h5⟩, (fun c hc => by
    rcases h6 with h | ⟨c', h, hle⟩
    · rw [h] at hc; cases hc
    · rw [h] at hc; cases hc; exact hle), h7⟩

def csRules : Nat → List Nat := fun t => if t = 3 then [2] else if t = 5 then [4] else []

/-- `mid.do`: `redo-ifchange s; echo constant | tee $3 | redo-stamp` — depends on `s`, output does not. -/
def midSame : Script := { ifchange := [[1]], reads := [], tag := 1, stamp := 1 }
/-- `mid.do`: `redo-ifchange s; cat s | tee $3 | redo-stamp`. -/
def midRead : Script := { ifchange := [[1]], reads := [1], tag := 1, stamp := 1 }
def topSc : Script := { ifchange := [[3]], reads := [3], tag := 2 }

/-- Run 1 builds `top` (and `mid`); the user edits `s`; run 2 rebuilds `mid` (`redo mid`). -/
def exHist (mid : Script) : List UserOp := [.write 1 0, .write 2 1, .write 4 2,
  .setProg (srcContent 1) mid, .setProg (srcContent 2) topSc, .cmd (.ifchange [5] false),
  .write 1 1, .cmd (.redo [3] false)]

/-- In run 2 `mid` was rebuilt with the same checksum … -/
def exSame : World := runOps {} 6 (exHist midSame) (initWorld csRules)
/-- … or with a different one. -/
def exDiff : World := runOps {} 6 (exHist midRead) (initWorld csRules)

example : (exSame.recs 3).changed = some 1 ∧ (exSame.recs 3).checked = some 2 ∧ (exSame.recs 3).csum = some [4] ∧
    (exDiff.recs 3).changed = some 2 ∧ (exDiff.recs 3).csum = some [4, 0, 5, 1] ∧
    exSame.trace = [.ran 3, .ran 3, .ran 5] := by decide +kernel

theorem exSame_current : CurrentBefore exSame 2 5 :=
  currentBefore_of exSame 2 5 1 (by decide +kernel) (by decide +kernel) (by decide +kernel) (by decide +kernel)
    (by decide) (Or.inl (by decide +kernel)) (by decide +kernel)

theorem exDiff_current : CurrentBefore exDiff 2 5 :=
  currentBefore_of exDiff 2 5 1 (by decide +kernel) (by decide +kernel) (by decide +kernel) (by decide +kernel)
    (by decide) (Or.inl (by decide +kernel)) (by decide +kernel)

/-- Cut-off: a further `redo-ifchange top` of run 2 does nothing (rows of `top`: memoised `mid`, quiet `top.do`). -/
example : (ifchangeWith (engine {} 13) {} 14 { runid := 2 } [5] exSame).1 = 0 ∧
    QuietExt exSame (ifchangeWith (engine {} 13) {} 14 { runid := 2 } [5] exSame).2 :=
  cutoff_dependent_not_rebuilt (engine {} 13) {} 13 (by decide) { runid := 2 } 5 exSame (Or.inl rfl)
    (Or.inr (by decide)) rfl (by decide) (by decide) exSame_current (by decide +kernel)

/-- … and the `mid` row really is the memoised alternative, not a quiet one. -/
example : MemoDep exSame 2 5 ⟨5, 3, true, false⟩ ∧ ¬ QuietDep exSame 5 ⟨5, 3, true, false⟩ ∧
    (⟨5, 3, true, false⟩ : Dep) ∈ exSame.deps := by decide +kernel

/-- Forwarding: with a changed checksum the same command rebuilds `top` (or fails). -/
example (h0 : (ifchangeWith (engine {} 13) {} 14 { runid := 2 } [5] exDiff).1 = 0) :
    RanIn 5 exDiff (ifchangeWith (engine {} 13) {} 14 { runid := 2 } [5] exDiff).2 :=
  changed_checksum_forwards (engine {} 13) (engine_traceExt {} 13) {} 12 { runid := 2 } 5 exDiff (Or.inl rfl)
    (Or.inr (by decide)) rfl (by decide) exDiff_current ⟨5, 3, true, false⟩ (by decide +kernel) rfl
    (changed_now_is_newer exDiff 2 5 _ exDiff_current rfl (by decide) (by decide) (by decide +kernel))
    ⟨4, by decide +kernel, by decide +kernel⟩ h0

/-! Job level (goal 1): files 1 = `s`, 2 = `mid.do`, 3 = `mid`; `mid.do` is the leaf script
`cat s | tee $3 | redo-stamp`.  `exLeaf`: `mid` built in run 1, now run 2; `exLeaf'`: the same after `s` was edited. -/

def leafSc : Script := { reads := [1], tag := 1, stamp := 1 }
def leafRules : Nat → List Nat := fun t => if t = 3 then [2] else []
def exLeaf : World :=
  nextRun (runOps {} 4 [.write 1 0, .write 2 1, .setProg (srcContent 1) leafSc, .cmd (.ifchange [3] false)]
    (initWorld leafRules))
def exLeaf' : World :=
  nextRun (runOps {} 4 [.write 1 0, .write 2 1, .setProg (srcContent 1) leafSc, .cmd (.ifchange [3] false),
    .write 1 1] (initWorld leafRules))

theorem leafSc_plain : PlainStamped leafSc := ⟨rfl, rfl, rfl, rfl, rfl, rfl, by decide⟩

theorem exLeaf_job : StampedJob (engine {} 9) { runid := 2 } 3 (exLeaf.recs 3) leafSc exLeaf :=
  ⟨by decide +kernel, by decide +kernel, by decide +kernel, by decide +kernel, by decide, leafSc_plain, Or.inl rfl,
   ⟨2, [], ⟨srcContent 1, 2, 0⟩, by decide +kernel, by decide, by decide +kernel, by decide +kernel⟩⟩

theorem exLeaf'_job : StampedJob (engine {} 9) { runid := 2 } 3 (exLeaf'.recs 3) leafSc exLeaf' :=
  ⟨by decide +kernel, by decide +kernel, by decide +kernel, by decide +kernel, by decide, leafSc_plain, Or.inl rfl,
   ⟨2, [], ⟨srcContent 1, 2, 0⟩, by decide +kernel, by decide, by decide +kernel, by decide +kernel⟩⟩

/-- Same data: `changed` stays at run 1, `checked = 2`. -/
example : ((startSelf (engine {} 9) {} { runid := 2 } 3 (exLeaf.recs 3) exLeaf).2.recs 3).changed = some 1 ∧
    ((startSelf (engine {} 9) {} { runid := 2 } 3 (exLeaf.recs 3) exLeaf).2.recs 3).checked = some 2 := by
  have h := rebuild_same_checksum_marks (engine {} 9) {} { runid := 2 } 3 (exLeaf.recs 3) leafSc exLeaf exLeaf_job
    [4, 0, 3, 1] (by decide +kernel) (by decide +kernel)
    (rebuild_leaf_succeeds _ _ _ _ _ _ _ exLeaf_job rfl rfl)
  exact ⟨h.1.trans (by decide +kernel), h.2.1⟩

/-- Different data: `changed = 2`. -/
example : ((startSelf (engine {} 9) {} { runid := 2 } 3 (exLeaf'.recs 3) exLeaf').2.recs 3).changed = some 2 :=
  (rebuild_changed_checksum_marks (engine {} 9) {} { runid := 2 } 3 (exLeaf'.recs 3) leafSc exLeaf' exLeaf'_job
    (by decide +kernel) (rebuild_leaf_succeeds _ _ _ _ _ _ _ exLeaf'_job rfl rfl)).1

/-- Goal 5: a project that never ran `redo-stamp`. -/
example (ts : List Nat) : (shouldBuild { runid := 1 } 9 3 (initWorld leafRules)).1 ≠ some (.need ts) :=
  no_need_without_checksums_job _ _ _ _ (fun f => by unfold initWorld; dsimp only; split <;> rfl) ts

/-! Whole command, checked by evaluation (the kernel cannot unfold `List.mergeSort` on the two rows of `mid` and of
`top`, see `DepsIfcreate3.lean`; `#eval` results, Lean 4.33):

```
def exEdit := nextRun (runOps {} 6 ((exHist midSame).take 7) (initWorld csRules))   -- `s` edited, nothing run yet
#eval (shouldBuild {runid := 2} 14 5 exEdit).1                     -- some (DR.need [3])    (hypothesis of `buildJob_need`)
#eval (runCmd {} 6 (.ifchange [5] false) (runOps {} 6 ((exHist midSame).take 7) (initWorld csRules))).2.trace
   -- [ran 3, ran 3, ran 5] : `mid` ran again, `top` did not (cut-off through the OOB path), status 0
#eval (runCmd {} 6 (.ifchange [5] false) (runOps {} 6 ((exHist midRead).take 7) (initWorld csRules))).2.trace
   -- [ran 5, ran 3, ran 3, ran 5] : `mid` ran, then `top` ran, status 0
```
With `mid.do = { ifchange := [[1]], reads := [1], tag := 1, stamp := 2 }` (output depends on `s`, but a constant is
stamped) the result is the first one: trace `[ran 3, ran 3, ran 5]`, status 0. -/

#print axioms rebuild_record
#print axioms rebuild_same_checksum_marks
#print axioms rebuild_changed_checksum_marks
#print axioms rebuild_leaf_succeeds
#print axioms cutoff_check_is_clean
#print axioms cutoff_shouldBuild
#print axioms cutoff_dependent_not_rebuilt
#print axioms changed_checksum_verdict
#print axioms changed_checksum_forwards
#print axioms buildJob_need
#print axioms need_then_recheck
#print axioms need_then_recheck_forwards
#print axioms no_need_without_checksums
#print axioms no_need_without_checksums_job

end C03
