import RedoModel.Lemmas.ParExample
/-!
# C07 (continued) — the outcome of one invocation does not depend on the schedule

Model: `RedoModel/Par.lean`, an acceptor for ONE top-level invocation at any `-j`.  A schedule is any
list of events `start t by` / `clean t` / `ret t` / `finish t`; it is a *run* when every event passes its
local guard (`run g s0 es = some s`).  No bound on the length or the shape of the schedule.

Property theorems only (one-line applications); proofs in `RedoModel/Lemmas/Par*.lean`.

One statement asked for is false on the model as written (`done_is_spec_false`): the event `clean t`
settles an idle target without any condition on what it holds.  The theorems about contents therefore carry
the hypothesis `CleanOk g s0 es`: every target declared clean during the run held, at the start, what a
from-scratch build gives it.  It is also necessary (`cleanOk_necessary`), and it is empty for schedules
without `clean` events (`cleanOk_of_no_clean`), in particular for the serial schedule.
-/
namespace C07
open RedoModel.Par

/-! ### 1. At most once -/

/-- Whatever the schedule, no script is started twice in a run. -/
theorem par_at_most_once {g : Graph} {s0 s : State} {es : List Ev} (h0 : Init g s0)
    (h : run g s0 es = some s) : s.starts.Nodup :=
  (RedoModel.Par.par_at_most_once h0 h).1

/-- Every started target has left the idle state for good: it is running or settled. -/
theorem par_started_not_idle {g : Graph} {s0 s : State} {es : List Ev} (h0 : Init g s0)
    (h : run g s0 es = some s) : ∀ t ∈ s.starts, s.st t ≠ .idle :=
  (RedoModel.Par.par_at_most_once h0 h).2.1

/-- The ghost list `starts` is exactly the list of `start` events of the schedule (latest first), so the
statement is about the schedule itself: no target occurs in two of its `start` events. -/
theorem par_start_events_nodup {g : Graph} {s0 s : State} {es : List Ev} (h0 : Init g s0)
    (h : run g s0 es = some s) : s.starts = (startsOf es).reverse ∧ (startsOf es).Nodup :=
  (RedoModel.Par.par_at_most_once h0 h).2.2

/-! ### 2. A settled target holds the from-scratch content -/

/-- As first stated (without a hypothesis on clean targets) the property fails: an idle target holding
anything at all can be declared clean. -/
theorem done_is_spec_false :
    ∃ (g : Graph) (s0 s : State) (es : List Ev), WellFormed g ∧ Init g s0 ∧ run g s0 es = some s ∧
      ∃ t sc, g.script t = some sc ∧ s.st t = .done ∧ ¬ Spec g t (s.content t) :=
  RedoModel.Par.done_is_spec_false

/-- In every run in which the targets declared clean held the from-scratch content at the start, every
target that is settled at the end (built in this run at whatever moment and by whichever requester, or found
clean) holds the content a from-scratch build gives it.  The hypothesis excludes exactly the runs in which
the dirtiness check calls a stale target clean; that it does not is C01's statement, not a matter of
scheduling. -/
theorem done_is_spec_partial {g : Graph} {s0 s : State} {es : List Ev} (hw : WellFormed g)
    (h0 : Init g s0) (hc : CleanOk g s0 es) (h : run g s0 es = some s) :
    ∀ t sc, g.script t = some sc → s.st t = .done → Spec g t (s.content t) :=
  RedoModel.Par.done_is_spec_partial hw h0 hc h

/-- The extra hypothesis is the weakest possible: it follows from the conclusion in every run. -/
theorem cleanOk_necessary {g : Graph} {s0 s : State} {es : List Ev} (h : run g s0 es = some s)
    (hspec : ∀ t sc, g.script t = some sc → s.st t = .done → Spec g t (s.content t)) : CleanOk g s0 es :=
  RedoModel.Par.cleanOk_necessary es s0 s h hspec

/-- A schedule without `clean` events satisfies it trivially. -/
theorem cleanOk_of_no_clean {g : Graph} {s0 : State} {es : List Ev} (h : ∀ t, Ev.clean t ∉ es) :
    CleanOk g s0 es :=
  RedoModel.Par.cleanOk_of_no_clean h

/-! ### 3. The from-scratch content is unique (and exists) -/

/-- A file has at most one from-scratch content. -/
theorem spec_unique {g : Graph} {t : Nat} {c₁ c₂ : Content} (h₁ : Spec g t c₁) (h₂ : Spec g t c₂) :
    c₁ = c₂ :=
  RedoModel.Par.spec_unique h₁ h₂

/-- In a well-formed graph without cycles every file has one. -/
theorem spec_exists {g : Graph} {rank : Nat → Nat} (hw : WellFormed g) (hr : Ranked g rank) (t : Nat) :
    ∃ c, Spec g t c :=
  RedoModel.Par.spec_exists hw hr t

/-- The output function of the model is not injective, contrary to its docstring (not needed above). -/
theorem out_not_injective : out 0 [[1, 0]] = out 0 [[], []] ∧ ([[1, 0]] : List Content) ≠ [[], []] :=
  RedoModel.Par.out_not_injective

/-! ### 4. Any two schedules agree -/

/-- Two runs of the same invocation (same graph, same start), scheduled in any two ways: a file that is
settled at the end of both holds the same bytes in both. -/
theorem confluent {g : Graph} {s0 s₁ s₂ : State} {es₁ es₂ : List Ev} (hw : WellFormed g)
    (h0 : Init g s0) (hc₁ : CleanOk g s0 es₁) (hc₂ : CleanOk g s0 es₂)
    (h₁ : run g s0 es₁ = some s₁) (h₂ : run g s0 es₂ = some s₂) (t : Nat)
    (hd₁ : s₁.st t = .done) (hd₂ : s₂.st t = .done) : s₁.content t = s₂.content t :=
  RedoModel.Par.confluent hw h0 hc₁ hc₂ h₁ h₂ t hd₁ hd₂

/-- In particular: a file settled at the end of any run holds what the serial (-j1, depth-first) build of
it from the same start leaves in it. -/
theorem equals_serial {g : Graph} {rank : Nat → Nat} {s0 s : State} {es : List Ev} {fuel t : Nat}
    (hw : WellFormed g) (hr : Ranked g rank) (h0 : Init g s0) (hc : CleanOk g s0 es)
    (h : run g s0 es = some s) (hd : s.st t = .done) (hfuel : rank t < fuel) :
    s.content t = (serialOne g fuel t none s0).2.content t :=
  RedoModel.Par.equals_serial hw hr h0 hc h hd hfuel

/-! ### 5. The serial build is one of the schedules -/

/-- With enough fuel for the depth of the graph, the serial schedule for `t` is accepted, leads to the state
`serialOne` computes, settles `t`, and declares nothing clean. -/
theorem serial_is_a_run {g : Graph} {rank : Nat → Nat} {s0 : State} {fuel t : Nat} (hr : Ranked g rank)
    (h0 : Init g s0) (hfuel : rank t < fuel) :
    run g s0 (serialOne g fuel t none s0).1 = some (serialOne g fuel t none s0).2 ∧
    (g.script t ≠ none → (serialOne g fuel t none s0).2.st t = .done) ∧
    (∀ u, Ev.clean u ∉ (serialOne g fuel t none s0).1) :=
  RedoModel.Par.serial_is_a_run hr h0 hfuel

/-- And it gives `t` the from-scratch content. -/
theorem serial_is_spec {g : Graph} {rank : Nat → Nat} {s0 : State} {fuel t : Nat} {sc : Script}
    (hw : WellFormed g) (hr : Ranked g rank) (h0 : Init g s0) (hfuel : rank t < fuel)
    (hsc : g.script t = some sc) : Spec g t ((serialOne g fuel t none s0).2.content t) :=
  RedoModel.Par.serial_is_spec hw hr h0 hfuel hsc

/-! ### 6. A script ends only after everything it asked for is settled -/

/-- On one step, from the content-free part `InvB` of the invariant. -/
theorem order_respected {g : Graph} {s s' : State} {t : Nat} {sc : Script}
    (h : step g s (.finish t) = some s') (hi : RedoModel.Par.InvB g s) (hsc : g.script t = some sc) :
    ∀ f ∈ sc.cmds.flatten, settled g s f = true :=
  RedoModel.Par.order_respected h hi hsc

/-- In a run: whenever `finish t` is accepted after an accepted schedule, every file the script of `t`
asked for is settled at that moment. -/
theorem order_respected_run {g : Graph} {s0 s s' : State} {es : List Ev} {t : Nat} {sc : Script}
    (h0 : Init g s0) (h : run g s0 es = some s) (hf : step g s (.finish t) = some s')
    (hsc : g.script t = some sc) : ∀ f ∈ sc.cmds.flatten, settled g s f = true :=
  RedoModel.Par.order_respected_run h0 h hf hsc

/-! ### A concrete instance (non-vacuity): diamond 3 → {1, 2} → 4 → source 0, with 4 requested twice -/

/-- The hypotheses of all theorems above hold together for a concrete graph, start state and three
different accepted schedules (serial; parallel with the shared target built by the other requester; one
with a `clean` event). -/
theorem example_hypotheses :
    WellFormed Ex.g ∧ Ranked Ex.g Ex.rank ∧ Init Ex.g Ex.s0 ∧ CleanOk Ex.g Ex.s0 Ex.esClean ∧
    (run Ex.g Ex.s0 Ex.esSerial).isSome = true ∧ (run Ex.g Ex.s0 Ex.esPar).isSome = true ∧
    (run Ex.g Ex.s0 Ex.esClean).isSome = true ∧ (serialOne Ex.g 4 3 none Ex.s0).1 = Ex.esSerial :=
  ⟨Ex.wellFormed, Ex.ranked, Ex.init, Ex.cleanOk, Ex.serial_accepted, Ex.par_accepted, Ex.clean_accepted,
   Ex.serial_schedule⟩

/-- The three schedules leave the same bytes in all four targets (by evaluation). -/
theorem example_same_contents :
    (run Ex.g Ex.s0 Ex.esPar).map (fun s => [1, 2, 3, 4].map s.content)
      = (run Ex.g Ex.s0 Ex.esSerial).map (fun s => [1, 2, 3, 4].map s.content) ∧
    (run Ex.g Ex.s0 Ex.esClean).map (fun s => [1, 2, 3, 4].map s.content)
      = (run Ex.g Ex.s0 Ex.esSerial).map (fun s => [1, 2, 3, 4].map s.content) :=
  Ex.same_contents

/-- Schedules that violate a guard are rejected: a command returning before its dependencies are settled,
a second start of a script, a start nobody asked for, a script ending before its last command returned,
a start of a target already declared clean. -/
theorem example_rejected :
    (run Ex.g Ex.s0 [.start 3 none, .ret 3]).isNone = true ∧
    (run Ex.g Ex.s0 [.start 3 none, .start 1 (some 3), .start 2 (some 3), .start 4 (some 1),
                     .start 4 (some 2)]).isNone = true ∧
    (run Ex.g Ex.s0 [.start 3 none, .start 4 (some 3)]).isNone = true ∧
    (run Ex.g Ex.s0 [.start 3 none, .finish 3]).isNone = true ∧
    (run Ex.g Ex.s0 [.start 3 none, .start 1 (some 3), .clean 4, .start 4 (some 1)]).isNone = true :=
  ⟨Ex.early_ret_rejected, Ex.second_start_rejected, Ex.unasked_start_rejected, Ex.early_finish_rejected,
   Ex.start_after_clean_rejected⟩

end C07
