import RedoModel.Lemmas.PathsSem

/-!
# C15 (continued) — cleaning preserves meaning; relative + re-join is the identity; one key per target

Property theorems only.  Model: `RedoModel/Paths.lean`; the symlink-free file-system semantics
(`Tree`, `resolve`, `ValidCwd`) and all proofs: `Lemmas/PathsSem.lean`.
-/
namespace C15
open RedoModel.Paths

/-! ## Cleaning never changes which file a path without symlinks names -/

/-- If `p` (absolute or relative) resolves in a symlink-free tree, the cleaned path resolves
to the same node, reached through the same chain of directories.  (The converse is false,
see the example below.) -/
theorem preserves {root : Tree} {cwd : List Tree} {p : List Char} {n : List Tree}
    (hcwd : ValidCwd root cwd) (h : resolve root cwd p = some n) :
    resolve root cwd (normpath p) = some n :=
  resolve_normpath hcwd.2 h

/-- The same with the POSIX rule that a path with a trailing `/` must name a directory. -/
theorem preserves_strict {root : Tree} {cwd : List Tree} {p : List Char} {n : List Tree}
    (hcwd : ValidCwd root cwd) (h : resolveStrict root cwd p = some n) :
    resolveStrict root cwd (normpath p) = some n :=
  resolveStrict_normpath hcwd.2 h

/-- Resolution from a valid cwd stays inside the tree: the result is a chain from the root. -/
theorem resolve_chain {root : Tree} {cwd : List Tree} {p : List Char} {n : List Tree}
    (hcwd : ValidCwd root cwd) (h : resolve root cwd p = some n) : Chain root n := by
  unfold resolve at h
  split at h
  · exact walk_chain .root h
  · exact walk_chain hcwd.1 h

section Examples

/-- `/a/b/`, `/a/c/d` (a file), `/x/`. -/
def dC : Tree := .dir [("d".toList, .file)]
def dA : Tree := .dir [("b".toList, .dir []), ("c".toList, dC)]
def dX : Tree := .dir []
def exRoot : Tree := .dir [("a".toList, dA), ("x".toList, dX)]

theorem exRoot_wf : exRoot.WF := by
  refine .dir (by decide) ?_
  intro nm t h
  simp only [List.mem_cons, Prod.mk.injEq, List.not_mem_nil, or_false] at h
  rcases h with ⟨_, rfl⟩ | ⟨_, rfl⟩
  · refine .dir (by decide) ?_
    intro nm t h
    simp only [List.mem_cons, Prod.mk.injEq, List.not_mem_nil, or_false] at h
    rcases h with ⟨_, rfl⟩ | ⟨_, rfl⟩
    · exact .dir (by simp) (by simp)
    · refine .dir (by decide) ?_
      intro nm t h
      simp only [List.mem_cons, Prod.mk.injEq, List.not_mem_nil, or_false] at h
      rcases h with ⟨_, rfl⟩
      exact .file
  · exact .dir (by simp) (by simp)

theorem valid_root : ValidCwd exRoot [exRoot] := ⟨.root, trivial⟩

theorem valid_x : ValidCwd exRoot [dX, exRoot] :=
  ⟨.child (nm := "x".toList) .root (List.Mem.tail _ (List.Mem.head _)), trivial⟩

/-- relative, from the root directory -/
example : resolve exRoot [exRoot] (normpath "a/./b/../c//d".toList) = some [.file, dC, dA, exRoot] :=
  preserves valid_root rfl

example : normpath "a/./b/../c//d".toList = "a/c/d".toList := by decide

/-- relative with leading `..`, from the cwd `/x` -/
example : resolve exRoot [dX, exRoot] (normpath ".././a/b/../c//d/".toList) =
    some [.file, dC, dA, exRoot] :=
  preserves valid_x rfl

/-- absolute, climbing above the root -/
example : resolve exRoot [dX, exRoot] (normpath "/../a/./b/../c//d".toList) =
    some [.file, dC, dA, exRoot] :=
  preserves valid_x rfl

/-- strict variant: a directory with a trailing slash -/
example : resolveStrict exRoot [dX, exRoot] (normpath "../a/./b/..//c/".toList) =
    some [dC, dA, exRoot] :=
  preserves_strict valid_x rfl

/-- strict resolution refuses `file/` while the permissive one accepts it -/
example : resolveStrict exRoot [exRoot] "a/c/d/".toList = none ∧
    resolve exRoot [exRoot] "a/c/d/".toList = some [.file, dC, dA, exRoot] := ⟨rfl, rfl⟩

/-- The converse of `preserves` is false: `nope/../a` does not resolve, its cleaning `a` does. -/
example : resolve exRoot [exRoot] "nope/../a".toList = none ∧
    resolve exRoot [exRoot] (normpath "nope/../a".toList) = some [dA, exRoot] := ⟨rfl, rfl⟩

/-- … also through a file: `a/c/d/../d` fails (`d` is not a directory), `a/c/d` resolves. -/
example : resolve exRoot [exRoot] "a/c/d/../d".toList = none ∧
    resolve exRoot [exRoot] (normpath "a/c/d/../d".toList) = some [.file, dC, dA, exRoot] :=
  ⟨rfl, rfl⟩

end Examples

/-! ## Relative path, re-joined -/

/-- Expressing an absolute normalised path relative to an absolute normalised base and
joining it back onto the base yields the original path — including `t = b` (empty
relative path) and `b = "/"`. -/
theorem rejoin {t b : List Char}
    (hrt : rooted t = true) (hnt : normpath t = t) (hrb : rooted b = true) (hnb : normpath b = b) :
    normpath (pushPath b (relpathLex t b)) = t :=
  rejoin_lex hrt hnt hrb hnb

/-- Without the normalisation hypotheses: any two absolute spellings. -/
theorem rejoin_any_spelling {t b : List Char} (hrt : rooted t = true) (hrb : rooted b = true) :
    normpath (pushPath b (relpathLex t b)) = normpath t :=
  rejoin_lex_gen hrt hrb

example : relpathLex "/a/b/c".toList "/a/x/y".toList = "../../b/c".toList := by decide
example : normpath (pushPath "/a/x/y".toList (relpathLex "/a/b/c".toList "/a/x/y".toList)) =
    "/a/b/c".toList :=
  rejoin (by decide) (by decide) (by decide) (by decide)

/-- `t = b`: the relative path is empty -/
example : relpathLex "/a/b".toList "/a/b".toList = [] := by decide
example : normpath (pushPath "/a/b".toList (relpathLex "/a/b".toList "/a/b".toList)) = "/a/b".toList :=
  rejoin (by decide) (by decide) (by decide) (by decide)

/-- base `/` and target `/` -/
example : normpath (pushPath "/".toList (relpathLex "/a".toList "/".toList)) = "/a".toList :=
  rejoin (by decide) (by decide) (by decide) (by decide)
example : normpath (pushPath "/a".toList (relpathLex "/".toList "/a".toList)) = "/".toList :=
  rejoin (by decide) (by decide) (by decide) (by decide)

example : normpath (pushPath "/a//x/../y/".toList (relpathLex "/a/./b/c".toList "/a//x/../y/".toList)) =
    "/a/b/c".toList :=
  (rejoin_any_spelling (by decide) (by decide)).trans (by decide)

/-- Rootedness is needed: with a relative target the re-joined path is a different one. -/
example : normpath (pushPath "/x".toList (relpathLex "a".toList "/x".toList)) ≠ normpath "a".toList := by
  decide

/-! ## One key per target -/

/-- `splitLast` really splits the spelling: `t = d ++ f`, `d` ends in `/`, `f` has no `/`. -/
theorem splitLast_split {t d f : List Char} (h : splitLast t = some (d, f)) :
    t = d ++ f ∧ d.getLast? = some '/' ∧ '/' ∉ f :=
  splitLast_spec h

/-- Two spellings with the same final component whose directory parts canonicalise to the
same directory get the same key from `realdirpath`. -/
theorem one_key_realdirpath {canon : List Char → Option (List Char)}
    {cwd t1 t2 d1 d2 f D : List Char}
    (hs1 : splitLast t1 = some (d1, f)) (hs2 : splitLast t2 = some (d2, f))
    (hd1 : isDotPath d1 = false) (hd2 : isDotPath d2 = false)
    (hc1 : canon d1 = some D) (hc2 : canon d2 = some D) :
    realdirpath canon cwd t1 = realdirpath canon cwd t2 :=
  realdirpath_one_key hs1 hs2 hd1 hd2 hc1 hc2

/-- … and hence the same `relpath` against every base.  For absolute spellings the
"not a dot-path" side condition holds automatically. -/
theorem one_key {canon : List Char → Option (List Char)}
    {cwd t1 t2 d1 d2 f D : List Char} (base : List Char)
    (hr1 : rooted t1 = true) (hr2 : rooted t2 = true)
    (hs1 : splitLast t1 = some (d1, f)) (hs2 : splitLast t2 = some (d2, f))
    (hc1 : canon d1 = some D) (hc2 : canon d2 = some D) :
    relpath canon cwd t1 base = relpath canon cwd t2 base :=
  relpath_one_key base hr1 hr2 hs1 hs2 hc1 hc2

/-- Relative spellings: `relpath` first makes them absolute against `cwd`; the hypotheses
speak about the absolute forms. -/
theorem one_key_rel {canon : List Char → Option (List Char)}
    {cwd t1 t2 d1 d2 f D : List Char} (base : List Char)
    (hs1 : splitLast (absPath cwd t1) = some (d1, f))
    (hs2 : splitLast (absPath cwd t2) = some (d2, f))
    (hd1 : isDotPath d1 = false) (hd2 : isDotPath d2 = false)
    (hc1 : canon d1 = some D) (hc2 : canon d2 = some D) :
    relpath canon cwd t1 base = relpath canon cwd t2 base :=
  relpath_one_key_abs base hs1 hs2 hd1 hd2 hc1 hc2

/-! ### Directories that do not exist yet (repaired in /repo, a2f90ab)

`realdirpath` resolves the longest leading part of the directory that exists and keeps the rest as spelled.  The key
therefore depends only on the canonical form of that leading part and on the components after it. -/

/-- What `resolveLongest` finds: the canonical form of the longest proper leading part that exists, and the components
that follow it. -/
def longestExisting (canon : List Char → Option (List Char)) (a : List Char) :
    Option (List Char × List (List Char)) :=
  (properPrefixes ((comps a).filter (fun c => c != dot))).findSome?
    (fun pr => (canon ('/' :: joinSlash pr.1)).map (fun P => (P, pr.2)))

/-- Two absolute spellings of a file in a directory that does not exist yet — through a symlinked directory and
through the real one, say — get the same key from `realdirpath` as soon as their longest existing leading parts
canonicalise to the same directory and the same components follow. -/
theorem one_key_missing_dir {canon : List Char → Option (List Char)}
    {cwd t1 t2 d1 d2 f P : List Char} {rest : List (List Char)}
    (hs1 : splitLast t1 = some (d1, f)) (hs2 : splitLast t2 = some (d2, f))
    (hd1 : isDotPath d1 = false) (hd2 : isDotPath d2 = false)
    (hr1 : rooted d1 = true) (hr2 : rooted d2 = true)
    (hn1 : canon d1 = none) (hn2 : canon d2 = none)
    (hl1 : longestExisting canon d1 = some (P, rest)) (hl2 : longestExisting canon d2 = some (P, rest)) :
    realdirpath canon cwd t1 = realdirpath canon cwd t2 := by
  unfold longestExisting at hl1 hl2
  simp only [realdirpath, hs1, hs2, hd1, hd2, hn1, hn2, hr1, hr2, resolveLongest, hl1, hl2, Bool.false_eq_true,
    if_false, if_true]

/-- … and the key is the real path: the canonical leading part followed by the remaining components, cleaned. -/
theorem missing_dir_key {canon : List Char → Option (List Char)}
    {cwd t d f P : List Char} {rest : List (List Char)}
    (hs : splitLast t = some (d, f)) (hd : isDotPath d = false) (hr : rooted d = true)
    (hn : canon d = none) (hl : longestExisting canon d = some (P, rest)) :
    realdirpath canon cwd t = pushPath (normpath (rest.foldl (fun acc c => pushPath acc c) P)) f := by
  unfold longestExisting at hl
  simp only [realdirpath, hs, hd, hn, hr, resolveLongest, hl, Bool.false_eq_true, if_false, if_true]

section Examples

/-- A `canonicalize` that knows `/link/` and `/real/sub/../` both denote `/real`. -/
def exCanon (d : List Char) : Option (List Char) :=
  if d = "/link/".toList ∨ d = "/real/sub/../".toList ∨ d = "/w/./".toList then some "/real".toList
  else none

example : relpath exCanon "/w".toList "/link/f.o".toList "/real/out".toList =
    relpath exCanon "/w".toList "/real/sub/../f.o".toList "/real/out".toList :=
  one_key (d1 := "/link/".toList) (d2 := "/real/sub/../".toList) (f := "f.o".toList)
    (D := "/real".toList) _ (by decide) (by decide) (by decide) (by decide) (by decide) (by decide)

example : relpath exCanon "/w".toList "/link/f.o".toList "/real/out".toList = "../f.o".toList := by
  decide

/-- a relative spelling (made absolute against the cwd `/w`) and an absolute one -/
example : relpath exCanon "/w".toList "./f.o".toList "/real/out".toList =
    relpath exCanon "/w".toList "/link/f.o".toList "/real/out".toList :=
  one_key_rel (d1 := "/w/./".toList) (d2 := "/link/".toList) (f := "f.o".toList)
    (D := "/real".toList) _ (by decide) (by decide) (by decide) (by decide) (by decide) (by decide)

/-- The dot-path side condition of `one_key_realdirpath` matters: `realdirpath` leaves `./f`
untouched, so on its own it does not give `./f` and `/w/f` one key even when `canon` agrees. -/
example :
    let canon : List Char → Option (List Char) := fun _ => some "/w".toList
    realdirpath canon "/w".toList "./f".toList ≠ realdirpath canon "/w".toList "/w/f".toList := by
  decide

/-- `/link` is a symlink to `/real/sub`; neither `/link/new` nor `/real/sub/new` exists yet. -/
def exCanon2 (d : List Char) : Option (List Char) :=
  if d = "/link".toList ∨ d = "/real/sub".toList then some "/real/sub".toList
  else if d = "/real".toList then some "/real".toList
  else if d = "/".toList then some "/".toList
  else none

example : realdirpath exCanon2 "/w".toList "/link/new/a.out".toList = "/real/sub/new/a.out".toList ∧
    realdirpath exCanon2 "/w".toList "/real/sub/new/a.out".toList = "/real/sub/new/a.out".toList ∧
    realdirpath exCanon2 "/w".toList "/link/newer/../new/./a.out".toList = "/real/sub/new/a.out".toList := by
  decide

example : realdirpath exCanon2 "/w".toList "/link/new/a.out".toList =
    realdirpath exCanon2 "/w".toList "/real/sub/new/a.out".toList :=
  one_key_missing_dir (d1 := "/link/new/".toList) (d2 := "/real/sub/new/".toList) (f := "a.out".toList)
    (P := "/real/sub".toList) (rest := ["new".toList])
    (by decide) (by decide) (by decide) (by decide) (by decide) (by decide) (by decide) (by decide) (by decide) (by decide)

/-- Before the repair the first spelling kept the link in its name (lexical cleaning only): the two spellings of one
file were two database records, two locks and two builds. -/
example : normpath "/link/new/".toList ≠ normpath "/real/sub/new/".toList := by decide

end Examples

end C15
