import RedoModel.Lemmas.RunLoopInv
/-!
# C07 — one decision per file per command (`builder::run`'s `seen` / `seen_ids`, builder.rs "duplicate names on one
command line skipped"), on the control-flow model `RedoModel/RunLoop.lean`.  Property theorems only.
-/
namespace C07
open RedoModel.RunLoop

def beginOf : Ev → Option Nat
  | .begin f => some f
  | _ => none

/-- `started` is exactly the list of targets for which `BuildJob::start` was entered, latest first. -/
theorem started_are_the_begins (c : Cfg) (es : List Ev) (s : St) (h : run c {} es = .ok s) :
    s.started = (es.filterMap beginOf).reverse := by
  have he : beginOf = evBegin := by funext e; cases e <;> rfl
  rw [he, run_started h]; simp

/-- However the environment answers (locks busy or free, targets queued and taken up again by the second loop),
one call of `builder::run` enters `BuildJob::start` at most once per file id. -/
theorem runloop_start_at_most_once (c : Cfg) (es : List Ev) (s : St) (h : run c {} es = .ok s) :
    (es.filterMap beginOf).Nodup := by
  have he : beginOf = evBegin := by funext e; cases e <;> rfl
  rw [he]; exact begins_nodup h

/-- A job is forked only for a target whose `BuildJob::start` was entered, and at most once per file id. -/
theorem runloop_fork_at_most_once (c : Cfg) (es : List Ev) (s : St) (h : run c {} es = .ok s) :
    (es.filterMap (fun e => match e with | .forked f => some f | _ => none)).Nodup := by
  have he : (fun e : Ev => match e with | .forked f => some f | _ => none) = evFork := by funext e; cases e <;> rfl
  rw [he]; exact forks_nodup h

end C07
