import RedoModel.Lemmas.RunLoopInv
/-!
# C05 at any -j — the stop / keep-going rule and the exit status of `builder::run`
Property theorems only.  Model: `RedoModel/RunLoop.lean` (the control flow of `builder::run` for one process,
tied to the code by the per-process trace replay `runloop-replay`).  Every statement is about EVERY event
sequence the acceptor accepts from its initial state, i.e. every behaviour of the environment (which targets are
new, which locks are free, what is dirty, what scripts return, when children exit).
-/
namespace C05
open RedoModel.RunLoop

/-- The event makes a failure known to this process's result bookkeeping: a job result that is a failure (with or
without a child), a queued target found failed in another process, the empty target name. -/
def producesFailure : Ev → Bool
  | .immediate _ true => true
  | .jobEnd _ true => true
  | .failedElsewhere _ => true
  | .badTarget => true
  | _ => false

def isBegin : Ev → Bool
  | .begin _ => true
  | _ => false

/-- "Without --keep-going no new target is started after the first failure is known": in every accepted event
sequence, no `BuildJob::start` follows an event that produced a failure. -/
theorem no_start_after_failure (c : Cfg) (hk : c.keepGoing = false) (pre post : List Ev) (e : Ev) (s : St)
    (h : run c {} (pre ++ e :: post) = .ok s) (hf : producesFailure e = true) :
    ∀ e' ∈ post, isBegin e' = false := by
  have hf' : failEv e = true := by cases e <;> first | exact hf | (rename_i b; cases b <;> exact hf)
  intro e' he'
  have := no_begin_after_failure hk h hf' e' he'
  cases e' <;> first | rfl | cases this

/-- "Every command that requested T exits non-zero" / nothing else does: `run` returns success exactly when no
failure was produced and no internal error occurred. -/
theorem exit_status (c : Cfg) (es : List Ev) (s : St) (ok : Bool) (h : run c {} es = .ok s) (hp : s.pc = .ended ok) :
    ok = true ↔ ((∀ e ∈ es, producesFailure e = false) ∧ Ev.abort ∉ es) := by
  have he : producesFailure = failEv := by
    funext e; cases e <;> first | rfl | (rename_i b; cases b <;> rfl)
  rw [he]; exact exit_status_iff h hp

/-- "With --keep-going every requested target … is still built": when `run` returns without an internal error,
every target it announced got its decision (`BuildJob::start` was entered for it, or it was found failed in
another process) — with `-k` whatever failed, without `-k` if nothing failed. -/
theorem every_target_decided (c : Cfg) (es : List Ev) (s : St) (ok : Bool) (h : run c {} es = .ok s)
    (hp : s.pc = .ended ok) (ha : Ev.abort ∉ es)
    (hk : c.keepGoing = true ∨ ∀ e ∈ es, producesFailure e = false) :
    ∀ f, Ev.target f ∈ es → (Ev.begin f ∈ es ∨ Ev.failedElsewhere f ∈ es) := by
  have he : producesFailure = failEv := by
    funext e; cases e <;> first | rfl | (rename_i b; cases b <;> rfl)
  rw [he] at hk; exact targets_decided h hp ha hk

/-- Non-vacuity: a run with a failing job, `-k`, a queued target and a clean exit path is accepted. -/
example : (match run { keepGoing := true } {}
    [.tok, .chk false, .target 1, .tryLock 1 true, .begin 1, .forked 1,
     .tok, .chk false, .target 2, .tryLock 2 false,
     .jobEnd 1 true, .waitAll, .chk true, .tok, .tryLock 2 true, .begin 2, .immediate 2 false,
     .waitAll, .chk true, .fin false] with
    | .ok s => s.pc == .ended false && s.started == [2, 1]
    | .error _ => false) = true := by decide

/-- Without `-k` the same failure stops the command before target 2 is started. -/
example : (match run {} {}
    [.tok, .chk false, .target 1, .tryLock 1 true, .begin 1, .forked 1,
     .tok, .chk false, .target 2, .tryLock 2 false,
     .jobEnd 1 true, .waitAll, .chk true, .fin false] with
    | .ok s => s.pc == .ended false && s.started == [1] && s.queue == [2]
    | .error _ => false) = true := by decide

end C05
