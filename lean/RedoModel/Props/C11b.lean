import RedoModel.Lemmas.StampStr
/-!
# C11 (continued) — recognising a hand-edited generated file, at the level of the stamp strings
Property theorems only.  Model: `RedoModel/StampStr.lean`; abstraction to `Deps.DStamp`.
-/
namespace C11
open RedoModel.StampStr

/-- A decimal number token is non-empty and all digits (so it holds neither '-' nor '+'); a well-formed
time token is non-empty and holds neither '-' nor '+'. -/
theorem num_chars :
    (∀ n, num n ≠ [] ∧ (∀ c ∈ num n, c.isDigit = true) ∧ '-' ∉ num n ∧ '+' ∉ num n) ∧
    (∀ t, timeOk t = true → '-' ∉ t ∧ '+' ∉ t ∧ t ≠ []) :=
  ⟨fun n => ⟨num_ne_nil n, num_isDigit n, num_no_dash n, num_no_plus n⟩,
   fun t h => ⟨timeOk_no_dash t h, timeOk_no_plus t h, (timeOk_chars t h).1⟩⟩

example : timeOk "1.500000".toList = true := by decide

/-- The decimal rendering of numbers is injective. -/
theorem num_injective (a b : Nat) : num a = num b ↔ a = b := ⟨num_inj, fun h => h ▸ rfl⟩

/-- The deciding fields of a file's stamp are its modification time and its size. -/
theorem crit_render (m : Meta) (h : timeOk m.mtime = true) : crit (render m) = [m.mtime, num m.size] :=
  crit_render' m h

/-- … and of a symlink's stamp (`lstat` fields, '+', the target's stamp): the link's own time and size,
whatever follows the '+'. -/
theorem crit_render_link (l : Meta) (h : timeOk l.mtime = true) (s : List Char) :
    crit (render l ++ '+' :: s) = [l.mtime, num l.size] := crit_render_app l h _

/-- The two constant stamps are their own deciding field. -/
theorem crit_consts : crit missing = [missing] ∧ crit dir = [dir] := ⟨crit_missing, crit_dir⟩

example : crit (render ⟨"1.500000".toList, 3, 9, 33188, 0, 0⟩) = ["1.500000".toList, "3".toList] := by
  decide

/-- A change of modification time or of size is always recognised as an edit, and nothing else is. -/
theorem edit_is_detected (a b : Meta) (ha : timeOk a.mtime = true) (hb : timeOk b.mtime = true) :
    detectOverride (render a) (render b) = true ↔ (a.mtime ≠ b.mtime ∨ a.size ≠ b.size) := by
  unfold detectOverride
  rw [crit_render a ha, crit_render b hb]
  constructor
  · intro h
    split at h
    · cases h
    · have : ¬ (a.mtime = b.mtime ∧ num a.size = num b.size) := by simpa using h
      by_cases e : a.mtime = b.mtime
      · exact .inr (fun e2 => this ⟨e, by rw [e2]⟩)
      · exact .inl e
  · intro h
    have hc : ¬ (a.mtime = b.mtime ∧ num a.size = num b.size) := by
      rintro ⟨e1, e2⟩; rcases h with h | h
      · exact h e1
      · exact h (num_inj e2)
    have hne : render a ≠ render b := fun e => by
      have := congrArg crit e
      rw [crit_render a ha, crit_render b hb] at this
      simp at this; exact hc this
    simp [hne, hc]

/-- A change of only inode, mode or owner of a file is not taken for an edit. -/
theorem metadata_only_change_is_not_an_edit (a b : Meta) (ha : timeOk a.mtime = true)
    (hm : a.mtime = b.mtime) (hs : a.size = b.size) : detectOverride (render a) (render b) = false := by
  have hb : timeOk b.mtime = true := hm ▸ ha
  cases h : detectOverride (render a) (render b)
  · rfl
  · rcases (edit_is_detected a b ha hb).1 h with h | h
    · exact absurd hm h
    · exact absurd hs h

/-- The deciding fields of each kind of stamp, read off the file's metadata rather than off the string. -/
def key : FileStamp → List (List Char)
  | .missing => [missing]
  | .dir => [dir]
  | .file m => [m.mtime, num m.size]
  | .link l _ => [l.mtime, num l.size]

/-- `key` is what `crit` extracts from the stamp string, for every well-formed stamp. -/
theorem key_eq_crit (s : FileStamp) (h : s.ok = true) : key s = crit s.str := by
  cases s with
  | missing => exact crit_missing.symm
  | dir => exact crit_dir.symm
  | file m => exact (crit_render m h).symm
  | link l t =>
    unfold FileStamp.ok at h
    simp only [Bool.and_eq_true] at h
    exact (crit_render_link l h.1 _).symm

/-- The test on well-formed stamps, in terms of the metadata: the strings differ and the deciding
fields differ. -/
theorem general (a b : FileStamp) (ha : a.ok = true) (hb : b.ok = true) :
    detectOverride a.str b.str = (decide (a.str ≠ b.str) && decide (key a ≠ key b)) := by
  rw [key_eq_crit a ha, key_eq_crit b hb]
  unfold detectOverride
  by_cases e : a.str = b.str <;> by_cases e2 : crit a.str = crit b.str <;> simp [e, e2, bne]

example : (FileStamp.link ⟨"1.500000".toList, 3, 9, 33188, 0, 0⟩ .dir).ok = true := by decide

/-- A generated file that vanished, or a file that appeared where none was recorded, is always
recognised; likewise a directory replaced by a file or link and the reverse. -/
theorem vanished_or_appeared (s : FileStamp) (h : s.ok = true) :
    (s ≠ .missing → detectOverride missing s.str = true ∧ detectOverride s.str missing = true) ∧
    (s ≠ .missing → s ≠ .dir → detectOverride dir s.str = true ∧ detectOverride s.str dir = true) := by
  have hk := key_eq_crit s h
  refine ⟨fun hs => ?_, fun hs hd => ?_⟩
  · have : crit s.str ≠ [missing] := by
      rw [← hk]; cases s <;> simp [key] at hs ⊢ <;> decide
    exact ⟨(detect_iff_crit_ne _ _).2 (by rw [crit_missing]; exact Ne.symm this),
           (detect_iff_crit_ne _ _).2 (by rw [crit_missing]; exact this)⟩
  · have : crit s.str ≠ [dir] := by
      rw [← hk]; cases s <;> simp [key] at hs hd ⊢
    exact ⟨(detect_iff_crit_ne _ _).2 (by rw [crit_dir]; exact Ne.symm this),
           (detect_iff_crit_ne _ _).2 (by rw [crit_dir]; exact this)⟩

/-- Retargeting a symlink, or a change to the file it points to, is not taken for an edit of the link:
only the link's own `lstat` fields are compared.  (No well-formedness needed.) -/
theorem link_target_change_is_not_an_edit (l : Meta) (t t' : FileStamp) :
    detectOverride (FileStamp.link l t).str (FileStamp.link l t').str = false := by
  rw [detect_false_iff]
  simp only [FileStamp.str]
  rw [crit_render_app_any, crit_render_app_any]

example : (FileStamp.link ⟨"1.5".toList, 3, 9, 33188, 0, 0⟩ .dir).str ≠
    (FileStamp.link ⟨"1.5".toList, 3, 9, 33188, 0, 0⟩ .missing).str := by decide

/-- A change of the link's own modification time or size is recognised, whatever the targets. -/
theorem link_edit_is_detected (l l' : Meta) (t t' : FileStamp) (hl : timeOk l.mtime = true)
    (hl' : timeOk l'.mtime = true) :
    detectOverride (FileStamp.link l t).str (FileStamp.link l' t').str = true ↔
      (l.mtime ≠ l'.mtime ∨ l.size ≠ l'.size) := by
  rw [detect_iff_crit_ne]
  simp only [FileStamp.str]
  rw [crit_render_link l hl, crit_render_link l' hl']
  constructor
  · intro h
    by_cases e : l.mtime = l'.mtime
    · exact .inr (fun e2 => h (by rw [e, e2]))
    · exact .inl e
  · rintro (h | h) e <;> simp only [List.cons.injEq, and_true] at e
    · exact h e.1
    · exact h (num_inj e.2)

example : detectOverride (FileStamp.link ⟨"1.5".toList, 3, 9, 33188, 0, 0⟩ .dir).str
    (FileStamp.link ⟨"1.5".toList, 4, 9, 33188, 0, 0⟩ .dir).str = true := by decide

/-- The abstraction of a stamp string the dependency engine's model works with: `missing`, or a pair of
numbers — a code of the deciding fields and a code of the whole string. -/
def abs (encK : List (List Char) → Nat) (encS : List Char → Nat) (s : FileStamp) : RedoModel.Deps.DStamp :=
  if s.str = missing then .missing else .st (encK (crit s.str)) (encS s.str)

/-- The engine model's "stamp unchanged" is equality of the stamp strings. -/
theorem abs_eq_iff (encK : List (List Char) → Nat) (encS : List Char → Nat)
    (hS : Function.Injective encS) (a b : FileStamp) :
    abs encK encS a = abs encK encS b ↔ a.str = b.str := by
  unfold abs
  by_cases ea : a.str = missing <;> by_cases eb : b.str = missing
  · simp [ea, eb]
  · simp [ea, eb]; exact fun e => eb e.symm
  · simp [ea, eb]
  · simp only [ea, eb, if_false, RedoModel.Deps.DStamp.st.injEq]
    exact ⟨fun h => hS h.2, fun h => by rw [h]; exact ⟨rfl, rfl⟩⟩

/-- The engine model's override test on abstract stamps is redo's test on the stamp strings, for any
injective coding of the deciding fields and of the strings. -/
theorem abs_detectOverride (encK : List (List Char) → Nat) (encS : List Char → Nat)
    (hK : Function.Injective encK) (hS : Function.Injective encS) (a b : FileStamp)
    (ha : a.ok = true) (hb : b.ok = true) :
    RedoModel.Deps.detectOverride (abs encK encS a) (abs encK encS b) = detectOverride a.str b.str := by
  have hiff := abs_eq_iff encK encS hS a b
  by_cases e : a.str = b.str
  · simp [RedoModel.Deps.detectOverride, hiff.2 e, detectOverride, e]
  · have hne : abs encK encS a ≠ abs encK encS b := fun h => e (hiff.1 h)
    unfold RedoModel.Deps.detectOverride
    rw [if_neg hne]
    by_cases ea : a.str = missing <;> by_cases eb : b.str = missing
    · exact absurd (ea.trans eb.symm) e
    · have hb' : b ≠ .missing := fun h => eb (by rw [h]; rfl)
      simp only [abs, ea, eb, if_true, if_false]
      exact ((vanished_or_appeared b hb).1 hb').1.symm
    · have ha' : a ≠ .missing := fun h => ea (by rw [h]; rfl)
      simp only [abs, ea, eb, if_true, if_false]
      exact ((vanished_or_appeared a ha).1 ha').2.symm
    · simp only [abs, ea, eb, if_false, detectOverride, e]
      by_cases ec : crit a.str = crit b.str
      · rw [ec]; simp
      · have : encK (crit a.str) ≠ encK (crit b.str) := fun h => ec (hK h)
        have h1 : (encK (crit a.str) != encK (crit b.str)) = true := bne_iff_ne.2 this
        have h2 : (crit a.str != crit b.str) = true := bne_iff_ne.2 ec
        rw [h1, h2]

/-- Non-vacuity: injective codings exist, and the abstraction then agrees on a concrete pair. -/
example : RedoModel.Deps.detectOverride
      (abs encK0 encS0 (.file ⟨"1.500000".toList, 3, 9, 33188, 0, 0⟩))
      (abs encK0 encS0 (.link ⟨"1.500000".toList, 4, 9, 33188, 0, 0⟩ .dir)) = true := by
  rw [abs_detectOverride _ _ encK0_inj encS0_inj _ _ (by decide) (by decide)]; decide

/-- A change of the inode number alone is not an edit. -/
theorem ex_inode_only : detectOverride "1.500000-3-9-33188-0-0".toList "1.500000-3-8-33188-0-0".toList = false := by
  decide
/-- A change of size is. -/
theorem ex_size : detectOverride "1.500000-3-9-33188-0-0".toList "1.500000-4-9-33188-0-0".toList = true := by
  decide
/-- Missing against directory. -/
theorem ex_missing_dir : detectOverride "0".toList "dir".toList = true := by decide
/-- The test is total on malformed strings too: the empty string against "--". -/
theorem ex_malformed : detectOverride "".toList "--".toList = true := by decide

end C11
