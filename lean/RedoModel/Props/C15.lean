import RedoModel.Props.C15c
import RedoModel.Lemmas.Paths
import RedoModel.Props.C15b

/-!
# C15 — Every spelling of a path denotes the same target

Property theorems only.  Model: `RedoModel/Paths.lean`; helper lemmas: `Lemmas/Paths.lean`.
-/
namespace C15
open RedoModel.Paths

/-- The components of a cleaned path are in normal form: no `.`, `..` only as a
leading block and only when the path is not rooted; every component non-empty
and free of `/`. -/
theorem normal_form (p : List Char) :
    NormalComps (rooted p) (cleanComps (rooted p) (comps p)) ∧
    (∀ c ∈ cleanComps (rooted p) (comps p), GoodComp c) ∧
    normpath p = render (rooted p) (cleanComps (rooted p) (comps p)) ∧
    rooted (normpath p) = rooted p :=
  ⟨cleanComps_normal _ _, cleanComps_good (comps_good p), rfl,
   rooted_render (cleanComps_good (comps_good p))⟩

/-- Lexical path cleaning is idempotent, for every string. -/
theorem idempotent (p : List Char) : normpath (normpath p) = normpath p := by
  have hg := cleanComps_good (root := rooted p) (comps_good p)
  have hn := cleanComps_normal (rooted p) (comps p)
  have hr : rooted (normpath p) = rooted p := rooted_render hg
  generalize hcs : cleanComps (rooted p) (comps p) = cs at hg hn
  have hp : normpath p = render (rooted p) cs := by unfold normpath; rw [hcs]
  cases hroot : rooted p with
  | true =>
    rw [hroot] at hp hr hn
    rw [normpath_def (normpath p), hr]
    have : comps (normpath p) = cs := by
      rw [hp]; simp only [render, if_true]; exact comps_slash_joinSlash cs hg
    rw [this, cleanComps_id hn, hp]
  | false =>
    rw [hroot] at hp hr hn
    cases cs with
    | nil =>
      rw [hp]; decide
    | cons c cs' =>
      rw [normpath_def (normpath p), hr]
      have : comps (normpath p) = c :: cs' := by
        rw [hp]; simp only [render, Bool.false_eq_true, if_false, List.isEmpty_cons]
        exact comps_joinSlash _ (by simp) hg
      rw [this, cleanComps_id hn, hp]

/-- The result is never the empty string (the empty path cleans to `.`). -/
theorem nonempty (p : List Char) : normpath p ≠ [] := by
  have hg := cleanComps_good (root := rooted p) (comps_good p)
  rw [normpath_def]
  generalize cleanComps (rooted p) (comps p) = cs at hg
  unfold render
  split
  · simp
  · split
    · simp [dot]
    · rename_i h2
      exact joinSlash_ne_nil cs (by intro e; subst e; simp at h2) hg

end C15
