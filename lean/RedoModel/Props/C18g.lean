import RedoModel.Lemmas.ReplayText
import RedoModel.Props.C18b
import RedoModel.Props.C18e
/-!
# C18g — the pretty replay is defined on every replay

`Pretty.replayText` looks the indentation of every line up in a map from cleaned target names to stack heights, learnt
from the `do` records on the way, and answers `none` for a line of a target it never saw announced (the driver's answer
`err:depth`).  Here: that answer is unreachable for the outputs of `LogRec.redoLog`, and the end-to-end statement
"`redo-log` in pretty mode shows every plain line of the raw replay, once, at its place, unchanged" without a
definedness hypothesis.

Definitions and proofs: `RedoModel/Lemmas/ReplayText.lean` (`Announced`, `lines_ann`, `catlog_ann`, `redoLog_ann`).
-/
namespace C18
open RedoModel RedoModel.LogRec RedoModel.Paths

/-- In the output of a `redo-log` run, every line that is not of the top level (tag `[]`) comes after a `do` record
whose text is the cleaned name of the target the line is attributed to: a target is announced before anything of it is
shown. -/
theorem announced_before_shown (F : Forest) (optU optR : Bool) (fuel : Nat) (ts : List (List Char)) (st : St)
    (h : redoLog F optU optR fuel ts ⟨[], []⟩ = .ok st) (a b : List Tagged) (o : Tagged)
    (hsplit : st.out.reverse = a ++ o :: b) (ho : o.tag ≠ []) :
    ∃ o' ∈ a, o'.out = .record kDo (normpath o.tag) :=
  (Pretty.redoLog_announced h).earlier_do a b o hsplit ho

/-- The pretty text of a replay is defined for every successful `redo-log` run, whatever the forest, the options, the
targets, the verbosity configuration and the escapes: no line is attributed to a target whose depth is unknown. -/
theorem replay_text_defined (cfg : Pretty.Cfg) (e : Pretty.Esc) (F : Forest) (optU optR : Bool) (fuel : Nat)
    (ts : List (List Char)) (st : St) (h : redoLog F optU optR fuel ts ⟨[], []⟩ = .ok st) :
    (Pretty.replayText cfg e st.out.reverse []).isSome = true :=
  Pretty.replayText_isSome_of_announced cfg e _ [] [] (fun _ hx => by cases hx) (Pretty.redoLog_announced h)

/-- End to end: for every successful `redo-log` run the pretty text exists and is cut into one chunk per line of the raw
replay, in order; the chunk of a plain line (no `@`) is the line itself with its newline. -/
theorem pretty_replay_end_to_end (cfg : Pretty.Cfg) (e : Pretty.Esc) (F : Forest) (optU optR : Bool) (fuel : Nat)
    (ts : List (List Char)) (st : St) (h : redoLog F optU optR fuel ts ⟨[], []⟩ = .ok st) :
    ∃ (text : List Char) (chunks : List (List Char)), Pretty.replayText cfg e st.out.reverse [] = some text ∧
      text = chunks.flatten ∧
      chunks.length = st.out.length ∧
      ∀ (i : Nat) (h1 : i < st.out.reverse.length) (h2 : i < chunks.length) (l : List Char),
        (st.out.reverse[i]).out = .raw l → '@' ∉ l → chunks[i] = l ++ ['\n'] := by
  have hd := replay_text_defined cfg e F optU optR fuel ts st h
  rw [Option.isSome_iff_exists] at hd
  obtain ⟨text, ht⟩ := hd
  obtain ⟨chunks, hc1, hc2, hc3⟩ := pretty_replay_chunks cfg e _ _ _ ht
  exact ⟨text, chunks, ht, hc1, by rw [hc2, List.length_reverse], hc3⟩

/-- Non-vacuity: the replay `redo-log -r all` of the glued-record scenario in pretty mode, default configuration, no
colours.  `y` is shown two columns further in than `all`; the `resumed` line of `all` is two columns further out than
`all`'s own lines would be announced. -/
example : (redoLog exGlue false true (exGlue.length + 2) ["all".toList] ⟨[], []⟩).map
      (fun s => Pretty.replayText ⟨0, false, false, 0, 0, true⟩ Pretty.noEsc s.out.reverse []) =
    .ok (some "redo  all\nall 1\nchecking y...\nredo    y\ny 1\ny 2\nredo  all (resumed)\nyes\n".toList) := by
  decide +kernel

/-- The running example `redo-log -r all top`: `child` is announced once, inside `all`; the in-band `resumed` record in
`child`'s log is rendered at `child`'s depth; the successful `done` records are not shown at the default verbosity. -/
example : (redoLog exF false true 4 ["all".toList, "top".toList] ⟨[], []⟩).map
      (fun s => Pretty.replayText ⟨0, false, false, 0, 0, true⟩ Pretty.noEsc s.out.reverse []) =
    .ok (some ("redo  all\ncompiling\nredo    child\ncc child.c\nredo      x (resumed)\nredo  all (resumed)\nlinked\n" ++
      "redo  top\ntop text\n").toList) := by
  decide +kernel

end C18
