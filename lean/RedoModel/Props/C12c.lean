import RedoModel.Lemmas.CyclesEx
/-!
# C12 (continued) — `REDO_CYCLES`: the set handed down is exactly the set of locks held by the ancestors
Property theorems only (one-line applications of `RedoModel/Lemmas/Cycles*.lean`).  Model: `RedoModel/Cycles.lean`.

The variable is a `:`-separated list read into a hash set and written back in the set's iteration order.  That
order is a parameter `ord`; all that is assumed of it is `Rearranges ord` (the output is a permutation of the
input).  Lock ids are decimal numbers (`IsFid`), in particular colon-free — the only thing the theorems need.
-/
namespace C12
open RedoModel.Cycles

/-! ## 1. Splitting and joining -/

/-- Joining a non-empty list of colon-free items and splitting again gives the list back. -/
theorem split_join (l : List (List Char)) (hne : l ≠ []) (hcf : ∀ x ∈ l, ':' ∉ x) :
    splitColon (joinColon l) = l :=
  RedoModel.Cycles.split_join l hne hcf

/-- Splitting always gives at least one item, and no item contains a colon. -/
theorem split_items_colon_free (s : List Char) : splitColon s ≠ [] ∧ ∀ x ∈ splitColon s, ':' ∉ x :=
  ⟨RedoModel.Cycles.split_ne_nil s, RedoModel.Cycles.split_colon_free s⟩

/-- Splitting any string and joining again gives the string back. -/
theorem join_split (s : List Char) : joinColon (splitColon s) = s :=
  RedoModel.Cycles.join_split s

/-- Why `split_join` needs `l ≠ []`: no string splits into zero items. -/
theorem split_join_nil_false : splitColon (joinColon []) ≠ [] :=
  RedoModel.Cycles.Ex.nil_needed

/-! ## 2.–3. One `add` -/

/-- After `add`, the set read back is the old set plus the new lock — nothing lost, nothing else gained —
whatever the write-back order, and whatever the inherited variable was (unset, empty, repeated/empty items). -/
theorem add_exact (ord : List (List Char) → List (List Char)) (hord : Rearranges ord) (v : Option (List Char))
    (fid : List Char) (hfid : ':' ∉ fid) (x : List Char) :
    x ∈ items (add ord v fid) ↔ (x ∈ items v ∨ x = fid) :=
  RedoModel.Cycles.add_exact ord hord v fid hfid x

/-- A lock that was added is refused afterwards. -/
theorem check_after_add (ord : List (List Char) → List (List Char)) (hord : Rearranges ord)
    (v : Option (List Char)) (fid : List Char) (hfid : ':' ∉ fid) : check (add ord v fid) fid = true :=
  RedoModel.Cycles.check_after_add ord hord v fid hfid

/-- `check` refuses exactly the items of the variable. -/
theorem check_iff (v : Option (List Char)) (fid : List Char) : check v fid = true ↔ fid ∈ items v :=
  RedoModel.Cycles.check_iff v fid

/-- A lock refused before an `add` is still refused after it. -/
theorem add_monotone (ord : List (List Char) → List (List Char)) (hord : Rearranges ord)
    (v : Option (List Char)) (fid : List Char) (hfid : ':' ∉ fid) (x : List Char)
    (h : check v x = true) : check (add ord v fid) x = true :=
  RedoModel.Cycles.add_monotone ord hord v fid hfid x h

/-- Adding a lock that is already in the set leaves the variable as it is (for any `ord` at all). -/
theorem add_idempotent (ord : List (List Char) → List (List Char)) (v : Option (List Char)) (fid : List Char)
    (h : check v fid = true) : add ord v fid = v :=
  RedoModel.Cycles.add_idempotent ord v fid h

/-! ## 4. A chain of ancestors -/

/-- After the ancestors `fs` have each added their lock, a lock is refused exactly when it was in the variable
the outermost one inherited or one of the ancestors holds it. -/
theorem ancestor_set (ord : List (List Char) → List (List Char)) (hord : Rearranges ord)
    (v : Option (List Char)) (fs : List (List Char)) (hfs : ∀ f ∈ fs, ':' ∉ f) (x : List Char) :
    check (addAll ord v fs) x = true ↔ (x ∈ items v ∨ x ∈ fs) :=
  RedoModel.Cycles.ancestor_set ord hord v fs hfs x

/-- Starting from an unset variable: a lock is refused exactly when an ancestor holds it. -/
theorem ancestor_set_unset (ord : List (List Char) → List (List Char)) (hord : Rearranges ord)
    (fs : List (List Char)) (hfs : ∀ f ∈ fs, ':' ∉ f) (x : List Char) :
    check (addAll ord none fs) x = true ↔ x ∈ fs :=
  RedoModel.Cycles.ancestor_set_unset ord hord fs hfs x

/-- A decimal lock id contains no colon. -/
theorem fid_colon_free (f : List Char) (h : IsFid f) : ':' ∉ f :=
  RedoModel.Cycles.fid_colon_free f h

/-- The same for decimal lock ids, as the code writes them. -/
theorem ancestor_set_fids (ord : List (List Char) → List (List Char)) (hord : Rearranges ord)
    (fs : List (List Char)) (hfs : ∀ f ∈ fs, IsFid f) (x : List Char) :
    check (addAll ord none fs) x = true ↔ x ∈ fs :=
  RedoModel.Cycles.ancestor_set_unset ord hord fs (fun f hf => RedoModel.Cycles.fid_colon_free f (hfs f hf)) x

/-! ## 6. Instances (non-vacuity) and necessity of the hypotheses -/

/-- Reversing is a rearrangement that is not the identity; "1", "10", "100" are lock ids. -/
theorem hypotheses_satisfiable :
    Rearranges List.reverse ∧ IsFid Ex.one ∧ IsFid Ex.ten ∧ IsFid Ex.hundred ∧ [Ex.ten, Ex.hundred].reverse ≠ [Ex.ten, Ex.hundred] :=
  ⟨rearranges_reverse, Ex.one_fid, Ex.ten_fid, Ex.hundred_fid, Ex.reverse_not_id⟩

/-- Ancestors hold 10 and 100, write-back order reversed (the variable reads `100:10`): 1 is not refused
although it is a prefix of both; 10 and 100 are; holding 100 alone does not refuse 10; holding 1 alone refuses
neither 10 nor 100. -/
theorem prefix_distinguished :
    check (addAll List.reverse none [Ex.ten, Ex.hundred]) Ex.one = false ∧
    check (addAll List.reverse none [Ex.ten, Ex.hundred]) Ex.ten = true ∧
    check (addAll List.reverse none [Ex.ten, Ex.hundred]) Ex.hundred = true ∧
    check (addAll List.reverse none [Ex.hundred]) Ex.ten = false ∧
    check (addAll List.reverse none [Ex.one]) Ex.ten = false ∧
    check (addAll List.reverse none [Ex.one]) Ex.hundred = false :=
  Ex.prefix_distinguished

/-- An id containing a colon would not be found again after being added: `':' ∉ fid` cannot be dropped. -/
theorem colon_needed : check (add id none [':']) [':'] = false ∧ items (add id none [':']) = [[], []] :=
  Ex.colon_needed

/-- An order that loses an item loses an ancestor's lock: `Rearranges ord` cannot be dropped. -/
theorem rearranges_needed : check (add (fun l => l.drop 1) (some Ex.ten) Ex.hundred) Ex.ten = false :=
  Ex.rearranges_needed

/-- Corners: an unset variable has no items; an empty one has one item, the empty string (refusing only the
empty id, which is no lock id); repeated and empty items are written back once each. -/
theorem corners :
    items none = [] ∧ items (some []) = [[]] ∧ check (some []) [] = true ∧ check none [] = false ∧
    items (some "1:1:".toList) = [Ex.one, Ex.one, []] ∧
    add List.reverse (some "1:1:".toList) Ex.one = some "1:1:".toList ∧
    add List.reverse (some "1:1:".toList) Ex.ten = some "10::1".toList ∧
    add List.reverse (some []) Ex.ten = some "10:".toList ∧
    add List.reverse none Ex.ten = some "10".toList :=
  Ex.corners

end C12
