import RedoModel.Lemmas.RunLoopInv
/-!
# C09 — the discipline of waiting in `builder::run` (builder.rs "blocking lock wait only after all own jobs are done
and their results recorded, own token given up first"; "we should never run ensure_token() while holding a lock"),
derived from the control-flow model `RedoModel/RunLoop.lean`.  These are the local guards the wait-for acceptor
`WaitsG` assumes of every process.  Property theorems only.
-/
namespace C09
open RedoModel.RunLoop

/-- The locks the process itself owns (not through a job) are determined by the program counter: exactly the target
being handled between a successful `try_lock` / `wait_lock` and the hand-over to the job or the release. -/
def heldAt : Pc → List Nat
  | .l1own f => [f] | .l1started f => [f] | .l2own f => [f] | .l2started f => [f] | .l2got f => [f]
  | _ => []

theorem held_is_determined (c : Cfg) (es : List Ev) (s : St) (h : run c {} es = .ok s) : s.held = heldAt s.pc := by
  rw [(run_inv1 h).held]; cases s.pc <;> rfl

/-- When the process is about to block in `wait_lock`, none of its jobs is under way (all results recorded), it owns
no lock, and it has given up its token. -/
theorem blocking_wait_discipline (c : Cfg) (es : List Ev) (s : St) (f : Nat) (h : run c {} es = .ok s)
    (hp : s.pc = .l2wait f) : s.jobs = [] ∧ s.held = [] ∧ s.tokHeld = false := by
  have hi := run_inv1 h
  exact ⟨hi.body (by rw [hp]; rfl), by rw [hi.held, hp]; rfl, hi.wait f hp⟩

/-- Wherever the process waits for a token it owns no idle lock (only its running jobs own locks). -/
def awaitsToken : Pc → Bool
  | .l1 => true | .l2go => true | .l2retok _ => true
  | _ => false

theorem token_wait_without_idle_lock (c : Cfg) (es : List Ev) (s : St) (h : run c {} es = .ok s)
    (hp : awaitsToken s.pc = true) : s.held = [] := by
  rw [(run_inv1 h).held]
  cases hpc : s.pc <;> simp [hpc, awaitsToken] at hp <;> rfl

/-- `BuildJob::start` (which may fork, `assert_eq!(my_tokens, 1)`) and `release_mine` (`assert!(my_tokens >= 1)`) are
reached only with a token in hand: a token wait has returned and nothing has used or released the token since.
These are the enabling conditions `TokLoop` assumes for its `start` and `releaseMine` steps. -/
def needsToken : Pc → Bool
  | .l1tok => true | .l1go => true | .l1lock _ => true | .l1own _ => true | .l1started _ => true
  | .l2try _ => true | .l2rel _ => true | .l2own _ => true | .l2started _ => true
  | _ => false

theorem token_in_hand (c : Cfg) (es : List Ev) (s : St) (h : run c {} es = .ok s)
    (hp : needsToken s.pc = true) : s.tokHeld = true := by
  refine (run_inv1 h).tok ?_
  cases hpc : s.pc <;> simp [hpc, needsToken] at hp <;> rfl

/-- Inside the body of the second loop no job of this process is under way. -/
def inSecondBody : Pc → Bool
  | .l2all => true | .l2go => true | .l2try _ => true | .l2rel _ => true | .l2wait _ => true | .l2got _ => true
  | .l2retok _ => true | .l2own _ => true | .l2started _ => true
  | _ => false

theorem second_loop_body_has_no_jobs (c : Cfg) (es : List Ev) (s : St) (h : run c {} es = .ok s)
    (hp : inSecondBody s.pc = true) : s.jobs = [] := by
  refine (run_inv1 h).body ?_
  cases hpc : s.pc <;> simp [hpc, inSecondBody] at hp <;> rfl

/-- `run` returns only after every job it started has been waited for — also after an internal error. -/
theorem returns_after_all_jobs (c : Cfg) (es : List Ev) (s : St) (ok : Bool) (h : run c {} es = .ok s)
    (hp : s.pc = .ended ok) : s.jobs = [] :=
  (run_inv1 h).ended ok hp

/-- Non-vacuity: the blocking wait is reachable. -/
example : (match run {} {}
    [.tok, .chk false, .target 7, .tryLock 7 false, .waitAll, .chk false, .tok, .tryLock 7 false, .releaseMine] with
    | .ok s => s.pc == .l2wait 7
    | .error _ => false) = true := by decide

end C09
