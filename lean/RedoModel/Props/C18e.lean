import RedoModel.Lemmas.Pretty
import RedoModel.Lemmas.LogRecRt
import RedoModel.Props.C18b
/-!
# C18 (last stage of the live output) — what `PrettyLog::write_line` shows

Property theorems only.  Model: `RedoModel/Pretty.lean` (`writeLine`, `render`, `pretty`, `replayText`), tied to the
code in process (hook `pretty_line`) and through `redo-log -r` in pretty mode on synthetic log forests.

Every line of the live output and of a pretty replay passes through `writeLine`.  The theorems say: a line without a
record is written back unchanged, exactly once (`pretty_plain_line`, `pretty_unparsable_line`); what stands in front of a
record on the same line is kept (`pretty_record`); a failure record is shown under EVERY verbosity configuration with the
target's name and its exit status (`pretty_failure_always_shown`); a start record shows the target's name; a success
record is the only thing the default configuration hides; and the pretty replay is the concatenation, in order, of one
chunk per line of the raw replay, the chunk of a plain line being the line itself (`pretty_replay_chunks`).
-/
namespace C18
open RedoModel.LogRec RedoModel.Pretty

/-- The records the round-trip theorem `C18.roundtrip` is about. -/
def WfRec (r : Rec) : Prop :=
  (∀ c ∈ r.kind, c ≠ ':' ∧ c ≠ '@' ∧ c ≠ '\n') ∧ canonI32 r.pid = some r.pid ∧ canonTs r.ts = true ∧ '\n' ∉ r.text

/-- A line a script wrote (no `@` in it, hence no record prefix) is written back as it is, once, whatever the
configuration, the colours and the depth. -/
theorem pretty_plain_line (cfg : Cfg) (e : Esc) (d : Nat) (l : List Char) (h : '@' ∉ l) :
    writeLine cfg e d l = l ++ ['\n'] := by
  unfold writeLine
  rw [findSub_pre_none l h]

/-- So is a line whose first `@@REDO:` does not start a well-formed record. -/
theorem pretty_unparsable_line (cfg : Cfg) (e : Esc) (d : Nat) (l b a : List Char) (x : PErr)
    (hf : findSub pre l = some (b, a)) (hp : parse (pre ++ a) = .error x) :
    writeLine cfg e d l = l ++ ['\n'] := by
  unfold writeLine
  rw [hf]
  simp only [hp]

theorem format_eq (r : Rec) : format r = pre ++ ((r.kind ++ ':' :: (r.pid ++ ':' :: r.ts)) ++ (sep ++ r.text)) := by
  unfold format
  rw [List.append_assoc]

/-- A well-formed record, with any `@`-free text in front of it on the same line: the text is kept, the record is
rendered according to its kind. -/
theorem pretty_record (cfg : Cfg) (e : Esc) (d : Nat) (b : List Char) (r : Rec) (hb : '@' ∉ b) (hr : WfRec r) :
    writeLine cfg e d (b ++ format r) = b ++ render cfg e d r := by
  unfold writeLine
  rw [format_eq, findSub_pre_after b _ hb]
  simp only
  rw [← format_eq, roundtrip_proof r hr.1 hr.2.1 hr.2.2.1 hr.2.2.2]

theorem done_text_no_newline {rv name : List Char} (hrv : canonI32 rv = some rv) (hn : '\n' ∉ name) :
    '\n' ∉ rv ++ ' ' :: name := by
  intro h
  rcases List.mem_append.mp h with h | h
  · rcases RedoModel.LogRec.canonI32_chars hrv _ h with h' | h'
    · exact (RedoModel.LogRec.isDigit_ne h').2.2.1 rfl
    · revert h'; decide
  · rcases List.mem_cons.mp h with h | h
    · revert h; decide
    · exact hn h

theorem kDone_wf : ∀ c ∈ kDone, c ≠ ':' ∧ c ≠ '@' ∧ c ≠ '\n' := by decide
theorem kDo_wf : ∀ c ∈ kDo, c ≠ ':' ∧ c ≠ '@' ∧ c ≠ '\n' := by decide

/-- **A failure is shown under every configuration**: whatever `-v`, `-x`, `-d`, `--debug-locks`, `--debug-pids`,
`--no-log`, colours and depth, the `done` record of a target that exited with a status other than 0 is rendered as one
decorated line carrying `<name> (exit <status>)`. -/
theorem pretty_failure_always_shown (cfg : Cfg) (e : Esc) (d : Nat) (b pid ts rv name : List Char)
    (hb : '@' ∉ b) (hp : canonI32 pid = some pid) (ht : canonTs ts = true)
    (hrv : canonI32 rv = some rv) (hnz : rv ≠ ['0']) (hn : '\n' ∉ name) :
    writeLine cfg e d (b ++ format ⟨kDone, pid, ts, rv ++ ' ' :: name⟩)
      = b ++ pretty cfg e d pid e.red (name ++ (sExit ++ (rv ++ [')']))) := by
  rw [pretty_record cfg e d b _ hb ⟨kDone_wf, hp, ht, done_text_no_newline hrv hn⟩]
  unfold render
  have h1 : (kDone = kUnchanged) = False := by decide
  have h2 : (kDone = kCheck) = False := by decide
  have h3 : (kDone = kDo) = False := by decide
  simp only [h1, h2, h3, if_false, if_true, done_roundtrip_proof rv name hrv, hnz, ne_eq, not_false_eq_true]

/-- The same without colours and pids (what a pipe or a log file receives): the literal text. -/
theorem pretty_failure_text (cfg : Cfg) (d : Nat) (b pid ts rv name : List Char) (hpids : cfg.debugPids = false)
    (hb : '@' ∉ b) (hp : canonI32 pid = some pid) (ht : canonTs ts = true)
    (hrv : canonI32 rv = some rv) (hnz : rv ≠ ['0']) (hn : '\n' ∉ name) :
    writeLine cfg noEsc d (b ++ format ⟨kDone, pid, ts, rv ++ ' ' :: name⟩)
      = b ++ ("redo  ".toList ++ (List.replicate d ' ' ++ (name ++ (" (exit ".toList ++ (rv ++ ")\n".toList))))) := by
  rw [pretty_failure_always_shown cfg noEsc d b pid ts rv name hb hp ht hrv hnz hn]
  simp [pretty, noEsc, hpids, redoTag, sExit]

/-- A success record is shown (as `<name> (done)` and an empty line) exactly when `-v`, `-x` or `-d` asks for it. -/
theorem pretty_success (cfg : Cfg) (e : Esc) (d : Nat) (b pid ts name : List Char)
    (hb : '@' ∉ b) (hp : canonI32 pid = some pid) (ht : canonTs ts = true) (hn : '\n' ∉ name) :
    writeLine cfg e d (b ++ format ⟨kDone, pid, ts, '0' :: ' ' :: name⟩)
      = b ++ (if cfg.verbose > 0 ∨ cfg.xtrace > 0 ∨ cfg.debug > 0 then pretty cfg e d pid e.green (name ++ sDone) ++ ['\n'] else []) := by
  have hrv : canonI32 ['0'] = some ['0'] := by decide
  have := pretty_record cfg e d b ⟨kDone, pid, ts, ['0'] ++ ' ' :: name⟩ hb ⟨kDone_wf, hp, ht, done_text_no_newline hrv hn⟩
  rw [show (['0'] ++ ' ' :: name) = '0' :: ' ' :: name from rfl] at this
  rw [this]
  unfold render
  have h1 : (kDone = kUnchanged) = False := by decide
  have h2 : (kDone = kCheck) = False := by decide
  have h3 : (kDone = kDo) = False := by decide
  have hd := done_roundtrip_proof ['0'] name hrv
  rw [show (['0'] ++ ' ' :: name) = '0' :: ' ' :: name from rfl] at hd
  simp only [h1, h2, h3, if_false, if_true, hd, ne_eq, not_true_eq_false, Bool.or_eq_true, decide_eq_true_eq]
  by_cases hv : cfg.verbose > 0 ∨ cfg.xtrace > 0 ∨ cfg.debug > 0
  · rw [if_pos hv, if_pos (by rcases hv with h | h | h; exact Or.inl (Or.inl h); exact Or.inl (Or.inr h); exact Or.inr h)]
  · rw [if_neg hv, if_neg (by
      intro h; apply hv
      rcases h with (h | h) | h
      exact Or.inl h; exact Or.inr (Or.inl h); exact Or.inr (Or.inr h))]

/-- A start record shows the target's name, under every configuration. -/
theorem pretty_start_shown (cfg : Cfg) (e : Esc) (d : Nat) (b pid ts name : List Char)
    (hb : '@' ∉ b) (hp : canonI32 pid = some pid) (ht : canonTs ts = true) (hn : '\n' ∉ name) :
    writeLine cfg e d (b ++ format ⟨kDo, pid, ts, name⟩) = b ++ pretty cfg e d pid e.green name := by
  rw [pretty_record cfg e d b _ hb ⟨kDo_wf, hp, ht, hn⟩]
  unfold render
  have h1 : (kDo = kUnchanged) = False := by decide
  have h2 : (kDo = kCheck) = False := by decide
  simp only [h1, h2, if_false, if_true]

/-- Non-vacuity and a reading aid: a failed target two levels deep, default configuration. -/
example : writeLine ⟨0, false, false, 0, 0, true⟩ noEsc 4 "@@REDO:done:31924:1790659939.3597@@ 7 sub/x.o".toList
    = "redo      sub/x.o (exit 7)\n".toList := by decide +kernel

/-- The in-band finding on this path: a script line with the syntax of an `unchanged` record is swallowed by the default
live configuration of a top-level `redo --no-log` (`log = false`, no `-d`). -/
theorem pretty_inband_witness :
    writeLine ⟨0, false, false, 0, 0, false⟩ noEsc 0 "@@REDO:unchanged:1:0.0000@@ ghost".toList = [] := by decide +kernel

/-- The two stages that look for a record inside a line agree on where it starts: for a line with text `b` in front
of its first `@@REDO:` and a well-formed record `r` from there on, the replay (`catlog`, since the repair 2aec02b)
handles the text and the record as two lines, and the printer (`PrettyLog`) writes the text followed by the rendered
record.  (Before the repair the replay treated the whole line as text and never followed the record.) -/
theorem replay_and_printer_split_alike (cfg : Cfg) (e : Esc) (d : Nat) (l b a : List Char) (r : Rec)
    (hf : findSub pre l = some (b, a)) (hne : b ≠ []) (hp : parse (pre ++ a) = .ok r) :
    unglue1 l = [b, pre ++ a] ∧ writeLine cfg e d l = b ++ render cfg e d r := by
  constructor
  · unfold unglue1
    rw [hf]
    have : b.isEmpty = false := by
      cases b with
      | nil => exact absurd rfl hne
      | cons _ _ => rfl
    simp only [this, hp, Bool.false_eq_true, if_false]
  · unfold writeLine
    rw [hf]
    simp only [hp]

/-! ## The pretty replay is the raw replay, line by line -/

/-- `replayText` cuts its result into one chunk per replay line, in order; the chunk of a plain line (no `@`) is the
line itself with its newline: every such line of the raw replay appears exactly once, at its place, unchanged. -/
theorem pretty_replay_chunks (cfg : Cfg) (e : Esc) :
    ∀ (outs : List Tagged) (m : List (List Char × Nat)) (text : List Char),
      replayText cfg e outs m = some text →
      ∃ chunks : List (List Char), text = chunks.flatten ∧ chunks.length = outs.length ∧
        ∀ (i : Nat) (h1 : i < outs.length) (h2 : i < chunks.length) (l : List Char),
          (outs[i]).out = .raw l → '@' ∉ l → chunks[i] = l ++ ['\n'] := by
  intro outs
  induction outs with
  | nil =>
    intro m text h
    refine ⟨[], ?_, rfl, ?_⟩
    · simp only [replayText, Option.some.injEq] at h; rw [← h]; rfl
    · intro i h1; exact absurd h1 (Nat.not_lt_zero _)
  | cons o os ih =>
    intro m text h
    unfold replayText at h
    split at h
    · cases h
    · rename_i k hk
      split at h
      · rename_i l hl
        split at h
        · cases h
        · rename_i rest hrest
          obtain ⟨cs, hc1, hc2, hc3⟩ := ih m rest hrest
          refine ⟨writeLine cfg e (2 * k) l :: cs, ?_, by simp [hc2], ?_⟩
          · simp only [Option.some.injEq] at h; rw [← h, hc1]; rfl
          · intro i h1 h2 l' ho hat
            cases i with
            | zero =>
              simp only [List.getElem_cons_zero] at ho ⊢
              rw [hl] at ho
              cases ho
              exact pretty_plain_line cfg e _ _ hat
            | succ j =>
              simp only [List.getElem_cons_succ] at ho ⊢
              exact hc3 j (by simpa using h1) (by simpa using h2) l' ho hat
      · rename_i kind txt hl
        dsimp only at h
        generalize hr : replayText cfg e os _ = r at h
        cases r with
        | none => cases h
        | some rest =>
          obtain ⟨cs, hc1, hc2, hc3⟩ := ih _ rest hr
          simp only [Option.some.injEq] at h
          refine ⟨writeLine cfg e (if kind = kResumed then reduceDepth (2 * k) else 2 * k) (format (mkRec kind txt)) :: cs,
            ?_, by simp [hc2], ?_⟩
          · rw [← h, hc1]; rfl
          · intro i h1 h2 l' ho hat
            cases i with
            | zero =>
              simp only [List.getElem_cons_zero] at ho
              rw [hl] at ho
              cases ho
            | succ j =>
              simp only [List.getElem_cons_succ] at ho ⊢
              exact hc3 j (by simpa using h1) (by simpa using h2) l' ho hat

end C18
