import RedoModel.Lemmas.Tokens
import RedoModel.Props.C08b
/-!
# C08 — Job tokens are conserved and -j is respected
Property theorems only.  Model: `RedoModel/Tokens.lean` (an acceptor for the primitive token events
the instrumented jobserver logs).  The theorems say: whatever sequence of primitives a tree of redo
processes performs, as long as each primitive is locally consistent (which the acceptor checks on
every real trace), the token value `V` stays equal to the number of tokens granted.
-/
namespace C08
open RedoModel.Tokens

/-- One accepted primitive conserves `V - total`. -/
theorem step_conserves (s s' : State) (e : Ev) (h : step s e = .ok s') :
    V s' - s'.total = V s - s.total := by
  unfold step at h
  cases e with
  | setupOwn p n =>
    simp only at h
    split at h
    · cases h
    · cases h
      simp only [V, sumProcs_cons, contrib]
      omega
  | setupInh p parent =>
    simp only at h
    split at h
    · rename_i j hj
      split at h
      · cases h
      · cases h
        rename_i hd
        simp only [V, sumProcs_cons, contrib, freeJobs_set _ _ _ _ hj, jobVal]
        simp at hd
        simp [hd]
        omega
    · cases h
      simp only [V, sumProcs_cons, contrib]
      omega
  | create p n my cheats =>
    simp only [withProc] at h
    split at h
    · cases h
    · rename_i x hx
      split at h
      · cases h
      · have := check_ok h; subst this
        simp only [V, sumProcs_set _ _ _ _ hx, contrib_createN]
        omega
  | destroy p n my cheats =>
    simp only [withProc] at h
    split at h
    · cases h
    · rename_i x hx
      split at h
      · cases h
      · have := check_ok h; subst this
        simp only [V, sumProcs_set _ _ _ _ hx, contrib]
        omega
  | release p n shared my cheats =>
    simp only [withProc] at h
    split at h
    · cases h
    · rename_i x hx
      split at h
      · cases h
      · split at h
        · cases h
        · have := check_ok h; subst this
          rename_i hg _
          simp only [not_or, Int.not_lt] at hg
          simp only [V, sumProcs_set _ _ _ _ hx, contrib]
          have : ((n - shared : Nat) : Int) = (n : Int) - (shared : Int) := by omega
          omega
  | read p my cheats =>
    simp only [withProc] at h
    split at h
    · cases h
    · rename_i x hx
      split at h
      · cases h
      · split at h
        · cases h
        · have := check_ok h; subst this
          simp only [V, sumProcs_set _ _ _ _ hx, contrib]
          omega
  | eat p my cheats =>
    simp only [withProc] at h
    split at h
    · cases h
    · rename_i x hx
      split at h
      · cases h
      · split at h
        · cases h
        · have := check_ok h; subst this
          simp only [V, sumProcs_set _ _ _ _ hx, contrib]
          omega
  | cheat p n my cheats =>
    simp only [withProc] at h
    split at h
    · cases h
    · rename_i x hx
      split at h
      · cases h
      · have := check_ok h; subst this
        simp only [V, sumProcs_set _ _ _ _ hx, contrib]
        omega
  | start p j my cheats =>
    simp only [withProc] at h
    split at h
    · cases h
    · rename_i x hx
      split at h
      · cases h
      · split at h
        · cases h
        · have := check_ok h; subst this
          simp only [V, sumProcs_set _ _ _ _ hx, contrib, freeJobs_cons, jobVal]
          simp
          omega
  | childexit p j my cheats =>
    simp only [withProc] at h
    split at h
    · cases h
    · rename_i x hx
      split at h
      · cases h
      · rename_i js hjs
        split at h
        · cases h
        · have := check_ok h; subst this
          rename_i hg
          simp only [not_or] at hg
          have hd : js.delegated = false := by simpa using hg.2
          simp only [V, sumProcs_set _ _ _ _ hx, contrib, freeJobs_del _ _ _ hjs, jobVal, hd]
          simp
          omega
  | reaped p j => cases h; rfl
  | forcereturn p n =>
    simp only [withProc] at h
    split at h
    · cases h
    · rename_i x hx
      split at h
      · cases h
      · cases h
        simp only [V, sumProcs_set _ _ _ _ hx, contrib]
        omega
  | cheatwrite p n =>
    simp only [withProc] at h
    split at h
    · cases h
    · rename_i x hx
      cases h
      simp only [V, sumProcs_set _ _ _ _ hx, contrib]
      omega
  | selftest p tokens cheats top =>
    simp only [withProc] at h
    split at h
    · cases h
    · split at h
      · cases h
      · split at h
        · cases h
        · cases h; rfl
  | returned p my cheats =>
    simp only [withProc] at h
    split at h
    · cases h
    · rename_i x hx
      split at h
      · cases h
      · split at h
        · rename_i j hj
          split at h
          · cases h
          · rename_i js hjs
            split at h
            · cases h
            · rename_i hdel
              split at h
              · cases h
              · cases h
                rename_i hc
                simp only [ne_eq, Decidable.not_not] at hc
                have hd : js.delegated = true := by simpa using hdel
                simp only [V, sumProcs_del _ _ _ hx, freeJobs_set _ _ _ _ hjs, jobVal, hd]
                simp
                omega
        · split at h
          · split at h
            · cases h
              simp only [V, sumProcs_del _ _ _ hx]
              omega
            · cases h
          · split at h
            · cases h
            · rename_i hc
              split at h
              · cases h
              · cases h
                simp only [ne_eq, Decidable.not_not] at hc
                simp only [V, sumProcs_del _ _ _ hx]
                omega

/-- Every accepted event sequence conserves the token value: no token is created or lost. -/
theorem conserved (s s' : State) (es : List Ev) (h : run s es = .ok s') :
    V s' - s'.total = V s - s.total := by
  induction es generalizing s with
  | nil => simp [run] at h; cases h; rfl
  | cons e es ih =>
    simp only [run] at h
    split at h
    · cases h
    · rename_i s1 hs1
      rw [ih s1 h, step_conserves s s1 e hs1]

/-- From an idle jobserver (nothing granted yet) the value always equals the number of tokens
granted (`-jN`, plus one per process that entered under an inherited jobserver). -/
theorem value_is_total (k : Int) (es : List Ev) (s' : State)
    (h : run { pipe := k, total := k } es = .ok s') : V s' = s'.total := by
  have := conserved _ _ es h
  have h0 : V ({ pipe := k, total := k } : State) = k := by simp [V, sumProcs, freeJobs]
  rw [h0] at this
  simp only at this
  omega

/-- When everything has finished (no process, no job left) the pipe holds exactly the tokens it
should: the top-level that owns the jobserver ends with what it started with, and an inherited
jobserver has got back exactly what was taken. -/
theorem all_returned (k : Int) (es : List Ev) (s' : State)
    (h : run { pipe := k, total := k } es = .ok s') (hp : s'.procs = []) (hj : s'.jobs = []) :
    s'.pipe - s'.cheatPipe = s'.total := by
  have := value_is_total k es s' h
  simp [V, hp, hj, sumProcs, freeJobs] at this
  omega

/-- The -j bound: the number of scripts working on their own token never exceeds the tokens
granted plus the outstanding cheats (one per followed job) — provided counters are non-negative,
which the Rust asserts. -/
theorem bound (k : Int) (es : List Ev) (s' : State)
    (h : run { pipe := k, total := k } es = .ok s')
    (hpipe : 0 ≤ s'.pipe) (hpos : ∀ e ∈ s'.procs, 0 ≤ e.2.my ∧ 0 ≤ e.2.limbo) :
    freeJobs s'.jobs ≤ s'.total + s'.cheatPipe + (s'.procs.map (fun e => e.2.cheats)).sum := by
  have hv := value_is_total k es s' h
  have hs : ∀ l : List (Nat × Proc), (∀ e ∈ l, 0 ≤ e.2.my ∧ 0 ≤ e.2.limbo) →
      sumProcs l + (l.map (fun e => e.2.cheats)).sum ≥ 0 := by
    intro l
    induction l with
    | nil => intro _; simp [sumProcs]
    | cons e r ih =>
      intro hh
      have h1 := hh e (by simp)
      have h2 := ih (fun x hx => hh x (by simp [hx]))
      simp only [sumProcs, List.map_cons, List.sum_cons, contrib] at h2 ⊢
      omega
  have := hs s'.procs hpos
  simp only [V] at hv
  omega

/-- Witness for the recorded finding `exitWithoutToken`: a nested redo process that leaves with
`(my_tokens, cheats) = (0, 0)` is rejected by the acceptor — it is exactly the step at which a token
would be minted (its job continues on a token nobody holds). -/
theorem exit_without_token_rejected :
    (match run {} [.setupOwn 1 2, .create 1 1 2 0, .release 1 1 1 1 0, .destroy 1 1 0 0, .start 1 10 0 0,
                   .setupInh 2 10, .release 2 1 1 0 0, .forcereturn 2 0, .returned 2 0 0] with
     | .error (0, .guard _ 2) => true
     | _ => false) = true := by decide

/-- Witness for the repaired defect `cheaterEatsForeignIou` (side observation of seeding round 6): a process that
synthesised a token (`cheat`), gave it to a child, and at the child's exit takes an IOU somebody else left on the cheat
pipe — instead of settling its own cheat with the child's token — is rejected at that step: it would be left with
`(my_tokens, cheats) = (0, 1)`, which the exit path of the pinned code answered with an assertion failure. -/
theorem foreign_iou_with_own_cheat_rejected :
    (match run {} [.setupOwn 1 2, .create 1 1 2 0, .release 1 1 1 1 0, .destroy 1 1 0 0, .start 1 10 0 0,
                   .setupInh 2 10, .release 2 1 1 0 0, .cheat 2 1 1 1, .destroy 2 1 0 1, .start 2 20 0 1,
                   .cheatwrite 1 1, .childexit 2 20 0 1, .eat 2 0 1] with
     | .error (0, .guard _ 2) => true
     | _ => false) = true := by decide

/-- The repaired order on the same prefix is accepted: the child's token settles the cheat (`create` with the cheat
cancelled), the process leaves with `(0, 0)` and one IOU of its own, and its job gets its token back. -/
theorem own_cheat_settled_first_accepted :
    (match run {} [.setupOwn 1 2, .create 1 1 2 0, .release 1 1 1 1 0, .destroy 1 1 0 0, .start 1 10 0 0,
                   .setupInh 2 10, .release 2 1 1 0 0, .cheat 2 1 1 1, .destroy 2 1 0 1, .start 2 20 0 1,
                   .cheatwrite 1 1, .childexit 2 20 0 1, .create 2 1 0 0, .forcereturn 2 0, .cheatwrite 2 1,
                   .returned 2 0 0] with
     | .ok s => s.procs.length == 1 && s.cheatPipe == 2
     | _ => false) = true := by decide

/-- Witness for the repaired defect `failedStartLosesToken`: a process that destroys its token for a child that is
then never started (the pipe for the child's exit could not be created) and leaves — with the IOU a token-less exit
writes — is rejected: it does not leave exactly one token to its job (the destroyed one is lost). -/
theorem token_destroyed_for_unstarted_child_rejected :
    (match run {} [.setupOwn 1 1, .destroy 1 1 0 0, .start 1 10 0 0, .setupInh 2 10, .destroy 2 1 0 0,
                   .forcereturn 2 0, .cheatwrite 2 1, .returned 2 0 0] with
     | .error (0, .guard _ 2) => true
     | _ => false) = true := by decide

/-- Repaired order: nothing is destroyed before the start can no longer fail; the process leaves with its token. -/
theorem failed_start_keeps_token_accepted :
    (match run {} [.setupOwn 1 1, .destroy 1 1 0 0, .start 1 10 0 0, .setupInh 2 10,
                   .forcereturn 2 0, .returned 2 1 0] with
     | .ok s => s.procs.length == 1 && s.cheatPipe == 0
     | _ => false) = true := by decide

end C08
