import RedoModel.Props.C10b
import RedoModel.Lemmas.Deps
import RedoModel.Lemmas.DepsSoundK8
import RedoModel.Lemmas.DepsSoundK0b
/-!
# C10 — A kill at any moment is recovered from by simply running redo again
Property theorems only.  Model: the engine model with its kill operation (`UserOp.crashCmd`: the
whole process tree is killed when a given script reaches a given step; every transaction committed
before that instant persists, nothing after it happens).  The full statement (recovery from every
cut re-establishes the soundness invariant) is kept as `recovers_full`; proven are the mechanisms
that make a half-finished build visible to the recovery run, and the witness for the recorded
finding (kill between `rename` and the recording commit).
-/
namespace C10
open RedoModel.Deps

/-- Full statement (a proposition, not yet a theorem): after any history that contains kills, a
`redo-ifchange` that exits 0 leaves its targets up to date (same shape as `C01.no_stale_full`,
with `crashCmd` among the operations). -/
def recovers_full : Prop :=
  ∀ (n : Nat) (rules : Nat → List Nat) (ops : List UserOp) (ts : List Nat),
    let w := (ops.foldl (fun w op => (applyOp {} n op w).2) (initWorld rules))
    let r := runCmd {} n (.ifchange ts false) w
    r.1.status = 0 → ∀ t ∈ ts, (r.2.recs t).failed = none

/-- Marking a target's dependency rows for deletion (the first thing a build does) does not hide
them from the dirtiness check: a build killed before it re-declares its dependencies leaves a
record from which every old dependency is still examined. -/
theorem zapped_deps_stay_visible (w : World) (t : Nat) (r : Rec) (f s : Nat) (m : Bool) :
    (∃ d ∈ depsOf w r f, d.source = s ∧ d.modeM = m) ↔
    (∃ d ∈ depsOf (zapDeps1 w t) r f, d.source = s ∧ d.modeM = m) := by
  unfold depsOf
  split
  · simp
  · simp only [List.mem_mergeSort, List.mem_filter, zapDeps1, List.mem_map]
    constructor
    · rintro ⟨d, ⟨hd, hf⟩, hs, hm⟩
      refine ⟨if d.target = t then { d with deleteMe := true } else d, ⟨⟨d, hd, rfl⟩, ?_⟩, ?_, ?_⟩
      · split <;> simpa using hf
      · split <;> simpa using hs
      · split <;> simpa using hm
    · rintro ⟨d', ⟨⟨d, hd, rfl⟩, hf⟩, hs, hm⟩
      refine ⟨d, ⟨hd, ?_⟩, ?_, ?_⟩
      · split at hf <;> simpa using hf
      · split at hs <;> simpa using hs
      · split at hm <;> simpa using hm

/-- A killed process starts nothing more: when the tree is killed inside the build of one
target, the remaining targets of every enclosing command are not touched. -/
theorem killed_process_stops (E : Engine) (d : Defects) (cx : Ctx) (fuel t : Nat) (ts seen : List Nat) (w w' : World) (e : Bool)
    (hs : t ∉ seen) (hgo : (e && !cx.keepGoing) = false)
    (hcyc : (!cx.unlocked && decide (t ∈ cx.cycles)) = false)
    (hj : buildJob E d cx fuel t (addKnown w t) = (.done CRASHED, w')) :
    runTargets E d cx fuel (t :: ts) seen e w = (CRASHED, w') := by
  rw [runTargets]
  simp only [hs, if_false, hgo, Bool.false_eq_true, hcyc, hj, if_true]

/-- Witness for the recorded finding `renameBeforeCommit`: a generated target whose file was
already replaced (`rename` done) while its record is still the old one (kill before the commit)
looks exactly like a file edited by hand: the recovery run marks it overridden, leaves it alone
and reports success — so it is never rebuilt again until the user removes it. -/
theorem rename_window_is_taken_for_a_hand_edit (E : Engine) (d : Defects) (cx : Ctx) (t : Nat) (sf : Rec) (w : World)
    (hex : existsF w t = true) (hg : sf.isGenerated = true) (hno : sf.isOverride = false)
    (hdo : detectOverride (sf.stamp.getD .missing) (readStamp w t) = true) :
    (startSelf E d cx t sf w).1 = 0 ∧ (startSelf E d cx t sf w).2.fs = w.fs ∧
    ((startSelf E d cx t sf w).2.recs t).isOverride = true := by
  have hns : readStamp w t ≠ .missing := by
    unfold readStamp existsF at *
    cases h : w.fs t <;> simp_all
  have hex' : (w.fs t).isSome = true := hex
  simp [startSelf, hg, hno, hdo, hns, hex', existsF, setRec, ev, setOverride]

/-! ### Recovery over whole histories (full engine model, plain scripts, kills at any script step) -/

/-- **A kill at any script step is recovered from.**  After any plain history of the full engine model in which
any number of builds were killed (the whole process tree, when any script reaches any step — everything committed
before persists: flagged rows, re-declared rows, finished sub-builds; nothing after happens), whenever a later
`redo-ifchange ts` / `redo ts` exits 0 every target named is up to date.  Hypothesis `SingleDo`: every target has at
most one .do candidate — without it the statement is false (`recovery_without_single_do_is_false`, a recorded
finding of the real tool).  Kill windows inside `record_new_state` (rename before commit) and after `redo-stamp` are
separate recorded findings; the model has the second as a kill point, which plain scripts never reach. -/
theorem recovers_plain (n : Nat) (rules : Nat → List Nat) (rank : Nat → Nat) (ops : List UserOp) (ts : List Nat)
    (kg forced : Bool) (hr : RulesOk rules) (hS : SingleDo rules) (hp : ∀ op ∈ ops, PlainOpK rules op)
    (hrk : ∀ w ∈ worldsOf n {} (initWorld rules) ops, Ranked rank w) (hN : ∀ f, rank f < n)
    (hok : OpsOk n (initWorld rules) ops) :
    let w := ops.foldl (fun w op => (applyOp {} n op w).2) (initWorld rules)
    let r := runCmd {} n (if forced then .redo ts kg else .ifchange ts kg) w
    r.1.status = 0 → ∀ t ∈ ts, UpToDateD r.2 t :=
  noStalePlainK_partial n rules rank ops ts kg forced hr hS hp hrk hN hok

/-- The between-commands invariant of the soundness proof survives a killed run: "no lock or half-written state
from the killed run misleads later runs", and targets built afterwards keep reacting to source changes (apply
`recovers_plain` to the longer history). -/
theorem kill_keeps_invariant {rank : Nat → Nat} {N : Nat} {w : World} (d : Defects) (hN : ∀ f, rank f < N)
    (hS : SingleDo w.rules) (h : Btw rank w) (ts : List Nat) (t k : Nat) :
    Btw rank (applyOp d N (.crashCmd ts t k) w).2 ∧ (applyOp d N (.crashCmd ts t k) w).2.rules = w.rules :=
  crashCmd_btw d hN hS h ts t k

/-- Without `SingleDo` the recovery statement is false in the model — and in the tool (known finding
`killed-build-forgets-old-dofile`): the .do search of the killed rebuild has already replaced the row on the removed
.do by a must-not-exist row; the fallback .do is current for another target's sake; nothing else records what the
file was built by. -/
theorem recovery_without_single_do_is_false : ¬ NoStalePlainK := not_noStalePlainK

end C10
