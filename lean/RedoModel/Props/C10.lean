import RedoModel.Lemmas.Deps
/-!
# C10 — A kill at any moment is recovered from by simply running redo again
Property theorems only.  Model: the engine model with its kill operation (`UserOp.crashCmd`: the
whole process tree is killed when a given script reaches a given step; every transaction committed
before that instant persists, nothing after it happens).  The full statement (recovery from every
cut re-establishes the soundness invariant) is kept as `recovers_full`; proven are the mechanisms
that make a half-finished build visible to the recovery run, and the witness for the recorded
finding (kill between `rename` and the recording commit).
-/
namespace C10
open RedoModel.Deps

/-- Full statement (a proposition, not yet a theorem): after any history that contains kills, a
`redo-ifchange` that exits 0 leaves its targets up to date (same shape as `C01.no_stale_full`,
with `crashCmd` among the operations). -/
def recovers_full : Prop :=
  ∀ (n : Nat) (rules : Nat → List Nat) (ops : List UserOp) (ts : List Nat),
    let w := (ops.foldl (fun w op => (applyOp {} n op w).2) (initWorld rules))
    let r := runCmd {} n (.ifchange ts false) w
    r.1.status = 0 → ∀ t ∈ ts, (r.2.recs t).failed = none

/-- Marking a target's dependency rows for deletion (the first thing a build does) does not hide
them from the dirtiness check: a build killed before it re-declares its dependencies leaves a
record from which every old dependency is still examined. -/
theorem zapped_deps_stay_visible (w : World) (t : Nat) (r : Rec) (f s : Nat) (m : Bool) :
    (∃ d ∈ depsOf w r f, d.source = s ∧ d.modeM = m) ↔
    (∃ d ∈ depsOf (zapDeps1 w t) r f, d.source = s ∧ d.modeM = m) := by
  unfold depsOf
  split
  · simp
  · simp only [List.mem_mergeSort, List.mem_filter, zapDeps1, List.mem_map]
    constructor
    · rintro ⟨d, ⟨hd, hf⟩, hs, hm⟩
      refine ⟨if d.target = t then { d with deleteMe := true } else d, ⟨⟨d, hd, rfl⟩, ?_⟩, ?_, ?_⟩
      · split <;> simpa using hf
      · split <;> simpa using hs
      · split <;> simpa using hm
    · rintro ⟨d', ⟨⟨d, hd, rfl⟩, hf⟩, hs, hm⟩
      refine ⟨d, ⟨hd, ?_⟩, ?_, ?_⟩
      · split at hf <;> simpa using hf
      · split at hs <;> simpa using hs
      · split at hm <;> simpa using hm

/-- A killed process starts nothing more: when the tree is killed inside the build of one
target, the remaining targets of every enclosing command are not touched. -/
theorem killed_process_stops (E : Engine) (d : Defects) (cx : Ctx) (fuel t : Nat) (ts seen : List Nat) (w w' : World) (e : Bool)
    (hs : t ∉ seen) (hgo : (e && !cx.keepGoing) = false)
    (hcyc : (!cx.unlocked && decide (t ∈ cx.cycles)) = false)
    (hj : buildJob E d cx fuel t (addKnown w t) = (.done CRASHED, w')) :
    runTargets E d cx fuel (t :: ts) seen e w = (CRASHED, w') := by
  rw [runTargets]
  simp only [hs, if_false, hgo, Bool.false_eq_true, hcyc, hj, if_true]

/-- Witness for the recorded finding `renameBeforeCommit`: a generated target whose file was
already replaced (`rename` done) while its record is still the old one (kill before the commit)
looks exactly like a file edited by hand: the recovery run marks it overridden, leaves it alone
and reports success — so it is never rebuilt again until the user removes it. -/
theorem rename_window_is_taken_for_a_hand_edit (E : Engine) (d : Defects) (cx : Ctx) (t : Nat) (sf : Rec) (w : World)
    (hex : existsF w t = true) (hg : sf.isGenerated = true) (hno : sf.isOverride = false)
    (hdo : detectOverride (sf.stamp.getD .missing) (readStamp w t) = true) :
    (startSelf E d cx t sf w).1 = 0 ∧ (startSelf E d cx t sf w).2.fs = w.fs ∧
    ((startSelf E d cx t sf w).2.recs t).isOverride = true := by
  have hns : readStamp w t ≠ .missing := by
    unfold readStamp existsF at *
    cases h : w.fs t <;> simp_all
  have hex' : (w.fs t).isSome = true := hex
  simp [startSelf, hg, hno, hdo, hns, hex', existsF, setRec, ev, setOverride]

end C10
