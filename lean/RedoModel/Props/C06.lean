import RedoModel.Locks
/-!
# C06 — At most one .do runs for a given target at any time
Property theorems only.  Model: `RedoModel/Locks.lean`.
-/
namespace C06
open RedoModel.Locks

/-- The invariant: every execution under way runs under its target's lock (owned by the
executing process itself unless delegated), and no target has two executions under way. -/
structure Inv (s : State) : Prop where
  own : ∀ e ∈ s.running, e.delegated = false → ownerOf s e.fid = some e.pid
  held : ∀ e ∈ s.running, (ownerOf s e.fid).isSome = true
  one : ∀ e1 ∈ s.running, ∀ e2 ∈ s.running, e1.fid = e2.fid → e1 = e2
  nodup : s.running.Nodup

theorem inv_init : Inv {} := ⟨by simp, by simp, by simp, by simp⟩

theorem step_inv (s s' : State) (e : Ev) (hi : Inv s) (h : step s e = .ok s') : Inv s' := by
  cases e with
  | lockOk p fid =>
    simp only [step] at h
    split at h
    · split at h
      · cases h; exact hi
      · cases h
    · rename_i hnone
      cases h
      have hfree : ∀ x ∈ s.running, x.fid ≠ fid := by
        intro x hx hxf
        have := hi.held x hx
        rw [hxf] at this
        simp [hnone] at this
      refine ⟨?_, ?_, hi.one, hi.nodup⟩
      · intro x hx hd
        have := hi.own x hx hd
        simp only [ownerOf, setOwner] at this ⊢
        simp [hfree x hx, this]
      · intro x hx
        have := hi.held x hx
        simp only [ownerOf, setOwner] at this ⊢
        simp [hfree x hx, this]
  | lockFail p fid => simp only [step] at h; cases h; exact hi
  | unlock p fid =>
    simp only [step] at h
    split at h
    · cases h
    · split at h
      · cases h
      · rename_i hnr
        cases h
        have hfree : ∀ x ∈ s.running, x.fid ≠ fid := by
          intro x hx hxf
          apply hnr
          simp only [List.any_eq_true]
          exact ⟨x, hx, by simp [hxf]⟩
        refine ⟨?_, ?_, hi.one, hi.nodup⟩
        · intro x hx hd
          have := hi.own x hx hd
          simp only [ownerOf, setOwner] at this ⊢
          simp [hfree x hx, this]
        · intro x hx
          have := hi.held x hx
          simp only [ownerOf, setOwner] at this ⊢
          simp [hfree x hx, this]
  | script p fid unlocked =>
    simp only [step] at h
    cases unlocked with
    | true =>
      simp only [if_true] at h
      split at h
      · cases h
      · rename_i hown
        split at h
        · cases h
        · rename_i hnr
          cases h
          have hfree : ∀ x ∈ s.running, x.fid ≠ fid := by
            intro x hx hxf
            apply hnr
            simp only [List.any_eq_true]
            exact ⟨x, hx, by simp [hxf]⟩
          refine ⟨?_, ?_, ?_, ?_⟩
          · intro x hx hd
            simp only [List.mem_cons] at hx
            rcases hx with rfl | hx
            · simp at hd
            · exact hi.own x hx hd
          · intro x hx
            simp only [List.mem_cons] at hx
            rcases hx with rfl | hx
            · simp only [ownerOf] at hown ⊢
              cases hso : s.owner fid <;> simp_all
            · exact hi.held x hx
          · intro a ha b hb hab
            simp only [List.mem_cons] at ha hb
            rcases ha with rfl | ha <;> rcases hb with rfl | hb
            · rfl
            · exact absurd hab.symm (hfree b hb)
            · exact absurd hab (hfree a ha)
            · exact hi.one a ha b hb hab
          · refine List.nodup_cons.2 ⟨?_, hi.nodup⟩
            intro hm
            exact hfree _ hm rfl
    | false =>
      simp only [Bool.false_eq_true, if_false] at h
      split at h
      · cases h
      · rename_i hown
        split at h
        · cases h
        · rename_i hself
          split at h
          · cases h
          · rename_i hdel
            cases h
            simp only [ne_eq, Decidable.not_not] at hown
            have hfree : ∀ x ∈ s.running, x.fid ≠ fid := by
              intro x hx hxf
              by_cases hd : x.delegated = true
              · apply hdel
                simp only [List.any_eq_true]
                exact ⟨x, hx, by simp [hxf, hd]⟩
              · have hd' : x.delegated = false := by simpa using hd
                have := hi.own x hx hd'
                rw [hxf, hown] at this
                apply hself
                simp only [List.any_eq_true]
                refine ⟨x, hx, ?_⟩
                simp only [Option.some.injEq] at this
                simp [hxf, this]
            refine ⟨?_, ?_, ?_, ?_⟩
            · intro x hx hd
              simp only [List.mem_cons] at hx
              rcases hx with rfl | hx
              · exact hown
              · exact hi.own x hx hd
            · intro x hx
              simp only [List.mem_cons] at hx
              rcases hx with rfl | hx
              · simp [ownerOf] at hown ⊢; simp [hown]
              · exact hi.held x hx
            · intro a ha b hb hab
              simp only [List.mem_cons] at ha hb
              rcases ha with rfl | ha <;> rcases hb with rfl | hb
              · rfl
              · exact absurd hab.symm (hfree b hb)
              · exact absurd hab (hfree a ha)
              · exact hi.one a ha b hb hab
            · refine List.nodup_cons.2 ⟨?_, hi.nodup⟩
              intro hm
              exact hfree _ hm rfl
  | recordEnd p fid =>
    simp only [step] at h
    split at h
    · cases h
      refine ⟨?_, ?_, ?_, hi.nodup.filter _⟩
      · intro x hx hd; exact hi.own x (List.mem_filter.1 hx).1 hd
      · intro x hx; exact hi.held x (List.mem_filter.1 hx).1
      · intro a ha b hb hab; exact hi.one a (List.mem_filter.1 ha).1 b (List.mem_filter.1 hb).1 hab
    · cases h
  | exit p =>
    simp only [step] at h
    split at h
    · cases h
    · rename_i hnr
      cases h
      have hkeep : ∀ x ∈ s.running, s.owner x.fid ≠ some p := by
        intro x hx hxo
        apply hnr
        simp only [List.any_eq_true]
        exact ⟨x, hx, by simp [ownerOf, hxo]⟩
      refine ⟨?_, ?_, hi.one, hi.nodup⟩
      · intro x hx hd
        have := hi.own x hx hd
        have hk := hkeep x hx
        simp only [ownerOf] at this ⊢
        simp only [this] at hk ⊢
        simp only [ne_eq, Option.some.injEq] at hk
        simp [hk]
      · intro x hx
        have := hi.held x hx
        have hk := hkeep x hx
        simp only [ownerOf] at this ⊢
        simp [hk, this]

/-- In every state reachable through accepted events, across any number of processes and
invocations, no target has two executions of its build script under way. -/
theorem exclusive (es : List Ev) (s' : State) (h : run {} es = .ok s') (fid : Nat) :
    (active s' fid).length ≤ 1 := by
  have hinv : ∀ (es : List Ev) (s s' : State), Inv s → run s es = .ok s' → Inv s' := by
    intro es
    induction es with
    | nil => intro s s' hi h; simp [run] at h; cases h; exact hi
    | cons e es ih =>
      intro s s' hi h
      simp only [run] at h
      split at h
      · cases h
      · rename_i s1 hs1
        exact ih s1 s' (step_inv s s1 e hi hs1) h
  have hi := hinv es {} s' inv_init h
  unfold active
  match hl : s'.running.filter (fun e => e.fid == fid) with
  | [] => simp [hl]
  | [_] => simp [hl]
  | a :: b :: r =>
    exfalso
    have ha : a ∈ s'.running.filter (fun e => e.fid == fid) := by rw [hl]; simp
    have hb : b ∈ s'.running.filter (fun e => e.fid == fid) := by rw [hl]; simp
    have hfa := (List.mem_filter.1 ha)
    have hfb := (List.mem_filter.1 hb)
    have hab : a = b := hi.one a hfa.1 b hfb.1 (by
      have h1 : a.fid = fid := by simpa using hfa.2
      have h2 : b.fid = fid := by simpa using hfb.2
      rw [h1, h2])
    have hnd := hi.nodup.filter (fun e => e.fid == fid)
    rw [hl, hab] at hnd
    simp at hnd

/-- A result is recorded before the lock can pass on: while an execution of `fid` is under way
(script running or result not yet recorded) its lock is held, so no other process can take the
lock, decide, or start the script. -/
theorem recorded_before_visible (es : List Ev) (s' : State) (h : run {} es = .ok s')
    (e : Exec) (he : e ∈ s'.running) : (ownerOf s' e.fid).isSome = true := by
  have hinv : ∀ (es : List Ev) (s s' : State), Inv s → run s es = .ok s' → Inv s' := by
    intro es
    induction es with
    | nil => intro s s' hi h; simp [run] at h; cases h; exact hi
    | cons e es ih =>
      intro s s' hi h
      simp only [run] at h
      split at h
      · cases h
      · rename_i s1 hs1
        exact ih s1 s' (step_inv s s1 e hi hs1) h
  exact (hinv es {} s' inv_init h).held e he

/-- Witness for the recorded finding `errorAbandonsRunningJobs`: a process that leaves while one
of its scripts is still running is rejected — it is the step after which a second process could
take the lock and run the same script concurrently. -/
theorem abandon_rejected :
    (match run {} [.lockOk 1 7, .script 1 7 false, .exit 1] with
     | .error (0, .localGuard 1 _ _) => true
     | _ => false) = true := by decide

end C06
