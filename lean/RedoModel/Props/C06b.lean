import RedoModel.Lemmas.RunLoopLocks
/-!
# C06 — the local guards of the lock/job acceptor, derived from the control flow of `builder::run`

`Props/C06.lean` derives global exclusion from the kernel guard (a lock is granted only when free) and from LOCAL
guards that every process is assumed to respect (a script is started only under the process's own lock; the lock is
released only when no execution of the target is under way; the process does not return while a script it started
runs).  Here those local guards are proven of the control-flow model `RedoModel/RunLoop.lean`: the lock and job events
of any accepted run of `builder::run`, fed to `Locks.step` in any global state that agrees with the process's own
bookkeeping, are never rejected by a local guard; and the agreement is preserved, also by the accepted events of every
other process.  Processes in REDO_UNLOCKED mode are not covered (as in C06.lean).  Property theorems only.
-/
namespace C06
open RedoModel RedoModel.RunLoop

/-- What the `Locks` acceptor sees of an event of process `p` (state `s` is the state BEFORE the event; an internal
error drops the locks the process itself holds). -/
def toLocks (p : Nat) (s : St) : RunLoop.Ev → List Locks.Ev
  | .tryLock f true => [.lockOk p f]
  | .tryLock f false => [.lockFail p f]
  | .waited f => [.lockOk p f]
  | .unlock f => [.unlock p f]
  | .immediate f _ => [.unlock p f]
  | .forked f => [.script p f false]
  | .jobEnd f _ => [.recordEnd p f, .unlock p f]
  | .failedElsewhere f => [.unlock p f]
  | .abort => s.held.map (fun f => Locks.Ev.unlock p f)
  | .fin _ => [.exit p]
  | _ => []

/-- Feed a list of events to `Locks.step`. -/
def feed (L : Locks.State) : List Locks.Ev → Except Locks.Reject Locks.State
  | [] => .ok L
  | e :: es => match Locks.step L e with
    | .ok L' => feed L' es
    | .error r => .error r

/-- The global lock state agrees with process `p`'s own bookkeeping. -/
structure Agrees (p : Nat) (s : St) (L : Locks.State) : Prop where
  heldOwned : ∀ f ∈ s.held, L.owner f = some p
  jobsOwned : ∀ f ∈ s.jobs, L.owner f = some p
  jobsRunning : ∀ f ∈ s.jobs, (⟨f, p, false⟩ : Locks.Exec) ∈ L.running
  runningJobs : ∀ e ∈ L.running, e.pid = p → e.fid ∈ s.jobs
  ownsOnly : ∀ f, L.owner f = some p → f ∈ s.held ∨ f ∈ s.jobs
  disjoint : ∀ f ∈ s.held, f ∉ s.jobs
  nodupHeld : s.held.Nodup
  nodupJobs : s.jobs.Nodup
  noDelegated : ∀ e ∈ L.running, e.delegated = false
  ended : ∀ ok, s.pc = .ended ok → ∀ f, L.owner f ≠ some p
  heldPc : s.held = heldAtPc s.pc     -- the locks the process itself holds are those its program counter says (C09.heldAt)

/-! `toLocks`, `feed`, `pidOf`, `Agrees` are the definitions the lemmas of `Lemmas/RunLoopLocks.lean` are about. -/
private theorem feed_eq (L : Locks.State) (es : List Locks.Ev) : feed L es = Sim.feed L es := by
  induction es generalizing L with
  | nil => rfl
  | cons e es ih => simp only [feed, Sim.feed]; cases Locks.step L e <;> simp [ih]

private theorem toLocks_eq (p : Nat) (s : St) (ev : RunLoop.Ev) : toLocks p s ev = Sim.toLocks p s ev := by
  cases ev <;> first | rfl | (rename_i b; cases b <;> rfl)

private theorem agrees_iff {p : Nat} {s : St} {L : Locks.State} : Agrees p s L ↔ Sim.Agrees p s L :=
  ⟨fun ⟨a1, a2, a3, a4, a5, a6, a7, a8, a9, a10, a11⟩ => ⟨a1, a2, a3, a4, a5, a6, a7, a8, a9, a10, a11⟩,
   fun ⟨a1, a2, a3, a4, a5, a6, a7, a8, a9, a10, a11⟩ => ⟨a1, a2, a3, a4, a5, a6, a7, a8, a9, a10, a11⟩⟩

theorem agrees_init (p : Nat) : Agrees p {} {} :=
  agrees_iff.2 (Sim.agrees_init p)

/-- One step of `builder::run`: if the kernel grants only free locks, the events it shows to `Locks` are all accepted
(in particular none is rejected by a local guard), the invariant of C06 is kept, and the agreement is preserved. -/
theorem runloop_respects_lock_guards (p : Nat) (c : Cfg) (s s' : St) (ev : RunLoop.Ev) (L : Locks.State)
    (ha : Agrees p s L) (hi : Inv L) (hs : RunLoop.step c s ev = .ok s')
    (hk : ∀ f, (ev = .tryLock f true ∨ ev = .waited f) → L.owner f = none) :
    ∃ L', feed L (toLocks p s ev) = .ok L' ∧ Agrees p s' L' ∧ Inv L' := by
  obtain ⟨L', h1, h2, h3⟩ := Sim.sim_step (agrees_iff.1 ha) hi hs hk
  exact ⟨L', by rw [feed_eq, toLocks_eq]; exact h1, agrees_iff.2 h2, h3⟩

/-- The process of a `Locks` event. -/
def pidOf : Locks.Ev → Nat
  | .lockOk p _ => p | .lockFail p _ => p | .unlock p _ => p | .script p _ _ => p | .recordEnd p _ => p | .exit p => p

/-- Accepted events of OTHER processes (none in unlocked mode) do not disturb the agreement. -/
theorem others_keep_agreement (p : Nat) (s : St) (L L' : Locks.State) (e : Locks.Ev) (ha : Agrees p s L)
    (hq : pidOf e ≠ p) (hu : ∀ q f, e ≠ .script q f true) (h : Locks.step L e = .ok L') : Agrees p s L' := by
  have hq' : Sim.pidOf e ≠ p := by cases e <;> exact hq
  exact agrees_iff.2 (Sim.others_keep (agrees_iff.1 ha) hq' hu h)

/-! ## The whole system: any number of processes, each running `builder::run`, over one lock table -/

structure Sys where
  procs : Nat → St := fun _ => {}
  L : Locks.State := {}

/-- The kernel grants a lock only when it is free (the only assumption about the environment). -/
def kernelGrants (L : Locks.State) : RunLoop.Ev → Bool
  | .tryLock f true => (L.owner f).isNone
  | .waited f => (L.owner f).isNone
  | _ => true

inductive SysErr
  | notARun                       -- the process's control flow cannot emit this event here, or the kernel would not grant
  | guard (r : Locks.Reject)      -- a guard of the `Locks` acceptor rejects what the process did

def sysStep (c : Nat → Cfg) (σ : Sys) (pe : Nat × RunLoop.Ev) : Except SysErr Sys :=
  match RunLoop.step (c pe.1) (σ.procs pe.1) pe.2 with
  | .error _ => .error .notARun
  | .ok s' =>
    if kernelGrants σ.L pe.2 then
      match feed σ.L (toLocks pe.1 (σ.procs pe.1) pe.2) with
      | .ok L' => .ok { procs := fun q => if q = pe.1 then s' else σ.procs q, L := L' }
      | .error r => .error (.guard r)
    else .error .notARun

def sysRun (c : Nat → Cfg) (σ : Sys) : List (Nat × RunLoop.Ev) → Except SysErr Sys
  | [] => .ok σ
  | pe :: rest => match sysStep c σ pe with
    | .ok σ' => sysRun c σ' rest
    | .error e => .error e

/-- The invariant of the system: `C06.Inv` of the lock table, which agrees with every process. -/
private def SysInv (σ : Sys) : Prop := Inv σ.L ∧ ∀ p, Agrees p (σ.procs p) σ.L

private theorem sysStep_inv (c : Nat → Cfg) (σ : Sys) (pe : Nat × RunLoop.Ev) (hI : SysInv σ) :
    (∀ σ', sysStep c σ pe = .ok σ' → SysInv σ') ∧ ∀ r, sysStep c σ pe ≠ .error (.guard r) := by
  unfold sysStep
  cases hs : RunLoop.step (c pe.1) (σ.procs pe.1) pe.2 with
  | error _ => simp
  | ok s' =>
    cases hk : kernelGrants σ.L pe.2 with
    | false => simp
    | true =>
      have hk' : ∀ f, (pe.2 = .tryLock f true ∨ pe.2 = .waited f) → σ.L.owner f = none := by
        intro f hf
        rcases hf with hf | hf <;> rw [hf] at hk <;> simpa [kernelGrants] using hk
      obtain ⟨L', h1, h2, h3⟩ := Sim.sys_step hI.1 (fun q => agrees_iff.1 (hI.2 q)) hs hk'
      rw [← toLocks_eq, ← feed_eq] at h1
      simp only [h1, if_true]
      refine ⟨fun σ' h => ?_, fun r h => (by cases h)⟩
      cases h
      exact ⟨h2, fun q => agrees_iff.2 (h3 q)⟩

private theorem sysRun_inv (c : Nat → Cfg) (es : List (Nat × RunLoop.Ev)) (σ : Sys) (hI : SysInv σ) :
    (∀ σ', sysRun c σ es = .ok σ' → SysInv σ') ∧ ∀ r, sysRun c σ es ≠ .error (.guard r) := by
  induction es generalizing σ with
  | nil => exact ⟨fun σ' h => (by cases h; exact hI), fun r h => (by cases h)⟩
  | cons pe rest ih =>
    have hstep := sysStep_inv c σ pe hI
    simp only [sysRun]
    cases h1 : sysStep c σ pe with
    | ok σ1 => exact ih σ1 (hstep.1 σ1 h1)
    | error e =>
      refine ⟨fun σ' h => (by cases h), fun r h => ?_⟩
      cases h
      exact hstep.2 r h1

private theorem sysInv_init : SysInv {} := ⟨inv_init, fun p => agrees_init p⟩

/-- Whatever the processes do within the control flow of `builder::run`, in any interleaving, no guard of the lock/job
acceptor is ever violated: the local guards of `Locks` are theorems about the scheduler, not assumptions. -/
theorem system_respects_guards (c : Nat → Cfg) (es : List (Nat × RunLoop.Ev)) (r : Locks.Reject) :
    sysRun c {} es ≠ .error (.guard r) :=
  (sysRun_inv c es {} sysInv_init).2 r

/-- Hence, in every reachable state of the system no target has two executions under way, and an execution under way
runs under its target's lock, owned by the process that started it. -/
theorem system_exclusive (c : Nat → Cfg) (es : List (Nat × RunLoop.Ev)) (σ : Sys) (h : sysRun c {} es = .ok σ)
    (fid : Nat) : (Locks.active σ.L fid).length ≤ 1 ∧ ∀ e ∈ Locks.active σ.L fid, σ.L.owner fid = some e.pid := by
  have hI := (sysRun_inv c es {} sysInv_init).1 σ h
  exact ⟨Sim.inv_exclusive hI.1 fid, Sim.inv_active_owner hI.1 (hI.2 0).noDelegated fid⟩

/-- "The result of an execution is recorded before any other process may decide whether to build that target": whenever
a process of the system is about to decide about `f` (it has taken the lock and `BuildJob::start` is next, in the first
or in the second loop), it owns `f`'s lock and NO execution of `f` is under way anywhere — every execution of `f` that
was ever started has had its result recorded (an execution leaves `running` only through `recordEnd`). -/
theorem system_decides_under_lock (c : Nat → Cfg) (es : List (Nat × RunLoop.Ev)) (σ : Sys) (h : sysRun c {} es = .ok σ)
    (p f : Nat) (hp : (σ.procs p).pc = .l1own f ∨ (σ.procs p).pc = .l2own f) :
    σ.L.owner f = some p ∧ Locks.active σ.L f = [] := by
  have hI := (sysRun_inv c es {} sysInv_init).1 σ h
  have hA := hI.2 p
  have hheld : f ∈ (σ.procs p).held := by
    rw [hA.heldPc]
    rcases hp with hp | hp <;> simp [hp, heldAtPc]
  refine ⟨hA.heldOwned f hheld, ?_⟩
  rw [Locks.active, List.filter_eq_nil_iff]
  intro e he hef
  have hfid : e.fid = f := by simpa using hef
  have hown := hI.1.own e he (hA.noDelegated e he)
  rw [Locks.ownerOf, hfid, hA.heldOwned f hheld] at hown
  have hpid : e.pid = p := by cases hown; rfl
  have := hA.runningJobs e he hpid
  rw [hfid] at this
  exact hA.disjoint f hheld this

/-- Non-vacuity: two processes contend for target 5; the second queues it, waits, and finds it done. -/
example : (match sysRun (fun _ => {}) {}
    [(1, .tok), (1, .chk false), (1, .target 5), (1, .tryLock 5 true), (1, .begin 5), (1, .forked 5),
     (2, .tok), (2, .chk false), (2, .target 5), (2, .tryLock 5 false),
     (2, .waitAll), (2, .chk false), (2, .tok), (2, .tryLock 5 false), (2, .releaseMine),
     (1, .jobEnd 5 false), (2, .waited 5), (2, .unlock 5), (2, .tok), (2, .tryLock 5 true), (2, .begin 5),
     (2, .immediate 5 false), (2, .fin true), (1, .fin true)] with
    | .ok σ => σ.L.recorded == [(5, 1)] && σ.L.running.isEmpty
    | .error _ => false) = true := by decide

/-- … and the kernel assumption is what excludes the overlap: process 2 cannot take the lock while 1 runs the job. -/
example : (match sysRun (fun _ => {}) {}
    [(1, .tok), (1, .chk false), (1, .target 5), (1, .tryLock 5 true), (1, .begin 5), (1, .forked 5),
     (2, .tok), (2, .chk false), (2, .target 5), (2, .tryLock 5 true)] with
    | .error .notARun => true
    | _ => false) = true := by decide

end C06
