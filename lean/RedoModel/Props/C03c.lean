import RedoModel.Lemmas.DepsSoundS42
/-!
# C03, continued — the cut-off never leaves anything stale (history level)
Property theorem only.  The job-level facts of `C03b` say *what* a rebuild with an unchanged or changed checksum
records; this says that, whatever the history, not rebuilding the dependents of a target whose checksum stayed the
same is right: every target named by an exit-0 command is up to date (`C01.no_stale_full_stamp_partial`, restated
here because it is the "forwards change exactly" half of C03 over all histories of the class).
-/
namespace C03
open RedoModel.Deps

theorem cutoff_never_stale_partial (n : Nat) (rules : Nat → List Nat) (rank : Nat → Nat) (ops : List UserOp)
    (ts : List Nat) (kg forced : Bool) (hr : RulesOk rules) (hp : ∀ op ∈ ops, PlainOpS rules op)
    (hrk : ∀ w ∈ worldsOf n {} (initWorld rules) ops, Ranked rank w) (hN : ∀ f, rank f < n)
    (hok : OpsOk n (initWorld rules) ops) (hk : RedoKOk n (initWorld rules) ops) :
    let w := ops.foldl (fun w op => (applyOp {} n op w).2) (initWorld rules)
    let r := runCmd {} n (if forced then .redo ts kg else .ifchange ts kg) w
    r.1.status = 0 → ∀ t ∈ ts, UpToDateD r.2 t :=
  noStaleStamp_partial n rules rank ops ts kg forced hr hp hrk hN hok hk

/-- The cut-off at work on a concrete history (see `C01.stamp_cutoff_example_trace`): the checksummed middle target is
rebuilt out of band, its checksum is unchanged, the top target is not rebuilt. -/
theorem cutoff_example : S.sResA.1.status = 0 ∧ S.sResA.2.trace = [.ran 3, .ran 3, .ran 4] :=
  ⟨S.sA_status, S.sA_trace⟩

end C03
