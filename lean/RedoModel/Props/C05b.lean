import RedoModel.Lemmas.DepsFail7
/-!
# C05 (whole engine) — failures propagate to the top, are recorded, are not run twice, are retried next run;
`--keep-going` reaches every target, without it nothing is started after the first failure

Property theorems only; proofs are in `RedoModel/Lemmas/DepsFail*.lean`.  Model: `RedoModel/Deps.lean`.
`FailedNow R w t` : the record of `t` says "failed in run `R`".
`NoNewFail R w w'` : every target failed-in-`R` in `w'` already was in `w`.
-/
namespace C05
open RedoModel.Deps RedoModel.Generated

/-! ### 1. Propagation -/

/-- 1(a) A job that ends with `done 0` recorded no failure (for any engine whose nested commands have the
property; `engine_success_no_failure` discharges it for the real engine). -/
theorem job_zero_not_failed (E : Engine) (hE : EngNNF E) (d : Defects) (cx : Ctx) (fuel t : Nat) (w w' : World)
    (he : buildJob E d cx fuel t w = (.done 0, w')) : NoNewFail cx.runid w w' :=
  buildJob_nnf E hE d cx rfl fuel t w w' he

/-- 1(b) A nested or top-level `redo-ifchange` of the real engine that returns 0 recorded no failure at any
depth, and none of its targets is failed-in-this-run afterwards. -/
theorem command_zero_none_failed (d : Defects) (n : Nat) (cx : Ctx) (ts : List Nat) (w w' : World)
    (hr : cx.isRedo = false) (he : (engine d n).ifchangeCmd cx ts w = (0, w')) :
    NoNewFail cx.runid w w' ∧ ∀ t ∈ ts, ¬ FailedNow cx.runid w' t :=
  engine_zero_targets d n cx ts w w' hr he

theorem engine_success_no_failure (d : Defects) (n : Nat) : EngNNF (engine d n) := engine_nnf d n

/-- 1 **`success_means_no_failure`**: a top-level `redo-ifchange` or `redo` that exits 0, from any well-formed
world, leaves *no* target recorded as failed in this run. -/
theorem success_means_no_failure (d : Defects) (nf : Nat) (ts : List Nat) (kg : Bool) (w : World) (hwf : WF w) :
    ((runCmd d nf (.ifchange ts kg) w).1.status = 0 →
      ∀ t, ¬ FailedNow (w.runCounter + 1) (runCmd d nf (.ifchange ts kg) w).2 t) ∧
    ((runCmd d nf (.redo ts kg) w).1.status = 0 →
      ∀ t, ¬ FailedNow (w.runCounter + 1) (runCmd d nf (.redo ts kg) w).2 t) :=
  runCmd_zero_none_failed d nf ts kg w hwf

/-- 1(c), the steps (each level, for an arbitrary engine `E`): nested command → command sequence (`sh -e`). -/
theorem step_command_to_script (E : Engine) (d : Defects) (cx : Ctx) (t : Nat) (sc : Script) (w : World)
    (h : (runScript.cmds E cx t (scriptCtx cx t) sc.ifchange 0
      (runScript.conds E t (scriptCtx cx t) sc.cond
        (sc.ifcreate.foldl (fun w f => addDep w t f false) (rsAlways cx t sc w))).2).1 ≠ 0) :
    (runScript E d cx t sc w).1 ≠ 0 :=
  runScript_nonzero' E d cx t sc w h

/-- … script → `start_self`. -/
theorem step_script_to_startSelf (E : Engine) (d : Defects) (cx : Ctx) (t : Nat) (sf : Rec) (w : World) (dof : Nat) (w1 : World)
    (hf : findDoFile t ((zapDeps1 w t).rules t) (zapDeps1 w t) = (some dof, w1))
    (hs : (runScript E d cx t (doScript (ssPre cx t dof w1) dof) (ssPre cx t dof w1)).1 ≠ 0) :
    (ssBuild E d cx t sf w).1 ≠ 0 :=
  ssBuild_nonzero E d cx t sf w dof w1 hf hs

/-- … `start_self` → job. -/
theorem step_startSelf_to_job (E : Engine) (d : Defects) (cx : Ctx) (fuel t : Nat) (w w1 : World) (dr : DR)
    (hs : shouldBuild cx fuel t w = (some dr, w1)) (ho : OwnStart cx dr) :
    buildJob E d cx fuel t w = (.done (startSelf E d cx t (w.recs t) w1).1, (startSelf E d cx t (w.recs t) w1).2) :=
  buildJob_ownStart E d cx fuel t w w1 dr hs ho

/-- … job → target loop. -/
theorem step_job_to_loop (E : Engine) (d : Defects) (cx : Ctx) (fuel t : Nat) (ts seen : List Nat) (e : Bool)
    (w : World) (hs : t ∉ seen) (hj : ∀ rv w1, buildJob E d cx fuel t (addKnown w t) = (.done rv, w1) → rv ≠ 0) :
    (runTargets E d cx fuel (t :: ts) seen e w).1 ≠ 0 :=
  runTargets_head_nonzero E d cx fuel t ts seen e w hs hj

/-- … target loop → nested command. -/
theorem step_loop_to_command (E : Engine) (d : Defects) (fuel : Nat) (cx : Ctx) (ts : List Nat) (w : World)
    (p : Nat) (hp : cx.parent = some p) (hu : cx.unlocked = false)
    (h : ∀ w', Desc w w' → (runTargets E d cx fuel ts [] false w').1 ≠ 0) :
    (ifchangeWith E d fuel cx ts w).1 ≠ 0 :=
  ifchangeWith_script_nonzero E d fuel cx ts w p hp hu h

/-- 1(c) **`failure_reaches_top`**: a chain `ch 0 → … → ch k` of targets that must run, each script starting by
asking for the next, the .do of `ch k` exiting non-zero: every level fails, up to the exit status of the
top-level command, with and without `--keep-going`, for `redo-ifchange` and `redo`. -/
theorem failure_reaches_top (d : Defects) (nf : Nat) (w : World) (ch : Nat → Nat) (k : Nat) (hC : FailChain w ch k)
    (hk : k ≤ 2 * nf + 4) (rest : List Nat) (kg : Bool) :
    (runCmd d nf (.ifchange (ch 0 :: rest) kg) w).1.status ≠ 0 ∧
    (runCmd d nf (.redo (ch 0 :: rest) kg) w).1.status ≠ 0 :=
  failChain_runCmd d nf w ch k hC hk rest kg

/-- … and every intermediate level (`i + m = k`, engine depth `n ≥ m`, any context). -/
theorem failure_reaches_every_level (d : Defects) (w0 : World) (ch : Nat → Nat) (k : Nat) (hC : FailChain w0 ch k)
    (m i : Nat) (him : i + m = k) (n fuel : Nat) (cx : Ctx) (rest : List Nat) (w : World)
    (hn : m ≤ n) (hfuel : 0 < fuel) (hw : Desc w0 w) :
    (runTargets (engine d n) d cx fuel (ch i :: rest) [] false w).1 ≠ 0 :=
  failChain_runTargets d w0 ch k hC m i him n fuel cx rest w hn hfuel hw

/-! ### 2. No dependent of a failed target is recorded as up to date -/

/-- **`failed_not_recorded_clean`**, part 1: the job of `p` ran its own `start_self` (verdict `dirty`, or `need`
in the second phase of `redo-unlocked`) and ended non-zero — its .do exited non-zero or, `sh -e`, a nested
`redo-ifchange` of it did (a dependency failed): `p` is recorded as failed in this run, not as up to date. -/
theorem failed_not_recorded_clean (E : Engine) (d : Defects) (cx : Ctx) (fuel p : Nat) (w w1 w' : World) (dr : DR)
    (rv : Status) (hs : shouldBuild cx fuel p w = (some dr, w1)) (ho : OwnStart cx dr)
    (hb : buildJob E d cx fuel p w = (.done rv, w')) (h0 : rv ≠ 0) (hc : rv ≠ CRASHED) (hR : 0 < cx.runid) :
    (w'.recs p).failed = some cx.runid ∧ FailedNow cx.runid w' p :=
  ⟨buildJob_failed E d cx fuel p w w1 w' dr rv hs ho hb h0 hc,
   failedNow_of_eq (buildJob_failed E d cx fuel p w w1 w' dr rv hs ho hb h0 hc) hR⟩

/-- … part 2: hence dirty for every later check (any run id, any bound, `redo-ifchange` or `redo-ood`) while the
record stands. -/
theorem failed_then_dirty (ood : Bool) (R' n : Nat) (w : World) (c : List Nat) (p mx : Nat) (seen : List Nat) (R : Nat)
    (hf : (w.recs p).failed = some R) (hs : p ∉ seen) :
    isDirty ood R' (n + 1) w c p mx seen none = (.dirty, w, c) :=
  failed_dirty_later ood R' n w c p mx seen R hf hs

/-! ### 3. Not executed a second time in the same run -/

/-- **`not_run_twice_after_failure`**: any further `redo-ifchange t` in the run in which `t` failed returns
non-zero (1; 208 if `t` is an ancestor) and executes nothing: the trace is unchanged. -/
theorem not_run_twice_after_failure (d : Defects) (n : Nat) (cx : Ctx) (t : Nat) (w : World)
    (hd : d.failedTargetAbortsRun = false) (hr : cx.isRedo = false) (hf : FailedNow cx.runid w t) :
    ((engine d n).ifchangeCmd cx [t] w).1 ≠ 0 ∧ ((engine d n).ifchangeCmd cx [t] w).2.trace = w.trace ∧
    ∀ x, ¬ RanIn x w ((engine d n).ifchangeCmd cx [t] w).2 :=
  ⟨(engine_failed_single d n cx t w hd hr hf).1, (engine_failed_single d n cx t w hd hr hf).2,
   engine_failed_single_noRan d n cx t w hd hr hf⟩

/-- … for an arbitrary engine, with the exact statuses. -/
theorem not_run_twice_status (E : Engine) (d : Defects) (fuel : Nat) (cx : Ctx) (t : Nat) (w : World)
    (hd : d.failedTargetAbortsRun = false) (hr : cx.isRedo = false) (hf : FailedNow cx.runid w t) :
    ((ifchangeWith E d fuel cx [t] w).1 = 1 ∨ (ifchangeWith E d fuel cx [t] w).1 = 208) ∧
    (ifchangeWith E d fuel cx [t] w).2.trace = w.trace :=
  ifchangeWith_failed_single E d fuel cx t w hd hr hf

/-! ### 4. Executed again by the next run -/

/-- **`retried_next_run`**: `t` failed in an earlier run and has no file (what a failed first build leaves);
nothing else changed.  The next top-level `redo-ifchange t` executes t's .do again. -/
theorem retried_next_run (d : Defects) (n : Nat) (kg : Bool) (w : World) (t R0 : Nat)
    (hf : (w.recs t).failed = some R0) (hle : R0 ≤ w.runCounter) (hm : w.fs t = none)
    (hdo : ∃ c ∈ w.rules t, existsF w c = true) :
    RanIn t w (runCmd d n (.ifchange [t] kg) w).2 :=
  runCmd_retries d n kg w t R0 hf hle hm hdo

/-! ### 5. / 6. `--keep-going` or not -/

/-- **`keep_going_builds_the_rest`**: with `--keep-going`, whatever happened to the targets before `t`, either
the run was aborted inside them (208: an ancestor was requested; or the process tree was killed), or the loop
evaluates the job of `t` in the world they left. -/
theorem keep_going_builds_the_rest (E : Engine) (d : Defects) (cx : Ctx) (fuel t : Nat) (ts₁ ts₂ seen : List Nat)
    (e : Bool) (w : World) (hk : cx.keepGoing = true) (hd : d.failedTargetAbortsRun = false)
    (ht : t ∉ ts₁) (hts : t ∉ seen) :
    (((runTargets E d cx fuel ts₁ seen e w).1 = EXIT_CYCLIC_DEPENDENCY ∨ (runTargets E d cx fuel ts₁ seen e w).1 = CRASHED) ∧
      runTargets E d cx fuel (ts₁ ++ t :: ts₂) seen e w = runTargets E d cx fuel ts₁ seen e w) ∨
    ∃ (seen' : List Nat) (e' : Bool), t ∉ seen' ∧
      runTargets E d cx fuel (ts₁ ++ t :: ts₂) seen e w =
        (let w₁ := (runTargets E d cx fuel ts₁ seen e w).2
         if !cx.unlocked && t ∈ cx.cycles then (EXIT_CYCLIC_DEPENDENCY, addKnown w₁ t) else
         match buildJob E d cx fuel t (addKnown w₁ t) with
         | (.abort code, w2) => (code, w2)
         | (.done rv, w2) =>
           if rv = CRASHED then (CRASHED, w2)
           else runTargets E d cx fuel ts₂ (t :: seen') (e' || rv ≠ 0) w2) :=
  runTargets_keep_going_reaches E d cx fuel t ts₁ ts₂ seen e w hk hd ht hts

/-- **`stop_after_first_failure`**: without `--keep-going`, the targets before `t` were fine and the job of `t`
is not `done 0`: the command ends non-zero in the very world the job of `t` left — no later target is
registered, checked or run. -/
theorem stop_after_first_failure (E : Engine) (d : Defects) (cx : Ctx) (fuel t : Nat) (ts₁ ts₂ seen : List Nat)
    (w w₁ w₂ : World) (jr : JobResult) (hk : cx.keepGoing = false)
    (hp : runTargets E d cx fuel ts₁ seen false w = (0, w₁)) (ht : t ∉ ts₁) (hts : t ∉ seen)
    (hcy : (!cx.unlocked && decide (t ∈ cx.cycles)) = false)
    (hb : buildJob E d cx fuel t (addKnown w₁ t) = (jr, w₂)) (hne : jr ≠ .done 0) :
    (runTargets E d cx fuel (ts₁ ++ t :: ts₂) seen false w).1 ≠ 0 ∧
    (runTargets E d cx fuel (ts₁ ++ t :: ts₂) seen false w).2 = w₂ :=
  runTargets_first_failure E d cx fuel t ts₁ ts₂ seen w w₁ w₂ jr hk hp ht hts hcy hb hne

/-- The loop, prefix by prefix (the lemma behind 5 and 6). -/
theorem loop_prefix (E : Engine) (d : Defects) (cx : Ctx) (fuel : Nat) (ts₁ seen : List Nat) (e : Bool) (w : World) :
    Completed E d cx fuel ts₁ seen e w ∨
      (Stopped d cx (runTargets E d cx fuel ts₁ seen e w).1 ∧
        ∀ ts₂, runTargets E d cx fuel (ts₁ ++ ts₂) seen e w = runTargets E d cx fuel ts₁ seen e w) :=
  runTargets_append E d cx fuel ts₁ seen e w

/-! ### Non-vacuity: `bad.do` exits 5; `x.do` runs `redo-ifchange bad`; `good.do` succeeds

Files: 1 = bad, 2 = bad.do, 3 = x, 4 = x.do, 5 = good, 6 = good.do. -/
namespace Ex

def rules : Nat → List Nat := fun t => if t = 1 then [2] else if t = 3 then [4] else if t = 5 then [6] else []

def setup : List UserOp :=
  [.setProg (srcContent 1) { exit := 5 }, .write 2 1,
   .setProg (srcContent 2) { ifchange := [[1]] }, .write 4 2,
   .setProg (srcContent 3) {}, .write 6 3]

/-- The world before the first run. -/
def wS : World := setup.foldl (fun w op => (applyOp {} 7 op w).2) (initWorld rules)

theorem wS_wf : WF wS := WF_reachable {} 7 rules setup

/-- `redo-ifchange -k x bad good` and `redo-ifchange x bad good`. -/
def rK := runCmd {} 7 (.ifchange [3, 1, 5] true) wS
def rN := runCmd {} 7 (.ifchange [3, 1, 5] false) wS

-- #eval (rK.1.status, rK.2.trace)  -- (1, [ran 5, ran 1, ran 3])
-- #eval (rN.1.status, rN.2.trace)  -- (1, [ran 1, ran 3])
example : rK.1.status = 1 ∧ rK.2.trace = [.ran 5, .ran 1, .ran 3] := by decide +kernel
example : rN.1.status = 1 ∧ rN.2.trace = [.ran 1, .ran 3] := by decide +kernel
/-- `bad` and its dependent `x` are recorded failed in run 1, `good` is not; without `-k` `good` was never even
registered (row 0), with `-k` it was built. -/
example : (rK.2.recs 1).failed = some 1 ∧ (rK.2.recs 3).failed = some 1 ∧ (rK.2.recs 5).failed = none ∧
    (rK.2.recs 5).row = 6 ∧ (rN.2.recs 5).row = 0 := by decide +kernel

/-- `success_means_no_failure` on a successful command (`redo-ifchange good`). -/
example : ∀ t, ¬ FailedNow (wS.runCounter + 1) (runCmd {} 7 (.ifchange [5] false) wS).2 t :=
  (success_means_no_failure {} 7 [5] false wS wS_wf).1 (by decide +kernel)

/-- … and its contrapositive use: the `-k` command left `bad` failed-in-run, so it cannot have exited 0. -/
example : rK.1.status ≠ 0 := fun h =>
  (success_means_no_failure {} 7 [3, 1, 5] true wS wS_wf).1 h 1 (by decide +kernel)

def ch : Nat → Nat := fun i => if i = 0 then 3 else 1

theorem chain : FailChain wS ch 1 where
  forced := by
    intro i hi
    obtain rfl : i = 0 := by omega
    exact ⟨by decide, by decide +kernel, Or.inr (by decide +kernel),
      4, { content := srcContent 2, ms := 2, rest := 0 }, { ifchange := [[1]] }, [], [],
      by decide +kernel, by decide +kernel, by decide +kernel, by decide, rfl⟩
  bottom := ⟨by decide, by decide +kernel, Or.inr (by decide +kernel),
      2, { content := srcContent 1, ms := 1, rest := 0 }, { exit := 5 },
      by decide +kernel, by decide +kernel, by decide +kernel, by decide⟩

/-- `failure_reaches_top`: `redo-ifchange [-k] x …` and `redo [-k] x …` fail, whatever else they name. -/
example (rest : List Nat) (kg : Bool) : (runCmd {} 7 (.ifchange (3 :: rest) kg) wS).1.status ≠ 0 :=
  (failure_reaches_top {} 7 wS ch 1 chain (by omega) rest kg).1

/-- The context of run 1 (with `-k`) and of run 2. -/
def cx1 : Ctx := { runid := 1, keepGoing := true }
def cx2 : Ctx := { runid := 2 }
def E18 : Engine := engine {} 18

/-- `not_run_twice_after_failure`: a further `redo-ifchange bad` in run 1 (after the `-k` command) fails and
executes nothing. -/
example : (E18.ifchangeCmd cx1 [1] rK.2).1 ≠ 0 ∧ (E18.ifchangeCmd cx1 [1] rK.2).2.trace = rK.2.trace ∧
    ∀ x, ¬ RanIn x rK.2 (E18.ifchangeCmd cx1 [1] rK.2).2 :=
  not_run_twice_after_failure {} 18 cx1 1 rK.2 rfl rfl (by decide +kernel)

/-- `retried_next_run`: run 2, `redo-ifchange bad`, nothing changed: bad.do is executed again. -/
example : RanIn 1 rN.2 (runCmd {} 7 (.ifchange [1] false) rN.2).2 :=
  retried_next_run {} 7 false rN.2 1 1 (by decide +kernel) (by decide +kernel) (by decide +kernel)
    ⟨2, by decide +kernel, by decide +kernel⟩
example : (runCmd {} 7 (.ifchange [1] false) rN.2).2.trace = [.ran 1, .ran 1, .ran 3] := by decide +kernel

/-- `failed_not_recorded_clean`: the job of `bad` in run 2 (found dirty because of the recorded failure) fails
again and is recorded failed in run 2; `failed_then_dirty` applies to the result. -/
example : FailedNow 2 (startSelf E18 {} cx2 1 (rN.2.recs 1) rN.2).2 1 :=
  (failed_not_recorded_clean E18 {} cx2 18 1 rN.2 rN.2 _ .dirty _
    (shouldBuild_failed_earlier cx2 17 1 rN.2 1 rfl (by decide +kernel) (by decide)) (Or.inl rfl)
    (buildJob_ownStart E18 {} cx2 18 1 rN.2 rN.2 .dirty
      (shouldBuild_failed_earlier cx2 17 1 rN.2 1 rfl (by decide +kernel) (by decide)) (Or.inl rfl))
    (by decide +kernel) (by decide +kernel) (by decide)).2

example (ood : Bool) (R' n mx : Nat) (c : List Nat) :
    isDirty ood R' (n + 1) rN.2 c 3 mx [] none = (.dirty, rN.2, c) :=
  failed_then_dirty ood R' n rN.2 c 3 mx [] 1 (by decide +kernel) (by simp)

/-- `keep_going_builds_the_rest`: `good` after the failing `x` and `bad`. -/
example := keep_going_builds_the_rest E18 {} cx1 18 5 [3, 1] [] [] false (nextRun wS) rfl rfl (by decide) (by simp)

/-- `stop_after_first_failure`: `redo-ifchange bad good` without `-k`: the result is the world bad's job left. -/
example : (runTargets E18 {} { runid := 1 } 18 ([] ++ 1 :: [5]) [] false (nextRun wS)).2 =
    (buildJob E18 {} { runid := 1 } 18 1 (addKnown (nextRun wS) 1)).2 := by
  have hF : Failing (addKnown (nextRun wS) 1) 1 :=
    chain.bottom.mono ((show Desc wS (nextRun wS) from ⟨rfl, rfl, rfl, fun _ _ _ => ⟨rfl, rfl⟩⟩).trans
      (Desc.addKnown (nextRun wS) 1))
  generalize hb : buildJob E18 {} { runid := 1 } 18 1 (addKnown (nextRun wS) 1) = r
  obtain ⟨jr, w₂⟩ := r
  have hne : jr ≠ .done 0 := fun h =>
    buildJob_failing E18 {} { runid := 1 } 18 1 _ hF (by decide) 0 w₂ (by rw [hb, h]) rfl
  exact (stop_after_first_failure E18 {} { runid := 1 } 18 1 [] [5] [] (nextRun wS) (nextRun wS) w₂ jr rfl
    (by rw [runTargets]; rfl) (by simp) (by simp) rfl hb hne).2

/-- `command_zero_none_failed` on the nested-style command `redo-ifchange good` of run 1. -/
example : ∀ t ∈ [5], ¬ FailedNow 1 (E18.ifchangeCmd { runid := 1 } [5] (nextRun wS)).2 t :=
  (command_zero_none_failed {} 18 { runid := 1 } [5] (nextRun wS) _ rfl
    (Prod.ext (by decide +kernel : (E18.ifchangeCmd { runid := 1 } [5] (nextRun wS)).1 = 0) rfl)).2

end Ex

#print axioms success_means_no_failure
#print axioms command_zero_none_failed
#print axioms job_zero_not_failed
#print axioms failure_reaches_top
#print axioms failure_reaches_every_level
#print axioms failed_not_recorded_clean
#print axioms failed_then_dirty
#print axioms not_run_twice_after_failure
#print axioms not_run_twice_status
#print axioms retried_next_run
#print axioms keep_going_builds_the_rest
#print axioms stop_after_first_failure
#print axioms loop_prefix
#print axioms Ex.chain

end C05
