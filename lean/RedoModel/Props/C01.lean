import RedoModel.Core.Main
import RedoModel.Lemmas.Deps
/-!
# C01 — No stale target after a successful redo-ifchange
Property theorems only.

Two models are involved.  `RedoModel/Deps.lean` is the full executable model of the serial engine
(dynamic .do selection, checksums, always, ifcreate, overrides, out-of-band rebuilds); it is the one
the correspondence check runs against the real binaries on every history.  `RedoModel/Core/*` is its
plain-target core (static ranked graph, failures, removals), for which the soundness invariant is
proven completely.  The full statement over the full model is kept visible as `no_stale_full`
(a proposition, not yet a theorem); `no_stale_plain_partial` is the proven stage.
-/
namespace C01
open RedoModel.Deps

/-- "Has the content a from-scratch build would produce", for the full model: a file redo does not
own stands for itself; a target's content is its chosen script applied to the up-to-date contents of
what it reads. -/
inductive UpToDate (w : World) : Nat → Prop
  | source {f} : (∀ c ∈ w.rules f, existsF w c = false) → UpToDate w f
  | user {f} : (w.recs f).isGenerated = false → existsF w f = true → UpToDate w f
  | target {t dof sc n} :
      (findDoFile t (w.rules t) w).1 = some dof → w.fs dof = some n → w.progs n.content = some sc →
      (∀ c ∈ sc.ifchange, ∀ d ∈ c, UpToDate w d) →
      (w.fs t).map (·.content) =
        (if sc.outMode = 2 then none else some (outContent sc.tag (sc.reads.map (fun f => (w.fs f).map (·.content))))) →
      UpToDate w t

/-- The full statement of C01 for the full model, with the out-of-band defect repaired. -/
def no_stale_full : Prop :=
  ∀ (n : Nat) (rules : Nat → List Nat) (ops : List UserOp) (ts : List Nat) (kg : Bool),
    let w := (ops.foldl (fun w op => (applyOp {} n op w).2) (initWorld rules))
    let r := runCmd {} n (.ifchange ts kg) w
    r.1.status = 0 → ∀ t ∈ ts, UpToDate r.2 t

/-- Proven stage (plain targets over a static ranked graph, with failures, removals and forced
rebuilds): a successful `redo-ifchange t` leaves `t` up to date — recursively, everything it
depends on holds what its script produces from up-to-date inputs — and re-establishes the
invariant, so this holds again after any further commands. -/
theorem no_stale_plain_partial {g : P.Graph} {R : Nat} (hg : P.Ordered g) (hR : 0 < R) {k n t : Nat} {w w' : P.World}
    (htk : t < k) (hi : P.Inv g R w) (he : P.build g R k n w t = (true, w')) :
    P.UpToDate g w'.fs t ∧ P.Inv g R w' :=
  P.build_sound hg hR htk hi he

/-- Failed or partial builds keep the invariant too (so "after any history of earlier partial or
failed builds"). -/
theorem invariant_survives_any_build {g : P.Graph} {R : Nat} (hg : P.Ordered g) (hR : 0 < R) {k n t : Nat}
    {w w' : P.World} {ok : Bool} (htk : t < k) (hi : P.Inv g R w) (he : P.build g R k n w t = (ok, w')) :
    P.Inv g R w' :=
  (P.build_spec hg hR k n t htk w ok w' hi he).1

/-- Starting a new run keeps the invariant. -/
theorem invariant_survives_new_run {g : P.Graph} {R : Nat} {w : P.World} (hi : P.Inv g R w) : P.Inv g (R + 1) w :=
  P.Inv.nextRun hi

/-- In the full model the dirtiness check itself never changes file contents (so whatever is
up to date stays so while checking). -/
theorem check_preserves_files (R fuel : Nat) (w : World) (c : List Nat) (f mx : Nat) (seen : List Nat) :
    (isDirty false R fuel w c f mx seen none).2.1.fs = w.fs :=
  (isDirty_frame false R fuel w c f mx seen none).1

end C01
