import RedoModel.Core.Main
import RedoModel.Core.History
import RedoModel.Lemmas.Deps
import RedoModel.Lemmas.DepsSoundSpec
import RedoModel.Lemmas.DepsSound41
import RedoModel.Props.C01b
import RedoModel.Props.C01c
/-!
# C01 — No stale target after a successful redo-ifchange
Property theorems only.

Two models are involved.  `RedoModel/Deps.lean` is the full executable model of the serial engine
(dynamic .do selection, checksums, always, ifcreate, overrides, out-of-band rebuilds); it is the one
the correspondence check runs against the real binaries on every history.  `RedoModel/Core/*` is its
plain-target core (static ranked graph, failures, removals), for which C01 is proven completely and
over all histories (`no_stale_plain_history`); the core is itself run against the real binaries
and against the full model on plain histories by the same check (tools/core_check.py, verb
`core-run`).  For the full model C01 is proven for all *plain* histories (`no_stale_full_plain`: dynamic .do choice
with `c`/`m` rows, edits of .do files, failures, removals, forced rebuilds, queries; not yet: checksums,
always, ifcreate, hand-edited targets, kills); the statement for every history is kept visible as
`no_stale_full` (a proposition, not yet a theorem).
-/
namespace C01
open RedoModel.Deps

/-- The full statement of C01 for the full model, with the out-of-band defect repaired. -/
/- `UpToDate` ("has the content a from-scratch build would produce") for the full model is defined in
`Lemmas/DepsSoundSpec.lean`, together with the plain-history stage `NoStalePlain`. -/

def no_stale_full : Prop :=
  ∀ (n : Nat) (rules : Nat → List Nat) (ops : List UserOp) (ts : List Nat) (kg : Bool),
    let w := (ops.foldl (fun w op => (applyOp {} n op w).2) (initWorld rules))
    let r := runCmd {} n (.ifchange ts kg) w
    r.1.status = 0 → ∀ t ∈ ts, UpToDate r.2 t

/-- **C01 for the plain-target core, over all histories.**  Start from an empty project; let the
user create/edit sources and remove any file (source or target) between commands, and let any
number of `redo-ifchange` commands run, failing or not.  Whenever a `redo-ifchange ts` then exits 0,
every target named is up to date: recursively, it and everything it depends on holds exactly what
its script produces from up-to-date inputs.  No bound on the graph, the history or the depth;
hypotheses: one strict rank on files (`Ordered`, i.e. no cycles — C12's subject), the user edits
sources only (hand edits of targets are C11's), ids below the fuel bound `k`. -/
theorem no_stale_plain_history {g : P.Graph} (hg : P.Ordered g) (k n : Nat) (ops : List P.Op)
    (hwf : ∀ op ∈ ops, op.WF g k) (ts : List Nat) (hts : ∀ t ∈ ts, t < k) :
    let s := P.run g k n P.init ops
    (P.step g k n s (.build ts)).2 = some true →
      ∀ t ∈ ts, P.UpToDate g (P.step g k n s (.build ts)).1.w.fs t :=
  P.no_stale_history hg k n ops hwf ts hts

/-- The soundness invariant holds (for the coming run) in every reachable state of every history. -/
theorem invariant_reachable {g : P.Graph} (hg : P.Ordered g) (k n : Nat) (ops : List P.Op)
    (hwf : ∀ op ∈ ops, op.WF g k) :
    P.Inv g ((P.run g k n P.init ops).R + 1) (P.run g k n P.init ops).w :=
  P.inv_reachable_next hg k n ops hwf

/-! ### C01 on the full engine model, for plain histories -/

/-- **C01 for the full engine model (`RedoModel/Deps.lean`), over all plain histories.**  Start from an empty
project with any table of .do candidates (specific and default rules, any priorities); between commands the user
may create/edit/remove/chmod sources and .do files, remove target files, give meaning to .do contents (plain
scripts: any number of `redo-ifchange` commands, output a function of what they declared, any exit status), and run
`redo`, `redo-ifchange` (with or without `-k`), `redo-ood`, `redo-targets`, `redo-sources` in any order, failing or
not.  Whenever a `redo-ifchange ts` or `redo ts` then exits 0, every target named is up to date: it and,
recursively, everything its chosen script declares hold exactly what the scripts in place produce from up-to-date
inputs (`UpToDateD`: the script of a .do file is what the engine runs for its content).  Hypotheses: the scripts
in place respect one strict rank at every point of the history (no cycles: C12), ids are below `n`, and the
harness-level `OpsOk`: a `setProg` never redefines the meaning of a .do content that is currently in place (that
would change a script without changing any file — see the kernel-checked counterexample `cx2_notUpToDate`). -/
theorem no_stale_full_plain (n : Nat) (rules : Nat → List Nat) (rank : Nat → Nat) (ops : List UserOp) (ts : List Nat)
    (kg forced : Bool) (hr : RulesOk rules) (hp : ∀ op ∈ ops, PlainOp rules op)
    (hrk : ∀ w ∈ worldsOf n {} (initWorld rules) ops, Ranked rank w) (hN : ∀ f, rank f < n)
    (hok : OpsOk n (initWorld rules) ops) :
    let w := ops.foldl (fun w op => (applyOp {} n op w).2) (initWorld rules)
    let r := runCmd {} n (if forced then .redo ts kg else .ifchange ts kg) w
    r.1.status = 0 → ∀ t ∈ ts, UpToDateD r.2 t :=
  noStalePlainD n rules rank ops ts kg forced hr hp hrk hN hok

/-- The same with the original `UpToDate` of `DepsSoundSpec` (which requires every .do content in place to have a
declared meaning): `NoStalePlain` with the two hypotheses its counterexamples force (`OpsOk`, `Meaningful`). -/
theorem no_stale_full_plain' (n : Nat) (rules : Nat → List Nat) (rank : Nat → Nat) (ops : List UserOp) (ts : List Nat)
    (kg forced : Bool) (hr : RulesOk rules) (hp : ∀ op ∈ ops, PlainOp rules op)
    (hrk : ∀ w ∈ worldsOf n {} (initWorld rules) ops, Ranked rank w) (hN : ∀ f, rank f < n)
    (hok : OpsOk n (initWorld rules) ops) :
    let w := ops.foldl (fun w op => (applyOp {} n op w).2) (initWorld rules)
    let r := runCmd {} n (if forced then .redo ts kg else .ifchange ts kg) w
    r.1.status = 0 → Meaningful r.2 → ∀ t ∈ ts, UpToDate r.2 t :=
  noStalePlain_partial n rules rank ops ts kg forced hr hp hrk hN hok

/-- `NoStalePlain` exactly as first stated is false (a .do content without a declared meaning runs the default
script; a `setProg` can change a script without touching a file): kept as a theorem so that the added hypotheses
are seen to be necessary. -/
theorem noStalePlain_as_first_stated_is_false : ¬ NoStalePlain := not_noStalePlain

/-- Proven stage (plain targets over a static ranked graph, with failures, removals and forced
rebuilds): a successful `redo-ifchange t` leaves `t` up to date — recursively, everything it
depends on holds what its script produces from up-to-date inputs — and re-establishes the
invariant, so this holds again after any further commands. -/
theorem no_stale_plain_partial {g : P.Graph} {R : Nat} (hg : P.Ordered g) (hR : 0 < R) {k n t : Nat} {w w' : P.World}
    (htk : t < k) (hi : P.Inv g R w) (he : P.build g R k n w t = (true, w')) :
    P.UpToDate g w'.fs t ∧ P.Inv g R w' :=
  P.build_sound hg hR htk hi he

/-- Failed or partial builds keep the invariant too (so "after any history of earlier partial or
failed builds"). -/
theorem invariant_survives_any_build {g : P.Graph} {R : Nat} (hg : P.Ordered g) (hR : 0 < R) {k n t : Nat}
    {w w' : P.World} {ok : Bool} (htk : t < k) (hi : P.Inv g R w) (he : P.build g R k n w t = (ok, w')) :
    P.Inv g R w' :=
  (P.build_spec hg hR k n t htk w ok w' hi he).1

/-- Starting a new run keeps the invariant. -/
theorem invariant_survives_new_run {g : P.Graph} {R : Nat} {w : P.World} (hi : P.Inv g R w) : P.Inv g (R + 1) w :=
  P.Inv.nextRun hi

/-- In the full model the dirtiness check itself never changes file contents (so whatever is
up to date stays so while checking). -/
theorem check_preserves_files (R fuel : Nat) (w : World) (c : List Nat) (f mx : Nat) (seen : List Nat) :
    (isDirty false R fuel w c f mx seen none).2.1.fs = w.fs :=
  (isDirty_frame false R fuel w c f mx seen none).1

end C01
