import RedoModel.Props.C09f
import RedoModel.Props.C09e
import RedoModel.Props.C09d
import RedoModel.TokLoop
import RedoModel.Props.C09b
/-!
# C09 — No interleaving crashes or deadlocks the scheduler
Property theorems only.  Model: `RedoModel/TokLoop.lean` (one process's token counter under every
order of scheduler events, with the Rust assertions as `panic` outcomes).  Deadlock freedom of the
lock protocol is not proven here (see DESIGN, partial): it is monitored under wall-clock bounds, and
the lock-order deadlock that existed on acyclic graphs is covered by a regression scenario.
-/
namespace C09
open RedoModel.TokLoop RedoModel.RunTok

/-- With the repaired event loop the process holds at most one token between scheduler steps. -/
theorem at_most_one (s s' : LS) (e : LEv) (h : s.my ≤ 1) (hs : lstep true s e = .ok s') : s'.my ≤ 1 := by
  have hx := lstep_live hs
  cases e <;> simp only [lstep, lstepG, hx, Bool.false_eq_true, ↓reduceIte] at hs
  · -- childExit
    split at hs
    · cases hs
    · cases hs
      split <;> simp [keepOne_my] <;> omega
  · -- childExitEat
    split at hs
    · cases hs
    · split at hs <;> cases hs
      exact h
  · -- tokenRead
    split at hs
    · cases hs
    · cases hs
      rename_i hc
      simp at hc
      simp; omega
  · -- cheat
    split at hs
    · cases hs; simp
    · cases hs
  · -- start
    split at hs
    · cases hs
    · split at hs
      · cases hs
      · cases hs; simp
  · -- releaseMine
    split at hs
    · cases hs
    · cases hs; simp [release]; omega
  · -- waitAll
    split at hs <;> cases hs <;> simp [release, keepOne_my] <;> omega
  · -- exit
    split at hs
    · cases hs
    · split at hs <;> cases hs
      simp [keepOne_my]; omega
  · -- exitTop
    split at hs
    · cases hs
    · split at hs <;> cases hs
      split <;> simp [keepOne_my] <;> omega

/-- The invariant of the repaired loop: at most one token, at most one cheat, and a cheat is always backed by the token
in hand or by a running child. -/
theorem backed_step (s s' : LS) (e : LEv) (h : Backed s) (hs : lstep true s e = .ok s') : Backed s' :=
  lstep_backed h hs

/-- No Rust assertion on the token counter can fail — neither the one of `start` nor the two of
`do_force_return_tokens` — for every sequence of scheduler events, in every order (every subset of {child exits,
IOUs on the cheat pipe, token arrivals} between two steps included). -/
theorem no_panic (es : List LEv) (s : LS) (h : Backed s) : lrun true s es ≠ .panic := by
  induction es generalizing s with
  | nil => intro hp; cases hp
  | cons e es ih =>
    intro hp
    simp only [lrun, lrunG] at hp
    cases hl : lstepG true true s e with
    | ok s' =>
      rw [hl] at hp
      exact ih s' (backed_step s s' e h hl) hp
    | disabled => rw [hl] at hp; cases hp
    | panic => exact lstep_no_panic (e := e) h hl

/-- What the process leaves with: never more cheats than tokens, at most one of each — the three exit states
`(1,0)`, `(1,1)`, `(0,0)` that `do_force_return_tokens` turns into "token kept", "token destroyed, one IOU" and
"one IOU" (the Tokens acceptor, Props/C08, checks that each leaves exactly one token to the job).  The top of a redo
tree under a foreign jobserver (`exitTop`) never leaves with `(0,0)`: only `(1,0)` and `(1,1)` remain. -/
theorem exit_states (s s' : LS) (e : LEv) (he : e = .exit ∨ e = .exitTop) (h : Backed s)
    (hs : lstep true s e = .ok s') :
    s'.cheats ≤ s'.my ∧ s'.my ≤ 1 ∧ s'.exited = true ∧ (e = .exitTop → s'.my = 1) := by
  rcases he with rfl | rfl
  · obtain ⟨t, h1, h2, h3, h4, _⟩ := lstep_exit h (lstep_live hs)
    rw [h1] at hs; cases hs
    exact ⟨h2, h3, h4, fun h => by cases h⟩
  · obtain ⟨t, h1, h2, h3, h4, _⟩ := lstep_exitTop h (lstep_live hs)
    rw [h1] at hs; cases hs
    exact ⟨h2, by omega, h4, fun _ => h3⟩

/-- The top of a redo tree under a foreign (make-style) jobserver always leaves holding exactly one token — the one
make expects back when the process it started ends — whichever event loop (pinned or repaired read) ran before. -/
theorem exit_top_holds_a_token (fixRead : Bool) (s s' : LS) (h : Backed s)
    (hs : lstep fixRead s .exitTop = .ok s') : s'.my = 1 := by
  have hs' : lstep true s .exitTop = .ok s' := by
    rw [← hs]; exact (lstepG_exitTop_indep fixRead true s).symm
  exact (exit_states s s' .exitTop (.inr rfl) h hs').2.2.2 rfl

/-- Neither assertion of `do_force_return_tokens` fails at the top of a redo tree. -/
theorem exit_top_never_panics (fixRead : Bool) (s : LS) (h : Backed s) (hx : ¬ s.exited) :
    lstep fixRead s .exitTop ≠ .panic := by
  have hx' : s.exited = false := by cases hb : s.exited <;> simp_all
  obtain ⟨t, h1, _⟩ := lstep_exitTop h hx'
  intro hp
  have : lstep true s .exitTop = .panic := by
    rw [← hp]; exact (lstepG_exitTop_indep fixRead true s).symm
  rw [h1] at this; cases this

/-- The same for every other process (`.exit`). -/
theorem exit_never_panics (fixRead : Bool) (s : LS) (h : Backed s) (hx : ¬ s.exited) :
    lstep fixRead s .exit ≠ .panic := by
  have hx' : s.exited = false := by cases hb : s.exited <;> simp_all
  obtain ⟨t, h1, _⟩ := lstep_exit h hx'
  intro hp
  have : lstep true s .exit = .panic := by
    rw [← hp]; exact (lstepG_exit_indep fixRead true s).symm
  rw [h1] at this; cases this

/-- Only the process that would leave with nothing is affected: when `.exit` leaves a token or a cheat, `.exitTop` is
the same step. -/
theorem exit_top_agrees_with_exit (fixRead : Bool) (s s' : LS) (hs : lstep fixRead s .exit = .ok s')
    (hne : s'.my ≥ 1 ∨ s'.cheats ≥ 1) : lstep fixRead s .exitTop = .ok s' := by
  simp only [lstep] at hs
  simp only [lstep, lstepG_exitTop, hs]
  rw [if_neg (by omega)]

/-- ... and when `.exit` leaves with `(0,0)`, `.exitTop` differs exactly by the token taken back from the pipe. -/
theorem exit_top_retakes (fixRead : Bool) (s s' : LS) (hs : lstep fixRead s .exit = .ok s')
    (h0 : s'.my = 0 ∧ s'.cheats = 0) : lstep fixRead s .exitTop = .ok { s' with my := 1 } := by
  simp only [lstep] at hs
  simp only [lstep, lstepG_exitTop, hs]
  rw [if_pos h0]

/-- After the exit nothing else happens. -/
theorem nothing_after_exit (s : LS) (e : LEv) (h : s.exited = true) : lstep true s e = .disabled :=
  lstep_exited e h

/-- From the initial state of a process (one token) nothing panics. -/
theorem no_panic_from_start (es : List LEv) : lrun true {} es ≠ .panic :=
  no_panic es {} (by simp [Backed])

/-- Witness for the repaired defect `tokenReadUnconditional`: with the pinned event loop, two jobs
and a child exit noticed in the same wake-up as a token arrival end in the `start` assertion. -/
theorem token_read_panic_witness :
    lrun false {} [.start, .tokenRead, .start, .childExit, .tokenRead, .start] = .panic := by decide

/-- The same sequence is impossible (not enabled) once the read is guarded. -/
theorem token_read_fixed :
    lrun true {} [.start, .tokenRead, .start, .childExit, .tokenRead, .start] = .disabled := by decide

/-- Witness for the repaired defect `cheaterEatsForeignIou`: with the pinned child-exit branch, a process that gave
its token up (lock wait), synthesised one, gave it to a child and at the child's exit took somebody else's IOU is left
with `(0, 1)` and fails the first assertion of `do_force_return_tokens`. -/
theorem foreign_iou_panic_witness :
    lrunG true false {} [.releaseMine, .cheat, .start, .childExitEat, .exit] = .panic := by decide

/-- With the repaired branch that sequence is not a behaviour (the IOU is left alone while the own cheat is
outstanding), and the same history with the cheat settled by the child's token ends in the exit state `(0, 0)`. -/
theorem foreign_iou_fixed :
    lrun true {} [.releaseMine, .cheat, .start, .childExitEat, .exit] = .disabled ∧
    lrun true {} [.releaseMine, .cheat, .start, .childExit, .exit]
      = .ok { my := 0, cheats := 0, running := 0, exited := true } := by decide

/-- `Backed` is not vacuous, and it is needed: from `(0, 1)` with nothing running the exit panics. -/
example : Backed { my := 1, cheats := 1, running := 0 } ∧ Backed { my := 0, cheats := 1, running := 2 } ∧
    lstep true { my := 0, cheats := 1, running := 0 } .exit = .panic := by
  refine ⟨by simp [Backed], by simp [Backed], by decide⟩

/-- An error exit with children still running: their tokens are re-created first (the first one settles the cheat). -/
example : lstep true { my := 0, cheats := 1, running := 2 } .exit
    = .ok { my := 1, cheats := 0, running := 2, exited := true } := by decide

/-- Non-vacuity of the `exitTop` theorems: the history of `foreign_iou_fixed` (lock wait, cheat, child, the child's token
settles the cheat) at the top of a redo tree ends with the token taken back; a process with its token in hand, or with
a backed cheat, leaves exactly as under `.exit`; without `Backed` the assertion fails as for `.exit`. -/
example : lrun true {} [.releaseMine, .cheat, .start, .childExit, .exitTop]
      = .ok { my := 1, cheats := 0, running := 0, exited := true } ∧
    lstep true { my := 0, cheats := 0, running := 0 } .exit
      = .ok { my := 0, cheats := 0, running := 0, exited := true } ∧
    lstep true { my := 0, cheats := 0, running := 0 } .exitTop
      = .ok { my := 1, cheats := 0, running := 0, exited := true } ∧
    lstep true {} .exitTop = lstep true {} .exit ∧
    lstep true { my := 1, cheats := 1, running := 0 } .exitTop
      = .ok { my := 1, cheats := 1, running := 0, exited := true } ∧
    lstep true { my := 0, cheats := 1, running := 2 } .exitTop
      = .ok { my := 1, cheats := 0, running := 2, exited := true } ∧
    lstep true { my := 0, cheats := 1, running := 0 } .exitTop = .panic ∧
    lstep false { my := 0, cheats := 0, running := 0, exited := true } .exitTop = .disabled := by decide

example : Backed { my := 0, cheats := 0, running := 0 } := by simp [Backed]

end C09
