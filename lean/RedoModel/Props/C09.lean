import RedoModel.Props.C09f
import RedoModel.Props.C09e
import RedoModel.Props.C09d
import RedoModel.TokLoop
import RedoModel.Props.C09b
/-!
# C09 — No interleaving crashes or deadlocks the scheduler
Property theorems only.  Model: `RedoModel/TokLoop.lean` (one process's token counter under every
order of scheduler events, with the Rust assertions as `panic` outcomes).  Deadlock freedom of the
lock protocol is not proven here (see DESIGN, partial): it is monitored under wall-clock bounds, and
the lock-order deadlock that existed on acyclic graphs is covered by a regression scenario.
-/
namespace C09
open RedoModel.TokLoop

/-- With the repaired event loop the process holds at most one token between scheduler steps. -/
theorem at_most_one (s s' : LS) (e : LEv) (h : s.my ≤ 1) (hs : lstep true s e = .ok s') : s'.my ≤ 1 := by
  cases e <;> simp only [lstep] at hs
  · -- childExit
    split at hs
    · cases hs
    · cases hs
      split <;> simp only [keepOne] <;> split <;> simp [release] <;> omega
  · split at hs
    · cases hs
    · cases hs
      rename_i hc
      simp at hc
      simp; omega
  · split at hs
    · cases hs; simp
    · cases hs
  · split at hs
    · cases hs
    · split at hs
      · cases hs
      · cases hs; simp
  · split at hs
    · cases hs
    · cases hs; simp [release]; omega
  · by_cases h1 : s.my ≥ 1
    · simp only [keepOne, h1, if_true] at hs
      split at hs <;> cases hs <;> simp [release] <;> omega
    · simp only [keepOne, h1, if_false] at hs
      split at hs <;> cases hs <;> (try simp [release]) <;> omega

/-- No Rust assertion on the token counter can fail: for every sequence of scheduler events, in
every order (every subset of {child exits, token arrivals} between two steps included). -/
theorem no_panic (es : List LEv) (s : LS) (h : s.my ≤ 1) : lrun true s es ≠ .panic := by
  induction es generalizing s with
  | nil => simp [lrun]
  | cons e es ih =>
    simp only [lrun]
    cases hst : lstep true s e with
    | ok s' => exact ih s' (at_most_one s s' e h hst)
    | disabled => simp
    | panic =>
      exfalso
      cases e <;> simp only [lstep] at hst
      · split at hst <;> cases hst
      · split at hst <;> cases hst
      · split at hst <;> cases hst
      · split at hst
        · cases hst
        · split at hst
          · rename_i h0 h1
            omega
          · cases hst
      · split at hst <;> cases hst
      · by_cases h1 : s.my ≥ 1
        · simp only [keepOne, h1, if_true] at hst
          split at hst <;> cases hst
        · simp only [keepOne, h1, if_false] at hst
          split at hst <;> cases hst

/-- From the initial state of a process (one token) nothing panics. -/
theorem no_panic_from_start (es : List LEv) : lrun true {} es ≠ .panic :=
  no_panic es {} (by decide)

/-- Witness for the repaired defect `tokenReadUnconditional`: with the pinned event loop, two jobs
and a child exit noticed in the same wake-up as a token arrival end in the `start` assertion. -/
theorem token_read_panic_witness :
    lrun false {} [.start, .tokenRead, .start, .childExit, .tokenRead, .start] = .panic := by decide

/-- The same sequence is impossible (not enabled) once the read is guarded. -/
theorem token_read_fixed :
    lrun true {} [.start, .tokenRead, .start, .childExit, .tokenRead, .start] = .disabled := by decide

end C09
