import RedoModel.Props.C09f
import RedoModel.Props.C09e
import RedoModel.Props.C09d
import RedoModel.TokLoop
import RedoModel.Props.C09b
/-!
# C09 — No interleaving crashes or deadlocks the scheduler
Property theorems only.  Model: `RedoModel/TokLoop.lean` (one process's token counter under every
order of scheduler events, with the Rust assertions as `panic` outcomes).  Deadlock freedom of the
lock protocol is not proven here (see DESIGN, partial): it is monitored under wall-clock bounds, and
the lock-order deadlock that existed on acyclic graphs is covered by a regression scenario.
-/
namespace C09
open RedoModel.TokLoop RedoModel.RunTok

/-- With the repaired event loop the process holds at most one token between scheduler steps. -/
theorem at_most_one (s s' : LS) (e : LEv) (h : s.my ≤ 1) (hs : lstep true s e = .ok s') : s'.my ≤ 1 := by
  have hx := lstep_live hs
  cases e <;> simp only [lstep, lstepG, hx, Bool.false_eq_true, ↓reduceIte] at hs
  · -- childExit
    split at hs
    · cases hs
    · cases hs
      split <;> simp [keepOne_my] <;> omega
  · -- childExitEat
    split at hs
    · cases hs
    · split at hs <;> cases hs
      exact h
  · -- tokenRead
    split at hs
    · cases hs
    · cases hs
      rename_i hc
      simp at hc
      simp; omega
  · -- cheat
    split at hs
    · cases hs; simp
    · cases hs
  · -- start
    split at hs
    · cases hs
    · split at hs
      · cases hs
      · cases hs; simp
  · -- releaseMine
    split at hs
    · cases hs
    · cases hs; simp [release]; omega
  · -- waitAll
    split at hs <;> cases hs <;> simp [release, keepOne_my] <;> omega
  · -- exit
    split at hs
    · cases hs
    · split at hs <;> cases hs
      simp [keepOne_my]; omega

/-- The invariant of the repaired loop: at most one token, at most one cheat, and a cheat is always backed by the token
in hand or by a running child. -/
theorem backed_step (s s' : LS) (e : LEv) (h : Backed s) (hs : lstep true s e = .ok s') : Backed s' :=
  lstep_backed h hs

/-- No Rust assertion on the token counter can fail — neither the one of `start` nor the two of
`do_force_return_tokens` — for every sequence of scheduler events, in every order (every subset of {child exits,
IOUs on the cheat pipe, token arrivals} between two steps included). -/
theorem no_panic (es : List LEv) (s : LS) (h : Backed s) : lrun true s es ≠ .panic := by
  induction es generalizing s with
  | nil => intro hp; cases hp
  | cons e es ih =>
    intro hp
    simp only [lrun, lrunG] at hp
    cases hl : lstepG true true s e with
    | ok s' =>
      rw [hl] at hp
      exact ih s' (backed_step s s' e h hl) hp
    | disabled => rw [hl] at hp; cases hp
    | panic => exact lstep_no_panic (e := e) h hl

/-- What the process leaves with: never more cheats than tokens, at most one of each — the three exit states
`(1,0)`, `(1,1)`, `(0,0)` that `do_force_return_tokens` turns into "token kept", "token destroyed, one IOU" and
"one IOU" (the Tokens acceptor, Props/C08, checks that each leaves exactly one token to the job). -/
theorem exit_states (s s' : LS) (h : Backed s) (hs : lstep true s .exit = .ok s') :
    s'.cheats ≤ s'.my ∧ s'.my ≤ 1 ∧ s'.exited = true := by
  obtain ⟨t, h1, h2, h3, h4, _⟩ := lstep_exit h (lstep_live hs)
  rw [h1] at hs; cases hs
  exact ⟨h2, h3, h4⟩

/-- After the exit nothing else happens. -/
theorem nothing_after_exit (s : LS) (e : LEv) (h : s.exited = true) : lstep true s e = .disabled :=
  lstep_exited e h

/-- From the initial state of a process (one token) nothing panics. -/
theorem no_panic_from_start (es : List LEv) : lrun true {} es ≠ .panic :=
  no_panic es {} (by simp [Backed])

/-- Witness for the repaired defect `tokenReadUnconditional`: with the pinned event loop, two jobs
and a child exit noticed in the same wake-up as a token arrival end in the `start` assertion. -/
theorem token_read_panic_witness :
    lrun false {} [.start, .tokenRead, .start, .childExit, .tokenRead, .start] = .panic := by decide

/-- The same sequence is impossible (not enabled) once the read is guarded. -/
theorem token_read_fixed :
    lrun true {} [.start, .tokenRead, .start, .childExit, .tokenRead, .start] = .disabled := by decide

/-- Witness for the repaired defect `cheaterEatsForeignIou`: with the pinned child-exit branch, a process that gave
its token up (lock wait), synthesised one, gave it to a child and at the child's exit took somebody else's IOU is left
with `(0, 1)` and fails the first assertion of `do_force_return_tokens`. -/
theorem foreign_iou_panic_witness :
    lrunG true false {} [.releaseMine, .cheat, .start, .childExitEat, .exit] = .panic := by decide

/-- With the repaired branch that sequence is not a behaviour (the IOU is left alone while the own cheat is
outstanding), and the same history with the cheat settled by the child's token ends in the exit state `(0, 0)`. -/
theorem foreign_iou_fixed :
    lrun true {} [.releaseMine, .cheat, .start, .childExitEat, .exit] = .disabled ∧
    lrun true {} [.releaseMine, .cheat, .start, .childExit, .exit]
      = .ok { my := 0, cheats := 0, running := 0, exited := true } := by decide

/-- `Backed` is not vacuous, and it is needed: from `(0, 1)` with nothing running the exit panics. -/
example : Backed { my := 1, cheats := 1, running := 0 } ∧ Backed { my := 0, cheats := 1, running := 2 } ∧
    lstep true { my := 0, cheats := 1, running := 0 } .exit = .panic := by
  refine ⟨by simp [Backed], by simp [Backed], by decide⟩

/-- An error exit with children still running: their tokens are re-created first (the first one settles the cheat). -/
example : lstep true { my := 0, cheats := 1, running := 2 } .exit
    = .ok { my := 1, cheats := 0, running := 2, exited := true } := by decide

end C09
