import RedoModel.Lemmas.DoFilesOrder
/-!
# C13 (continued) — order of the candidate list, no duplicates, arguments, choice
Property theorems only; proofs are in `RedoModel/Lemmas/DoFilesOrder.lean`.  Model: `RedoModel/DoFiles.lean`.

Throughout, `dirs` are the directory components of the (cleaned, absolute) target and `f` its file name.
`GoodComp c` = non-empty, no `/` (what `comps` produces); `NormComp c` = `GoodComp c`, `c ≠ "."`, `c ≠ ".."`
(what `cleanComps true` leaves).

Findings:
* for `f = "default"` the candidate list contains the *same* candidate twice (the specific script
  `default.do` is also the default rule of the target's directory), so no key computed from the fields
  can be strictly increasing: `order` is therefore stated up to identical repeats, `order_partial` is the
  strict version for `f ≠ "default"`, and `order_defaults` says the default rules alone are always strictly sorted;
* for `f = "default"` or `f = "default.<…>"` two candidates share a script path (`nodup_iff`);
  for `default.<ext>` they even differ in `$2` (`default.x` vs `default`).  The earlier (specific) one wins:
  `earlier_wins`, `later_dups_irrelevant`.
-/
namespace C13
open RedoModel.Paths RedoModel.DoFiles

/-- **Order.**  With the key `prio` (levels above the target's directory; then specific script first,
longer extension first, `default.do` last — see `RedoModel.DoFiles.prio`), the candidate list is sorted
strictly increasingly for the lexicographic order `PLt`, except that an identical candidate may repeat. -/
theorem order (dirs : List (List Char)) (f : List Char) (hd : ∀ c ∈ dirs, GoodComp c) :
    (candidates dirs f).Pairwise (fun a b => PLt (prio dirs f a) (prio dirs f b) ∨ a = b) :=
  order_weak dirs f hd

/-- Strict version; the added hypothesis `f ≠ "default"` is necessary (see the counterexample below). -/
theorem order_partial (dirs : List (List Char)) (f : List Char) (hd : ∀ c ∈ dirs, GoodComp c)
    (hf : f ≠ "default".toList) :
    (candidates dirs f).Pairwise (fun a b => PLt (prio dirs f a) (prio dirs f b)) :=
  order_strict dirs f hd hf

/-- The default rules (everything after the specific script) are strictly sorted for every `f`. -/
theorem order_defaults (dirs : List (List Char)) (f : List Char) (hd : ∀ c ∈ dirs, GoodComp c) :
    (candidates dirs f).tail.Pairwise (fun a b => PLt (prio dirs f a) (prio dirs f b)) :=
  order_tail dirs f hd

/-- Counterexample to strictness: for `f = "default"` the list has two identical entries. -/
example : candidates [] "default".toList =
    [specCand [] "default".toList, specCand [] "default".toList] := by decide

/-- Non-vacuity: `/a/b/x.tar.gz`. -/
example : (candidates exDirs exF).Pairwise (fun a b => PLt (prio exDirs exF a) (prio exDirs exF b)) :=
  order_partial exDirs exF exDirs_good (by decide)

/-- The candidate list and the keys of `/a/b/x.tar.gz`, evaluated. -/
example : (candidates exDirs exF).map
      (fun c => (String.ofList (doPath c), String.ofList (arg1 c), String.ofList (arg2 c), prio exDirs exF c)) =
    [("/a/b/x.tar.gz.do",       "x.tar.gz",     "x.tar.gz",     (0, 0)),
     ("/a/b/default.tar.gz.do", "x.tar.gz",     "x",            (0, 2)),
     ("/a/b/default.gz.do",     "x.tar.gz",     "x.tar",        (0, 6)),
     ("/a/b/default.do",        "x.tar.gz",     "x.tar.gz",     (0, 9)),
     ("/a/default.tar.gz.do",   "b/x.tar.gz",   "b/x",          (1, 2)),
     ("/a/default.gz.do",       "b/x.tar.gz",   "b/x.tar",      (1, 6)),
     ("/a/default.do",          "b/x.tar.gz",   "b/x.tar.gz",   (1, 9)),
     ("/default.tar.gz.do",     "a/b/x.tar.gz", "a/b/x",        (2, 2)),
     ("/default.gz.do",         "a/b/x.tar.gz", "a/b/x.tar",    (2, 6)),
     ("/default.do",            "a/b/x.tar.gz", "a/b/x.tar.gz", (2, 9))] := by decide

/-- **No duplicates**, exactly when the name is not `default` / `default.<…>`. -/
theorem nodup_iff (dirs : List (List Char)) (f : List Char) (hd : ∀ c ∈ dirs, GoodComp c)
    (hf : GoodComp f) : ((candidates dirs f).map doPath).Nodup ↔ ¬ DefaultLike f :=
  RedoModel.DoFiles.nodup_iff dirs f hd hf

/-- No script is considered twice — under the (necessary, by `nodup_iff`) hypothesis that `f` is neither
`default` nor starts with `default.`. -/
theorem nodup_partial (dirs : List (List Char)) (f : List Char) (hd : ∀ c ∈ dirs, GoodComp c)
    (hf : GoodComp f) (hnd : ¬ DefaultLike f) : ((candidates dirs f).map doPath).Nodup :=
  nodup_of_not_defaultLike dirs f hd hf hnd

/-- Counterexample: `/a/default.x` — `/a/default.x.do` is listed as the specific script (`$2 = default.x`)
and again as the default rule for `.x` (`$2 = default`). -/
example : ((candidates ["a".toList] "default.x".toList).map
      (fun c => (String.ofList (doPath c), String.ofList (arg2 c)))).take 2 =
    [("/a/default.x.do", "default.x"), ("/a/default.x.do", "default")] := by decide

example : ¬ ((candidates ["a".toList] "default.x".toList).map doPath).Nodup := by decide

example : ((candidates exDirs exF).map doPath).Nodup :=
  nodup_partial exDirs exF exDirs_good exF_norm.1 (by decide)

/-- The choice is deterministic all the same: the chosen candidate sits at the first position whose
script exists, and no earlier candidate has the same script path. -/
theorem earlier_wins (exist : List Char → Bool) (cs : List Cand) (c : Cand) (pre : List Cand)
    (h : findDoFile exist cs = (some c, pre)) :
    ∃ rest, cs = pre ++ c :: rest ∧ exist (doPath c) = true ∧
      ∀ a ∈ pre, exist (doPath a) = false ∧ doPath a ≠ doPath c :=
  chosen_spec exist cs c pre h

/-- Removing the later candidates that share the script path of an earlier one does not change the choice. -/
theorem later_dups_irrelevant (exist : List Char → Bool) (l1 l2 : List Cand) (a : Cand) :
    (findDoFile exist (l1 ++ a :: l2)).1 =
      (findDoFile exist (l1 ++ a :: l2.filter (fun b => doPath b != doPath a))).1 :=
  RedoModel.DoFiles.later_dups_irrelevant exist l1 l2 a

/-- With only `/a/default.x.do` present, `/a/default.x` is built by it as the *specific* script. -/
example : (findDoFile (fun p => p == "/a/default.x.do".toList)
      (candidates ["a".toList] "default.x".toList)).1 = some (specCand ["a".toList] "default.x".toList) := by
  decide

/-- **Arguments.**  `$1` read in the script's directory is the target; the script's directory is the target's
directory or an ancestor; `$3` is the target path with `.redo.tmp` appended. -/
theorem args_rejoin (dirs : List (List Char)) (f : List Char) (hd : ∀ c ∈ dirs, NormComp c)
    (hf : NormComp f) (c : Cand) (hc : c ∈ candidates dirs f) :
    normpath (pushPath c.doDir (arg1 c)) = render true (dirs ++ [f]) ∧
    (∃ k, k ≤ dirs.length ∧ c.doDir = render true (dirs.take k)) ∧
    normpath (tmpName c) = render true (dirs ++ [f ++ ".redo.tmp".toList]) :=
  RedoModel.DoFiles.args_rejoin dirs f hd hf hc

example : ∀ c ∈ candidates exDirs exF,
    normpath (pushPath c.doDir (arg1 c)) = "/a/b/x.tar.gz".toList ∧
    normpath (tmpName c) = "/a/b/x.tar.gz.redo.tmp".toList :=
  fun c hc => ⟨(args_rejoin exDirs exF exDirs_norm exF_norm c hc).1, (args_rejoin exDirs exF exDirs_norm exF_norm c hc).2.2⟩

/-- `f ≠ ".."` is needed for the first part (`possibleDoFiles` never produces such an `f`). -/
example : normpath (pushPath (specCand ["a".toList] dotdot).doDir (arg1 (specCand ["a".toList] dotdot))) ≠
    render true (["a".toList] ++ [dotdot]) := by decide

/-- **Shape.**  Every candidate is the specific one or a default rule `default<ext>.do`, and in all cases
the file name is `b ++ ext` with `$2 = baseDir/b` and `ext` empty or starting with a dot. -/
theorem exhaustive_shape (dirs : List (List Char)) (f : List Char) (c : Cand) (hc : c ∈ candidates dirs f) :
    (c = specCand dirs f ∨ c.doFile = "default".toList ++ c.ext ++ ".do".toList) ∧
    ∃ b, f = b ++ c.ext ∧ c.baseName = pushPath c.baseDir b ∧ (c.ext = [] ∨ c.ext.head? = some '.') :=
  cand_shape dirs f hc

example : (mkCand exDirs 1 "x.tar".toList ".gz".toList) ∈ candidates exDirs exF := by decide

/-- **Choice.**  `find_do_file` returns the first candidate whose script exists and records exactly the
candidates before it. -/
theorem choice_is_first_existing (exist : List Char → Bool) (cs : List Cand) :
    (findDoFile exist cs).1 = cs.find? (fun c => exist (doPath c)) ∧
    (findDoFile exist cs).2 = cs.takeWhile (fun c => !exist (doPath c)) :=
  choice_first exist cs

example : (findDoFile (fun p => p == "/a/default.gz.do".toList || p == "/default.do".toList)
      (candidates exDirs exF)).1 = some (mkCand exDirs 1 "x.tar".toList ".gz".toList) := by decide

/-- The hypotheses used above (`NormComp` for every directory component and for the file name) hold for
every list `possibleDoFiles` produces from an arbitrary path. -/
theorem hyps_realised (p : List Char) (cs : List Cand) (h : possibleDoFiles p = some cs) :
    ∃ dirs f, cs = candidates dirs f ∧ (∀ c ∈ dirs, NormComp c) ∧ NormComp f ∧
      cleanComps true (comps p) = dirs ++ [f] :=
  possibleDoFiles_hyps p cs h

example : possibleDoFiles "/a/./c/../b//x.tar.gz".toList = some (candidates exDirs exF) := by decide

#print axioms order
#print axioms order_partial
#print axioms order_defaults
#print axioms nodup_iff
#print axioms nodup_partial
#print axioms earlier_wins
#print axioms later_dups_irrelevant
#print axioms args_rejoin
#print axioms exhaustive_shape
#print axioms choice_is_first_existing
#print axioms hyps_realised

end C13
