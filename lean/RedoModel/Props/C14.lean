import RedoModel.Lemmas.Deps
import RedoModel.Props.C14b
/-!
# C14 — redo-ifcreate and redo-always dependencies
Property theorems only.  Model: `RedoModel/Deps.lean`.
-/
namespace C14
open RedoModel.Deps

/-- Declaring `redo-ifcreate F` for an existing `F` is an error: the script fails (status 1)
and no dependency is recorded by that command. -/
theorem ifcreate_existing_is_error (E : Engine) (d : Defects) (cx : Ctx) (t : Nat) (sc : Script) (w : World)
    (f : Nat) (hf : f ∈ sc.ifcreate) (hex : existsF w f = true) (hna : sc.always = false) :
    runScript E d cx t sc w = (1, none, w) := by
  have : sc.ifcreate.any (fun f => existsF w f) = true := List.any_eq_true.2 ⟨f, hf, hex⟩
  simp [runScript, hna, this]

/-- A `c` dependency (declared by `redo-ifcreate`, or a higher-priority .do candidate that was
absent) fires exactly when the path exists: not before. -/
theorem created_dep_fires_iff (chk : World → List Nat → Nat → Rec → DR × World × List Nat) (hc : Bool) (f : Nat)
    (d : Dep) (snap : Rec) (ds : List (Dep × Rec)) (w : World) (cache must : List Nat) (hm : d.modeM = false) :
    (existsF w d.source = true →
      (goDeps chk hc f ((d, snap) :: ds) w cache must).1 = some (if hc then .need [f] else .dirty)) ∧
    (existsF w d.source = false →
      goDeps chk hc f ((d, snap) :: ds) w cache must = goDeps chk hc f ds w cache must) := by
  constructor <;> intro h <;> simp [goDeps, hm, h]

/-- The `//ALWAYS` pseudo file is dirty for every dependent whose own mark is older than the
current run: a target that declared `redo-always` is rebuilt by every run that needs it. -/
theorem always_is_newer (ood : Bool) (R n : Nat) (w : World) (c : List Nat) (mx : Nat) (seen : List Nat)
    (hs : alwaysId ∉ seen) (hf : (w.recs alwaysId).failed = none) (hmx : mx < R) :
    isDirty ood R (n + 1) w c alwaysId mx seen none = (.dirty, w, c) := by
  have h1 : (getRec w R alwaysId).failed = none := by simp [getRec, hf]
  have h2 : ∃ ch, (getRec w R alwaysId).changed = some ch ∧ ch > mx := by
    unfold getRec
    simp only [if_true]
    cases (w.recs alwaysId).changed with
    | none => exact ⟨R, rfl, hmx⟩
    | some c0 => exact ⟨max R c0, rfl, by omega⟩
  obtain ⟨ch, h2, h3⟩ := h2
  simp (config := { zeta := true, zetaHave := true }) only [isDirty, Option.getD_none, hs, h1, h2, h3, if_true, if_false,
    Option.isSome_none, Bool.false_eq_true]

/-- … but within the run in which it was rebuilt, the always-target is not rebuilt again for
further dependents: once its record is marked changed/checked in this run the verdict is
memoised (see `C02.memoised_clean`); stated here for the pseudo file itself: for a dependent
built in this run (mark = R) `//ALWAYS` is not newer. -/
theorem always_not_newer_within_run (R n : Nat) (w : World) (c : List Nat) (seen : List Nat)
    (hs : alwaysId ∉ seen) (hf : (w.recs alwaysId).failed = none)
    (hch : ∀ c0, (w.recs alwaysId).changed = some c0 → c0 ≤ R)
    (hst : (w.recs alwaysId).stamp = some .missing) (hfs : w.fs alwaysId = none)
    (hng : (w.recs alwaysId).isGenerated = false) (hck : isCheckedR (w.recs alwaysId) R = false) :
    (isDirty false R (n + 1) w c alwaysId R seen none).1 = .clean := by
  have h1 : (getRec w R alwaysId).failed = none := by simp [getRec, hf]
  have h2 : (getRec w R alwaysId).changed = some R := by
    unfold getRec
    simp only [if_true]
    cases h : (w.recs alwaysId).changed with
    | none => rfl
    | some c0 => have := hch c0 h; simp; omega
  have h3 : (getRec w R alwaysId).stamp = some .missing := by simp [getRec, hst]
  have h4 : isCheckedR (getRec w R alwaysId) R = false := by simpa [getRec, isCheckedR] using hck
  have h5 : (getRec w R alwaysId).isGenerated = false := by simp [getRec, hng]
  simp (config := { zeta := true, zetaHave := true }) only [isDirty, Option.getD_none, hs, h1, h2, h3, h4, if_true, if_false,
    Option.isSome_none, Bool.false_eq_true, Nat.lt_irrefl, gt_iff_lt, readStamp, hfs, ne_eq, not_true_eq_false,
    depsWithRecs, depsOf, h5, Bool.not_false, Bool.or_true, List.map_nil, goDeps, List.isEmpty_nil]

end C14
