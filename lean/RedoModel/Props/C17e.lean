import RedoModel.Lemmas.DepsOodUp8
/-!
# C17 (continued) — the over-approximation of `redo-ood` is real, and of the allowed kind
Property theorem only (evaluation lemmas of `RedoModel/Lemmas/DepsOodUp8.lean`).  Separate from `C17d` because the
example history lives in the `DepsSoundS*` development, which cannot be imported together with `DepsOod1` /
`DepsShift3` (name clashes `RedoModel.Deps.RecOk`, `RedoModel.Deps.oobCx1` between existing files).
-/
namespace C17e
open RedoModel.Deps RedoModel.Deps.S

/-- History `sOpsA` (`C01.stamp_cutoff_example_trace`): source 5, checksummed `mid` (3, `redo-stamp`) reading it,
`top` (4) reading `mid`; all built; the file of `mid` removed.  On that world
* `redo-ood` (scenario size 5) lists `mid` and `top`;
* redo-ood's verdict for `top` is `need [mid]`, and `mid` carries a checksum: `top` is listed as a dependent of a
  checksummed target that needs rebuilding (`C17.ood_upper_general_partial`);
* `redo-ifchange top` exits 0 and executes `mid` only — its checksum is unchanged, `top` is not rebuilt.
  (A `redo-ood` between does not change that: `C17.queries_do_not_change_builds_obs`.) -/
theorem overapproximation_is_real :
    (runCmd {} 5 .ood (sW sOpsA)).1.listing = [3, 4] ∧
    (isDirty true 2 14 { sW sOpsA with runCounter := 2 } [] 4 2 [] none).1 = .need [3] ∧
    ((sW sOpsA).recs 3).csum.isSome = true ∧ (sW sOpsA).runCounter = 1 ∧
    sResA.1.status = 0 ∧ sResA.2.trace = .ran 3 :: (sW sOpsA).trace :=
  ⟨sA_ood, sA_need, sA_mid_csum, sA_rc, sA_build.1, sA_build.2⟩

end C17e
