import RedoModel.DoFiles
import RedoModel.Props.C13b
import RedoModel.Props.C13c
import RedoModel.Lemmas.Paths
/-!
# C13 — .do rule selection order and script arguments
Property theorems only.  Model: `RedoModel/DoFiles.lean`.
-/
namespace C13
open RedoModel.Paths RedoModel.DoFiles

/-- The first candidate is `<dir>/<name>.do` with `$1 = $2 = name`. -/
theorem first_specific (dirs : List (List Char)) (f : List Char) :
    (candidates dirs f).head? =
      some { doDir := render true dirs, doFile := f ++ ".do".toList, baseDir := [], baseName := f, ext := [] } := rfl

/-- `$1 = $2 ++ ext` for every candidate (by construction of the arguments). -/
theorem arg1_eq_arg2_ext (c : Cand) : arg1 c = arg2 c ++ c.ext := rfl

/-- `redo-whichdo` lists exactly the candidates considered: a prefix of the candidate list,
none of whose members but the last exists; it reports success iff the last one exists;
and the script `find_do_file` chooses is the last one listed. -/
theorem whichdo_spec (exist : List Char → Bool) (cs : List Cand) :
    let r := whichdo exist cs
    let fd := findDoFile exist cs
    r.1 = (fd.2 ++ fd.1.toList).map doPath ∧
    (fd.2 ++ fd.1.toList) <+: cs ∧
    (∀ c ∈ fd.2, exist (doPath c) = false) ∧
    (r.2 = true ↔ ∃ c, fd.1 = some c ∧ exist (doPath c) = true) ∧
    (fd.1 = none → fd.2 = cs) := by
  induction cs with
  | nil => simp [whichdo, findDoFile]
  | cons c cs ih =>
    simp only [whichdo, findDoFile]
    by_cases h : exist (doPath c) = true
    · simp [h]
    · simp only [h, if_false, Bool.false_eq_true]
      obtain ⟨h1, h2, h3, h4, h5⟩ := ih
      refine ⟨by simp [h1], ?_, ?_, h4, ?_⟩
      · simpa using h2
      · intro x hx
        rcases List.mem_cons.1 hx with e | e
        · subst e; simpa using h
        · exact h3 x e
      · intro hn; simp [h5 hn]

/-- Candidates for every (ancestor directory, dot-suffix) pair are present: completeness. -/
theorem complete (dirs : List (List Char)) (f : List Char) (k : Nat) (hk : k ≤ dirs.length)
    (b e : List Char) (hcut : (b, e) ∈ dotCuts f) :
    ∃ c ∈ candidates dirs f, c.doDir = render true (dirs.take k) ∧
      c.doFile = "default".toList ++ e ++ ".do".toList ∧ c.ext = e ∧
      c.baseName = pushPath (joinSlash (dirs.drop k)) b := by
  refine ⟨{ doDir := render true (dirs.take k), doFile := "default".toList ++ e ++ ".do".toList,
            baseDir := joinSlash (dirs.drop k), baseName := pushPath (joinSlash (dirs.drop k)) b, ext := e }, ?_, rfl, rfl, rfl, rfl⟩
  unfold candidates
  refine List.mem_cons_of_mem _ ?_
  rw [List.mem_flatMap]
  refine ⟨(dirs.take k, dirs.drop k), ?_, ?_⟩
  · unfold dirSplits
    rw [List.mem_map]
    exact ⟨k, by simp; omega, rfl⟩
  · unfold candsIn defaultDoFiles
    rw [List.mem_map]
    refine ⟨("default".toList ++ e ++ ".do".toList, b, e), ?_, rfl⟩
    rw [List.mem_append]
    left
    rw [List.mem_map]
    exact ⟨(b, e), hcut, rfl⟩

/-- … and `default.do` in every ancestor directory. -/
theorem complete_default (dirs : List (List Char)) (f : List Char) (k : Nat) (hk : k ≤ dirs.length) :
    ∃ c ∈ candidates dirs f, c.doDir = render true (dirs.take k) ∧
      c.doFile = "default.do".toList ∧ c.ext = [] ∧ arg1 c = pushPath (joinSlash (dirs.drop k)) f := by
  refine ⟨{ doDir := render true (dirs.take k), doFile := "default.do".toList,
            baseDir := joinSlash (dirs.drop k), baseName := pushPath (joinSlash (dirs.drop k)) f, ext := [] }, ?_, rfl, rfl, rfl, by simp [arg1]⟩
  unfold candidates
  refine List.mem_cons_of_mem _ ?_
  rw [List.mem_flatMap]
  refine ⟨(dirs.take k, dirs.drop k), ?_, ?_⟩
  · unfold dirSplits
    rw [List.mem_map]
    exact ⟨k, by simp; omega, rfl⟩
  · unfold candsIn defaultDoFiles
    rw [List.mem_map]
    exact ⟨("default.do".toList, f, []), by simp, rfl⟩

/-- Non-vacuity: the documented example `foo.gen.c`. -/
example : (defaultDoFiles "foo.gen.c".toList).map (fun x => String.ofList x.1) =
    ["default.gen.c.do", "default.c.do", "default.do"] := by decide

end C13
