import RedoModel.Props.C17d
import RedoModel.Props.C17c
import RedoModel.Props.C17a
import RedoModel.Props.C17b
/-! # C17 — the property theorems are in `C17a.lean` (classification, read-only) and `C17b.lean`
(redo-ood's lower bound, queries do not change later builds, cover, the run-id well-formedness invariant). -/
