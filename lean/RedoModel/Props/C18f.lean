import RedoModel.Lemmas.StatusLine
/-!
# C18 (the status line of the log viewer) — arithmetic on target names

Property theorems only.  Model: `RedoModel/StatusLine.lean` (`thousands`, `tailLoop`, `status`, `shown`, `dropBytes`,
`cutIsSafe`), the status line `LogState::catlog` writes in follow mode (src/bin/redo/log.rs).

The theorems say: the subtraction that computes where a long name is cut cannot wrap (`status_cut_never_underflows`);
the cut name is a suffix of the name made of whole characters, short enough and no shorter than needed
(`status_cut_is_a_suffix`, `status_cut_drops_enough`, `status_cut_is_minimal`); what reaches the terminal is exactly
`width` characters (`status_shown_width`); and when the terminal has room for `redo N ` and a final `... `, the status is
at most `width` bytes (`status_fits`) — without that room it is longer (last examples), which is why the code must not
assert it.
-/
namespace C18
open RedoModel.StatusLine

/-- The subtraction `n.len() - (remain - 3 - 1)` of the code cannot wrap: whenever the branch that cuts the name is
taken, `remain - 4` is at most the byte length of the name.  Whatever the width, the head, the name and the tail. -/
theorem status_cut_never_underflows (width hlen : Nat) (n tail : List Char) :
    cutIsSafe width hlen n tail = true := by
  simp only [cutIsSafe, Bool.or_eq_true, Bool.not_eq_true', Bool.or_eq_false_iff, decide_eq_true_eq,
    decide_eq_false_iff_not]
  omega

/-- What reaches the terminal is exactly `width` characters: the status is cut to `width` characters and padded. -/
theorem status_shown_width (width : Nat) (s : List Char) : (shown width s).length = width :=
  shown_length width s

/-- The cut name is a suffix of the name: whole characters were dropped from the front, none was split. -/
theorem status_cut_is_a_suffix (k : Nat) (s : List Char) : dropBytes k s <:+ s :=
  dropBytes_suffix k s

/-- At least `k` bytes are gone from a name that has `k` bytes. -/
theorem status_cut_drops_enough (k : Nat) (s : List Char) (h : k ≤ blen s) :
    blen (dropBytes k s) + k ≤ blen s :=
  dropBytes_blen k s h

/-- And no more than needed: the name is the dropped characters followed by the cut name, and the dropped characters
without the last one are fewer than `k` bytes (the cut is at the first character boundary at or after byte `k`). -/
theorem status_cut_is_minimal (k : Nat) (s : List Char) :
    ∃ p, s = p ++ dropBytes k s ∧ (k ≤ blen s → k ≤ blen p) ∧ ∀ q c, p = q ++ [c] → blen q < k :=
  dropBytes_split k s

/-- Whenever the terminal has room for `redo N ` and a final `... `, the status is at most `width` bytes, whatever the
stack of targets and their names. -/
theorem status_fits (width total : Nat) (depth : List (List Char))
    (h : blen ("redo ".toList ++ thousands total ++ [' ']) + 4 ≤ width) :
    blen (status width total depth) ≤ width := by
  unfold status
  simp only [blen_append]
  simp only [blen_append] at h
  exact tailLoop_fits width _ depth.reverse [] (by simpa using h)

/-- Hence nothing of it is hidden: a character is at least one byte, so the first `width` characters of the status are
the whole status. -/
theorem status_fits_shown (width total : Nat) (depth : List (List Char))
    (h : blen ("redo ".toList ++ thousands total ++ [' ']) + 4 ≤ width) :
    (status width total depth).take width = status width total depth := by
  have hb := status_fits width total depth h
  have hl : ∀ s : List Char, s.length ≤ blen s := by
    intro s
    induction s with
    | nil => simp
    | cons c cs ih => have := Char.utf8Size_pos c; simp only [List.length_cons, blen_cons]; omega
  exact List.take_of_length_le (Nat.le_trans (hl _) hb)

/-! ## Examples -/

example : thousands 0 = ['0'] := by decide
example : thousands 999 = "999".toList := by decide
example : thousands 1234 = "1,234".toList := by decide
example : thousands 1000000 = "1,000,000".toList := by decide

/-- Room for everything: `-` (the standard input of `redo-log`) is not shown. -/
example : status 40 1234567 ["all".toList, "-".toList, "sub/dir/target.o".toList]
    = "redo 1,234,567 all sub/dir/target.o ".toList := by decide

/-- A name of 41 bytes (`a` and twenty `é`) in the 22 bytes that remain: 18 bytes of it are kept, the cut falls on a
character boundary. -/
example : status 30 12 ["all".toList, ("a" ++ String.ofList (List.replicate 20 'é')).toList]
    = "redo 12 ...ééééééééé ".toList := by decide

example : blen (status 30 12 ["all".toList, ("a" ++ String.ofList (List.replicate 20 'é')).toList]) ≤ 30 := by decide

example : blen (status 30 12 ["all".toList, ("a" ++ String.ofList (List.replicate 20 'é')).toList]) = 30 := by decide

/-- One column more: the cut (byte 22 of the name) falls inside an `é` and is moved to the next boundary; the status is
the same, two bytes short of the width. -/
example : status 31 12 ["all".toList, ("a" ++ String.ofList (List.replicate 20 'é')).toList]
    = "redo 12 ...ééééééééé ".toList := by decide

example : dropBytes 22 ("a" ++ String.ofList (List.replicate 20 'é')).toList
    = dropBytes 23 ("a" ++ String.ofList (List.replicate 20 'é')).toList := by decide

/-- A terminal narrower than the head: the status is longer than the width (12 bytes for 5), which is why `status_fits`
has its hypothesis and the code must not assert the bound; the terminal shows the first 5 characters. -/
example : status 5 12 ["all".toList] = "redo 12 ... ".toList := by decide

example : ¬ blen (status 5 12 ["all".toList]) ≤ 5 := by decide

example : shown 5 (status 5 12 ["all".toList]) = "redo ".toList := by decide

/-- A short status is padded. -/
example : shown 12 (status 12 7 []) = "redo 7      ".toList := by decide

end C18
