import RedoModel.Lemmas.LogFollowObs3
import RedoModel.Lemmas.LogFollowObs4
/-!
# C18 (live half, continued) — the trace acceptor `Obs` is tied to the model and to the completeness theorem

Property theorems only; model and acceptor: `RedoModel/LogFollow.lean` (`Sys`, `step`, `run`; `Obs.ostep`, `Obs.orun`);
proofs: `Lemmas/LogFollowObs0..4.lean`.

* `obsOf s es` — what the hooks log of the run `es` from `s`: `lock`, `create i` (`i` = index of the new instance,
  used as its inode), `unlock`; the follower's first step → `enter b`; the `top` step that opens → `opened g`;
  the `check` step → `check b`; a `read` step at the end of the file → `eof`, followed by `stop` if the loop ends
  there; appends, reads of lines, `top` with a descriptor or without a file → nothing.
* `StartOk insts ph o0` — the acceptor starts in the phase `ph`, with no follower session, and (only when
  `ph = .building`) knows the current instance.  `obsStart insts ph` is such a state; so is the wire driver's `{}`
  for `ph = .idle`.
* `CreateSafe s` = `s.opened = none ∧ (s.pc = .start ∨ s.wasLocked = true)`;
  `SafeRun s es` — every accepted `create` of the run happens in a `CreateSafe` state (hypothesis of
  `C18.follow_complete_general`);
  `SafeRunS s es` — … in a `CreateSafe` state *or after the follower has returned*.

Result: the acceptor accepts the projection of a run exactly when the run is `SafeRunS`.  The difference to `SafeRun`
is one corner, and there the acceptor is right: a build that starts after the follower's session is over
(`obs_corner_build_after_return`).  Up to and including the follower's return, accepted ⇒ `SafeRun`, hence the
follower has shown the whole log at that moment (`accepted_trace_complete`).  No change of `Obs` is needed.
-/
namespace C18
open RedoModel.LogFollow RedoModel.LogFollow.Obs

/-! ## Start states -/

theorem obs_start_ok (insts : List (List Nat)) (ph : Phase) : StartOk insts ph (obsStart insts ph) :=
  StartOk_obsStart insts ph

/-- The wire driver's start state, for a trace that starts with the lock free (whatever old instances exist). -/
theorem obs_start_default_ok (insts : List (List Nat)) : StartOk insts .idle {} := StartOk_default insts

/-! ## 2. Accepted without a flag ⇔ every `create` is safe or comes after the follower's return -/

/-- The projection of a run is accepted by the acceptor if and only if every `create` of the run happens while
the follower has no descriptor open and has not started or believes the target locked — or after the follower
has returned.  (Any run, also one the model rejects at some event: the projection stops there.) -/
theorem obs_flags_iff (insts : List (List Nat)) (ph : Phase) (o0 : OSt) (h0 : StartOk insts ph o0)
    (es : List Ev) (i : Nat) :
    (∃ o', orun o0 (obsOf (enter insts ph) es) i = .ok o') ↔ SafeRunS (enter insts ph) es :=
  obs_accepted_iff_core insts ph o0 (Rel_of_StartOk h0) es i

/-- In particular every run satisfying the hypothesis of `follow_complete_general` is accepted: the acceptor raises
no flag on a run on which the follower is provably correct. -/
theorem obs_accepts_safe_runs (insts : List (List Nat)) (ph : Phase) (o0 : OSt) (h0 : StartOk insts ph o0)
    (es : List Ev) (i : Nat) (hsafe : SafeRun (enter insts ph) es) :
    ∃ o', orun o0 (obsOf (enter insts ph) es) i = .ok o' :=
  obs_accepts_safe_runs_core insts ph o0 (Rel_of_StartOk h0) es i hsafe

/-- The direction the correspondence check needs: if the projection of the whole run is accepted, then the run up to
and including the follower step `es1 ++ [.fol]` (any follower step, e.g. the one that returns) satisfies the hypothesis
of `follow_complete_general`. -/
theorem obs_accepted_safe_until_return (insts : List (List Nat)) (ph : Phase) (o0 : OSt) (h0 : StartOk insts ph o0)
    (es1 es2 : List Ev) (i : Nat) (s1 : Sys)
    (hacc : ∃ o', orun o0 (obsOf (enter insts ph) (es1 ++ .fol :: es2)) i = .ok o')
    (h1 : run (enter insts ph) (es1 ++ [.fol]) = some s1) : SafeRun (enter insts ph) (es1 ++ [.fol]) :=
  accepted_safe_until_stop_core insts ph o0 (Rel_of_StartOk h0) es1 es2 i s1 hacc h1

/-- Accepted trace ⇒ complete output: if the projection of the run is accepted, then at the moment the follower
returns (the follower step after `es1` leads to `stopped`) it has shown exactly the log at the name, and the build
is over. -/
theorem accepted_trace_complete (insts : List (List Nat)) (ph : Phase) (o0 : OSt) (h0 : StartOk insts ph o0)
    (es1 es2 : List Ev) (i : Nat) (s1 : Sys)
    (hacc : ∃ o', orun o0 (obsOf (enter insts ph) (es1 ++ .fol :: es2)) i = .ok o')
    (h1 : run (enter insts ph) (es1 ++ [.fol]) = some s1) (hpc : s1.pc = .stopped) :
    s1.emitted.reverse = current s1 ∧ s1.phase ≠ .building :=
  accepted_trace_complete_core insts ph o0 (Rel_of_StartOk h0) es1 es2 i s1 hacc h1 hpc

/-- … and this is still so at the end of the run if no instance is created after the return. -/
theorem accepted_trace_complete_end (insts : List (List Nat)) (ph : Phase) (o0 : OSt) (h0 : StartOk insts ph o0)
    (es1 es2 : List Ev) (i : Nat) (s1 s : Sys)
    (hacc : ∃ o', orun o0 (obsOf (enter insts ph) (es1 ++ .fol :: es2)) i = .ok o')
    (h1 : run (enter insts ph) (es1 ++ [.fol]) = some s1) (hpc : s1.pc = .stopped)
    (h2 : run s1 es2 = some s) (hnc : Ev.create ∉ es2) :
    s.pc = .stopped ∧ s.emitted.reverse = current s :=
  accepted_trace_complete_end_core insts ph o0 (Rel_of_StartOk h0) es1 es2 i s1 s hacc h1 hpc h2 hnc

/-- The corner in which "accepted" and `SafeRun` differ, kernel-checked: the follower shows `[1]` and returns; then
the target is built again.  The acceptor accepts (the session is over), the run is not `SafeRun`, and at the END of
the run the log at the name (`[2]`) is not what was shown — which is why `accepted_trace_complete` speaks about the
moment of the return. -/
theorem obs_corner_build_after_return :
    obsOf (enter [[1]] .idle) afterStopRun = [.enter false, .opened 0, .eof, .stop, .lock, .create 1, .unlock] ∧
    verdict {} (obsOf (enter [[1]] .idle) afterStopRun) = none ∧
    outcome (enter [[1]] .idle) afterStopRun = some (.stopped, [1], [2]) ∧
    ¬ SafeRun (enter [[1]] .idle) afterStopRun :=
  ⟨afterStop_accepted.1, afterStop_accepted.2.1, afterStop_accepted.2.2, afterStop_not_safeRun⟩

/-- When accepted, the acceptor's final state is the observable part of the model's final state: same phase; no
session open iff the follower has not started or has returned; otherwise the same descriptor and the same belief
about the lock. -/
theorem obs_final_state (insts : List (List Nat)) (ph : Phase) (o0 : OSt) (h0 : StartOk insts ph o0)
    (es : List Ev) (i : Nat) (o' : OSt) (s : Sys) (h : orun o0 (obsOf (enter insts ph) es) i = .ok o')
    (hr : run (enter insts ph) es = some s) :
    o'.phase = s.phase ∧ ((s.pc = .start ∨ s.pc = .stopped) → o'.fol = none) ∧
    (s.pc ≠ .start → s.pc ≠ .stopped → ∃ f, o'.fol = some f ∧ f.opened = s.opened ∧ f.wasLocked = s.wasLocked) :=
  obs_final_state_core insts ph o0 (Rel_of_StartOk h0) es i o' s h hr

/-! ## 3. The consistency flags cannot be raised on the model's own traces -/

/-- Whatever the run, a flag raised on its projection is one of the three creation flags; `badOrder`, `unsoundFree`,
`stopWhileLocked`, `wrongInstance`, `stopWithoutReread` are impossible (on real traces they check that the code's observations are
consistent with the model). -/
theorem obs_consistency_flags_unreachable (insts : List (List Nat)) (ph : Phase) (o0 : OSt)
    (h0 : StartOk insts ph o0) (es : List Ev) (i : Nat) (fl : Flag) (j : Nat)
    (h : orun o0 (obsOf (enter insts ph) es) i = .error (fl, j)) :
    (fl = .staleOpen ∨ fl = .rebuiltDuringFollow ∨ fl = .createAfterFree) ∧
    fl ≠ .badOrder ∧ fl ≠ .unsoundFree ∧ fl ≠ .stopWhileLocked ∧ fl ≠ .wrongInstance ∧
    fl ≠ .stopWithoutReread :=
  obs_flags_core insts ph o0 (Rel_of_StartOk h0) es i fl j h

/-- The condition on the start state is needed: started in the phase `building` without the current instance, the
acceptor raises `wrongInstance` on a correct run. -/
theorem obs_start_state_matters :
    verdict { phase := .building } (obsOf (enter [[9], [1]] .building) goodRun) = some (.wrongInstance, 1) :=
  start_state_matters

/-! ## The runs of `C18c`, projected -/

/-- The reproduced defect is flagged `staleOpen`, at the `create`. -/
theorem obs_flags_stale_open :
    obsOf (enter [[1]] .lockedNoLog) staleRun =
      [.enter true, .opened 0, .create 1, .unlock, .eof, .check false, .eof, .stop] ∧
    verdict (obsStart [[1]] .lockedNoLog) (obsOf (enter [[1]] .lockedNoLog) staleRun) = some (.staleOpen, 2) :=
  stale_projection

/-- A rebuild under an open descriptor is flagged `rebuiltDuringFollow`. -/
theorem obs_flags_rebuild :
    obsOf (enter [[1]] .idle) rebuildRun = [.enter false, .opened 0, .lock, .create 1, .unlock, .eof, .stop] ∧
    verdict {} (obsOf (enter [[1]] .idle) rebuildRun) = some (.rebuiltDuringFollow, 3) :=
  rebuild_projection

/-- A build that starts after the follower saw "no file, not locked" is flagged `createAfterFree`. -/
theorem obs_flags_create_after_free :
    obsOf (enter [] .idle) lateBuildRun = [.enter false, .lock, .create 0, .unlock, .eof, .stop] ∧
    verdict {} (obsOf (enter [] .idle) lateBuildRun) = some (.createAfterFree, 2) :=
  lateBuild_projection

/-- Non-vacuity: the two correct sessions of `C18c` are accepted. -/
example :
    verdict (obsStart [[9], [1]] .building) (obsOf (enter [[9], [1]] .building) goodRun) = none ∧
    verdict (obsStart [] .lockedNoLog) (obsOf (enter [] .lockedNoLog) freshRun) = none :=
  ⟨good_projection.2, fresh_projection.2⟩

/-! ## Outside the model: the tolerance branch of `Obs.ostep (.create i)` (`opened i` logged before `create i`)

On projections the branch is never taken (`opened g` always has `g <` the index of the next instance).  On real traces
it is.  If the follower believes the target locked, the swapped order gives exactly the state of the true order.  If
it believes the target free, both orders are flagged `createAfterFree` (the branch looks at `wasLocked`; as first
written it did not, which these lemmas exposed). -/

theorem obs_swapped_open_create_ok (o : OSt) (f : FolSt) (i k : Nat) (hph : o.phase = .lockedNoLog)
    (hf : o.fol = some f) (hop : f.opened = none) (hw : f.wasLocked = true) :
    orun o [.opened i, .create i] k = orun o [.create i, .opened i] k ∧
    ∃ o', orun o [.create i, .opened i] k = .ok o' :=
  swap_ok o f i k hph hf hop hw

theorem obs_swapped_open_create_hole (o : OSt) (f : FolSt) (i k : Nat) (hph : o.phase = .lockedNoLog)
    (hf : o.fol = some f) (hop : f.opened = none) (hw : f.wasLocked = false) :
    orun o [.opened i, .create i] k = .error (.createAfterFree, k + 1) ∧
    orun o [.create i, .opened i] k = .error (.createAfterFree, k) :=
  swap_hole o f i k hph hf hop hw

/-- A run that loses a line, its projection (flagged), and the same trace with the two lines swapped (flagged too). -/
theorem obs_swapped_hole_example :
    outcome (enter [] .idle) [.fol, .lock, .create, .fol, .fol, .append 1, .unlock] = some (.stopped, [], [1]) ∧
    obsOf (enter [] .idle) [.fol, .lock, .create, .fol, .fol, .append 1, .unlock] =
      [.enter false, .lock, .create 0, .opened 0, .eof, .stop, .unlock] ∧
    verdict {} [.enter false, .lock, .create 0, .opened 0, .eof, .stop, .unlock] = some (.createAfterFree, 2) ∧
    verdict {} [.enter false, .lock, .opened 0, .create 0, .eof, .stop, .unlock] = some (.createAfterFree, 3) :=
  swap_hole_example

/-! ## Why the loop reads again after the probe (`stopWithoutReread`)

`stepEarly` is `step` except that the `check` micro-step that finds the lock free goes straight to `stopped`. -/

/-- The early-stopping follower loses the last line although the entry was safe (the build's instance exists, phase
`building`) and no instance is created: it sees the end of the file, the builder writes `1` and unlocks, the probe
finds the lock free, and the follower returns without reading again.  The real loop, continued by four more
follower steps on the same events, shows the line.  The observable trace of the early stop is flagged
`stopWithoutReread`. -/
theorem early_stop_loses_lines :
    Ev.create ∉ earlyRun ∧
    (runEarly (enter [[]] .building) earlyRun).map (fun s => (s.pc, s.emitted.reverse, current s)) =
      some (.stopped, [], [1]) ∧
    outcome (enter [[]] .building) (earlyRun ++ [.fol, .fol, .fol, .fol]) = some (.stopped, [1], [1]) ∧
    verdict (obsStart [[]] .building) [.enter true, .opened 0, .eof, .unlock, .check false, .stop] =
      some (.stopWithoutReread, 5) :=
  early_stop_example

/-- `verdict … = none` is "accepted". -/
theorem verdict_none (o : OSt) (evs : List OEv) : verdict o evs = none ↔ ∃ o', orun o evs 0 = .ok o' :=
  verdict_none_iff o evs

end C18
