import RedoModel.Lemmas.LogFollow6
import RedoModel.Lemmas.LogFollow7
/-!
# C18 (live half) — `redo-log --follow` on one target whose log may be growing

Property theorems only (one-line applications); model: `RedoModel/LogFollow.lean`; proofs: `Lemmas/LogFollow0..7.lean`.

Vocabulary: `enter insts ph` — the follower enters the target's log when the instances `insts` (oldest first, the last
one is at the log name) have existed and the builder is in phase `ph`; `run s es = some s'` — the interleaving `es`
of builder events and follower steps (`.fol`) is possible from `s` and leads to `s'`; `current s` — the instance at
the log name; `s.emitted` — the lines shown, most recent first; `remaining s` — lines of the open instance not yet
shown (nothing open: lines of the instance at the name).

Summary of the hypotheses.
* Prefix (`follow_prefix`): none — all interleavings, any number of builds.
* Completeness: false in general (`follow_complete_false_*`).  It holds
  - if no instance is created during the session (`follow_complete_partial`, any phase at entry), or
  - if the lock is not taken again during the session and the follower does not enter in the phase "locked, instance
    not yet created" *with an old instance at the name* (`follow_complete_one_build_partial`).
  Both are instances of `follow_complete_general`: every `create` happens while the follower has no descriptor open
  and has not started or believes the target locked (`CreateSafe`).
  `stale_open_loses_lines` violates only "no old instance"; `rebuild_during_follow_loses_lines` violates only "no
  second build".
* Termination (`follow_stops`): lock free, from any state, `2 * remaining + 5` follower steps (attained).
-/
namespace C18
open RedoModel.LogFollow

/-! ## 1. What has been shown is a prefix of the opened instance — every interleaving -/

/-- In every state of every run — any interleaving, any number of builds — the lines shown so far are, in order
and each once, exactly the first `pos` lines of the instance the follower's descriptor refers to; without a
descriptor nothing has been shown. -/
theorem follow_prefix (insts : List (List Nat)) (ph : Phase) (es : List Ev) (s : Sys)
    (h : run (enter insts ph) es = some s) :
    (∀ g, s.opened = some g → s.emitted.reverse = (s.insts.getD g []).take s.pos) ∧
    (s.opened = none → s.emitted = []) :=
  follow_prefix_stmt insts ph es s h

/-- The descriptor's instance exists, the position is inside it, and `pos` counts the lines shown. -/
theorem follow_prefix_valid (insts : List (List Nat)) (ph : Phase) (es : List Ev) (s : Sys)
    (h : run (enter insts ph) es = some s) (g : Nat) (hg : s.opened = some g) :
    g < s.insts.length ∧ s.pos ≤ (s.insts.getD g []).length ∧ s.emitted.length = s.pos :=
  follow_prefix_valid_stmt insts ph es s h g hg

/-- Non-vacuity: a descriptor on the second instance, one of its lines shown, a third line arriving. -/
example : (run (enter [[9], [1, 2]] .building) [.fol, .fol, .fol, .append 3]).map
    (fun s => (s.opened, s.pos, s.emitted, s.insts)) = some (some 1, 1, [1], [[9], [1, 2, 3]]) := midRun_outcome

/-! ## 2. When the follower returns, the whole log of this build has been shown -/

/-- Hypothesis `hb`: no instance is created during the session (the target is built at most once — C07 — and this
build's instance exists when the follower enters, or the lock holder never builds).  Then when the follower has
returned, it has shown exactly the log at the name, and in every continuation without `create` the follower stays
returned, the log stays the same and the output stays the same.  The phase at entry is arbitrary: for
`ph = .lockedNoLog` the statement only covers "the lock holder finds the target clean" (the old log is then the
current one); the real restriction on that phase is in `follow_complete_one_build_partial`. -/
theorem follow_complete_partial (insts : List (List Nat)) (ph : Phase) (es : List Ev) (s : Sys)
    (hb : Ev.create ∉ es) (h : run (enter insts ph) es = some s) (hpc : s.pc = .stopped) :
    s.emitted.reverse = current s ∧
    ∀ es' s', Ev.create ∉ es' → run (enter insts ph) (es ++ es') = some s' →
      s'.pc = .stopped ∧ current s' = current s ∧ s'.emitted = s.emitted :=
  follow_complete_stmt insts ph es s hb h hpc

/-- Under `hb` the descriptor, once open, is on the instance at the log name. -/
theorem follow_on_current_instance (insts : List (List Nat)) (ph : Phase) (es : List Ev) (s : Sys)
    (hb : Ev.create ∉ es) (h : run (enter insts ph) es = some s) (g : Nat) (hg : s.opened = some g) :
    g + 1 = s.insts.length ∧ s.insts.getD g [] = current s :=
  follow_on_current_instance_stmt insts ph es s hb h g hg

/-- One build per session.  `hb`: the lock is not taken again after the follower entered (so at most one `create`
is possible, and only if the follower entered in phase `lockedNoLog`).  `ha`: if the follower enters while the lock
is held and the instance is not yet created, there is NO old instance at the log name.  (`ha` excludes exactly the
reproduced defect: an old log at the name, which the follower would open.)  Then a returned follower has shown
exactly the log at the name, the lock is free, and nothing at all can happen before the next `lock`. -/
theorem follow_complete_one_build_partial (insts : List (List Nat)) (ph : Phase) (es : List Ev) (s : Sys)
    (ha : ph = .lockedNoLog → insts = []) (hb : Ev.lock ∉ es)
    (h : run (enter insts ph) es = some s) (hpc : s.pc = .stopped) :
    s.emitted.reverse = current s ∧ s.phase = .idle ∧
      ∀ es' s', Ev.lock ∉ es' → run s es' = some s' → es' = [] ∧ s' = s :=
  complete_one_build insts ph es s ha hb h hpc

/-- The general condition behind both.  `CreateSafe s` (= `s.opened = none ∧ (s.pc = .start ∨ s.wasLocked = true)`):
the follower has no descriptor open, and it has not made its first step or believes the target locked.
`SafeRun s0 es`: every accepted `create` of the run happens in such a state.  Then a returned follower has shown
exactly the log at the name, and the build is over.  In `stale_open_loses_lines` the `create` happens with a
descriptor open; in `build_after_enter_loses_lines` it happens after the follower saw "no file, not locked". -/
theorem follow_complete_general (insts : List (List Nat)) (ph : Phase) (es : List Ev) (s : Sys)
    (hsafe : SafeRun (enter insts ph) es) (h : run (enter insts ph) es = some s) (hpc : s.pc = .stopped) :
    s.emitted.reverse = current s ∧ s.phase ≠ .building :=
  complete_general insts ph es s hsafe h hpc

/-- The hypothesis of `follow_complete_partial` is an instance. -/
theorem safeRun_of_no_create (s0 : Sys) (es : List Ev) (hb : Ev.create ∉ es) : SafeRun s0 es :=
  RedoModel.LogFollow.safeRun_of_no_create es s0 hb

/-- The hypotheses of `follow_complete_one_build_partial` are an instance. -/
theorem safeRun_of_one_build (insts : List (List Nat)) (ph : Phase) (es : List Ev)
    (ha : ph = .lockedNoLog → insts = []) (hb : Ev.lock ∉ es) : SafeRun (enter insts ph) es :=
  safeRun_enter_one_build insts ph es ha hb

/-- A run covered by neither special case: old instance at the name, entry in phase `lockedNoLog`, but the follower
makes only its first step before the `create`; it then opens the new instance. -/
example :
    SafeRun (enter [[1]] .lockedNoLog) [.fol, .create, .append 2, .fol, .fol, .unlock, .fol, .fol, .fol, .fol, .fol] ∧
    (run (enter [[1]] .lockedNoLog) [.fol, .create, .append 2, .fol, .fol, .unlock, .fol, .fol, .fol, .fol, .fol]).map
      (fun s => (s.pc, s.emitted, current s)) = some (.stopped, [2], [2]) :=
  safeRun_example

/-- Non-vacuity of `follow_complete_partial`: entry during the build, lines before and after the open, a later
lock/unlock by somebody who finds the target clean. -/
example : Ev.create ∉ goodRun ∧
    outcome (enter [[9], [1]] .building) goodRun = some (.stopped, [1, 2, 3], [1, 2, 3]) :=
  ⟨goodRun_no_create, goodRun_outcome⟩

/-- Non-vacuity of `follow_complete_one_build_partial` in the phase `lockedNoLog`: no log yet, the follower spins
until the instance appears. -/
example : Ev.lock ∉ freshRun ∧ outcome (enter [] .lockedNoLog) freshRun = some (.stopped, [1], [1]) :=
  ⟨freshRun_no_lock, freshRun_outcome⟩

/-! ## 3. The hypotheses are necessary -/

/-- The reproduced defect: the follower enters while the builder holds the lock and has not yet replaced the old
log `[1]`.  It opens the old instance, shows the stale line `1`, and returns without ever showing line `2` of this
build.  The lock is taken only once. -/
theorem stale_open_loses_lines :
    ∃ s, run (enter [[1]] .lockedNoLog)
        [.fol, .fol, .create, .append 2, .fol, .fol, .unlock, .fol, .fol, .fol, .fol] = some s ∧
      s.pc = .stopped ∧ s.emitted = [1] ∧ current s = [2] :=
  ⟨_, rfl, rfl, rfl, rfl⟩

/-- A second build while the follower holds a descriptor on the first one: the follower (entered with the lock
free, log `[1]`) shows `1` and returns; line `2` of the new instance is never shown. -/
theorem rebuild_during_follow_loses_lines :
    ∃ s, run (enter [[1]] .idle) [.fol, .fol, .lock, .create, .append 2, .unlock, .fol, .fol, .fol] = some s ∧
      s.pc = .stopped ∧ s.emitted = [1] ∧ current s = [2] :=
  ⟨_, rfl, rfl, rfl, rfl⟩

/-- The follower enters before the build took the lock and there is no log yet: it finds no file, believes the
target unlocked and returns; the build's line is never shown. -/
theorem build_after_enter_loses_lines :
    ∃ s, run (enter [] .idle) [.fol, .fol, .lock, .create, .append 1, .unlock, .fol] = some s ∧
      s.pc = .stopped ∧ s.emitted = [] ∧ current s = [1] :=
  ⟨_, rfl, rfl, rfl, rfl⟩

/-- After a correct return a second build changes the log at the name: "nothing more is written" needs "no
`create`". -/
theorem rebuild_after_stop :
    outcome (enter [[1]] .idle) [.fol, .fol, .fol, .fol, .fol] = some (.stopped, [1], [1]) ∧
    outcome (enter [[1]] .idle) ([.fol, .fol, .fol, .fol, .fol] ++ [.lock, .create, .append 2, .unlock]) =
      some (.stopped, [1], [2]) :=
  stop_then_rebuild

/-- Completeness without "no old instance" is false, even if the lock is never taken again. -/
theorem follow_complete_false_stale :
    ¬ ∀ (insts : List (List Nat)) (ph : Phase) (es : List Ev) (s : Sys), Ev.lock ∉ es →
        run (enter insts ph) es = some s → s.pc = .stopped → s.emitted.reverse = current s :=
  not_complete_stale

/-- Completeness without "no second build" is false, even if the follower does not enter in phase `lockedNoLog`. -/
theorem follow_complete_false_rebuild :
    ¬ ∀ (insts : List (List Nat)) (ph : Phase) (es : List Ev) (s : Sys), ph ≠ .lockedNoLog →
        run (enter insts ph) es = some s → s.pc = .stopped → s.emitted.reverse = current s :=
  not_complete_rebuild

/-! ## 4. The follower does not return early -/

/-- In a session without `create`: when the follower has returned the build is over, and no line can be written
any more unless a new instance is created. -/
theorem follow_never_stops_early (insts : List (List Nat)) (ph : Phase) (es : List Ev) (s : Sys)
    (hb : Ev.create ∉ es) (h : run (enter insts ph) es = some s) (hpc : s.pc = .stopped) :
    s.phase ≠ .building ∧
    ∀ es' s', Ev.create ∉ es' → run s es' = some s' → ∀ l, Ev.append l ∉ es' :=
  follow_never_stops_early_stmt insts ph es s hb h hpc

/-- The same read the other way (this is the invariant of the proof): while the build is running the follower
has not returned, and after its first step it believes the target locked. -/
theorem follow_not_stopped_while_building (insts : List (List Nat)) (ph : Phase) (es : List Ev) (s : Sys)
    (hb : Ev.create ∉ es) (h : run (enter insts ph) es = some s) (hph : s.phase = .building) :
    s.pc ≠ .stopped ∧ (s.pc ≠ .start → s.wasLocked = true) :=
  follow_not_stopped_while_building_stmt insts ph es s hb h hph

/-! ## 5. The follower returns once the lock is free -/

/-- From any reachable state with the lock free (in fact from any state: reachability is not used), at most
`2 * remaining + 5` follower steps in a row lead to the return. -/
theorem follow_stops (insts : List (List Nat)) (ph : Phase) (es : List Ev) (s : Sys)
    (h : run (enter insts ph) es = some s) (hph : s.phase = .idle) :
    ∃ n s', n ≤ 2 * remaining s + 5 ∧ run s (List.replicate n .fol) = some s' ∧ s'.pc = .stopped :=
  follow_stops_stmt insts ph es s h hph

/-- Any state, with what does not change on the way. -/
theorem follow_stops_any (s : Sys) (hph : s.phase = .idle) :
    ∃ n s', n ≤ 2 * remaining s + 5 ∧ run s (List.replicate n .fol) = some s' ∧ s'.pc = .stopped ∧
      s'.phase = .idle ∧ s'.insts = s.insts :=
  follow_stops_core s hph

/-- The bound is attained: one line left, follower at the top of the loop believing the target locked: 7 steps and
not fewer. -/
theorem follow_stops_bound_attained :
    remaining slowState = 1 ∧
    (∀ n, n < 7 → (run slowState (List.replicate n .fol)).map (·.pc) ≠ some .stopped) ∧
    (run slowState (List.replicate 7 .fol)).map (·.pc) = some .stopped :=
  ⟨slowState_remaining, slowState_needs_7⟩

/-- Liveness and completeness together: in a session without `create`, once the lock is free a bounded number
of follower steps ends the loop with the whole log shown. -/
theorem follow_stops_complete (insts : List (List Nat)) (ph : Phase) (es : List Ev) (s : Sys)
    (hb : Ev.create ∉ es) (h : run (enter insts ph) es = some s) (hph : s.phase = .idle) :
    ∃ n s', n ≤ 2 * remaining s + 5 ∧ run (enter insts ph) (es ++ List.replicate n .fol) = some s' ∧
      s'.pc = .stopped ∧ s'.emitted.reverse = current s ∧ current s' = current s :=
  follow_stops_complete_core insts ph es s hb h hph

/-! ## 6. Partial reads are glued into the lines of the byte stream -/

/-- Gluing the results of `read_line` (each non-empty, a newline at most at its end) gives exactly the lines of
the concatenated bytes, and the same unterminated rest — from any `line_head`. -/
theorem feed_is_split (ps : List (List Nat)) (head : List Nat) (h : ∀ p ∈ ps, Piece p) :
    feedAll head ps = splitLines head ps.flatten :=
  feed_is_split_core ps head h

/-- Non-vacuity: six pieces, three lines (one empty), an unterminated rest. -/
example : (∀ p ∈ [[1, 2], [3, 10], [10], [4], [5, 6, 10], [7]], Piece p) ∧
    feedAll [] [[1, 2], [3, 10], [10], [4], [5, 6, 10], [7]] = ([[1, 2, 3], [], [4, 5, 6]], [7]) ∧
    splitLines [] [1, 2, 3, 10, 10, 4, 5, 6, 10, 7] = ([[1, 2, 3], [], [4, 5, 6]], [7]) :=
  pieces_example

/-- The hypothesis is needed: a piece with a newline in its middle is not split. -/
theorem feed_needs_pieces : feedAll [] [[1, 10, 2, 10]] ≠ splitLines [] [[1, 10, 2, 10]].flatten :=
  feed_bad_piece

end C18
