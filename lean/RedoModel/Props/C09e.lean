import RedoModel.Lemmas.RunTokInv
/-!
# C09 — the enabling guards of the token counter are consequences of the control flow

`TokLoop` (the token counter of one process, Props/C09 `no_panic`) assumes when the control flow can reach
`JobServerHandle::start` and `release_mine` ("only with a token") and answers `.disabled` otherwise.  Here the counter
runs in PRODUCT with the control flow of `builder::run` (`RedoModel/RunTok.lean` = `RunLoop` × `TokLoop`): the control
flow drives `start`, `release_mine` and `wait_all`, the event loop interleaves child exits, token reads and cheats at
any program counter, and a counter step that the control flow reaches although `TokLoop` calls it unreachable is the
outcome `stuck`.  The only assumption linking the two machines is the contract of `ensure_token_or_cheat` (it returns
only when the process holds a token).  `PSt.treeTop` says whether the process is the top of its redo tree under a
foreign jobserver (then "`run` returned" drives `TokLoop`'s `.exitTop` instead of `.exit`); the theorems hold for both
(argument `top`, default `false`).  Property theorems only.
-/
namespace C09
open RedoModel RedoModel.RunTok

/-- No Rust assertion on the token counter fails, whatever the control flow and the environment do. -/
theorem product_never_panics (c : RunLoop.Cfg) (es : List PEv) (top : Bool := false) :
    prun c { treeTop := top } es ≠ .panic := by
  intro h
  have := prun_good (c := c) (PInv.initTop top) es
  rw [h] at this; exact this

/-- `start` and `release_mine` are only ever reached with a token: the enabling guards of `TokLoop` follow from the
control flow and the `ensure_token_or_cheat` contract. -/
theorem product_never_stuck (c : RunLoop.Cfg) (es : List PEv) (top : Bool := false) :
    prun c { treeTop := top } es ≠ .stuck := by
  intro h
  have := prun_good (c := c) (PInv.initTop top) es
  rw [h] at this; exact this

/-- In every reachable state of the product the process holds at most one token. -/
theorem product_at_most_one_token (c : RunLoop.Cfg) (es : List PEv) (s : PSt) {top : Bool}
    (h : prun c { treeTop := top } es = .ok s) :
    s.tok.my ≤ 1 := by
  have := prun_good (c := c) (PInv.initTop top) es
  rw [h] at this; exact this.le

/-- Whenever the control flow believes it has a token in hand (`RunLoop`'s `tokHeld`, see `token_in_hand` in C09d for
the program counters where that is the case), the counter agrees. -/
theorem product_token_in_hand_is_counted (c : RunLoop.Cfg) (es : List PEv) (s : PSt) {top : Bool}
    (h : prun c { treeTop := top } es = .ok s)
    (ht : s.ctl.tokHeld = true) : s.tok.my = 1 := by
  have := prun_good (c := c) (PInv.initTop top) es
  rw [h] at this; exact this.hand ht

/-- At the program counters from which `start` or `release_mine` can be reached, the process holds exactly one
token. -/
theorem product_one_token_where_needed (c : RunLoop.Cfg) (es : List PEv) (s : PSt) {top : Bool}
    (h : prun c { treeTop := top } es = .ok s)
    (hp : RunLoop.needsTokenPc s.ctl.pc = true) : s.tok.my = 1 := by
  have := prun_good (c := c) (PInv.initTop top) es
  rw [h] at this; exact this.hand (this.ctl.tok hp)

/-- The counter's `running` is the number of forks whose child's exit has not been noticed yet. -/
theorem product_running_counts_unexited_children (c : RunLoop.Cfg) (es : List PEv) (s : PSt) {top : Bool}
    (h : prun c { treeTop := top } es = .ok s) : s.tok.running + es.countP isExit = es.countP isFork := by
  have := prun_running h
  simpa using this

/-- The product only restricts the control flow: the control events of an accepted product run are an accepted run of
`RunLoop`, with the same final control state — so every `RunLoop` theorem (C05c, C06b, C07d, C09d) holds of the
product. -/
theorem product_projects_to_control (c : RunLoop.Cfg) (es : List PEv) (s : PSt) {top : Bool}
    (h : prun c { treeTop := top } es = .ok s) :
    RunLoop.run c {} (es.filterMap ctlOf) = .ok s.ctl :=
  prun_ctl h

/-! ## Non-vacuity -/

/-- An accepted run: two jobs forked (the second with a token read from the pipe), a child exit that gives the token
for a third target whose lock is busy, the jobs end, `wait_all`, the queued target: `try_lock` fails, `release_mine`,
blocking wait, unlock, a cheat (idle, no token), the target is built by a third job whose exit settles the cheat. -/
def sampleRun : List PEv :=
  [.ctl .tok, .ctl (.chk false), .ctl (.target 1), .ctl (.tryLock 1 true), .ctl (.begin 1), .ctl (.forked 1),
   .tokenRead,
   .ctl .tok, .ctl (.chk false), .ctl (.target 2), .ctl (.tryLock 2 true), .ctl (.begin 2), .ctl (.forked 2),
   .childExit,
   .ctl .tok, .ctl (.chk false), .ctl (.target 3), .ctl (.tryLock 3 false),
   .childExit, .ctl (.jobEnd 1 false), .ctl (.jobEnd 2 false),
   .ctl .waitAll, .ctl (.chk false),
   .ctl .tok, .ctl (.tryLock 3 false), .ctl .releaseMine, .ctl (.waited 3), .ctl (.unlock 3),
   .cheat,
   .ctl .tok, .ctl (.tryLock 3 true), .ctl (.begin 3), .ctl (.forked 3),
   .childExit, .ctl (.jobEnd 3 false),
   .ctl .waitAll, .ctl (.chk false), .ctl (.fin true)]

example : (match prun {} {} sampleRun with
    | .ok s => s.ctl.pc == .ended true && s.tok == { my := 0, cheats := 0, running := 0, exited := true }
    | _ => false) = true := by decide

/-- In the middle of it: blocked in `wait_lock` without a token, then with the synthesised one. -/
example : (match prun {} {} (sampleRun.take 26) with
    | .ok s => s.ctl.pc == .l2wait 3 && s.tok == { my := 0, cheats := 0, running := 0 }
    | _ => false) = true := by decide

example : (match prun {} {} (sampleRun.take 30) with
    | .ok s => s.ctl.pc == .l2try 3 && s.tok == { my := 1, cheats := 1, running := 0 }
    | _ => false) = true := by decide

/-- Every cheat of the product is backed (token in hand or a child under way): the invariant behind the two assertions
of `do_force_return_tokens`, which the product reaches at `.ctl (.fin ok)`. -/
theorem product_cheats_are_backed (c : RunLoop.Cfg) (es : List PEv) (s : PSt) {top : Bool}
    (h : prun c { treeTop := top } es = .ok s) :
    TokLoop.Backed s.tok := by
  have := prun_good (c := c) (PInv.initTop top) es
  rw [h] at this; exact this.backed

/-- The top of a redo tree under a foreign (make-style) jobserver (`treeTop`): once `run` has returned and
`do_force_return_tokens` has run, the process holds exactly one token — the one make gets back — whatever the control
flow and the environment did before. -/
theorem product_tree_top_leaves_with_a_token (c : RunLoop.Cfg) (es : List PEv) (s : PSt)
    (h : prun c { treeTop := true } es = .ok s) (hx : s.tok.exited = true) : s.tok.my = 1 :=
  (prun_top (PInv.initTop true) h).2 rfl (by intro h; cases h) hx

/-- `treeTop` is a constant of the process. -/
theorem product_tree_top_is_constant (c : RunLoop.Cfg) (es : List PEv) (s : PSt) {top : Bool}
    (h : prun c { treeTop := top } es = .ok s) : s.treeTop = top :=
  (prun_top (PInv.initTop top) h).1

/-- `sampleRun` at the top of a redo tree: the process that would leave with `(0, 0)` leaves with the token taken back;
everything before the exit is the same. -/
example : (match prun {} { treeTop := true } sampleRun with
    | .ok s => s.ctl.pc == .ended true && s.tok == { my := 1, cheats := 0, running := 0, exited := true }
    | _ => false) = true := by decide

example : (match prun {} { treeTop := true } (sampleRun.take 37), prun {} {} (sampleRun.take 37) with
    | .ok s, .ok s' => s.tok == s'.tok && s.tok == { my := 0, cheats := 0, running := 0 }
    | _, _ => false) = true := by decide

/-- The IOU of another process is never taken while the own cheat is outstanding: in `sampleRun`, replacing the exit
of the child that carries the synthesised token by `childExitEat` is not a behaviour, while the same step is one where
no cheat is outstanding (the first child's exit). -/
example : (prun {} {} (sampleRun.take 33 ++ [.childExitEat])).isOk = false ∧
    (prun {} {} (sampleRun.take 33 ++ [.childExit])).isOk = true ∧
    (prun {} {} (sampleRun.take 13 ++ [.childExitEat])).isOk = true := by decide

/-- Environment steps that cannot happen are rejected, not `stuck`: no child to exit, a token read or a cheat while a
token is held. -/
example : (prun {} {} [.childExit]).isOk = false ∧ (prun {} {} [.tokenRead]).isOk = false ∧
    (prun {} {} [.cheat]).isOk = false ∧ (prun {} {} [.childExit]).isStuck = false := by decide

/-- The one assumption is necessary.  Without the `ensure_token_or_cheat` contract a second token wait may return
right after a fork, with no token, and the control flow reaches `start` (or `release_mine`) where `TokLoop` says it
cannot. -/
def noTokenStart : List PEv :=
  [.ctl .tok, .ctl (.chk false), .ctl (.target 1), .ctl (.tryLock 1 true), .ctl (.begin 1), .ctl (.forked 1),
   .ctl .tok, .ctl (.chk false), .ctl (.target 2), .ctl (.tryLock 2 true), .ctl (.begin 2), .ctl (.forked 2)]

def noTokenRelease : List PEv :=
  [.ctl .tok, .ctl (.chk false), .ctl (.target 1), .ctl (.tryLock 1 false), .ctl .waitAll, .ctl (.chk false),
   .ctl .tok, .ctl (.tryLock 1 false), .ctl .releaseMine, .ctl (.waited 1), .ctl (.unlock 1),
   .ctl .tok, .ctl (.tryLock 1 false), .ctl .releaseMine]

example : (prunNoContract {} {} noTokenStart).isStuck = true := by decide
example : (prunNoContract {} {} noTokenRelease).isStuck = true := by decide

/-- With the contract the same lists are not behaviours of the process: the token wait does not return. -/
example : (prun {} {} noTokenStart).isOk = false ∧ (prun {} {} (noTokenStart.take 6)).isOk = true := by decide
example : (prun {} {} noTokenRelease).isOk = false ∧ (prun {} {} (noTokenRelease.take 11)).isOk = true := by decide

/-- `wait_all` and `tokHeld`: `RunLoop` forgets the token at `wait_all` (`tokHeld := false`) whether or not the final
poll gave it up.  Here no child is running, the poll keeps the token (`my = 1`) while `tokHeld = false` — consistent
with `product_token_in_hand_is_counted`, which is an implication, not an equivalence. -/
example : (match prun {} {} [.ctl .tok, .ctl (.chk false), .ctl (.target 1), .ctl (.tryLock 1 false), .ctl .waitAll] with
    | .ok s => s.ctl.tokHeld == false && s.tok.my == 1
    | _ => false) = true := by decide

end C09
