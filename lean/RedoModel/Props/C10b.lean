import RedoModel.Lemmas.DepsSoundRK8
import RedoModel.Lemmas.DepsSoundRK9b
import RedoModel.Lemmas.DepsSoundRK10
import RedoModel.Lemmas.DepsSoundRK11
import RedoModel.Lemmas.DepsSoundRK12
/-!
# C10, continued — recovery from kills over RICH histories
Property theorems only (applications of `RedoModel/Lemmas/DepsSoundRK*.lean`).  Model: `RedoModel/Deps.lean` with its
kill operation (`UserOp.crashCmd ts t k`: `redo-ifchange ts`, the whole process tree killed when the script of `t`
reaches step `k`; everything committed before persists, nothing after happens).

Rich histories (`RichOpK` = `RichOp` of `C01b` plus `crashCmd`): scripts may use `redo-always`, `redo-ifcreate`,
conditional declarations, may fail depending on what they read; the user may write any file, also at target names.

* The statement asked for (`RecoversRichK`: `C01.no_stale_full_rich` with kills, under `SingleDo`) is FALSE
  (`recovers_rich_is_false`): a kill after a *conditional declaration* that turned an `m` row into a `c` row leaves a
  stale target that every later `redo-ifchange` reports up to date.  A candidate defect of the real tool.
* It holds (`recovers_rich_partial`) when no script uses `redo-ifcreate` or conditional declarations
  (`NoWatchOp`): `redo-always`, content-dependent failure, hand-written files at target names, overrides are covered.
  `SingleDo` cannot be dropped (`recovery_rich_without_single_do_is_false`).
  For `redo-ifcreate` WITHOUT conditional declarations no counterexample is known; it is excluded because the
  invariant `Base.recA` (`RecTruth` asks for the recorded rows unconditionally) does not survive such a kill, not
  because recovery is known to fail.
-/
namespace C10
open RedoModel.Deps RedoModel.Deps.Rich

/-- **The unrestricted statement is false.**  History (`kcOps`; rules: target 2 has the single .do file 1):
`setProg` of the script `if [ -e 5 ]; then redo-ifchange 5; else redo-ifcreate 5; fi; cat 5`; write source 5 and
.do file 1; `redo-ifchange 2` (row `(2, 5, m)`); remove 5; `redo-ifchange 2` killed at step 0 of the script of 2,
i.e. right after the conditional declaration, which has replaced `(2, 5, m)` by `(2, 5, c)`; the record and the file
of 2 are untouched.  Recovery `redo-ifchange 2`: exit status 0, nothing runs (`kc_eval`), 2 keeps the content
computed from the removed file. -/
theorem recovers_rich_is_false : ¬ RecoversRichK := not_recoversRichK

/-- **A kill at any script step is recovered from, rich histories** (partial: `NoWatchOp` — no script of the history
uses `redo-ifcreate` or conditional declarations — is added; forced for conditional declarations by
`recovers_rich_is_false`).  After any rich history (`redo-always`, content-dependent failure, hand-written files at
target names, hand edits of generated targets) in which any number of `redo-ifchange` runs were killed (whole tree,
any script, any step), whenever a later `redo-ifchange ts` / `redo ts` exits 0 every target named is up to date. -/
theorem recovers_rich_partial (n : Nat) (rules : Nat → List Nat) (rank : Nat → Nat) (ops : List UserOp) (ts : List Nat)
    (kg forced : Bool) (hr : RulesOk rules) (hS : SingleDo rules) (hp : ∀ op ∈ ops, RichOpK rules op)
    (hnw : ∀ op ∈ ops, NoWatchOp op)
    (hrk : ∀ w ∈ worldsOf n {} (initWorld rules) ops, RankedR rank w) (hN : ∀ f, rank f < n)
    (hok : OpsOkW n (initWorld rules) ops) (hts0 : ∀ t ∈ ts, t ≠ alwaysId) :
    let w := ops.foldl (fun w op => (applyOp {} n op w).2) (initWorld rules)
    let r := runCmd {} n (if forced then .redo ts kg else .ifchange ts kg) w
    r.1.status = 0 → ∀ t ∈ ts, UpToDateR r.2 t :=
  recoversRichK_partial n rules rank ops ts kg forced hr hS hp hnw hrk hN hok hts0

/-- **Stage 1 with kills, full strength**: for histories of `AlwaysOp` operations (`redo-always`, content-dependent
failure, reads ⊆ declarations; plain user writes) and killed runs nothing but `SingleDo` (necessary) is added to the
hypotheses of `C01.no_stale_full_always`. -/
theorem recovers_always (n : Nat) (rules : Nat → List Nat) (rank : Nat → Nat) (ops : List UserOp) (ts : List Nat)
    (kg forced : Bool) (hr : RulesOk rules) (hS : SingleDo rules) (hp : ∀ op ∈ ops, AlwaysOpK rules op)
    (hrk : ∀ w ∈ worldsOf n {} (initWorld rules) ops, RankedR rank w) (hN : ∀ f, rank f < n)
    (hok : OpsOkW n (initWorld rules) ops) (hts0 : ∀ t ∈ ts, t ≠ alwaysId) :
    let w := ops.foldl (fun w op => (applyOp {} n op w).2) (initWorld rules)
    let r := runCmd {} n (if forced then .redo ts kg else .ifchange ts kg) w
    r.1.status = 0 → ∀ t ∈ ts, UpToDateR r.2 t :=
  recoversAlwaysK n rules rank ops ts kg forced hr hS hp hrk hN hok hts0

/-- Stage 2 (`WatchOp` + kills: `redo-ifcreate`, conditional declarations, plain user writes) is already false: the
counterexample history of `recovers_rich_is_false` writes plain files only. -/
theorem recovers_watch_is_false : ¬ RecoversWatchK := not_recoversWatchK

/-- `SingleDo` cannot be dropped from `recovers_rich_partial` (the finding `killed-build-forgets-old-dofile`, for
the rich notion of up-to-date). -/
theorem recovery_rich_without_single_do_is_false : ¬ RecoversRichK_noSingle := not_recoversRichK_noSingle

/-- **The rich between-commands invariant survives a killed run** (partial: side conditions `SK w` — `SingleDo`, no
script in place uses `redo-ifcreate`/conditional declarations, `c` rows only for absent .do candidates).  "No
half-written state of the killed run misleads later runs"; targets built afterwards keep reacting to source changes
(apply `recovers_rich_partial` to the longer history).  The side conditions hold again afterwards
(`side_conditions_survive_kill`). -/
theorem kill_keeps_invariant_rich_partial {rank : Nat → Nat} {N : Nat} {w : World} (d : Defects) (hN : ∀ f, rank f < N)
    (hS : SK w) (h : Rich.Btw rank w) (ts : List Nat) (t k : Nat) (hts0 : ∀ x ∈ ts, x ≠ alwaysId) :
    Rich.Btw rank (applyOp d N (.crashCmd ts t k) w).2 ∧ (applyOp d N (.crashCmd ts t k) w).2.rules = w.rules :=
  crashCmd_btw d hN hS h ts t k hts0

/-- Under `SingleDo` alone the invariant does NOT survive every kill (scripts with conditional declarations). -/
theorem kill_keeps_invariant_rich_is_false : ¬ KillKeepsBtw := not_killKeepsBtw

/-- The side conditions hold in the empty project … -/
theorem side_conditions_init {rules : Nat → List Nat} (hS : SingleDo rules) : SK (initWorld rules) := SK_init hS

/-- … and survive every operation that introduces no watching script — kills included. -/
theorem side_conditions_survive (d : Defects) (n : Nat) (op : UserOp) (w : World) (hop : NoWatchOp op) (h : SK w) :
    SK (applyOp d n op w).2 := applyOp_sk d n op w hop h

/-- Kill, then recover: invariant and side conditions after the kill and after the recovery command, and soundness
of the recovery command. -/
theorem kill_then_recover_rich {rank : Nat → Nat} {N : Nat} {w : World} (hN : ∀ f, rank f < N) (hS : SK w)
    (h : Rich.Btw rank w) (ts : List Nat) (t k : Nat) (hts0 : ∀ x ∈ ts, x ≠ alwaysId) (ts' : List Nat) (kg forced : Bool)
    (hts0' : ∀ x ∈ ts', x ≠ alwaysId) :
    let w1 := (applyOp {} N (.crashCmd ts t k) w).2
    let r := runCmd {} N (if forced then .redo ts' kg else .ifchange ts' kg) w1
    Rich.Btw rank w1 ∧ SK w1 ∧ Rich.Btw rank r.2 ∧ SK r.2 ∧ (r.1.status = 0 → ∀ x ∈ ts', UpToDateR r.2 x) :=
  recovery_is_sound_rich hN hS h ts t k hts0 ts' kg forced hts0'

/-- **Non-vacuity**: the history `kaOps` (target 3 <- 2; target 2: `redo-always; redo-ifchange 5`, fails on odd
versions of 5; built; 5 edited; the rebuild killed at step 1 of the script of 3, after the nested rebuild of 2)
satisfies every hypothesis of `recovers_rich_partial`; evaluated: the run is killed (`CRASHED`), the recovery exits 0
and runs 3 and 2 again. -/
theorem recovers_rich_example_run :
    kaSummary = (some CRASHED, [.ran 2, .ran 3, .ran 2, .ran 3], 0,
      [.ran 2, .ran 3, .ran 2, .ran 3, .ran 2, .ran 3], some [4, 0, 7, 1], some [6, 0, 4, 0, 7, 1, 1]) := ka_eval

/-- … and the conclusion of `recovers_rich_partial` on it. -/
theorem recovers_rich_example :
    UpToDateR (runCmd {} 3 (.ifchange [3] false)
      (kaOps.foldl (fun w op => (applyOp {} 3 op w).2) (initWorld r3Rules))).2 3 := ka_recovered

/-- Evidence for `redo-ifcreate` (one evaluated instance, outside `recovers_rich_partial`): target 2 built by
`redo-ifchange 5; cat 5`; the .do file edited to `redo-ifcreate 5`, 5 removed; the rebuild killed at step 0 (the row
`(2, 5, m)` already replaced by `(2, 5, c)`); the recovery `redo-ifchange 2` exits 0 and DOES rebuild 2 (the killed
build re-stamped the edited .do file, which keeps 2 dirty). -/
theorem ifcreate_kill_instance_recovers :
    icSummary = (some CRASHED, 0, [.ran 2, .ran 2, .ran 2], some [6]) := ic_eval

end C10
