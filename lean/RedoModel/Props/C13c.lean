import RedoModel.Argv
/-!
# C13 (continued) — the command line a script is started with
Property theorems only.  Model: `RedoModel/Argv.lean` (`BuildJob::start_self`: `sh -e[v][x] file $1 $2 $3`, or the
words of a `#!/` first line followed by `file $1 $2 $3`).  Tied to the code by the process-level `argv_level` of
`tools/c13.py` (an interpreter in the project records the words it was started with; shell-run scripts record
`/proc/$$/cmdline`).
-/
namespace C13
open RedoModel.Argv

/-- Whatever the script's first line says (interpreter line or not, `-v`/`-x` or not), the script file and its three
arguments `$1 $2 $3` are the last four words of the command line, and something runs them. -/
theorem script_and_args_are_last (v x : Bool) (fl d a1 a2 a3 : List Char) :
    ∃ pre, argv v x fl d a1 a2 a3 = pre ++ [d, a1, a2, a3] ∧ pre ≠ [] :=
  args_last v x fl d a1 a2 a3

/-- Without an interpreter line the script runs under `sh -e` (plus `v`, `x` when asked for). -/
theorem default_is_sh_e (v x : Bool) (fl d a1 a2 a3 : List Char) (h : (shebang.isPrefixOf (trim fl)) = false) :
    argv v x fl d a1 a2 a3 =
      ["sh".toList, "-e".toList ++ (if v then ['v'] else []) ++ (if x then ['x'] else []), d, a1, a2, a3] :=
  default_shell v x fl d a1 a2 a3 h

/-- With an interpreter line the first word is the interpreter, an absolute path. -/
theorem interpreter_is_first_word (v x : Bool) (fl d a1 a2 a3 : List Char) (h : (shebang.isPrefixOf (trim fl)) = true) :
    ∃ w ws, argv v x fl d a1 a2 a3 = ('/' :: w) :: ws :=
  interpreter_first v x fl d a1 a2 a3 h

end C13
