import RedoModel.Props.C05c
import RedoModel.Props.C05a
import RedoModel.Props.C05b
/-! # C05 — the property theorems are in `C05a.lean` (one-step mechanisms) and `C05b.lean` (whole
commands: propagation to the top, no failure behind a zero status, not run twice, retried next run,
keep-going and stop rules). -/
