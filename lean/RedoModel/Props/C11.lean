import RedoModel.Lemmas.Deps
import RedoModel.Lemmas.DepsOwned
import RedoModel.Props.C11b
/-!
# C11 — redo never overwrites or deletes files it did not produce
Property theorems only.  Model: `RedoModel/Deps.lean`.
-/
namespace C11
open RedoModel.Deps

def ranIn (w : World) : List Nat := w.trace.filterMap (fun e => match e with | .ran t => some t | _ => none)

/-- A file that exists and is not recorded as generated is treated as a source when a build of
its name is requested, even though a .do rule may match: nothing is executed, no file changes,
the command succeeds. -/
theorem source_untouched (E : Engine) (d : Defects) (cx : Ctx) (t : Nat) (sf : Rec) (w : World)
    (hex : existsF w t = true) (hng : sf.isGenerated = false) :
    (startSelf E d cx t sf w).1 = 0 ∧ (startSelf E d cx t sf w).2.fs = w.fs ∧
    ranIn (startSelf E d cx t sf w).2 = ranIn w := by
  simp [startSelf, hng, hex, existsF, setRec, ranIn] at hex ⊢
  split <;> simp [setRec, hex, existsF]

/-- A generated target that was edited or replaced by hand (its stamp differs in mtime or
size) is detected, marked overridden with a warning, and left untouched. -/
theorem hand_edit_detected (E : Engine) (d : Defects) (cx : Ctx) (t : Nat) (sf : Rec) (w : World)
    (hex : existsF w t = true) (hg : sf.isGenerated = true) (hno : sf.isOverride = false)
    (hdo : detectOverride (sf.stamp.getD .missing) (readStamp w t) = true) :
    (startSelf E d cx t sf w).1 = 0 ∧ (startSelf E d cx t sf w).2.fs = w.fs ∧
    ((startSelf E d cx t sf w).2.recs t).isOverride = true ∧
    Ev.warnOverride t ∈ (startSelf E d cx t sf w).2.trace ∧
    ranIn (startSelf E d cx t sf w).2 = ranIn w := by
  have hns : readStamp w t ≠ .missing := by
    unfold readStamp existsF at *
    cases h : w.fs t <;> simp_all
  simp [startSelf, hg, hno, hdo, hns, hex, existsF, setRec, ranIn, ev, setOverride] at hex ⊢
  simp [existsF, hex, setRec, ev]

/-- … and stays untouched by every later request while it exists (override is sticky). -/
theorem override_sticky (E : Engine) (d : Defects) (cx : Ctx) (t : Nat) (sf : Rec) (w : World)
    (hex : existsF w t = true) (hg : sf.isGenerated = true) (ho : sf.isOverride = true) :
    (startSelf E d cx t sf w).1 = 0 ∧ (startSelf E d cx t sf w).2.fs = w.fs ∧
    ((startSelf E d cx t sf w).2.recs t).isOverride = true ∧
    ranIn (startSelf E d cx t sf w).2 = ranIn w := by
  have hns : readStamp w t ≠ .missing := by
    unfold readStamp existsF at *
    cases h : w.fs t <;> simp_all
  have hex' : (w.fs t).isSome = true := hex
  simp [startSelf, hg, ho, hns, hex', existsF, setRec, ranIn, ev, setOverride]

/-- The dirtiness check (used by every command, and by `redo-ood`) never touches a file. -/
theorem check_never_writes_files (ood : Bool) (R fuel : Nat) (w : World) (c : List Nat) (f mx : Nat) (seen : List Nat) :
    (isDirty ood R fuel w c f mx seen none).2.1.fs = w.fs :=
  (isDirty_frame ood R fuel w c f mx seen none).1

/-- Recording a build writes only the target's own name. -/
theorem record_writes_only_target (cx : Ctx) (t : Nat) (sf : Rec) (rv : Status) (out : Option Content) (w : World)
    (f : Nat) (hf : f ≠ t) : (recordNewState cx t sf rv out w).2.fs f = w.fs f := by
  unfold recordNewState
  split
  · cases out <;> simp [setRec, setFile, zapDeps2, newNode, hf]
  · simp [setRec, zapDeps2]

/-! ### Whole commands and whole histories -/

/-- **No redo command ever modifies or removes a file it does not own.**  A file is the user's
(`UserOwned`) when it exists and is not recorded as generated, or is marked overridden, or is
recorded as generated but differs in mtime/size from what redo recorded (edited or replaced by
hand).  For every command (`redo`, `redo-ifchange`, with or without `-k`, `redo-ood`, `redo-targets`,
`redo-sources`), every world and every defect setting, such a file has byte-for-byte the same node
afterwards and is still the user's — even when a .do rule matches its name, at any depth of nested
`redo-ifchange` calls, including the out-of-band rebuild path. -/
theorem command_never_touches_user_files (d : Defects) (n : Nat) (c : Cmd) (w : World) (f : Nat)
    (h : UserOwned w f) :
    (runCmd d n c w).2.fs f = w.fs f ∧ UserOwned (runCmd d n c w).2 f :=
  runCmd_keepsUser d n c w f h

/-- … and so for every sequence of commands (killed ones included) run between two actions of the
user: the override is sticky until the user removes the file. -/
theorem history_never_touches_user_files (d : Defects) (n : Nat) (ops : List UserOp)
    (hops : ∀ op ∈ ops, op.isCommand = true) (w : World) (f : Nat) (h : UserOwned w f) :
    (runOps d n ops w).fs f = w.fs f ∧ UserOwned (runOps d n ops w) f :=
  history_keepsUser d n ops hops w f h

end C11
