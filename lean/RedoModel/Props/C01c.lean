import RedoModel.Lemmas.DepsSoundS42
/-!
# C01, continued — soundness of the full engine model for projects that use `redo-stamp`
Property theorems only (applications of `RedoModel/Lemmas/DepsSoundS*.lean`).  Model: `RedoModel/Deps.lean`.

`Script.PlainS` = plain, except that the script may pipe its output to `redo-stamp` (`stamp = 1`: the data stamped is
the output).  This brings the checksum cut-off (a rebuilt target with an unchanged checksum does not dirty its
dependents) and the out-of-band re-decision (`redo-unlocked`: the uncertain checksummed dependencies are rebuilt
first, then the decision for the target is taken again) into the proven class.
-/
namespace C01
open RedoModel.Deps

/-- **C01 for the full engine model over histories with checksums.**  After any history of `PlainOpS` operations
during which the scripts in place respect one rank, whenever `redo-ifchange ts` or `redo ts` exits 0 every target
named is up to date — although dependents of a checksummed target are *not* rebuilt when its checksum stayed the
same, and although the decision for a target above an uncertain checksummed file is taken out of band.
`…_partial`: the proof needs `RedoKOk` — every `redo -k` *in the history* exited 0 (the final command is
unrestricted; histories without `redo -k` satisfy it: `stamp_hypothesis_holds_without_redo_k`).  The hypothesis is
proof-forced (a forced rebuild of a target that already failed in the same run would keep a checksum that no longer
describes the file); no history reaching that state is known, none was found by the differential check. -/
theorem no_stale_full_stamp_partial (n : Nat) (rules : Nat → List Nat) (rank : Nat → Nat) (ops : List UserOp)
    (ts : List Nat) (kg forced : Bool) (hr : RulesOk rules) (hp : ∀ op ∈ ops, PlainOpS rules op)
    (hrk : ∀ w ∈ worldsOf n {} (initWorld rules) ops, Ranked rank w) (hN : ∀ f, rank f < n)
    (hok : OpsOk n (initWorld rules) ops) (hk : RedoKOk n (initWorld rules) ops) :
    let w := ops.foldl (fun w op => (applyOp {} n op w).2) (initWorld rules)
    let r := runCmd {} n (if forced then .redo ts kg else .ifchange ts kg) w
    r.1.status = 0 → ∀ t ∈ ts, UpToDateD r.2 t :=
  noStaleStamp_partial n rules rank ops ts kg forced hr hp hrk hN hok hk

theorem stamp_hypothesis_holds_without_redo_k (n : Nat) (ops : List UserOp) (w : World)
    (h : ∀ op ∈ ops, ∀ ts, op ≠ .cmd (.redo ts true)) : RedoKOk n w ops :=
  redoKOk_of_none n ops w h

/-- Non-vacuity, and the cut-off at work: source 5, checksummed `mid` (3) reading it, `top` (4) reading `mid`; after a
build, `mid`'s file is removed and `redo-ifchange top` is run: exit 0, only `mid` runs again (out of band; its
checksum is unchanged), `top` is not rebuilt — and is up to date, by the theorem. -/
theorem stamp_cutoff_example_trace : S.sResA.1.status = 0 ∧ S.sResA.2.trace = [.ran 3, .ran 3, .ran 4] :=
  ⟨S.sA_status, S.sA_trace⟩

end C01
