import RedoModel.Lemmas.Deps
import RedoModel.Props.C03b
import RedoModel.Props.C03c
/-!
# C03 — Checksum cut-off: redo-stamp stops and forwards change exactly
Property theorems only.  Model: `RedoModel/Deps.lean`.
-/
namespace C03
open RedoModel.Deps

/-- `redo-stamp` with an unchanged checksum marks the target *checked* in this run and leaves
`changed_runid` alone: dependents compare against the old `changed_runid` and see no change. -/
theorem stamp_same (r : Rec) (R : Nat) (data : Content) (h : r.csum = some data) :
    (stampRec r R data).changed = r.changed ∧ (stampRec r R data).checked = some R ∧
    (stampRec r R data).csum = some data ∧ (stampRec r R data).isGenerated = true := by
  simp [stampRec, h]

/-- `redo-stamp` with a different checksum marks the target *changed* in this run and
records the new checksum. -/
theorem stamp_changed (r : Rec) (R : Nat) (data : Content) (h : r.csum ≠ some data) :
    (stampRec r R data).changed = some R ∧ (stampRec r R data).csum = some data ∧
    (stampRec r R data).failed = none := by
  simp [stampRec, h, setChanged]

/-- Recording the build of a target that ran `redo-stamp` keeps the stamp marks: it does not
call `set_changed` again, so an unchanged checksum stays a cut-off. -/
theorem record_keeps_stamp_marks (cx : Ctx) (t : Nat) (sf : Rec) (c : Content) (w : World)
    (hm : isCheckedR (w.recs t) cx.runid = true ∨ isChangedR (w.recs t) cx.runid = true) :
    ((recordNewState cx t sf 0 (some c) w).2.recs t).changed = (w.recs t).changed ∧
    ((recordNewState cx t sf 0 (some c) w).2.recs t).checked = (w.recs t).checked ∧
    ((recordNewState cx t sf 0 (some c) w).2.recs t).csum = (w.recs t).csum := by
  have hm' : (isCheckedR (w.recs t) cx.runid || isChangedR (w.recs t) cx.runid) = true := by
    rcases hm with h | h <;> simp [h]
  simp [recordNewState, newNode, setFile, setRec, zapDeps2, isCheckedR, isChangedR] at hm' ⊢
  simp [hm']

/-- A plain (unstamped) successful build always counts as a change for dependents. -/
theorem record_plain_changes (cx : Ctx) (t : Nat) (sf : Rec) (c : Content) (w : World)
    (hm : isCheckedR (w.recs t) cx.runid = false) (hm2 : isChangedR (w.recs t) cx.runid = false) :
    ((recordNewState cx t sf 0 (some c) w).2.recs t).changed = some cx.runid ∧
    ((recordNewState cx t sf 0 (some c) w).2.recs t).csum = none := by
  simp [recordNewState, newNode, setFile, setRec, zapDeps2, isCheckedR, isChangedR] at hm hm2 ⊢
  simp [hm, hm2, setChanged, updateStamp]
  split <;> simp

/-- The cut-off itself: a dependency whose `changed_runid` is not newer than its dependent's
mark, and which was checked in this run, is clean for that dependent (see `C02.memoised_clean`). -/
theorem cutoff (R n : Nat) (w : World) (c : List Nat) (f mx ch : Nat) (seen : List Nat)
    (hs : f ∉ seen) (hf : (getRec w R f).failed = none) (hc : (getRec w R f).changed = some ch)
    (hle : ch ≤ mx) (hck : isCheckedR (getRec w R f) R = true) :
    (isDirty false R (n + 1) w c f mx seen none).1 = .clean := by
  have : ¬ ch > mx := by omega
  simp (config := { zeta := true, zetaHave := true }) only [isDirty, Option.getD_none, hs, hf, hc, this, hck, if_true, if_false,
    Option.isSome_none, Bool.false_eq_true]

/-- Recording an override forgets the checksum: it described the generated content, not the hand-made one, so a
later dirtiness check of the file's dependents falls back to the stamp comparison (no `need` verdict for it). -/
theorem override_forgets_checksum (w : World) (f : Nat) (r : Rec) (R : Nat) : (setOverride w f r R).csum = none := rfl

example : (setOverride (initWorld fun _ => []) 1 { csum := some [4], isGenerated := true, stamp := some .missing } 1).csum
    = none ∧ (setOverride (initWorld fun _ => []) 1 { csum := some [4], isGenerated := true } 1).isOverride = true := by
  decide

end C03
