import RedoModel.Lemmas.DepsSoundR42
/-!
# C01, continued — soundness of the full engine model beyond plain scripts
Property theorems only (applications of `RedoModel/Lemmas/DepsSoundR*.lean`).  Model: `RedoModel/Deps.lean`.

`Script.Rich` scripts may use `redo-always`, `redo-ifcreate`, declarations that depend on what exists
(`cond`), and may fail depending on what they read; the user may edit, create and remove ANY file, including
hand-written files at target names (which redo then treats as overridden: `UpToDateR.override` — such a file
stands for itself, C11).  Outside this class: `redo-stamp` (see `C03b`), kills (`C10`), hide/unhide, chmod of
target files.
-/
namespace C01
open RedoModel.Deps RedoModel.Deps.Rich

/-- **C01 for the full engine model over rich histories.**  Start from an empty project with any rule table; after
any history of rich operations during which the scripts in place respect one rank (no cycles; what a script
watches with `redo-ifcreate`/conditionally is not itself a target) and no `setProg` redefines a .do content in
place, whenever `redo-ifchange ts` or `redo ts` exits 0 every target named is up to date: its content is what its
chosen script produces from up-to-date inputs, the script's exit status and content-dependent failure are clean,
nothing it watches with `redo-ifcreate` exists, and a hand-written file stands for itself. -/
theorem no_stale_full_rich (n : Nat) (rules : Nat → List Nat) (rank : Nat → Nat) (ops : List UserOp) (ts : List Nat)
    (kg forced : Bool) (hr : RulesOk rules) (hp : ∀ op ∈ ops, RichOp rules op)
    (hrk : ∀ w ∈ worldsOf n {} (initWorld rules) ops, RankedR rank w) (hN : ∀ f, rank f < n)
    (hok : OpsOkW n (initWorld rules) ops) (hts0 : ∀ t ∈ ts, t ≠ alwaysId) :
    let w := ops.foldl (fun w op => (applyOp {} n op w).2) (initWorld rules)
    let r := runCmd {} n (if forced then .redo ts kg else .ifchange ts kg) w
    r.1.status = 0 → ∀ t ∈ ts, UpToDateR r.2 t :=
  noStaleRichFree n rules rank ops ts kg forced hr hp hrk hN hok hts0

/-- The special case without hand-written files at target names (`WatchOp`). -/
theorem no_stale_full_watch (n : Nat) (rules : Nat → List Nat) (rank : Nat → Nat) (ops : List UserOp) (ts : List Nat)
    (kg forced : Bool) (hr : RulesOk rules) (hp : ∀ op ∈ ops, WatchOp rules op)
    (hrk : ∀ w ∈ worldsOf n {} (initWorld rules) ops, RankedR rank w) (hN : ∀ f, rank f < n)
    (hok : OpsOkW n (initWorld rules) ops) (hts0 : ∀ t ∈ ts, t ≠ alwaysId) :
    let w := ops.foldl (fun w op => (applyOp {} n op w).2) (initWorld rules)
    let r := runCmd {} n (if forced then .redo ts kg else .ifchange ts kg) w
    r.1.status = 0 → ∀ t ∈ ts, UpToDateR r.2 t :=
  noStaleWatch n rules rank ops ts kg forced hr hp hrk hN hok hts0

/-- The special case of `redo-always` and content-dependent failure only (`AlwaysOp`). -/
theorem no_stale_full_always (n : Nat) (rules : Nat → List Nat) (rank : Nat → Nat) (ops : List UserOp) (ts : List Nat)
    (kg forced : Bool) (hr : RulesOk rules) (hp : ∀ op ∈ ops, AlwaysOp rules op)
    (hrk : ∀ w ∈ worldsOf n {} (initWorld rules) ops, RankedR rank w) (hN : ∀ f, rank f < n)
    (hok : OpsOkW n (initWorld rules) ops) (hts0 : ∀ t ∈ ts, t ≠ alwaysId) :
    let w := ops.foldl (fun w op => (applyOp {} n op w).2) (initWorld rules)
    let r := runCmd {} n (if forced then .redo ts kg else .ifchange ts kg) w
    r.1.status = 0 → ∀ t ∈ ts, UpToDateR r.2 t :=
  noStaleAlways n rules rank ops ts kg forced hr hp hrk hN hok hts0

end C01
