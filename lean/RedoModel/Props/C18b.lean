import RedoModel.Lemmas.CatlogDir
import RedoModel.Lemmas.Pretty
import RedoModel.Lemmas.LogRecRt
/-!
# C18 (replay half) — every stderr line appears exactly once, in order, under its target, in `redo-log -r`

Property theorems only.  Model: `RedoModel/LogRec.lean` (`lines`, `catlog`, `redoLog`);
definitions and proofs: `RedoModel/Lemmas/Catlog.lean`.

Vocabulary (all defined in `Lemmas/Catlog.lean`):
* `isRawLine l`   : `l` is emitted verbatim by `lines` — it does not parse as a record, or it is a record whose
                    kind is none of `unchanged do waiting locked unlocked done`, or it is a `done` record whose text is
                    not `<status> <name>` (`parseDoneText` fails; written by a script, passed through like other text)
                    (`isRawLine_iff`, `malformed_done_is_raw`);
* `rawLines ls`   : `(ls.filter isRawLine).map cleanLine`;
* `unglue ls`     : the lines of a log as `catlog`'s line loop sees them — a record glued to unterminated text
                    (`checking y... @@REDO:do:…@@ y`) counts as two lines, the text and the record (`unglue1`; model file);
* `newOut st st'` : the entries appended between `st` and `st'`, oldest first (`st.out` is newest first);
* `rawsOf x c`    : the texts of the `.raw` entries of `c` that are tagged `x`, in order;
* `Step`/`Run`    : the contribution of one log line / of a whole log, in log order;
* `pending F a`   : number of distinct *cleaned* keys (`normpath`) of `F` that are not in `a`.

`St.already` holds cleaned names (`normpath`): `catlog` and `lines` both key it that way.  Forests are keyed by
cleaned project-relative names (the database's key): `catlog t` reads `lookup F (normpath t)`.  Tags are the raw names
`catlog` was called with: a command-line spelling, or `joinP (dirOf t) x` for a record text `x` in the log of `t`
(names in a log are relative to the directory of the log's target); printed names (`do`, `done`) are cleaned.
-/
namespace C18
open RedoModel.LogRec RedoModel.Paths

/-! ## Running example (non-vacuity) -/

/-- `all` has text, a `do child` record, text, a second `do child`, and its `done`;
`child` has text, an in-band record of a kind `catlog` does not know, and its `done`;
`top` mentions `child` again. -/
def exF : Forest :=
  [("all".toList, some ["compiling  ".toList, "@@REDO:do:7:1.0000@@ child".toList, "linked".toList,
      "@@REDO:do:7:2.0000@@ child".toList, "@@REDO:done:7:3.0000@@ 0 all".toList]),
   ("child".toList, some ["cc child.c".toList, "@@REDO:resumed:8:1.5000@@ x".toList,
      "@@REDO:done:8:1.5000@@ 0 child".toList]),
   ("top".toList, some ["@@REDO:do:9:1.0000@@ child".toList, "top text".toList])]

def exAllLog : List (List Char) :=
  ["compiling  ".toList, "@@REDO:do:7:1.0000@@ child".toList, "linked".toList,
   "@@REDO:do:7:2.0000@@ child".toList, "@@REDO:done:7:3.0000@@ 0 all".toList]

/-- The replay `redo-log -r all top`: `child` is shown once, inside `all`, between `all`'s two text lines;
its second mention in `all` and its mention in `top` show nothing. -/
example : (redoLog exF false true 4 ["all".toList, "top".toList] ⟨[], []⟩).map (fun s => s.out.reverse) =
    .ok [⟨[], .record kDo "all".toList⟩,
         ⟨"all".toList, .raw "compiling".toList⟩,
         ⟨"all".toList, .record kDo "child".toList⟩,
         ⟨"child".toList, .raw "cc child.c".toList⟩,
         ⟨"child".toList, .raw "@@REDO:resumed:8:1.5000@@ x".toList⟩,
         ⟨"child".toList, .record kDone "0 child".toList⟩,
         ⟨"all".toList, .record kResumed "all".toList⟩,
         ⟨"all".toList, .raw "linked".toList⟩,
         ⟨"all".toList, .record kDone "0 all".toList⟩,
         ⟨[], .record kDo "top".toList⟩,
         ⟨"top".toList, .raw "top text".toList⟩] := by decide +kernel

example : rawLines exAllLog = ["compiling".toList, "linked".toList] := by decide +kernel

/-! ## 0. Ungluing: a record that follows unterminated text on the same line -/

theorem unglue_nil : unglue [] = [] := rfl

theorem unglue_cons (l : List Char) (ls : List (List Char)) : unglue (l :: ls) = unglue1 l ++ unglue ls := by
  unfold unglue
  rw [List.flatMap_cons]

/-- A line without `@` (hence without a record prefix) is one line. -/
theorem unglue_plain (l : List Char) (h : '@' ∉ l) : unglue1 l = [l] := by
  unfold unglue1
  rw [RedoModel.Pretty.findSub_pre_none l h]

/-- A line that starts with the record prefix is one line (a record at the start of a line is not split off anything). -/
theorem unglue_record_line (x : List Char) : unglue1 (pre ++ x) = [pre ++ x] := by
  have hf : findSub pre (pre ++ x) = some ([], x) := RedoModel.Pretty.findSub_pre_after [] x (by simp)
  unfold unglue1
  rw [hf]
  rfl

/-- A well-formed record (the records of `C18.roundtrip`) glued to non-empty `@`-free text is handled as two lines: the
text, then the record. -/
theorem unglue_glued (b : List Char) (r : Rec) (hb : '@' ∉ b) (hne : b ≠ [])
    (hk : ∀ c ∈ r.kind, c ≠ ':' ∧ c ≠ '@' ∧ c ≠ '\n')
    (hp : canonI32 r.pid = some r.pid) (ht : canonTs r.ts = true) (hx : '\n' ∉ r.text) :
    unglue1 (b ++ format r) = [b, format r] := by
  have hf : format r = pre ++ ((r.kind ++ ':' :: (r.pid ++ ':' :: r.ts)) ++ (sep ++ r.text)) := by
    unfold format
    rw [List.append_assoc]
  have hpar := roundtrip_proof r hk hp ht hx
  rw [hf] at hpar ⊢
  unfold unglue1
  rw [RedoModel.Pretty.findSub_pre_after b _ hb]
  have he : b.isEmpty = false := by
    cases b with
    | nil => exact absurd rfl hne
    | cons c cs => rfl
  simp only [he, Bool.false_eq_true, if_false, hpar]

/-- A log without any `@` is left as it is. -/
theorem unglue_of_plain : ∀ (ls : List (List Char)), (∀ l ∈ ls, '@' ∉ l) → unglue ls = ls
  | [], _ => rfl
  | l :: ls, h => by
    rw [unglue_cons, unglue_plain l (h l (List.mem_cons_self ..)),
      unglue_of_plain ls (fun l' hl' => h l' (List.mem_cons_of_mem _ hl'))]
    rfl

theorem isPrefix_pre_of_no_at (l : List Char) (h : '@' ∉ l) : isPrefix pre l = false := by
  cases l with
  | nil => rfl
  | cons c cs =>
    exact isPrefix_cons_ne (fun e => h (by rw [e]; exact List.mem_cons_self ..))

/-- The scenario of the repair: `all`'s script prints `checking y... ` without a newline and calls `redo-ifchange y`,
whose start record lands on the same line of `all`'s log. -/
def exGlue : Forest :=
  [("all".toList, some ["all 1".toList, "checking y... @@REDO:do:5:1.0000@@ y".toList, "yes".toList]),
   ("y".toList, some ["y 1".toList, "y 2".toList])]

example : unglue ["all 1".toList, "checking y... @@REDO:do:5:1.0000@@ y".toList, "yes".toList] =
    ["all 1".toList, "checking y... ".toList, "@@REDO:do:5:1.0000@@ y".toList, "yes".toList] := by decide +kernel

/-- The start record that follows unterminated text is followed into `y`'s log: the text is shown as a line of its own
(cleaned: `cleanLine` trims the trailing blank), then `y` is announced and its log shown, then `all` resumes. -/
theorem glued_start_record_is_followed :
    (redoLog exGlue false true (exGlue.length + 2) ["all".toList] ⟨[], []⟩).map (fun s => s.out.reverse) =
    .ok [⟨[], .record kDo "all".toList⟩,
         ⟨"all".toList, .raw "all 1".toList⟩,
         ⟨"all".toList, .raw "checking y...".toList⟩,
         ⟨"all".toList, .record kDo "y".toList⟩,
         ⟨"y".toList, .raw "y 1".toList⟩,
         ⟨"y".toList, .raw "y 2".toList⟩,
         ⟨"all".toList, .record kResumed "all".toList⟩,
         ⟨"all".toList, .raw "yes".toList⟩] := by decide +kernel

/-- A first `@@REDO:` that does not start a well-formed record leaves the line alone (it is shown as text). -/
example : unglue1 "50% @@REDO: done".toList = ["50% @@REDO: done".toList] := by decide +kernel

/-! ## 1. The raw lines of a target, each once, in order -/

/-- `isRawLine` is exactly "not one of the records `lines` interprets": not a record, a record of a kind other than
`unchanged do waiting locked unlocked done`, or a `done` record whose text is not `<status> <name>`. -/
theorem isRawLine_spec (l : List Char) :
    isRawLine l = true ↔ ∀ g, parse l = .ok g →
      g.kind ≠ kUnchanged ∧ g.kind ≠ kDo ∧ g.kind ≠ kWaiting ∧ g.kind ≠ kLocked ∧ g.kind ≠ kUnlocked ∧
      (g.kind = kDone → parseDoneText g.text = none) :=
  isRawLine_iff l

/-- A `done` record whose text is not of the form `<status> <name>` (redo never writes one; a script did) is a raw line:
the replay passes it through like other text. -/
theorem malformed_done_is_raw (l : List Char) (g : Rec) (hp : parse l = .ok g) (hk : g.kind = kDone)
    (hd : parseDoneText g.text = none) : isRawLine l = true := by
  rw [isRawLine_iff]
  intro g' hg'
  rw [hp] at hg'
  simp only [Except.ok.injEq] at hg'
  subst hg'
  rw [hk]
  exact ⟨by decide, by decide, by decide, by decide, by decide, fun _ => hd⟩

/-- … and a well-formed one is not (it is printed as a `done` record). -/
theorem wellformed_done_is_not_raw (l : List Char) (g : Rec) (hp : parse l = .ok g) (hk : g.kind = kDone)
    (v : List Char × List Char) (hd : parseDoneText g.text = some v) : isRawLine l = false := by
  cases hr : isRawLine l with
  | false => rfl
  | true =>
    have := ((isRawLine_iff l).1 hr g hp).2.2.2.2.2 hk
    rw [hd] at this; cases this

/-- The scenario of the repair: `a`'s script prints a line that looks like a `done` record but carries no
`<status> <name>`.  -/
def exBadDone : Forest :=
  [("a".toList, some ["a 1".toList, "@@REDO:done:1:1.0000@@ oops".toList, "a 2".toList,
      "@@REDO:do:5:1.0000@@ b".toList, "a 3".toList]),
   ("b".toList, some ["b 1".toList])]

example : isRawLine "@@REDO:done:1:1.0000@@ oops".toList = true ∧
    isRawLine "@@REDO:done:1:1.0000@@ 0 a".toList = false := by decide +kernel

/-- The malformed `done` line is shown as it is, in its place, and the replay goes on (before the repair it aborted):
the following text, the sub-target `b`, the `resumed` marker and the rest of `a`'s log all follow. -/
theorem malformed_done_passes_through :
    (redoLog exBadDone false true (exBadDone.length + 2) ["a".toList] ⟨[], []⟩).map (fun s => s.out.reverse) =
    .ok [⟨[], .record kDo "a".toList⟩,
         ⟨"a".toList, .raw "a 1".toList⟩,
         ⟨"a".toList, .raw "@@REDO:done:1:1.0000@@ oops".toList⟩,
         ⟨"a".toList, .raw "a 2".toList⟩,
         ⟨"a".toList, .record kDo "b".toList⟩,
         ⟨"b".toList, .raw "b 1".toList⟩,
         ⟨"a".toList, .record kResumed "a".toList⟩,
         ⟨"a".toList, .raw "a 3".toList⟩] := by decide +kernel

/-- No replay fails on a `done` record any more: the line loop reports `badDone` only if its `recurse` argument does,
and `catlog` and the whole `redo-log` run never do — whatever the forest, the options, the fuel and the state are. -/
theorem replay_never_fails_on_done (F : Forest) (optU optR : Bool) (fuel : Nat) :
    (∀ (recurse : List Char → St → Except CErr (St × Nat)), (∀ x s, recurse x s ≠ .error .badDone) →
      ∀ t ls st intr w, lines recurse optU optR t ls st intr w ≠ .error .badDone) ∧
    (∀ t st, catlog F optU optR fuel t st ≠ .error .badDone) ∧
    (∀ ts st, redoLog F optU optR fuel ts st ≠ .error .badDone) :=
  ⟨fun _ hn t ls st intr w => lines_ne_badDone hn optU optR t ls st intr w,
   catlog_ne_badDone F optU optR fuel, redoLog_ne_badDone F optU optR fuel⟩

/-- Replaying a target that was not shown yet and has a log: among the entries the call appends, the raw
ones tagged with that target are exactly the raw lines (cleaned) among the lines of the log after ungluing (a record
glued to unterminated text counts as two lines) — same lines, same order, each once. -/
theorem raw_lines_of_target (F : Forest) (optU optR : Bool) (fuel : Nat) (t : List Char) (st st' : St) (n : Nat)
    (ls : List (List Char)) (h : catlog F optU optR fuel t st = .ok (st', n)) (ht : normpath t ∉ st.already)
    (hl : lookup F (normpath t) = some (some ls)) :
    (newOut st st').filter (fun e => decide (e.tag = t) && isRaw e.out) =
      (((unglue ls).filter isRawLine).map cleanLine).map (fun l => ⟨t, .raw l⟩) := by
  rw [filter_raw_eq, catlog_raws h ht hl]; rfl

/-- The same, reading only the texts. -/
theorem raw_lines_of_target' (F : Forest) (optU optR : Bool) (fuel : Nat) (t : List Char) (st st' : St) (n : Nat)
    (ls : List (List Char)) (h : catlog F optU optR fuel t st = .ok (st', n)) (ht : normpath t ∉ st.already)
    (hl : lookup F (normpath t) = some (some ls)) :
    rawsOf t (newOut st st') = ((unglue ls).filter isRawLine).map cleanLine :=
  catlog_raws h ht hl

/-- A log of plain stderr text (none of the lines of the log after ungluing — a record glued to unterminated text
counts as two lines — starts with `@@REDO:`) is shown entirely. -/
theorem plain_log_shown (F : Forest) (optU optR : Bool) (fuel : Nat) (t : List Char) (st st' : St) (n : Nat)
    (ls : List (List Char)) (h : catlog F optU optR fuel t st = .ok (st', n)) (ht : normpath t ∉ st.already)
    (hl : lookup F (normpath t) = some (some ls)) (hplain : ∀ l ∈ unglue ls, isPrefix pre l = false) :
    rawsOf t (newOut st st') = (unglue ls).map cleanLine := by
  rw [catlog_raws h ht hl, rawLines_of_plain hplain]

/-- In particular a log without any `@` (what a script that prints no record syntax writes) is shown entirely, line
for line. -/
theorem at_free_log_shown (F : Forest) (optU optR : Bool) (fuel : Nat) (t : List Char) (st st' : St) (n : Nat)
    (ls : List (List Char)) (h : catlog F optU optR fuel t st = .ok (st', n)) (ht : normpath t ∉ st.already)
    (hl : lookup F (normpath t) = some (some ls)) (hplain : ∀ l ∈ ls, '@' ∉ l) :
    rawsOf t (newOut st st') = ls.map cleanLine := by
  have hu := unglue_of_plain ls hplain
  have := plain_log_shown F optU optR fuel t st st' n ls h ht hl
    (by rw [hu]; exact fun l hm => isPrefix_pre_of_no_at l (hplain l hm))
  rw [this, hu]

example : ∃ st' n, catlog exF false true 4 "all".toList ⟨[], []⟩ = .ok (st', n) ∧
    normpath "all".toList ∉ (⟨[], []⟩ : St).already ∧ lookup exF (normpath "all".toList) = some (some exAllLog) ∧
    rawsOf "all".toList (newOut ⟨[], []⟩ st') = ["compiling".toList, "linked".toList] := by
  generalize hc : catlog exF false true 4 "all".toList ⟨[], []⟩ = r
  have hok : r.isOk = true := by subst hc; decide +kernel
  cases r with
  | error e => cases hok
  | ok v =>
    obtain ⟨st', n⟩ := v
    have hl : lookup exF (normpath "all".toList) = some (some exAllLog) := by decide +kernel
    refine ⟨st', n, rfl, by simp, hl, ?_⟩
    rw [raw_lines_of_target' exF false true 4 _ _ _ _ _ hc (by simp) hl]
    decide +kernel

/-! ## 2. Replay only appends -/

theorem prefix_preserved (F : Forest) (optU optR : Bool) (fuel : Nat) (t : List Char) (st st' : St) (n : Nat)
    (h : catlog F optU optR fuel t st = .ok (st', n)) :
    st.out <:+ st'.out ∧ st.already ⊆ st'.already := by
  obtain ⟨c, hc, hg⟩ := catlog_good F optU optR fuel t st st' n h
  exact ⟨⟨c.reverse, hc.symm⟩, hg.sub⟩

/-- `newOut` is exactly what was appended. -/
theorem out_eq_newOut (F : Forest) (optU optR : Bool) (fuel : Nat) (t : List Char) (st st' : St) (n : Nat)
    (h : catlog F optU optR fuel t st = .ok (st', n)) :
    st'.out.reverse = st.out.reverse ++ newOut st st' := by
  obtain ⟨c, hc, _⟩ := catlog_good F optU optR fuel t st st' n h
  rw [newOut_eq hc, hc]; simp

/-! ## 3. Every target is shown at most once -/

/-- A target whose cleaned name was already shown emits nothing. -/
theorem already_shown_emits_nothing (F : Forest) (optU optR : Bool) (fuel : Nat) (t : List Char) (st : St)
    (h : normpath t ∈ st.already) : catlog F optU optR (fuel + 1) t st = .ok (st, 0) :=
  catlog_already h

/-- A successful replay marks its target (cleaned name) as shown. -/
theorem replay_marks_shown (F : Forest) (optU optR : Bool) (fuel : Nat) (t : List Char) (st st' : St) (n : Nat)
    (h : catlog F optU optR fuel t st = .ok (st', n)) : normpath t ∈ st'.already :=
  catlog_mem_already h

/-- During any successful `catlog` call, everything appended is attributed to targets that were not shown
before the call and are marked shown after it; and for every target the call shows nothing or that
target's log — the lines of the log after ungluing (a record glued to unterminated text counts as two lines) — once. -/
theorem replay_shows_each_once (F : Forest) (optU optR : Bool) (fuel : Nat) (t : List Char) (st st' : St) (n : Nat)
    (h : catlog F optU optR fuel t st = .ok (st', n)) :
    (∀ e ∈ newOut st st', normpath e.tag ∉ st.already ∧ normpath e.tag ∈ st'.already) ∧
    ∀ x, rawsOf x (newOut st st') = [] ∨
      ∃ ls, lookup F (normpath x) = some (some ls) ∧
        rawsOf x (newOut st st') = ((unglue ls).filter isRawLine).map cleanLine := by
  obtain ⟨c, hc, hg⟩ := catlog_good F optU optR fuel t st st' n h
  rw [newOut_eq hc]
  exact ⟨hg.tags, hg.raws⟩

/-- One whole `redo-log` run over any command-line targets, from the empty state: for every target `x`,
the raw lines attributed to `x` in the final output are either none, or exactly the raw lines among the lines of
`x`'s log after ungluing (a record glued to unterminated text counts as two lines), once and in order — however many
paths lead to `x`. -/
theorem each_target_once (F : Forest) (optU optR : Bool) (fuel : Nat) (ts : List (List Char)) (st' : St)
    (h : redoLog F optU optR fuel ts ⟨[], []⟩ = .ok st') (x : List Char) :
    rawsOf x st'.out.reverse = [] ∨
      ∃ ls, lookup F (normpath x) = some (some ls) ∧
        rawsOf x st'.out.reverse = ((unglue ls).filter isRawLine).map cleanLine :=
  ((redoLog_inv ts _ st' (InvSt.init F []) h).1 x).2

/-- The same from any state that satisfies the invariant (in particular any state with empty output);
moreover nothing raw is attributed to a target that is not marked shown. -/
theorem each_target_once_from (F : Forest) (optU optR : Bool) (fuel : Nat) (ts : List (List Char)) (st st' : St)
    (hi : InvSt F st) (h : redoLog F optU optR fuel ts st = .ok st') (x : List Char) :
    (normpath x ∉ st'.already → rawsOf x st'.out.reverse = []) ∧
    (rawsOf x st'.out.reverse = [] ∨
      ∃ ls, lookup F (normpath x) = some (some ls) ∧
        rawsOf x st'.out.reverse = ((unglue ls).filter isRawLine).map cleanLine) :=
  (redoLog_inv ts st st' hi h).1 x

/-- The first command-line target is shown completely — the raw lines among the lines of its log after ungluing (a
record glued to unterminated text counts as two lines) — (later targets cannot add to or remove from it). -/
theorem first_target_shown (F : Forest) (optU optR : Bool) (fuel : Nat) (t : List Char) (ts : List (List Char))
    (st' : St) (ls : List (List Char)) (h : redoLog F optU optR fuel (t :: ts) ⟨[], []⟩ = .ok st')
    (hl : lookup F (normpath t) = some (some ls)) :
    rawsOf t st'.out.reverse = ((unglue ls).filter isRawLine).map cleanLine :=
  redoLog_first h hl

/-- Once a target is marked shown, the rest of the run attributes nothing raw to it any more. -/
theorem shown_is_final (F : Forest) (optU optR : Bool) (fuel : Nat) (ts : List (List Char)) (st st' : St)
    (x : List Char) (hx : normpath x ∈ st.already) (h : redoLog F optU optR fuel ts st = .ok st') :
    rawsOf x st'.out.reverse = rawsOf x st.out.reverse :=
  (redoLog_frozen ts st st' hx h).2

example : ∃ st', redoLog exF false true 4 ["all".toList, "top".toList] ⟨[], []⟩ = .ok st' ∧
    rawsOf "child".toList st'.out.reverse = ["cc child.c".toList, "@@REDO:resumed:8:1.5000@@ x".toList] ∧
    rawsOf "all".toList st'.out.reverse = ["compiling".toList, "linked".toList] := by
  generalize hc : redoLog exF false true 4 ["all".toList, "top".toList] ⟨[], []⟩ = r
  have hok : r.map (fun s => (rawsOf "child".toList s.out.reverse, rawsOf "all".toList s.out.reverse)) =
      .ok (["cc child.c".toList, "@@REDO:resumed:8:1.5000@@ x".toList], ["compiling".toList, "linked".toList]) := by
    subst hc; decide +kernel
  cases r with
  | error e => cases hok
  | ok s =>
    simp only [Except.map, Except.ok.injEq, Prod.mk.injEq] at hok
    exact ⟨s, rfl, hok.1, hok.2⟩

/-- Limit of `each_target_once` ("nothing or once" cannot be improved to "once" for every name on the command
line): forests are keyed by cleaned names and `already` is keyed by cleaned names, but tags are the spellings used.
`a`'s log says `do ./b`: the log of `b` is shown under the tag `./b` (the `do` record printed for it says `b`), and a
later `redo-log … b` prints nothing more.  This is an instance of `shown_once_per_cleaned_name` below; with the
arguments in the other order `b` is shown under the tag `b`, and `./b` has nothing. -/
def exG : Forest :=
  [("a".toList, some ["@@REDO:do:7:1.0000@@ ./b".toList]), ("b".toList, some ["y".toList])]

example : (redoLog exG false true 4 ["a".toList, "b".toList] ⟨[], []⟩).map
      (fun s => (rawsOf "b".toList s.out.reverse, rawsOf "./b".toList s.out.reverse, s.out.reverse.map (·.out))) =
    .ok ([], ["y".toList], [.record kDo "a".toList, .record kDo "b".toList, .raw "y".toList, .record kDo "b".toList]) := by
  decide +kernel

example : (redoLog exG false true 4 ["b".toList, "a".toList] ⟨[], []⟩).map
      (fun s => (rawsOf "b".toList s.out.reverse, rawsOf "./b".toList s.out.reverse)) =
    .ok (["y".toList], []) := by decide +kernel

/-! ## 3b. A target is shown once however it is spelled -/

/-- Within one successful `catlog` call, all entries (records and raw lines) that speak for one cleaned name
carry the same raw tag: a cleaned name is replayed under one spelling only. -/
theorem one_spelling_per_cleaned_name (F : Forest) (optU optR : Bool) (fuel : Nat) (t : List Char) (st st' : St)
    (n : Nat) (h : catlog F optU optR fuel t st = .ok (st', n)) :
    ∀ e1 ∈ newOut st st', ∀ e2 ∈ newOut st st', normpath e1.tag = normpath e2.tag → e1.tag = e2.tag := by
  obtain ⟨c, hc, hg⟩ := catlog_good F optU optR fuel t st st' n h
  rw [newOut_eq hc]
  exact hg.uniq

/-- … hence of two different spellings of one cleaned name at most one has raw lines in what a call appends.
No side condition on the forest or on the state is needed. -/
theorem shown_once_per_cleaned_name_catlog (F : Forest) (optU optR : Bool) (fuel : Nat) (t : List Char)
    (st st' : St) (n : Nat) (h : catlog F optU optR fuel t st = .ok (st', n)) (x y : List Char) (hxy : x ≠ y)
    (hn : normpath x = normpath y) : rawsOf x (newOut st st') = [] ∨ rawsOf y (newOut st st') = [] := by
  obtain ⟨c, hc, hg⟩ := catlog_good F optU optR fuel t st st' n h
  rw [newOut_eq hc]
  exact hg.once_per_cleaned hxy hn

/-- One whole `redo-log` run from the empty state: of two different spellings of one cleaned name, at most one
is shown (has raw lines in the output) — whatever the forest, the options and the command-line targets are. -/
theorem shown_once_per_cleaned_name (F : Forest) (optU optR : Bool) (fuel : Nat) (ts : List (List Char)) (st' : St)
    (h : redoLog F optU optR fuel ts ⟨[], []⟩ = .ok st') (x y : List Char) (hxy : x ≠ y)
    (hn : normpath x = normpath y) : rawsOf x st'.out.reverse = [] ∨ rawsOf y st'.out.reverse = [] :=
  (redoLog_inv ts _ st' (InvSt.init F []) h).2 x y hxy hn

/-- The same from any state satisfying the invariant. -/
theorem shown_once_per_cleaned_name_from (F : Forest) (optU optR : Bool) (fuel : Nat) (ts : List (List Char))
    (st st' : St) (hi : InvSt F st) (h : redoLog F optU optR fuel ts st = .ok st') (x y : List Char) (hxy : x ≠ y)
    (hn : normpath x = normpath y) : rawsOf x st'.out.reverse = [] ∨ rawsOf y st'.out.reverse = [] :=
  (redoLog_inv ts st st' hi h).2 x y hxy hn

/-- Non-vacuity, and the scenario of the repair: `a` mentions `b` and then `./b`, and `./b` is named again on the
command line.  Before the repair the second mention replayed the log again (the recursion had marked the raw name);
now it is shown once, under the first spelling. -/
def exH : Forest :=
  [("a".toList, some ["@@REDO:do:7:1.0000@@ b".toList, "@@REDO:do:7:2.0000@@ ./b".toList]),
   ("b".toList, some ["y".toList])]

example : "b".toList ≠ "./b".toList ∧ normpath "b".toList = normpath "./b".toList ∧
    (redoLog exH false true 4 ["a".toList, "./b".toList] ⟨[], []⟩).map
      (fun s => (rawsOf "b".toList s.out.reverse, rawsOf "./b".toList s.out.reverse)) =
    .ok (["y".toList], []) := by decide +kernel

/-! ## 4. Attribution: the output of a target is its lines in order, with complete sub-replays in between -/

/-- The output of a successful replay of `t` is the concatenation, in the order of the lines of `t`'s log after
ungluing (a record glued to unterminated text counts as two lines), of one `Step` per line; a `Step` is either some entries of `t` itself (at most two; the raw ones being exactly
the cleaned line if it is a raw line) or an optional `do` record of `t` followed by one *complete* successful
`catlog` call of the sub-target named by the line (see `Step`, `Run`). -/
theorem tags_are_nested (F : Forest) (optU optR : Bool) (fuel : Nat) (t : List Char) (st st' : St) (n : Nat)
    (ls : List (List Char)) (h : catlog F optU optR fuel t st = .ok (st', n)) (ht : normpath t ∉ st.already)
    (hl : lookup F (normpath t) = some (some ls)) :
    ∃ fuel', fuel = fuel' + 1 ∧
      Run (catlog F optU optR fuel') t (unglue ls) { st with already := normpath t :: st.already } st' :=
  catlog_run h ht hl

/-- … and the sub-replays in between never speak for `t` (or any other target that is already marked):
`t` stays in `already` during its whole loop (`prefix_preserved`), so every entry of a sub-replay carries a tag
different from `t`; together with `tags_are_nested`, the entries tagged `t` are exactly the own entries
of the steps, in line order. -/
theorem sub_replay_foreign (F : Forest) (optU optR : Bool) (fuel : Nat) (t x : List Char) (s s' : St) (k : Nat)
    (ht : normpath t ∈ s.already) (h : catlog F optU optR fuel x s = .ok (s', k)) :
    ∀ e ∈ newOut s s', e.tag ≠ t ∧ normpath e.tag ≠ normpath t := by
  obtain ⟨c, hc, hg⟩ := catlog_good F optU optR fuel x s s' k h
  rw [newOut_eq hc]
  exact fun e he => ⟨fun heq => (hg.tags e he).1 (heq ▸ ht), fun heq => (hg.tags e he).1 (heq ▸ ht)⟩

/-- Every entry emitted during the replay of `t` is tagged `t`, or with a target that was not shown before
and has been replayed (is marked shown) when the call returns. -/
theorem tags_of_replay (F : Forest) (optU optR : Bool) (fuel : Nat) (t : List Char) (st st' : St) (n : Nat)
    (h : catlog F optU optR fuel t st = .ok (st', n)) :
    ∀ e ∈ newOut st st', e.tag = t ∨ (normpath e.tag ∉ normpath t :: st.already ∧ normpath e.tag ∈ st'.already) := by
  have hf := catlog_foreign h
  obtain ⟨c, hc, hg⟩ := catlog_good F optU optR fuel t st st' n h
  rw [newOut_eq hc] at hf ⊢
  intro e he
  by_cases het : e.tag = t
  · exact Or.inl het
  · exact Or.inr ⟨fun hin => by
      rcases List.mem_cons.1 hin with e' | e'
      · exact hf e he het e'
      · exact (hg.tags e he).1 e', (hg.tags e he).2⟩

example : ∃ st' n, catlog exF false true 4 "all".toList ⟨[], []⟩ = .ok (st', n) ∧
    Run (catlog exF false true 3) "all".toList exAllLog ⟨["all".toList], []⟩ st' := by
  generalize hc : catlog exF false true 4 "all".toList ⟨[], []⟩ = r
  have hok : r.isOk = true := by subst hc; decide +kernel
  cases r with
  | error e => cases hok
  | ok v =>
    obtain ⟨st', n⟩ := v
    have hl : lookup exF (normpath "all".toList) = some (some exAllLog) := by decide +kernel
    obtain ⟨f, hf, hrun⟩ := tags_are_nested exF false true 4 _ _ _ _ _ hc (by simp) hl
    have : f = 3 := by omega
    subst this
    have hu : unglue exAllLog = exAllLog := by decide +kernel
    rw [hu] at hrun
    exact ⟨st', n, rfl, hrun⟩

/-! ## 4b. Directories: names in a log are relative to the directory of the log's target -/

/-- Every `do` record emitted by the replay of `t` itself (tag `t`) carries `normpath (joinP (dirOf t) x)` for the
text `x` of some record line among the lines of `t`'s log after ungluing (a record glued to unterminated text counts
as two lines): the name is resolved against the directory of `t`, not against the
directory `redo-log` runs in. -/
theorem names_resolve_against_log_directory (F : Forest) (optU optR : Bool) (fuel : Nat) (t : List Char)
    (st st' : St) (n : Nat) (ls : List (List Char)) (h : catlog F optU optR fuel t st = .ok (st', n))
    (ht : normpath t ∉ st.already) (hl : lookup F (normpath t) = some (some ls)) :
    ∀ e ∈ newOut st st', e.tag = t → ∀ y, e.out = .record kDo y →
      ∃ l ∈ unglue ls, ∃ g, parse l = .ok g ∧ y = normpath (joinP (dirOf t) g.text) :=
  catlog_doNames h ht hl

/-- … and the sub-replay that follows such a record is of exactly that file.  Every step of the line loop of `t`
(`tags_are_nested`) is either made of own entries of `t` only, or it is one complete `catlog` call on
`joinP (dirOf t) x` (`x` the text of the record on that line), entered with at most the `do` record carrying
`normpath (joinP (dirOf t) x)` added to the output … -/
theorem sub_replay_is_of_the_resolved_name (F : Forest) (optU optR : Bool) (fuel : Nat) (t l : List Char)
    (st st1 : St) (h : Step (catlog F optU optR fuel) t l st st1) :
    (∃ own : List Tagged, st1.out = own.reverse ++ st.out ∧ ∀ e ∈ own, e.tag = t) ∨
    ∃ (g : Rec) (s sB : St) (k : Nat), parse l = .ok g ∧
      catlog F optU optR fuel (joinP (dirOf t) g.text) s = .ok (sB, k) ∧ s.already = st.already ∧
      (s.out = st.out ∨ s.out = ⟨t, .record kDo (normpath (joinP (dirOf t) g.text))⟩ :: st.out) ∧
      st1 = { sB with already := normpath (joinP (dirOf t) g.text) :: sB.already } :=
  step_sub_call h

/-- … and a `catlog` call on any spelling `x` that is not shown yet reads the forest entry of the cleaned name
`normpath x` — for the sub-replay above the very name its `do` record carries: no log file marks the target shown and
emits nothing, a log file is shown under the tag `x` (all the raw lines among the lines of the log after ungluing — a
record glued to unterminated text counts as two lines — once, in order); an unknown name is an error. -/
theorem replay_reads_cleaned_name (F : Forest) (optU optR : Bool) (fuel : Nat) (x : List Char) (s s' : St) (k : Nat)
    (h : catlog F optU optR fuel x s = .ok (s', k)) (hx : normpath x ∉ s.already) :
    ∃ v, lookup F (normpath x) = some v ∧
      (v = none → s' = { s with already := normpath x :: s.already }) ∧
      ∀ ls, v = some ls → rawsOf x (newOut s s') = ((unglue ls).filter isRawLine).map cleanLine :=
  catlog_reads h hx

/-- Two directories: the log of `sub/a` says `do ../b` and `do c`.  The replay shows `b` (of the top directory) and
`sub/c`, each under the cleaned project-relative name, and reads exactly those two logs; the `c` of the top
directory is not touched.  The `done` record of `sub/a` names `a` relative to `sub` and is printed as `sub/a`. -/
def exD : Forest :=
  [("sub/a".toList, some ["@@REDO:do:7:1.0000@@ ../b".toList, "@@REDO:do:7:2.0000@@ c".toList,
      "@@REDO:done:7:3.0000@@ 0 a".toList]),
   ("b".toList, some ["text of b".toList]), ("c".toList, some ["text of top c".toList]),
   ("sub/c".toList, some ["text of sub/c".toList])]

example : (redoLog exD false true 5 ["./sub/a".toList] ⟨[], []⟩).map (fun s => s.out.reverse) =
    .ok [⟨[], .record kDo "sub/a".toList⟩,
         ⟨"./sub/a".toList, .record kDo "b".toList⟩,
         ⟨"./sub/../b".toList, .raw "text of b".toList⟩,
         ⟨"./sub/a".toList, .record kDo "sub/c".toList⟩,
         ⟨"./sub/c".toList, .raw "text of sub/c".toList⟩,
         ⟨"./sub/a".toList, .record kDone "0 sub/a".toList⟩] := by decide +kernel

/-- Non-vacuity of `names_resolve_against_log_directory` on `exD`: its hypotheses hold for `sub/a`, and the two `do`
records it speaks about exist and carry `b` and `sub/c`. -/
example : ∃ st' n ls, catlog exD false true 5 "sub/a".toList ⟨[], []⟩ = .ok (st', n) ∧
    normpath "sub/a".toList ∉ (⟨[], []⟩ : St).already ∧ lookup exD (normpath "sub/a".toList) = some (some ls) ∧
    ((newOut ⟨[], []⟩ st').filter (fun e => decide (e.tag = "sub/a".toList))).map (·.out) =
      [.record kDo "b".toList, .record kDo "sub/c".toList, .record kDone "0 sub/a".toList] ∧
    ∀ e ∈ newOut ⟨[], []⟩ st', e.tag = "sub/a".toList → ∀ y, e.out = .record kDo y →
      ∃ l ∈ unglue ls, ∃ g, parse l = .ok g ∧ y = normpath (joinP (dirOf "sub/a".toList) g.text) := by
  generalize hc : catlog exD false true 5 "sub/a".toList ⟨[], []⟩ = r
  have hok : r.map (fun v => ((newOut ⟨[], []⟩ v.1).filter (fun e => decide (e.tag = "sub/a".toList))).map (·.out)) =
      .ok [.record kDo "b".toList, .record kDo "sub/c".toList, .record kDone "0 sub/a".toList] := by
    subst hc; decide +kernel
  cases r with
  | error e => cases hok
  | ok v =>
    obtain ⟨st', n⟩ := v
    simp only [Except.map, Except.ok.injEq] at hok
    have hl : lookup exD (normpath "sub/a".toList) = some (some ["@@REDO:do:7:1.0000@@ ../b".toList,
        "@@REDO:do:7:2.0000@@ c".toList, "@@REDO:done:7:3.0000@@ 0 a".toList]) := by decide +kernel
    exact ⟨st', n, _, rfl, by simp, hl, hok,
      names_resolve_against_log_directory exD false true 5 _ _ _ _ _ hc (by simp) hl⟩

/-! ## 5. Fuel -/

/-- `catlog` never runs out of fuel when it has one unit per cleaned forest key not yet shown, plus one
(unknown targets give `unknownTarget`, never `outOfFuel`). -/
theorem terminates (F : Forest) (optU optR : Bool) (fuel : Nat) (t : List Char) (st : St)
    (h : pending F st.already + 1 ≤ fuel) : catlog F optU optR fuel t st ≠ .error .outOfFuel :=
  catlog_no_outOfFuel F optU optR fuel t st h

/-- `pending` is what its name says. -/
theorem pending_def (F : Forest) (a : List (List Char)) :
    pending F a = ((F.map (fun e => normpath e.1)).eraseDups.filter (fun k => decide (k ∉ a))).length := by
  unfold pending; rw [List.countP_eq_length_filter]

/-- In particular `F.length + 1` is always enough, for `catlog` and for the whole run. -/
theorem terminates_length (F : Forest) (optU optR : Bool) (fuel : Nat) (t : List Char) (st : St)
    (h : F.length + 1 ≤ fuel) : catlog F optU optR fuel t st ≠ .error .outOfFuel :=
  catlog_no_outOfFuel F optU optR fuel t st (by have := pending_le_length F st.already; omega)

theorem redoLog_terminates (F : Forest) (optU optR : Bool) (fuel : Nat) (ts : List (List Char)) (st : St)
    (h : pending F st.already + 1 ≤ fuel) : redoLog F optU optR fuel ts st ≠ .error .outOfFuel :=
  redoLog_no_outOfFuel F optU optR fuel ts st h

/-- Fuel is only a bound: any result other than `outOfFuel` (success or another error) is unchanged by more fuel. -/
theorem fuel_irrelevant (F : Forest) (optU optR : Bool) (fuel fuel' : Nat) (t : List Char) (st : St)
    (h : catlog F optU optR fuel t st ≠ .error .outOfFuel) (hle : fuel ≤ fuel') :
    catlog F optU optR fuel' t st = catlog F optU optR fuel t st := by
  obtain ⟨k, rfl⟩ := Nat.exists_eq_add_of_le hle
  exact catlog_fuel_mono h k

/-- On the example: three pending keys, so fuel 4 is enough by `terminates`; fuel 1 is not (`all` needs `child`). -/
example : pending exF [] = 3 ∧ catlog exF false true 1 "all".toList ⟨[], []⟩ = .error .outOfFuel ∧
    catlog exF false true 4 "all".toList ⟨[], []⟩ ≠ .error .outOfFuel := by
  refine ⟨by decide +kernel, by decide +kernel, ?_⟩
  exact terminates exF false true 4 _ _ (by decide +kernel)

/-- `pending` counts cleaned names: three keys `a`, `./b`, `b` are two targets (the key `./b` is not a cleaned name
and is never read), and fuel 3 is enough. -/
example :
    let G : Forest := [("a".toList, some ["@@REDO:do:7:1.0000@@ ./b".toList]), ("./b".toList, some ["x".toList]),
                       ("b".toList, some ["y".toList])]
    pending G [] = 2 ∧ (redoLog G false true 3 ["a".toList, "b".toList] ⟨[], []⟩).isOk = true := by
  decide +kernel

/-- The bound `pending + 1` is tight: a cycle `c0 → c1 → c2 → c0` has 3 pending keys, needs the 4th unit for
the innermost call (which only finds `c0` already shown), and fails with 3. -/
example :
    let G : Forest := [("c0".toList, some ["@@REDO:do:1:1.0000@@ c1".toList]),
                       ("c1".toList, some ["@@REDO:do:1:1.0000@@ c2".toList]),
                       ("c2".toList, some ["@@REDO:do:1:1.0000@@ c0".toList])]
    pending G [] = 3 ∧ catlog G false true 3 "c0".toList ⟨[], []⟩ = .error .outOfFuel ∧
    (catlog G false true 4 "c0".toList ⟨[], []⟩).isOk = true := by decide +kernel

end C18
