import RedoModel.Lemmas.DepsEval
/-!
# C02, continued — the nested-checksum over-build (recorded finding), on the model
Property theorems only, about one concrete history.  Model: `RedoModel/Deps.lean`; evaluation by the kernel through
`RedoModel/Lemmas/DepsEval.lean` (`KEval.applyOp_eq`, `KEval.runCmd_eq`: the model with `List.mergeSort` replaced by an
insertion sort that is proven equal, because the kernel cannot unfold `List.merge`).

Files: 1 = `src2`, 2 = `s2`, 3 = `s1`, 4 = `top`, 5 = `s2.do`, 6 = `s1.do`, 7 = `top.do`.
`top` declares and reads `s1`.  `s1` pipes its output to `redo-stamp`, declares `s2`, reads nothing (constant output).
`s2` pipes its output to `redo-stamp`, declares and reads `src2`.  Everything is built, then `src2` is edited.
In the encoding of the test driver (`RedoModel/DepsWire.lean`, verb `deps-run`, which also empties the ghost trace before
every operation — as `res2`, `res3` do here):

    deps-run 0000 8 2:5;3:6;4:7 w.1.0;p.25.0,-,1,-,1,1,1,1,0,-;w.5.11;p.27.0,-,2,-,-,2,1,1,0,-;w.6.12;
                                p.29.0,-,3,-,3,3,1,0,0,-;w.7.13;c.ifc.0.4;w.1.1;c.ifc.0.4;c.ifc.0.4

answers `ran=4_3_2`, `ran=2_4_3`, `ran=` for the three commands.

What happens in the second `redo-ifchange top`: the dirtiness check of `top` answers "`s2` must be built first"
(`need [s2]`, handed up through the checksummed `s1`); `s2` is rebuilt out of band and its checksum *changes*; the
decision for `top` is taken again (`redo-unlocked`, second phase, `noOob`): now `s1` is uncertain (`need [s1]`), and in
this phase an uncertain dependency means "build `top`".  `top`'s script starts, its `redo-ifchange s1` rebuilds `s1`,
whose checksum and bytes stay what they were — too late for `top`, which is already running.  With one checksummed level
only (`single_level_cutoff_is_exact`) the first phase rebuilds the checksummed target itself and the second decision finds
everything clean.
-/
namespace C02
open RedoModel.Deps

/-- The bytes of a file, if it exists. -/
def bytesOf (w : World) (f : Nat) : Option Content := (w.fs f).map (·.content)

/-- The world after a history from the empty project (scenario size 8, all defect switches off) — the form in which
the history theorems of C01 are stated. -/
def worldAfter (rules : Nat → List Nat) (ops : List UserOp) : World :=
  ops.foldl (fun w op => (applyOp {} 8 op w).2) (initWorld rules)

/-- `redo-ifchange top` (file 4) with the ghost trace emptied first, so that the trace of the result is what this
command executed (most recent first). -/
def ifchangeTop (w : World) : Result × World := runCmd {} 8 (.ifchange [4] false) { w with trace := [] }

namespace Nested
def rules : Nat → List Nat := fun t => if t = 2 then [5] else if t = 3 then [6] else if t = 4 then [7] else []
def s2S : Script := { ifchange := [[1]], reads := [1], tag := 1, outMode := 1, stamp := 1 }
def s1S : Script := { ifchange := [[2]], reads := [], tag := 2, outMode := 1, stamp := 1 }
def topS : Script := { ifchange := [[3]], reads := [3], tag := 3, outMode := 1 }
/-- Write `src2` and the three .do files (a .do file's meaning is given by its content), build `top`, edit `src2`. -/
def setup : List UserOp :=
  [ .write 1 0, .setProg (srcContent 11) s2S, .write 5 11, .setProg (srcContent 12) s1S, .write 6 12,
    .setProg (srcContent 13) topS, .write 7 13, .cmd (.ifchange [4] false), .write 1 1 ]
/-- Before the second command. -/
def w1 : World := worldAfter rules setup
/-- The second `redo-ifchange top`. -/
def res2 : Result × World := ifchangeTop w1
/-- The third. -/
def res3 : Result × World := ifchangeTop res2.2
end Nested

/-- Everything a `decide +kernel` below has to see through. -/
macro "eval_history" : tactic => `(tactic|
  (try unfold Nested.res3
   unfold Nested.res2 Nested.w1 ifchangeTop worldAfter
   rw [KEval.runCmd_eq, KEval.applyOp_eq]
   decide +kernel))

/-- The first build executes `top`, `s1`, `s2` (each script starts inside its dependent's), and before the second
command `top`'s recorded dependencies are exactly `s1` and `top.do`. -/
theorem nested_first_build :
    Nested.w1.trace = [.ran 2, .ran 3, .ran 4] ∧
    (Nested.w1.deps.filter (fun d => d.target = 4)).map (fun d => (d.source, d.modeM)) = [(3, true), (7, true)] := by
  unfold Nested.w1 worldAfter
  rw [KEval.applyOp_eq]
  decide +kernel

/-- **The over-build, reproduced by the model.**  The second `redo-ifchange top` exits 0 and executes `s2`, then `top`,
then `s1` (the trace is most recent first) — so `top`'s script ran — although the only files `top` declares kept
checksum and bytes: `s1`'s recorded checksum and `s1`'s content are the same before and after the command (and exist),
and `top.do` was not touched. -/
theorem nested_checksum_overbuild :
    Nested.res2.1.status = 0 ∧
    Nested.res2.2.trace = [.ran 3, .ran 4, .ran 2] ∧ Ev.ran 4 ∈ Nested.res2.2.trace ∧
    (Nested.res2.2.recs 3).csum = (Nested.w1.recs 3).csum ∧ (Nested.w1.recs 3).csum = some (outContent 2 []) ∧
    bytesOf Nested.res2.2 3 = bytesOf Nested.w1 3 ∧ bytesOf Nested.w1 3 = some (outContent 2 []) ∧
    bytesOf Nested.res2.2 7 = bytesOf Nested.w1 7 := by
  eval_history

/-- **…and it is harmless**: the third command executes nothing and exits 0, and leaves `top` with the bytes the second
command gave it — which are also the bytes `top` had before the second command (the rebuild reproduced them), and
which are what `top.do` makes of the current `s1` (as `s1` is of nothing, `s2` of the current `src2`): after the second
command the three targets are up to date.

No general theorem of `Props/C01*.lean` covers this history: `C01.no_stale_full_stamp_partial` is about scripts of
class `Script.PlainS` (`reads = ifchange.flatten`: a script reads everything it declares), `C01.no_stale_full_rich`
(`reads ⊆ declared`) about scripts without `redo-stamp`; `s1` declares `s2` without reading it *and* stamps.  (Informal
remark, not proven here: inside `PlainS` the situation should not arise at all — the output of a script is an injective function of what it read, so a
rebuilt `s1` keeps its checksum only if `s2` kept its bytes, and then `s2`'s rebuild leaves `s2`'s checksum alone and
nothing above it is uncertain.)  Content correctness is therefore stated here directly, by evaluation. -/
theorem nested_checksum_overbuild_is_harmless :
    Nested.res3.1.status = 0 ∧ Nested.res3.2.trace = [] ∧
    bytesOf Nested.res2.2 4 = bytesOf Nested.res3.2 4 ∧
    bytesOf Nested.res2.2 4 = bytesOf Nested.w1 4 ∧
    bytesOf Nested.res2.2 4 = some (outContent 3 [bytesOf Nested.res2.2 3]) ∧
    bytesOf Nested.res2.2 3 = some (outContent 2 []) ∧
    bytesOf Nested.res2.2 2 = some (outContent 1 [bytesOf Nested.res2.2 1]) ∧
    bytesOf Nested.res2.2 1 = some (srcContent 1) := by
  eval_history

/-! ### One checksummed level: the cut-off is exact -/

namespace Single
/-- The same project without `s2`: `s1` (3, checksummed, constant output) declares `src2` (1) itself. -/
def rules : Nat → List Nat := fun t => if t = 3 then [6] else if t = 4 then [7] else []
def s1S : Script := { ifchange := [[1]], reads := [], tag := 2, outMode := 1, stamp := 1 }
def setup : List UserOp :=
  [ .write 1 0, .setProg (srcContent 12) s1S, .write 6 12, .setProg (srcContent 13) Nested.topS, .write 7 13,
    .cmd (.ifchange [4] false), .write 1 1 ]
def w1 : World := worldAfter rules setup
def res2 : Result × World := ifchangeTop w1
def res3 : Result × World := ifchangeTop res2.2
end Single

/-- Without the lower checksummed level the second `redo-ifchange top` executes `s1` only (out of band; its checksum is
unchanged) and not `top`; the third executes nothing.  So the over-build needs two nested checksummed levels. -/
theorem single_level_cutoff_is_exact :
    Single.w1.trace = [.ran 3, .ran 4] ∧
    Single.res2.1.status = 0 ∧ Single.res2.2.trace = [.ran 3] ∧ Ev.ran 4 ∉ Single.res2.2.trace ∧
    (Single.res2.2.recs 3).csum = (Single.w1.recs 3).csum ∧ (Single.w1.recs 3).csum = some (outContent 2 []) ∧
    bytesOf Single.res2.2 4 = bytesOf Single.w1 4 ∧
    Single.res3.1.status = 0 ∧ Single.res3.2.trace = [] := by
  unfold Single.res3 Single.res2 Single.w1 ifchangeTop worldAfter
  rw [KEval.runCmd_eq, KEval.applyOp_eq]
  decide +kernel

end C02
