import RedoModel.Base
/-!
# C15 — which project database a command uses does not depend on how its targets are spelled
Property theorems only.  Model: `RedoModel/Base.lean` (`Env::init`'s search for `.redo`, after the repairs 19552e2 and — symbolic
links — of session 4), tied to
the code by the process-level differential `base_level` of tools/c15.py (the directory in which the real command
creates or finds `.redo/db.sqlite3` against `Base.baseOf`).
-/
namespace C15
open RedoModel.Paths RedoModel.Base

/-- The base is a function of the RESOLVED absolute directories of the targets (symbolic links resolved as for the
record key, then cleaned): two command lines whose targets have the same resolved directories, position by position, use
the same project database whatever the spellings (`other/../sub/x`, `./sub//x`, `$PWD/sub/x`, `link/x`). -/
theorem base_spelling_independent (canon : List Char → Option (List Char)) (hasRedo : List (List Char) → Bool)
    (cwd : List Char) (ts1 ts2 : List (List Char))
    (h : ts1.map (dirOf canon cwd) = ts2.map (dirOf canon cwd)) : baseOf canon hasRedo cwd ts1 = baseOf canon hasRedo cwd ts2 := by
  simp only [baseOf, h]

/-- Resolution is what makes it so: two spellings whose directory `realdirpath` resolves to the same path give the same
`dirOf`. -/
theorem dirOf_of_resolved_eq (canon : List Char → Option (List Char)) (cwd t1 t2 : List Char)
    (h : realdirpath canon cwd (pushPath (absPath cwd (parentOf t1)) ['_'])
       = realdirpath canon cwd (pushPath (absPath cwd (parentOf t2)) ['_'])) : dirOf canon cwd t1 = dirOf canon cwd t2 := by
  simp only [dirOf, h]

theorem mem_upwards (cs b : List (List Char)) : b ∈ upwards cs ↔ ∃ k, k ≤ cs.length ∧ b = cs.take k := by
  simp only [upwards, List.mem_map, List.mem_reverse, List.mem_range]
  constructor
  · rintro ⟨k, hk, rfl⟩; exact ⟨k, by omega, rfl⟩
  · rintro ⟨k, hk, rfl⟩; exact ⟨k, by omega, rfl⟩

/-- The base is the common leading part of all the directories involved, or one of its ancestors that holds `.redo`;
and it is the common part itself exactly when no directory from there upwards holds `.redo`. -/
theorem base_is_common_part_or_holds_redo (canon : List Char → Option (List Char)) (hasRedo : List (List Char) → Bool)
    (cwd : List Char) (ts : List (List Char)) :
    let orig := commonAll (ts.map (dirOf canon cwd) ++ [comps cwd])
    (∃ k, k ≤ orig.length ∧ baseOf canon hasRedo cwd ts = orig.take k) ∧
    (hasRedo (baseOf canon hasRedo cwd ts) = true ∨
      (baseOf canon hasRedo cwd ts = orig ∧ ∀ b ∈ upwards orig, hasRedo b = false)) := by
  intro orig
  simp only [baseOf]
  cases hf : (upwards (commonAll (ts.map (dirOf canon cwd) ++ [comps cwd]))).find? hasRedo with
  | none =>
    refine ⟨⟨orig.length, Nat.le_refl _, by simp [orig]⟩, Or.inr ⟨rfl, ?_⟩⟩
    intro b hb
    have := List.find?_eq_none.1 hf b hb
    simpa using this
  | some b =>
    have hb := List.mem_of_find?_eq_some hf
    have hp := List.find?_some hf
    exact ⟨(mem_upwards _ _).1 hb, Or.inl hp⟩

/-- The nearest one wins: no directory strictly between the base and the common part holds `.redo`. -/
theorem base_is_nearest (canon : List Char → Option (List Char)) (hasRedo : List (List Char) → Bool) (cwd : List Char)
    (ts : List (List Char)) (k : Nat) :
    let orig := commonAll (ts.map (dirOf canon cwd) ++ [comps cwd])
    k ≤ orig.length → (baseOf canon hasRedo cwd ts).length < k → hasRedo (orig.take k) = false := by
  intro orig hk hlt
  simp only [baseOf] at hlt
  cases hf : (upwards (commonAll (ts.map (dirOf canon cwd) ++ [comps cwd]))).find? hasRedo with
  | none =>
    have := List.find?_eq_none.1 hf (orig.take k) ((mem_upwards _ _).2 ⟨k, hk, rfl⟩)
    simpa using this
  | some b =>
    rw [hf] at hlt
    simp only at hlt
    -- `b` is the first element of `upwards orig` (longest first) that holds `.redo`; `orig.take k` is longer, so earlier
    rcases List.find?_eq_some_iff_append.1 hf with ⟨hpb, pre, post, hsplit, hpre⟩
    have hmem : orig.take k ∈ upwards orig := (mem_upwards _ _).2 ⟨k, hk, rfl⟩
    rw [show upwards orig = pre ++ b :: post from hsplit] at hmem
    rcases List.mem_append.1 hmem with h1 | h2
    · have := hpre _ h1; simpa using this
    · exfalso
      -- everything from `b` on in `upwards orig` is no longer than `b`
      have hsorted : ∀ x ∈ b :: post, x.length ≤ b.length := by
        have hup : upwards orig = pre ++ b :: post := hsplit
        unfold upwards at hup
        -- lengths along `upwards` are decreasing
        have hpw : (upwards orig).Pairwise (fun x y => y.length ≤ x.length) := by
          unfold upwards
          rw [List.pairwise_map]
          have : (List.range (orig.length + 1)).reverse.Pairwise (fun a b => b ≤ a) := by
            rw [List.pairwise_reverse]
            exact (List.pairwise_lt_range).imp (fun h => Nat.le_of_lt h)
          refine this.imp_of_mem ?_
          intro a c ha hc hca
          simp only [List.mem_reverse, List.mem_range] at ha hc
          simp only [List.length_take]
          omega
        rw [hsplit] at hpw
        have hp2 := (List.pairwise_append.1 hpw).2.1
        intro x hx
        rcases List.mem_cons.1 hx with rfl | hx'
        · exact Nat.le_refl _
        · exact (List.pairwise_cons.1 hp2).1 x hx'
      have := hsorted _ h2
      simp only [List.length_take] at this
      omega

section Examples

/-- `.redo` lives in `/p/sub`. -/
def exRedo (d : List (List Char)) : Bool := d == ["p".toList, "sub".toList]

/-- A tree without symbolic links in which `/p`, `/p/sub`, `/p/other` exist: `canonicalize` cleans. -/
def exCanonB (d : List Char) : Option (List Char) :=
  let c := normpath d
  if c = "/p".toList || c = "/p/sub".toList || c = "/p/other".toList || c = "/".toList then some c else none

example : baseOf exCanonB exRedo "/p/sub".toList ["x".toList] = ["p".toList, "sub".toList] := by decide +kernel
example : baseOf exCanonB exRedo "/p/sub".toList ["/p/other/../sub/x".toList] = ["p".toList, "sub".toList] := by decide +kernel
example : baseOf exCanonB exRedo "/p/sub".toList ["../other/../sub/x".toList, "./x".toList] = ["p".toList, "sub".toList] := by
  decide +kernel
/-- a target really outside: the common part is `/p`, nothing up there holds `.redo`, so `/p` becomes the base -/
example : baseOf exCanonB exRedo "/p/sub".toList ["../other/y".toList] = ["p".toList] := by decide +kernel
/-- Before the repair 19552e2 the directories were compared as spelled: `/p/other/../sub` and `/p/sub` share only `/p`. -/
example : common2 (comps "/p/other/../sub".toList) (comps "/p/sub".toList) = ["p".toList] := by decide

/-- `/D/link` is a symbolic link to `/D/real`; the project (with `.redo`) is `/D/real/proj`. -/
def lnCanon (d : List Char) : Option (List Char) :=
  let c := normpath d
  if c = "/D/link/proj".toList || c = "/D/real/proj".toList then some "/D/real/proj".toList
  else if c = "/D/link".toList || c = "/D/real".toList then some "/D/real".toList
  else if c = "/D".toList then some c else if c = "/".toList then some c else none

def lnRedo (d : List (List Char)) : Bool := d == ["D".toList, "real".toList, "proj".toList]

/-- **A spelling through a symlinked directory selects the same project database** (run in `/D/real/proj`, the target
named as `/D/link/proj/x`): the base is the project, not `/D`. -/
theorem base_through_symlink :
    baseOf lnCanon lnRedo "/D/real/proj".toList ["/D/link/proj/x".toList] = ["D".toList, "real".toList, "proj".toList] := by
  decide +kernel

/-- What the code did before the repair (directories only cleaned): the common part of `/D/link/proj` and `/D/real/proj`
is `/D`, where a second database was created. -/
theorem base_through_symlink_before_the_repair :
    baseOf (fun d => some (normpath d)) lnRedo "/D/real/proj".toList ["/D/link/proj/x".toList] = ["D".toList] := by
  decide +kernel

/-- … and in a project that does not exist yet (nothing holds `.redo`) both spellings agree on where it will be. -/
example : baseOf lnCanon (fun _ => false) "/D/real/proj".toList ["/D/link/proj/x".toList]
    = baseOf lnCanon (fun _ => false) "/D/real/proj".toList ["x".toList] := by decide +kernel

end Examples

end C15
