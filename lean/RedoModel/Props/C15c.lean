import RedoModel.Base
/-!
# C15 — which project database a command uses does not depend on how its targets are spelled
Property theorems only.  Model: `RedoModel/Base.lean` (`Env::init`'s search for `.redo`, after repair 19552e2), tied to
the code by the process-level differential `base_level` of tools/c15.py (the directory in which the real command
creates or finds `.redo/db.sqlite3` against `Base.baseOf`).
-/
namespace C15
open RedoModel.Paths RedoModel.Base

/-- The base is a function of the CLEANED absolute directories of the targets: two command lines whose targets have the
same cleaned directories, position by position, use the same project database whatever the spellings (`other/../sub/x`,
`./sub//x`, `$PWD/sub/x`). -/
theorem base_spelling_independent (hasRedo : List (List Char) → Bool) (cwd : List Char) (ts1 ts2 : List (List Char))
    (h : ts1.map (dirOf cwd) = ts2.map (dirOf cwd)) : baseOf hasRedo cwd ts1 = baseOf hasRedo cwd ts2 := by
  simp only [baseOf, h]

/-- Cleaning is what makes it so: a directory and any spelling of it that cleans to the same path give the same
`dirOf`. -/
theorem dirOf_of_clean_eq (cwd t1 t2 : List Char)
    (h : normpath (absPath cwd (parentOf t1)) = normpath (absPath cwd (parentOf t2))) : dirOf cwd t1 = dirOf cwd t2 := by
  simp only [dirOf, h]

theorem mem_upwards (cs b : List (List Char)) : b ∈ upwards cs ↔ ∃ k, k ≤ cs.length ∧ b = cs.take k := by
  simp only [upwards, List.mem_map, List.mem_reverse, List.mem_range]
  constructor
  · rintro ⟨k, hk, rfl⟩; exact ⟨k, by omega, rfl⟩
  · rintro ⟨k, hk, rfl⟩; exact ⟨k, by omega, rfl⟩

/-- The base is the common leading part of all the directories involved, or one of its ancestors that holds `.redo`;
and it is the common part itself exactly when no directory from there upwards holds `.redo`. -/
theorem base_is_common_part_or_holds_redo (hasRedo : List (List Char) → Bool) (cwd : List Char) (ts : List (List Char)) :
    let orig := commonAll (ts.map (dirOf cwd) ++ [comps cwd])
    (∃ k, k ≤ orig.length ∧ baseOf hasRedo cwd ts = orig.take k) ∧
    (hasRedo (baseOf hasRedo cwd ts) = true ∨
      (baseOf hasRedo cwd ts = orig ∧ ∀ b ∈ upwards orig, hasRedo b = false)) := by
  intro orig
  simp only [baseOf]
  cases hf : (upwards (commonAll (ts.map (dirOf cwd) ++ [comps cwd]))).find? hasRedo with
  | none =>
    refine ⟨⟨orig.length, Nat.le_refl _, by simp [orig]⟩, Or.inr ⟨rfl, ?_⟩⟩
    intro b hb
    have := List.find?_eq_none.1 hf b hb
    simpa using this
  | some b =>
    have hb := List.mem_of_find?_eq_some hf
    have hp := List.find?_some hf
    exact ⟨(mem_upwards _ _).1 hb, Or.inl hp⟩

/-- The nearest one wins: no directory strictly between the base and the common part holds `.redo`. -/
theorem base_is_nearest (hasRedo : List (List Char) → Bool) (cwd : List Char) (ts : List (List Char)) (k : Nat) :
    let orig := commonAll (ts.map (dirOf cwd) ++ [comps cwd])
    k ≤ orig.length → (baseOf hasRedo cwd ts).length < k → hasRedo (orig.take k) = false := by
  intro orig hk hlt
  simp only [baseOf] at hlt
  cases hf : (upwards (commonAll (ts.map (dirOf cwd) ++ [comps cwd]))).find? hasRedo with
  | none =>
    have := List.find?_eq_none.1 hf (orig.take k) ((mem_upwards _ _).2 ⟨k, hk, rfl⟩)
    simpa using this
  | some b =>
    rw [hf] at hlt
    simp only at hlt
    -- `b` is the first element of `upwards orig` (longest first) that holds `.redo`; `orig.take k` is longer, so earlier
    rcases List.find?_eq_some_iff_append.1 hf with ⟨hpb, pre, post, hsplit, hpre⟩
    have hmem : orig.take k ∈ upwards orig := (mem_upwards _ _).2 ⟨k, hk, rfl⟩
    rw [show upwards orig = pre ++ b :: post from hsplit] at hmem
    rcases List.mem_append.1 hmem with h1 | h2
    · have := hpre _ h1; simpa using this
    · exfalso
      -- everything from `b` on in `upwards orig` is no longer than `b`
      have hsorted : ∀ x ∈ b :: post, x.length ≤ b.length := by
        have hup : upwards orig = pre ++ b :: post := hsplit
        unfold upwards at hup
        -- lengths along `upwards` are decreasing
        have hpw : (upwards orig).Pairwise (fun x y => y.length ≤ x.length) := by
          unfold upwards
          rw [List.pairwise_map]
          have : (List.range (orig.length + 1)).reverse.Pairwise (fun a b => b ≤ a) := by
            rw [List.pairwise_reverse]
            exact (List.pairwise_lt_range).imp (fun h => Nat.le_of_lt h)
          refine this.imp_of_mem ?_
          intro a c ha hc hca
          simp only [List.mem_reverse, List.mem_range] at ha hc
          simp only [List.length_take]
          omega
        rw [hsplit] at hpw
        have hp2 := (List.pairwise_append.1 hpw).2.1
        intro x hx
        rcases List.mem_cons.1 hx with rfl | hx'
        · exact Nat.le_refl _
        · exact (List.pairwise_cons.1 hp2).1 x hx'
      have := hsorted _ h2
      simp only [List.length_take] at this
      omega

section Examples

/-- `.redo` lives in `/p/sub`. -/
def exRedo (d : List (List Char)) : Bool := d == ["p".toList, "sub".toList]

example : baseOf exRedo "/p/sub".toList ["x".toList] = ["p".toList, "sub".toList] := by decide
example : baseOf exRedo "/p/sub".toList ["/p/other/../sub/x".toList] = ["p".toList, "sub".toList] := by decide
example : baseOf exRedo "/p/sub".toList ["../other/../sub/x".toList, "./x".toList] = ["p".toList, "sub".toList] := by decide
/-- a target really outside: the common part is `/p`, nothing up there holds `.redo`, so `/p` becomes the base -/
example : baseOf exRedo "/p/sub".toList ["../other/y".toList] = ["p".toList] := by decide
/-- Before the repair the directories were compared as spelled: `/p/other/../sub` and `/p/sub` share only `/p`. -/
example : common2 (comps "/p/other/../sub".toList) (comps "/p/sub".toList) = ["p".toList] := by decide

end Examples

end C15
