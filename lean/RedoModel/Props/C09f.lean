import RedoModel.LogPipe
/-!
# C09 — the log pipe between a top-level redo and its viewer cannot deadlock the build (after repair e7e0e67)
Property theorems only.  Model: `RedoModel/LogPipe.lean`.  The model explains the hang that scenario 4e of tools/c09.py
reproduces on the tree before the repair, and shows what the repair guarantees; its tie to the code is that scenario
(the real `redo -j2 slow <400 long-named targets>` against the time bound), not a trace replay.
-/
namespace C09
open RedoModel.LogPipe

/-- Before the repair: as soon as the top-level process has more lines to write than the pipe holds while the viewer
follows a job of that very process, the system runs into a state in which nobody can move — a deadlock with every script
succeeding. -/
theorem log_pipe_deadlocks_without_drain (cap extra : Nat) :
    ∃ as s, run ⟨cap, false⟩ { toWrite := cap + extra + 1 } as = some s ∧ stuck ⟨cap, false⟩ s = true := by
  refine ⟨List.replicate cap .write, { toWrite := extra + 1, inPipe := cap }, ?_, ?_⟩
  · suffices h : ∀ k n (p : Nat), p + k = cap → run ⟨cap, false⟩ { toWrite := n + k, inPipe := p } (List.replicate k .write) =
        some { toWrite := n, inPipe := p + k } by
      have := h cap (extra + 1) 0 (by omega)
      simpa [Nat.add_comm, Nat.add_left_comm, Nat.add_assoc] using this
    intro k
    induction k with
    | zero => intro n p _; simp [run]
    | succ k ih =>
      intro n p hp
      have hlt : p < cap := by omega
      have hpos : n + (k + 1) > 0 := by omega
      simp only [List.replicate_succ, run, step, enabled, hpos, hlt, decide_true, Bool.and_self, Bool.not_true,
        Bool.false_eq_true, if_false]
      have := ih n (p + 1) (by omega)
      rw [show n + (k + 1) - 1 = n + k by omega]
      rw [this]
      congr 1
      simp only [St.mk.injEq, true_and, and_true]
      omega
  · simp [stuck, finished, enabled]

/-- After the repair no reachable state is stuck, whatever the capacity and however many lines are written. -/
theorem log_pipe_never_stuck_with_drain (cap n : Nat) (hcap : cap > 0) (as : List Act) (s : St)
    (h : run ⟨cap, true⟩ { toWrite := n } as = some s) : stuck ⟨cap, true⟩ s = false := by
  -- no invariant is needed: in EVERY state with the drain thread some action is enabled or the state is finished
  simp only [stuck, finished, enabled, List.all_cons, List.all_nil, Bool.and_true, Bool.not_and, Bool.not_not,
    Bool.and_eq_false_imp, Bool.not_eq_eq_eq_not, Bool.not_true,
    decide_eq_false_iff_not, Bool.or_eq_true, ne_eq, Bool.or_eq_false_iff]
  rcases s with ⟨tw, ip, fo, rc, bu⟩
  simp only
  by_cases h1 : tw = 0 <;> by_cases h2 : ip = 0 <;> cases fo <;> cases rc <;> by_cases h3 : bu = 0 <;>
    simp_all <;> omega

/-- … and every run ends: each action decreases a measure, so the build and its viewer finish in a bounded number of
steps (no livelock either). -/
def measure (s : St) : Nat :=
  3 * s.toWrite + 2 * s.inPipe + s.buffered + (if s.recorded then 0 else 1) + (if s.following then 1 else 0)

theorem log_pipe_step_decreases (c : Cfg) (s s' : St) (a : Act) (h : step c s a = some s') : measure s' < measure s := by
  rcases s with ⟨tw, ip, fo, rc, bu⟩
  cases a <;> simp only [step, enabled] at h
  · -- write
    by_cases h1 : tw > 0 <;> by_cases h2 : ip < c.cap <;> simp [h1, h2] at h
    subst h; simp only [measure]; omega
  · -- record
    by_cases h1 : tw = 0 <;> cases rc <;> simp [h1] at h
    subst h; simp only [measure]; cases fo <;> simp <;> omega
  · -- read
    cases fo <;> by_cases h1 : ip > 0 <;> by_cases h2 : bu > 0 <;> simp [h1, h2] at h
    all_goals (subst h; simp only [measure]; omega)
  · -- drainOne
    cases hd : c.drain <;> by_cases h1 : ip > 0 <;> simp [hd, h1] at h
    subst h; simp only [measure]; omega
  · -- leave
    cases fo <;> cases rc <;> simp at h
    subst h; simp only [measure]; simp

/-- The scenario of the regression test in the model: capacity 2, five lines. -/
example : stuck ⟨2, false⟩ { toWrite := 3, inPipe := 2 } = true := by decide
example : (run ⟨2, true⟩ { toWrite := 5 }
    [.write, .write, .drainOne, .drainOne, .write, .write, .drainOne, .write, .record, .leave, .read, .read, .read, .drainOne, .read, .read]).map finished
    = some true := by decide

end C09
