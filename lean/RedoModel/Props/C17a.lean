import RedoModel.Lemmas.Deps
/-!
# C17 — redo-ood / redo-targets / redo-sources are safe and change nothing
Property theorems only.  Model: `RedoModel/Deps.lean` (`isSource`, `isTarget`, `runCmd`).
-/
namespace C17
open RedoModel.Deps

/-- `redo-targets` and `redo-sources` are disjoint. -/
theorem partition (w : World) (R f : Nat) : ¬ (isTarget w R f = true ∧ isSource w R f = true) := by
  unfold isTarget
  intro ⟨h1, h2⟩
  split at h1
  · cases h1
  · simp [h2] at h1

/-- Everything listed as a target is marked generated. -/
theorem target_is_generated (w : World) (R f : Nat) :
    isTarget w R f = true → (getRec w R f).isGenerated = true := by
  unfold isTarget
  intro h
  split at h
  · cases h
  · rename_i hg; simpa using hg

/-- None of the three queries alters files, records or dependency rows (what `redo-ood`
writes while checking is rolled back with its never-committed transaction); they only consume
a run id. -/
theorem read_only (d : Defects) (n : Nat) (w : World) (c : Cmd)
    (hc : c = .ood ∨ c = .targets ∨ c = .sources) :
    (runCmd d n c w).2.fs = w.fs ∧ (runCmd d n c w).2.recs = w.recs ∧ (runCmd d n c w).2.deps = w.deps ∧
    (runCmd d n c w).2.runCounter = w.runCounter + 1 ∧ (runCmd d n c w).1.status = 0 := by
  rcases hc with h | h | h <;> subst h
  · have hgo : ∀ (R fuel : Nat) (fs : List Nat) (w0 : World) (cache acc : List Nat),
        SameButRecs w0 (runCmd.go R fuel fs w0 cache acc).2 := by
      intro R fuel fs
      induction fs with
      | nil => intro w0 cache acc; simp [runCmd.go, SameButRecs.refl]
      | cons f fs ih =>
        intro w0 cache acc
        rw [runCmd.go]
        have h1 := isDirty_frame true R fuel w0 cache f R [] none
        generalize isDirty true R fuel w0 cache f R [] none = r at h1
        obtain ⟨dr, w1, c1⟩ := r
        exact h1.trans (ih w1 c1 _)
    have := hgo (w.runCounter + 1) (2 * n + 4)
      ((knownFiles { w with runCounter := w.runCounter + 1 } n).filter (isTarget { w with runCounter := w.runCounter + 1 } (w.runCounter + 1)))
      { w with runCounter := w.runCounter + 1 } [] []
    obtain ⟨h1, h2, h3, _⟩ := this
    simp only [runCmd, allocRun]
    refine ⟨h1, ?_, ?_, h3, ?_⟩ <;> trivial
  · simp [runCmd, allocRun]
  · simp [runCmd, allocRun]

end C17

namespace C17
open RedoModel.Deps

/-- The classification agrees with the builder's own override test (repaired in /repo, ecaeab3): a
generated, not overridden, not failed file whose current stamp differs from the recorded one *without*
being a manual override (only mode, owner or inode differ — `chmod`, an mtime-preserving replacement)
is still a target, not a source: `redo-ifchange` of it rebuilds it, so `redo-targets`/`redo-ood`
must consider it. -/
theorem stamp_change_without_override_keeps_target (w : World) (R f : Nat) (st : DStamp)
    (hna : f ≠ alwaysId) (hg : (w.recs f).isGenerated = true) (hno : (w.recs f).isOverride = false)
    (hf : isFailedR (w.recs f) R = false) (hs : (w.recs f).stamp = some st)
    (hd : detectOverride st (readStamp w f) = false) :
    isSource w R f = false ∧ isTarget w R f = true := by
  have hr : getRec w R f = w.recs f := by simp [getRec, hna]
  have h1 : isSource w R f = false := by
    simp [isSource, hna, hr, hg, hno, hf, hs, hd]
  exact ⟨h1, by simp [isTarget, hr, hg, h1]⟩

end C17
