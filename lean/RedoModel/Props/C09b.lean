import RedoModel.Lemmas.WaitsProgress2
/-!
# C09 (lock protocol half) — no interleaving deadlocks the lock hand-over protocol on an acyclic graph

Property theorems only.  Model: `RedoModel/Waits.lean` (acceptor `step`/`run`, `enabled`, `deadlocked`);
definitions and proofs: `RedoModel/Lemmas/WaitsProgress.lean` (guard, invariant, preservation),
`RedoModel/Lemmas/WaitsProgress2.lean` (descent, progress).

Vocabulary (defined in the Lemmas files):
* `scriptGuard s p k` : `p` owns the lock of `k`, or `p` was spawned under `oobKey k`, or `k = oobKey f` and
                        `p` owns the lock of `f`.  **This guard is missing in the model** (`unguarded_script_deadlock`);
* `stepG`/`runG`      : `step`/`run` with `scriptGuard` checked on every `script` event;
* `evIn univ ev`      : if `ev` is `waitBegin p f` then `f ∈ univ` (weakest form of "locks mentioned are in `univ`");
  `mentionsIn univ ev`: every lock event (`lockOk`/`waitBegin`/`waitEnd`/`unlock`) is about a target in `univ`;
* `Inv reach univ s`  : distinct pids; a blocked process waits for a declared lock in `univ`, owns no lock and runs
                        nothing; every execution has an alive runner and a key legitimate for it (`KeyOk`); every
                        lock owner is alive and was allowed (`G2`) to ask for the lock;
* `actor ev`          : the pid an event belongs to;
* `endsWith r P`, `refused r`, `enabledTable univ s` : evaluation helpers for concrete runs.

Hypotheses on the rank (final choice).  The descent needs a measure `m` on execution keys with
`R1: f ∈ reach u → m (oobKey f) < m u` and `R2: m f < m (oobKey f)` (`progress_measure`).  `progress` obtains it as
`m k = 2 * rank k + k / 1000000` from `H0` (declared dependencies are targets, `< 1000000`), `H1` (`rank` decreases
along `reach`, for plain and out-of-band spawners alike) and `H2` (`rank (oobKey f) = rank f`);
`progress_targets` needs a rank on targets only, reading the key `u` as the target `u % 1000000`.
-/
namespace C09
open RedoModel.Waits

/-! ## The invariant -/

theorem inv_init (reach : Nat → List Nat) (univ : List Nat) : Inv reach univ {} :=
  RedoModel.Waits.inv_init reach univ

theorem step_preserves_inv (reach : Nat → List Nat) (univ : List Nat) (s s' : State) (ev : Ev)
    (hI : Inv reach univ s) (hin : evIn univ ev = true) (h : stepG reach univ s ev = .ok s') :
    Inv reach univ s' :=
  RedoModel.Waits.step_preserves_inv hI hin h

/-- The invariant rules out deadlock by itself (given the measure). -/
theorem inv_not_deadlocked (reach : Nat → List Nat) (univ : List Nat) (s : State) (m : Nat → Nat)
    (R1 : ∀ u f, f ∈ reach u → m (oobKey f) < m u) (R2 : ∀ f, m f < m (oobKey f))
    (hI : Inv reach univ s) : deadlocked s univ = false :=
  RedoModel.Waits.inv_not_deadlocked m R1 R2 hI

/-- Every run accepted with the guard is accepted by the model. -/
theorem runG_ok_run (reach : Nat → List Nat) (univ : List Nat) (es : List Ev) (s s' : State)
    (h : runG reach univ s es = .ok s') : run reach univ s es = .ok s' :=
  RedoModel.Waits.runG_ok_run h

/-! ## Progress: in every accepted state, if a process is alive then a process can move -/

theorem progress_measure (reach : Nat → List Nat) (univ : List Nat) (m : Nat → Nat)
    (R1 : ∀ u f, f ∈ reach u → m (oobKey f) < m u) (R2 : ∀ f, m f < m (oobKey f))
    (es : List Ev) (hin : ∀ ev ∈ es, evIn univ ev = true) (s : State)
    (h : runG reach univ {} es = .ok s) : deadlocked s univ = false :=
  RedoModel.Waits.progress_measure reach univ m R1 R2 es hin s h

theorem progress (reach : Nat → List Nat) (univ : List Nat) (rank : Nat → Nat)
    (H0 : ∀ u f, f ∈ reach u → f < 1000000)
    (H1 : ∀ u f, f ∈ reach u → rank f < rank u)
    (H2 : ∀ f, rank (oobKey f) = rank f)
    (es : List Ev) (hin : ∀ ev ∈ es, evIn univ ev = true) (s : State)
    (h : runG reach univ {} es = .ok s) : deadlocked s univ = false :=
  RedoModel.Waits.progress reach univ rank H0 H1 H2 es hin s h

theorem progress_targets (reach : Nat → List Nat) (univ : List Nat) (rank : Nat → Nat)
    (H : ∀ u f, f ∈ reach u → f < 1000000 ∧ rank f < rank (u % 1000000))
    (es : List Ev) (hin : ∀ ev ∈ es, evIn univ ev = true) (s : State)
    (h : runG reach univ {} es = .ok s) : deadlocked s univ = false :=
  RedoModel.Waits.progress_targets reach univ rank H es hin s h

/-- The same with the stronger reading of "the events mention only targets in `univ`". -/
theorem progress_mentions (reach : Nat → List Nat) (univ : List Nat) (rank : Nat → Nat)
    (H0 : ∀ u f, f ∈ reach u → f < 1000000)
    (H1 : ∀ u f, f ∈ reach u → rank f < rank u)
    (H2 : ∀ f, rank (oobKey f) = rank f)
    (es : List Ev) (hin : ∀ ev ∈ es, mentionsIn univ ev = true) (s : State)
    (h : runG reach univ {} es = .ok s) : deadlocked s univ = false :=
  RedoModel.Waits.progress reach univ rank H0 H1 H2 es (fun ev hev => evIn_of_mentionsIn (hin ev hev)) s h

/-- `enabled` is faithful: an enabled alive process has an event of its own that the guarded acceptor takes
(`waitEnd` for a blocked one; `exit`, `scriptEnd` or `script` for the three disjuncts of an unblocked one). -/
theorem enabled_can_step (reach : Nat → List Nat) (univ : List Nat) (s : State) (x : Proc)
    (hI : Inv reach univ s) (hx : x ∈ s.procs) (he : enabled s univ x = true) :
    ∃ ev s', actor ev = x.pid ∧ stepG reach univ s ev = .ok s' :=
  RedoModel.Waits.enabled_can_step hI hx he

/-- Progress, operationally: after every accepted run that leaves a process alive, the acceptor takes a
further event of an alive process. -/
theorem progress_step (reach : Nat → List Nat) (univ : List Nat) (m : Nat → Nat)
    (R1 : ∀ u f, f ∈ reach u → m (oobKey f) < m u) (R2 : ∀ f, m f < m (oobKey f))
    (es : List Ev) (hin : ∀ ev ∈ es, evIn univ ev = true) (s : State)
    (h : runG reach univ {} es = .ok s) (halive : s.procs ≠ []) :
    ∃ ev s', (∃ x ∈ s.procs, x.pid = actor ev) ∧ stepG reach univ s ev = .ok s' :=
  RedoModel.Waits.progress_step reach univ m R1 R2 es hin s h halive

/-! ## Non-vacuity: an acyclic graph, five processes, one blocked

Targets `9 → 1, 2`, `1 → 2`; `1` is rebuilt out of band (`redo-unlocked`), whose phase 1 may ask for `2`.
`P0` (top level) builds `9`; `P1` under `9` takes `1` and starts its out-of-band rebuild; `P2` under
`oobKey 1` starts the script of `1` (phase 2); `P3` under `1` takes `2` and runs its script;
`P4` under `9` (a parallel `redo-ifchange 2` of `9`'s script) blocks on `2`.  All three disjuncts of
`scriptGuard` are exercised.  Only `P3` is enabled (its script has no live child and can finish). -/

def exReach (u : Nat) : List Nat :=
  if u = 9 then [1, 2] else if u = 1 then [2] else if u = oobKey 1 then [2] else []

def exUniv : List Nat := [9, 1, 2]

def exRank (k : Nat) : Nat :=
  if k % 1000000 = 9 then 2 else if k % 1000000 = 1 then 1 else 0

def exEs : List Ev :=
  [.start 0 none, .lockOk 0 9, .script 0 9,
   .start 1 (some 9), .lockOk 1 1, .script 1 (oobKey 1),
   .start 2 (some (oobKey 1)), .script 2 1,
   .start 3 (some 1), .lockOk 3 2, .script 3 2,
   .start 4 (some 9), .waitBegin 4 2]

theorem exRank_H0 : ∀ u f, f ∈ exReach u → f < 1000000 := by
  intro u f hf
  unfold exReach at hf
  repeat' split at hf
  all_goals simp at hf
  all_goals omega

theorem exRank_H1 : ∀ u f, f ∈ exReach u → exRank f < exRank u := by
  intro u f hf
  unfold exReach at hf
  repeat' split at hf
  all_goals simp at hf
  all_goals first
    | (rcases hf with rfl | rfl <;> subst_vars <;> decide)
    | (subst_vars; decide)

theorem exRank_H2 : ∀ f, exRank (oobKey f) = exRank f := by
  intro f
  have e : oobKey f % 1000000 = f % 1000000 := by simp only [oobKey]; omega
  simp only [exRank, e]

/-- The run is accepted (with the guard), five processes are alive, `P4` is blocked, exactly `P3` is enabled. -/
theorem ex_accepted : ∃ s, runG exReach exUniv {} exEs = .ok s ∧
    (enabledTable exUniv s == [(4, false), (3, true), (2, false), (1, false), (0, false)]
      && s.procs.any (fun x => x.pid == 4 && x.blocked == some 2)) = true :=
  exists_of_endsWith (by decide)

/-- `progress` applies to it. -/
example : ∀ s, runG exReach exUniv {} exEs = .ok s → deadlocked s exUniv = false :=
  fun s h => progress exReach exUniv exRank exRank_H0 exRank_H1 exRank_H2 exEs (by decide) s h

example : ∀ s, runG exReach exUniv {} exEs = .ok s → deadlocked s exUniv = false :=
  fun s h => progress_targets exReach exUniv exRank
    (fun u f hf => ⟨exRank_H0 u f hf, by
      have := exRank_H1 u f hf
      have e : exRank (u % 1000000) = exRank u := by simp only [exRank]; rw [Nat.mod_mod]
      rw [e]; exact this⟩) exEs (by decide) s h

/-! ## The recorded finding: with a cyclic declared graph two branches block each other for ever

`redo -j3 top c1` with `c0 → c1 → c2 → c0`, `top → c0` (`top = 9`, `c0 = 1`, `c1 = 2`, `c2 = 3`; `cyReach` is the
transitive relation).  `P0` (top level) owns `top` and `c1` and runs both scripts; `P1` under `top` owns `c0`
and runs its script; `P2` under `c0` blocks on `c1` (owned by `P0`); `P3` under `c1` owns `c2` and runs its
script; `P4` under `c2` blocks on `c0` (owned by `P1`).  Every guard (kernel, `G1`, `G2`, shape, `scriptGuard`)
holds, and nobody can move. -/

def cyReach (u : Nat) : List Nat :=
  if u = 9 ∨ u = 1 ∨ u = 2 ∨ u = 3 then [1, 2, 3] else []

def cyUniv : List Nat := [9, 1, 2, 3]

def cyEs : List Ev :=
  [.start 0 none, .lockOk 0 9, .script 0 9,
   .start 1 (some 9), .lockOk 1 1, .script 1 1,
   .lockOk 0 2, .script 0 2,
   .start 2 (some 1), .waitBegin 2 2,
   .start 3 (some 2), .lockOk 3 3, .script 3 3,
   .start 4 (some 3), .waitBegin 4 1]

theorem cross_branch_deadlock :
    ∃ s, run cyReach cyUniv {} cyEs = .ok s ∧ deadlocked s cyUniv = true :=
  exists_of_endsWith (by decide)

/-- The extra guard does not exclude it either. -/
theorem cross_branch_deadlock_guarded :
    ∃ s, runG cyReach cyUniv {} cyEs = .ok s ∧ deadlocked s cyUniv = true :=
  exists_of_endsWith (by decide)

/-- All its events mention only targets in `univ`: the only hypothesis of `progress` that fails is the rank. -/
theorem cross_branch_mentions : ∀ ev ∈ cyEs, mentionsIn cyUniv ev = true := by decide

/-! ## Finding: without `scriptGuard` the model accepts a deadlock on an ACYCLIC graph

`5 → 1 → 2`.  `P0` owns `1` and runs its script; `P1` under `1` starts an execution keyed `5` — a target it
neither owns nor was spawned for; `P2` under `5` blocks on `1`, which `5` declares.  `step` accepts
every event; `stepG` refuses `script 1 5`. -/

def ugReach (u : Nat) : List Nat :=
  if u = 5 then [1, 2] else if u = 1 then [2] else []

def ugUniv : List Nat := [5, 1, 2]

def ugRank (k : Nat) : Nat :=
  if k % 1000000 = 5 then 2 else if k % 1000000 = 1 then 1 else 0

def ugEs : List Ev :=
  [.start 0 none, .lockOk 0 1, .script 0 1, .start 1 (some 1), .script 1 5, .start 2 (some 5), .waitBegin 2 1]

theorem unguarded_script_deadlock :
    (∀ u f, f ∈ ugReach u → f < 1000000) ∧ (∀ u f, f ∈ ugReach u → ugRank f < ugRank u) ∧
    (∀ f, ugRank (oobKey f) = ugRank f) ∧ (∀ ev ∈ ugEs, mentionsIn ugUniv ev = true) ∧
    (∃ s, run ugReach ugUniv {} ugEs = .ok s ∧ deadlocked s ugUniv = true) ∧
    (∀ s, runG ugReach ugUniv {} ugEs ≠ .ok s) := by
  refine ⟨?_, ?_, ?_, by decide, exists_of_endsWith (by decide), not_ok_of_refused (by decide)⟩
  · intro u f hf
    unfold ugReach at hf
    repeat' split at hf
    all_goals simp at hf
    all_goals omega
  · intro u f hf
    unfold ugReach at hf
    repeat' split at hf
    all_goals simp at hf
    all_goals first
    | (rcases hf with rfl | rfl <;> subst_vars <;> decide)
    | (subst_vars; decide)
  · intro f
    have e : oobKey f % 1000000 = f % 1000000 := by simp only [oobKey]; omega
    simp only [ugRank, e]

/-! ## The hypothesis `evIn` is needed: an awaited lock that `univ` does not list hides an enabled owner

`1 → 7`, `univ = [1]`.  `P0` owns `1` and `7` and runs the script of `1`; `P1` under `1` blocks on `7`.
`P0` could start the script of `7`, but `enabled` only looks at the locks listed in `univ`. -/

def ulReach (u : Nat) : List Nat := if u = 1 then [7] else []

def ulEs : List Ev :=
  [.start 0 none, .lockOk 0 1, .lockOk 0 7, .script 0 1, .start 1 (some 1), .waitBegin 1 7]

theorem unlisted_wait_deadlock :
    (∃ s, runG ulReach [1] {} ulEs = .ok s ∧ deadlocked s [1] = true) ∧
    (∃ s, runG ulReach [1, 7] {} ulEs = .ok s ∧ enabledTable [1, 7] s = [(1, false), (0, true)]) :=
  ⟨exists_of_endsWith (by decide),
   exists_of_endsWith (P := fun s => enabledTable [1, 7] s == [(1, false), (0, true)]) (by decide) |>.imp
     (fun _ h => ⟨h.1, by simpa using h.2⟩)⟩

/-! ## Axioms -/

#print axioms inv_init
#print axioms step_preserves_inv
#print axioms inv_not_deadlocked
#print axioms runG_ok_run
#print axioms progress_measure
#print axioms progress
#print axioms progress_targets
#print axioms progress_mentions
#print axioms enabled_can_step
#print axioms progress_step
#print axioms ex_accepted
#print axioms cross_branch_deadlock
#print axioms cross_branch_deadlock_guarded
#print axioms unguarded_script_deadlock
#print axioms unlisted_wait_deadlock

end C09
