import RedoModel.Props.C02c
import RedoModel.Props.C02b
import RedoModel.Lemmas.Deps
import RedoModel.Lemmas.Once.DepsOnceExamples
/-!
# C02 — Rebuild set is exactly the set of targets whose inputs changed
Property theorems only.  Model: `RedoModel/Deps.lean`.
`exact_full` (no script runs twice within one command, unconditionally) turned out to be false;
`at_most_once_per_command` is the proven version with the conditions that the counterexamples show
to be necessary.  The other theorems are the mechanisms the property rests on.
-/
namespace C02
open RedoModel.Deps

/-- The unconditional statement "within one `redo-ifchange` no script runs twice" — for every world
and every defect setting.  It is **false**, also on worlds reachable from an empty project with all
defect switches off (`exact_full_false` below): the proof attempt produced four reachable
counterexamples, each replayed on the real binaries (see DESIGN §12). -/
def exact_full : Prop :=
  ∀ (d : Defects) (n : Nat) (w : World) (ts : List Nat) (kg : Bool),
    let w' := (runCmd d n (.ifchange ts kg) { w with trace := [] }).2
    (w'.trace.filterMap (fun e => match e with | .ran t => some t | _ => none)).Nodup

/-- `exact_full` is false: e.g. a target that declared `redo-ifcreate f` is run again in the same run
once `f` has been *built* in that run; likewise when a higher-priority .do candidate is itself a
target built in the run, and when a real file is named like the `//ALWAYS` pseudo file.  (Two former
counterexamples are repaired: an overridden file edited a second time, whose stamp was never
refreshed — `override_edited_again_is_recorded`, `Once.Ex.override_edited_again_once`; and a removed
overridden file that a dirtiness check turned into a source with the override flag kept, re-created
by hand, which `start_self` then left alone for ever — `vanished_override_is_forgotten`,
`Once.Ex.vanished_override_recreated_once`.) -/
theorem exact_full_false : ¬ exact_full := Once.ranNodup_false

/-- **At most once per command, for every reachable history**: under the static cleanliness conditions
`Once.Clean` (no .do candidate, `redo-ifcreate` object or `//ALWAYS` is itself a target; no file is
named like `//ALWAYS`) and with the (repaired) out-of-band defect off, the scripts executed by one
`redo-ifchange ts` from any world reached from the empty project by any history are pairwise
different — however many dependents request a target, at any nesting depth, through the out-of-band
path, with failures and `-k`, whatever was overridden, removed or re-created by hand.  Each condition
of `Clean` is necessary (counterexamples `Once.Cex.*`); the run-id well-formedness (`Once.wf_reachable`)
and the condition on overridden records (`Once.ovOK_reachable`: in a reachable world an overridden
record is always a generated one, `Once.og_reachable`) come for free. -/
theorem at_most_once_per_command (d0 d : Defects) (hd : d.oobRebuildsDepsNotTarget = false)
    (n0 n : Nat) (rules : Nat → List Nat) (ops : List UserOp) (ts : List Nat) (kg : Bool)
    (hc : Once.Clean (Once.runOps d0 n0 ops (initWorld rules))) :
    Once.RanNodupFrom d n (Once.runOps d0 n0 ops (initWorld rules)) ts kg :=
  Once.ran_nodup_reachable d0 d hd n0 n rules ops ts kg hc

/-- The same from any well-formed clean world in which every overridden file that exists is still
recorded as generated, or carries no failure mark and is in step with its record (`Once.OvOK`; necessary
for hand-made worlds: `Once.Cex.ovOK_needed`). -/
theorem at_most_once_of_wf (d : Defects) (hd : d.oobRebuildsDepsNotTarget = false) (n : Nat) (w : World)
    (ts : List Nat) (kg : Bool) (hwf : Once.WF w) (hov : Once.OvOK w) (hc : Once.Clean w) :
    Once.RanNodupFrom d n w ts kg :=
  Once.ran_nodup_of_wf d hd n w ts kg hwf hov hc

/-- In every reachable world an overridden record is a generated one whose recorded stamp is not that
of a missing file. -/
theorem override_implies_generated (d : Defects) (n : Nat) (rules : Nat → List Nat) (ops : List UserOp) (f : Nat)
    (ho : ((Once.runOps d n ops (initWorld rules)).recs f).isOverride = true) :
    ((Once.runOps d n ops (initWorld rules)).recs f).isGenerated = true ∧
    ((Once.runOps d n ops (initWorld rules)).recs f).stamp ≠ some .missing :=
  Once.og_reachable d n rules ops f ho

/-- **An overridden file that was edited again gets its new stamp recorded** (the repair of the
fourth counterexample to `exact_full`): for a generated, overridden, existing target and *any*
recorded stamp, `start_self` leaves the record of `t` with the current stamp, the override flag kept
and no failure mark; the file is untouched and nothing is executed.  So the next dirtiness check
compares equal stamps, and the over-build after a second hand edit cannot recur. -/
theorem override_edited_again_is_recorded (E : Engine) (d : Defects) (cx : Ctx) (t : Nat) (sf : Rec) (w : World)
    (hex : existsF w t = true) (hg : sf.isGenerated = true) (ho : sf.isOverride = true) :
    (startSelf E d cx t sf w).1 = 0 ∧
    ((startSelf E d cx t sf w).2.recs t).stamp = some (readStamp w t) ∧
    ((startSelf E d cx t sf w).2.recs t).stamp = some (readStamp (startSelf E d cx t sf w).2 t) ∧
    ((startSelf E d cx t sf w).2.recs t).isOverride = true ∧
    ((startSelf E d cx t sf w).2.recs t).failed = none ∧
    (startSelf E d cx t sf w).2.fs = w.fs ∧
    Once.ranList (startSelf E d cx t sf w).2 = Once.ranList w := by
  have hns : readStamp w t ≠ .missing := by
    unfold readStamp existsF at *
    cases h : w.fs t <;> simp_all
  have hex' : (w.fs t).isSome = true := hex
  have hst : (updateStamp (ev w (.warnOverride t)) t sf cx.runid).stamp = some (readStamp w t) := by
    unfold updateStamp
    dsimp only
    split
    · rename_i h; exact h
    · rfl
  simp [startSelf, hg, ho, hns, hex', existsF, setRec, Once.ranList, ev, setOverride]
  exact ⟨hst, hst⟩

/-- Non-vacuity: a stale recorded stamp, twice-edited file. -/
example : ((startSelf (engine {} 0) {} { runid := 5 } 1
      { isGenerated := true, isOverride := true, changed := some 2, stamp := some (.st 3 0) }
      { initWorld (fun _ => []) with fs := fun x => if x = 1 then some { content := srcContent 8, ms := 9, rest := 0 } else none }).2.recs 1).stamp
    = some (.st 9 0) := by
  simp [startSelf, readStamp, detectOverride, existsF, setOverride, updateStamp, setChanged, setRec, ev, initWorld]

/-- **A vanished target is forgotten altogether** (the repair of the fifth counterexample to
`exact_full`): when the dirtiness check finds the file of a generated target missing although its
record holds the stamp of an existing file (no failure mark, `changed ≤ mx`, not checked in this
run), it rewrites the record as a source with failure mark 0 *and without the override flag*,
whether the target had been overridden by hand or not.  So a file created there later is an
ordinary source for `start_self`, which refreshes its record on the first visit. -/
theorem vanished_override_is_forgotten (R n : Nat) (w : World) (c : List Nat) (f mx ch : Nat) (seen : List Nat)
    (old : DStamp) (hs : f ∉ seen) (hg : (getRec w R f).isGenerated = true)
    (hst : (getRec w R f).stamp = some old) (hne : old ≠ readStamp w f) (hmiss : readStamp w f = .missing)
    (hf : (getRec w R f).failed = none) (hc : (getRec w R f).changed = some ch) (hle : ch ≤ mx)
    (hck : isCheckedR (getRec w R f) R = false) :
    ((isDirty false R (n + 1) w c f mx seen none).2.1.recs f).isOverride = false ∧
    ((isDirty false R (n + 1) w c f mx seen none).2.1.recs f).isGenerated = false ∧
    ((isDirty false R (n + 1) w c f mx seen none).2.1.recs f).failed = some 0 := by
  have hgt : ¬ ch > mx := by omega
  have hne' : ¬ old = DStamp.missing := by rw [← hmiss]; exact hne
  refine ⟨?_, ?_, ?_⟩ <;>
  · simp (config := { zeta := true, zetaHave := true }) only [isDirty, Option.getD_none, hs, hf, hc, hgt, hck, hst,
      hne', hmiss, hg, if_true, if_false, Option.isSome_none, Bool.false_eq_true, ne_eq, not_false_eq_true, and_self]
    simp [setRec]

/-- Non-vacuity: an overridden generated target whose file is gone. -/
example : ((isDirty false 5 1 { initWorld (fun _ => []) with recs := fun x => if x = 1 then
      { row := 2, isGenerated := true, isOverride := true, changed := some 2, stamp := some (.st 3 0) } else {} }
      [] 1 5 [] none).2.1.recs 1).isOverride = false :=
  (vanished_override_is_forgotten 5 0 _ [] 1 5 2 [] (.st 3 0) (by simp) (by simp [getRec, alwaysId])
    (by simp [getRec, alwaysId]) (by simp [readStamp, initWorld]) (by simp [readStamp, initWorld])
    (by simp [getRec, alwaysId]) (by simp [getRec, alwaysId]) (by omega) (by simp [getRec, alwaysId, isCheckedR])).1

/-- The memoised verdict: a file already verified in this run is reported clean without being
examined again and without any write (so a shared dependency is not re-traversed and, having
been rebuilt once, is not rebuilt again for a later dependent). -/
theorem memoised_clean (R n : Nat) (w : World) (c : List Nat) (f mx ch : Nat) (seen : List Nat)
    (hs : f ∉ seen) (hf : (getRec w R f).failed = none) (hc : (getRec w R f).changed = some ch)
    (hle : ch ≤ mx) (hck : isCheckedR (getRec w R f) R = true) :
    isDirty false R (n + 1) w c f mx seen none = (.clean, w, c) := by
  have : ¬ ch > mx := by omega
  simp (config := { zeta := true, zetaHave := true }) only [isDirty, Option.getD_none, hs, hf, hc, this, hck, if_true, if_false,
    Option.isSome_none, Bool.false_eq_true]

/-- A file built (or changed) more recently than its dependent's last build/check makes the
dependent dirty. -/
theorem newer_is_dirty (ood : Bool) (R n : Nat) (w : World) (c : List Nat) (f mx ch : Nat) (seen : List Nat)
    (hs : f ∉ seen) (hf : (getRec w R f).failed = none) (hc : (getRec w R f).changed = some ch)
    (hgt : ch > mx) :
    isDirty ood R (n + 1) w c f mx seen none = (.dirty, w, c) := by
  simp (config := { zeta := true, zetaHave := true }) only [isDirty, Option.getD_none, hs, hf, hc, hgt, if_true, if_false,
    Option.isSome_none, Bool.false_eq_true]

/-- A never-built file is dirty. -/
theorem never_built_is_dirty (ood : Bool) (R n : Nat) (w : World) (c : List Nat) (f mx : Nat) (seen : List Nat)
    (hs : f ∉ seen) (hf : (getRec w R f).failed = none) (hc : (getRec w R f).changed = none) :
    isDirty ood R (n + 1) w c f mx seen none = (.dirty, w, c) := by
  simp (config := { zeta := true, zetaHave := true }) only [isDirty, Option.getD_none, hs, hf, hc, if_false,
    Option.isSome_none, Bool.false_eq_true]

/-- `zap_deps2` removes exactly the rows of the target that were not re-declared. -/
theorem zapDeps2_spec (w : World) (t : Nat) (d : Dep) :
    d ∈ (zapDeps2 w t).deps ↔ d ∈ w.deps ∧ ¬ (d.target = t ∧ d.deleteMe = true) := by
  simp only [zapDeps2, List.mem_filter]
  constructor
  · rintro ⟨h1, h2⟩
    refine ⟨h1, ?_⟩
    rintro ⟨a, b⟩
    simp [a, b] at h2
  · rintro ⟨h1, h2⟩
    refine ⟨h1, ?_⟩
    by_cases a : d.target = t <;> by_cases b : d.deleteMe = true <;> simp_all

/-- After a build has been recorded (successfully or not) the target has no stale
dependency rows: a dependency it stopped declaring no longer triggers it. -/
theorem no_stale_rows_after_record (cx : Ctx) (t : Nat) (sf : Rec) (rv : Status) (out : Option Content) (w : World) :
    ∀ d ∈ (recordNewState cx t sf rv out w).2.deps, ¬ (d.target = t ∧ d.deleteMe = true) := by
  intro d hd
  unfold recordNewState at hd
  split at hd
  · simp only [setRec] at hd
    exact ((zapDeps2_spec _ t d).1 hd).2
  · simp only [setRec] at hd
    exact ((zapDeps2_spec _ t d).1 hd).2

/-- Re-declaring a dependency clears its `delete_me` mark (insert-or-replace), and there is
exactly one row per (target, source). -/
theorem addDep_spec (w : World) (t s : Nat) (m : Bool) :
    { target := t, source := s, modeM := m, deleteMe := false } ∈ (addDep w t s m).deps ∧
    ∀ d ∈ (addDep w t s m).deps, d.target = t → d.source = s → d = { target := t, source := s, modeM := m, deleteMe := false } := by
  constructor
  · simp [addDep]
  · intro d hd ht hs
    simp only [addDep, List.mem_cons, List.mem_filter] at hd
    rcases hd with e | ⟨_, h⟩
    · exact e
    · simp [ht, hs] at h

end C02
