import RedoModel.Lemmas.Deps
/-!
# C02 — Rebuild set is exactly the set of targets whose inputs changed
Property theorems only.  Model: `RedoModel/Deps.lean`.
The full statement (executed set = reference simulation's `mustRun` set, for every history) is
kept visible as `C02.exact_full`; what is proven so far are the mechanisms the property rests on.
-/
namespace C02
open RedoModel.Deps

/-- Full statement (not yet proven; a proposition, not a theorem): for every history the list of
scripts the model executes for a `redo-ifchange` is free of repetitions. -/
def exact_full : Prop :=
  ∀ (d : Defects) (n : Nat) (w : World) (ts : List Nat) (kg : Bool),
    let w' := (runCmd d n (.ifchange ts kg) { w with trace := [] }).2
    (w'.trace.filterMap (fun e => match e with | .ran t => some t | _ => none)).Nodup

/-- The memoised verdict: a file already verified in this run is reported clean without being
examined again and without any write (so a shared dependency is not re-traversed and, having
been rebuilt once, is not rebuilt again for a later dependent). -/
theorem memoised_clean (R n : Nat) (w : World) (c : List Nat) (f mx ch : Nat) (seen : List Nat)
    (hs : f ∉ seen) (hf : (getRec w R f).failed = none) (hc : (getRec w R f).changed = some ch)
    (hle : ch ≤ mx) (hck : isCheckedR (getRec w R f) R = true) :
    isDirty false R (n + 1) w c f mx seen none = (.clean, w, c) := by
  have : ¬ ch > mx := by omega
  simp (config := { zeta := true, zetaHave := true }) only [isDirty, Option.getD_none, hs, hf, hc, this, hck, if_true, if_false,
    Option.isSome_none, Bool.false_eq_true]

/-- A file built (or changed) more recently than its dependent's last build/check makes the
dependent dirty. -/
theorem newer_is_dirty (ood : Bool) (R n : Nat) (w : World) (c : List Nat) (f mx ch : Nat) (seen : List Nat)
    (hs : f ∉ seen) (hf : (getRec w R f).failed = none) (hc : (getRec w R f).changed = some ch)
    (hgt : ch > mx) :
    isDirty ood R (n + 1) w c f mx seen none = (.dirty, w, c) := by
  simp (config := { zeta := true, zetaHave := true }) only [isDirty, Option.getD_none, hs, hf, hc, hgt, if_true, if_false,
    Option.isSome_none, Bool.false_eq_true]

/-- A never-built file is dirty. -/
theorem never_built_is_dirty (ood : Bool) (R n : Nat) (w : World) (c : List Nat) (f mx : Nat) (seen : List Nat)
    (hs : f ∉ seen) (hf : (getRec w R f).failed = none) (hc : (getRec w R f).changed = none) :
    isDirty ood R (n + 1) w c f mx seen none = (.dirty, w, c) := by
  simp (config := { zeta := true, zetaHave := true }) only [isDirty, Option.getD_none, hs, hf, hc, if_false,
    Option.isSome_none, Bool.false_eq_true]

/-- `zap_deps2` removes exactly the rows of the target that were not re-declared. -/
theorem zapDeps2_spec (w : World) (t : Nat) (d : Dep) :
    d ∈ (zapDeps2 w t).deps ↔ d ∈ w.deps ∧ ¬ (d.target = t ∧ d.deleteMe = true) := by
  simp only [zapDeps2, List.mem_filter]
  constructor
  · rintro ⟨h1, h2⟩
    refine ⟨h1, ?_⟩
    rintro ⟨a, b⟩
    simp [a, b] at h2
  · rintro ⟨h1, h2⟩
    refine ⟨h1, ?_⟩
    by_cases a : d.target = t <;> by_cases b : d.deleteMe = true <;> simp_all

/-- After a build has been recorded (successfully or not) the target has no stale
dependency rows: a dependency it stopped declaring no longer triggers it. -/
theorem no_stale_rows_after_record (cx : Ctx) (t : Nat) (sf : Rec) (rv : Status) (out : Option Content) (w : World) :
    ∀ d ∈ (recordNewState cx t sf rv out w).2.deps, ¬ (d.target = t ∧ d.deleteMe = true) := by
  intro d hd
  unfold recordNewState at hd
  split at hd
  · simp only [setRec] at hd
    exact ((zapDeps2_spec _ t d).1 hd).2
  · simp only [setRec] at hd
    exact ((zapDeps2_spec _ t d).1 hd).2

/-- Re-declaring a dependency clears its `delete_me` mark (insert-or-replace), and there is
exactly one row per (target, source). -/
theorem addDep_spec (w : World) (t s : Nat) (m : Bool) :
    { target := t, source := s, modeM := m, deleteMe := false } ∈ (addDep w t s m).deps ∧
    ∀ d ∈ (addDep w t s m).deps, d.target = t → d.source = s → d = { target := t, source := s, modeM := m, deleteMe := false } := by
  constructor
  · simp [addDep]
  · intro d hd ht hs
    simp only [addDep, List.mem_cons, List.mem_filter] at hd
    rcases hd with e | ⟨_, h⟩
    · exact e
    · simp [ht, hs] at h

end C02
