import RedoModel.Props.C16b
import RedoModel.SqlTxn
import RedoModel.Generated
/-!
# C16 — Concurrent commands do not fail spuriously or lose state
Property theorems only.  Model: `RedoModel/SqlTxn.lean`.  SQLite's own behaviour is an assumption;
what is proven is the discipline that makes "database is locked" impossible under that assumption,
and that discipline is checked against every real trace and against the transaction sites
re-extracted from the source.
-/
namespace C16
open RedoModel.SqlTxn

/-- One step never introduces a possible `SQLITE_BUSY` unless it is a write inside a DEFERRED
transaction. -/
theorem step_no_busy (s s' : State) (e : Ev) (h : step s e = .ok s') (hw : deferredWrite s e = false) :
    s'.busyPossible = s.busyPossible := by
  cases e with
  | beginDeferred c => simp only [step] at h; split at h <;> cases h; simp [setMode]
  | beginImmediate c =>
    simp only [step] at h
    split at h
    · cases h
    · split at h <;> cases h; simp [setMode]
  | read c =>
    simp only [step] at h
    split at h <;> cases h <;> simp [setMode]
  | write c what =>
    simp only [step] at h
    simp only [deferredWrite] at hw
    split at h
    · cases h; simp [setMode]
    · rename_i heq; rw [heq] at hw; cases hw
    · cases h
  | commit c =>
    simp only [step] at h
    split at h <;> cases h <;> simp [setMode]
  | rollback c =>
    simp only [step] at h
    split at h <;> cases h <;> simp [setMode]

/-- If every writing transaction is IMMEDIATE (no write happens inside a DEFERRED one), then no
interleaving of any number of connections reaches a point where SQLite may answer
"database is locked". -/
theorem no_busy (s s' : State) (es : List Ev) (h : run s es = .ok s') (hw : WritesAreImmediate s es) :
    s'.busyPossible = s.busyPossible := by
  induction es generalizing s with
  | nil => simp [run] at h; cases h; rfl
  | cons e es ih =>
    simp only [run] at h
    split at h
    · cases h
    · rename_i s1 hs1
      obtain ⟨h1, h2⟩ := hw
      rw [hs1] at h2
      rw [ih s1 h h2, step_no_busy s s1 e hs1 h1]

/-- At most one connection is inside `BEGIN IMMEDIATE` at any time in an accepted trace: the
write lock serialises all writers (so no update is lost: writes apply in commit order). -/
theorem single_writer (s s' : State) (e : Ev) (h : step s e = .ok s') (c : Nat)
    (he : e = .beginImmediate c) : s.writer = none ∧ s'.writer = some c := by
  subst he
  simp only [step] at h
  split at h
  · cases h
  · split at h
    · cases h
    · cases h
      rename_i hw
      simp at hw
      exact ⟨hw, rfl⟩

/-- Witness for the recorded finding `runidInDeferredTxn`: start-up reads the schema version in a
DEFERRED transaction and then inserts the run id; when another connection commits in between,
the model marks the insert as a point where "database is locked" can be answered. -/
theorem runid_busy_witness :
    (match run {} [.beginDeferred 1, .read 1, .beginImmediate 2, .write 2 "x", .commit 2, .write 1 "insert into Runid"] with
     | .ok s => s.busyPossible.length
     | .error _ => 0) = 1 := by decide

/-- The transaction sites of the source (re-extracted on every run): every `ProcessTransaction`
begun by a command that writes build state is IMMEDIATE; the DEFERRED ones are the three listing
commands, `redo-log`, and the start-up transaction of a process that inherits its run id (and
therefore only reads). -/
theorem deferred_sites :
    (RedoModel.Generated.txnSites.filter (fun s => s.2.2 == .deferred)).map (·.1) =
      ["src/state.rs", "src/bin/redo/log.rs", "src/bin/redo/ood.rs",
       "src/bin/redo/sources.rs", "src/bin/redo/targets.rs"] := by decide

/-- A fact about one constant of the source (re-extracted on every run), not a theorem about behaviour: writers are
serialised by waiting for the write lock (`single_writer`), and the wait is bounded by the connection's busy timeout —
a command gives up with "database is locked" when another one holds the lock longer than that.  The value the rest of
the argument relies on ("long compared with any transaction of a redo command": a minute) is pinned here; what a
short timeout does is shown on the implementation by the slow-writer scenarios of tools/c16.py. -/
theorem busy_timeout_is_a_minute : 60 ≤ RedoModel.Generated.busyTimeoutSecs := by decide

end C16
