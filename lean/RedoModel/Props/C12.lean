import RedoModel.Lemmas.Deps
/-!
# C12 — Dependency cycles end in an error, never in a hang
Property theorems only.  Model: `RedoModel/Deps.lean`.  Every function of the model is total
(structural recursion on fuel and lists), so "terminates" is by construction in the model; what is
proven are the two detection mechanisms and their status.
-/
namespace C12
open RedoModel.Deps RedoModel.Generated

/-- A target that is currently being built by an ancestor (its lock id is in `REDO_CYCLES`) is
refused with the cyclic-dependency status before anything is checked or run. -/
theorem ancestor_is_refused (E : Engine) (d : Defects) (cx : Ctx) (fuel t : Nat) (ts seen : List Nat) (w : World) (e : Bool)
    (hs : t ∉ seen) (hgo : (e && !cx.keepGoing) = false) (hu : cx.unlocked = false) (hc : t ∈ cx.cycles) :
    runTargets E d cx fuel (t :: ts) seen e w = (EXIT_CYCLIC_DEPENDENCY, addKnown w t) ∧
    EXIT_CYCLIC_DEPENDENCY = 208 := by
  refine ⟨?_, rfl⟩
  rw [runTargets]
  simp [hs, hgo, hu, hc]

/-- The dirtiness check refuses to walk a dependency chain that returns to a file already on
the path. -/
theorem check_detects_cycle (ood : Bool) (R n : Nat) (w : World) (c : List Nat) (f mx : Nat) (seen : List Nat)
    (h : f ∈ seen) : isDirty ood R (n + 1) w c f mx seen none = (.cyclic, w, c) := by
  simp (config := { zeta := true, zetaHave := true }) only [isDirty, Option.getD_none, h, if_true]

/-- … and that verdict leaves `builder::run` with the cyclic-dependency status. -/
theorem cyclic_verdict_status (E : Engine) (d : Defects) (cx : Ctx) (fuel t : Nat) (w w' : World)
    (h : shouldBuild cx fuel t w = (some .cyclic, w')) :
    buildJob E d cx fuel t w = (.abort EXIT_CYCLIC_DEPENDENCY, w') := by
  simp [buildJob, h]

/-- A cyclic status is never zero: whoever asked gets a failure. -/
theorem cyclic_is_failure : EXIT_CYCLIC_DEPENDENCY ≠ 0 := by decide

end C12
