import RedoModel.Lemmas.Deps
import RedoModel.Props.C09b
import RedoModel.Props.C12b
/-!
# C12 — Dependency cycles end in an error, never in a hang
Property theorems only.  Model: `RedoModel/Deps.lean`.  Every function of the model is total
(structural recursion on fuel and lists), so "terminates" is by construction in the model; what is
proven are the two detection mechanisms and their status.
-/
namespace C12
open RedoModel.Deps RedoModel.Generated

/-- A target that is currently being built by an ancestor (its lock id is in `REDO_CYCLES`) is
refused with the cyclic-dependency status before anything is checked or run. -/
theorem ancestor_is_refused (E : Engine) (d : Defects) (cx : Ctx) (fuel t : Nat) (ts seen : List Nat) (w : World) (e : Bool)
    (hs : t ∉ seen) (hgo : (e && !cx.keepGoing) = false) (hu : cx.unlocked = false) (hc : t ∈ cx.cycles) :
    runTargets E d cx fuel (t :: ts) seen e w = (EXIT_CYCLIC_DEPENDENCY, addKnown w t) ∧
    EXIT_CYCLIC_DEPENDENCY = 208 := by
  refine ⟨?_, rfl⟩
  rw [runTargets]
  simp [hs, hgo, hu, hc]

/-- The dirtiness check refuses to walk a dependency chain that returns to a file already on
the path. -/
theorem check_detects_cycle (ood : Bool) (R n : Nat) (w : World) (c : List Nat) (f mx : Nat) (seen : List Nat)
    (h : f ∈ seen) : isDirty ood R (n + 1) w c f mx seen none = (.cyclic, w, c) := by
  simp (config := { zeta := true, zetaHave := true }) only [isDirty, Option.getD_none, h, if_true]

/-- … and that verdict leaves `builder::run` with the cyclic-dependency status. -/
theorem cyclic_verdict_status (E : Engine) (d : Defects) (cx : Ctx) (fuel t : Nat) (w w' : World)
    (h : shouldBuild cx fuel t w = (some .cyclic, w')) :
    buildJob E d cx fuel t w = (.abort EXIT_CYCLIC_DEPENDENCY, w') := by
  simp [buildJob, h]

/-- A cyclic status is never zero: whoever asked gets a failure. -/
theorem cyclic_is_failure : EXIT_CYCLIC_DEPENDENCY ≠ 0 := by decide

/-! ### At -j>1: the wait-for protocol (model `RedoModel/Waits.lean`, guarded acceptor `WaitsG`) -/

/-- On an acyclic declared graph no accepted state of the lock hand-over protocol is a deadlock
(`C09.progress`): whatever the number of processes and the interleaving, somebody can move.  So a
hang at -j>1 needs a cycle in what the scripts declare. -/
theorem acyclic_never_hangs (reach : Nat → List Nat) (univ : List Nat) (rank : Nat → Nat)
    (H0 : ∀ u f, f ∈ reach u → f < 1000000) (H1 : ∀ u f, f ∈ reach u → rank f < rank u)
    (H2 : ∀ f, rank (RedoModel.Waits.oobKey f) = rank f)
    (es : List RedoModel.Waits.Ev) (hin : ∀ ev ∈ es, RedoModel.Waits.evIn univ ev = true) (s : RedoModel.Waits.State)
    (h : RedoModel.Waits.runG reach univ {} es = .ok s) : RedoModel.Waits.deadlocked s univ = false :=
  C09.progress reach univ rank H0 H1 H2 es hin s h

/-- Witness for the recorded finding `crossBranchCycleUndetected`: with a cyclic declared graph
(`top → c0 → c1 → c2 → c0`, entered at `top` and at `c1`) the protocol accepts a run that ends with
every process waiting — each branch blocks on a lock held by an ancestor of the other, and neither
lock is in the waiter's inherited `REDO_CYCLES`.  Every local guard holds; only acyclicity fails. -/
theorem cross_branch_cycle_deadlocks :
    ∃ s, RedoModel.Waits.runG C09.cyReach C09.cyUniv {} C09.cyEs = .ok s ∧ RedoModel.Waits.deadlocked s C09.cyUniv = true :=
  C09.cross_branch_deadlock_guarded

end C12
