import RedoModel.Props.C12c
import RedoModel.Lemmas.Deps
import RedoModel.Props.C09b
import RedoModel.Props.C12b
import RedoModel.Props.C03b
/-!
# C12 — Dependency cycles end in an error, never in a hang
Property theorems only.  Model: `RedoModel/Deps.lean`.  Every function of the model is total
(structural recursion on fuel and lists), so "terminates" is by construction in the model; what is
proven are the two detection mechanisms and their status.
-/
namespace C12
open RedoModel.Deps RedoModel.Generated

/-- A target that is currently being built by an ancestor (its lock id is in `REDO_CYCLES`) is
refused with the cyclic-dependency status before anything is checked or run. -/
theorem ancestor_is_refused (E : Engine) (d : Defects) (cx : Ctx) (fuel t : Nat) (ts seen : List Nat) (w : World) (e : Bool)
    (hs : t ∉ seen) (hgo : (e && !cx.keepGoing) = false) (hu : cx.unlocked = false) (hc : t ∈ cx.cycles) :
    runTargets E d cx fuel (t :: ts) seen e w = (EXIT_CYCLIC_DEPENDENCY, addKnown w t) ∧
    EXIT_CYCLIC_DEPENDENCY = 208 := by
  refine ⟨?_, rfl⟩
  rw [runTargets]
  simp [hs, hgo, hu, hc]

/-- The dirtiness check refuses to walk a dependency chain that returns to a file already on
the path. -/
theorem check_detects_cycle (ood : Bool) (R n : Nat) (w : World) (c : List Nat) (f mx : Nat) (seen : List Nat)
    (h : f ∈ seen) : isDirty ood R (n + 1) w c f mx seen none = (.cyclic, w, c) := by
  simp (config := { zeta := true, zetaHave := true }) only [isDirty, Option.getD_none, h, if_true]

/-- … and that verdict leaves `builder::run` with the cyclic-dependency status. -/
theorem cyclic_verdict_status (E : Engine) (d : Defects) (cx : Ctx) (fuel t : Nat) (w w' : World)
    (h : shouldBuild cx fuel t w = (some .cyclic, w')) :
    buildJob E d cx fuel t w = (.abort EXIT_CYCLIC_DEPENDENCY, w') := by
  simp [buildJob, h]

/-- A cyclic status is never zero: whoever asked gets a failure. -/
theorem cyclic_is_failure : EXIT_CYCLIC_DEPENDENCY ≠ 0 := by decide

/-- During an out-of-band rebuild (`redo-unlocked t deps…`) the caller holds `t`'s lock, so the first nested
`redo-ifchange deps…` runs with `t` among the targets under construction (`REDO_CYCLES`).  Hence, if the
dirtiness check asks to rebuild a list that contains `t` itself first (a dependency chain leading back to `t`), the
job does not wait for its own lock: it ends with a non-zero status.  Any defect switches, any engine level. -/
theorem oob_target_is_under_construction (d : Defects) (n : Nat) (cx : Ctx) (fuel t : Nat) (w : World) (ts : List Nat)
    (hno : cx.noOob = false) (hs : (shouldBuild cx fuel t w).1 = some (.need ts)) (ht : t ∈ ts) :
    ∃ rv w', buildJob (engine d n) d cx fuel t w = (.done rv, w') ∧ rv ≠ 0 := by
  unfold buildJob
  dsimp only
  generalize shouldBuild cx fuel t w = sb at hs
  obtain ⟨o, w1⟩ := sb
  dsimp only at hs
  subst hs
  simp only [hno, Bool.false_eq_true, if_false]
  have hmem : t ∈ (if w1.oobRev then ts.eraseDups.reverse else ts.eraseDups) := by
    split
    · exact List.mem_reverse.2 (List.mem_eraseDups.2 ht)
    · exact List.mem_eraseDups.2 ht
  generalize (if w1.oobRev then ts.eraseDups.reverse else ts.eraseDups) = ts' at hmem
  have hnz := C12.cycle_member_fails_cmd d n
    { cx with noOob := true, unlocked := false, isRedo := false, cycles := t :: cx.cycles,
              parent := if d.oobRecordsDepsOnCaller then cx.parent else none } ts' w1 rfl
    ⟨t, hmem, List.mem_cons_self⟩
  generalize (engine d n).ifchangeCmd _ ts' w1 = r at hnz
  obtain ⟨rv, w2⟩ := r
  split
  · rename_i heq
    cases heq
    exact absurd rfl hnz
  · rename_i heq
    cases heq
    exact ⟨rv, w2, rfl, hnz⟩

/-- The environment of `redo-unlocked`'s first `redo-ifchange`. -/
def oobCtx1 (d : Defects) (cx : Ctx) (t : Nat) : Ctx :=
  { cx with noOob := true, unlocked := false, isRedo := false, cycles := t :: cx.cycles,
            parent := if d.oobRecordsDepsOnCaller then cx.parent else none }

/-- The general shape, for any nested engine `E`: in the out-of-band branch the first nested command runs in a
locked context whose `REDO_CYCLES` is `t :: cx.cycles`, on the requested list (duplicates erased, possibly reversed);
when it fails, its status is the job's and the second phase does not happen. -/
theorem oob_first_command_sees_target (E : Engine) (d : Defects) (cx : Ctx) (fuel t : Nat) (w : World) (ts : List Nat)
    (hno : cx.noOob = false) (hs : (shouldBuild cx fuel t w).1 = some (.need ts)) :
    ∃ cx1 ts', cx1.cycles = t :: cx.cycles ∧ cx1.unlocked = false ∧ cx1.noOob = true ∧ cx1.runid = cx.runid ∧
      cx1.crash = cx.crash ∧ (∀ x, x ∈ ts' ↔ x ∈ ts) ∧
      ((E.ifchangeCmd cx1 ts' (shouldBuild cx fuel t w).2).1 ≠ 0 →
        buildJob E d cx fuel t w = (.done (E.ifchangeCmd cx1 ts' (shouldBuild cx fuel t w).2).1,
          (E.ifchangeCmd cx1 ts' (shouldBuild cx fuel t w).2).2)) := by
  refine ⟨oobCtx1 d cx t,
    (if (shouldBuild cx fuel t w).2.oobRev then ts.eraseDups.reverse else ts.eraseDups), rfl, rfl, rfl, rfl, rfl, ?_, ?_⟩
  · intro x
    split
    · rw [List.mem_reverse, List.mem_eraseDups]
    · rw [List.mem_eraseDups]
  · unfold buildJob oobCtx1
    dsimp only
    generalize shouldBuild cx fuel t w = sb at hs
    obtain ⟨o, w1⟩ := sb
    dsimp only at hs
    subst hs
    simp only [hno, Bool.false_eq_true, if_false]
    generalize E.ifchangeCmd _ _ w1 = r
    obtain ⟨rv, w2⟩ := r
    intro hnz
    split
    · rename_i heq
      cases heq
      exact absurd rfl hnz
    · rename_i heq
      cases heq
      rfl

/-! Non-vacuity: `top` (5) depends on the checksummed `mid` (3); `mid.do` (2) is then rewritten so that it asks for
`top`.  The next `redo-ifchange top` takes the out-of-band path (`need [3]`), `mid` runs below `redo-unlocked`, its
request for `top` is refused (208) because `top` is under construction, and the command fails instead of waiting. -/
namespace ExOob

def backSc : Script := { ifchange := [[5]], reads := [], tag := 1, stamp := 1 }

def hist : List UserOp := [.write 1 0, .write 2 1, .write 4 2,
  .setProg (srcContent 1) C03.midRead, .setProg (srcContent 2) C03.topSc, .setProg (srcContent 3) backSc,
  .cmd (.ifchange [5] false), .write 2 3]

def wB : World := hist.foldl (fun w op => (applyOp {} 0 op w).2) (initWorld C03.csRules)

theorem eraseDups_one (a : Nat) : [a].eraseDups = [a] := by simp [List.eraseDups_cons]

/-- Evaluation by rewriting (the kernel cannot unfold `List.mergeSort`). -/
macro "eval_oob" : tactic => `(tactic|
  simp (config := { zeta := true, zetaHave := true, decide := true, maxSteps := 4000000 }) [runCmd, allocRun, applyOp,
    initWorld, engine, runTargets, buildJob, shouldBuild, isDirty, goDeps, startSelf, recordNewState, runScript,
    runScript.cmds, runScript.conds, ifchangeWith, findDoFile, addDep, addKnown, setRec, setFile, ev, getRec, readStamp,
    existsF, newNode, srcContent, outContent, depsWithRecs, depsOf, zapDeps1, zapDeps2, updateStamp, setChanged,
    setStatic, setFailed, setOverride, detectOverride, isCheckedR, isChangedR, isFailedR, alwaysId, mergeSort_pair,
    CRASHED, EXIT_CYCLIC_DEPENDENCY, EXIT_TARGET_FAILED, EXIT_FAILURE, stampRec, eraseDups_one])

/- The hypotheses of `oob_target_…`/`oob_first_command_sees_target` are met: the verdict for `top` is `need [mid]`. -/
set_option linter.unusedSimpArgs false in
set_option maxRecDepth 8000 in
set_option maxHeartbeats 4000000 in
example : (shouldBuild { runid := 2 } 4 5 (addKnown wB 5)).1 = some (.need [3]) := by
  unfold wB hist C03.csRules C03.midRead C03.topSc backSc
  eval_oob

def summ (r : Result × World) := (r.1.status, r.2.trace.take 1, (r.2.recs 3).failed, (r.2.recs 5).failed)

/- The command fails; only `mid` ran in it (and is recorded as failed); `top` was not started. -/
set_option linter.unusedSimpArgs false in
set_option maxRecDepth 8000 in
set_option maxHeartbeats 4000000 in
example : summ (runCmd {} 0 (.ifchange [5] false) wB) = (1, [.ran 3], some 2, none) := by
  unfold summ wB hist C03.csRules C03.midRead C03.topSc backSc
  eval_oob

/-- The refused request: what `mid`'s script issues below the first phase (`REDO_CYCLES = mid top`). -/
example : ((engine {} 3).ifchangeCmd { runid := 2, parent := some 3, cycles := [3, 5], noOob := true } [5] wB).1 = 208 := by
  decide +kernel

end ExOob

/-! ### At -j>1: the wait-for protocol (model `RedoModel/Waits.lean`, guarded acceptor `WaitsG`) -/

/-- On an acyclic declared graph no accepted state of the lock hand-over protocol is a deadlock
(`C09.progress`): whatever the number of processes and the interleaving, somebody can move.  So a
hang at -j>1 needs a cycle in what the scripts declare. -/
theorem acyclic_never_hangs (reach : Nat → List Nat) (univ : List Nat) (rank : Nat → Nat)
    (H0 : ∀ u f, f ∈ reach u → f < 1000000) (H1 : ∀ u f, f ∈ reach u → rank f < rank u)
    (H2 : ∀ f, rank (RedoModel.Waits.oobKey f) = rank f)
    (es : List RedoModel.Waits.Ev) (hin : ∀ ev ∈ es, RedoModel.Waits.evIn univ ev = true) (s : RedoModel.Waits.State)
    (h : RedoModel.Waits.runG reach univ {} es = .ok s) : RedoModel.Waits.deadlocked s univ = false :=
  C09.progress reach univ rank H0 H1 H2 es hin s h

/-- Witness for the recorded finding `crossBranchCycleUndetected`: with a cyclic declared graph
(`top → c0 → c1 → c2 → c0`, entered at `top` and at `c1`) the protocol accepts a run that ends with
every process waiting — each branch blocks on a lock held by an ancestor of the other, and neither
lock is in the waiter's inherited `REDO_CYCLES`.  Every local guard holds; only acyclicity fails. -/
theorem cross_branch_cycle_deadlocks :
    ∃ s, RedoModel.Waits.runG C09.cyReach C09.cyUniv {} C09.cyEs = .ok s ∧ RedoModel.Waits.deadlocked s C09.cyUniv = true :=
  C09.cross_branch_deadlock_guarded

end C12
