/-
The control flow of `builder::run` (src/builder.rs, "Build the given list of targets, if necessary") for ONE
redo process, as an acceptor over the events that process logs: the first loop over the requested targets
(token wait, result check, `from_name`, `try_lock`, start or queue), the second loop over the queued (locked)
targets (`wait_all`, result check, token, `try_lock`, sleep / `release_mine` / `wait_lock` / `unlock` / token,
failed-elsewhere test or start), and the final wait for every started job.

The program counter says where the control flow is; an event is accepted only where the Rust code can emit it.
The await points at which finished jobs are polled (`wait_for` in loop 1 and around `wait_all`, the final
`fold`) are exactly the counters `l1`, `l2` and `drain`; the plain awaits of the second loop (`ensure_token`,
`sleep`) poll nothing.  Everything the environment decides — which targets are new, whether a lock is free,
whether a target is dirty, what a script returns, when children exit — is in the events, so the theorems
(Props/C05c, C06b, C07d, C09d) hold for every behaviour of the environment.

What is derived instead of assumed: the local guards of the `Locks` acceptor (a script is started only under
the process's own lock, the lock is released only after the result is recorded, the process does not return
while a job is under way), the enabling conditions of `TokLoop` (`start` and `release_mine` are reached only
with a token in hand), "no new target is started after a failure is known" without `-k`, "every requested
target gets a decision" with `-k`, the exit status, and the discipline of the blocking lock wait (no job
under way, no idle lock, token given up).
-/
namespace RedoModel.RunLoop

structure Cfg where
  keepGoing : Bool := false
  deriving DecidableEq, Repr

inductive Pc
  | l1                  -- first loop: between iterations / waiting for the token of the next target (polls jobs)
  | l1tok               -- token obtained; result check next
  | l1go                -- check passed; `from_name` next
  | l1lock (f : Nat)    -- target announced; `try_lock` next
  | l1own (f : Nat)     -- lock owned; `BuildJob::start` next
  | l1started (f : Nat) -- `start` entered; immediate result, fork, or error next
  | l2                  -- second loop: loop condition / `wait_all` pending (polls jobs)
  | l2all               -- `wait_all` returned; result check next
  | l2go                -- check passed; pop next
  | l2try (f : Nat)     -- token in hand; `try_lock` next
  | l2rel (f : Nat)     -- lock busy; sleep, then `release_mine` next
  | l2wait (f : Nat)    -- token given up; blocking `wait_lock` next
  | l2got (f : Nat)     -- `wait_lock` returned, lock owned; `unlock` next
  | l2retok (f : Nat)   -- unlocked; token wait next
  | l2own (f : Nat)     -- lock owned; failed-elsewhere test or `start` next
  | l2started (f : Nat)
  | drain               -- loops left; waiting for every started job
  | ended (ok : Bool)
  deriving DecidableEq, Repr

inductive Ev
  | tok                            -- `ensure_token_or_cheat` returned
  | chk (errored : Bool)           -- the result cell as read by the check after an await
  | target (f : Nat)               -- `from_name` gave a file id not handled before (`run.target`)
  | tryLock (f : Nat) (ok : Bool)  -- `try_lock`; `ok = false` in loop 1 also queues the target
  | begin (f : Nat)                -- `BuildJob::start` entered (`job.begin`)
  | immediate (f : Nat) (fail : Bool)  -- result known without a child (clean, source, already failed); lock dropped
  | forked (f : Nat)               -- a child was started for the target (script or out-of-band rebuild)
  | jobEnd (f : Nat) (fail : Bool) -- the job's continuation ran: result recorded, lock dropped
  | waitAll                        -- `wait_all` returned
  | releaseMine                    -- `release_mine`
  | waited (f : Nat)               -- blocking `wait_lock` returned
  | unlock (f : Nat)               -- explicit `unlock` after the blocking wait
  | failedElsewhere (f : Nat)      -- the queued target failed in another process: result set, lock released
  | badTarget                      -- the empty target name: result set, first loop left
  | abort                          -- an internal error (`?`) leaves the loops
  | fin (ok : Bool)                -- every job waited for; `run` returns
  deriving DecidableEq, Repr

structure St where
  pc : Pc := .l1
  jobs : List Nat := []        -- forked jobs whose continuation has not run (each owns its target's lock)
  pending : Bool := false      -- an immediate result that is a failure and has not been polled yet
  errored : Bool := false      -- the result cell holds an error
  aborted : Bool := false
  queue : List Nat := []       -- `locked`
  seen : List Nat := []        -- `seen_ids`
  held : List Nat := []        -- locks owned by the process itself (not by one of its jobs)
  tokHeld : Bool := false      -- a token wait has returned and nothing has used or released the token since
  started : List Nat := []     -- ghost: every target for which `BuildJob::start` was entered, latest first
  elsewhere : List Nat := []   -- ghost: queued targets found failed in another process
  failed : Bool := false       -- ghost: some failure has been produced (immediate, by a job, or elsewhere)
  deriving Repr

/-- Poll the finished immediate jobs (what `wait_for` / `fold` do first). -/
def poll (s : St) : St := { s with errored := s.errored || s.pending, pending := false }

def stop (c : Cfg) (s : St) : Bool := s.errored && !c.keepGoing

/-- Events accepted while the first loop waits for a token, or has just decided to take the next target.
Leaving the first loop is silent: its successor events are accepted here too. -/
def stepL1 (s : St) : Ev → Except String St
  | .jobEnd f fail =>
    if f ∈ s.jobs then .ok { s with jobs := s.jobs.erase f, errored := s.errored || fail, failed := s.failed || fail, pc := .l1 }
    else .error "job end for a job that is not under way"
  | .tok => .ok { poll s with tokHeld := true, pc := .l1tok }
  | .badTarget => .ok { s with errored := true, failed := true, pc := .l2 }
  | .waitAll =>
    if s.jobs ≠ [] then .error "wait_all returned while a job's continuation has not run"
    else .ok { poll s with tokHeld := false, pc := .l2all }
  | .fin ok =>
    if s.jobs ≠ [] ∨ s.queue ≠ [] then .error "run returned while a job is under way or a target is queued"
    else if ok ≠ !((poll s).errored) then .error "exit status does not match the result cell"
    else .ok { poll s with pc := .ended ok }
  | .abort => .ok { s with aborted := true, held := [], pc := .drain }
  | _ => .error "event not possible in the first loop"

/-- Events accepted at the top of the second loop (loop condition, `wait_all` pending). -/
def stepL2 (s : St) : Ev → Except String St
  | .jobEnd f fail =>
    if f ∈ s.jobs then .ok { s with jobs := s.jobs.erase f, errored := s.errored || fail, failed := s.failed || fail, pc := .l2 }
    else .error "job end for a job that is not under way"
  | .waitAll =>
    if s.jobs ≠ [] then .error "wait_all returned while a job's continuation has not run"
    else .ok { poll s with tokHeld := false, pc := .l2all }
  | .fin ok =>
    if s.jobs ≠ [] ∨ s.queue ≠ [] then .error "run returned while a job is under way or a target is queued"
    else if ok ≠ !((poll s).errored) then .error "exit status does not match the result cell"
    else .ok { poll s with pc := .ended ok }
  | .abort => .ok { s with aborted := true, held := [], pc := .drain }
  | _ => .error "event not possible at the top of the second loop"

/-- The outcome of `BuildJob::start`; `back` is the counter of the loop to return to. -/
def stepStarted (s : St) (f : Nat) (back : Pc) : Ev → Except String St
  | .immediate g fail =>
    if g ≠ f then .error "result of another target"
    else .ok { s with held := s.held.erase f, pending := s.pending || fail, failed := s.failed || fail, pc := back }
  | .forked g =>
    if g ≠ f then .error "fork for another target"
    else .ok { s with held := s.held.erase f, jobs := f :: s.jobs, tokHeld := false, pc := back }
  | .abort => .ok { s with aborted := true, held := [], pc := .drain }
  | _ => .error "event not possible inside BuildJob::start"

def step (c : Cfg) (s : St) : Ev → Except String St := fun ev =>
  match s.pc with
  | .l1 => stepL1 s ev
  | .l1tok =>
    match ev with
    | .chk e =>
      if e ≠ s.errored then .error "result cell differs from the recorded job results"
      else if stop c s then .ok { s with pc := .l2 } else .ok { s with pc := .l1go }      -- `break` leads into the second loop
    | .abort => .ok { s with aborted := true, held := [], pc := .drain }
    | _ => .error "result check expected"
  | .l1go =>
    match ev with
    | .target f =>
      if f ∈ s.seen then .error "a file id is handled twice in one command"
      else .ok { s with seen := f :: s.seen, pc := .l1lock f }
    | .abort => .ok { s with aborted := true, held := [], pc := .drain }
    | ev => stepL1 { s with pc := .l1 } ev      -- duplicate spelling skipped (`continue`)
  | .l1lock f =>
    match ev with
    | .tryLock g ok =>
      if g ≠ f then .error "try_lock of another target"
      else if ok then .ok { s with held := f :: s.held, pc := .l1own f }
      else .ok { s with queue := s.queue ++ [f], pc := .l1 }
    | .abort => .ok { s with aborted := true, held := [], pc := .drain }
    | _ => .error "try_lock expected"
  | .l1own f =>
    match ev with
    | .begin g => if g ≠ f then .error "start of another target" else .ok { s with started := f :: s.started, pc := .l1started f }
    | .abort => .ok { s with aborted := true, held := [], pc := .drain }
    | _ => .error "BuildJob::start expected"
  | .l1started f => stepStarted s f .l1 ev
  | .l2 => stepL2 s ev
  | .l2all =>
    match ev with
    | .chk e =>
      if e ≠ s.errored then .error "result cell differs from the recorded job results"
      else if stop c s then .ok { s with pc := .drain } else .ok { s with pc := .l2go }
    | .abort => .ok { s with aborted := true, held := [], pc := .drain }
    | _ => .error "result check expected"
  | .l2go =>
    match s.queue with
    | f :: rest =>
      match ev with
      | .tok => .ok { s with queue := rest, tokHeld := true, pc := .l2try f }
      | .abort => .ok { s with aborted := true, held := [], pc := .drain }
      | _ => .error "token wait for the queued target expected"
    | [] => stepL2 { s with pc := .l2 } ev
  | .l2try f =>
    match ev with
    | .tryLock g ok =>
      if g ≠ f then .error "try_lock of another target"
      else if ok then .ok { s with held := f :: s.held, pc := .l2own f }
      else .ok { s with pc := .l2rel f }
    | .abort => .ok { s with aborted := true, held := [], pc := .drain }
    | _ => .error "try_lock expected"
  | .l2rel f =>
    match ev with
    | .releaseMine => .ok { s with tokHeld := false, pc := .l2wait f }
    | .abort => .ok { s with aborted := true, held := [], pc := .drain }
    | _ => .error "release_mine expected"
  | .l2wait f =>
    match ev with
    | .waited g => if g ≠ f then .error "wait_lock of another target" else .ok { s with held := f :: s.held, pc := .l2got f }
    | .abort => .ok { s with aborted := true, held := [], pc := .drain }
    | _ => .error "wait_lock expected"
  | .l2got f =>
    match ev with
    | .unlock g => if g ≠ f then .error "unlock of another target" else .ok { s with held := s.held.erase f, pc := .l2retok f }
    | .abort => .ok { s with aborted := true, held := [], pc := .drain }
    | _ => .error "unlock expected"
  | .l2retok f =>
    match ev with
    | .tok => .ok { s with tokHeld := true, pc := .l2try f }
    | .abort => .ok { s with aborted := true, held := [], pc := .drain }
    | _ => .error "token wait expected"
  | .l2own f =>
    match ev with
    | .failedElsewhere g =>
      if g ≠ f then .error "failure of another target"
      else .ok { s with held := s.held.erase f, errored := true, failed := true, elsewhere := f :: s.elsewhere, pc := .l2 }
    | .begin g => if g ≠ f then .error "start of another target" else .ok { s with started := f :: s.started, pc := .l2started f }
    | .abort => .ok { s with aborted := true, held := [], pc := .drain }
    | _ => .error "failed-elsewhere test or BuildJob::start expected"
  | .l2started f => stepStarted s f .l2 ev
  | .drain =>
    match ev with
    | .jobEnd f fail =>
      if f ∈ s.jobs then .ok { s with jobs := s.jobs.erase f, errored := s.errored || fail, failed := s.failed || fail }
      else .error "job end for a job that is not under way"
    | .fin ok =>
      if s.jobs ≠ [] then .error "run returned while a job is under way"
      else if ok ≠ (!((poll s).errored) && !s.aborted) then .error "exit status does not match the result cell"
      else .ok { poll s with pc := .ended ok }
    | _ => .error "only job ends are possible while draining"
  | .ended _ => .error "event after run returned"

def run (c : Cfg) (s : St) : List Ev → Except (Nat × String) St
  | [] => .ok s
  | e :: es =>
    match step c s e with
    | .error r => .error (es.length, r)
    | .ok s' => run c s' es

end RedoModel.RunLoop
