import RedoModel.Locks
/- `locks-replay <events>`: `;`-separated `lo,p,fid | lf,p,fid | ul,p,fid | sc,p,fid,u | re,p,fid | ex,p`.
Answer: `ok running=<k> started=<n> recorded=<n> maxper=<m>` or `reject at=<i> <class> pid=<p> fid=<f> <why>`. -/
namespace RedoModel.LocksWire
open RedoModel.Locks

def parseEv (s : String) : Option Ev :=
  match s.splitOn "," with
  | ["lo", p, f] => do pure (.lockOk (← p.toNat?) (← f.toNat?))
  | ["lf", p, f] => do pure (.lockFail (← p.toNat?) (← f.toNat?))
  | ["ul", p, f] => do pure (.unlock (← p.toNat?) (← f.toNat?))
  | ["sc", p, f, u] => do pure (.script (← p.toNat?) (← f.toNat?) (u == "1"))
  | ["re", p, f] => do pure (.recordEnd (← p.toNat?) (← f.toNat?))
  | ["ex", p] => do pure (.exit (← p.toNat?))
  | _ => none

def countFid (l : List (Nat × Nat)) (f : Nat) : Nat := (l.filter (fun e => e.1 == f)).length

def respond (evs : String) : String :=
  match (if evs = "-" then some [] else (evs.splitOn ";").mapM parseEv) with
  | none => "bad-op"
  | some es =>
    match run {} es with
    | .ok s =>
      let mx := (s.started.map (fun e => countFid s.started e.1)).foldl max 0
      "ok running=" ++ toString s.running.length ++ " started=" ++ toString s.started.length ++
        " recorded=" ++ toString s.recorded.length ++ " maxper=" ++ toString mx
    | .error (rest, r) =>
      let i := es.length - rest - 1
      match r with
      | .kernel p f w => "reject at=" ++ toString i ++ " kernel pid=" ++ toString p ++ " fid=" ++ toString f ++ " " ++ w.replace " " "_"
      | .localGuard p f w => "reject at=" ++ toString i ++ " local pid=" ++ toString p ++ " fid=" ++ toString f ++ " " ++ w.replace " " "_"
      | .globalGuard p f w => "reject at=" ++ toString i ++ " global pid=" ++ toString p ++ " fid=" ++ toString f ++ " " ++ w.replace " " "_"

end RedoModel.LocksWire
