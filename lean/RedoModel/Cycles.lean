/-
`REDO_CYCLES`: the set of locks held by the ancestors of a process, handed down in the environment
(src/cycles.rs).  `get` splits the variable at `:` into a set; `add` inserts a lock id and writes the set back,
joined with `:` in the (unspecified) iteration order of a hash set; `check` refuses a lock id that is in the set
(`CyclicDependency`, exit status 208).  Lock ids are decimal file ids.

The iteration order is a parameter `ord` (any rearrangement of the items), so the statements hold for every order.
-/
namespace RedoModel.Cycles

/-- `str::split(':')`: the empty string gives one empty item. -/
def splitColon (s : List Char) : List (List Char) :=
  let rec go : List Char → List Char → List (List Char)
    | acc, [] => [acc.reverse]
    | acc, c :: cs => if c = ':' then acc.reverse :: go [] cs else go (c :: acc) cs
  go [] s

/-- `items.join(":")`. -/
def joinColon : List (List Char) → List Char
  | [] => []
  | [x] => x
  | x :: y :: r => x ++ ':' :: joinColon (y :: r)

/-- `get`: the items of the variable (`none` = unset: no items). -/
def items : Option (List Char) → List (List Char)
  | none => []
  | some s => splitColon s

/-- `check`: `true` = the lock is held by an ancestor (cyclic dependency). -/
def check (v : Option (List Char)) (fid : List Char) : Bool := (items v).contains fid

/-- `add` under the iteration order `ord`. -/
def add (ord : List (List Char) → List (List Char)) (v : Option (List Char)) (fid : List Char) : Option (List Char) :=
  if (items v).contains fid then v
  else some (joinColon (ord ((items v).eraseDups ++ [fid])))

/-- The ancestors' side: a chain of processes, each adding the lock it holds before starting its script. -/
def addAll (ord : List (List Char) → List (List Char)) (v : Option (List Char)) : List (List Char) → Option (List Char)
  | [] => v
  | f :: fs => addAll ord (add ord v f) fs

/-- A lock id as the code writes it: decimal digits, at least one. -/
def IsFid (f : List Char) : Prop := f ≠ [] ∧ ∀ c ∈ f, c.isDigit = true

end RedoModel.Cycles
