import RedoModel.Paths
/-
Model of .do rule enumeration and script arguments:

* `paths::DefaultDoFiles`, `paths::path_splits`, `paths::possible_do_files` (src/paths.rs)
* the argument construction of `builder::BuildJob::start_self` (src/builder.rs:191-223)
* the listing loop of `redo-whichdo` (src/bin/redo/whichdo.rs:43-52)

Input is any absolute path; it is cleaned first (as the Rust does) and then handled as
components.  A path that cleans to `/` has no final component: the Rust aborts there
(`Option::unwrap`), the model answers `none`.
-/
namespace RedoModel.DoFiles
open RedoModel.Paths

structure Cand where
  doDir : List Char      -- absolute directory of the .do file
  doFile : List Char     -- its file name
  baseDir : List Char    -- target's directory relative to doDir
  baseName : List Char   -- target relative to doDir, matched extension stripped
  ext : List Char        -- matched extension ("" for `x.do` and `default.do`)
  deriving DecidableEq, Repr

/-- All ways to cut `f` immediately before a `.`: (prefix, suffix starting with the dot), leftmost first. -/
def dotCuts : List Char → List (List Char × List Char)
  | [] => []
  | c :: cs =>
    let rest := (dotCuts cs).map (fun (a, b) => (c :: a, b))
    if c = '.' then ([], c :: cs) :: rest else rest

/-- `DefaultDoFiles`: (do file name, base name, extension), longest extension first, `default.do` last. -/
def defaultDoFiles (f : List Char) : List (List Char × List Char × List Char) :=
  (dotCuts f).map (fun (b, e) => ("default".toList ++ e ++ ".do".toList, b, e))
    ++ [("default.do".toList, f, [])]

/-- `path_splits` of the target's directory, nearest directory first:
(components of the do directory, components from there down to the target's directory). -/
def dirSplits (dirs : List (List Char)) : List (List (List Char) × List (List Char)) :=
  (List.range (dirs.length + 1)).reverse.map (fun k => (dirs.take k, dirs.drop k))

def candsIn (f : List Char) (d : List (List Char) × List (List Char)) : List Cand :=
  (defaultDoFiles f).map (fun (doFile, b, e) =>
    { doDir := render true d.1, doFile := doFile, baseDir := joinSlash d.2,
      baseName := pushPath (joinSlash d.2) b, ext := e })

/-- Candidates for a target given as directory components and file name. -/
def candidates (dirs : List (List Char)) (f : List Char) : List Cand :=
  { doDir := render true dirs, doFile := f ++ ".do".toList, baseDir := [], baseName := f, ext := [] }
    :: (dirSplits dirs).flatMap (candsIn f)

/-- `possible_do_files p` for an absolute `p`. -/
def possibleDoFiles (p : List Char) : Option (List Cand) :=
  match (cleanComps true (comps p)).reverse with
  | [] => none
  | f :: revDirs => some (candidates revDirs.reverse f)

/-- `$1`, `$2`, and the un-relativised `$3` (it is passed relative to `doDir`). -/
def arg1 (c : Cand) : List Char := c.baseName ++ c.ext
def arg2 (c : Cand) : List Char := c.baseName
def tmpName (c : Cand) : List Char := pushPath c.doDir (c.baseName ++ c.ext ++ ".redo.tmp".toList)
def doPath (c : Cand) : List Char := pushPath c.doDir c.doFile

/-- What `redo-whichdo` prints (as absolute do-file paths, before `relpath` to the cwd):
every candidate up to and including the first that exists; `found = false` when none exists. -/
def whichdo (exist : List Char → Bool) : List Cand → List (List Char) × Bool
  | [] => ([], false)
  | c :: cs =>
    if exist (doPath c) then ([doPath c], true)
    else let (l, b) := whichdo exist cs; (doPath c :: l, b)

/-- `paths::find_do_file`: the chosen candidate and the candidates recorded as absent before it. -/
def findDoFile (exist : List Char → Bool) : List Cand → Option Cand × List Cand
  | [] => (none, [])
  | c :: cs =>
    if exist (doPath c) then (some c, [])
    else let (r, l) := findDoFile exist cs; (r, c :: l)

end RedoModel.DoFiles
