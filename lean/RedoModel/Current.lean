import RedoModel.Deps
/-
The defect switches that describe /repo as it is now.  Edited only together with a `fix:`
commit in /repo or a new entry in known_findings.json.  tools/deps_check.py reads the values
from this file (so the model the correspondence is checked against is the one named here).
-/
namespace RedoModel
def currentDefects : Deps.Defects :=
  { oobRebuildsDepsNotTarget := false,
    failedTargetAbortsRun := false,
    oobRecordsDepsOnCaller := false }
end RedoModel
