/-
The pipe between a top-level redo and its log viewer (`redo-log --follow -`), as a two-party transition system.

The top-level process W writes its own log lines into a pipe of capacity `cap`; a write of one line needs one free
slot, otherwise W is blocked in write(2).  W is also the process that must record the job J whose log the viewer V
follows: it can do so only when it is not blocked, after it has written the `pre` lines that precede the recording
(the `do`/`done` records of the other targets on its command line that finish earlier).  V reads the pipe; when it has
read the record that sends it into J's log it stays there until J is recorded (it watches J's lock), and only then
returns to the pipe.

`drain = false` is the viewer before repair e7e0e67 (while it follows J nobody reads the pipe); `drain = true` is the
repaired one (a thread of its own keeps moving lines from the pipe into an unbounded buffer).
-/
namespace RedoModel.LogPipe

structure Cfg where
  cap : Nat          -- pipe capacity in lines
  drain : Bool       -- the viewer drains its standard input while it follows a target
  deriving DecidableEq, Repr

structure St where
  toWrite : Nat      -- lines W still has to write before it can record J
  inPipe : Nat := 0
  following : Bool := true    -- V is inside J's log (it has read the record that points there)
  recorded : Bool := false    -- J's result is recorded (its lock released)
  buffered : Nat := 0         -- lines moved out of the pipe by the drain thread, not yet shown
  deriving DecidableEq, Repr

inductive Act
  | write        -- W writes one line
  | record       -- W records J (all lines before it are written)
  | read         -- V takes a line from the pipe (only outside J's log)
  | drainOne     -- the drain thread moves a line from the pipe to its buffer
  | leave        -- V sees J recorded and returns to its standard input
  deriving DecidableEq, Repr

def enabled (c : Cfg) (s : St) : Act → Bool
  | .write => s.toWrite > 0 && s.inPipe < c.cap
  | .record => s.toWrite = 0 && !s.recorded
  | .read => !s.following && (s.inPipe > 0 || s.buffered > 0)
  | .drainOne => c.drain && s.inPipe > 0
  | .leave => s.following && s.recorded

def step (c : Cfg) (s : St) (a : Act) : Option St :=
  if !enabled c s a then none else
  match a with
  | .write => some { s with toWrite := s.toWrite - 1, inPipe := s.inPipe + 1 }
  | .record => some { s with recorded := true }
  | .read => if s.buffered > 0 then some { s with buffered := s.buffered - 1 } else some { s with inPipe := s.inPipe - 1 }
  | .drainOne => some { s with inPipe := s.inPipe - 1, buffered := s.buffered + 1 }
  | .leave => some { s with following := false }

def run (c : Cfg) (s : St) : List Act → Option St
  | [] => some s
  | a :: as => match step c s a with
    | some s' => run c s' as
    | none => none

/-- Everything written has been shown and J is recorded. -/
def finished (s : St) : Bool := s.toWrite = 0 && s.recorded && !s.following && s.inPipe = 0 && s.buffered = 0

def stuck (c : Cfg) (s : St) : Bool :=
  !finished s && [Act.write, .record, .read, .drainOne, .leave].all (fun a => !enabled c s a)

end RedoModel.LogPipe
