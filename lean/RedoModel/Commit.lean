import RedoModel.Generated
/-
Model of the output-commit decision of `builder::BuildJob::record_new_state`
(src/builder.rs:462-600) together with the `unlink($3)` that `start_self` issues before the
script runs (src/builder.rs:200).

The file system is reduced to the two names redo touches: the target and `<target>.redo.tmp`.
`Bytes` is abstract content.  The script's own behaviour is the input: what it left in the
target (possibly modified directly), in `$3`, on stdout, and its exit status.
-/
namespace RedoModel.Commit
open RedoModel.Generated

abbrev Bytes := List Nat

inductive FsOp
  | unlinkTmp
  | createTmpFromStdout
  | renameTmpToTarget
  | unlinkTarget
  deriving DecidableEq, Repr

/-- What `stat` shows for the target. -/
structure TStat where
  isDir : Bool
  mtime : Nat
  deriving DecidableEq, Repr

structure Input where
  before : Option TStat          -- `before_t`, taken in `BuildJob::start`
  after : Option TStat           -- `after_t`, taken when the script has exited
  stdoutSize : Nat               -- `st1.size()`
  tmpExists : Bool               -- `st2.is_some()`: the script left a `$3` file
  rv : Int                       -- the job's status (negative = killed by that signal)
  createFails : Bool := false    -- fault: `File::create($3)` fails
  renameFails : Bool := false    -- fault: `rename($3, $1)` fails
  deriving Repr

def modifiedDirectly (i : Input) : Bool :=
  match i.after with
  | none => false
  | some a => !a.isDir && (match i.before with
      | none => true
      | some b => b.mtime != a.mtime)

def bothOutputs (i : Input) : Bool := i.tmpExists && i.stdoutSize > 0

/-- Status after the two sanity checks. -/
def rv1 (i : Input) : Int :=
  if modifiedDirectly i then EXIT_TARGET_DIRECTLY_MODIFIED
  else if bothOutputs i then EXIT_MULTIPLE_OUTPUTS
  else i.rv

structure Decision where
  ops : List FsOp
  rv : Int
  recordedOk : Bool      -- `is_generated := true`, stamp refreshed (else `set_failed`)
  deriving Repr

def decide (i : Input) : Decision :=
  if rv1 i = EXIT_SUCCESS then
    let copy := i.stdoutSize > 0 && !i.tmpExists
    let ops1 := if copy then (if i.createFails then [FsOp.unlinkTmp] else [.unlinkTmp, .createTmpFromStdout]) else []
    let rvA : Int := if copy && i.createFails then EXIT_BUILD_JOB_ERROR else EXIT_SUCCESS
    let st2 := i.tmpExists || (copy && !i.createFails)
    -- (repaired in /repo: when the output cannot be copied nothing is installed and the old target is NOT removed)
    let ops2 := if rvA ≠ EXIT_SUCCESS then [] else if st2 then [FsOp.renameTmpToTarget] else [.unlinkTarget]
    let rvB : Int := if st2 && i.renameFails then EXIT_BUILD_JOB_ERROR else rvA
    if rvB = EXIT_SUCCESS then { ops := ops1 ++ ops2, rv := rvB, recordedOk := true }
    else { ops := ops1 ++ ops2 ++ [.unlinkTmp], rv := rvB, recordedOk := false }
  else { ops := [.unlinkTmp], rv := rv1 i, recordedOk := false }

/-- The two names. -/
structure Fs where
  target : Option Bytes
  tmp : Option Bytes
  deriving DecidableEq, Repr

def applyOp (stdout : Bytes) (renameFails : Bool) (fs : Fs) : FsOp → Fs
  | .unlinkTmp => { fs with tmp := none }
  | .createTmpFromStdout => { fs with tmp := some stdout }
  | .renameTmpToTarget => if renameFails then fs else { target := fs.tmp, tmp := none }
  | .unlinkTarget => { fs with target := none }

def applyOps (stdout : Bytes) (renameFails : Bool) (fs : Fs) (ops : List FsOp) : Fs :=
  ops.foldl (applyOp stdout renameFails) fs

end RedoModel.Commit
