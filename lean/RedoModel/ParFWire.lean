import RedoModel.ParF
/- `parf-replay <graph> <kg> <tops> <events>`:
graph  `;`-separated `t:tag:reads:cmd|cmd|…:fails` (reads and each cmd `_`-separated file numbers, `-` = none; fails 0/1);
       files not listed are sources;
kg     0/1 (`--keep-going`);  tops `_`-separated top-level targets;
events `;`-separated `st,t,by|-` `cl,t` `rt,t,0|1` `fi,t` `fl,t`.
Answer `ok starts=<n> maxstarts=<m> status=<0|1> returns=<0|1> failed=<list> done=<list>` or `reject at=<i>`.
`parf-serial <graph> <kg> <tops>`: the serial schedule's answer. -/
namespace RedoModel.ParFWire
open RedoModel.ParF

def nums (s : String) : Option (List Nat) :=
  if s = "-" || s = "" then some [] else (s.splitOn "_").mapM String.toNat?

def parseScript (s : String) : Option (Nat × Script) :=
  match s.splitOn ":" with
  | [t, tag, reads, cmds, fails] => do
    let t ← t.toNat?
    let tag ← tag.toNat?
    let reads ← nums reads
    let cmds ← (if cmds = "-" || cmds = "" then some [] else (cmds.splitOn "|").mapM nums)
    pure (t, { cmds := cmds, reads := reads, tag := tag, fails := fails == "1" })
  | _ => none

def mkGraph (l : List (Nat × Script)) (kg : Bool) : Graph :=
  { script := fun t => (l.find? (fun e => e.1 == t)).map (·.2), src := fun f => [2 * f + 3], keepGoing := kg }

def parseEv (s : String) : Option Ev :=
  match s.splitOn "," with
  | ["st", t, "-"] => t.toNat?.map (fun t => .start t none)
  | ["st", t, p] => do
    let t ← t.toNat?
    let p ← p.toNat?
    pure (.start t (some p))
  | ["cl", t] => t.toNat?.map .clean
  | ["rt", t, ok] => t.toNat?.map (fun t => .ret t (ok == "1"))
  | ["fi", t] => t.toNat?.map .finish
  | ["fl", t] => t.toNat?.map .fail
  | _ => none

def showL (l : List Nat) : String := if l.isEmpty then "-" else "_".intercalate (l.map toString)

def showState (g : Graph) (l : List (Nat × Script)) (tops : List Nat) (s : State) : String :=
  let ts := l.map (·.1)
  "ok starts=" ++ toString s.starts.length ++ " maxstarts=" ++ toString ((s.starts.map (fun t => s.starts.count t)).foldl max 0) ++
    " status=" ++ toString (status g s tops) ++ " returns=" ++ (if topReturns g s tops then "1" else "0") ++
    " failed=" ++ showL (ts.filter (fun t => s.st t == .failed)) ++ " done=" ++ showL (ts.filter (fun t => s.st t == .done))

def init : State := { st := fun _ => .idle, content := fun _ => [] }

def respond (graph kg tops evs : String) : String :=
  match (if graph = "-" then some [] else (graph.splitOn ";").mapM parseScript), nums tops,
        (if evs = "-" then some [] else (evs.splitOn ";").mapM parseEv) with
  | some l, some tops, some es =>
    let g := mkGraph l (kg == "1")
    match runIdx g init es 0 with
    | .ok s => showState g l tops s
    | .error i => "reject at=" ++ toString i
  | _, _, _ => "bad-op"

def respondSerial (graph kg tops : String) : String :=
  match (if graph = "-" then some [] else (graph.splitOn ";").mapM parseScript), nums tops with
  | some l, some tops =>
    let g := mkGraph l (kg == "1")
    showState g l tops (serialTop g (l.length + 2) tops init).2
  | _, _ => "bad-op"

end RedoModel.ParFWire
