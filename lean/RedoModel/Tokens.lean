/-
Model of the job-token bookkeeping of `src/jobserver.rs` for ONE jobserver (one token pipe and
one cheat pipe shared by a tree of redo processes and the jobs they start).

It is written as an *acceptor*: `step` consumes one primitive event as logged by the
`verif::point("js.*")` hooks (each event carries the process's `(my_tokens, cheats)` after the
primitive), checks it against the model's own counters and the guards the Rust asserts, and
returns the next state or a rejection.  `Tokens`' theorems (Props/C08.lean) say that every
accepted event sequence conserves the token value `V`.

Primitive ↔ Rust:
  create   `ServerState::create_tokens`      destroy  `destroy_tokens`
  release  `ServerState::release` (logged before the bytes are written to the pipe)
  read     a byte taken from the token pipe in `block_on`
  eat      a byte taken from the cheat pipe when a child exit is noticed
  cheat    `ensure_token_or_cheat` synthesising a token
  start / childexit / reaped     `JobServerHandle::start`, child-exit branch of `block_on`
  forcereturn / cheatwrite / returned   `do_force_return_tokens`
  selftest `AllJobsDone::test_tokens`
`limbo` is the number of tokens a process has in transit between two primitives (destroyed for a
child that is not forked yet, owed for a child whose exit was noticed but whose token is not
re-created yet, the surplus granted by `-jN` at set-up).
-/
namespace RedoModel.Tokens

structure Proc where
  my : Int
  cheats : Int
  limbo : Int
  job : Option Nat      -- the job (script process) this redo process runs inside
  top : Bool            -- created the jobserver
  exiting : Bool := false
  deriving DecidableEq, Repr

structure JobSt where
  owner : Nat
  delegated : Bool      -- a nested redo process inside the job currently holds the job's token
  deriving DecidableEq, Repr

structure State where
  pipe : Int := 0
  cheatPipe : Int := 0
  total : Int := 0
  procs : List (Nat × Proc) := []
  jobs : List (Nat × JobSt) := []
  deriving Repr

inductive Ev
  | setupOwn (p n : Nat)
  | setupInh (p parent : Nat)
  | create (p n : Nat) (my cheats : Int)
  | destroy (p n : Nat) (my cheats : Int)
  | release (p n shared : Nat) (my cheats : Int)
  | read (p : Nat) (my cheats : Int)
  | eat (p : Nat) (my cheats : Int)
  | cheat (p n : Nat) (my cheats : Int)
  | start (p j : Nat) (my cheats : Int)
  | childexit (p j : Nat) (my cheats : Int)
  | reaped (p j : Nat)
  | forcereturn (p n : Nat)
  | cheatwrite (p n : Nat)
  | selftest (p : Nat) (tokens cheats top : Int)
  | returned (p : Nat) (my cheats : Int)
  deriving Repr

inductive Reject
  | unknownProc (p : Nat)
  | counters (what : String) (p : Nat) (modelMy modelCheats gotMy gotCheats : Int)
  | guard (what : String) (p : Nat)
  deriving Repr

def contrib (x : Proc) : Int := x.my - x.cheats + x.limbo

def sumProcs (l : List (Nat × Proc)) : Int := (l.map (fun e => contrib e.2)).sum

def freeJobs (l : List (Nat × JobSt)) : Int := ((l.filter (fun e => !e.2.delegated)).length : Int)

/-- The conserved quantity: tokens in the pipe, minus outstanding cheat compensations, plus what
every live redo process holds (really holds, not cheated, plus in transit), plus one per job whose
script is working on its own token. -/
def V (s : State) : Int := s.pipe - s.cheatPipe + sumProcs s.procs + freeJobs s.jobs

def find? {α} (l : List (Nat × α)) (k : Nat) : Option α :=
  match l with
  | [] => none
  | (k', v) :: r => if k' = k then some v else find? r k

/-- Replace the first entry with key `k`. -/
def set {α} (l : List (Nat × α)) (k : Nat) (v : α) : List (Nat × α) :=
  match l with
  | [] => []
  | (k', v') :: r => if k' = k then (k, v) :: r else (k', v') :: set r k v

/-- Remove the first entry with key `k`. -/
def del {α} (l : List (Nat × α)) (k : Nat) : List (Nat × α) :=
  match l with
  | [] => []
  | (k', v') :: r => if k' = k then r else (k', v') :: del r k

/-- `create_tokens n`: each new token first cancels an outstanding cheat. -/
def createN (x : Proc) : Nat → Proc
  | 0 => x
  | n + 1 =>
    let y := createN x n
    if y.cheats > 0 then { y with cheats := y.cheats - 1, limbo := y.limbo - 1 }
    else { y with my := y.my + 1, limbo := y.limbo - 1 }

def check (what : String) (p : Nat) (x : Proc) (my cheats : Int) (s : State) : Except Reject State :=
  if x.my = my ∧ x.cheats = cheats then .ok s
  else .error (.counters what p x.my x.cheats my cheats)

def withProc (s : State) (p : Nat) (f : Proc → Except Reject State) : Except Reject State :=
  match find? s.procs p with
  | none => .error (.unknownProc p)
  | some x => f x

def step (s : State) (e : Ev) : Except Reject State :=
  match e with
  | .setupOwn p n =>
    if n = 0 ∨ !s.procs.isEmpty then .error (.guard "setupOwn" p)
    else .ok { s with total := s.total + (n : Int),
                      procs := (p, { my := 1, cheats := 0, limbo := (n : Int) - 1, job := none, top := true }) :: s.procs }
  | .setupInh p parent =>
    match find? s.jobs parent with
    | some j =>
      if j.delegated then .error (.guard "setupInh: job already has a redo process" p)
      else .ok { s with jobs := set s.jobs parent { j with delegated := true },
                        procs := (p, { my := 1, cheats := 0, limbo := 0, job := some parent, top := false }) :: s.procs }
    | none =>
      -- a redo process started from outside under an inherited jobserver brings its own token
      .ok { s with total := s.total + 1,
                   procs := (p, { my := 1, cheats := 0, limbo := 0, job := none, top := false }) :: s.procs }
  | .create p n my cheats =>
    withProc s p fun x =>
      if x.limbo < (n : Int) then .error (.guard "create: token created out of nothing" p)
      else
        let y := createN x n
        check "create" p y my cheats { s with procs := set s.procs p y }
  | .destroy p n my cheats =>
    withProc s p fun x =>
      if x.my < (n : Int) then .error (.guard "destroy: my_tokens < n" p)
      else
        let y := { x with my := x.my - n, limbo := x.limbo + n }
        check "destroy" p y my cheats { s with procs := set s.procs p y }
  | .release p n shared my cheats =>
    withProc s p fun x =>
      if x.my < (n : Int) ∨ shared > n ∨ x.cheats < ((n - shared : Nat) : Int) then .error (.guard "release" p)
      else if shared ≠ n - (min n x.cheats.toNat) then .error (.guard "release: shared count" p)
      else
        let y := { x with my := x.my - n, cheats := x.cheats - ((n - shared : Nat) : Int) }
        check "release" p y my cheats { s with procs := set s.procs p y, pipe := s.pipe + shared }
  | .read p my cheats =>
    withProc s p fun x =>
      if s.pipe < 1 then .error (.guard "read: token pipe is empty in the model" p)
      else if x.my ≥ 1 then .error (.guard "read: a token is taken from the pipe while the process already holds one" p)
      else
        let y := { x with my := x.my + 1 }
        check "read" p y my cheats { s with procs := set s.procs p y, pipe := s.pipe - 1 }
  | .eat p my cheats =>
    withProc s p fun x =>
      if s.cheatPipe < 1 ∨ x.limbo < 1 then .error (.guard "eat" p)
      else if x.cheats > 0 then
        -- repaired (side observation of round 6): a child's exit settles the process's OWN outstanding cheat first
        .error (.guard "eat: the IOU of another process is taken while the process's own cheat is outstanding" p)
      else
        let y := { x with limbo := x.limbo - 1 }
        check "eat" p y my cheats { s with procs := set s.procs p y, cheatPipe := s.cheatPipe - 1 }
  | .cheat p n my cheats =>
    withProc s p fun x =>
      if x.my ≠ 0 then .error (.guard "cheat: a token is synthesised while the process holds one" p)
      else
      let y := { x with my := x.my + n, cheats := x.cheats + n }
      check "cheat" p y my cheats { s with procs := set s.procs p y }
  | .start p j my cheats =>
    withProc s p fun x =>
      if x.limbo < 1 then .error (.guard "start: no destroyed token to give to the child" p)
      else if x.my ≠ 0 then .error (.guard "start: my_tokens was not exactly 1 (the Rust assertion)" p)
      else
        let y := { x with limbo := x.limbo - 1 }
        check "start" p y my cheats
          { s with procs := set s.procs p y, jobs := (j, { owner := p, delegated := false }) :: s.jobs }
  | .childexit p j my cheats =>
    withProc s p fun x =>
      match find? s.jobs j with
      | none => .error (.guard "childexit: unknown job" p)
      | some js =>
        if js.owner ≠ p ∨ js.delegated then .error (.guard "childexit: job not owned / still delegated" p)
        else
          let y := { x with limbo := x.limbo + 1 }
          check "childexit" p x my cheats { s with procs := set s.procs p y, jobs := del s.jobs j }
  | .reaped _ _ => .ok s
  | .forcereturn p n =>
    withProc s p fun x =>
      if n ≠ 0 then .error (.guard "forcereturn: exits while jobs are still running (their tokens are re-created)" p)
      else .ok { s with procs := set s.procs p { x with exiting := true } }
  | .cheatwrite p n =>
    withProc s p fun x =>
      .ok { s with procs := set s.procs p { x with limbo := x.limbo + n }, cheatPipe := s.cheatPipe + n }
  | .selftest p tokens cheats top =>
    withProc s p fun _ =>
      if s.pipe ≠ tokens ∨ s.cheatPipe ≠ cheats then .error (.guard "selftest: pipe contents differ from the model" p)
      else if cheats ≠ 0 ∨ tokens - cheats ≠ top then .error (.guard "selftest: token count" p)
      else .ok s
  | .returned p my cheats =>
    withProc s p fun x =>
      if x.my ≠ my ∨ x.cheats ≠ cheats then .error (.counters "returned" p x.my x.cheats my cheats)
      else
        match x.job with
        | some j =>
          match find? s.jobs j with
          | none => .error (.guard "returned: job vanished" p)
          | some js =>
            if !js.delegated then .error (.guard "returned: job was not delegated to a redo process" p)
            else if contrib x ≠ 1 then .error (.guard "exit: process does not leave exactly one token to its job" p)
            else .ok { s with procs := del s.procs p, jobs := set s.jobs j { js with delegated := false } }
        | none =>
          if x.top then
            -- the jobserver's creator may have put its own token into the pipe (self-test) or keep it
            if contrib x = 0 ∨ contrib x = 1 then .ok { s with procs := del s.procs p, total := s.total - contrib x }
            else .error (.guard "exit: top-level token count" p)
          else
            if contrib x ≠ 1 then .error (.guard "exit: inherited-jobserver process must leave with exactly its own token" p)
            -- (an IOU on the cheat pipe is read by the owner of the job the process runs in; at the top of a redo tree
            -- under a foreign jobserver there is none: the token must be a real one)
            else if x.limbo ≠ 0 then .error (.guard "exit: inherited-jobserver process leaves an IOU nobody will read" p)
            else .ok { s with procs := del s.procs p, total := s.total - 1 }

def run (s : State) : List Ev → Except (Nat × Reject) State
  | [] => .ok s
  | e :: es =>
    match step s e with
    | .error r => .error (es.length, r)
    | .ok s' => run s' es

end RedoModel.Tokens
