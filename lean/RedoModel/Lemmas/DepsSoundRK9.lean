import RedoModel.Lemmas.DepsSoundRK8
/-!
Non-vacuity of `recoversRichK_partial`: a two-level project with a `redo-always` script whose failure depends on what
it reads (3 <- 2;  2 <- //ALWAYS, 5), built, a source edited, the rebuild killed inside the script of the outer
target 3 after its `redo-ifchange 2` returned (the inner target 2 has been rebuilt and recorded; the output of 3 has
not been written), then recovered.
-/
namespace RedoModel.Deps.Rich
open RedoModel.Generated

/-- target 2 (.do file 1): `redo-always; redo-ifchange 5; fail if 5 holds an odd version; cat 5` -/
def kaS2 : Script := { always := true, ifchange := [[5]], reads := [5], failIfOdd := some 5, tag := 1 }
/-- target 3 (.do file 4): `redo-ifchange 2; cat 2` -/
def kaS3 : Script := { ifchange := [[2]], reads := [2], tag := 2 }

/-- set-up (scripts, .do files 1 and 4, source 5) -/
def kaOps0 : List UserOp :=
  [.setProg [17] kaS2, .setProg [19] kaS3, .write 1 7, .write 4 8, .write 5 0]
/-- build, edit source 5, rebuild killed at step 1 of the script of 3 -/
def kaOps : List UserOp :=
  kaOps0 ++ [.cmd (.ifchange [3] false), .write 5 2, .crashCmd [3] 3 1]

theorem ka_single : SingleDo r3Rules := by
  intro t; unfold r3Rules; split
  · simp
  · split <;> simp

theorem ka_rank_lt : ∀ f, r3Rank f < 3 := by
  intro f; unfold r3Rank; split
  · omega
  · split <;> omega

/-- rules as given, the two scripts only, and the .do files 1 and 4 hold (if anything) their own script. -/
def KaShape (w : World) : Prop :=
  w.rules = r3Rules ∧ (∀ c sc, w.progs c = some sc → (c = [17] ∧ sc = kaS2) ∨ (c = [19] ∧ sc = kaS3)) ∧
  (∀ n, w.fs 1 = some n → n.content = [17]) ∧ (∀ n, w.fs 4 = some n → n.content = [19])

theorem KaShape.ranked {w : World} (h : KaShape w) : RankedR r3Rank w := by
  obtain ⟨hr, hp, h1, h4⟩ := h
  refine ⟨fun t c hc => ?_, fun t dof hd n sc hn hsc => ?_⟩
  · rw [hr] at hc; unfold r3Rules at hc
    split at hc
    · simp at hc; subst hc; subst_vars; simp [r3Rank]
    · split at hc
      · simp at hc; subst hc; subst_vars; simp [r3Rank]
      · simp at hc
  · rw [hr] at hd; unfold r3Rules at hd
    split at hd
    · simp only [List.mem_singleton] at hd; subst hd; subst_vars
      have hc := h1 n hn
      rw [hc] at hsc
      rcases hp _ _ hsc with ⟨_, rfl⟩ | ⟨hc', _⟩
      · refine ⟨fun _ => by simp [r3Rank, alwaysId], fun d hdm => ?_, fun d hdm => by simp [kaS2] at hdm⟩
        have : d = 5 := by simpa [kaS2] using hdm
        subst this; simp [r3Rank, alwaysId]
      · simp at hc'
    · split at hd
      · simp only [List.mem_singleton] at hd; subst hd; subst_vars
        have hc := h4 n hn
        rw [hc] at hsc
        rcases hp _ _ hsc with ⟨hc', _⟩ | ⟨_, rfl⟩
        · simp at hc'
        · refine ⟨fun ha => by simp [kaS3] at ha, fun d hdm => ?_, fun d hdm => by simp [kaS3] at hdm⟩
          have : d = 2 := by simpa [kaS3] using hdm
          subst this; simp [r3Rank, alwaysId]
      · simp at hd

theorem RankedR_same {rank : Nat → Nat} {w w' : World} (h : RankedR rank w) (hr : w'.rules = w.rules)
    (hp : w'.progs = w.progs) (hf : ∀ t, ∀ dof ∈ w.rules t, w'.fs dof = w.fs dof) : RankedR rank w' := by
  refine ⟨by rw [hr]; exact h.1, fun t dof hd n sc hn hsc => ?_⟩
  rw [hr] at hd ⊢
  rw [hf t dof hd] at hn
  rw [hp] at hsc
  exact h.2 t dof hd n sc hn hsc

theorem ka_shape0 : ∀ w ∈ worldsOf 3 {} (initWorld r3Rules) kaOps0, KaShape w := by
  intro w hw
  simp only [kaOps0, worldsOf, List.mem_cons, List.not_mem_nil, or_false] at hw
  rcases hw with rfl | rfl | rfl | rfl | rfl | rfl
  all_goals
    refine ⟨rfl, ?_, ?_, ?_⟩
    all_goals simp (config := { decide := true }) [applyOp, initWorld, newNode, setFile, srcContent]
  all_goals
    intro c sc h
    repeat' split at h
    all_goals simp_all

theorem ka_richK : ∀ op ∈ kaOps, RichOpK r3Rules op := by
  intro op hop
  simp only [kaOps, kaOps0, List.cons_append, List.nil_append, List.mem_cons, List.not_mem_nil, or_false] at hop
  rcases hop with rfl | rfl | rfl | rfl | rfl | rfl | rfl | rfl
  · refine ⟨rfl, ?_, ?_⟩
    · intro f hf; left; simpa [kaS2] using hf
    · intro f hf; simp only [kaS2, Option.some.injEq] at hf; subst hf; simp [kaS2]
  · refine ⟨rfl, ?_, ?_⟩
    · intro f hf; left; simpa [kaS3] using hf
    · intro f hf; simp [kaS3] at hf
  · simp [RichOpK, RichOp, alwaysId]
  · simp [RichOpK, RichOp, alwaysId]
  · simp [RichOpK, RichOp, alwaysId]
  · intro t ht; simp only [Cmd.names, List.mem_singleton] at ht; subst ht; simp [alwaysId]
  · simp [RichOpK, RichOp, alwaysId]
  · intro t ht; simp only [List.mem_singleton] at ht; subst ht; simp [alwaysId]

theorem ka_noWatch : ∀ op ∈ kaOps, NoWatchOp op := by
  intro op hop
  simp only [kaOps, kaOps0, List.cons_append, List.nil_append, List.mem_cons, List.not_mem_nil, or_false] at hop
  rcases hop with rfl | rfl | rfl | rfl | rfl | rfl | rfl | rfl <;> simp [NoWatchOp, kaS2, kaS3]

theorem ka_opsOk : OpsOkW 3 (initWorld r3Rules) kaOps := by
  refine ⟨?_, ?_, trivial, trivial, trivial, trivial, trivial, trivial, trivial⟩
  · intro t dof _ n hn; cases hn
  · intro t dof _ n hn; cases hn

def kaW6 : World := kaOps0.foldl (fun w op => (applyOp {} 3 op w).2) (initWorld r3Rules)
def kaW7 : World := (applyOp {} 3 (.cmd (.ifchange [3] false)) kaW6).2
def kaW8 : World := (applyOp {} 3 (.write 5 2) kaW7).2
def kaW9 : World := (applyOp {} 3 (.crashCmd [3] 3 1) kaW8).2

theorem ka_btw6 : SK kaW6 ∧ Btw r3Rank kaW6 ∧ kaW6.rules = r3Rules := by
  have h0 : Btw r3Rank (initWorld r3Rules) :=
    Btw_init r3_rulesOk (ka_shape0 _ (worldsOf_head 3 {} _ kaOps0)).ranked
  refine history_btwK ka_rank_lt kaOps0 _ (SK_init ka_single) h0 rfl (fun op hop => ka_richK op ?_)
    (fun op hop => ka_noWatch op ?_) (fun w hw => (ka_shape0 w hw).ranked) ?_
  · unfold kaOps; exact List.mem_append_left _ hop
  · unfold kaOps; exact List.mem_append_left _ hop
  · refine ⟨?_, ?_, trivial, trivial, trivial, trivial⟩
    · intro t dof _ n hn; cases hn
    · intro t dof _ n hn; cases hn

theorem ka_btw7 : SK kaW7 ∧ Btw r3Rank kaW7 ∧ kaW7.rules = r3Rules := by
  obtain ⟨a1, a2⟩ := runCmd_btw {} ka_rank_lt ka_btw6.2.1 (.ifchange [3] false)
    (by intro t ht; simp only [Cmd.names, List.mem_singleton] at ht; subst ht; simp [alwaysId])
  exact ⟨ka_btw6.1.tr (runCmd_tr {} 3 (.ifchange [3] false) kaW6), a1, a2.trans ka_btw6.2.2⟩

theorem ka_ranked8 : RankedR r3Rank kaW8 := by
  refine RankedR_same ka_btw7.2.1.ranked rfl rfl (fun t dof hd => ?_)
  rw [ka_btw7.2.2] at hd
  have hne : dof ≠ 5 := by
    unfold r3Rules at hd
    split at hd
    · simp at hd; omega
    · split at hd
      · simp at hd; omega
      · simp at hd
  show (setFile _ 5 _).fs dof = _
  simp [setFile, hne]

theorem ka_btw8 : SK kaW8 ∧ Btw r3Rank kaW8 ∧ kaW8.rules = r3Rules := by
  obtain ⟨a1, a2⟩ := applyOp_btwK ka_rank_lt ka_btw7.1 ka_btw7.2.1 ka_btw7.2.2 (.write 5 2)
    (by simp [RichOpK, RichOp, alwaysId]) trivial ka_ranked8
  exact ⟨applyOp_sk {} 3 _ kaW7 trivial ka_btw7.1, a1, a2⟩

theorem ka_btw9 : SK kaW9 ∧ Btw r3Rank kaW9 ∧ kaW9.rules = r3Rules := by
  obtain ⟨a1, a2⟩ := crashCmd_btw {} ka_rank_lt ka_btw8.1 ka_btw8.2.1 [3] 3 1
    (by intro t ht; simp only [List.mem_singleton] at ht; subst ht; simp [alwaysId])
  exact ⟨ka_btw8.1.tr (crashCmd_tr {} 3 [3] 3 1 kaW8), a1, a2.trans ka_btw8.2.2⟩

theorem ka_ranked : ∀ w ∈ worldsOf 3 {} (initWorld r3Rules) kaOps, RankedR r3Rank w := by
  intro w hw
  simp only [kaOps, kaOps0, List.cons_append, List.nil_append, worldsOf, List.mem_cons, List.not_mem_nil, or_false] at hw
  rcases hw with rfl | rfl | rfl | rfl | rfl | rfl | rfl | rfl | rfl
  · exact (ka_shape0 _ (by simp [kaOps0, worldsOf])).ranked
  · exact (ka_shape0 _ (by simp [kaOps0, worldsOf])).ranked
  · exact (ka_shape0 _ (by simp [kaOps0, worldsOf])).ranked
  · exact (ka_shape0 _ (by simp [kaOps0, worldsOf])).ranked
  · exact (ka_shape0 _ (by simp [kaOps0, worldsOf])).ranked
  · exact ka_btw6.2.1.ranked
  · exact ka_btw7.2.1.ranked
  · exact ka_ranked8
  · exact ka_btw9.2.1.ranked

/-- **Non-vacuity of `recoversRichK_partial`**: every hypothesis holds for the history `kaOps` (which ends with a
kill in the middle of a two-level rebuild whose inner script says `redo-always`). -/
example : let w := kaOps.foldl (fun w op => (applyOp {} 3 op w).2) (initWorld r3Rules)
    let r := runCmd {} 3 (.ifchange [3] false) w
    r.1.status = 0 → ∀ t ∈ [3], UpToDateR r.2 t :=
  recoversRichK_partial 3 r3Rules r3Rank kaOps [3] false false r3_rulesOk ka_single ka_richK ka_noWatch ka_ranked
    ka_rank_lt ka_opsOk (by simp [alwaysId])

/-- Status of the killed run, its trace; status of the recovery run, its trace, and what it leaves in 2 and 3. -/
def kaSummary : Option Status × List Ev × Status × List Ev × Option Content × Option Content :=
  let w8 := (kaOps0 ++ [UserOp.cmd (.ifchange [3] false), UserOp.write 5 2]).foldl (fun w op => (applyOp {} 3 op w).2)
    (initWorld r3Rules)
  let k := applyOp {} 3 (.crashCmd [3] 3 1) w8
  let r := runCmd {} 3 (.ifchange [3] false) k.2
  (k.1.map (·.status), k.2.trace, r.1.status, r.2.trace, contentOf r.2 2, contentOf r.2 3)

end RedoModel.Deps.Rich
