import RedoModel.LogRec
namespace RedoModel.LogRec

theorem isPrefix_append (a b : List Char) : isPrefix a (a ++ b) = true := by
  induction a with
  | nil => simp [isPrefix]
  | cons x xs ih => simp [isPrefix, ih]

theorem isPrefix_cons_ne {p : Char} {ps : List Char} {c : Char} {cs : List Char} (h : c ≠ p) :
    isPrefix (p :: ps) (c :: cs) = false := by
  simp [isPrefix, Ne.symm h]

theorem splitOn_single (d : Char) (c : List Char) (h : d ∉ c) : splitOn d c = [c] := by
  induction c with
  | nil => rfl
  | cons a cs ih =>
    simp only [List.mem_cons, not_or] at h
    rw [splitOn, if_neg (fun e => h.1 e.symm), ih h.2]

theorem splitOn_append (d : Char) (c r : List Char) (h : d ∉ c) :
    splitOn d (c ++ d :: r) = c :: splitOn d r := by
  induction c with
  | nil => simp [splitOn]
  | cons a cs ih =>
    simp only [List.mem_cons, not_or] at h
    simp only [List.cons_append]
    rw [splitOn, if_neg (fun e => h.1 e.symm), ih h.2]

/-- The separator is found right after a metadata block that contains no `@`. -/
theorem findSub_sep (m text : List Char) (h : '@' ∉ m) :
    findSub sep (m ++ (sep ++ text)) = some (m, text) := by
  induction m with
  | nil =>
    simp only [List.nil_append]
    show findSub sep ('@' :: '@' :: ' ' :: text) = _
    rw [findSub]
    have : isPrefix sep ('@' :: '@' :: ' ' :: text) = true := isPrefix_append sep text
    rw [if_pos this]
    simp [sep]
  | cons c cs ih =>
    simp only [List.mem_cons, not_or] at h
    simp only [List.cons_append]
    rw [findSub]
    have : isPrefix sep (c :: (cs ++ (sep ++ text))) = false := isPrefix_cons_ne (fun e => h.1 e.symm)
    rw [this]
    simp only [Bool.false_eq_true, if_false]
    rw [ih h.2]

theorem findSub_space (a b : List Char) (h : ' ' ∉ a) :
    findSub [' '] (a ++ ' ' :: b) = some (a, b) := by
  induction a with
  | nil => simp [findSub, isPrefix]
  | cons c cs ih =>
    simp only [List.mem_cons, not_or] at h
    simp only [List.cons_append]
    rw [findSub]
    have : isPrefix [' '] (c :: (cs ++ ' ' :: b)) = false := isPrefix_cons_ne (fun e => h.1 e.symm)
    rw [this]
    simp only [Bool.false_eq_true, if_false]
    rw [ih h.2]

theorem mem_stripZeros {c : Char} : ∀ {ds : List Char}, c ∈ stripZeros ds → c ∈ ds
  | [], h => by simp [stripZeros] at h
  | [x], h => by
    unfold stripZeros at h
    split at h <;> simp_all
  | x :: y :: r, h => by
    unfold stripZeros at h
    split at h
    · rename_i heq
      simp only [List.cons.injEq] at heq
      obtain ⟨_, h2, h3⟩ := heq
      subst h2 h3
      exact List.mem_cons_of_mem _ (mem_stripZeros h)
    · exact h

/-- A canonical pid token consists of digits and possibly a leading `-`. -/
theorem canonI32_chars {tok p : List Char} (h : canonI32 tok = some p) :
    ∀ c ∈ p, isDigit c = true ∨ c = '-' := by
  unfold canonI32 at h
  intro c hc
  generalize (signSplit tok).1 = neg at h
  generalize (signSplit tok).2 = ds at h
  unfold canonI32Core at h
  split at h
  · cases h
  · rename_i hd
    simp only [Bool.or_eq_true, Bool.not_eq_true', not_or, Bool.not_eq_false] at hd
    have hall : ∀ x ∈ ds, isDigit x = true := by
      have := hd.2
      simpa [List.all_eq_true] using this
    split at h
    · split at h
      · cases h
      · split at h
        · simp only [Option.some.injEq] at h; subst h
          simp at hc; subst hc; left; decide
        · simp only [Option.some.injEq] at h; subst h
          rcases List.mem_cons.1 hc with e | e
          · right; exact e
          · left; exact hall c (mem_stripZeros e)
    · split at h
      · cases h
      · simp only [Option.some.injEq] at h; subst h
        left; exact hall c (mem_stripZeros hc)

theorem isDigit_ne {c : Char} (h : isDigit c = true) : c ≠ ':' ∧ c ≠ '@' ∧ c ≠ '\n' ∧ c ≠ ' ' := by
  unfold isDigit at h
  simp only [Bool.and_eq_true, decide_eq_true_eq] at h
  refine ⟨?_, ?_, ?_, ?_⟩ <;> (intro e; subst e; revert h; decide)

theorem mem_of_splitOn (d : Char) : ∀ (l : List Char) (c : Char), c ∈ l → c = d ∨ ∃ p ∈ splitOn d l, c ∈ p
  | [], c, h => by simp at h
  | a :: as, c, h => by
    rw [splitOn]
    by_cases had : a = d
    · rw [if_pos had]
      rcases List.mem_cons.1 h with e | e
      · left; rw [e, had]
      · rcases mem_of_splitOn d as c e with h' | ⟨p, hp, hcp⟩
        · left; exact h'
        · right; exact ⟨p, by simp [hp], hcp⟩
    · rw [if_neg had]
      rcases List.mem_cons.1 h with e | e
      · right
        cases hs : splitOn d as with
        | nil => exact ⟨[a], by simp, by simp [e]⟩
        | cons x xs => exact ⟨a :: x, by simp, by simp [e]⟩
      · rcases mem_of_splitOn d as c e with h' | ⟨p, hp, hcp⟩
        · left; exact h'
        · right
          cases hs : splitOn d as with
          | nil => rw [hs] at hp; simp at hp
          | cons x xs =>
            rw [hs] at hp
            rcases List.mem_cons.1 hp with e2 | e2
            · exact ⟨a :: x, by simp, by simp [← e2, hcp]⟩
            · exact ⟨p, by simp [e2], hcp⟩

/-- A canonical timestamp token consists of digits and `.`. -/
theorem canonTs_chars {ts : List Char} (h : canonTs ts = true) : ∀ c ∈ ts, isDigit c = true ∨ c = '.' := by
  intro c hc
  unfold canonTs at h
  split at h
  · rename_i i f heq
    simp only [Bool.and_eq_true, List.all_eq_true] at h
    rcases mem_of_splitOn '.' ts c hc with e | ⟨p, hp, hcp⟩
    · right; exact e
    · left
      rw [heq] at hp
      simp only [List.mem_cons, List.not_mem_nil, or_false] at hp
      rcases hp with e | e
      · subst e; exact h.1.1.1.1.2 c hcp
      · subst e; exact h.1.1.2 c hcp
  · cases h

end RedoModel.LogRec
