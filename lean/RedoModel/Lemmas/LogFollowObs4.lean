import RedoModel.Lemmas.LogFollowObs3
/-!
# A follower that stops right at the probe that finds the lock free (seeded mutant of the real loop)
-/
namespace RedoModel.LogFollow
open Obs

/-- `step`, except that the `check` micro-step with the lock free goes straight to `stopped` (no further read). -/
def stepEarly (s : Sys) : Ev → Option Sys
  | .fol =>
    match s.pc with
    | .check =>
      if locked s then some { s with wasLocked := true, pc := .top }
      else some { s with wasLocked := false, pc := .stopped }
    | _ => step s .fol
  | e => step s e

def runEarly (s : Sys) : List Ev → Option Sys
  | [] => some s
  | e :: es =>
    match stepEarly s e with
    | none => none
    | some s' => runEarly s' es

/-- Entry during the build (its instance exists and is empty); end of file; the builder writes `1` and unlocks; probe. -/
def earlyRun : List Ev := [.fol, .fol, .fol, .append 1, .unlock, .fol]

theorem early_stop_example :
    Ev.create ∉ earlyRun ∧
    (runEarly (enter [[]] .building) earlyRun).map (fun s => (s.pc, s.emitted.reverse, current s)) =
      some (.stopped, [], [1]) ∧
    outcome (enter [[]] .building) (earlyRun ++ [.fol, .fol, .fol, .fol]) = some (.stopped, [1], [1]) ∧
    verdict (obsStart [[]] .building) [.enter true, .opened 0, .eof, .unlock, .check false, .stop] =
      some (.stopWithoutReread, 5) := by
  decide

/-- While the lock is held the two followers agree step by step. -/
theorem stepEarly_eq_step_of_locked (s : Sys) (e : Ev) (h : locked s = true) : stepEarly s e = step s e := by
  cases e with
  | fol =>
    cases hp : s.pc <;> simp [stepEarly, step, hp, h]
  | _ => rfl

end RedoModel.LogFollow
