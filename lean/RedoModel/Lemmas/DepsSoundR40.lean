import RedoModel.Lemmas.DepsSoundR39
/-! **C01 for rich histories of the full model**: the main theorems. -/
namespace RedoModel.Deps.Rich
open RedoModel.Generated

theorem findDoFile_fst (t : Nat) : ∀ (cs : List Nat) (w : World), (findDoFile t cs w).1 = firstEx w cs
  | [], w => rfl
  | c :: cs, w => by
    rw [findDoFile]
    simp only [firstEx]
    split
    · rfl
    · rw [findDoFile_fst t cs]
      exact firstEx_congr cs (fun x _ => congrFun (RowOp.addDep w t c false).fs x)

/-- **Stage 3: rich scripts and hand-written / hand-edited target files.**  Start from an empty project with any rule
table (`RulesOk`); after any history of `RichOp`s (the user may write any file but `//ALWAYS`, also at target names and
over generated targets; scripts are `Rich`; commands do not name `//ALWAYS`) during which the scripts in place respect
`RankedR` and all ids stay below `n`, with `OpsOk` (no `setProg` redefines the meaning of a .do content in place; no
hand-written file at the name of a redo-owned target whose script produced no output file): whenever
`redo-ifchange ts` / `redo ts` exits 0, every target named is up to date (`UpToDateR`: an overridden or user-written
file stands for itself).  (The write clause of `OpsOk` is superfluous: `noStaleRichFree` in DepsSoundR42.) -/
theorem noStaleRich (n : Nat) (rules : Nat → List Nat) (rank : Nat → Nat) (ops : List UserOp) (ts : List Nat)
    (kg forced : Bool) (hr : RulesOk rules) (hp : ∀ op ∈ ops, RichOp rules op)
    (hrk : ∀ w ∈ worldsOf n {} (initWorld rules) ops, RankedR rank w) (hN : ∀ f, rank f < n)
    (hok : OpsOk n (initWorld rules) ops) (hts0 : ∀ t ∈ ts, t ≠ alwaysId) :
    let w := ops.foldl (fun w op => (applyOp {} n op w).2) (initWorld rules)
    let r := runCmd {} n (if forced then .redo ts kg else .ifchange ts kg) w
    r.1.status = 0 → ∀ t ∈ ts, UpToDateR r.2 t := by
  intro w r
  have h0 : Btw rank (initWorld rules) := Btw_init hr (hrk _ (worldsOf_head n {} _ ops))
  obtain ⟨hb, _⟩ := history_btw hN ops (initWorld rules) h0 rfl hp hrk hok.toW
  exact runCmd_sound {} hN hb ts kg forced hts0

/-- **Stage 2 (`redo-always`, `redo-ifcreate`, conditional declarations, content-dependent failure; the script
reads only its `redo-ifchange` arguments and its conditional files; the user writes plain files only).**  The
special case of `noStaleRich` for `WatchOp` histories; here `OpsOkW` (no `setProg` redefines the meaning of a .do
content in place) suffices. -/
theorem noStaleWatch (n : Nat) (rules : Nat → List Nat) (rank : Nat → Nat) (ops : List UserOp) (ts : List Nat)
    (kg forced : Bool) (hr : RulesOk rules) (hp : ∀ op ∈ ops, WatchOp rules op)
    (hrk : ∀ w ∈ worldsOf n {} (initWorld rules) ops, RankedR rank w) (hN : ∀ f, rank f < n)
    (hok : OpsOkW n (initWorld rules) ops) (hts0 : ∀ t ∈ ts, t ≠ alwaysId) :
    let w := ops.foldl (fun w op => (applyOp {} n op w).2) (initWorld rules)
    let r := runCmd {} n (if forced then .redo ts kg else .ifchange ts kg) w
    r.1.status = 0 → ∀ t ∈ ts, UpToDateR r.2 t := by
  have h0 : Btw rank (initWorld rules) := Btw_init hr (hrk _ (worldsOf_head n {} _ ops))
  exact noStaleRich n rules rank ops ts kg forced hr (fun op h => (hp op h).toRich) hrk hN
    (opsOk_of_watch hN ops (initWorld rules) h0 rfl hp hrk hok) hts0

/-- **Stage 1 (`redo-always`, content-dependent failure, reads ⊆ declarations)**: the special case of
`noStaleWatch` for scripts without `redo-ifcreate` and conditional declarations. -/
theorem noStaleAlways (n : Nat) (rules : Nat → List Nat) (rank : Nat → Nat) (ops : List UserOp) (ts : List Nat)
    (kg forced : Bool) (hr : RulesOk rules) (hp : ∀ op ∈ ops, AlwaysOp rules op)
    (hrk : ∀ w ∈ worldsOf n {} (initWorld rules) ops, RankedR rank w) (hN : ∀ f, rank f < n)
    (hok : OpsOkW n (initWorld rules) ops) (hts0 : ∀ t ∈ ts, t ≠ alwaysId) :
    let w := ops.foldl (fun w op => (applyOp {} n op w).2) (initWorld rules)
    let r := runCmd {} n (if forced then .redo ts kg else .ifchange ts kg) w
    r.1.status = 0 → ∀ t ∈ ts, UpToDateR r.2 t :=
  noStaleWatch n rules rank ops ts kg forced hr (fun op h => (hp op h).toWatch) hrk hN hok hts0

end RedoModel.Deps.Rich
