import RedoModel.Lemmas.LogFollowObs0
/-!
# The trace acceptor `Obs` against the `Sys` model — one step of the simulation
-/
namespace RedoModel.LogFollow
open Obs

/-- A builder event other than `create`, and `append`. -/
theorem sim_builder (s : Sys) (e : Ev) (s' : Sys) (o : OSt) (hR : Rel s o) (h : step s e = some s')
    (hne : e ≠ .create) (hnf : e ≠ .fol) :
    ∃ o', osteps o (obsEv s e) = .ok o' ∧ Rel s' o' := by
  obtain ⟨hph, hcur, hfn, hfs⟩ := hR
  cases e with
  | create => exact absurd rfl hne
  | fol => exact absurd rfl hnf
  | lock =>
    simp only [step] at h; split at h
    · next hidle =>
      cases h
      refine ⟨{ o with phase := .lockedNoLog }, by simp [obsEv, osteps, ostep, hph, hidle], ?_⟩
      exact ⟨rfl, (fun hb => by cases hb), hfn, hfs⟩
    · cases h
  | unlock =>
    simp only [step] at h; split at h
    · cases h
    · next hidle =>
      cases h
      refine ⟨{ o with phase := .idle }, by simp [obsEv, osteps, ostep, hph, hidle], ?_⟩
      exact ⟨rfl, (fun hb => by cases hb), hfn, hfs⟩
  | append l =>
    simp only [step] at h; split at h
    · next hb =>
      cases h
      refine ⟨o, rfl, hph, ?_, hfn, hfs⟩
      intro h1 h2
      have hne : s.insts ≠ [] := fun h0 => h2 (by simp [h0, appendLast])
      simpa [appendLast_length] using hcur h1 hne
    · cases h

/-- A follower step. -/
theorem sim_fol (s s' : Sys) (o : OSt) (hR : Rel s o) (hI : ObsInv s) (h : step s .fol = some s') :
    ∃ o', osteps o (obsEv s .fol) = .ok o' ∧ Rel s' o' := by
  obtain ⟨hph, hcur, hfn, hfs⟩ := hR
  simp only [step] at h
  split at h
  · next hpc =>
    -- start: `enter`
    cases h
    have hfol := hfn (.inl hpc)
    refine ⟨{ o with fol := some { wasLocked := locked s } }, ?_, ?_⟩
    · simp [obsEv, obsFol, hpc, osteps, ostep, hfol, locked, hph]
    · refine ⟨hph, hcur, fun hc => by simp at hc, fun _ _ => ⟨_, rfl, ?_, rfl⟩⟩
      exact (hI.2 hpc).symm
  · next hpc =>
    obtain ⟨f, hf, hfo, hfw⟩ := hfs (by simp [hpc]) (by simp [hpc])
    split at h
    · next g hop =>
      cases h
      refine ⟨o, by simp [obsEv, obsFol, hpc, hop, osteps], hph, hcur, fun hc => by simp at hc, fun _ _ => ⟨f, hf, hfo, hfw⟩⟩
    · next hop =>
      split at h
      · next hemp =>
        cases h
        refine ⟨o, by simp [obsEv, obsFol, hpc, hop, hemp, osteps], hph, hcur, fun hc => by simp at hc,
          fun _ _ => ⟨f, hf, hfo, hfw⟩⟩
      · next hemp =>
        cases h
        have hne : s.insts ≠ [] := by intro h0; simp [h0] at hemp
        refine ⟨{ o with
          fol := some { f with opened := some (s.insts.length - 1), openedUnderLock := s.phase = .lockedNoLog } },
          ?_, ?_⟩
        · have hfo' : f.opened = none := hfo.trans hop
          have hev : obsEv s .fol = [.opened (s.insts.length - 1)] := by simp [obsEv, obsFol, hpc, hop, hemp]
          rw [hev]
          simp only [osteps, ostep, hf, hfo', Option.isSome_none, Bool.false_eq_true, if_false, hph]
          rw [if_neg]
          rintro ⟨hb, hc⟩
          exact hc (hcur hb hne)
        · exact ⟨hph, hcur, fun hc => by simp at hc, fun _ _ => ⟨_, rfl, rfl, hfw⟩⟩
  · next hpc =>
    obtain ⟨f, hf, hfo, hfw⟩ := hfs (by simp [hpc]) (by simp [hpc])
    split at h
    · next l hl =>
      cases h
      have hnl : nextLine s = some l := hl
      refine ⟨o, by simp [obsEv, obsFol, hpc, hnl, osteps], hph, hcur, fun hc => by simp at hc, fun _ _ => ⟨f, hf, hfo, hfw⟩⟩
    · next hl =>
      have hnl : nextLine s = none := hl
      split at h
      · next hw =>
        cases h
        refine ⟨{ o with fol := some { f with eofSince := true } },
          by simp [obsEv, obsFol, hpc, hnl, hw, osteps, ostep, hf], hph, hcur, fun hc => by simp at hc,
          fun _ _ => ⟨_, rfl, hfo, hfw⟩⟩
      · next hw =>
        cases h
        have hw' : s.wasLocked = false := by simpa using hw
        refine ⟨{ o with fol := none }, ?_, ?_⟩
        · simp [obsEv, obsFol, hpc, hnl, hw', osteps, ostep, hf, hfw]
        · exact ⟨hph, hcur, fun _ => rfl, fun _ hc => absurd rfl hc⟩
  · next hpc =>
    -- check
    obtain ⟨f, hf, hfo, hfw⟩ := hfs (by simp [hpc]) (by simp [hpc])
    cases h
    refine ⟨{ o with fol := some { f with wasLocked := locked s, eofSince := false } }, ?_, ?_⟩
    · simp [obsEv, obsFol, hpc, osteps, ostep, hf, locked, hph]
    · exact ⟨hph, hcur, fun hc => by simp at hc, fun _ _ => ⟨_, rfl, hfo, rfl⟩⟩
  · cases h

/-- `create` in a state where it is harmless: accepted by the acceptor. -/
theorem sim_create_ok (s s' : Sys) (o : OSt) (hR : Rel s o) (h : step s .create = some s')
    (hc : CreateSafe s ∨ s.pc = .stopped) :
    ∃ o', ostep o (.create s.insts.length) = .ok o' ∧ Rel s' o' := by
  obtain ⟨hph, hcur, hfn, hfs⟩ := hR
  simp only [step] at h; split at h
  · next hl =>
    cases h
    have hrel : ∀ fol, o.fol = fol →
        Rel { s with phase := .building, insts := s.insts ++ [[]] }
          { o with phase := .building, cur := some s.insts.length } := by
      intro fol _
      exact ⟨rfl, fun _ _ => by simp, hfn, hfs⟩
    by_cases hns : s.pc = .start ∨ s.pc = .stopped
    · have hfol := hfn hns
      exact ⟨_, by simp [ostep, hph, hl, hfol], hrel _ rfl⟩
    · have h1 : s.pc ≠ .start := fun h => hns (.inl h)
      have h2 : s.pc ≠ .stopped := fun h => hns (.inr h)
      obtain ⟨f, hf, hfo, hfw⟩ := hfs h1 h2
      rcases hc with ⟨hop, hc⟩ | hc
      · rcases hc with hc | hc
        · exact absurd hc h1
        · have hfo' : f.opened = none := hfo.trans hop
          exact ⟨_, by simp [ostep, hph, hl, hf, hfo', hfw, hc], hrel _ rfl⟩
      · exact absurd hc h2
  · cases h

/-- `create` in any other state: one of the three creation flags. -/
theorem sim_create_bad (s s' : Sys) (o : OSt) (hR : Rel s o) (hI : ObsInv s) (h : step s .create = some s')
    (hc : ¬ (CreateSafe s ∨ s.pc = .stopped)) :
    ∃ fl, ostep o (.create s.insts.length) = .error fl ∧ CreationFlag fl := by
  obtain ⟨hph, hcur, hfn, hfs⟩ := hR
  simp only [step] at h; split at h
  · next hl =>
    cases h
    have h2 : s.pc ≠ .stopped := fun h => hc (.inr h)
    have h1 : s.pc ≠ .start := fun h => hc (.inl ⟨hI.2 h, .inl h⟩)
    obtain ⟨f, hf, hfo, hfw⟩ := hfs h1 h2
    cases hop : s.opened with
    | some g =>
      have hlt : g < s.insts.length := by
        have hp := hI.1; unfold Pre at hp; simp only [hop] at hp; exact hp.1
      have hfo' : f.opened = some g := hfo.trans hop
      have hne : g ≠ s.insts.length := by omega
      cases hu : f.openedUnderLock with
      | true => exact ⟨.staleOpen, by simp [ostep, hph, hl, hf, hfo', hne, hu], .inl rfl⟩
      | false => exact ⟨.rebuiltDuringFollow, by simp [ostep, hph, hl, hf, hfo', hne, hu], .inr (.inl rfl)⟩
    | none =>
      have hfo' : f.opened = none := hfo.trans hop
      have hw : s.wasLocked = false := by
        cases hw : s.wasLocked with
        | false => rfl
        | true => exact absurd (.inl ⟨hop, .inr hw⟩) hc
      exact ⟨.createAfterFree, by simp [ostep, hph, hl, hf, hfo', hfw, hw], .inr (.inr rfl)⟩
  · cases h

end RedoModel.LogFollow
