import RedoModel.Lemmas.DepsQuiet10
/-! A whole `redo-ifchange` leaves a settled set settled and runs none of its members: jobs, commands, the engine. -/
namespace RedoModel.Deps.Rich
open RedoModel.Generated

/-- `should_build` of a member: clean, or the check gave up (`cyclic`, which it cannot when the rows of the members
lead downwards in `rank` and the fuel exceeds the rank); never dirty. -/
theorem shouldBuild_member {R' S fuel t w} {cx : Ctx} (rank : Nat → Nat) (hcx : CxOk R' S cx) (hq : SSet R' S w)
    (ht : S t) :
    DExtS R' S w (shouldBuild cx fuel t w).2 ∧
    ((shouldBuild cx fuel t w).1 = some .clean ∨
      ((shouldBuild cx fuel t w).1 = some .cyclic ∧ (RowsLt rank S w.deps → ¬ rank t < fuel))) := by
  obtain ⟨hrun, hredo, _⟩ := hcx
  have hqa := hq t ht
  unfold shouldBuild
  simp only [hredo, Bool.false_eq_true, if_false, hrun]
  have hnf : isFailedR (getRec w R' t) R' = false := by
    rw [getRec_ne w R' hqa.ne0]; unfold isFailedR; rw [hqa.failed]
  simp only [hnf, Bool.false_eq_true, if_false]
  have h := isDirty_quietS (R' := R') (S := S) rank w.deps false fuel t [] w [] none R' hq rfl ht
    (fun c hc => by obtain ⟨ch, e, hle⟩ := hqa.ch; rw [e] at hc; cases hc; exact hle) (fun s e => by cases e)
  generalize isDirty false R' fuel w [] t R' [] none = r at h
  obtain ⟨dr, w1, c⟩ := r
  obtain ⟨hx, h⟩ := h
  dsimp only at hx h ⊢
  rcases h with h | ⟨h, h'⟩ <;> subst h
  · exact ⟨hx, Or.inl rfl⟩
  · exact ⟨hx, Or.inr ⟨rfl, fun hlt hf => h' hlt (FuelOk.top hf)⟩⟩

theorem shouldBuild_frameS {R' S fuel t w} {cx : Ctx} (hcx : CxOk R' S cx) (hq : SSet R' S w) :
    DExtS R' S w (shouldBuild cx fuel t w).2 := by
  obtain ⟨hrun, hredo, _⟩ := hcx
  unfold shouldBuild
  simp only [hredo, Bool.false_eq_true, if_false, hrun]
  split
  · exact DExtS.refl _ _ _
  · have h := isDirty_frameS (R' := R') (S := S) false fuel w [] t R' [] none hq (fun _ s e => by cases e)
    generalize isDirty false R' fuel w [] t R' [] none = r at h
    obtain ⟨dr, w1, c⟩ := r
    exact h

theorem CxOk.need1 {R' S} {cx : Ctx} (hcx : CxOk R' S cx) (d : Defects) (t : Nat) :
    CxOk R' S
      { cx with noOob := true, unlocked := false, isRedo := false, cycles := t :: cx.cycles, parent := if d.oobRecordsDepsOnCaller then cx.parent else none } :=
  ⟨hcx.1, rfl, (fun p hp => by
    dsimp only at hp
    split at hp
    · exact hcx.2.2 p hp
    · cases hp)⟩

theorem buildJob_srel {R' S w} (E : Engine) (hE : FSpec R' S E) (d : Defects) {cx : Ctx} (hcx : CxOk R' S cx)
    (hq : SSet R' S w) (fuel t : Nat) : SRel R' S w (buildJob E d cx fuel t w).2 := by
  by_cases ht : S t
  · obtain ⟨hx, hv⟩ := shouldBuild_member (fuel := fuel) (fun _ => 0) hcx hq ht
    unfold buildJob
    generalize shouldBuild cx fuel t w = sb at hx hv
    obtain ⟨o, w1⟩ := sb
    dsimp only at hx hv ⊢
    rcases hv with h | ⟨h, _⟩ <;> subst h <;> exact hx.toRel
  · unfold buildJob
    dsimp only
    have hs := (shouldBuild_frameS (fuel := fuel) (t := t) hcx hq).toRel
    generalize shouldBuild cx fuel t w = sb at hs
    obtain ⟨o, w1⟩ := sb
    dsimp only at hs
    have hq1 := hq.step hs
    have hst := startSelf_srel E hE d hq1 hcx.1 ht (w.recs t)
    cases o with
    | none => exact hs
    | some dr =>
      cases dr with
      | cyclic => exact hs
      | clean => exact hs
      | dirty => exact hs.trans hst
      | need ts =>
        dsimp only
        split
        · exact hs.trans hst
        · have hc1 := hcx.need1 d t
          have h1 := hE _ (if w1.oobRev then ts.eraseDups.reverse else ts.eraseDups) w1 hc1 hq1
          generalize E.ifchangeCmd _ (if w1.oobRev then ts.eraseDups.reverse else ts.eraseDups) w1 = r1 at h1
          obtain ⟨rv1, w2⟩ := r1
          dsimp only at h1
          split
          · rename_i heq
            cases heq
            have hc2 : CxOk R' S { cx with noOob := true, unlocked := true, isRedo := false } :=
              ⟨hcx.1, rfl, hcx.2.2⟩
            have h2 := hE _
              (if d.oobRebuildsDepsNotTarget then (if w1.oobRev then ts.eraseDups.reverse else ts.eraseDups) else [t])
              w2 hc2 (hq1.step h1)
            exact (hs.trans h1).trans h2
          · rename_i heq
            cases heq
            exact hs.trans h1

theorem runTargets_srel {R' S} (E : Engine) (hE : FSpec R' S E) (d : Defects) {cx : Ctx} (hcx : CxOk R' S cx)
    (fuel : Nat) : ∀ (ts seen : List Nat) (errored : Bool) (w : World), SSet R' S w →
      SRel R' S w (runTargets E d cx fuel ts seen errored w).2
  | [], _, _, w, _ => by rw [runTargets]; exact SRel.refl _ _ _
  | t :: ts, seen, errored, w, hq => by
    rw [runTargets]
    split
    · exact runTargets_srel E hE d hcx fuel ts seen errored w hq
    · split
      · exact SRel.refl _ _ _
      · dsimp only
        have ha := SRel.addKnown (R' := R') (S := S) w t
        split
        · exact ha
        · have hb := buildJob_srel E hE d hcx (hq.step ha) fuel t
          generalize buildJob E d cx fuel t (addKnown w t) = r at hb
          obtain ⟨jr, w1⟩ := r
          cases jr with
          | abort code => exact ha.trans hb
          | done rv =>
            dsimp only
            split
            · exact ha.trans hb
            · exact (ha.trans hb).trans (runTargets_srel E hE d hcx fuel ts _ _ w1 (hq.step (ha.trans hb)))

theorem ifchangeWith_srel {R' S w} (E : Engine) (hE : FSpec R' S E) (d : Defects) (fuel : Nat) {cx : Ctx}
    (hcx : CxOk R' S cx) (hq : SSet R' S w) (ts : List Nat) : SRel R' S w (ifchangeWith E d fuel cx ts w).2 := by
  unfold ifchangeWith
  cases hp : cx.parent with
  | none =>
    simp only [Bool.false_eq_true, if_false]
    exact runTargets_srel E hE d hcx fuel ts [] false w hq
  | some p =>
    dsimp only
    split
    · exact SRel.refl _ _ _
    · have hpS : ¬ S p := hcx.2.2 p hp
      have h1 : SRel R' S w (if cx.unlocked = true then w else
          List.foldl (fun w t => Deps.addDep w p t true) (addKnown w p) ts) := by
        split
        · exact SRel.refl _ _ _
        · exact (SRel.addKnown w p).trans (foldl_addDep_srel true hpS ts _)
      exact h1.trans (runTargets_srel E hE d hcx fuel ts [] false _ (hq.step h1))

theorem engine_srel (R' : Nat) (S : Nat → Prop) (d : Defects) : ∀ n, FSpec R' S (engine d n)
  | 0 => fun _ _ _ _ _ => SRel.refl _ _ _
  | n + 1 => fun _ ts _ hcx hq => ifchangeWith_srel (engine d n) (engine_srel R' S d n) d (n + 1) hcx hq ts

/-- **A settled set is left alone by a whole top-level `redo-ifchange`**: it is still settled afterwards, none of its
members' scripts was executed, none of its members' files was touched. -/
theorem ifchange_leaves_settled {S : Nat → Prop} {w : World} (d : Defects) (n : Nat) (ts : List Nat) (kg : Bool)
    (hq : SSet (w.runCounter + 1) S w) :
    SRel (w.runCounter + 1) S w (runCmd d n (.ifchange ts kg) w).2 := by
  have h0 : SRel (w.runCounter + 1) S w (allocRun w).2 :=
    ⟨fun _ _ => Iff.rfl, rfl, fun _ _ => RecKeep.refl _ _, fun _ _ => rfl, fun _ _ h => h⟩
  exact h0.trans (runTargets_srel (engine d (2 * n + 4)) (engine_srel _ S d _) d
    (cx := { runid := w.runCounter + 1, keepGoing := kg }) ⟨rfl, rfl, (fun p hp => by cases hp)⟩ (2 * n + 4) ts [] false
    (allocRun w).2 (hq.step h0))

end RedoModel.Deps.Rich
