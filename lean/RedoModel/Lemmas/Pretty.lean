import RedoModel.Pretty
import RedoModel.Lemmas.LogRec
/-! Helper lemmas for `Props/C18e.lean` (the pretty printer). -/
namespace RedoModel.Pretty
open RedoModel.LogRec

/-- A text without `@` has no record prefix in it, and the first prefix of `b ++ pre ++ x` is the one after `b`. -/
theorem findSub_pre_after (b x : List Char) (h : '@' ∉ b) :
    findSub pre (b ++ (pre ++ x)) = some (b, x) := by
  induction b with
  | nil =>
    show findSub pre (pre ++ x) = some ([], x)
    have hp : isPrefix pre (pre ++ x) = true := isPrefix_append pre x
    have hc : pre ++ x = '@' :: (['@', 'R', 'E', 'D', 'O', ':'] ++ x) := rfl
    rw [hc] at hp ⊢
    unfold findSub
    rw [if_pos hp]
    rfl
  | cons c cs ih =>
    have hc : c ≠ '@' := fun e => h (by rw [e]; exact List.mem_cons_self)
    have hcs : '@' ∉ cs := fun m => h (List.mem_cons_of_mem _ m)
    show findSub pre (c :: (cs ++ (pre ++ x))) = some (c :: cs, x)
    unfold findSub
    have : isPrefix pre (c :: (cs ++ (pre ++ x))) = false := by
      show isPrefix ('@' :: _) (c :: _) = false
      exact isPrefix_cons_ne hc
    rw [this, ih hcs]
    rfl

theorem findSub_pre_none (l : List Char) (h : '@' ∉ l) : findSub pre l = none := by
  induction l with
  | nil => rfl
  | cons c cs ih =>
    have hc : c ≠ '@' := fun e => h (by rw [e]; exact List.mem_cons_self)
    have hcs : '@' ∉ cs := fun m => h (List.mem_cons_of_mem _ m)
    unfold findSub
    have : isPrefix pre (c :: cs) = false := by
      show isPrefix ('@' :: _) (c :: _) = false
      exact isPrefix_cons_ne hc
    rw [this, ih hcs]
    rfl

end RedoModel.Pretty
