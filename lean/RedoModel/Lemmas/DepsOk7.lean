import RedoModel.Lemmas.DepsOk6
/-!
# C09 — the forced command `redo ts` over buildable targets, and both commands at the level of `runCmd`
-/
namespace RedoModel.Deps.Rich
open RedoModel.Generated

/-- `redo` of a target already verified in this run (it was built on behalf of an earlier argument): the script is
run again and succeeds again. -/
theorem startSelf_idem_succ {rank R t w n} {cx : Ctx} (d : Defects) (hcx : cx.runid = R) (hcrash : cx.crash = none)
    (hcyc : cx.cycles = []) (hi : Inv rank R NoX w) (hv : VerR w R t) (hg : genT (w.recs t) = true)
    (hfuel : rank t ≤ n + 1) :
    (startSelf (engine d (n + 1)) d cx t (w.recs t) w).1 = 0 := by
  obtain ⟨pre, dof, post, vs⟩ := verR_script hi hv hg
  obtain ⟨hgr, hor⟩ := genT_true.1 hg
  rw [startSelf_eq, ssGuard_noop cx t (w.recs t) w (Or.inr (Or.inl ⟨hor, (hi.ver t hv).1.2.2⟩))]
  simp only [hor, Bool.false_or, Bool.not_false, hgr, Bool.not_true, Bool.and_false, Bool.false_eq_true, if_false]
  subst hcx
  obtain ⟨p1, p2, p3, _, _, _, p7⟩ := idem_prep hi hv hg vs.rules vs.pre vs.dofEx vs.dofRow
  unfold ssBuild
  simp only
  generalize findDoFile t ((zapDeps1 w t).rules t) (zapDeps1 w t) = fr at p1 p2 p3 p7 ⊢
  obtain ⟨o, w2⟩ := fr
  dsimp only at p1 p2 p3 p7
  subst p1
  simp only
  have hv2 := (p3.verR cx.runid t).2 hv
  have hg2 : genT (w2.recs t) = true := by rw [p3.eqv.genT]; exact hg
  have vs2 : VScript w2 t pre dof post := vs.congr' p3.fs (fun x s m => p7 x s m) p3.rules p3.progs
  obtain ⟨w5, tm, tc, S, heq, _, _, _, _⟩ := idem_run (n := n) (cx := cx) d rfl hcrash hcyc p2 hv2 hg2 hfuel vs2
  show (if (runScript (engine d (n + 1)) d cx t (scriptAt w2 dof) (startW w2 cx.runid t dof)).fst = CRASHED then
      (CRASHED, (runScript (engine d (n + 1)) d cx t (scriptAt w2 dof) (startW w2 cx.runid t dof)).2.snd)
    else recordNewState cx t (w.recs t)
      (runScript (engine d (n + 1)) d cx t (scriptAt w2 dof) (startW w2 cx.runid t dof)).fst
      (runScript (engine d (n + 1)) d cx t (scriptAt w2 dof) (startW w2 cx.runid t dof)).2.fst
      (runScript (engine d (n + 1)) d cx t (scriptAt w2 dof) (startW w2 cx.runid t dof)).2.snd).1 = 0
  rw [heq]
  have hra : (scriptAt w2 dof).Rich := scriptAt_rich p2.base dof
  have hgoodc : ∀ x, Good w2 cx.runid x → contentOf w5 x = contentOf w2 x := by
    intro x hx
    rcases hx with h | ⟨_, h1, h2⟩
    · exact (S.bext.ver x h).2.1
    · exact contentOf_congr (S.bext.stat x h1 h2).2.2
  have hfn5 : failNowOf w5 (scriptAt w2 dof) = false := by
    rw [← vs2.noFail]; unfold failNowOf
    cases hfo : (scriptAt w2 dof).failIfOdd with
    | none => rfl
    | some f => simp only; rw [hgoodc f ((vs2.decl f (hra.2.2 f hfo)).good p2 hv2 hg2)]
  have hnc : ((0 : Nat) : Int) ≠ CRASHED := CRASHED_ne_zero
  unfold scriptEnd
  simp only [ne_eq, not_true_eq_false, if_false, vs2.exit, hnc, hfn5, Bool.false_eq_true]
  rw [show ((0 : Nat) : Int) = 0 from rfl]
  exact recordNewState_zero _ _ _ _ _

/-- One forced job (`redo`) on a buildable target at top level: its result is 0. -/
theorem buildJob_forced_succ {rank R t w n fuel} {cx : Ctx} (d : Defects) (hcx : cx.runid = R)
    (hredo : cx.isRedo = true) (hcrash : cx.crash = none) (hcyc : cx.cycles = []) (hi : Inv rank R NoX w)
    (h0 : t ≠ alwaysId) (hfuel : rank t < n + 1) (hnf : NoFail R w) (hB : Buildable w t) :
    (buildJob (engine d (n + 1)) d cx fuel t w).1 = .done 0 := by
  rw [buildJob_forced_eq _ _ _ _ _ _ hredo]
  show JobResult.done (startSelf (engine d (n + 1)) d cx t (w.recs t) w).1 = .done 0
  by_cases hvg : VerR w R t ∧ genT (w.recs t) = true
  · rw [startSelf_idem_succ d hcx hcrash hcyc hi hvg.1 hvg.2 (Nat.le_of_lt hfuel)]
  · rw [startSelf_succ (engine_ok rank R d (n + 1)) d hcx hcrash hi h0 (fun hv => by
        cases hg : genT (w.recs t) with
        | false => rfl
        | true => exact absurd ⟨hv, hg⟩ hvg) (fun _ h => h.elim) (Or.inl rfl)
      (by rw [hcyc]; intro c hc; cases hc) hfuel hnf hB]

/-- Top-level `redo ts` / `redo-ifchange ts` over buildable targets exits 0. -/
theorem top_succ {rank N w} {cx : Ctx} (d : Defects) (hN : ∀ f, rank f < N) (h : Btw rank w)
    (hcx : cx.runid = w.runCounter + 1) (hcrash : cx.crash = none)
    (hcyc : cx.cycles = []) (ts : List Nat) (hts0 : ∀ t ∈ ts, t ≠ alwaysId) (hB : ∀ t ∈ ts, Buildable w t) :
    (runTargets (engine d (2 * N + 4)) d cx (2 * N + 4) ts [] false (allocRun w).2).1 = 0 := by
  cases hr : cx.isRedo with
  | false => exact top_succ_ifchange d hN h hcx hr hcrash hcyc ts hts0 hB
  | true =>
    obtain ⟨hi1, hnf1⟩ := Inv_alloc h
    have hE := engine_ok rank (w.runCounter + 1) d (2 * N + 4)
    refine runTargets_succ (b := N) (X := NoX) d hE.keeps hE.fr (by rw [hcyc]; intro c hc; cases hc) none
      (fun t w0 hi0 hlt ht0 => buildJob_forced_spec (n := 2 * N + 3) d hcx hr hcrash hcyc hi0 ht0 (by omega) hlt none)
      (fun t w0 hi0 hlt ht0 hnf0 hB0 => buildJob_forced_succ (n := 2 * N + 3) d hcx hr hcrash hcyc hi0 ht0 (by omega)
        hnf0 hB0)
      ts [] (allocRun w).2 hi1 (fun t ht => ⟨hN t, hts0 t ht⟩) hnf1
      (fun t ht => (hB t ht).tr (show Base rank w.runCounter NoX w from h) (Tr.alloc w))

/-- Both commands at the level of `runCmd`. -/
theorem runCmd_succ {rank N w} (d : Defects) (hN : ∀ f, rank f < N) (h : Btw rank w) (ts : List Nat) (kg forced : Bool)
    (hts0 : ∀ t ∈ ts, t ≠ alwaysId) (hB : ∀ t ∈ ts, Buildable w t) :
    (runCmd d N (if forced then .redo ts kg else .ifchange ts kg) w).1.status = 0 := by
  cases forced with
  | true =>
    exact top_succ (cx := { runid := w.runCounter + 1, keepGoing := kg, isRedo := true }) d hN h rfl rfl rfl ts hts0 hB
  | false =>
    exact top_succ (cx := { runid := w.runCounter + 1, keepGoing := kg }) d hN h rfl rfl rfl ts hts0 hB

/-- The `//ALWAYS` pseudo file is never buildable (it never exists and has no rule). -/
theorem Buildable.ne_always {rank R} {X : Nat → Prop} {w : World} (hb : Base rank R X w) {t : Nat}
    (h : Buildable w t) : t ≠ alwaysId := by
  rintro rfl
  have hne : existsF w alwaysId = false := existsF_eq_false.2 hb.fs0
  rcases h.cases with h | ⟨_, h⟩ | ⟨dof, h, _⟩
  · have := h.1; rw [hne] at this; cases this
  · rw [hne] at h; cases h
  · rw [hb.rulesOk.1] at h; cases h

/-- **C09 on the full model over rich histories**: after any rich history (hypotheses of `noStaleRichFree`), a
command all of whose targets are buildable exits 0. -/
theorem buildableExitsZero (n : Nat) (rules : Nat → List Nat) (rank : Nat → Nat) (ops : List UserOp) (ts : List Nat)
    (kg forced : Bool) (hr : RulesOk rules) (hp : ∀ op ∈ ops, RichOp rules op)
    (hrk : ∀ w ∈ worldsOf n {} (initWorld rules) ops, RankedR rank w) (hN : ∀ f, rank f < n)
    (hok : OpsOkW n (initWorld rules) ops) :
    let w := ops.foldl (fun w op => (applyOp {} n op w).2) (initWorld rules)
    (∀ t ∈ ts, Buildable w t) →
    (runCmd {} n (if forced then .redo ts kg else .ifchange ts kg) w).1.status = 0 := by
  intro w hB
  have h0 : Btw rank (initWorld rules) := Btw_init hr (hrk _ (worldsOf_head n {} _ ops))
  obtain ⟨hb, _⟩ := history_btw hN ops (initWorld rules) h0 rfl hp hrk hok
  exact runCmd_succ {} hN hb ts kg forced (fun t ht => (hB t ht).ne_always hb) hB

/-- **C05 / C10, success after repair**: after any rich history — in particular one in which earlier commands
failed and the user then repaired the cause — if the targets are buildable then the command exits 0 and leaves
every target up to date. -/
theorem retriedAndRepaired (n : Nat) (rules : Nat → List Nat) (rank : Nat → Nat) (ops : List UserOp) (ts : List Nat)
    (kg forced : Bool) (hr : RulesOk rules) (hp : ∀ op ∈ ops, RichOp rules op)
    (hrk : ∀ w ∈ worldsOf n {} (initWorld rules) ops, RankedR rank w) (hN : ∀ f, rank f < n)
    (hok : OpsOkW n (initWorld rules) ops) :
    let w := ops.foldl (fun w op => (applyOp {} n op w).2) (initWorld rules)
    let r := runCmd {} n (if forced then .redo ts kg else .ifchange ts kg) w
    (∀ t ∈ ts, Buildable w t) → r.1.status = 0 ∧ ∀ t ∈ ts, UpToDateR r.2 t := by
  intro w r hB
  have h0 : Btw rank (initWorld rules) := Btw_init hr (hrk _ (worldsOf_head n {} _ ops))
  obtain ⟨hb, _⟩ := history_btw hN ops (initWorld rules) h0 rfl hp hrk hok
  have hz := buildableExitsZero n rules rank ops ts kg forced hr hp hrk hN hok hB
  exact ⟨hz, noStaleRichFree n rules rank ops ts kg forced hr hp hrk hN hok (fun t ht => (hB t ht).ne_always hb) hz⟩

end RedoModel.Deps.Rich
