import RedoModel.Lemmas.DepsOk4
/-!
# C09 — `ssBuild`, `startSelf` and `buildJob` on a buildable target return 0
-/
namespace RedoModel.Deps.Rich
open RedoModel.Generated

theorem recordNewState_zero (cx : Ctx) (t : Nat) (sf : Rec) (out : Option Content) (w : World) :
    (recordNewState cx t sf 0 out w).1 = 0 := by
  unfold recordNewState; simp

theorem ssBuild_succ {rank R k E t w} {cx : Ctx} {X : Nat → Prop} (hE : EOk rank R k E) (d : Defects)
    (hcx : cx.runid = R) (hcrash : cx.crash = none) (hi : Inv rank R X w) (hng : ¬ Good w R t)
    (hXa : ∀ x, X x → rank t < rank x) (sf : Rec)
    (hcyc : ∀ c ∈ cx.cycles, rank t < rank c) (hk : rank t < k) (hnf : NoFail R w) (hB : Buildable w t)
    (hno : ¬ UserOwned w t) :
    (ssBuild E d cx t sf w).1 = 0 := by
  subst hcx
  obtain ⟨p1, p2, p3, _, _⟩ := ssb_prep hi hng
  unfold ssBuild
  simp only
  generalize findDoFile t ((zapDeps1 w t).rules t) (zapDeps1 w t) = fr at p1 p2 p3 ⊢
  obtain ⟨o, w2⟩ := fr
  dsimp only at p1 p2 p3
  have htr : Tr w w2 := Tr.ofRowOp p3
  cases o with
  | none =>
    simp only
    rcases hB.cases with h | ⟨_, hex⟩ | ⟨dof, hfe, _⟩
    · exact absurd h hno
    · have : existsF w2 t = true := by rw [p3.existsF]; exact hex
      simp only [this, if_true]
    · rw [hfe] at p1; cases p1
  | some dof =>
    simp only
    obtain ⟨hdm, hdex⟩ := firstEx_mem _ _ p1.symm
    rcases hB.cases with h | ⟨hnone, _⟩ | ⟨dof', hfe, hB1, hB2, hB3, hex, hfn⟩
    · exact absurd h hno
    · rw [hnone dof hdm] at hdex; cases hdex
    · rw [hfe] at p1; cases p1
      have hsc : scriptAt w2 dof = scriptAt w dof := p3.scriptAt dof
      have run := ssb_run_succ (E := E) (cx := cx) (dof := dof) hE d rfl hcrash p2 (fun h => hng ((p3.good _ t).1 h)) hXa
        (by rw [p3.rules]; exact hdm) (by rw [p3.existsF]; exact hdex) hcyc hk
        ((hnf.eqv p3.eqv : NoFail cx.runid { w2 with deps := w.deps }))
        (by rw [hsc]; exact fun x hx => (hB1 x hx).tr hi.base htr)
        (by rw [hsc]; exact fun x hx hxe => (hB2 x hx (by rw [← p3.existsF]; exact hxe)).tr hi.base htr)
        (by rw [hsc]; exact fun x hx => by rw [p3.existsF]; exact hB3 x hx)
        (by rw [hsc]; exact hex)
        (by rw [hsc]; exact failNow_tr hi.base.rulesOk htr.1 _ hfn)
      unfold startW at run
      show (if (runScript E d cx t (scriptAt (ev (setRec w2 dof (setStatic w2 dof (w2.recs dof) cx.runid)) (Ev.ran t)) dof)
            (ev (setRec w2 dof (setStatic w2 dof (w2.recs dof) cx.runid)) (Ev.ran t))).fst = CRASHED then
        (CRASHED, (runScript E d cx t (scriptAt (ev (setRec w2 dof (setStatic w2 dof (w2.recs dof) cx.runid)) (Ev.ran t)) dof)
            (ev (setRec w2 dof (setStatic w2 dof (w2.recs dof) cx.runid)) (Ev.ran t))).2.snd)
      else recordNewState cx t sf
        (runScript E d cx t (scriptAt (ev (setRec w2 dof (setStatic w2 dof (w2.recs dof) cx.runid)) (Ev.ran t)) dof)
            (ev (setRec w2 dof (setStatic w2 dof (w2.recs dof) cx.runid)) (Ev.ran t))).fst
        (runScript E d cx t (scriptAt (ev (setRec w2 dof (setStatic w2 dof (w2.recs dof) cx.runid)) (Ev.ran t)) dof)
            (ev (setRec w2 dof (setStatic w2 dof (w2.recs dof) cx.runid)) (Ev.ran t))).2.fst
        (runScript E d cx t (scriptAt (ev (setRec w2 dof (setStatic w2 dof (w2.recs dof) cx.runid)) (Ev.ran t)) dof)
            (ev (setRec w2 dof (setStatic w2 dof (w2.recs dof) cx.runid)) (Ev.ran t))).2.snd).1 = 0
      generalize runScript E d cx t (scriptAt (ev (setRec w2 dof (setStatic w2 dof (w2.recs dof) cx.runid)) (Ev.ran t)) dof)
        (ev (setRec w2 dof (setStatic w2 dof (w2.recs dof) cx.runid)) (Ev.ran t)) = res at run ⊢
      obtain ⟨rv, out, w5⟩ := res
      dsimp only at run ⊢
      subst run
      simp only [CRASHED_ne_zero, if_false]
      exact recordNewState_zero cx t sf out w5

theorem not_owned_of_guards {w : World} {t : Nat}
    (hc : ¬ ((w.recs t).isGenerated && readStamp w t != .missing &&
      ((w.recs t).isOverride || detectOverride ((w.recs t).stamp.getD .missing) (readStamp w t))) = true)
    (hs : ¬ (existsF w t && ((w.recs t).isOverride || !(w.recs t).isGenerated)) = true) : ¬ UserOwned w t := by
  rintro ⟨hex, h⟩
  have hne : (readStamp w t != .missing) = true := by
    simp only [bne_iff_ne, ne_eq]; exact readStamp_ne_missing hex
  rw [hex] at hs
  rw [hne] at hc
  cases hg : (w.recs t).isGenerated <;> cases ho : (w.recs t).isOverride <;>
    cases hd : detectOverride ((w.recs t).stamp.getD .missing) (readStamp w t) <;> simp_all

/-- `startSelf` on a buildable target that is not a verified redo-owned target returns 0. -/
theorem startSelf_succ {rank R k E t w} {cx : Ctx} {X : Nat → Prop} (hE : EOk rank R k E) (d : Defects)
    (hcx : cx.runid = R) (hcrash : cx.crash = none) (hi : Inv rank R X w)
    (h0 : t ≠ alwaysId) (hV : VerR w R t → genT (w.recs t) = false)
    (hXa : ∀ x, X x → rank t < rank x) {sf : Rec}
    (hsf : sf = w.recs t ∨ (AgreeV sf (w.recs t) ∧ w.fs t = none ∧ sf.stamp ≠ some .missing))
    (hcyc : ∀ c ∈ cx.cycles, rank t < rank c) (hk : rank t < k) (hnf : NoFail R w) (hB : Buildable w t) :
    (startSelf E d cx t sf w).1 = 0 := by
  have hgg : Good w R t → genT (w.recs t) = false := fun h => h.elim hV (fun h => h.2.2)
  have hngB : existsF w t = false → ¬ Good w R t := fun hne hg => by
    have := static_exists hi.base h0 (hg.recCur hi) (hgg hg); rw [hne] at this; cases this
  rcases hsf with rfl | ⟨_, hfs, _⟩
  · rw [startSelf_eq]
    unfold ssGuard
    by_cases hc : ((w.recs t).isGenerated && readStamp w t != .missing &&
        ((w.recs t).isOverride || detectOverride ((w.recs t).stamp.getD .missing) (readStamp w t))) = true
    · have hc' := hc
      simp only [Bool.and_eq_true] at hc'
      have hex : existsF w t = true := existsF_of_readStamp_ne hc'.1.2
      simp only [hc, if_true]
      have hex' : existsF (setRec (ev w (.warnOverride t)) t (setOverride (ev w (.warnOverride t)) t (w.recs t) cx.runid)) t
          = true := hex
      simp only [hex', setOverride_ovr, Bool.true_or, Bool.and_self, if_true]
    · simp only [hc, Bool.false_eq_true, if_false]
      split
      · rfl
      · rename_i hs
        refine ssBuild_succ hE d hcx hcrash hi (fun hg => hs ?_) hXa _ hcyc hk hnf hB (not_owned_of_guards hc hs)
        have hst := hgg hg
        have hex : existsF w t = true := by
          cases he : existsF w t with
          | true => rfl
          | false => exact absurd hg (hngB he)
        simp only [Bool.and_eq_true, Bool.or_eq_true, Bool.not_eq_true']
        exact ⟨hex, (genT_false.1 hst).symm⟩
  · rw [startSelf_eq, ssGuard_missing _ _ _ _ hfs]
    have hex : existsF w t = false := existsF_eq_false.2 hfs
    simp only [hex, Bool.false_and, Bool.false_eq_true, if_false]
    exact ssBuild_succ hE d hcx hcrash hi (hngB hex) hXa _ hcyc hk hnf hB
      (fun h => by have := h.1; rw [hex] at this; cases this)

theorem isFailedR_of_noFail {rank R} {X : Nat → Prop} {w : World} (hb : Base rank R X w) (hnf : NoFail R w) (t : Nat) :
    isFailedR (getRec w R t) R = false := by
  unfold isFailedR
  rw [getRec_failed]
  cases hf : (w.recs t).failed with
  | none => rfl
  | some c =>
    have h1 := hb.flLe t c hf
    have h2 : c ≠ R := fun e => hnf t (by rw [hf, e])
    simp only [Bool.and_eq_false_iff, bne_eq_false_iff_eq, decide_eq_false_iff_not]
    omega

/-- One job on a buildable target, not forced: its result is 0. -/
theorem buildJob_succ {rank R k E t w fuel} {cx : Ctx} {X : Nat → Prop} (hE : EOk rank R k E) (d : Defects)
    (hcx : cx.runid = R) (hredo : cx.isRedo = false) (hcrash : cx.crash = none) (hi : Inv rank R X w)
    (h0 : t ≠ alwaysId) (hXa : ∀ x, X x → rank t < rank x)
    (hcyc : ∀ c ∈ cx.cycles, rank t < rank c) (hk : rank t < k) (hfuel : rank t < fuel) (hnf : NoFail R w)
    (hB : Buildable w t) :
    (buildJob E d cx fuel t w).1 = .done 0 := by
  have hfr := isFailedR_of_noFail hi.base hnf t
  subst hcx
  unfold buildJob shouldBuild
  simp only [hredo, Bool.false_eq_true, if_false, hfr]
  have hsp := isDirty_spec (rank := rank) (R := cx.runid) (X := X) fuel t cx.runid [] w [] none hi
    (fun s e => by cases e) hXa (fun e => absurd e h0)
  have hgc := fun hg => good_clean (rank := rank) (R := cx.runid) (X := X) fuel t [] w [] none hi hg
    (fun s e => by cases e) hXa
  have hnc := isDirty_notCyclic rank false cx.runid fuel w [] t cx.runid [] none hi.base.rowsLt
    ⟨hfuel, fun x hx => by cases hx⟩
  have hso := isDirty_sameOwn false cx.runid fuel w [] t cx.runid [] none (fun s e => by cases e)
  generalize isDirty false cx.runid fuel w [] t cx.runid [] none = res at hsp hgc hnc hso ⊢
  obtain ⟨dr, w1, c⟩ := res
  obtain ⟨hi1, hdx, hnn, _, hown⟩ := hsp
  dsimp only at hi1 hdx hnn hown hgc hnc hso ⊢
  cases dr with
  | need ts => exact absurd rfl (hnn ts)
  | cyclic => exact absurd rfl hnc
  | clean => rfl
  | dirty =>
    have ho := hown (by intro h; cases h)
    have hown' : w1.recs t = w.recs t ∨ (w1.recs t = { w.recs t with isGenerated := false, isOverride := false, failed := some 0 } ∧
        w1.fs t = none ∧ (w.recs t).stamp ≠ some .missing) := by
      rcases ho with h | ⟨h, hf, hs⟩
      · exact Or.inl h
      · exact Or.inr ⟨h, by rw [congrFun hdx.same.1 t]; exact hf, hs⟩
    have hsf : w.recs t = w1.recs t ∨ (AgreeV (w.recs t) (w1.recs t) ∧ w1.fs t = none ∧ (w.recs t).stamp ≠ some .missing) := by
      rcases hown' with h | ⟨h, hf, hs⟩
      · exact Or.inl h.symm
      · exact Or.inr ⟨by rw [h]; exact ⟨rfl, rfl, rfl, rfl⟩, hf, hs⟩
    have hV : VerR w1 cx.runid t → genT (w1.recs t) = false := by
      intro hv
      rcases hown' with h | ⟨h, _⟩
      · exfalso
        have hv0 : VerR w cx.runid t := by unfold VerR at hv ⊢; rw [h] at hv; exact hv
        rcases hgc (Or.inl hv0) with h1 | ⟨h1, _⟩ <;> cases h1
      · rw [h]; rfl
    have hz := startSelf_succ (E := E) (cx := cx) hE d rfl hcrash hi1 h0 hV hXa hsf hcyc hk (hdx.noFail hi.Rpos hnf)
      (hB.tr hi.base ⟨SameButRecs.frU hdx.same, hso.keeps⟩)
    show JobResult.done (startSelf E d cx t (w.recs t) w1).1 = .done 0
    rw [hz]

end RedoModel.Deps.Rich
