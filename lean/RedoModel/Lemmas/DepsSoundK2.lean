import RedoModel.Lemmas.DepsSoundK1
/-! Killed builds: the specification of nested commands with the outcome "killed", and the loop of a script. -/
namespace RedoModel.Deps
open RedoModel.Generated

/-- Outcome "killed": status `CRASHED`, and the world satisfies the between-commands part of the invariant
with NO target exempt (the targets whose build was aborted included). -/
def Killed (rank : Nat → Nat) (R : Nat) (w : World) (res : Status × World) : Prop :=
  res.1 = CRASHED ∧ Base rank R NoX res.2 ∧ res.2.runCounter = w.runCounter ∧ res.2.rules = w.rules

theorem Killed.from {rank R w w0 res} (h : Killed rank R w res) (h1 : w.runCounter = w0.runCounter)
    (h2 : w.rules = w0.rules) : Killed rank R w0 res :=
  ⟨h.1, h.2.1, h.2.2.1.trans h1, h.2.2.2.trans h2⟩

/-- What a nested command that was not killed guarantees (as `ESpec`, nothing exempt). -/
def CmdOk (rank : Nat → Nat) (R b : Nat) (po : Option Nat) (ts : List Nat) (w : World) (res : Status × World) : Prop :=
  Inv rank R NoX res.2 ∧ BExt rank R b po w res.2 ∧
  (∀ p, po = some p → RowsDecl p ts w res.2 ∧ (res.1 = 0 → ∀ d ∈ ts, HasRowU res.2 p d true)) ∧
  (res.1 = 0 → ∀ t ∈ ts, Good res.2 R t) ∧ (NoFail R w → res.1 = 0 → NoFail R res.2) ∧ res.1 ≠ CRASHED

/-- `ESpec` for any `cx.crash`, under `SingleDo`: the parent need not be exempt. -/
def ESpecK (rank : Nat → Nat) (R : Nat) (E : Engine) : Prop :=
  ∀ (cx : Ctx) (ts : List Nat) (w : World) (b : Nat),
    cx.runid = R → cx.isRedo = false → cx.unlocked = false → SingleDo w.rules →
    Inv rank R NoX w → (∀ t ∈ ts, rank t < b) →
    (∀ p, cx.parent = some p → b ≤ rank p ∧ ¬ Good w R p) →
    Killed rank R w (E.ifchangeCmd cx ts w) ∨ CmdOk rank R b cx.parent ts w (E.ifchangeCmd cx ts w)

/-- What the loop over the commands of the script of `t` guarantees when not killed. -/
def CmdsOk (rank : Nat → Nat) (R t : Nat) (cs : List (List Nat)) (w : World) (res : Status × World) : Prop :=
  Inv rank R NoX res.2 ∧ BExt rank R (rank t) (some t) w res.2 ∧ RowsDecl t cs.flatten w res.2 ∧
  (res.1 = 0 → ∀ d ∈ cs.flatten, Good res.2 R d ∧ HasRowU res.2 t d true) ∧
  (NoFail R w → res.1 = 0 → NoFail R res.2) ∧ res.1 ≠ CRASHED

theorem cmdsK_spec {rank R E} (hE : ESpecK rank R E) {t : Nat} {cx cx' : Ctx}
    (h1 : cx'.runid = R) (h2 : cx'.isRedo = false) (h3 : cx'.unlocked = false) (h5 : cx'.parent = some t) :
    ∀ (cs : List (List Nat)) (k : Nat) (w : World), SingleDo w.rules → Inv rank R NoX w → ¬ Good w R t →
      (∀ c ∈ cs, ∀ d ∈ c, rank d < rank t) →
      Killed rank R w (runScript.cmds E cx t cx' cs k w) ∨ CmdsOk rank R t cs w (runScript.cmds E cx t cx' cs k w)
  | [], k, w, _, hi, _, _ => by
    simp only [runScript.cmds]
    by_cases hc : cx.crash = some (t, k)
    · left; simp only [hc, if_true]; exact ⟨rfl, hi.base, rfl, rfl⟩
    · right; simp only [hc, if_false]
      exact ⟨hi, BExt.refl _ _ _ _ _, RowsDecl.refl _ _ _, fun _ d hd => by simp at hd, fun h _ => h, CRASHED_ne_zero⟩
  | c :: cs, k, w, hS, hi, hng, hr => by
    rw [runScript.cmds]
    by_cases hc : cx.crash = some (t, k)
    · left; simp only [hc, if_true]; exact ⟨rfl, hi.base, rfl, rfl⟩
    simp only [hc, if_false]
    have hs := hE cx' c w (rank t) h1 h2 h3 hS hi (hr c (by simp))
      (fun p hp => by rw [h5] at hp; cases hp; exact ⟨Nat.le_refl _, hng⟩)
    rw [h5] at hs
    generalize E.ifchangeCmd cx' c w = res at hs
    obtain ⟨rv, w1⟩ := res
    rcases hs with ⟨hk1, hk2⟩ | ⟨hi1, hb1, hrows, hgood, hnf, hnc⟩
    · left
      dsimp only at hk1 hk2
      subst hk1
      exact ⟨rfl, hk2⟩
    obtain ⟨hrd, hhas⟩ := hrows t rfl
    dsimp only at hi1 hb1 hrd hhas hgood hnf hnc
    split
    · rename_i w1' heq
      simp only [Prod.mk.injEq] at heq
      obtain ⟨hrv, rfl⟩ := heq
      subst hrv
      have hng1 : ¬ Good w1 R t := fun h => hng ((hb1.good_above (Nat.le_refl _)).1 h)
      rcases cmdsK_spec hE h1 h2 h3 h5 cs (k + 1) w1 (by rw [hb1.rules]; exact hS) hi1 hng1
        (fun c' hc' => hr c' (List.mem_cons_of_mem _ hc')) with hk | ⟨a1, a2, a3, a4, a5, a6⟩
      · exact Or.inl (hk.from hb1.rc hb1.rules)
      right
      refine ⟨a1, hb1.trans a2, by rw [List.flatten_cons]; exact hrd.trans a3, ?_, fun h0 hz => a5 (hnf h0 rfl) hz, a6⟩
      intro hz d hd
      rw [List.flatten_cons, List.mem_append] at hd
      rcases hd with hd | hd
      · exact ⟨a2.good (hgood rfl d hd), a3.2 d true (hhas rfl d hd) (fun _ => rfl)⟩
      · exact a4 hz d hd
    · rename_i rv' w1' hne heq
      simp only [Prod.mk.injEq] at heq
      obtain ⟨rfl, rfl⟩ := heq
      have hrv : rv ≠ 0 := fun e => by first | exact hne e | exact hne e rfl | exact hne w1 e
      right
      exact ⟨hi1, hb1, hrd.mono (fun x hx => by rw [List.flatten_cons]; exact List.mem_append_left _ hx),
        fun h => absurd h hrv, fun _ h => absurd h hrv, hnc⟩

end RedoModel.Deps
