import RedoModel.Lemmas.DepsSoundS37
/-! `setProg` keeps `Btw` when it does not change the meaning of a .do file in place; the initial world. -/
namespace RedoModel.Deps.S
open RedoModel.Generated

theorem Btw_setProg {rank w c s} (h : Btw rank w) (hs : s.PlainS) (hok : SetProgOk w c s)
    (hrk : Ranked rank (setProgW w c s)) : Btw rank (setProgW w c s) := by
  have hb : Base rank w.runCounter NoX w := h
  refine ⟨hb.rulesOk, hrk, ?_, hb.chLe, hb.ckLe, hb.csumFile, hb.csumEx, hb.srcNoCsum, hb.csumCh, hb.noOvr, hb.srcNotGen, hb.fs0, hb.rec0, hb.rowsLt,
    hb.cPlain, hb.stampCh, hb.staticEx, hb.genMs, hb.fsB, hb.stB, hb.ckFail, hb.markFail, hb.flLe, ?_⟩
  · intro c' sc hp
    show sc.PlainS
    unfold setProgW at hp
    simp only at hp
    split at hp
    · cases hp; exact hs
    · exact hb.plainProgs c' sc hp
  · intro t hx hrc hg
    obtain ⟨pre, dof, post, sc, hr, hpre, hdof, hreads, hexit, hsc, cs, hcont, hlen, hz⟩ := hb.recA t hx hrc hg
    have hdm : dof ∈ w.rules t := by rw [hr]; simp
    refine ⟨pre, dof, post, sc, hr, hpre, hdof, hreads, hexit, ?_, cs, hcont, hlen, hz⟩
    rcases hsc with ⟨h1, h2⟩ | h1
    · exact Or.inl ⟨h1, by rw [scriptAt_setProg hok hdm]; exact h2⟩
    · exact Or.inr h1

end RedoModel.Deps.S
