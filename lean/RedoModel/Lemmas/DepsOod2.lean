import RedoModel.Lemmas.DepsOod
/-!
# redo-ood vs. the builder's check — part 2: a `PC` derivation makes the builder's walk answer "clean"

The builder's walk (`ood = false`) writes `checked := R` marks while it goes and works on snapshots
of the records taken when the parent's dependency list was loaded.  Invariant: every record is the
original one or the original one with `checked := some R`.  Fuel: the `seen` list holds distinct
files `< n`, so `fuel + seen.length ≥ n + 1` keeps the fuel positive.
-/
namespace RedoModel.Deps

def BRec (w : World) (R g : Nat) (r : Rec) : Prop :=
  r = getRec w R g ∨ r = { getRec w R g with checked := some R }

/-- Worlds met inside a builder's dirtiness walk started on `w`, as long as it only finds clean files. -/
def BInv (w w' : World) (R : Nat) : Prop :=
  w'.fs = w.fs ∧ w'.deps = w.deps ∧ ∀ g, (w'.recs g).row = (w.recs g).row ∧ BRec w R g (getRec w' R g)

theorem BInv.refl (w : World) (R : Nat) : BInv w w R := ⟨rfl, rfl, fun _ => ⟨rfl, .inl rfl⟩⟩

theorem BInv.rs {w w' : World} {R : Nat} (h : BInv w w' R) (f : Nat) : readStamp w' f = readStamp w f := by
  simp [readStamp, h.1]

theorem BInv.ex {w w' : World} {R : Nat} (h : BInv w w' R) (f : Nat) : existsF w' f = existsF w f := by
  simp [existsF, h.1]

theorem BInv.dp {w w' : World} {R : Nat} (h : BInv w w' R) (r : Rec) (f : Nat) : depsOf w' r f = depsOf w r f := by
  have : (fun (a b : Dep) => decide ((w'.recs a.source).row ≤ (w'.recs b.source).row))
      = (fun (a b : Dep) => decide ((w.recs a.source).row ≤ (w.recs b.source).row)) := by
    funext a b
    rw [(h.2.2 a.source).1, (h.2.2 b.source).1]
  simp only [depsOf, h.2.1, this]

theorem BInv.ev {w w' : World} {R : Nat} (h : BInv w w' R) (e : Ev) : BInv w (ev w' e) R := h

theorem getRec_changed_ge (w : World) (R : Nat) : ∃ x, (getRec w R alwaysId).changed = some x ∧ R ≤ x := by
  simp only [getRec, if_true]
  cases (w.recs alwaysId).changed with
  | none => exact ⟨R, rfl, Nat.le_refl _⟩
  | some c => exact ⟨max R c, rfl, Nat.le_max_left _ _⟩

theorem getRec_setRec_ne (w' : World) (R f g : Nat) (r : Rec) (hg : g ≠ f) :
    getRec (setRec w' f r) R g = getRec w' R g := by
  have e1 : (setRec w' f r).recs g = w'.recs g := by simp [setRec, hg]
  simp only [getRec, e1]

theorem getRec_setRec_self_ne (w' : World) (R f : Nat) (r : Rec) (h0 : f ≠ alwaysId) :
    getRec (setRec w' f r) R f = r := by
  simp [getRec, setRec, h0]

theorem getRec_setRec_always (w' : World) (R : Nat) (r : Rec) (x : Nat) (hx : r.changed = some x) (hle : R ≤ x) :
    getRec (setRec w' alwaysId r) R alwaysId = r := by
  simp only [getRec, setRec, if_true, hx, Nat.max_eq_right hle]
  rw [← hx]

/-- The `checked := R` write. -/
theorem BInv.mark {w w' : World} {R : Nat} (h : BInv w w' R) (f : Nat) :
    BInv w (setRec w' f { getRec w R f with checked := some R }) R := by
  refine ⟨h.1, h.2.1, fun g => ?_⟩
  by_cases hg : g = f
  · subst hg
    refine ⟨?_, .inr ?_⟩
    · have : (setRec w' g { getRec w R g with checked := some R }).recs g = { getRec w R g with checked := some R } := by
        simp [setRec]
      rw [this]
      simp only [getRec]
      split <;> rfl
    · by_cases h0 : g = alwaysId
      · subst h0
        obtain ⟨x, hx, hle⟩ := getRec_changed_ge w R
        exact getRec_setRec_always w' R _ x hx hle
      · exact getRec_setRec_self_ne w' R g _ h0
  · have e1 : (setRec w' f { getRec w R f with checked := some R }).recs g = w'.recs g := by
      simp [setRec, hg]
    rw [e1, getRec_setRec_ne w' R f g _ hg]
    exact h.2.2 g

/-! ### Acyclicity of a `PC` derivation -/

/-- `s` is an `m` dependency of `f`. -/
def Chld (w : World) (R : Nat) (s f : Nat) : Prop :=
  ∃ d ∈ depsOf w (getRec w R f) f, d.modeM = true ∧ d.source = s

theorem PC.acc {w : World} {R f mx : Nat} (h : PC w R f mx) : Acc (Chld w R) f := by
  induction h with
  | mk f mx ch hfail hch hle hst hm hc ih =>
    refine Acc.intro f (fun s hs => ?_)
    obtain ⟨d, hd, hmode, rfl⟩ := hs
    exact ih d hd hmode

theorem Acc.irrefl' {α : Type} {r : α → α → Prop} {a : α} (h : Acc r a) : ¬ r a a := by
  induction h with
  | intro a _ ih => exact fun hr => ih a hr hr

theorem PC.not_below_self {w : World} {R f mx : Nat} (h : PC w R f mx) : ¬ Relation.TransGen (Chld w R) f f :=
  Acc.irrefl' h.acc.transGen

theorem mem_depsOf_mem_deps {w : World} {r : Rec} {f : Nat} {d : Dep} (h : d ∈ depsOf w r f) : d ∈ w.deps := by
  unfold depsOf at h
  split at h
  · cases h
  · rw [List.mem_mergeSort] at h
    exact (List.mem_filter.1 h).1

theorem seen_length_le {n : Nat} {l : List Nat} (hn : l.Nodup) (hb : ∀ g ∈ l, g < n) : l.length ≤ n := by
  have := List.Nodup.length_le_of_subset hn (l₂ := List.range n) (fun g hg => List.mem_range.2 (hb g hg))
  simpa using this

/-! ### The loop over the dependencies -/

theorem goDeps_builder_clean (w : World) (R : Nat) (chk : World → List Nat → Nat → Rec → DR × World × List Nat)
    (hasCsum : Bool) (f : Nat) :
    ∀ (ds : List (Dep × Rec)) (w' : World) (cache : List Nat), BInv w w' R →
      (∀ p ∈ ds, (p.1.modeM = true → ∀ w'' c, BInv w w'' R →
            (chk w'' c p.1.source p.2).1 = .clean ∧ BInv w (chk w'' c p.1.source p.2).2.1 R) ∧
          (p.1.modeM = false → existsF w p.1.source = false)) →
      (goDeps chk hasCsum f ds w' cache []).1 = none ∧ BInv w (goDeps chk hasCsum f ds w' cache []).2.1 R
  | [], w', cache, hi, _ => by
    rw [goDeps]
    exact ⟨rfl, hi⟩
  | (d, snap) :: ds, w', cache, hi, hds => by
    have hds' : ∀ p ∈ ds, _ := fun p hp => hds p (List.mem_cons_of_mem _ hp)
    have h0 := hds (d, snap) List.mem_cons_self
    rw [goDeps]
    by_cases hm : d.modeM = true
    · simp only [hm, if_true]
      have h1 := h0.1 hm w' cache hi
      generalize chk w' cache d.source snap = r at h1
      obtain ⟨sub, w1, c1⟩ := r
      obtain ⟨hcl, hi1⟩ := h1
      dsimp only at hcl hi1 ⊢
      subst hcl
      exact goDeps_builder_clean w R chk hasCsum f ds w1 c1 hi1 hds'
    · simp only [hm, Bool.false_eq_true, if_false]
      have hex : existsF w' d.source = false := by
        rw [hi.ex]; exact h0.2 (by simpa using hm)
      simp only [hex, Bool.false_eq_true, if_false]
      exact goDeps_builder_clean w R chk hasCsum f ds w' cache hi hds'

/-! ### The walk -/

theorem isDirty_builder_clean (w : World) (R n : Nat) (hR : R ≠ 0) (hb : ∀ d ∈ w.deps, d.modeM = true → d.source < n)
    {f mx : Nat} (h : PC w R f mx) :
    ∀ (fuel : Nat) (w' : World) (cache seen : List Nat) (pre : Option Rec),
      BInv w w' R → (∀ s, pre = some s → BRec w R f s) →
      (∀ g ∈ seen, Relation.TransGen (Chld w R) f g) → seen.Nodup → (∀ g ∈ seen, g < n) → f < n →
      n + 1 ≤ fuel + seen.length →
      (isDirty false R fuel w' cache f mx seen pre).1 = .clean ∧
      BInv w (isDirty false R fuel w' cache f mx seen pre).2.1 R := by
  induction h with
  | mk f mx ch hfail hch hle hst hm hc ih =>
    intro fuel w' cache seen pre hi hpre hanc hnd hbd hfn hfuel
    have hpc : PC w R f mx := PC.mk f mx ch hfail hch hle hst hm hc
    have hns : f ∉ seen := fun hin => hpc.not_below_self (hanc f hin)
    have hlen : (f :: seen).length ≤ n :=
      seen_length_le (List.nodup_cons.2 ⟨hns, hnd⟩)
        (fun g hg => by rcases List.mem_cons.1 hg with rfl | hg; exact hfn; exact hbd g hg)
    simp only [List.length_cons] at hlen
    obtain ⟨fuel, rfl⟩ : ∃ k, fuel = k + 1 := ⟨fuel - 1, by omega⟩
    have hr : BRec w R f (pre.getD (getRec w' R f)) := by
      cases pre with
      | none => exact (hi.2.2 f).2
      | some s => exact hpre s rfl
    simp (config := { zeta := true, zetaHave := true }) only [isDirty, Bool.false_eq_true, ↓reduceIte, hns]
    generalize pre.getD (getRec w' R f) = r at hr ⊢
    have hrf : r.failed = none := by rcases hr with h | h <;> (subst h; exact hfail)
    have hrc : r.changed = some ch := by rcases hr with h | h <;> (subst h; exact hch)
    have hrs : r.stamp = some (readStamp w' f) := by
      rw [hi.rs]; rcases hr with h | h <;> (subst h; exact hst)
    split
    · rename_i hf; rw [hrf] at hf; cases hf
    split
    · rename_i hn; rw [hrc] at hn; cases hn
    rename_i ch' hch'
    rw [hrc] at hch'
    cases hch'
    split
    · omega
    split
    · exact ⟨rfl, hi⟩
    rename_i hnck
    have hre : r = getRec w R f := by
      rcases hr with h | h
      · exact h
      · exfalso
        apply hnck
        subst h
        simp [isCheckedR, hR]
    subst hre
    split
    · rename_i hn; rw [hrs] at hn; cases hn
    rename_i old hold
    rw [hrs] at hold
    cases hold
    simp only [ne_eq, not_true_eq_false, if_false]
    have hgd := goDeps_builder_clean w R
      (fun w2 cache s snap => isDirty false R fuel w2 cache s (max ch ((getRec w R f).checked.getD 0)) (f :: seen) (some snap))
      (getRec w R f).csum.isSome f (depsWithRecs w' R (getRec w R f) f) w' cache hi
      (by
        intro p hp
        simp only [depsWithRecs, List.mem_map] at hp
        obtain ⟨d, hd, rfl⟩ := hp
        rw [hi.dp] at hd
        refine ⟨fun hmode w'' c hi'' => ?_, fun hmode => hc d hd hmode⟩
        refine ih d hd hmode fuel w'' c (f :: seen) (some (getRec w' R d.source)) hi''
          (fun s hs => by cases hs; exact (hi.2.2 d.source).2) ?_
          (List.nodup_cons.2 ⟨hns, hnd⟩) ?_ (hb d (mem_depsOf_mem_deps hd) hmode) (by simp only [List.length_cons]; omega)
        · intro g hg
          have hstep : Chld w R d.source f := ⟨d, hd, hmode, rfl⟩
          rcases List.mem_cons.1 hg with rfl | hg
          · exact Relation.TransGen.single hstep
          · exact Relation.TransGen.trans (Relation.TransGen.single hstep) (hanc g hg)
        · intro g hg
          rcases List.mem_cons.1 hg with rfl | hg
          · exact hfn
          · exact hbd g hg)
    generalize goDeps _ (getRec w R f).csum.isSome f (depsWithRecs w' R (getRec w R f) f) w' cache [] = gr at hgd
    obtain ⟨o, w2, c2⟩ := gr
    obtain ⟨ho, hi2⟩ := hgd
    dsimp only at ho hi2
    subst ho
    dsimp only
    refine ⟨rfl, ?_⟩
    split
    · exact (hi2.ev _).mark f
    · exact hi2.mark f

end RedoModel.Deps
