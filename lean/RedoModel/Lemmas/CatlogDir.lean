import RedoModel.Lemmas.Catlog
/-!
Names in a log are resolved against the directory of the log's target: what the `do` records of a replay carry,
and which file a sub-replay reads.
-/
namespace RedoModel.LogRec
open RedoModel.Paths

/-- The `do` records tagged `t` in `c` name record texts of `ls`, resolved against the directory of `t`. -/
def DoNames (t : List Char) (ls : List (List Char)) (c : List Tagged) : Prop :=
  ∀ e ∈ c, e.tag = t → ∀ y, e.out = .record kDo y →
    ∃ l ∈ ls, ∃ g, parse l = .ok g ∧ y = normpath (joinP (dirOf t) g.text)

theorem step_doNames {F : Forest} {recurse : List Char → St → Except CErr (St × Nat)} (hrec : RecSpec F recurse)
    {t l : List Char} {st st1 : St} (ht : normpath t ∈ st.already) (h : Step recurse t l st st1) :
    ∃ c, st1.out = c.reverse ++ st.out ∧ DoNames t [l] c := by
  cases h with
  | own own htag hraw hlen hout hal hdo =>
    refine ⟨own, hout, fun e he _ y hy => ?_⟩
    obtain ⟨g, hp, hy⟩ := hdo e he y hy
    exact ⟨l, List.mem_cons_self .., g, hp, hy⟩
  | sub g own stB got hp hnr hown hrc hst' =>
    obtain ⟨c, hc, hg⟩ := hrec _ _ _ _ hrc
    dsimp only at hc hg
    subst hst'
    refine ⟨own ++ c, by simp [hc], fun e he het y hy => ?_⟩
    rcases List.mem_append.1 he with he | he
    · rcases hown with e' | e' <;> subst e'
      · cases he
      · simp at he; subst he
        simp only [Out.record.injEq] at hy
        exact ⟨l, List.mem_cons_self .., g, hp, hy.2.symm⟩
    · exact absurd (het ▸ ht) (hg.tags e he).1

theorem run_doNames {F : Forest} {recurse : List Char → St → Except CErr (St × Nat)} (hrec : RecSpec F recurse)
    {t : List Char} {ls : List (List Char)} {st st' : St} (ht : normpath t ∈ st.already)
    (h : Run recurse t ls st st') : ∃ c, st'.out = c.reverse ++ st.out ∧ DoNames t ls c := by
  induction h with
  | nil st => exact ⟨[], by simp, fun _ he => by cases he⟩
  | @cons l ls st st1 st2 hs _ ih =>
    obtain ⟨c1, ho1, hd1⟩ := step_doNames hrec ht hs
    obtain ⟨c2, ho2, hd2⟩ := ih (hs.already_sub hrec ht)
    refine ⟨c1 ++ c2, by rw [ho2, ho1]; simp, fun e he het y hy => ?_⟩
    rcases List.mem_append.1 he with he | he
    · obtain ⟨l', hl', r⟩ := hd1 e he het y hy
      simp only [List.mem_cons, List.not_mem_nil, or_false] at hl'
      exact ⟨l', hl' ▸ List.mem_cons_self .., r⟩
    · obtain ⟨l', hl', r⟩ := hd2 e he het y hy
      exact ⟨l', List.mem_cons_of_mem _ hl', r⟩

theorem catlog_doNames {F : Forest} {optU optR : Bool} {fuel : Nat} {t : List Char} {st st' : St} {n : Nat}
    {ls : List (List Char)} (h : catlog F optU optR fuel t st = .ok (st', n)) (ht : normpath t ∉ st.already)
    (hl : lookup F (normpath t) = some (some ls)) : DoNames t (unglue ls) (newOut st st') := by
  obtain ⟨f, hf, hrun⟩ := catlog_run h ht hl
  obtain ⟨c, hc, hd⟩ := run_doNames (catlog_good F optU optR f) (List.mem_cons_self ..) hrun
  have hc' : st'.out = c.reverse ++ st.out := hc
  rw [newOut_eq hc']
  exact hd

/-- Which file a replay reads: the forest entry of the *cleaned* name of its argument. -/
theorem catlog_reads {F : Forest} {optU optR : Bool} {fuel : Nat} {x : List Char} {s s' : St} {k : Nat}
    (h : catlog F optU optR fuel x s = .ok (s', k)) (hx : normpath x ∉ s.already) :
    ∃ v, lookup F (normpath x) = some v ∧
      (v = none → s' = { s with already := normpath x :: s.already }) ∧
      ∀ ls, v = some ls → rawsOf x (newOut s s') = rawLines (unglue ls) := by
  generalize hl : lookup F (normpath x) = r
  cases r with
  | none =>
    cases fuel with
    | zero => rw [catlog] at h; cases h
    | succ f => rw [catlog, if_neg hx] at h; dsimp only at h; rw [hl] at h; cases h
  | some v =>
    refine ⟨v, rfl, fun hv => ?_, fun ls hv => ?_⟩
    · subst hv
      cases fuel with
      | zero => rw [catlog] at h; cases h
      | succ f =>
        rw [catlog, if_neg hx] at h; dsimp only at h; rw [hl] at h
        simp only [Except.ok.injEq, Prod.mk.injEq] at h
        exact h.1.symm
    · subst hv
      exact catlog_raws h hx hl

/-- A sub-replay step of the log of `t` is one call of `catlog` on the record text joined to the directory of `t`;
its optional own entry is the `do` record carrying the cleaned form of that very name. -/
theorem step_sub_call {recurse : List Char → St → Except CErr (St × Nat)} {t l : List Char} {st st1 : St}
    (h : Step recurse t l st st1) :
    (∃ own : List Tagged, st1.out = own.reverse ++ st.out ∧ ∀ e ∈ own, e.tag = t) ∨
    ∃ (g : Rec) (s sB : St) (k : Nat), parse l = .ok g ∧ recurse (joinP (dirOf t) g.text) s = .ok (sB, k) ∧
      s.already = st.already ∧
      (s.out = st.out ∨ s.out = ⟨t, .record kDo (normpath (joinP (dirOf t) g.text))⟩ :: st.out) ∧
      st1 = { sB with already := normpath (joinP (dirOf t) g.text) :: sB.already } := by
  cases h with
  | own own htag hraw hlen hout hal hdo => exact Or.inl ⟨own, hout, htag⟩
  | sub g own stB got hp hnr hown hrc hst' =>
    refine Or.inr ⟨g, _, stB, got, hp, hrc, rfl, ?_, hst'⟩
    rcases hown with e | e <;> subst e
    · left; rfl
    · right; rfl

end RedoModel.LogRec
