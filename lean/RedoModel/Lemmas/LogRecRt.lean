import RedoModel.Lemmas.LogRec
/-! Proofs of the two round-trip theorems of C18 (stated in `Props/C18.lean`), kept here so that `Props/C18e.lean` can use them. -/
namespace RedoModel.LogRec

/-- Structured records survive formatting and re-parsing unchanged: for every kind without
`:`, `@`, newline, every canonical pid and timestamp token and every text without newline. -/
theorem roundtrip_proof (r : Rec)
    (hk : ∀ c ∈ r.kind, c ≠ ':' ∧ c ≠ '@' ∧ c ≠ '\n')
    (hp : canonI32 r.pid = some r.pid) (ht : canonTs r.ts = true) (hx : '\n' ∉ r.text) :
    parse (format r) = .ok r := by
  have hpc := canonI32_chars hp
  have htc := canonTs_chars ht
  have hpid : ∀ c ∈ r.pid, c ≠ ':' ∧ c ≠ '@' ∧ c ≠ '\n' := by
    intro c hc
    rcases hpc c hc with h | h
    · have := isDigit_ne h; exact ⟨this.1, this.2.1, this.2.2.1⟩
    · subst h; decide
  have hts : ∀ c ∈ r.ts, c ≠ ':' ∧ c ≠ '@' ∧ c ≠ '\n' := by
    intro c hc
    rcases htc c hc with h | h
    · have := isDigit_ne h; exact ⟨this.1, this.2.1, this.2.2.1⟩
    · subst h; decide
  -- the metadata block
  generalize hM : r.kind ++ ':' :: (r.pid ++ ':' :: r.ts) = M
  have hMat : '@' ∉ M := by
    subst hM
    simp only [List.mem_append, List.mem_cons, not_or]
    exact ⟨fun h => (hk _ h).2.1 rfl, by decide, fun h => (hpid _ h).2.1 rfl, by decide,
           fun h => (hts _ h).2.1 rfl⟩
  have hMnl : '\n' ∉ M := by
    subst hM
    simp only [List.mem_append, List.mem_cons, not_or]
    exact ⟨fun h => (hk _ h).2.2 rfl, by decide, fun h => (hpid _ h).2.2 rfl, by decide,
           fun h => (hts _ h).2.2 rfl⟩
  have hsplit : splitOn ':' M = [r.kind, r.pid, r.ts] := by
    subst hM
    rw [splitOn_append ':' r.kind _ (fun h => (hk _ h).1 rfl)]
    rw [splitOn_append ':' r.pid _ (fun h => (hpid _ h).1 rfl)]
    rw [splitOn_single ':' r.ts (fun h => (hts _ h).1 rfl)]
  have hfmt : format r = pre ++ (M ++ (sep ++ r.text)) := by
    unfold format; rw [hM]; simp
  unfold parse
  rw [hfmt, isPrefix_append]
  simp only [Bool.not_true, Bool.false_eq_true, if_false]
  have hnl : (pre ++ (M ++ (sep ++ r.text))).contains '\n' = false := by
    simp only [List.contains_eq_mem, List.mem_append, decide_eq_false_iff_not, not_or]
    exact ⟨by decide, hMnl, by decide, hx⟩
  rw [hnl]
  simp only [Bool.false_eq_true, if_false, List.drop_left]
  rw [findSub_sep M r.text hMat]
  simp only
  have : M.contains '@' = false := by simpa using hMat
  rw [this]
  simp only [Bool.false_eq_true, if_false, hsplit, hp, ht, Bool.true_or, if_true]

/-- `"<rv> <name>"` of a `done` record re-parses to the same status and name, for any name
(spaces included) and any canonical status. -/
theorem done_roundtrip_proof (rv name : List Char) (hrv : canonI32 rv = some rv) :
    parseDoneText (rv ++ ' ' :: name) = some (rv, name) := by
  have hsp : ' ' ∉ rv := by
    intro h
    rcases canonI32_chars hrv _ h with h' | h'
    · exact (isDigit_ne h').2.2.2 rfl
    · revert h'; decide
  unfold parseDoneText
  rw [findSub_space rv name hsp]
  simp [hrv]


end RedoModel.LogRec
