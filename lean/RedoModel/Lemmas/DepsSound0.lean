import RedoModel.Lemmas.DepsSoundSpec
/-!
`NoStalePlain` as stated is FALSE: a .do file whose content was never given a meaning with `setProg`
runs the default script `{}` (that is what `startSelf` does: `(w.progs n.content).getD {}`), the build
exits 0, but `UpToDate.target` demands `w.progs n.content = some sc`.

History: rules 2 ↦ [1];  `write 1 7`;  `redo-ifchange 2`.
-/
namespace RedoModel.Deps

def cxRules : Nat → List Nat := fun t => if t = 2 then [1] else []
def cxOps : List UserOp := [.write 1 7]

theorem cx_rulesOk : RulesOk cxRules := by
  refine ⟨by simp [cxRules, alwaysId], fun t c hc => ?_⟩
  unfold cxRules at hc ⊢
  split at hc
  · simp at hc; subst hc; subst_vars; simp [alwaysId]
  · simp at hc

def cxRank : Nat → Nat := fun f => if f = 2 then 1 else 0

theorem cx_ranked (w : World) (hr : w.rules = cxRules) (hp : w.progs = fun _ => none) : Ranked cxRank w := by
  refine ⟨fun t c hc => ?_, fun t dof _ n sc _ h => by rw [hp] at h; cases h⟩
  rw [hr] at hc; unfold cxRules at hc
  split at hc
  · simp at hc; subst hc; subst_vars; simp [cxRank]
  · simp at hc

def cxW : World := cxOps.foldl (fun w op => (applyOp {} 5 op w).2) (initWorld cxRules)
def cxRes : Result × World := runCmd {} 5 (.ifchange [2] false) cxW

theorem cx_status : cxRes.1.status = 0 := by decide +kernel
theorem cx_progs : cxRes.2.progs = fun _ => none := rfl
theorem cx_exists : existsF cxRes.2 1 = true := by decide +kernel
theorem cx_gen : (cxRes.2.recs 2).isGenerated = true := by decide +kernel

theorem cx_notUpToDate : ¬ UpToDate cxRes.2 2 := by
  intro h
  cases h with
  | source hs =>
    have := hs 1 (by decide)
    rw [cx_exists] at this; cases this
  | user hg _ => rw [cx_gen] at hg; cases hg
  | target _ _ hp _ _ => rw [cx_progs] at hp; cases hp

/-- The statement of `DepsSoundSpec` is false. -/
theorem not_noStalePlain : ¬ NoStalePlain := by
  intro h
  refine cx_notUpToDate (h 5 cxRules cxRank cxOps [2] false false cx_rulesOk ?_ ?_ ?_ cx_status 2 (by simp))
  · intro op hop
    simp only [cxOps, List.mem_singleton] at hop
    subst hop
    exact ⟨by simp [cxRules], by simp [alwaysId]⟩
  · intro w hw
    simp only [cxOps, worldsOf, List.mem_cons, List.not_mem_nil, or_false] at hw
    rcases hw with rfl | rfl
    · exact cx_ranked _ rfl rfl
    · exact cx_ranked _ rfl rfl
  · intro f; unfold cxRank; split <;> omega

/-! ### Second counterexample: the meaning of a .do content in place is redefined with `setProg`
(no file changes, so nothing is detectable).  Here every .do content has a meaning. -/

def cx2Ops : List UserOp :=
  [.setProg [17] { tag := 1 }, .write 1 7, .cmd (.ifchange [2] false), .setProg [17] { tag := 2 }]
def cx2W : World := cx2Ops.foldl (fun w op => (applyOp {} 5 op w).2) (initWorld cxRules)
def cx2Res : Result × World := runCmd {} 5 (.ifchange [2] false) cx2W

theorem cx2_status : cx2Res.1.status = 0 := by decide +kernel
theorem cx2_exists : existsF cx2Res.2 1 = true := by decide +kernel
theorem cx2_gen : (cx2Res.2.recs 2).isGenerated = true := by decide +kernel
theorem cx2_dof : cx2Res.2.fs 1 = some { content := [17], ms := 1, rest := 0 } := by decide +kernel
theorem cx2_prog : cx2Res.2.progs [17] = some { tag := 2 } := by decide +kernel
theorem cx2_content : (cx2Res.2.fs 2).map (·.content) = some [4] := by decide +kernel
theorem cx2_find dof (h : (findDoFile 2 (cx2Res.2.rules 2) cx2Res.2).1 = some dof) : dof = 1 := by
  have : (findDoFile 2 (cx2Res.2.rules 2) cx2Res.2).1 = some 1 := by decide +kernel
  rw [this] at h; exact (Option.some.inj h).symm

theorem cx2_notUpToDate : ¬ UpToDate cx2Res.2 2 := by
  intro h
  cases h with
  | source hs =>
    have := hs 1 (by decide +kernel)
    rw [cx2_exists] at this; cases this
  | user hg _ => rw [cx2_gen] at hg; cases hg
  | target hf hn hp _ hc =>
    have := cx2_find _ hf; subst this
    rw [cx2_dof] at hn; cases hn
    rw [cx2_prog] at hp; cases hp
    rw [cx2_content] at hc
    simp [outContent] at hc

end RedoModel.Deps
