import RedoModel.Lemmas.DepsSoundR30
/-! Forced rebuild of a verified generated target: `startSelf`. -/
namespace RedoModel.Deps.Rich
open RedoModel.Generated

theorem idem_prep {rank R t w pre dof post} (hi : Inv rank R NoX w) (hv : VerR w R t)
    (hg : genT (w.recs t) = true) (hr : w.rules t = pre ++ dof :: post)
    (hpre : ∀ c ∈ pre, existsF w c = false ∧ HasRow w t c false) (hdex : existsF w dof = true)
    (hdrow : HasRow w t dof true) :
    (findDoFile t ((zapDeps1 w t).rules t) (zapDeps1 w t)).1 = some dof ∧
    Inv rank R NoX (findDoFile t ((zapDeps1 w t).rules t) (zapDeps1 w t)).2 ∧
    RowOp t w (findDoFile t ((zapDeps1 w t).rules t) (zapDeps1 w t)).2 ∧
    (∀ c ∈ pre, HasRowU (findDoFile t ((zapDeps1 w t).rules t) (zapDeps1 w t)).2 t c false) ∧
    HasRowU (findDoFile t ((zapDeps1 w t).rules t) (zapDeps1 w t)).2 t dof true ∧
    (∀ d ∈ (findDoFile t ((zapDeps1 w t).rules t) (zapDeps1 w t)).2.deps, d.target = t → d.deleteMe = false →
      DoRow w (some dof) d) ∧
    SameTriples w (findDoFile t ((zapDeps1 w t).rules t) (zapDeps1 w t)).2 := by
  have hi1 := Inv_zapDeps1_good hi t
  have hro := RowOp.zapDeps1 w t
  have hst := SameTriples.zapDeps1 w t
  have hrules : (zapDeps1 w t).rules t = pre ++ dof :: post := hr
  rw [hrules]
  obtain ⟨a1, a2, a3, a4, a5, a6, a7⟩ := findDoFile_good (rank := rank) (R := R) (X := NoX) (t := t) (dof := dof)
    (post := post) pre (zapDeps1 w t) hi1 ((hro.verR R t).2 hv) hg
    (fun c hc => ⟨(hpre c hc).1, (hst _ _ _).2 (hpre c hc).2⟩) hdex ((hst _ _ _).2 hdrow)
  refine ⟨a1, a2, hro.trans a3, a4, a5, fun d hd hdt hdm => ?_, hst.trans a7⟩
  rcases a6 d hd hdt with h | h
  · have := zapDeps1_marked d h hdt
    rw [hdm] at this; cases this
  · exact h

/-- `redo-always` in the forced rebuild of a verified target: the row is there already, `//ALWAYS` is verified. -/
theorem rsAlways_good {rank R t w} {X : Nat → Prop} {cx : Ctx} (sc : Script) (hcx : cx.runid = R) (hi : Inv rank R X w)
    (hv : VerR w R t) (hg : genT (w.recs t) = true) (halw : sc.always = true → HasRow w t alwaysId true) :
    Inv rank R X (rsAlways cx t sc w) ∧ BExt rank R (rank t) (some t) w (rsAlways cx t sc w) ∧
    RowsDecl t (if sc.always then [alwaysId] else []) w (rsAlways cx t sc w) ∧
    (sc.always = true → HasRowU (rsAlways cx t sc w) t alwaysId true) ∧
    (∀ s m, HasRow w t s m → HasRow (rsAlways cx t sc w) t s m) ∧
    (NoFail R w → NoFail R (rsAlways cx t sc w)) := by
  rw [rsAlways_eq, hcx]
  cases ha : sc.always with
  | false =>
    simp only [Bool.false_eq_true, if_false]
    exact ⟨hi, BExt.refl _ _ _ _ _, RowsDecl.refl _ _ _, fun h => h.elim, fun _ _ h => h, fun h => h⟩
  | true =>
    simp only [if_true]
    have hrow := halw ha
    have hl : rank alwaysId < rank t := hrow.rank_lt hi.base
    have hro := RowOp.addDep w t alwaysId true
    obtain ⟨hi1, hst⟩ := Inv_readd hi hv hg hrow
    obtain ⟨a1, a2, _, a4⟩ := always_spec (b := rank t) (po := some t) hi1 hl
    refine ⟨a1, hro.toBExtP.trans a2, addDep_rowsDecl w t alwaysId, fun _ => addDep_hasRowU_new w t alwaysId true,
      fun s m h => (hst t s m).2 h,
      fun h => a4 (h.eqv hro.eqv : NoFail R { addDep w t alwaysId true with deps := w.deps })⟩

/-- Re-adding a recorded row of a verified target. -/
theorem readd_step {rank R t w s} {m : Bool} (hi : Inv rank R NoX w) (hv : VerR w R t)
    (hg : genT (w.recs t) = true) (hrow : HasRow w t s m) :
    IdemStep2 rank R t (if m then [s] else []) (if m then [] else [s]) w ((0 : Status), addDep w t s m) := by
  have hro := RowOp.addDep w t s m
  obtain ⟨hi1, hst⟩ := Inv_readd hi hv hg hrow
  refine ⟨rfl, hi1, hro.toBExtP, ?_, ?_, ?_, fun s' m' h => (hst t s' m').2 h,
    fun h => (h.eqv hro.eqv : NoFail R { addDep w t s m with deps := w.deps })⟩
  · cases m with
    | true => exact (addDep_rowsDecl w t s).to2
    | false => exact addDep_rowsDecl2c w t s
  · cases m with
    | true => intro d hd; simp only [if_true, List.mem_singleton] at hd; subst hd; exact addDep_hasRowU_new w t d true
    | false => intro d hd; simp at hd
  · cases m with
    | true => intro d hd; simp at hd
    | false =>
      intro d hd; simp only [Bool.false_eq_true, if_false, List.mem_singleton] at hd; subst hd
      exact addDep_hasRowU_new w t d false

theorem declareC_good {rank R t} : ∀ (fs : List Nat) (w : World), Inv rank R NoX w → VerR w R t →
    genT (w.recs t) = true → (∀ d ∈ fs, HasRow w t d false) →
    IdemStep2 rank R t [] fs w ((0 : Status), declareC t fs w)
  | [], w, hi, _, _, _ => IdemStep2.refl hi
  | f :: fs, w, hi, hv, hg, hrows => by
    have h1 := readd_step (m := false) hi hv hg (hrows f (by simp))
    simp only [Bool.false_eq_true, if_false] at h1
    have hv1 := (h1.bext.ver t hv).1
    have hg1 : genT ((addDep w t f false).recs t) = true := by rw [(h1.bext.ver t hv).2.2]; exact hg
    have h2 := declareC_good fs (addDep w t f false) h1.inv hv1 hg1
      (fun d hd => h1.keep d false (hrows d (List.mem_cons_of_mem _ hd)))
    have := h1.trans h2 hv hg
    have he : declareC t (f :: fs) w = declareC t fs (addDep w t f false) := rfl
    rw [he]
    simpa using this

theorem ifchange_step {rank R t n} {cx : Ctx} (d : Defects) (hcx : cx.runid = R) (hcrash : cx.crash = none)
    (hcyc : cx.cycles = []) (hfuel : rank t ≤ n + 1) (c : List Nat) (w : World) (hi : Inv rank R NoX w)
    (hv : VerR w R t) (hg : genT (w.recs t) = true)
    (hc : ∀ x ∈ c, (rank x < rank t ∧ x ≠ alwaysId) ∧ Good w R x ∧ HasRow w t x true) :
    IdemStep rank R t c w ((engine d (n + 1)).ifchangeCmd (childCx cx t) c w) := by
  have hcyc' : (childCx cx t).cycles = [t] := by show t :: cx.cycles = [t]; rw [hcyc]
  exact ifchange_good (cx := childCx cx t) (fuel := n + 1) (engine d n) (engine_spec rank R d n) d hcx rfl rfl
    hcrash rfl hcyc' hi hv hg hfuel c hc

/-- What is recorded about a conditional file of a verified target, in the present world. -/
def CondOk (w : World) (R t x : Nat) : Prop :=
  (Good w R x ∧ HasRow w t x true) ∨ (existsF w x = false ∧ HasRow w t x false)

theorem CondOk.exists_iff {rank R X w t x} (hi : Inv rank R X w) (hp : w.rules x = []) (h0 : x ≠ alwaysId)
    (h : CondOk w R t x) : (existsF w x = true → Good w R x ∧ HasRow w t x true) ∧
      (existsF w x = false → HasRow w t x false) := by
  rcases h with ⟨h1, h2⟩ | ⟨h1, h2⟩
  · have hex := static_exists hi.base h0 (h1.recCur hi) (hi.base.srcT x hp)
    exact ⟨fun _ => ⟨h1, h2⟩, fun h => by rw [hex] at h; cases h⟩
  · exact ⟨(fun h => by rw [h1] at h; cases h), fun _ => h2⟩

theorem conds_good {rank R t n} {cx : Ctx} (d : Defects) (hcx : cx.runid = R) (hcrash : cx.crash = none)
    (hcyc : cx.cycles = []) (hfuel : rank t ≤ n + 1) :
    ∀ (fs : List Nat) (w : World), Inv rank R NoX w → VerR w R t → genT (w.recs t) = true →
      (∀ x ∈ fs, (rank x < rank t ∧ x ≠ alwaysId) ∧ w.rules x = [] ∧ CondOk w R t x) →
      IdemStep2 rank R t (fs.filter (existsF w)) (fs.filter (fun f => !existsF w f)) w
        (runScript.conds (engine d (n + 1)) t (childCx cx t) fs w)
  | [], w, hi, _, _, _ => by
    simp only [runScript.conds]
    exact IdemStep2.refl hi
  | f :: fs, w, hi, hv, hg, hfs => by
    obtain ⟨hrk, hpf, hco⟩ := hfs f (by simp)
    obtain ⟨hcoT, hcoF⟩ := hco.exists_iff hi hpf hrk.2
    rw [runScript.conds]
    cases hex : existsF w f with
    | false =>
      simp only [Bool.false_eq_true, if_false]
      have h1 := readd_step (m := false) hi hv hg (hcoF hex)
      simp only [Bool.false_eq_true, if_false] at h1
      have hro := RowOp.addDep w t f false
      have hv1 := (h1.bext.ver t hv).1
      have hg1 : genT ((addDep w t f false).recs t) = true := by rw [(h1.bext.ver t hv).2.2]; exact hg
      have h2 := conds_good d hcx hcrash hcyc hfuel fs (addDep w t f false) h1.inv hv1 hg1 (fun x hx => by
        obtain ⟨a, b, c⟩ := hfs x (List.mem_cons_of_mem _ hx)
        refine ⟨a, by rw [hro.rules]; exact b, ?_⟩
        exact c.imp (fun h => ⟨h1.bext.good h.1, h1.keep _ _ h.2⟩)
          (fun h => ⟨by rw [hro.existsF]; exact h.1, h1.keep _ _ h.2⟩))
      obtain ⟨e1, e2⟩ := filter_congr_exists (w := w) (w' := addDep w t f false) fs (fun x _ => hro.existsF x)
      rw [e1, e2] at h2
      have := h1.trans h2 hv hg
      simpa [List.filter_cons, hex] using this
    | true =>
      simp only [if_true]
      obtain ⟨hgf, hrowf⟩ := hcoT hex
      have hs := (ifchange_step (cx := cx) d hcx hcrash hcyc hfuel [f] w hi hv hg
        (fun x hx => by simp only [List.mem_singleton] at hx; subst hx; exact ⟨hrk, hgf, hrowf⟩)).to2
      generalize (engine d (n + 1)).ifchangeCmd (childCx cx t) [f] w = res at hs ⊢
      obtain ⟨rv, w1⟩ := res
      have hrv : rv = 0 := hs.status
      subst hrv
      simp only
      have hv1 := (hs.bext.ver t hv).1
      have hg1 : genT (w1.recs t) = true := by rw [(hs.bext.ver t hv).2.2]; exact hg
      have hexs : ∀ x ∈ f :: fs, existsF w1 x = existsF w x :=
        fun x hx => existsF_congr (hs.bext.plain x (hfs x hx).2.1)
      have h2 := conds_good d hcx hcrash hcyc hfuel fs w1 hs.inv hv1 hg1 (fun x hx => by
        obtain ⟨a, b, c⟩ := hfs x (List.mem_cons_of_mem _ hx)
        refine ⟨a, by rw [hs.bext.rules]; exact b, ?_⟩
        exact c.imp (fun h => ⟨hs.bext.good h.1, hs.keep _ _ h.2⟩)
          (fun h => ⟨by rw [hexs x (List.mem_cons_of_mem _ hx)]; exact h.1, hs.keep _ _ h.2⟩))
      obtain ⟨e1, e2⟩ := filter_congr_exists (w := w) (w' := w1) fs (fun x hx => hexs x (List.mem_cons_of_mem _ hx))
      rw [e1, e2] at h2
      have := hs.trans h2 hv hg
      simpa [List.filter_cons, hex] using this

/-- Recording the .do file as static and the `ran` event, for a verified target. -/
theorem idem_start {rank R t w2 dof} (hi2 : Inv rank R NoX w2) (hdm : dof ∈ w2.rules t) (hdex : existsF w2 dof = true) :
    IdemStep2 rank R t [] [] w2 ((0 : Status), startW w2 R t dof) := by
  have hdP : w2.rules dof = [] := (hi2.base.rulesOk.2 t dof hdm).1
  have hdlt : rank dof < rank t := hi2.base.ranked.1 t dof hdm
  obtain ⟨hi3, _, hb3, hn3⟩ := setStatic_spec (b := rank t) (po := some t) hi2 hdex
    (hi2.base.srcNotGen dof hdP) hdlt
  unfold startW
  have hd3 : (setRec w2 dof (setStatic w2 dof (w2.recs dof) R)).deps = w2.deps := rfl
  generalize setRec w2 dof (setStatic w2 dof (w2.recs dof) R) = w3 at hi3 hb3 hn3 hd3 ⊢
  have e4 := WEqv.ev w3 (.ran t)
  have hd4 : (ev w3 (.ran t)).deps = w2.deps := hd3
  refine ⟨rfl, e4.inv hi3, hb3.trans e4.toBExt, ?_, (fun d hd => by simp at hd), (fun d hd => by simp at hd),
    fun s m h => by unfold HasRow at h ⊢; rw [hd4]; exact h, fun h => (hn3 h).eqv e4⟩
  have := RowsDecl2.refl t [] [] w2
  unfold RowsDecl2 HasRowU at this ⊢
  rw [hd4]; exact this

/-- `redo-always` and `redo-ifcreate` in the forced rebuild of a verified target. -/
theorem idem_head {rank R t w4} {cx : Ctx} (sc : Script) (hcx : cx.runid = R) (hi4 : Inv rank R NoX w4)
    (hv4 : VerR w4 R t) (hg4 : genT (w4.recs t) = true)
    (halw : sc.always = true → HasRow w4 t alwaysId true) (hic : ∀ d ∈ sc.ifcreate, HasRow w4 t d false) :
    IdemStep2 rank R t (if sc.always then [alwaysId] else []) sc.ifcreate w4
      ((0 : Status), declareC t sc.ifcreate (rsAlways cx t sc w4)) := by
  obtain ⟨r1, r2, r3, r4, r5, r6⟩ := rsAlways_good (cx := cx) sc hcx hi4 hv4 hg4 halw
  have hA : IdemStep2 rank R t (if sc.always then [alwaysId] else []) [] w4 ((0 : Status), rsAlways cx t sc w4) := by
    refine ⟨rfl, r1, r2, r3.to2, fun d hd => ?_, (fun d hd => by simp at hd), r5, r6⟩
    cases ha : sc.always with
    | false => rw [ha] at hd; simp at hd
    | true => rw [ha] at hd; simp only [if_true, List.mem_singleton] at hd; subst hd; exact r4 ha
  have hvA := (r2.ver t hv4).1
  have hgA : genT ((rsAlways cx t sc w4).recs t) = true := by rw [(r2.ver t hv4).2.2]; exact hg4
  have hI := declareC_good sc.ifcreate (rsAlways cx t sc w4) r1 hvA hgA (fun d hd => r5 _ _ (hic d hd))
  have := hA.trans hI hv4 hg4
  simpa using this

/-- The conditional declarations and the `redo-ifchange` commands in the forced rebuild of a verified target. -/
theorem idem_tail {rank R t wI n} {cx : Ctx} {sc : Script} (d : Defects) (hcx : cx.runid = R) (hcrash : cx.crash = none)
    (hcyc : cx.cycles = []) (hfuel : rank t ≤ n + 1) (hstamp : sc.stamp = 0)
    (hiI : Inv rank R NoX wI) (hvI : VerR wI R t) (hgI : genT (wI.recs t) = true)
    (hcond : ∀ x ∈ sc.cond, (rank x < rank t ∧ x ≠ alwaysId) ∧ wI.rules x = [] ∧ CondOk wI R t x)
    (hdecl : ∀ x ∈ sc.ifchange.flatten, (rank x < rank t ∧ x ≠ alwaysId) ∧ Good wI R x ∧ HasRow wI t x true) :
    ∃ w5, IdemStep2 rank R t (sc.cond.filter (existsF wI) ++ sc.ifchange.flatten)
        (sc.cond.filter (fun f => !existsF wI f) ++ []) wI ((0 : Status), w5) ∧
      rsBody (engine d (n + 1)) cx t sc wI = scriptEnd sc ((0 : Status), w5) := by
  rw [rsBody_rich _ _ _ _ _ hstamp]
  have hc := conds_good (cx := cx) d hcx hcrash hcyc hfuel sc.cond wI hiI hvI hgI hcond
  generalize runScript.conds (engine d (n + 1)) t (childCx cx t) sc.cond wI = rc at hc ⊢
  obtain ⟨rvc, wC⟩ := rc
  have hrvc : rvc = 0 := hc.status
  subst hrvc
  simp only [ne_eq, not_true_eq_false, if_false]
  have hvC := (hc.bext.ver t hvI).1
  have hgC : genT (wC.recs t) = true := by rw [(hc.bext.ver t hvI).2.2]; exact hgI
  have hcm := cmds_good (cx := cx) hcrash
    (fun c w hi hv hg hcc => ifchange_step (cx := cx) d hcx hcrash hcyc hfuel c w hi hv hg hcc)
    sc.ifchange 0 wC hc.inv hvC hgC (fun c hcc x hx => by
      obtain ⟨h1, h2, h3⟩ := hdecl x (List.mem_flatten.2 ⟨c, hcc, hx⟩)
      exact ⟨h1, hc.bext.good h2, hc.keep _ _ h3⟩)
  generalize runScript.cmds (engine d (n + 1)) cx t (childCx cx t) sc.ifchange 0 wC = r at hcm ⊢
  obtain ⟨rv, w5⟩ := r
  have hrv : rv = 0 := hcm.status
  subst hrv
  exact ⟨w5, hc.trans hcm.to2 hvI hgI, rfl⟩

theorem declareC_fs (p : Nat) : ∀ (fs : List Nat) (w : World), (declareC p fs w).fs = w.fs
  | [], _ => rfl
  | f :: fs, w => by
    have he : declareC p (f :: fs) w = declareC p fs (addDep w p f false) := rfl
    rw [he, declareC_fs p fs]; exact (RowOp.addDep w p f false).fs

theorem idem_run_aux {rank R t w2 w4 n pre dof post} {cx : Ctx} {tm0 tc0 : List Nat} (d : Defects) (hcx : cx.runid = R)
    (hcrash : cx.crash = none) (hcyc : cx.cycles = []) (hi2 : Inv rank R NoX w2) (hv2 : VerR w2 R t)
    (hg2 : genT (w2.recs t) = true) (hfuel : rank t ≤ n + 1) (vs : VScript w2 t pre dof post)
    (hyg2 : ∀ x, (x ∈ (scriptAt w2 dof).ifchange.flatten ∨ x ∈ (scriptAt w2 dof).cond ∨ x ∈ (scriptAt w2 dof).ifcreate) →
      rank x < rank t ∧ x ≠ alwaysId)
    (hyg3 : ∀ x, (x ∈ (scriptAt w2 dof).cond ∨ x ∈ (scriptAt w2 dof).ifcreate) → w2.rules x = [])
    (hra : (scriptAt w2 dof).Rich)
    (S01 : IdemStep2 rank R t tm0 tc0 w2
      ((0 : Status), declareC t (scriptAt w2 dof).ifcreate (rsAlways cx t (scriptAt w2 dof) w4)))
    (htm0 : (scriptAt w2 dof).always = true → alwaysId ∈ tm0) (htc0 : ∀ x ∈ (scriptAt w2 dof).ifcreate, x ∈ tc0) :
    ∃ w5 tm tc, IdemStep2 rank R t tm tc w2 ((0 : Status), w5) ∧
      runScript (engine d (n + 1)) d cx t (scriptAt w2 dof) w4 = scriptEnd (scriptAt w2 dof) ((0 : Status), w5) ∧
      (∀ x ∈ (scriptAt w2 dof).ifchange.flatten, x ∈ tm) ∧ ((scriptAt w2 dof).always = true → alwaysId ∈ tm) ∧
      (∀ x ∈ (scriptAt w2 dof).ifcreate, x ∈ tc) ∧
      (∀ x ∈ (scriptAt w2 dof).cond, x ∈ tm ∨ (existsF w2 x = false ∧ x ∈ tc)) := by
  have vic := vs.ic
  have vdecl := vs.decl
  have vcond := vs.cond
  generalize scriptAt w2 dof = sc at *
  have hvI := (S01.bext.ver t hv2).1
  have hgI : genT ((declareC t sc.ifcreate (rsAlways cx t sc w4)).recs t) = true := by
    rw [(S01.bext.ver t hv2).2.2]; exact hg2
  have hexI : ∀ x, w2.rules x = [] → existsF (declareC t sc.ifcreate (rsAlways cx t sc w4)) x = existsF w2 x :=
    fun x hx => existsF_congr (S01.bext.plain x hx)
  have hic : sc.ifcreate.any (fun f => existsF (rsAlways cx t sc w4) f) = false := by
    rw [List.any_eq_false]
    intro x hx
    have h1 : existsF (rsAlways cx t sc w4) x = existsF (declareC t sc.ifcreate (rsAlways cx t sc w4)) x :=
      (existsF_congr (congrFun (declareC_fs t sc.ifcreate (rsAlways cx t sc w4)) x)).symm
    rw [h1, hexI x (hyg3 x (Or.inr hx)), (vic x hx).1]; simp
  rw [runScript_eq]
  simp only [hic, Bool.false_eq_true, if_false]
  obtain ⟨w5, S2, heq⟩ := idem_tail (cx := cx) d hcx hcrash hcyc hfuel hra.1 S01.inv hvI hgI
    (fun x hx => ⟨hyg2 x (Or.inr (Or.inl hx)), by rw [S01.bext.rules]; exact hyg3 x (Or.inl hx), by
      rcases vcond x hx with h | ⟨h1, h2⟩
      · exact Or.inl ⟨S01.bext.good (h.good hi2 hv2 hg2), S01.keep _ _ h⟩
      · exact Or.inr ⟨by rw [hexI x (hyg3 x (Or.inl hx))]; exact h1, S01.keep _ _ h2⟩⟩)
    (fun x hx => ⟨hyg2 x (Or.inl hx), S01.bext.good ((vdecl x hx).good hi2 hv2 hg2), S01.keep _ _ (vdecl x hx)⟩)
  refine ⟨w5, _, _, S01.trans S2 hv2 hg2, heq, fun x hx => ?_, fun ha => ?_, fun x hx => ?_, fun x hx => ?_⟩
  · simp [hx]
  · simp [htm0 ha]
  · simp [htc0 x hx]
  · cases he : existsF (declareC t sc.ifcreate (rsAlways cx t sc w4)) x with
    | true => left; simp [hx, he]
    | false =>
      right
      exact ⟨by rw [← hexI x (hyg3 x (Or.inl hx))]; exact he, by simp [hx, he]⟩

/-- The whole script in the forced rebuild of a verified target: every phase re-declares what is recorded. -/
theorem idem_run {rank R t w2 n pre dof post} {cx : Ctx} (d : Defects) (hcx : cx.runid = R) (hcrash : cx.crash = none)
    (hcyc : cx.cycles = []) (hi2 : Inv rank R NoX w2) (hv2 : VerR w2 R t) (hg2 : genT (w2.recs t) = true)
    (hfuel : rank t ≤ n + 1) (vs : VScript w2 t pre dof post) :
    ∃ w5 tm tc, IdemStep2 rank R t tm tc w2 ((0 : Status), w5) ∧
      runScript (engine d (n + 1)) d cx t (scriptAt w2 dof) (startW w2 R t dof) =
        scriptEnd (scriptAt w2 dof) ((0 : Status), w5) ∧
      (∀ x ∈ (scriptAt w2 dof).ifchange.flatten, x ∈ tm) ∧ ((scriptAt w2 dof).always = true → alwaysId ∈ tm) ∧
      (∀ x ∈ (scriptAt w2 dof).ifcreate, x ∈ tc) ∧
      (∀ x ∈ (scriptAt w2 dof).cond, x ∈ tm ∨ (existsF w2 x = false ∧ x ∈ tc)) := by
  have hdm : dof ∈ w2.rules t := by rw [vs.rules]; simp
  obtain ⟨_, hyg2, hyg3⟩ := scriptAt_hyg hi2.base hdm
  have hra := scriptAt_rich hi2.base dof
  have S0 := idem_start (R := R) hi2 hdm vs.dofEx
  have hv4 := (S0.bext.ver t hv2).1
  have hg4 : genT ((startW w2 R t dof).recs t) = true := by rw [(S0.bext.ver t hv2).2.2]; exact hg2
  have S1 := idem_head (cx := cx) (scriptAt w2 dof) hcx S0.inv hv4 hg4 (fun ha => S0.keep _ _ (vs.alw ha))
    (fun x hx => S0.keep _ _ (vs.ic x hx).2)
  have S01 := S0.trans S1 hv2 hg2
  exact idem_run_aux d hcx hcrash hcyc hi2 hv2 hg2 hfuel vs hyg2 hyg3 hra S01
    (fun ha => by rw [ha]; simp) (fun x hx => by simp [hx])

end RedoModel.Deps.Rich
