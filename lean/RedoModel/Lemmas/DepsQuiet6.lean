import RedoModel.Lemmas.DepsQuiet5
import RedoModel.Lemmas.DepsOod3
/-! C17: `redo-ood` lists nothing right after a successful full build. -/
namespace RedoModel.Deps.Rich
open RedoModel.Generated

theorem oodGo_quiet {rank R R' S fuel} (hR : R ≤ R') : ∀ (fs : List Nat) (w : World) (cache acc : List Nat),
    QSet rank R S w → (∀ f ∈ fs, S f ∧ rank f < fuel) → (runCmd.go R' fuel fs w cache acc).1 = acc.reverse
  | [], w, cache, acc, _, _ => by rw [runCmd.go]
  | f :: fs, w, cache, acc, hq, hfs => by
    rw [runCmd.go]
    have h := isDirty_quiet (rank := rank) (S := S) hR true fuel f [] w cache none R' hq (hfs f (by simp)).1 hR
      (fun s e => by cases e)
    generalize isDirty true R' fuel w cache f R' [] none = r at h
    obtain ⟨dr, w1, c1⟩ := r
    obtain ⟨hx, h⟩ := h
    dsimp only at hx h ⊢
    rcases h with h | ⟨_, h⟩
    · subst h
      simp only [if_true]
      exact oodGo_quiet hR fs w1 c1 acc (hq.ext hx hR) (fun f' hf' => hfs f' (List.mem_cons_of_mem _ hf'))
    · exact absurd (FuelOk.top (hfs f (by simp)).2) h

/-- `redo-ood` over a world whose targets all lie in a settled set prints nothing. -/
theorem ood_quiet {rank R S n w} (d : Defects) (hq : QSet rank R S w) (hrc : R ≤ w.runCounter)
    (hN : ∀ f, rank f < n) (hall : ∀ f, f < n → known w f = true → isTarget w (w.runCounter + 1) f = true → S f) :
    (runCmd d n .ood w).1.listing = [] := by
  rw [ood_listing_eq]
  have hq1 : QSet rank R S { w with runCounter := w.runCounter + 1 } :=
    hq.congr rfl (fun _ _ => rfl) (fun _ _ => rfl) (fun _ _ => rfl) (fun _ _ => rfl) (fun _ _ => rfl) (fun _ _ => rfl)
      (fun _ _ => rfl)
  refine oodGo_quiet (rank := rank) (R := R) (S := S) (by omega) _ _ [] [] hq1 (fun f hf => ?_)
  simp only [knownFiles, List.mem_filter, List.mem_range] at hf
  obtain ⟨⟨hlt, hk⟩, ht⟩ := hf
  refine ⟨hall f hlt ?_ ?_, by have := hN f; omega⟩
  · rw [← known_congr (w := w) (w2 := { w with runCounter := w.runCounter + 1 }) rfl]; exact hk
  · rw [← isTarget_congr (w := w) (w2 := { w with runCounter := w.runCounter + 1 }) rfl rfl]; exact ht

/-- World-level core. -/
theorem ood_after_build {rank n w} (hN : ∀ f, rank f < n) (hb : Btw rank w) (ts : List Nat) (kg forced : Bool)
    (hts0 : ∀ t ∈ ts, t ≠ alwaysId)
    (hz : (runCmd {} n (if forced then .redo ts kg else .ifchange ts kg) w).1.status = 0)
    (hna : ¬ RecReach (runCmd {} n (if forced then .redo ts kg else .ifchange ts kg) w).2 ts alwaysId)
    (us : List UserOp)
    (hus : ∀ u ∈ us, Unrelated (RecReach (runCmd {} n (if forced then .redo ts kg else .ifchange ts kg) w).2 ts) u) :
    let w2 := us.foldl (fun w op => (applyOp {} n op w).2) (runCmd {} n (if forced then .redo ts kg else .ifchange ts kg) w).2
    (∀ f, f < n → known w2 f = true → isTarget w2 (w2.runCounter + 1) f = true → f ∈ ts) →
    (runCmd {} n .ood w2).1.listing = [] := by
  intro w2 hall
  have key : ∃ w1, (runCmd {} n (if forced then .redo ts kg else .ifchange ts kg) w).2 = w1 ∧
      Inv rank (w.runCounter + 1) NoX w1 ∧ w1.runCounter = w.runCounter + 1 ∧
      ∀ t ∈ ts, Good w1 (w.runCounter + 1) t := by
    cases forced with
    | true =>
      obtain ⟨a1, a2, a3⟩ := top_runG (cx := { runid := w.runCounter + 1, keepGoing := kg, isRedo := true }) {} hN hb
        rfl rfl rfl ts hts0
      exact ⟨_, rfl, a1, a2, a3 hz⟩
    | false =>
      obtain ⟨a1, a2, a3⟩ := top_runG (cx := { runid := w.runCounter + 1, keepGoing := kg }) {} hN hb
        rfl rfl rfl ts hts0
      exact ⟨_, rfl, a1, a2, a3 hz⟩
  obtain ⟨w1, e, hi, hrc, hg⟩ := key
  rw [e] at hna hus
  have hw2 : w2 = us.foldl (fun w op => (applyOp {} n op w).2) w1 := by rw [← e]
  clear_value w2
  subst hw2
  have hq := QSet_of_good hi hna
  have hu := foldl_userRel _ {} n us w1 hus
  exact ood_quiet {} (hq.user hu) (by have := hu.rc; omega) hN
    (fun f hlt hk ht => ⟨RecReach.base (hall f hlt hk ht), hg f (hall f hlt hk ht)⟩)

/-- History level. -/
theorem oodEmptyAfterBuild (n : Nat) (rules : Nat → List Nat) (rank : Nat → Nat) (ops : List UserOp) (ts : List Nat)
    (kg forced : Bool) (hr : RulesOk rules) (hp : ∀ op ∈ ops, RichOp rules op)
    (hrk : ∀ w ∈ worldsOf n {} (initWorld rules) ops, RankedR rank w) (hN : ∀ f, rank f < n)
    (hok : OpsOkW n (initWorld rules) ops) (hts0 : ∀ t ∈ ts, t ≠ alwaysId) :
    let w := ops.foldl (fun w op => (applyOp {} n op w).2) (initWorld rules)
    let r1 := runCmd {} n (if forced then .redo ts kg else .ifchange ts kg) w
    r1.1.status = 0 → ¬ RecReach r1.2 ts alwaysId →
    (∀ f, f < n → known r1.2 f = true → isTarget r1.2 (r1.2.runCounter + 1) f = true → f ∈ ts) →
    (runCmd {} n .ood r1.2).1.listing = [] := by
  intro w r1 hz hna hall
  have h0 : Btw rank (initWorld rules) := Btw_init hr (hrk _ (worldsOf_head n {} _ ops))
  obtain ⟨hb, _⟩ := history_btw hN ops (initWorld rules) h0 rfl hp hrk hok
  exact ood_after_build hN hb ts kg forced hts0 hz hna [] (fun u hu => by simp at hu) hall

end RedoModel.Deps.Rich
