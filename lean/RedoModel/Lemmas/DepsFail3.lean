import RedoModel.Lemmas.DepsFail2
/-!
# C05 at the level of whole commands — part 3: a failing .do at the bottom of a chain fails every level above
-/
namespace RedoModel.Deps
open RedoModel.Generated

theorem rsFinish_exit_nonzero (cx : Ctx) (t : Nat) (sc : Script) (w : World) (hx : sc.exit ≠ 0) :
    (rsFinish cx t sc w).1 ≠ 0 := by
  unfold rsFinish
  split
  · simp
  · dsimp only
    split
    · simp [CRASHED]
    · show ((sc.exit : Nat) : Int) ≠ 0
      exact_mod_cast hx

/-- A script whose last command is `exit k`, `k ≠ 0`, never ends with status 0 (it ends with `k`, or earlier
with the status of the first failing command). -/
theorem runScript_exit_nonzero (E : Engine) (d : Defects) (cx : Ctx) (t : Nat) (sc : Script) (w : World)
    (hx : sc.exit ≠ 0) : (runScript E d cx t sc w).1 ≠ 0 := by
  rw [runScript_eq]
  split
  · simp
  · unfold rsBody
    dsimp only
    split
    · assumption
    · split
      · assumption
      · exact rsFinish_exit_nonzero cx t sc _ hx

/-- `b` must be run (missing; never built, or failed when last built) and its .do ends with a non-zero `exit`. -/
def Failing (w : World) (b : Nat) : Prop :=
  b ≠ alwaysId ∧ w.fs b = none ∧ ((w.recs b).failed.isSome = true ∨ (w.recs b).changed = none) ∧
  ∃ dof n sc, (w.rules b).find? (existsF w) = some dof ∧ w.fs dof = some n ∧
    w.progs n.content = some sc ∧ sc.exit ≠ 0

theorem Failing.mono {w w' : World} {b : Nat} (h : Failing w b) (hd : Desc w w') : Failing w' b := by
  obtain ⟨h0, hm, hds, dof, n, sc, h1, h2, h3, h4⟩ := h
  obtain ⟨d1, d2, d3, d4⟩ := hd
  have hr := d4 b h0 hm
  refine ⟨h0, by rw [d1]; exact hm, by rw [hr.1, hr.2]; exact hds,
    dof, n, sc, ?_, by rw [d1]; exact h2, by rw [d2]; exact h3, h4⟩
  rw [d3, Desc.existsF ⟨d1, d2, d3, d4⟩]; exact h1

/-- **The bottom of the chain**: the job of such a target never ends with 0. -/
theorem buildJob_failing (E : Engine) (d : Defects) (cx : Ctx) (fuel b : Nat) (w : World)
    (hF : Failing w b) (hfuel : 0 < fuel) :
    ∀ rv w1, buildJob E d cx fuel b w = (.done rv, w1) → rv ≠ 0 := by
  obtain ⟨h0, hm, hds, dof, n, sc, h1, h2, h3, h4⟩ := hF
  suffices hss : (ssBuild E d cx b (w.recs b) w).1 ≠ 0 by
    intro rv w1 hb
    unfold buildJob at hb
    rcases shouldBuild_ds cx fuel b w h0 hds hfuel with hsb | hsb
    · simp only [hsb, startSelf_missing E d cx b _ w hm] at hb
      cases hb
      exact hss
    · simp only [hsb] at hb
      split at hb
      · cases hb
      · cases hb
        simp [EXIT_TARGET_FAILED]
  · have hz := Desc.zapDeps1 w b
    have hfd := findDoFile_spec b ((zapDeps1 w b).rules b) (zapDeps1 w b)
    generalize hfe : findDoFile b ((zapDeps1 w b).rules b) (zapDeps1 w b) = r at hfd
    obtain ⟨o, w1⟩ := r
    obtain ⟨ho, hd1⟩ := hfd
    dsimp only at ho hd1
    have hdof : o = some dof := by
      rw [ho, hz.2.2.1, hz.existsF]; exact h1
    subst hdof
    have hw1 : Desc w w1 := hz.trans hd1
    have hdofex : w1.fs dof ≠ none := by rw [hw1.1, h2]; simp
    have hpre : Desc w (ssPre cx b dof w1) :=
      (hw1.trans (Desc.setRec w1 dof _ (Or.inr hdofex))).trans (Desc.ev _ _)
    have hsc : doScript (ssPre cx b dof w1) dof = sc := by
      unfold doScript
      rw [hpre.1, h2]
      dsimp only
      rw [hpre.2.1, h3]
      rfl
    apply ssBuild_nonzero E d cx b (w.recs b) w dof w1 hfe
    rw [hsc]
    exact runScript_exit_nonzero E d cx b sc _ h4

/-- A chain `ch 0 → ch 1 → … → ch k`: every `ch i` (`i < k`) is forced to run and its script starts by asking
for `ch (i+1)`; the .do of `ch k` exits non-zero. -/
structure FailChain (w0 : World) (ch : Nat → Nat) (k : Nat) : Prop where
  forced : ∀ i, i < k → Forced w0 (ch i) (ch (i + 1))
  bottom : Failing w0 (ch k)

/-- **1(c), every level.**  The failure of the bottom .do is the failure of the job of `ch k`, hence of the
nested command that asked for it, hence of the script of `ch (k-1)` (`sh -e`), hence of its job, … up to the
command that asked for `ch i`, whatever else that command names (`rest`), with or without `--keep-going`, in
every context, as soon as the engine has one level per remaining chain element. -/
theorem failChain_runTargets (d : Defects) (w0 : World) (ch : Nat → Nat) (k : Nat) (hC : FailChain w0 ch k) :
    ∀ (m i : Nat), i + m = k → ∀ (n fuel : Nat) (cx : Ctx) (rest : List Nat) (w : World),
      m ≤ n → 0 < fuel → Desc w0 w →
      (runTargets (engine d n) d cx fuel (ch i :: rest) [] false w).1 ≠ 0
  | 0, i, him, n, fuel, cx, rest, w, _, hfuel, hw => by
    have hi : i = k := by omega
    subst hi
    apply runTargets_head_nonzero _ d cx fuel (ch i) rest [] false w (by simp)
    exact buildJob_failing _ d cx fuel (ch i) _ (hC.bottom.mono (hw.trans (Desc.addKnown w (ch i)))) hfuel
  | m + 1, i, him, n, fuel, cx, rest, w, hn, hfuel, hw => by
    obtain ⟨n', rfl⟩ : ∃ n', n = n' + 1 := ⟨n - 1, by omega⟩
    apply runTargets_head_nonzero _ d cx fuel (ch i) rest [] false w (by simp)
    have hF : Forced (addKnown w (ch i)) (ch i) (ch (i + 1)) :=
      (hC.forced i (by omega)).mono (hw.trans (Desc.addKnown w (ch i)))
    exact buildJob_forced (engine d (n' + 1)) d cx fuel (ch i) (ch (i + 1)) _ hF hfuel (by
      intro rest' w' hw'
      show (ifchangeWith (engine d n') d (n' + 1) (scriptCtx cx (ch i)) (ch (i + 1) :: rest') w').1 ≠ 0
      apply ifchangeWith_script_nonzero _ d _ _ _ w' (ch i) rfl rfl
      intro w'' hw''
      exact failChain_runTargets d w0 ch k hC m (i + 1) (by omega) n' (n' + 1) (scriptCtx cx (ch i)) rest' w''
        (by omega) (by omega) (((hw.trans (Desc.addKnown w (ch i))).trans hw').trans hw''))

/-- … up to the exit status of the top-level command. -/
theorem failChain_runCmd (d : Defects) (nf : Nat) (w : World) (ch : Nat → Nat) (k : Nat) (hC : FailChain w ch k)
    (hk : k ≤ 2 * nf + 4) (rest : List Nat) (kg : Bool) :
    (runCmd d nf (.ifchange (ch 0 :: rest) kg) w).1.status ≠ 0 ∧
    (runCmd d nf (.redo (ch 0 :: rest) kg) w).1.status ≠ 0 :=
  ⟨failChain_runTargets d w ch k hC k 0 (by omega) (2 * nf + 4) (2 * nf + 4)
      { runid := w.runCounter + 1, keepGoing := kg } rest { w with runCounter := w.runCounter + 1 } hk (by omega)
      ⟨rfl, rfl, rfl, fun _ _ _ => ⟨rfl, rfl⟩⟩,
   failChain_runTargets d w ch k hC k 0 (by omega) (2 * nf + 4) (2 * nf + 4)
      { runid := w.runCounter + 1, keepGoing := kg, isRedo := true } rest { w with runCounter := w.runCounter + 1 } hk
      (by omega) ⟨rfl, rfl, rfl, fun _ _ _ => ⟨rfl, rfl⟩⟩⟩

/-! ### (4) the failed target is executed again by the next run -/

theorem ssBuild_ran (E : Engine) (hE : EngineExt E) (d : Defects) (cx : Ctx) (t : Nat) (sf : Rec) (w : World)
    (hdo : ∃ c ∈ w.rules t, existsF w c = true) : RanIn t w (ssBuild E d cx t sf w).2 := by
  unfold ssBuild
  dsimp only
  have h1 : TraceExt w (findDoFile t ((zapDeps1 w t).rules t) (zapDeps1 w t)).2 :=
    (TraceExt.of_eq (w := w) (w' := zapDeps1 w t) rfl).trans (findDoFile_traceExt t _ _)
  have h2 := findDoFile_some t ((zapDeps1 w t).rules t) (zapDeps1 w t) hdo
  generalize findDoFile t ((zapDeps1 w t).rules t) (zapDeps1 w t) = r at h1 h2
  obtain ⟨o, w1⟩ := r
  obtain ⟨dof, h2⟩ := h2
  dsimp only at h1 h2
  subst h2
  exact RanIn.before (RanIn.after h1 (RanIn.ev t (setRec w1 dof (setStatic w1 dof (w1.recs dof) cx.runid))))
    (ssRun_traceExt E hE d cx t sf _ _)

theorem finish1_snd (x : JobResult × World) : (finish1 x).2 = x.2 := by
  obtain ⟨jr, w⟩ := x
  cases jr <;> rfl

/-- A failure recorded by an earlier run (`R0 ≤ runCounter`) does not answer 32 and is found dirty. -/
theorem shouldBuild_failed_earlier (cx : Ctx) (n t : Nat) (w : World) (R0 : Nat) (hr : cx.isRedo = false)
    (hf : (w.recs t).failed = some R0) (hlt : R0 < cx.runid) :
    shouldBuild cx (n + 1) t w = (some .dirty, w) := by
  unfold shouldBuild
  have h1 : isFailedR (getRec w cx.runid t) cx.runid = false := by
    unfold isFailedR
    rw [getRec_failed, hf]
    simp only [Bool.and_eq_false_imp, decide_eq_false_iff_not]
    intro _; omega
  simp only [hr, Bool.false_eq_true, if_false, h1]
  rw [failed_dirty_later false cx.runid n w [] t cx.runid [] R0 hf (by simp)]

/-- **(4)** `t` failed in an earlier run and was left without a file; nothing else changed.  The next
top-level `redo-ifchange t` executes the .do of `t` again. -/
theorem runCmd_retries (d : Defects) (n : Nat) (kg : Bool) (w : World) (t R0 : Nat)
    (hf : (w.recs t).failed = some R0) (hle : R0 ≤ w.runCounter) (hm : w.fs t = none)
    (hdo : ∃ c ∈ w.rules t, existsF w c = true) :
    RanIn t w (runCmd d n (.ifchange [t] kg) w).2 := by
  rw [runCmd_ifchange_single, finish1_snd]
  have hfs : (addKnown (nextRun w) t).fs = w.fs := addKnown_fs _ _
  have hf' : ((addKnown (nextRun w) t).recs t).failed = some R0 := by rw [addKnown_failed]; exact hf
  have hsb := shouldBuild_failed_earlier { runid := w.runCounter + 1, keepGoing := kg } (2 * n + 3) t
    (addKnown (nextRun w) t) R0 rfl hf' (Nat.lt_succ_of_le hle)
  rw [buildJob_ownStart _ d _ (2 * n + 4) t _ _ .dirty hsb (Or.inl rfl)]
  dsimp only
  rw [startSelf_missing _ d _ t _ _ (by rw [hfs]; exact hm)]
  have hpre : TraceExt w (addKnown (nextRun w) t) := TraceExt.of_eq (addKnown_trace _ _)
  refine RanIn.after hpre (ssBuild_ran _ (engine_traceExt d _) d _ t _ _ ?_)
  obtain ⟨c, hc, he⟩ := hdo
  exact ⟨c, by rw [addKnown_rules]; exact hc, by rw [existsF_congr (congrFun hfs c)]; exact he⟩

end RedoModel.Deps
