import RedoModel.Lemmas.DepsSoundK6
/-! Killed builds: the between-commands invariant survives a killed `redo-ifchange`; histories. -/
namespace RedoModel.Deps
open RedoModel.Generated

theorem applyOp_crashCmd (d : Defects) (n : Nat) (ts : List Nat) (t k : Nat) (w : World) :
    (applyOp d n (.crashCmd ts t k) w).2 =
      (runTargets (engine d (2 * n + 4)) d { runid := w.runCounter + 1, crash := some (t, k) } (2 * n + 4) ts [] false
        (allocRun w).2).2 := rfl

/-- **A killed run keeps the between-commands invariant** (single .do candidate per target): whatever the
targets, the script and the step at which the whole process tree dies. -/
theorem crashCmd_btw {rank N w} (d : Defects) (hN : ∀ f, rank f < N) (hS : SingleDo w.rules) (h : Btw rank w)
    (ts : List Nat) (t k : Nat) :
    Btw rank (applyOp d N (.crashCmd ts t k) w).2 ∧ (applyOp d N (.crashCmd ts t k) w).2.rules = w.rules := by
  rw [applyOp_crashCmd]
  obtain ⟨hi1, _⟩ := Inv_alloc h
  rcases runTargetsK_spec (fuel := 2 * N + 4) (b := N) (cx := { runid := w.runCounter + 1, crash := some (t, k) })
    (engineK_spec rank (w.runCounter + 1) d (2 * N + 4)) d rfl rfl none ts [] false (allocRun w).2 hS hi1
    (fun t _ => hN t) (fun _ s hs => by simp at hs) with ⟨_, hb, hrc, hru⟩ | ⟨⟨a1, a2, _⟩, _⟩
  · refine ⟨?_, hru⟩
    show Base rank _ NoX _
    rw [hrc]; exact hb
  · refine ⟨?_, a2.rules⟩
    show Base rank _ NoX _
    rw [a2.rc]; exact a1.base

theorem applyOp_btwK {rank n rules w} (hN : ∀ f, rank f < n) (hS : SingleDo rules) (h : Btw rank w)
    (hr : w.rules = rules) (op : UserOp) (hp : PlainOpK rules op) (hok : OpOk w op)
    (hrk : Ranked rank (applyOp {} n op w).2) :
    Btw rank (applyOp {} n op w).2 ∧ (applyOp {} n op w).2.rules = rules := by
  cases op with
  | crashCmd ts t k =>
    obtain ⟨a1, a2⟩ := crashCmd_btw {} hN (by rw [hr]; exact hS) h ts t k
    exact ⟨a1, a2.trans hr⟩
  | write f v => exact applyOp_btw hN h hr _ hp hok hrk
  | remove f => exact applyOp_btw hN h hr _ hp hok hrk
  | chmod f => exact applyOp_btw hN h hr _ hp hok hrk
  | hide f => exact applyOp_btw hN h hr _ hp hok hrk
  | unhide f => exact applyOp_btw hN h hr _ hp hok hrk
  | setProg c s => exact applyOp_btw hN h hr _ hp hok hrk
  | cmd c => exact applyOp_btw hN h hr _ hp hok hrk

theorem history_btwK {rank n rules} (hN : ∀ f, rank f < n) (hS : SingleDo rules) :
    ∀ (ops : List UserOp) (w : World), Btw rank w → w.rules = rules → (∀ op ∈ ops, PlainOpK rules op) →
      (∀ w' ∈ worldsOf n {} w ops, Ranked rank w') → OpsOk n w ops →
      Btw rank (ops.foldl (fun w op => (applyOp {} n op w).2) w) ∧
      (ops.foldl (fun w op => (applyOp {} n op w).2) w).rules = rules
  | [], w, h, hr, _, _, _ => ⟨h, hr⟩
  | op :: ops, w, h, hr, hp, hrk, hok => by
    have hrk1 : Ranked rank (applyOp {} n op w).2 :=
      hrk _ (by simp only [worldsOf, List.mem_cons]; exact Or.inr (worldsOf_head n {} _ ops))
    obtain ⟨a1, a2⟩ := applyOp_btwK hN hS h hr op (hp op (by simp)) hok.1 hrk1
    exact history_btwK hN hS ops _ a1 a2 (fun op' h' => hp op' (List.mem_cons_of_mem _ h'))
      (fun w' hw' => hrk w' (by simp only [worldsOf, List.mem_cons]; exact Or.inr hw')) hok.2

end RedoModel.Deps
