import RedoModel.Lemmas.DepsShift
set_option linter.unusedSimpArgs false
/-!
# Run-id shift — part 1: the dirtiness check and `should_build` commute with the shift
-/
namespace RedoModel.Deps

def sh3 (R : Nat) (x : DR × World × List Nat) : DR × World × List Nat := (x.1, shW R x.2.1, x.2.2)
def shO3 (R : Nat) (x : Option DR × World × List Nat) : Option DR × World × List Nat := (x.1, shW R x.2.1, x.2.2)
def sh2 {α : Type} (R : Nat) (x : α × World) : α × World := (x.1, shW R x.2)

theorem goDeps_sh (R : Nat) (chkA chkB : World → List Nat → Nat → Rec → DR × World × List Nat)
    (h : ∀ w c s r, chkB (shW R w) c s (shRec R r) = sh3 R (chkA w c s r)) (hasCsum : Bool) (f : Nat) :
    ∀ (ds : List (Dep × Rec)) (w : World) (cache must : List Nat),
      goDeps chkB hasCsum f (ds.map (fun p => (p.1, shRec R p.2))) (shW R w) cache must
        = shO3 R (goDeps chkA hasCsum f ds w cache must)
  | [], w, cache, must => by
    simp only [List.map_nil, goDeps]
    rfl
  | (d, snap) :: ds, w, cache, must => by
    rw [List.map_cons, goDeps, goDeps]
    by_cases hm : d.modeM = true
    · simp only [hm, if_true]
      rw [h]
      generalize chkA w cache d.source snap = r
      obtain ⟨sub, w1, c1⟩ := r
      cases sub with
      | cyclic => rfl
      | dirty => rfl
      | clean => exact goDeps_sh R chkA chkB h hasCsum f ds w1 c1 must
      | need ts => exact goDeps_sh R chkA chkB h hasCsum f ds w1 c1 (must ++ ts)
    · simp only [hm, Bool.false_eq_true, if_false, existsF_sh]
      by_cases hex : existsF w d.source = true
      · simp only [hex, if_true]
        rfl
      · simp only [hex, Bool.false_eq_true, if_false]
        exact goDeps_sh R chkA chkB h hasCsum f ds w cache must

theorem getD_map_sh {R : Nat} (hR : 0 < R) (o : Option Nat) : (o.map (sh R)).getD 0 = sh R (o.getD 0) := by
  cases o with
  | none => simp [sh_zero hR]
  | some c => rfl

theorem vanish_sh {R : Nat} (hR : 0 < R) (r : Rec) :
    ({ shRec R r with isGenerated := false, isOverride := false, failed := some 0 } : Rec)
      = shRec R { r with isGenerated := false, isOverride := false, failed := some 0 } := by
  simp [shRec, sh_zero hR]

theorem mark_sh (R : Nat) (r : Rec) :
    ({ shRec R r with checked := some (R + 1) } : Rec) = shRec R { r with checked := some R } := by
  simp [shRec, sh_self]

theorem leaf_setRec {R : Nat} {w : World} {f : Nat} {X Y : Rec} {dr : DR} {c : List Nat} (h : X = shRec R Y) :
    (dr, setRec (shW R w) f X, c) = sh3 R (dr, setRec w f Y, c) := by
  subst h; rw [setRec_sh]; rfl

theorem isDirty_sh (ood : Bool) {R : Nat} (hR : 0 < R) :
    ∀ (fuel : Nat) (w : World) (cache : List Nat) (f mx : Nat) (seen : List Nat) (pre : Option Rec),
      isDirty ood (R + 1) fuel (shW R w) cache f (sh R mx) seen (pre.map (shRec R))
        = sh3 R (isDirty ood R fuel w cache f mx seen pre)
  | 0, w, cache, f, mx, seen, pre => by
    rw [isDirty, isDirty]; rfl
  | fuel + 1, w, cache, f, mx, seen, pre => by
    rw [isDirty, isDirty]
    by_cases hs : f ∈ seen
    · simp only [hs, if_true]; rfl
    simp only [hs, if_false]
    rw [getRec_sh, Option.getD_map]
    generalize pre.getD (getRec w R f) = r
    by_cases hf : r.failed.isSome = true
    · simp only [shRec_failed, Option.isSome_map, hf, if_true]; rfl
    simp only [shRec_failed, Option.isSome_map, hf, if_false, shRec_changed]
    cases hc : r.changed with
    | none => simp only [Option.map_none]; rfl
    | some ch =>
      simp only [Option.map_some, sh_gt_sh]
      by_cases hgt : ch > mx
      · simp only [hgt, if_true]; rfl
      simp only [hgt, if_false, isCheckedR_sh hR]
      by_cases hck : (if ood = true then decide (f ∈ cache) else isCheckedR r R) = true
      · simp only [hck, if_true]; rfl
      simp only [hck, Bool.false_eq_true, if_false, shRec_stamp]
      cases hst : r.stamp with
      | none => rfl
      | some old =>
        simp only [readStamp_sh]
        by_cases hne : old ≠ readStamp w f
        · simp only [hne, ne_eq, not_false_eq_true, if_true, shRec_isGenerated, shRec_csum]
          by_cases hv : readStamp w f = DStamp.missing ∧ r.isGenerated = true
          · simp only [hv, and_self, if_true]
            refine leaf_setRec ?_
            simp [shRec, sh_zero hR, hc]
          · simp only [hv, if_false]
            rfl
        · simp only [hne, ne_eq, not_true_eq_false, not_false_eq_true, if_false, shRec_checked, shRec_csum, shRec_isOverride]
          rw [getD_map_sh hR, sh_max, depsWithRecs_sh]
          rw [goDeps_sh R
            (fun w2 cache s snap => isDirty ood R fuel w2 cache s (max ch (r.checked.getD 0)) (f :: seen) (some snap))
            (fun w2 cache s snap => isDirty ood (R + 1) fuel w2 cache s (sh R (max ch (r.checked.getD 0))) (f :: seen) (some snap))
            (fun w2 c s r2 => isDirty_sh ood hR fuel w2 c s _ (f :: seen) (some r2))]
          generalize goDeps _ r.csum.isSome f (depsWithRecs w R r f) w cache [] = gr
          obtain ⟨o, w2, c2⟩ := gr
          cases o with
          | some dr => rfl
          | none =>
            simp only [shO3]
            cases ood with
            | true => simp only [Bool.not_true, Bool.and_false, Bool.false_eq_true, if_false, if_true]; rfl
            | false =>
              simp only [Bool.not_false, Bool.and_true, Bool.false_eq_true, if_false]
              by_cases hov : r.isOverride = true
              · simp only [hov, if_true]
                rw [ev_sh]
                refine leaf_setRec ?_
                simp [shRec, sh_self, hc]
              · simp only [hov, if_false]
                refine leaf_setRec ?_
                simp [shRec, sh_self, hc]

theorem shouldBuild_sh {R : Nat} (hR : 0 < R) (cx : Ctx) (hcx : cx.runid = R) (fuel t : Nat) (w : World) :
    shouldBuild (shCx cx) fuel t (shW R w) = sh2 R (shouldBuild cx fuel t w) := by
  unfold shouldBuild
  have e1 : (shCx cx).isRedo = cx.isRedo := rfl
  have e2 : (shCx cx).runid = R + 1 := by simp [shCx, hcx]
  rw [e1, e2, hcx]
  by_cases hredo : cx.isRedo = true
  · simp only [hredo, if_true]; rfl
  simp only [hredo, Bool.false_eq_true, if_false]
  rw [getRec_sh, isFailedR_sh hR]
  by_cases hfl : isFailedR (getRec w R t) R = true
  · simp only [hfl, if_true]; rfl
  simp only [hfl, Bool.false_eq_true, if_false]
  have h := isDirty_sh false hR fuel w [] t R [] none
  rw [sh_self, Option.map_none] at h
  rw [h]
  generalize isDirty false R fuel w [] t R [] none = r
  obtain ⟨dr, w1, c⟩ := r
  rfl

end RedoModel.Deps
