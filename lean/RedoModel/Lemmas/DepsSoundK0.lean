import RedoModel.Lemmas.DepsSound41
/-!
C10 on the full model: histories with killed builds.  Definitions, and the COUNTEREXAMPLE to the
unrestricted statement: a target with two .do candidates whose chosen .do file was removed, killed
while the script of the fallback .do file runs, is afterwards reported up to date with its OLD content.

Mechanism: `findDoFile` of the killed build replaces the row `(5, 1, m)` of the removed .do file by
`(5, 1, c)` (insert-or-replace on the key (target, source)), and adds `(5, 3, m)` for the fallback; the
record of 5 is untouched.  The next `redo-ifchange 5` sees: 1 absent (a `c` row: clean), 3 current and
changed long ago (clean) -- nothing is rebuilt, exit status 0, content still that of the removed script.
-/
namespace RedoModel.Deps
open RedoModel.Generated

/-- `PlainOp` plus killed builds. -/
def PlainOpK (rules : Nat → List Nat) : UserOp → Prop
  | .crashCmd _ _ _ => True
  | op => PlainOp rules op

/-- The statement asked for (same as `noStalePlainD` with `PlainOpK`). -/
def NoStalePlainK : Prop :=
  ∀ (n : Nat) (rules : Nat → List Nat) (rank : Nat → Nat) (ops : List UserOp) (ts : List Nat) (kg forced : Bool),
    RulesOk rules → (∀ op ∈ ops, PlainOpK rules op) →
    (∀ w ∈ worldsOf n {} (initWorld rules) ops, Ranked rank w) → (∀ f, rank f < n) →
    OpsOk n (initWorld rules) ops →
    let w := ops.foldl (fun w op => (applyOp {} n op w).2) (initWorld rules)
    let r := runCmd {} n (if forced then .redo ts kg else .ifchange ts kg) w
    r.1.status = 0 → ∀ t ∈ ts, UpToDateD r.2 t

def kxRules : Nat → List Nat := fun t => if t = 5 then [1, 3] else if t = 6 then [3] else []
def kxRank : Nat → Nat := fun f => if f = 5 then 1 else if f = 6 then 1 else 0

/-- 1 and 3 are .do files (contents [17] and [19], scripts with tags 1 and 2, no dependencies).  Build 6
(by 3), build 5 (by 1), remove 1, build 5 again and kill it at step 0 of its script (now 3). -/
def kxOps : List UserOp :=
  [.setProg [17] { tag := 1 }, .setProg [19] { tag := 2 }, .write 1 7, .write 3 8,
   .cmd (.ifchange [6] false), .cmd (.ifchange [5] false), .remove 1, .crashCmd [5] 5 0]

def kxW : World := kxOps.foldl (fun w op => (applyOp {} 2 op w).2) (initWorld kxRules)
def kxRes : Result × World := runCmd {} 2 (.ifchange [5] false) kxW

theorem mergeSort_pair' {α} (a b : α) (le : α → α → Bool) :
    [a, b].mergeSort le = if le a b then [a, b] else [b, a] := by
  simp [List.mergeSort, List.merge, List.MergeSort.Internal.splitInTwo]

/-- Evaluation of concrete runs by rewriting (the kernel cannot unfold `List.mergeSort`). -/
macro "eval_k" : tactic => `(tactic|
  simp (config := { zeta := true, zetaHave := true, decide := true, maxSteps := 4000000 }) [runCmd, allocRun, applyOp, initWorld, engine, runTargets,
    buildJob, shouldBuild, isDirty, goDeps, startSelf, recordNewState, runScript, runScript.cmds, runScript.conds,
    ifchangeWith, findDoFile, addDep, addKnown, setRec, setFile, ev, getRec, readStamp, existsF, newNode,
    srcContent, outContent, depsWithRecs, depsOf, zapDeps1, zapDeps2, updateStamp, setChanged, setStatic, setFailed,
    setOverride, detectOverride, isCheckedR, isChangedR, isFailedR, alwaysId, mergeSort_pair', CRASHED,
    EXIT_CYCLIC_DEPENDENCY, EXIT_TARGET_FAILED, EXIT_FAILURE, stampRec, contentOf, scriptAt, firstEx])

/-- What the recovery command returns and leaves. -/
def kxSummary (r : Result × World) :=
  (r.1.status, contentOf r.2 5, contentOf r.2 3, contentOf r.2 1, (r.2.recs 5).isGenerated, r.2.progs [19], r.2.rules 5)

set_option maxRecDepth 8000 in
set_option maxHeartbeats 4000000 in
theorem kx_eval : kxSummary kxRes = (0, some [4], some [19], none, true, some { tag := 2 }, [1, 3]) := by
  unfold kxSummary kxRes kxW kxOps kxRules
  eval_k

theorem kx_notUpToDate : ¬ UpToDateD kxRes.2 5 := by
  have he := kx_eval
  simp only [kxSummary, Prod.mk.injEq] at he
  obtain ⟨_, h5, h3, h1, hg, hp, hr⟩ := he
  have hex3 : existsF kxRes.2 3 = true := by
    unfold contentOf at h3; unfold existsF; cases h : kxRes.2.fs 3 <;> simp_all
  have hex1 : existsF kxRes.2 1 = false := by
    unfold contentOf at h1; unfold existsF; cases h : kxRes.2.fs 1 <;> simp_all
  have hsc : scriptAt kxRes.2 3 = { tag := 2 } := by
    unfold contentOf at h3; unfold scriptAt
    cases h : kxRes.2.fs 3 with
    | none => rw [h] at h3; cases h3
    | some n => rw [h] at h3; simp only [Option.map_some, Option.some.injEq] at h3; simp [h3, hp]
  intro h
  cases h with
  | source hs =>
    have := hs 3 (by rw [hr]; simp)
    rw [hex3] at this; cases this
  | user hg' _ => rw [hg] at hg'; cases hg'
  | target hf _ hc =>
    rw [hr] at hf
    simp only [firstEx, hex1, hex3, Bool.false_eq_true, if_false, if_true, Option.some.injEq] at hf
    subst hf
    rw [h5, hsc] at hc
    simp [outOf, outContent] at hc

end RedoModel.Deps
