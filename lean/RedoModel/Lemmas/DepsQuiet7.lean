import RedoModel.Lemmas.DepsQuiet6
/-!
C02, "only if" direction: a *settled set* `S` (closed under recorded `m` rows, every member's record current, no
dependency newer than its dependent, no `redo-ifcreate` object in existence) is left alone by a whole
`redo-ifchange` command, whatever else that command builds.  Definitions, the frame relation `SRel`, primitive steps.
-/
namespace RedoModel.Deps.Rich

/-- The record of `f` gives the dirtiness check of run `R'` no reason to rebuild `f`. -/
structure SAt (R' : Nat) (S : Nat → Prop) (w : World) (f : Nat) : Prop where
  ne0 : f ≠ alwaysId
  failed : (w.recs f).failed = none
  ch : ∃ ch, (w.recs f).changed = some ch ∧ ch ≤ R'
  ck : ∀ c, (w.recs f).checked = some c → c ≤ R'
  stamp : (w.recs f).stamp = some (readStamp w f)
  rowsM : genT (w.recs f) = true → ∀ d ∈ w.deps, d.target = f → d.modeM = true →
    S d.source ∧ ∀ c, (w.recs d.source).changed = some c → c ≤ Mof (w.recs f)
  rowsC : genT (w.recs f) = true → ∀ d ∈ w.deps, d.target = f → d.modeM = false →
    existsF w d.source = false ∧ w.rules d.source = []

def SSet (R' : Nat) (S : Nat → Prop) (w : World) : Prop := ∀ f, S f → SAt R' S w f

/-- What may happen to the record of a member. -/
structure RecKeep (R' : Nat) (a b : Rec) : Prop where
  failed : b.failed = a.failed
  changed : b.changed = a.changed
  stamp : b.stamp = a.stamp
  checked : b.checked = a.checked ∨ b.checked = some R'
  gen : genT b = true → genT a = true

theorem RecKeep.refl (R' : Nat) (a : Rec) : RecKeep R' a a := ⟨rfl, rfl, rfl, Or.inl rfl, id⟩

theorem RecKeep.trans {R' a b c} (h1 : RecKeep R' a b) (h2 : RecKeep R' b c) : RecKeep R' a c :=
  ⟨h2.failed.trans h1.failed, h2.changed.trans h1.changed, h2.stamp.trans h1.stamp,
   by
    rcases h2.checked with e | e
    · rcases h1.checked with e1 | e1
      · exact Or.inl (e.trans e1)
      · exact Or.inr (e.trans e1)
    · exact Or.inr e,
   fun h => h1.gen (h2.gen h)⟩

theorem RecKeep.mof {R' a b} (h : RecKeep R' a b) (hck : ∀ c, a.checked = some c → c ≤ R') : Mof a ≤ Mof b := by
  unfold Mof
  rw [h.changed]
  rcases h.checked with e | e
  · rw [e]; exact Nat.le_refl _
  · rw [e]
    cases hc : a.checked with
    | none => simp only [Option.getD_none, Option.getD_some]; omega
    | some c => have := hck c hc; simp only [Option.getD_some]; omega

/-- The frame of everything a command of run `R'` does, as far as the members of `S` can tell. -/
structure SRel (R' : Nat) (S : Nat → Prop) (w w' : World) : Prop where
  deps : ∀ d, S d.target → (d ∈ w'.deps ↔ d ∈ w.deps)
  rules : w'.rules = w.rules
  recs : ∀ x, S x → RecKeep R' (w.recs x) (w'.recs x)
  fs : ∀ f, (S f ∨ w.rules f = []) → w'.fs f = w.fs f
  ran : ∀ t, S t → Ev.ran t ∈ w'.trace → Ev.ran t ∈ w.trace

theorem SRel.refl (R' : Nat) (S : Nat → Prop) (w : World) : SRel R' S w w :=
  ⟨fun _ _ => Iff.rfl, rfl, fun _ _ => RecKeep.refl _ _, fun _ _ => rfl, fun _ _ h => h⟩

theorem SRel.trans {R' S a b c} (h1 : SRel R' S a b) (h2 : SRel R' S b c) : SRel R' S a c :=
  ⟨fun d hd => (h2.deps d hd).trans (h1.deps d hd), h2.rules.trans h1.rules,
   fun x hx => (h1.recs x hx).trans (h2.recs x hx),
   fun f hf => (h2.fs f (by rw [h1.rules]; exact hf)).trans (h1.fs f hf),
   fun t ht h => h1.ran t ht (h2.ran t ht h)⟩

theorem SSet.step {R' S w w'} (hq : SSet R' S w) (h : SRel R' S w w') : SSet R' S w' := by
  intro f hf
  have hqa := hq f hf
  have hk := h.recs f hf
  refine ⟨hqa.ne0, by rw [hk.failed]; exact hqa.failed, by rw [hk.changed]; exact hqa.ch, fun c hc => ?_, ?_,
    fun hg d hd ht hm => ?_, fun hg d hd ht hm => ?_⟩
  · rcases hk.checked with e | e
    · exact hqa.ck c (by rw [← e]; exact hc)
    · rw [e] at hc; cases hc; exact Nat.le_refl _
  · rw [hk.stamp, readStamp_congr (h.fs f (Or.inl hf))]; exact hqa.stamp
  · have hd' := (h.deps d (by rw [ht]; exact hf)).1 hd
    obtain ⟨hs, hle⟩ := hqa.rowsM (hk.gen hg) d hd' ht hm
    refine ⟨hs, fun c hc => ?_⟩
    rw [(h.recs d.source hs).changed] at hc
    exact Nat.le_trans (hle c hc) (hk.mof hqa.ck)
  · have hd' := (h.deps d (by rw [ht]; exact hf)).1 hd
    obtain ⟨he, hr⟩ := hqa.rowsC (hk.gen hg) d hd' ht hm
    exact ⟨by rw [existsF_congr (h.fs d.source (Or.inr hr))]; exact he, by rw [h.rules]; exact hr⟩

/-! ### Primitive steps -/

theorem SRel.setRec_out {R' S} (w : World) {f : Nat} (r : Rec) (hf : ¬ S f) : SRel R' S w (setRec w f r) :=
  ⟨fun _ _ => Iff.rfl, rfl, fun x hx => by
    have : x ≠ f := fun e => hf (e ▸ hx)
    simp only [setRec, this, if_false]; exact RecKeep.refl _ _, fun _ _ => rfl, fun _ _ h => h⟩

theorem SRel.evWarn {R' S} (w : World) (t : Nat) : SRel R' S w (ev w (.warnOverride t)) :=
  ⟨fun _ _ => Iff.rfl, rfl, fun _ _ => RecKeep.refl _ _, fun _ _ => rfl, fun t' _ h => by
    simp only [ev, List.mem_cons] at h
    rcases h with h | h
    · cases h
    · exact h⟩

theorem SRel.evRan {R' S} (w : World) {t : Nat} (ht : ¬ S t) : SRel R' S w (ev w (.ran t)) :=
  ⟨fun _ _ => Iff.rfl, rfl, fun _ _ => RecKeep.refl _ _, fun _ _ => rfl, fun t' ht' h => by
    simp only [ev, List.mem_cons] at h
    rcases h with h | h
    · cases h; exact absurd ht' ht
    · exact h⟩

theorem SRel.addKnown {R' S} (w : World) (f : Nat) : SRel R' S w (addKnown w f) := by
  unfold Deps.addKnown
  split
  · exact SRel.refl _ _ _
  · refine ⟨fun _ _ => Iff.rfl, rfl, fun x _ => ?_, fun _ _ => rfl, fun _ _ h => h⟩
    by_cases e : x = f
    · subst e; simp only [setRec, if_true]; exact ⟨rfl, rfl, rfl, Or.inl rfl, id⟩
    · simp only [setRec, e, if_false]; exact RecKeep.refl _ _

theorem SRel.addDep {R' S} (w : World) {t : Nat} (s : Nat) (m : Bool) (ht : ¬ S t) : SRel R' S w (addDep w t s m) := by
  refine (SRel.addKnown (R' := R') (S := S) w s).trans
    ⟨fun d hd => ?_, rfl, fun _ _ => RecKeep.refl _ _, fun _ _ => rfl, fun _ _ h => h⟩
  have hne : d.target ≠ t := fun e => ht (e ▸ hd)
  simp only [Deps.addDep, List.mem_cons, List.mem_filter]
  constructor
  · rintro (e | ⟨h, _⟩)
    · rw [e] at hne; exact absurd rfl hne
    · exact h
  · intro h; exact Or.inr ⟨h, by simp [hne]⟩

theorem SRel.zapDeps1 {R' S} (w : World) {t : Nat} (ht : ¬ S t) : SRel R' S w (zapDeps1 w t) := by
  refine ⟨fun d hd => ?_, rfl, fun _ _ => RecKeep.refl _ _, fun _ _ => rfl, fun _ _ h => h⟩
  have hne : d.target ≠ t := fun e => ht (e ▸ hd)
  simp only [Deps.zapDeps1, List.mem_map]
  constructor
  · rintro ⟨d', hd', e⟩
    split at e
    · rename_i h'; subst e; exact absurd h' hne
    · subst e; exact hd'
  · intro h; exact ⟨d, h, by simp [hne]⟩

theorem SRel.zapDeps2 {R' S} (w : World) {t : Nat} (ht : ¬ S t) : SRel R' S w (zapDeps2 w t) := by
  refine ⟨fun d hd => ?_, rfl, fun _ _ => RecKeep.refl _ _, fun _ _ => rfl, fun _ _ h => h⟩
  have hne : d.target ≠ t := fun e => ht (e ▸ hd)
  simp only [Deps.zapDeps2, List.mem_filter]
  constructor
  · exact fun h => h.1
  · intro h; exact ⟨h, by simp [hne]⟩

theorem SRel.setFile {R' S} (w : World) {t : Nat} (x : Option FNode) (ht : ¬ S t) (hr : w.rules t ≠ []) :
    SRel R' S w (setFile w t x) :=
  ⟨fun _ _ => Iff.rfl, rfl, fun _ _ => RecKeep.refl _ _, fun f hf => by
    have : f ≠ t := fun e => by
      subst e
      rcases hf with h | h
      · exact ht h
      · exact hr h
    simp [Deps.setFile, this], fun _ _ h => h⟩

theorem SRel.clock {R' S} (w : World) (c : Nat) : SRel R' S w { w with clock := c } :=
  ⟨fun _ _ => Iff.rfl, rfl, fun _ _ => RecKeep.refl _ _, fun _ _ => rfl, fun _ _ h => h⟩

/-- `set_static` on a member (a .do file that is also somebody's recorded dependency) changes nothing that matters. -/
theorem SRel.setStatic {R' S w} (hq : SSet R' S w) (f : Nat) :
    SRel R' S w (setRec w f (setStatic w f (w.recs f) R')) := by
  by_cases hf : S f
  · have hqa := hq f hf
    have hu : updateStamp w f (w.recs f) R' = w.recs f := by
      unfold updateStamp; simp [hqa.stamp]
    refine ⟨fun _ _ => Iff.rfl, rfl, fun x hx => ?_, fun _ _ => rfl, fun _ _ h => h⟩
    by_cases e : x = f
    · subst e
      simp only [setRec, if_true, Deps.setStatic, hu]
      exact ⟨hqa.failed.symm ▸ rfl, rfl, rfl, Or.inl rfl, fun h => by simp [genT] at h⟩
    · simp only [setRec, e, if_false]; exact RecKeep.refl _ _
  · exact SRel.setRec_out w _ hf

end RedoModel.Deps.Rich
