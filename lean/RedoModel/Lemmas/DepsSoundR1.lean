import RedoModel.Lemmas.DepsSoundR0
/-!
C01 on the full model, definitions: the corrected notion of up-to-date (`UpToDateR`: a .do content without
a `progs` entry means the default script, as in `startSelf`), and the run invariant `Inv`.
-/
namespace RedoModel.Deps.Rich

/-- The file is redo's: generated and not overridden by the user (what `depsOf` tests). -/
def genT (r : Rec) : Bool := r.isGenerated && !r.isOverride

theorem genT_true {r : Rec} : genT r = true ↔ r.isGenerated = true ∧ r.isOverride = false := by
  unfold genT; cases r.isGenerated <;> cases r.isOverride <;> simp

theorem genT_false {r : Rec} : genT r = false ↔ r.isGenerated = false ∨ r.isOverride = true := by
  unfold genT; cases r.isGenerated <;> cases r.isOverride <;> simp

theorem genT_of_gen_false {r : Rec} (h : r.isGenerated = false) : genT r = false := genT_false.2 (Or.inl h)

theorem genT_congr {a b : Rec} (h1 : a.isGenerated = b.isGenerated) (h2 : a.isOverride = b.isOverride) :
    genT a = genT b := by unfold genT; rw [h1, h2]

def RecCur (w : World) (f : Nat) : Prop :=
  (w.recs f).failed = none ∧ (w.recs f).changed ≠ none ∧ (w.recs f).stamp = some (readStamp w f)

/-- A change of the `m` dependency `d` is visible to a parent whose max(changed, checked) is `M`. -/
def DetectM (w : World) (M : Nat) (d : Nat) : Prop :=
  (w.recs d).failed ≠ none ∨ (w.recs d).changed = none ∨
  (∃ ch, (w.recs d).changed = some ch ∧ ch > M) ∨ (w.recs d).stamp ≠ some (readStamp w d)

/-- The part of `DetectM` that does not look at the `failed` flag: the truth clause uses this one. -/
def FailedAbsent (w : World) (d : Nat) : Prop :=
  (w.recs d).failed ≠ none ∧ genT (w.recs d) = false ∧ (w.recs d).stamp = some .missing

def DetectS (w : World) (M : Nat) (d : Nat) : Prop :=
  (w.recs d).changed = none ∨
  (∃ ch, (w.recs d).changed = some ch ∧ ch > M) ∨ (w.recs d).stamp ≠ some (readStamp w d) ∨ FailedAbsent w d

/-- The part of `DetectS` that looks at the `changed` mark alone. -/
def DetectC (w : World) (M : Nat) (d : Nat) : Prop :=
  (w.recs d).changed = none ∨ (∃ ch, (w.recs d).changed = some ch ∧ ch > M)

/-- The content a record stands for: a record that says "no file" stands for "no content", whatever the user
has put at that name since. -/
def contentV (w : World) (t : Nat) : Option Content :=
  if (w.recs t).stamp = some .missing then none else contentOf w t

/-- Current, or recorded as absent (the user may have put a file at the name of a target without output). -/
def RecCurV (w : World) (f : Nat) : Prop :=
  (w.recs f).failed = none ∧ (w.recs f).changed ≠ none ∧
  ((w.recs f).stamp = some (readStamp w f) ∨ (w.recs f).stamp = some .missing)

def Mof (r : Rec) : Nat := max (r.changed.getD 0) (r.checked.getD 0)

def VerR (w : World) (R : Nat) (f : Nat) : Prop :=
  (w.recs f).failed = none ∧ ((w.recs f).checked = some R ∨ (w.recs f).changed = some R)

def HasRow (w : World) (t s : Nat) (m : Bool) : Prop :=
  ∃ d ∈ w.deps, d.target = t ∧ d.source = s ∧ d.modeM = m

def rowsOf (w : World) (t : Nat) : List Dep := w.deps.filter (fun d => d.target = t)

/-- What the record of a current generated target `t` promises. -/
def RecTruth (w : World) (t : Nat) : Prop :=
  ∃ (pre : List Nat) (dof : Nat) (post : List Nat) (sc : Script),
    w.rules t = pre ++ dof :: post ∧
    (∀ c ∈ pre, HasRow w t c false) ∧ HasRow w t dof true ∧ (∀ d ∈ sc.ifchange.flatten, HasRow w t d true) ∧
    (∀ d ∈ sc.ifcreate, HasRow w t d false) ∧ (∀ d ∈ sc.cond, HasRow w t d true ∨ HasRow w t d false) ∧
    (sc.always = true → HasRow w t alwaysId true) ∧
    sc.exit = 0 ∧
    ((existsF w dof = true ∧ scriptAt w dof = sc) ∨ DetectS w (Mof (w.recs t)) dof) ∧
    (∀ f, sc.failIfOdd = some f → HasRow w t f true ∧ (oddC (contentOf w f) = false ∨ DetectS w (Mof (w.recs t)) f)) ∧
    ∃ cs : List (Option Content),
      contentV w t = (if sc.outMode = 2 then none else some (outContent sc.tag cs)) ∧
      cs.length = sc.reads.length ∧
      ∀ p ∈ List.zip sc.reads cs,
        (HasRow w t p.1 true ∧ (p.2 ≠ contentOf w p.1 → DetectS w (Mof (w.recs t)) p.1) ∧
          (genT (w.recs p.1) = true → (w.recs p.1).stamp = some .missing → p.2 ≠ none →
            DetectC w (Mof (w.recs t)) p.1)) ∨
        (HasRow w t p.1 false ∧ p.2 = none)

/-- The record of the `//ALWAYS` pseudo file: never failed, never a target; a `checked` mark of this run is only
written together with `changed` of this run. -/
structure Rec0 (R : Nat) (r : Rec) : Prop where
  failed : r.failed = none
  gen : r.isGenerated = false
  ck : r.checked = some R → r.changed = some R
  stamp : r.stamp = none ∨ r.stamp = some .missing

/-- The part of the invariant that also holds between commands (`R` bounds the run ids in use). -/
structure Base (rank : Nat → Nat) (R : Nat) (X : Nat → Prop) (w : World) : Prop where
  rulesOk : RulesOk w.rules
  ranked : RankedR rank w
  richProgs : ∀ c sc, w.progs c = some sc → sc.Rich
  chLe : ∀ f ch, (w.recs f).changed = some ch → ch ≤ R
  ckLe : ∀ f ck, (w.recs f).checked = some ck → ck ≤ R
  noCsum : ∀ f, (w.recs f).csum = none
  ovrSt : ∀ f, (w.recs f).isOverride = true →
    (w.recs f).isGenerated = true ∧ ∃ ms rest, (w.recs f).stamp = some (.st ms rest)
  srcNotGen : ∀ f, w.rules f = [] → (w.recs f).isGenerated = false
  fs0 : w.fs alwaysId = none
  rec0 : Rec0 R (w.recs alwaysId)
  rowsLt : ∀ d ∈ w.deps, rank d.source < rank d.target
  cPlain : ∀ d ∈ w.deps, d.modeM = false → w.rules d.source = [] ∧ d.source ≠ alwaysId
  stampCh : ∀ f, (w.recs f).stamp ≠ none → (w.recs f).changed ≠ none
  staticEx : ∀ f, f ≠ alwaysId → (w.recs f).failed = none → genT (w.recs f) = false → (w.recs f).stamp ≠ some .missing
  fsB : ∀ f n, w.fs f = some n → n.ms ≤ w.clock
  stB : ∀ f ms rest, (w.recs f).stamp = some (.st ms rest) →
      ms ≤ w.clock ∧ ∀ n, w.fs f = some n → ms < n.ms ∨ (ms = n.ms ∧ rest ≤ n.rest)
  ckFail : ∀ f, (w.recs f).checked = some R → (w.recs f).failed = none
  markFail : ∀ f, (w.recs f).changed = some R → (w.recs f).failed = none ∨ (w.recs f).failed = some R
  flLe : ∀ f k, (w.recs f).failed = some k → k ≤ R
  recA : ∀ t, (¬ X t ∨ VerR w R t) → RecCurV w t → genT (w.recs t) = true → RecTruth w t

theorem RecCur.toV {w : World} {f : Nat} (h : RecCur w f) : RecCurV w f := ⟨h.1, h.2.1, Or.inl h.2.2⟩

theorem contentV_cur {w : World} {f : Nat} (h : (w.recs f).stamp = some (readStamp w f)) :
    contentV w f = contentOf w f := by
  unfold contentV
  split
  · rename_i hs
    rw [hs] at h
    have : readStamp w f = .missing := (Option.some.inj h).symm
    unfold readStamp at this
    unfold contentOf
    cases hfs : w.fs f with
    | none => rfl
    | some n => rw [hfs] at this; cases this
  · rfl

theorem contentV_congr {w w' : World} {f : Nat} (hr : (w'.recs f).stamp = (w.recs f).stamp)
    (hf : (w.recs f).stamp = some .missing ∨ w'.fs f = w.fs f) : contentV w' f = contentV w f := by
  unfold contentV; rw [hr]
  rcases hf with h | h
  · rw [if_pos h, if_pos h]
  · unfold contentOf; rw [h]

theorem Base.ovr0 {rank R X w} (hb : Base rank R X w) : (w.recs alwaysId).isOverride = false := by
  cases ho : (w.recs alwaysId).isOverride with
  | false => rfl
  | true => have := (hb.ovrSt alwaysId ho).1; rw [hb.rec0.gen] at this; cases this

theorem Base.srcT {rank R X w} (hb : Base rank R X w) (f : Nat) (h : w.rules f = []) : genT (w.recs f) = false :=
  genT_of_gen_false (hb.srcNotGen f h)

/-- Verified in run `R`, or a current record of a file redo does not own (nothing to rebuild). -/
def Good (w : World) (R : Nat) (f : Nat) : Prop :=
  VerR w R f ∨ (f ≠ alwaysId ∧ RecCur w f ∧ genT (w.recs f) = false)

/-- What "verified in run `R`" guarantees. -/
def Ver (R : Nat) (w : World) : Prop :=
  ∀ f, VerR w R f → RecCur w f ∧ UpToDateR w f ∧
    (genT (w.recs f) = true → ∀ d ∈ w.deps, d.target = f →
      (d.modeM = true → Good w R d.source) ∧ (d.modeM = false → existsF w d.source = false))

structure Inv (rank : Nat → Nat) (R : Nat) (X : Nat → Prop) (w : World) : Prop where
  base : Base rank R X w
  Rpos : 0 < R
  ver : Ver R w

def NoFail (R : Nat) (w : World) : Prop := ∀ f, (w.recs f).failed ≠ some R

end RedoModel.Deps.Rich
