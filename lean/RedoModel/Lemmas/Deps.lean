import RedoModel.Deps
/-! Frame lemmas for the serial engine model. -/
namespace RedoModel.Deps

/-- Everything of a world that the dirtiness check cannot change. -/
def SameButRecs (w w' : World) : Prop :=
  w'.fs = w.fs ∧ w'.deps = w.deps ∧ w'.runCounter = w.runCounter ∧ w'.clock = w.clock ∧
  w'.nextRow = w.nextRow ∧ w'.progs = w.progs ∧ w'.rules = w.rules

theorem SameButRecs.refl (w : World) : SameButRecs w w := ⟨rfl, rfl, rfl, rfl, rfl, rfl, rfl⟩

theorem SameButRecs.trans {a b c : World} (h1 : SameButRecs a b) (h2 : SameButRecs b c) : SameButRecs a c := by
  obtain ⟨a1, a2, a3, a4, a5, a6, a7⟩ := h1
  obtain ⟨b1, b2, b3, b4, b5, b6, b7⟩ := h2
  exact ⟨b1.trans a1, b2.trans a2, b3.trans a3, b4.trans a4, b5.trans a5, b6.trans a6, b7.trans a7⟩

theorem SameButRecs.setRec (w : World) (f : Nat) (r : Rec) : SameButRecs w (setRec w f r) :=
  ⟨rfl, rfl, rfl, rfl, rfl, rfl, rfl⟩

theorem SameButRecs.ev (w : World) (e : Ev) : SameButRecs w (ev w e) :=
  ⟨rfl, rfl, rfl, rfl, rfl, rfl, rfl⟩

theorem goDeps_frame (chk : World → List Nat → Nat → Rec → DR × World × List Nat)
    (hchk : ∀ w c s r, SameButRecs w (chk w c s r).2.1) (hasCsum : Bool) (f : Nat) :
    ∀ (ds : List (Dep × Rec)) (w : World) (cache must : List Nat),
      SameButRecs w (goDeps chk hasCsum f ds w cache must).2.1
  | [], w, cache, must => by simp [goDeps, SameButRecs.refl]
  | (d, snap) :: ds, w, cache, must => by
    rw [goDeps]
    by_cases hm : d.modeM = true
    · simp only [hm, if_true]
      have h1 := hchk w cache d.source snap
      generalize chk w cache d.source snap = r at h1
      obtain ⟨sub, w1, c1⟩ := r
      cases sub with
      | cyclic => exact h1
      | clean => exact h1.trans (goDeps_frame chk hchk hasCsum f ds w1 c1 must)
      | dirty => exact h1
      | need ts => exact h1.trans (goDeps_frame chk hchk hasCsum f ds w1 c1 (must ++ ts))
    · simp only [hm, Bool.false_eq_true, if_false]
      split
      · rename_i heq
        split at heq <;> cases heq
        all_goals exact SameButRecs.refl w
      · rename_i heq
        split at heq <;> cases heq
        all_goals exact goDeps_frame chk hchk hasCsum f ds w cache must
      · rename_i heq
        split at heq <;> cases heq
        all_goals exact SameButRecs.refl w
      · rename_i heq
        split at heq <;> cases heq

/-- The dirtiness check only writes records (and the ghost trace): no file, dependency row,
run id or clock changes. -/
theorem isDirty_frame (ood : Bool) (R : Nat) :
    ∀ (fuel : Nat) (w : World) (cache : List Nat) (f mx : Nat) (seen : List Nat) (pre : Option Rec),
      SameButRecs w (isDirty ood R fuel w cache f mx seen pre).2.1
  | 0, w, cache, f, mx, seen, pre => by simp [isDirty, SameButRecs.refl]
  | fuel + 1, w, cache, f, mx, seen, pre => by
    have hg : ∀ mx' hc ds, SameButRecs w (goDeps
        (fun w cache s snap => isDirty ood R fuel w cache s mx' (f :: seen) (some snap)) hc f ds w cache []).2.1 :=
      fun mx' hc ds => goDeps_frame _ (fun w c s r => isDirty_frame ood R fuel w c s _ _ _) hc f ds w cache []
    simp (config := {zeta := true, zetaHave := true}) only [isDirty]
    repeat' split
    all_goals try (first | exact SameButRecs.refl w | exact SameButRecs.setRec w f _)
    all_goals
      first
        | (rename_i heq
           have e := congrArg (fun x => x.2.1) heq
           dsimp only at e ⊢
           first
            | (rw [← e]; exact hg _ _ _)
            | (refine SameButRecs.trans ?_ (SameButRecs.setRec _ f _); rw [← e]; exact hg _ _ _))
        | (rename_i heq hcond
           have e := congrArg (fun x => x.2.1) heq
           dsimp only at e ⊢
           first
            | (rw [← e]; exact hg _ _ _)
            | (refine SameButRecs.trans ?_ (SameButRecs.setRec _ f _); rw [← e]; exact hg _ _ _)
            | (refine SameButRecs.trans ?_ (SameButRecs.ev _ _); rw [← e]; exact hg _ _ _)
            | (refine SameButRecs.trans (SameButRecs.trans ?_ (SameButRecs.ev _ _)) (SameButRecs.setRec _ f _)
               rw [← e]; exact hg _ _ _))

end RedoModel.Deps

namespace RedoModel.Deps
open RedoModel.Generated

/-- A job aborts `builder::run` only with the two documented non-zero statuses. -/
theorem buildJob_abort_code (E : Engine) (d : Defects) (cx : Ctx) (fuel t : Nat) (w0 : World) (code : Status) (w1 : World)
    (h : buildJob E d cx fuel t w0 = (.abort code, w1)) :
    code = EXIT_TARGET_FAILED ∨ code = EXIT_CYCLIC_DEPENDENCY := by
  unfold buildJob at h
  simp only at h
  generalize shouldBuild cx fuel t w0 = sb at h
  obtain ⟨o, w⟩ := sb
  cases o with
  | none =>
    simp only at h
    split at h
    · simp at h; exact .inl h.1.symm
    · simp at h
  | some dr =>
    cases dr with
    | cyclic => simp at h; exact .inr h.1.symm
    | clean => simp at h
    | dirty => simp at h
    | need ts =>
      simp only at h
      split at h
      · simp at h
      · split at h
        · simp at h
        · simp at h

end RedoModel.Deps
