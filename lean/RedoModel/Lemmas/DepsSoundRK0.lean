import RedoModel.Lemmas.DepsSoundR42
import RedoModel.Lemmas.DepsSoundK1
/-!
C10 for rich histories: definitions, and the COUNTEREXAMPLE to the unrestricted statement.

A target whose script declares a file *conditionally* (`if [ -e f ]; then redo-ifchange f; else redo-ifcreate f; fi`)
was built while `f` existed (row `(t, f, m)`); the user removes `f`; the rebuild of `t` is killed after the
conditional declaration ran: `redo-ifcreate f` has replaced the row `(t, f, m)` by `(t, f, c)` (insert-or-replace on
the key (target, source)), the record and the file of `t` are untouched.  The next `redo-ifchange t` sees: the .do
file current, `f` absent under a `c` row: clean.  Nothing is rebuilt, exit status 0, and `t` keeps the content
computed from the removed file.
-/
namespace RedoModel.Deps
open RedoModel.Generated

/-- `RichOp` plus killed `redo-ifchange` runs (not naming the `//ALWAYS` pseudo file). -/
def RichOpK (rules : Nat → List Nat) : UserOp → Prop
  | .crashCmd ts _ _ => ∀ t ∈ ts, t ≠ alwaysId
  | op => RichOp rules op

theorem RichOp.toK {rules : Nat → List Nat} : ∀ {op : UserOp}, RichOp rules op → RichOpK rules op
  | .write _ _, h => h
  | .remove _, h => h
  | .chmod _, h => h
  | .hide _, h => h
  | .unhide _, h => h
  | .setProg _ _, h => h
  | .cmd _, h => h
  | .crashCmd _ _ _, h => h.elim

end RedoModel.Deps

namespace RedoModel.Deps.Rich
open RedoModel.Generated

/-- The statement asked for: `noStaleRichFree` with `RichOpK` and `SingleDo`. -/
def RecoversRichK : Prop :=
  ∀ (n : Nat) (rules : Nat → List Nat) (rank : Nat → Nat) (ops : List UserOp) (ts : List Nat) (kg forced : Bool),
    RulesOk rules → SingleDo rules → (∀ op ∈ ops, RichOpK rules op) →
    (∀ w ∈ worldsOf n {} (initWorld rules) ops, RankedR rank w) → (∀ f, rank f < n) →
    OpsOkW n (initWorld rules) ops → (∀ t ∈ ts, t ≠ alwaysId) →
    let w := ops.foldl (fun w op => (applyOp {} n op w).2) (initWorld rules)
    let r := runCmd {} n (if forced then .redo ts kg else .ifchange ts kg) w
    r.1.status = 0 → ∀ t ∈ ts, UpToDateR r.2 t

/-- The script of target 2 (.do file 1): `if [ -e 5 ]; then redo-ifchange 5; else redo-ifcreate 5; fi; cat 5`. -/
def kcS : Script := { cond := [5], reads := [5], tag := 1 }

/-- Give the .do content [17] its meaning, write the source 5 and the .do file 1, build 2, remove 5, rebuild 2 and
kill the process tree at step 0 of the script of 2 (after its conditional declaration, before anything else). -/
def kcOps : List UserOp :=
  [.setProg [17] kcS, .write 5 0, .write 1 7, .cmd (.ifchange [2] false), .remove 5, .crashCmd [2] 2 0]

def kcW : World := kcOps.foldl (fun w op => (applyOp {} 2 op w).2) (initWorld cxRules)
/-- The recovery run. -/
def kcRes : Result × World := runCmd {} 2 (.ifchange [2] false) kcW

/-- Status of the killed run; then status and trace of the recovery run, and what it leaves. -/
def kcSummary :=
  let w5 := (kcOps.take 5).foldl (fun w op => (applyOp {} 2 op w).2) (initWorld cxRules)
  let k := applyOp {} 2 (.crashCmd [2] 2 0) w5
  let r := runCmd {} 2 (.ifchange [2] false) k.2
  (k.1.map (·.status), r.1.status, r.2.trace, contentOf r.2 2, contentOf r.2 1, contentOf r.2 5,
    (r.2.recs 2).isGenerated, (r.2.recs 2).isOverride, r.2.progs [17], r.2.rules 2)

set_option linter.unusedSimpArgs false in
set_option maxRecDepth 8000 in
set_option maxHeartbeats 4000000 in
/-- The run is killed; the recovery run exits 0 and runs nothing (the trace holds the first build and the killed
one); 2 still holds the output computed from the removed file 5 (`[4, 0, 3, 1]` = tag 1 applied to content `[3]`). -/
theorem kc_eval : kcSummary = (some CRASHED, 0, [.ran 2, .ran 2], some [4, 0, 3, 1], some [17], none, true, false,
    some kcS, [1]) := by
  unfold kcSummary kcOps kcS cxRules contentOf
  simp only [List.take, List.foldl]
  eval_runR

theorem kc_eval' : kcRes.1.status = 0 ∧ contentOf kcRes.2 2 = some [4, 0, 3, 1] ∧ contentOf kcRes.2 1 = some [17] ∧
    contentOf kcRes.2 5 = none ∧ (kcRes.2.recs 2).isGenerated = true ∧ (kcRes.2.recs 2).isOverride = false ∧
    kcRes.2.progs [17] = some kcS ∧ kcRes.2.rules 2 = [1] := by
  have he := kc_eval
  unfold kcSummary at he
  simp only [Prod.mk.injEq] at he
  obtain ⟨_, h1, _, h2, h3, h4, h5, h6, h7, h8⟩ := he
  exact ⟨h1, h2, h3, h4, h5, h6, h7, h8⟩

theorem kc_notUpToDate : ¬ UpToDateR kcRes.2 2 := by
  obtain ⟨_, h2, h1, h5, hg, ho, hp, hr⟩ := kc_eval'
  have hex1 : existsF kcRes.2 1 = true := by
    unfold contentOf at h1; unfold existsF; cases h : kcRes.2.fs 1 <;> simp_all
  have hsc : scriptAt kcRes.2 1 = kcS := by
    unfold contentOf at h1; unfold scriptAt
    cases h : kcRes.2.fs 1 with
    | none => rw [h] at h1; cases h1
    | some n => rw [h] at h1; simp only [Option.map_some, Option.some.injEq] at h1; simp [h1, hp]
  intro h
  cases h with
  | source hs =>
    have := hs 1 (by rw [hr]; simp)
    rw [hex1] at this; cases this
  | user hg' _ => rw [hg] at hg'; cases hg'
  | override ho' _ => rw [ho] at ho'; cases ho'
  | target hf _ _ _ _ _ hc =>
    rw [hr] at hf
    simp only [firstEx, hex1, if_true, Option.some.injEq] at hf
    subst hf
    rw [h2, hsc] at hc
    simp [outOf, kcS, h5, outContent] at hc

end RedoModel.Deps.Rich
