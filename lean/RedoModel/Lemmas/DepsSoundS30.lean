import RedoModel.Lemmas.DepsSoundS29
/-! Forced rebuild of a verified generated target: the record at the end, and `startSelf`. -/
namespace RedoModel.Deps.S
open RedoModel.Generated

theorem split_unique {w : World} : ∀ (pre pre' : List Nat) (dof dof' : Nat) (post post' : List Nat),
    pre ++ dof :: post = pre' ++ dof' :: post' → (∀ c ∈ pre, existsF w c = false) → existsF w dof = true →
    (∀ c ∈ pre', existsF w c = false) → existsF w dof' = true → pre = pre' ∧ dof = dof' ∧ post = post'
  | [], [], dof, dof', post, post', h, _, _, _, _ => by
    simp only [List.nil_append, List.cons.injEq] at h; exact ⟨rfl, h.1, h.2⟩
  | [], c :: pre', dof, dof', post, post', h, _, hd, hp', _ => by
    simp only [List.nil_append, List.cons_append, List.cons.injEq] at h
    have := hp' c (by simp); rw [← h.1, hd] at this; cases this
  | c :: pre, [], dof, dof', post, post', h, hp, _, _, hd' => by
    simp only [List.nil_append, List.cons_append, List.cons.injEq] at h
    have := hp c (by simp); rw [h.1, hd'] at this; cases this
  | c :: pre, c' :: pre', dof, dof', post, post', h, hp, hd, hp', hd' => by
    simp only [List.cons_append, List.cons.injEq] at h
    obtain ⟨e1, e2, e3⟩ := split_unique pre pre' dof dof' post post' h.2
      (fun x hx => hp x (List.mem_cons_of_mem _ hx)) hd (fun x hx => hp' x (List.mem_cons_of_mem _ hx)) hd'
    exact ⟨by rw [h.1, e1], e2, e3⟩

/-- What recording the forced rebuild of a verified target does to its record: the marks may move to `R`. -/
structure IdemFields (R t : Nat) (out : Option Content) (w w' : World) : Prop where
  rules : w'.rules = w.rules
  progs : w'.progs = w.progs
  fs : ∀ x, x ≠ t → w'.fs x = w.fs x
  content : contentOf w' t = out
  recs : ∀ x, x ≠ t → w'.recs x = w.recs x
  deps : w'.deps = w.deps.filter (fun d => !(d.target = t && d.deleteMe))
  clock : w.clock ≤ w'.clock
  rc : w'.runCounter = w.runCounter
  fsB : ∀ n, w'.fs t = some n → n.ms ≤ w'.clock
  gen : (w'.recs t).isGenerated = true
  ovr : (w'.recs t).isOverride = false
  checked : (w'.recs t).checked = (w.recs t).checked ∨ (w'.recs t).checked = some R
  changed : (w'.recs t).changed = (w.recs t).changed ∨ (w'.recs t).changed = some R
  failed : (w'.recs t).failed = none
  stamp : (w'.recs t).stamp = some (readStamp w' t)
  csum : (∀ x, (w'.recs t).csum = some x → out = some x) ∨ (w'.recs t).csum = (w.recs t).csum

theorem IdemFields.hasRow {R t out w w' s m} (hf : IdemFields R t out w w') (h : HasRowU w t s m) : HasRow w' t s m := by
  obtain ⟨d, hd, h1, h2, h3, h4⟩ := h
  refine ⟨d, ?_, h1, h2, h3⟩
  rw [hf.deps, List.mem_filter]
  simp [hd, h4]

theorem KeepFields.toIdem {R t out w w'} (hf : KeepFields t out w w') (h : (w.recs t).failed = none) :
    IdemFields R t out w w' :=
  ⟨hf.rules, hf.progs, hf.fs, hf.content, hf.recs, hf.deps, hf.clock, hf.rc, hf.fsB, hf.gen, hf.ovr, Or.inl hf.checked,
   Or.inl hf.changed, hf.failed.trans h, hf.stamp, Or.inr hf.csum⟩

theorem OkFields.toIdem {R t out w w'} (hf : OkFields R t out w w') : IdemFields R t out w w' :=
  ⟨hf.rules, hf.progs, hf.fs, hf.content, hf.recs, hf.deps, hf.clock, hf.rc, hf.fsB, hf.gen, hf.ovr, Or.inl hf.checked,
   Or.inr hf.changed, hf.failed, hf.stamp, Or.inl hf.csum⟩

theorem SameFields.toIdem {R t x w w'} (hf : SameFields R t x w w') : IdemFields R t (some x) w w' :=
  ⟨hf.rules, hf.progs, hf.fs, hf.content, hf.recs, hf.deps, hf.clock, hf.rc, hf.fsB, hf.gen, hf.ovr, Or.inr hf.checked,
   Or.inl hf.changed, hf.failed, hf.stamp, Or.inl (fun y hy => by rw [hf.csum] at hy; exact hy)⟩

theorem recordIdem_spec {rank R X t w w' b po pre dof post} (hi : Inv rank R X w) (hv : VerR w R t)
    (hg : (w.recs t).isGenerated = true) (hr : w.rules t = pre ++ dof :: post)
    (hpre : ∀ c ∈ pre, existsF w c = false ∧ HasRowU w t c false) (hdex : existsF w dof = true)
    (hdrow : HasRowU w t dof true) (hreads : ∀ d ∈ (scriptAt w dof).reads, HasRowU w t d true)
    (hf : IdemFields R t (outOf w (scriptAt w dof)) w w') (hlt : rank t < b) :
    Inv rank R X w' ∧ VerR w' R t ∧ BExt rank R b po w w' := by
  obtain ⟨pre', dof', post', hr', hpre', hdex', hgd, _, _, hrd, hexit, hcont⟩ := verR_script hi hv hg
  obtain ⟨e1, e2, e3⟩ := split_unique pre pre' dof dof' post post' (hr.symm.trans hr')
    (fun c hc => (hpre c hc).1) hdex (fun c hc => (hpre' c hc).1) hdex'
  subst e1 e2 e3
  have hrne : w.rules t ≠ [] := by rw [hr]; simp
  have h0 : t ≠ alwaysId := fun e => hrne (e ▸ hi.base.rulesOk.1)
  have hrc := (hi.ver t hv).1
  have off : OffT t w w' := by
    refine ⟨hf.rules, hf.progs, hf.fs, fun h => absurd h hrne, hf.recs, fun d hd => ?_, hf.clock, hf.rc⟩
    rw [hf.deps, List.mem_filter]; simp [hd]
  have hsub : ∀ d ∈ w'.deps, d ∈ w.deps := fun d hd => by
    rw [hf.deps, List.mem_filter] at hd; exact hd.1
  have hne : ∀ x, rank x < rank t → x ≠ t := fun x hx e => by rw [e] at hx; exact Nat.lt_irrefl _ hx
  have hrdne : ∀ d ∈ (scriptAt w dof).reads, d ≠ t := fun d hd => hne d ((hrd d hd).2.rank_lt hi.base)
  have hcontent : contentOf w' t = contentOf w t := by rw [hf.content, hcont]
  have hv' : VerR w' R t := by
    refine ⟨hf.failed, ?_⟩
    rcases hv.2 with h | h
    · rcases hf.checked with e | e
      · exact Or.inl (e.trans h)
      · exact Or.inl e
    · rcases hf.changed with e | e
      · exact Or.inr (e.trans h)
      · exact Or.inr e
  have hcn : (w'.recs t).changed ≠ none := by
    rcases hf.changed with e | e
    · rw [e]; exact hrc.2.1
    · rw [e]; simp
  have hrc' : RecCur w' t := ⟨hf.failed, hcn, hf.stamp⟩
  have o := hi.base.recOk t
  have hcs : ∀ x, (w'.recs t).csum = some x → contentOf w' t = some x := by
    intro x hx
    rcases hf.csum with h | h
    · rw [hf.content]; exact h x hx
    · rw [hcontent]; exact hi.base.csumCur hrc (by rw [← h]; exact hx)
  have hok : RecOk R t w' := by
    refine recOk_success hf.rules hrne h0 hf.fsB hf.gen hf.ovr hf.failed hf.stamp ?_ ?_ hcn hcs
    · intro ch h
      rcases hf.changed with e | e
      · rw [e] at h; exact o.chLe ch h
      · rw [e] at h; cases h; exact Nat.le_refl _
    · intro ck h
      rcases hf.checked with e | e
      · rw [e] at h; exact o.ckLe ck h
      · rw [e] at h; cases h; exact Nat.le_refl _
  have hdofP : w.rules dof = [] := (hi.base.rulesOk.2 t dof (by rw [hr]; simp)).1
  have hfsd := off.fsPlain hi.base hdofP
  have hcontd : ∀ d ∈ (scriptAt w dof).reads, contentOf w' d = contentOf w d :=
    fun d hd => contentOf_congr (hf.fs d (hrdne d hd))
  have hmap : (scriptAt w dof).reads.map (contentOf w') = (scriptAt w dof).reads.map (contentOf w) :=
    List.map_congr_left hcontd
  have hb' := Base_upd (X' := X) hi.base off hok (fun _ _ h => h) (fun d hd => hi.base.rowsLt d (hsub d hd))
    (fun d hd hm => by rw [off.rules]; exact hi.base.cPlain d (hsub d hd) hm)
    (hdet_idem hi.base hcontent hrc hf.changed hcs)
    (fun _ _ _ => ⟨pre, dof, post, scriptAt w dof, by rw [hf.rules]; exact hr,
      fun c hc => hf.hasRow (hpre c hc).2, hf.hasRow hdrow, fun d hd => hf.hasRow (hreads d hd), hexit,
      Or.inl ⟨by rw [existsF_congr hfsd]; exact hdex, scriptAt_congr hfsd hf.progs⟩,
      (scriptAt w dof).reads.map (contentOf w'), by rw [hf.content, hmap]; rfl, by simp,
      fun p hp => by
        have hp2 := P.zip_map_snd (contentOf w') _ p hp
        have hm := P.zip_fst_mem _ _ p hp
        refine ⟨fun hne' => absurd hp2 hne', fun x hx => Or.inl ?_⟩
        rw [hf.recs p.1 (hrdne _ hm)] at hx
        rw [hp2, hcontd p.1 hm]
        exact hi.base.csumCur ((hrd p.1 hm).1.recCur hi) hx⟩)
  have hver := Ver_upd_quiet hi off hcontent (by rw [hf.gen, hg]) (fun _ => Or.inl hv')
    (fun _ => hv) (fun _ => ⟨hrc', fun _ d hd hdt => by
      have hd0 := hsub d hd
      obtain ⟨h1, h2⟩ := (hi.ver t hv).2.2 hg d hd0 hdt
      have hlt' : rank d.source < rank t := hdt ▸ hi.base.rowsLt d hd0
      exact ⟨fun hm => (off.good (hne _ hlt') R).2 (h1 hm), fun hm => by
        rw [existsF_congr (hf.fs _ (hne _ hlt'))]; exact h2 hm⟩⟩)
  exact ⟨⟨hb', hi.Rpos, hver⟩, hv',
    off.toBExt hi.base hlt (fun _ => ⟨hv', hcontent, by rw [hf.gen, hg]⟩) (fun _ h => by rw [hg] at h; cases h)⟩

end RedoModel.Deps.S
