import RedoModel.Lemmas.DepsOod3
/-!
# redo-ood, upper bound — part 0: a file with a `PC` derivation is found clean by redo-ood's walk

The converse of `isDirty_ood_pc`.  Inside the loop of `redo-ood` the only record writes are "target vanished"
conversions, and these hit files whose recorded stamp differs from the file's (`OInv`); a file with a `PC`
derivation therefore still has its original record, and so has everything below it.

Fuel is handled abstractly (`FuelCert`): the two instances are the bound on file ids used by `C17b`
(`idCert`) and a strict rank along the `m` rows (`rankCert`, for worlds after a rich history).
-/
namespace RedoModel.Deps

/-- Worlds met inside the loop of `redo-ood` started on `w`: a record is the original one, or a "vanished" one of a
file whose recorded stamp was not the file's. -/
def OInv (w w' : World) (R : Nat) : Prop :=
  w'.fs = w.fs ∧ w'.deps = w.deps ∧
  ∀ g, (w'.recs g).row = (w.recs g).row ∧
    (getRec w' R g = getRec w R g ∨
      ((getRec w' R g).failed.isSome = true ∧ (getRec w R g).stamp ≠ some (readStamp w g)))

/-- A working copy: the original record, or a failed one of a file whose recorded stamp was not the file's. -/
def ORec (w : World) (R f : Nat) (r : Rec) : Prop :=
  r = getRec w R f ∨ (r.failed.isSome = true ∧ (getRec w R f).stamp ≠ some (readStamp w f))

theorem OInv.refl (w : World) (R : Nat) : OInv w w R := ⟨rfl, rfl, fun _ => ⟨rfl, .inl rfl⟩⟩

theorem OInv.toOod {w w' : World} {R : Nat} (h : OInv w w' R) : OodInv w w' R :=
  ⟨h.1, h.2.1, fun g => ⟨(h.2.2 g).1, (h.2.2 g).2.imp id (fun x => x.1)⟩⟩

theorem OInv.recOk {w w' : World} {R : Nat} (h : OInv w w' R) (f : Nat) : ORec w R f (getRec w' R f) := (h.2.2 f).2

theorem ORec.toOod {w : World} {R f : Nat} {r : Rec} (h : ORec w R f r) : RecOk w R f r := h.imp id (fun x => x.1)

theorem OInv.vanish {w w' : World} {R : Nat} (h : OInv w w' R) (f : Nat) (r : Rec) (hr : r = getRec w R f)
    (hne : (getRec w R f).stamp ≠ some (readStamp w f)) :
    OInv w (setRec w' f { r with isGenerated := false, isOverride := false, failed := some 0 }) R := by
  have ho := h.toOod.vanish f r hr
  refine ⟨ho.1, ho.2.1, fun g => ⟨(ho.2.2 g).1, ?_⟩⟩
  by_cases hg : g = f
  · subst hg
    right
    refine ⟨?_, hne⟩
    simp only [getRec, setRec, if_true]
    split <;> rfl
  · rw [getRec_setRec_ne w' R f g _ hg]
    exact (h.2.2 g).2

theorem goDeps_ood_oinv (w : World) (R : Nat) (chk : World → List Nat → Nat → Rec → DR × World × List Nat)
    (hchk : ∀ w' cache s snap, OInv w w' R → ORec w R s snap → OInv w (chk w' cache s snap).2.1 R)
    (hasCsum : Bool) (f : Nat) :
    ∀ (ds : List (Dep × Rec)) (w' : World) (cache must : List Nat),
      OInv w w' R → (∀ p ∈ ds, ORec w R p.1.source p.2) → OInv w (goDeps chk hasCsum f ds w' cache must).2.1 R
  | [], w', cache, must, hi, _ => by rw [goDeps]; exact hi
  | (d, snap) :: ds, w', cache, must, hi, hds => by
    have hds' : ∀ p ∈ ds, ORec w R p.1.source p.2 := fun p hp => hds p (List.mem_cons_of_mem _ hp)
    rw [goDeps]
    by_cases hm : d.modeM = true
    · simp only [hm, if_true]
      have h1 := hchk w' cache d.source snap hi (hds (d, snap) List.mem_cons_self)
      generalize chk w' cache d.source snap = r at h1
      obtain ⟨sub, w1, c1⟩ := r
      dsimp only at h1 ⊢
      cases sub with
      | cyclic => exact h1
      | dirty => exact h1
      | clean => exact goDeps_ood_oinv w R chk hchk hasCsum f ds w1 c1 must h1 hds'
      | need ts => exact goDeps_ood_oinv w R chk hchk hasCsum f ds w1 c1 _ h1 hds'
    · simp only [hm, Bool.false_eq_true, if_false]
      cases existsF w' d.source
      · simp only [Bool.false_eq_true, if_false]
        exact goDeps_ood_oinv w R chk hchk hasCsum f ds w' cache must hi hds'
      · simp only [if_true]; exact hi

/-- The frame of redo-ood's walk. -/
theorem isDirty_ood_oinv (w : World) (R : Nat) :
    ∀ (fuel : Nat) (w' : World) (cache : List Nat) (f mx : Nat) (seen : List Nat) (pre : Option Rec),
      OInv w w' R → (∀ s, pre = some s → ORec w R f s) → OInv w (isDirty true R fuel w' cache f mx seen pre).2.1 R
  | 0, w', cache, f, mx, seen, pre => by intro hi _; rw [isDirty]; exact hi
  | fuel + 1, w', cache, f, mx, seen, pre => by
    intro hi hpre
    have hr : ORec w R f (pre.getD (getRec w' R f)) := by
      cases pre with
      | none => exact hi.recOk f
      | some s => exact hpre s rfl
    simp (config := { zeta := true, zetaHave := true }) only [isDirty, ↓reduceIte]
    generalize pre.getD (getRec w' R f) = r at hr ⊢
    split
    · exact hi
    split
    · exact hi
    rename_i hnf
    have hre : r = getRec w R f := by
      rcases hr with h | h
      · exact h
      · exact absurd h.1 hnf
    split
    · exact hi
    rename_i ch hch
    split
    · exact hi
    split
    · exact hi
    split
    · exact hi
    rename_i old hold
    split
    · rename_i hdiff
      dsimp only
      split
      · refine hi.vanish f r hre ?_
        rw [← hre, hold, ← hi.toOod.rs]
        exact fun e => hdiff (Option.some.inj e)
      · exact hi
    have hgd := goDeps_ood_oinv w R
      (fun w cache s snap => isDirty true R fuel w cache s (max ch (r.checked.getD 0)) (f :: seen) (some snap))
      (fun w2 c2 s snap h1 h2 => isDirty_ood_oinv w R fuel w2 c2 s _ (f :: seen) (some snap) h1
        (fun s' hs' => by cases hs'; exact h2))
      r.csum.isSome f (depsWithRecs w' R r f) w' cache [] hi
      (by
        intro p hp
        simp only [depsWithRecs, List.mem_map] at hp
        obtain ⟨d, _, rfl⟩ := hp
        exact hi.recOk d.source)
    generalize goDeps _ r.csum.isSome f (depsWithRecs w' R r f) w' cache [] = gr at hgd
    obtain ⟨o, w2, c2⟩ := gr
    dsimp only at hgd
    cases o with
    | some dr => exact hgd
    | none => simpa using hgd

/-! ### Fuel certificates -/

/-- `Fu fuel seen f`: the walk may enter `f` with this fuel and this stack of ancestors. -/
structure FuelCert (w : World) (R : Nat) (Fu : Nat → List Nat → Nat → Prop) : Prop where
  enter : ∀ {fuel seen f mx}, Fu fuel seen f → PC w R f mx → f ∉ seen ∧ fuel ≠ 0
  child : ∀ {fuel seen f mx s}, Fu (fuel + 1) seen f → PC w R f mx → Chld w R s f → Fu fuel (f :: seen) s

/-- The certificate used in `C17b`: file ids below `n`, the stack holds distinct ancestors. -/
def IdFu (w : World) (R n : Nat) (fuel : Nat) (seen : List Nat) (f : Nat) : Prop :=
  (∀ g ∈ seen, Relation.TransGen (Chld w R) f g) ∧ seen.Nodup ∧ (∀ g ∈ seen, g < n) ∧ f < n ∧
    n + 1 ≤ fuel + seen.length

theorem idCert (w : World) (R n : Nat) (hb : ∀ d ∈ w.deps, d.modeM = true → d.source < n) :
    FuelCert w R (IdFu w R n) := by
  refine ⟨fun {fuel seen f mx} h hpc => ?_, fun {fuel seen f mx s} h hpc hs => ?_⟩
  · obtain ⟨hanc, hnd, hbd, hfn, hfuel⟩ := h
    have hns : f ∉ seen := fun hin => hpc.not_below_self (hanc f hin)
    have hlen : (f :: seen).length ≤ n :=
      seen_length_le (List.nodup_cons.2 ⟨hns, hnd⟩)
        (fun g hg => by rcases List.mem_cons.1 hg with rfl | hg; exact hfn; exact hbd g hg)
    simp only [List.length_cons] at hlen
    exact ⟨hns, by omega⟩
  · obtain ⟨hanc, hnd, hbd, hfn, hfuel⟩ := h
    have hns : f ∉ seen := fun hin => hpc.not_below_self (hanc f hin)
    obtain ⟨d, hd, hmode, rfl⟩ := hs
    refine ⟨fun g hg => ?_, List.nodup_cons.2 ⟨hns, hnd⟩, fun g hg => ?_, hb d (mem_depsOf_mem_deps hd) hmode,
      by simp only [List.length_cons]; omega⟩
    · have hstep : Chld w R d.source f := ⟨d, hd, hmode, rfl⟩
      rcases List.mem_cons.1 hg with rfl | hg
      · exact Relation.TransGen.single hstep
      · exact Relation.TransGen.trans (Relation.TransGen.single hstep) (hanc g hg)
    · rcases List.mem_cons.1 hg with rfl | hg
      · exact hfn
      · exact hbd g hg

/-- A strict rank along the `m` rows. -/
def RankFu (rank : Nat → Nat) (fuel : Nat) (seen : List Nat) (f : Nat) : Prop :=
  rank f < fuel ∧ ∀ x ∈ seen, rank f < rank x

theorem rankCert (w : World) (R : Nat) (rank : Nat → Nat)
    (hlt : ∀ d ∈ w.deps, d.modeM = true → rank d.source < rank d.target) : FuelCert w R (RankFu rank) := by
  refine ⟨fun {fuel seen f mx} h _ => ⟨fun hin => by have := h.2 f hin; omega, by have := h.1; omega⟩,
    fun {fuel seen f mx s} h _ hs => ?_⟩
  obtain ⟨d, hd, hmode, rfl⟩ := hs
  have hdd := mem_depsOf_mem_deps hd
  have htgt : d.target = f := by
    unfold depsOf at hd
    split at hd
    · cases hd
    · rw [List.mem_mergeSort] at hd
      simpa using (List.mem_filter.1 hd).2
  have hl := hlt d hdd hmode
  rw [htgt] at hl
  refine ⟨by have := h.1; omega, fun x hx => ?_⟩
  rcases List.mem_cons.1 hx with rfl | hx
  · exact hl
  · have := h.2 x hx; omega

end RedoModel.Deps
