import RedoModel.StampStr
/-! Helper lemmas about the stamp strings (`RedoModel/StampStr.lean`). -/
namespace RedoModel.StampStr

theorem num_eq (n : Nat) : num n = Nat.toDigits 10 n := by
  simp [num, Nat.toString_eq_repr, Nat.toList_repr]

theorem num_ne_nil (n : Nat) : num n ≠ [] := by
  rw [num_eq]; exact Nat.toDigits_ne_nil

theorem num_isDigit (n : Nat) : ∀ c ∈ num n, c.isDigit = true := by
  intro c hc; rw [num_eq] at hc
  exact Nat.isDigit_of_mem_toDigits (by decide) (by decide) hc

theorem num_inj {a b : Nat} (h : num a = num b) : a = b := by
  rw [num_eq, num_eq] at h
  have := congrArg (fun l => Nat.ofDigitChars 10 l 0) h
  simpa [Nat.ofDigitChars_ten_toDigits] using this

theorem num_no_dash (n : Nat) : '-' ∉ num n := fun h => by
  have := num_isDigit n _ h; revert this; decide

theorem num_no_plus (n : Nat) : '+' ∉ num n := fun h => by
  have := num_isDigit n _ h; revert this; decide

theorem loop_pref {α} (p : α → Bool) (a r acc : List α) (h : ∀ x ∈ a, p x = true) :
    List.span.loop p (a ++ r) acc = List.span.loop p r (a.reverse ++ acc) := by
  induction a generalizing acc with
  | nil => rfl
  | cons c a ih =>
    have hc : p c = true := h c (by simp)
    simp only [List.cons_append, List.span.loop, hc]
    rw [ih _ (fun x hx => h x (by simp [hx]))]; simp

theorem span_stop {α} (p : α → Bool) (a r : List α) (c : α) (h : ∀ x ∈ a, p x = true)
    (hc : p c = false) : (a ++ c :: r).span p = (a, c :: r) := by
  simp [List.span, loop_pref p a _ [] h, List.span.loop, hc]

theorem span_all {α} (p : α → Bool) (a : List α) (h : ∀ x ∈ a, p x = true) :
    a.span p = (a, []) := by
  have := loop_pref p a [] [] h
  simp only [List.append_nil] at this
  simp [List.span, this, List.span.loop]

theorem span_dash (a r : List Char) (h : '-' ∉ a) :
    (a ++ '-' :: r).span (· ≠ '-') = (a, '-' :: r) :=
  span_stop _ a r '-' (fun x hx => by simp; rintro rfl; exact h hx) (by simp)

theorem span_nodash (a : List Char) (h : '-' ∉ a) : a.span (· ≠ '-') = (a, []) :=
  span_all _ a (fun x hx => by simp; rintro rfl; exact h hx)

/-- Two dash-free fields followed by a dash: `crit` returns exactly those two fields. -/
theorem crit_two (a b r : List Char) (ha : '-' ∉ a) (hb : '-' ∉ b) :
    crit (a ++ '-' :: b ++ '-' :: r) = [a, b] := by
  have e : a ++ '-' :: b ++ '-' :: r = a ++ '-' :: (b ++ '-' :: r) := by simp
  rw [e]
  simp only [crit, splitn, span_dash _ _ ha, span_dash _ _ hb, List.take]

theorem crit_one (a : List Char) (ha : '-' ∉ a) : crit a = [a] := by
  simp only [crit, splitn, span_nodash _ ha, List.take]

theorem loop_spec {α} (p : α → Bool) (t acc x y : List α) (h : List.span.loop p t acc = (x, y))
    (hacc : ∀ z ∈ acc, p z = true) : acc.reverse ++ t = x ++ y ∧ ∀ z ∈ x, p z = true := by
  induction t generalizing acc with
  | nil =>
    simp only [List.span.loop, Prod.mk.injEq] at h
    obtain ⟨rfl, rfl⟩ := h
    exact ⟨rfl, fun z hz => hacc z (by simpa using hz)⟩
  | cons c t ih =>
    simp only [List.span.loop] at h
    cases hc : p c
    · rw [hc] at h; simp only [Prod.mk.injEq] at h
      obtain ⟨rfl, rfl⟩ := h
      exact ⟨rfl, fun z hz => hacc z (by simpa using hz)⟩
    · rw [hc] at h
      have := ih (c :: acc) h (fun z hz => by
        rcases List.mem_cons.1 hz with rfl | hz
        · exact hc
        · exact hacc z hz)
      simpa using this

theorem span_spec {α} (p : α → Bool) (t x y : List α) (h : t.span p = (x, y)) :
    t = x ++ y ∧ ∀ z ∈ x, p z = true := by
  have := loop_spec p t [] x y h (by simp)
  simpa using this

/-- Shape of a well-formed time token. -/
theorem timeOk_shape (t : List Char) (h : timeOk t = true) :
    ∃ a b, t = a ++ '.' :: b ∧ a ≠ [] ∧ b ≠ [] ∧ (∀ c ∈ a, c.isDigit = true) ∧
      (∀ c ∈ b, c.isDigit = true) := by
  unfold timeOk at h
  split at h
  · rename_i a b heq
    have ⟨e, ha⟩ := span_spec _ _ _ _ heq
    simp only [Bool.and_eq_true, Bool.not_eq_true', List.isEmpty_eq_false_iff, List.all_eq_true] at h
    exact ⟨a, b, e, h.1.1, h.1.2, ha, h.2⟩
  · cases h

theorem timeOk_chars (t : List Char) (h : timeOk t = true) :
    t ≠ [] ∧ ∀ c ∈ t, c.isDigit = true ∨ c = '.' := by
  obtain ⟨a, b, rfl, _, _, ha, hb⟩ := timeOk_shape t h
  refine ⟨by simp, fun c hc => ?_⟩
  simp only [List.mem_append, List.mem_cons] at hc
  rcases hc with hc | rfl | hc
  · exact .inl (ha c hc)
  · exact .inr rfl
  · exact .inl (hb c hc)

theorem timeOk_no_dash (t : List Char) (h : timeOk t = true) : '-' ∉ t := fun hm => by
  rcases (timeOk_chars t h).2 _ hm with h | h <;> revert h <;> decide

theorem timeOk_no_plus (t : List Char) (h : timeOk t = true) : '+' ∉ t := fun hm => by
  rcases (timeOk_chars t h).2 _ hm with h | h <;> revert h <;> decide

theorem timeOk_has_dot (t : List Char) (h : timeOk t = true) : '.' ∈ t := by
  obtain ⟨a, b, rfl, _⟩ := timeOk_shape t h; simp

/-- The tail of a rendered stamp after the size field. -/
def tail3 (m : Meta) : List Char :=
  num m.ino ++ '-' :: num m.mode ++ '-' :: num m.uid ++ '-' :: num m.gid

theorem render_eq (m : Meta) : render m = m.mtime ++ '-' :: num m.size ++ '-' :: tail3 m := by
  simp [render, tail3]

theorem crit_render_app (m : Meta) (h : timeOk m.mtime = true) (s : List Char) :
    crit (render m ++ s) = [m.mtime, num m.size] := by
  have e : render m ++ s = m.mtime ++ '-' :: num m.size ++ '-' :: (tail3 m ++ s) := by
    simp [render_eq]
  rw [e]; exact crit_two _ _ _ (timeOk_no_dash _ h) (num_no_dash _)

theorem crit_render' (m : Meta) (h : timeOk m.mtime = true) :
    crit (render m) = [m.mtime, num m.size] := by
  simpa using crit_render_app m h []

theorem crit_missing : crit missing = [missing] := by decide
theorem crit_dir : crit dir = [dir] := by decide

theorem timeOk_ne_missing (t : List Char) (h : timeOk t = true) : t ≠ missing := by
  rintro rfl; revert h; decide

theorem timeOk_ne_dir (t : List Char) (h : timeOk t = true) : t ≠ dir := by
  rintro rfl; revert h; decide

theorem split_first_dash (x : List Char) :
    '-' ∉ x ∨ ∃ a r, x = a ++ '-' :: r ∧ '-' ∉ a := by
  induction x with
  | nil => left; simp
  | cons c x ih =>
    by_cases hc : c = '-'
    · right; exact ⟨[], x, by simp [hc], by simp⟩
    · rcases ih with h | ⟨a, r, e, ha⟩
      · left; simp [h, Ne.symm hc]
      · right; exact ⟨c :: a, r, by simp [e], by simp [ha, Ne.symm hc]⟩

/-- Once a string holds two dashes, what follows does not reach `crit`. -/
theorem crit_app_of_two_dashes (x s : List Char) (h : 2 ≤ x.count '-') :
    crit (x ++ s) = crit x := by
  rcases split_first_dash x with h0 | ⟨a, r, rfl, ha⟩
  · rw [List.count_eq_zero_of_not_mem h0] at h; omega
  · have h1 : 1 ≤ r.count '-' := by
      simp [List.count_append, List.count_eq_zero_of_not_mem ha] at h
      exact List.count_pos_iff.2 h
    rcases split_first_dash r with h0 | ⟨b, r', rfl, hb⟩
    · rw [List.count_eq_zero_of_not_mem h0] at h1; omega
    · have e1 : a ++ '-' :: (b ++ '-' :: r') ++ s = a ++ '-' :: b ++ '-' :: (r' ++ s) := by simp
      have e2 : a ++ '-' :: (b ++ '-' :: r') = a ++ '-' :: b ++ '-' :: r' := by simp
      rw [e1, e2, crit_two _ _ _ ha hb, crit_two _ _ _ ha hb]

theorem render_two_dashes (m : Meta) : 2 ≤ (render m).count '-' := by
  simp [render_eq, List.count_append]; omega

theorem crit_render_app_any (m : Meta) (s : List Char) : crit (render m ++ s) = crit (render m) :=
  crit_app_of_two_dashes _ _ (render_two_dashes m)

theorem detect_iff_crit_ne (a b : List Char) : detectOverride a b = true ↔ crit a ≠ crit b := by
  unfold detectOverride
  by_cases e : a = b
  · simp [e]
  · simp [e]

theorem detect_false_iff (a b : List Char) : detectOverride a b = false ↔ crit a = crit b := by
  have := detect_iff_crit_ne a b
  cases h : detectOverride a b <;> simp [h] at this ⊢
  · exact this
  · exact this

/-! A concrete injective coding (for non-vacuity of the abstraction theorem). -/
def encL : List Nat → Nat
  | [] => 0
  | x :: xs => 2 ^ x * (2 * encL xs + 1)

theorem pow_odd_inj : ∀ (x y a b : Nat), 2 ^ x * (2 * a + 1) = 2 ^ y * (2 * b + 1) → x = y ∧ a = b
  | 0, 0, a, b, h => by simp at h; exact ⟨rfl, by omega⟩
  | 0, y + 1, a, b, h => by
    rw [Nat.pow_succ, Nat.mul_right_comm] at h
    generalize 2 ^ y * (2 * b + 1) = z at h; omega
  | x + 1, 0, a, b, h => by
    rw [Nat.pow_succ, Nat.mul_right_comm] at h
    generalize 2 ^ x * (2 * a + 1) = z at h; omega
  | x + 1, y + 1, a, b, h => by
    rw [Nat.pow_succ, Nat.pow_succ, Nat.mul_right_comm, Nat.mul_right_comm (2 ^ y)] at h
    have := pow_odd_inj x y a b (Nat.eq_of_mul_eq_mul_right (by decide) h)
    exact ⟨by omega, this.2⟩

theorem encL_inj : Function.Injective encL := by
  intro l
  induction l with
  | nil =>
    intro m h; cases m with
    | nil => rfl
    | cons y ys =>
      simp only [encL] at h
      have : 0 < 2 ^ y * (2 * encL ys + 1) := Nat.mul_pos (Nat.pow_pos (by decide)) (by omega)
      omega
  | cons x xs ih =>
    intro m h; cases m with
    | nil =>
      simp only [encL] at h
      have : 0 < 2 ^ x * (2 * encL xs + 1) := Nat.mul_pos (Nat.pow_pos (by decide)) (by omega)
      omega
    | cons y ys =>
      simp only [encL] at h
      obtain ⟨rfl, e⟩ := pow_odd_inj _ _ _ _ h
      rw [ih e]

def encS0 (s : List Char) : Nat := encL (s.map Char.toNat)
def encK0 (k : List (List Char)) : Nat := encL (k.map encS0)

theorem encS0_inj : Function.Injective encS0 := fun _ _ h =>
  (List.map_inj_right (fun _ _ e => Char.toNat_inj.1 e)).1 (encL_inj h)

theorem encK0_inj : Function.Injective encK0 := fun _ _ h =>
  (List.map_inj_right (fun _ _ e => encS0_inj e)).1 (encL_inj h)

end RedoModel.StampStr
