import RedoModel.Lemmas.LogFollow7
/-!
# The trace acceptor `Obs` against the `Sys` model — projection, correspondence relation, one step

`obsOf s es`: what the hooks log of the run `es` from `s` (lock events with the index of the new instance as inode,
the follower's `enter`/`opened`/`check`/`eof`/`stop`; reads of lines and appends are invisible).
-/
namespace RedoModel.LogFollow
open Obs

/-- The line the follower's `read` step would get. -/
def nextLine (s : Sys) : Option Nat :=
  match s.opened with
  | some g => (s.insts.getD g [])[s.pos]?
  | none => none

/-- What the hooks log of one follower step taken in state `s`. -/
def obsFol (s : Sys) : List OEv :=
  match s.pc with
  | .start => [.enter (locked s)]
  | .top =>
    match s.opened with
    | some _ => []
    | none => if s.insts.isEmpty then [] else [.opened (s.insts.length - 1)]
  | .read =>
    match nextLine s with
    | some _ => []
    | none => if s.wasLocked then [.eof] else [.eof, .stop]
  | .check => [.check (locked s)]
  | .stopped => []

/-- What the hooks log of one event taken in state `s`; the inode of an instance is its index in `insts`. -/
def obsEv (s : Sys) : Ev → List OEv
  | .lock => [.lock]
  | .create => [.create s.insts.length]
  | .unlock => [.unlock]
  | .append _ => []
  | .fol => obsFol s

/-- The observable trace of the accepted part of a run. -/
def obsOf : Sys → List Ev → List OEv
  | _, [] => []
  | s, e :: es =>
    match step s e with
    | none => []
    | some s' => obsEv s e ++ obsOf s' es

/-- The acceptor on a few events, without the position counter. -/
def osteps : OSt → List OEv → Except Flag OSt
  | o, [] => .ok o
  | o, x :: r =>
    match ostep o x with
    | .error f => .error f
    | .ok o' => osteps o' r

theorem orun_append_ok (a b : List OEv) : ∀ (o o1 : OSt) (i : Nat), osteps o a = .ok o1 →
    orun o (a ++ b) i = orun o1 b (i + a.length) := by
  induction a with
  | nil => intro o o1 i h; simp only [osteps, Except.ok.injEq] at h; subst h; rfl
  | cons x r ih =>
    intro o o1 i h
    simp only [osteps] at h
    cases hx : ostep o x with
    | error f => rw [hx] at h; cases h
    | ok o2 =>
      rw [hx] at h
      simp only [List.cons_append, orun, hx, List.length_cons]
      rw [ih o2 o1 (i + 1) h]; congr 1; omega

/-- The acceptor's start state for a follower entering at `enter insts ph`. -/
def obsStart (insts : List (List Nat)) (ph : Phase) : OSt :=
  { phase := ph, cur := if insts = [] then none else some (insts.length - 1) }

/-- Every accepted `create` happens in a `CreateSafe` state, or after the follower has returned. -/
def SafeRunS : Sys → List Ev → Prop
  | _, [] => True
  | s, e :: es => ∀ s', step s e = some s' → (e = .create → CreateSafe s ∨ s.pc = .stopped) ∧ SafeRunS s' es

/-- The flags about the creation of an instance under the follower (the others check consistency of the trace). -/
def CreationFlag (f : Flag) : Prop := f = .staleOpen ∨ f = .rebuiltDuringFollow ∨ f = .createAfterFree

/-- The acceptor's state is the observable part of the model's state. -/
structure Rel (s : Sys) (o : OSt) : Prop where
  phase : o.phase = s.phase
  cur : s.phase = .building → s.insts ≠ [] → o.cur = some (s.insts.length - 1)
  folNone : (s.pc = .start ∨ s.pc = .stopped) → o.fol = none
  folSome : s.pc ≠ .start → s.pc ≠ .stopped →
    ∃ f, o.fol = some f ∧ f.opened = s.opened ∧ f.wasLocked = s.wasLocked

/-- Facts about the model's states used by the correspondence (true on every run from `enter`). -/
def ObsInv (s : Sys) : Prop := Pre s ∧ (s.pc = .start → s.opened = none)

theorem ObsInv_enter (insts : List (List Nat)) (ph : Phase) : ObsInv (enter insts ph) :=
  ⟨Pre_enter insts ph, fun _ => rfl⟩

theorem Rel_enter (insts : List (List Nat)) (ph : Phase) (o : OSt) (hph : o.phase = ph) (hfol : o.fol = none)
    (hcur : ph = .building → insts ≠ [] → o.cur = some (insts.length - 1)) : Rel (enter insts ph) o :=
  ⟨hph, hcur, fun _ => hfol, fun h => absurd rfl h⟩

theorem Rel_obsStart (insts : List (List Nat)) (ph : Phase) : Rel (enter insts ph) (obsStart insts ph) :=
  Rel_enter insts ph _ rfl rfl (fun _ h => by simp [obsStart, h])

/-- The wire driver's start state `{}` is right when the trace starts with the lock free. -/
theorem Rel_default (insts : List (List Nat)) : Rel (enter insts .idle) {} :=
  Rel_enter insts .idle _ rfl rfl (fun h => by cases h)

theorem ObsInv_step (s : Sys) (e : Ev) (s' : Sys) (hI : ObsInv s) (h : step s e = some s') : ObsInv s' := by
  refine ⟨Pre_step s e s' hI.1 h, ?_⟩
  have h2 := hI.2
  cases e with
  | lock => simp only [step] at h; split at h <;> cases h; exact h2
  | unlock => simp only [step] at h; split at h <;> cases h; exact h2
  | create => simp only [step] at h; split at h <;> cases h; exact h2
  | append l => simp only [step] at h; split at h <;> cases h; exact h2
  | fol =>
    simp only [step] at h
    split at h
    · cases h; intro h3; simp at h3
    · split at h
      · cases h; intro h3; simp at h3
      · split at h <;> (cases h; intro h3; simp at h3)
    · split at h
      · cases h; intro h3; simp at h3
      · split at h <;> (cases h; intro h3; simp at h3)
    · cases h; intro h3; simp at h3
    · cases h

theorem ObsInv_run {s s' : Sys} {es : List Ev} (h : run s es = some s') (hI : ObsInv s) : ObsInv s' :=
  run_induct ObsInv (fun _ => True) (fun s e s' hp _ h => ObsInv_step s e s' hp h) h (fun _ _ => trivial) hI

theorem stopped_absorb (s : Sys) (e : Ev) (s' : Sys) (hpc : s.pc = .stopped) (h : step s e = some s') :
    s'.pc = .stopped := by
  cases e with
  | lock => simp only [step] at h; split at h <;> cases h; exact hpc
  | unlock => simp only [step] at h; split at h <;> cases h; exact hpc
  | create => simp only [step] at h; split at h <;> cases h; exact hpc
  | append l => simp only [step] at h; split at h <;> cases h; exact hpc
  | fol => simp [step, hpc] at h

theorem stopped_absorb_run {s s' : Sys} {es : List Ev} (h : run s es = some s') (hpc : s.pc = .stopped) :
    s'.pc = .stopped :=
  run_induct (fun s => s.pc = .stopped) (fun _ => True) (fun s e s' hp _ h => stopped_absorb s e s' hp h) h
    (fun _ _ => trivial) hpc

end RedoModel.LogFollow
