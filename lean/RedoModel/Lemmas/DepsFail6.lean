import RedoModel.Lemmas.DepsFail5
/-!
# C05 at the level of whole commands — part 6: status 0 means that no failure was recorded (jobs, commands)
-/
namespace RedoModel.Deps
open RedoModel.Generated

theorem rnsOut_recs (t : Nat) (out : Option Content) (w : World) : (rnsOut t out w).recs = w.recs := by
  cases out <;> rfl

theorem rnsOk_nnf {R : Nat} (t : Nat) (w : World) : NoNewFail R w (rnsOk R t w).2 := by
  unfold rnsOk
  dsimp only
  refine NoNewFail.setRec' (w := zapDeps2 w t) (NoNewFail.of_recs rfl) t _ (fun h => ?_)
  split at h
  · exact h
  · simp [setChanged, isFailedR] at h

/-- Recording a successful script: `failed` of the target is cleared, or left as the database had it. -/
theorem recordNewState_zero_nnf {R : Nat} (cx : Ctx) (hcx : cx.runid = R) (t : Nat) (sf : Rec) (out : Option Content)
    (w : World) : NoNewFail R w (recordNewState cx t sf 0 out w).2 := by
  rw [recordNewState_eq, hcx]
  simp only [if_true]
  exact (NoNewFail.of_recs (rnsOut_recs t out w)).trans (rnsOk_nnf t _)

theorem setStatic_failed (w : World) (f : Nat) (r : Rec) (R : Nat) : (setStatic w f r R).failed = none := rfl
theorem setOverride_failed (w : World) (f : Nat) (r : Rec) (R : Nat) : (setOverride w f r R).failed = none := rfl

/-- The part of `start_self` that runs a .do file, ending with 0. -/
theorem ssBuild_nnf {R : Nat} (E : Engine) (hE : EngNNF E) (d : Defects) (cx : Ctx) (hcx : cx.runid = R) (t : Nat)
    (sf : Rec) (w w' : World) (he : ssBuild E d cx t sf w = (0, w')) : NoNewFail R w w' := by
  unfold ssBuild at he
  dsimp only at he
  have h1 : NoNewFail R w (findDoFile t ((zapDeps1 w t).rules t) (zapDeps1 w t)).2 :=
    (NoNewFail.of_recs (w := w) (w' := zapDeps1 w t) rfl).trans (findDoFile_nnf t _ _)
  generalize findDoFile t ((zapDeps1 w t).rules t) (zapDeps1 w t) = r at h1 he
  obtain ⟨o, w1⟩ := r
  dsimp only at h1
  cases o with
  | none =>
    dsimp only at he
    split at he
    · cases he
      exact h1.trans (NoNewFail.setRec_none _ _ _ (setStatic_failed _ _ _ _))
    · cases he
  | some dof =>
    dsimp only at he
    have h2 : NoNewFail R w (ev (setRec w1 dof (setStatic w1 dof (w1.recs dof) cx.runid)) (.ran t)) :=
      (h1.trans (NoNewFail.setRec_none _ _ _ (setStatic_failed _ _ _ _))).trans (NoNewFail.of_recs rfl)
    have h3 := runScript_nnf (R := R) E hE d cx hcx t
    generalize ev (setRec w1 dof (setStatic w1 dof (w1.recs dof) cx.runid)) (.ran t) = w3 at h2 h3 he
    replace he : (match runScript E d cx t (doScript w3 dof) w3 with
      | (rv, out, w) => if rv = CRASHED then (CRASHED, w) else recordNewState cx t sf rv out w) = (0, w') := he
    generalize doScript w3 dof = sc at he
    have h3' := h3 sc w3
    generalize runScript E d cx t sc w3 = r4 at h3' he
    obtain ⟨rv, out, w4⟩ := r4
    dsimp only at he
    split at he
    · cases he
    · by_cases hrv : rv = 0
      · subst hrv
        have h5 := recordNewState_zero_nnf (R := R) cx hcx t sf out w4
        rw [he] at h5
        exact (h2.trans (h3' out w4 rfl)).trans h5
      · have := (C05.failure_recorded cx t sf rv out w4 hrv).1
        rw [he] at this
        exact absurd this.symm hrv

/-- The override detection: relative to a base world `w0` in which the job's copy `sf0` was loaded. -/
theorem ssGuard_nnf {R : Nat} (cx : Ctx) (t : Nat) (sf0 : Rec) (w0 w : World) (h0 : NoNewFail R w0 w)
    (hsf : isFailedR sf0 R = true → FailedNow R w0 t) :
    NoNewFail R w0 (ssGuard cx t sf0 w).2 ∧ (isFailedR (ssGuard cx t sf0 w).1 R = true → FailedNow R w0 t) := by
  unfold ssGuard
  split
  · dsimp only
    have hr : isFailedR (setOverride (ev w (.warnOverride t)) t sf0 cx.runid) R = true →
        FailedNow R w0 t := by
      intro h
      rw [isFailedR_none (setOverride_failed _ _ _ _)] at h; cases h
    exact ⟨NoNewFail.setRec' (h0.trans (NoNewFail.of_recs rfl)) t _ hr, hr⟩
  · exact ⟨h0, hsf⟩

/-- `start_self` ending with 0 records no failure. -/
theorem startSelf_nnf {R : Nat} (E : Engine) (hE : EngNNF E) (d : Defects) (cx : Ctx) (hcx : cx.runid = R) (t : Nat)
    (sf0 : Rec) (w0 w w' : World) (h0 : NoNewFail R w0 w) (hsf : isFailedR sf0 R = true → FailedNow R w0 t)
    (he : startSelf E d cx t sf0 w = (0, w')) : NoNewFail R w0 w' := by
  rw [startSelf_eq] at he
  obtain ⟨hg1, hg2⟩ := ssGuard_nnf (R := R) cx t sf0 w0 w h0 hsf
  generalize ssGuard cx t sf0 w = g at he hg1 hg2
  obtain ⟨sf, w1⟩ := g
  dsimp only at he hg1 hg2
  split at he
  · cases he
    refine NoNewFail.setRec' hg1 t _ (fun h => ?_)
    split at h
    · rw [isFailedR_none (setStatic_failed _ _ _ _)] at h; cases h
    · exact hg2 h
  · exact hg1.trans (ssBuild_nnf E hE d cx hcx t sf w1 w' he)

/-- A job that already failed in this run does not answer `done 0` to `redo-ifchange`. -/
theorem buildJob_zero_pre (E : Engine) (d : Defects) (cx : Ctx) (fuel t : Nat) (w w' : World)
    (hr : cx.isRedo = false) (he : buildJob E d cx fuel t w = (.done 0, w')) : ¬ FailedNow cx.runid w t := by
  intro hf
  have hf' : isFailedR (getRec w cx.runid t) cx.runid = true := by rw [isFailedR_getRec]; exact hf
  have hsb : shouldBuild cx fuel t w = (none, w) := by simp [shouldBuild, hr, hf']
  unfold buildJob at he
  rw [hsb] at he
  dsimp only at he
  split at he
  · cases he
  · simp [EXIT_TARGET_FAILED] at he

/-- **1(a)** A job that ends with `done 0` recorded no failure: no target is failed-in-this-run after it that
was not before. -/
theorem buildJob_nnf {R : Nat} (E : Engine) (hE : EngNNF E) (d : Defects) (cx : Ctx) (hcx : cx.runid = R) (fuel t : Nat)
    (w w' : World) (he : buildJob E d cx fuel t w = (.done 0, w')) : NoNewFail R w w' := by
  subst hcx
  unfold buildJob at he
  dsimp only at he
  have hs := shouldBuild_nnf cx fuel t w
  generalize shouldBuild cx fuel t w = sb at hs he
  obtain ⟨o, w1⟩ := sb
  dsimp only at hs
  have hst : ∀ w2, startSelf E d cx t (w.recs t) w1 = (0, w2) → NoNewFail cx.runid w w2 :=
    fun w2 h => startSelf_nnf E hE d cx rfl t (w.recs t) w w1 w2 hs (fun h => h) h
  cases o with
  | none =>
    dsimp only at he
    split at he
    · cases he
    · simp [EXIT_TARGET_FAILED] at he
  | some dr =>
    cases dr with
    | cyclic => cases he
    | clean => cases he; exact hs
    | dirty =>
      dsimp only at he
      generalize hss : startSelf E d cx t (w.recs t) w1 = r at he
      obtain ⟨rv, w2⟩ := r
      cases he
      exact hst w2 hss
    | need ts =>
      dsimp only at he
      split at he
      · generalize hss : startSelf E d cx t (w.recs t) w1 = r at he
        obtain ⟨rv, w2⟩ := r
        cases he
        exact hst w2 hss
      · have h1 := hE { cx with noOob := true, unlocked := false, isRedo := false, cycles := t :: cx.cycles,
                                parent := if d.oobRecordsDepsOnCaller then cx.parent else none }
          (if w1.oobRev then ts.eraseDups.reverse else ts.eraseDups) w1
        generalize E.ifchangeCmd _ (if w1.oobRev then ts.eraseDups.reverse else ts.eraseDups) w1 = r1 at h1 he
        obtain ⟨rv1, w2⟩ := r1
        dsimp only at h1
        split at he
        · rename_i heq
          cases heq
          have h2 := hE { cx with noOob := true, unlocked := true, isRedo := false }
            (if d.oobRebuildsDepsNotTarget then (if w1.oobRev then ts.eraseDups.reverse else ts.eraseDups) else [t]) w2
          dsimp only at h2
          simp only [Prod.mk.injEq, JobResult.done.injEq] at he
          obtain ⟨e1, e2⟩ := he
          subst e2
          exact (hs.trans (h1 rfl)).trans (h2 e1)
        · rename_i hne _
          cases he
          first | exact (hne rfl).elim | exact (hne _ rfl).elim

end RedoModel.Deps
