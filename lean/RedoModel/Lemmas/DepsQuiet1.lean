import RedoModel.Lemmas.DepsQuiet0
/-! Members of a settled set are found clean by the dirtiness check of a later run (both variants: the builder's
and `redo-ood`'s), which writes `checked` marks only. -/
namespace RedoModel.Deps.Rich

theorem goDeps_quiet {rank R R' S} (hR : R ≤ R') (P : Nat → Prop)
    (chk : World → List Nat → Nat → Rec → DR × World × List Nat)
    (hchk : ∀ w cache s snap, QSet rank R S w → S s → QSnap R w s snap →
      QExt R' w (chk w cache s snap).2.1 ∧
      ((chk w cache s snap).1 = .clean ∨ ((chk w cache s snap).1 = .cyclic ∧ ¬ P s))) (hc : Bool) (f : Nat) :
    ∀ (ds : List (Dep × Rec)) (w : World) (cache : List Nat), QSet rank R S w →
      (∀ p ∈ ds, (p.1.modeM = true → S p.1.source ∧ QSnap R w p.1.source p.2) ∧
        (p.1.modeM = false → existsF w p.1.source = false)) →
      QExt R' w (goDeps chk hc f ds w cache []).2.1 ∧
      ((goDeps chk hc f ds w cache []).1 = none ∨
        ((goDeps chk hc f ds w cache []).1 = some .cyclic ∧ ∃ p ∈ ds, p.1.modeM = true ∧ ¬ P p.1.source))
  | [], w, cache, _, _ => by simp [goDeps, QExt.refl]
  | (d, snap) :: ds, w, cache, hq, hds => by
    obtain ⟨hm1, hm0⟩ := hds (d, snap) (by simp)
    rw [goDeps]
    by_cases hm : d.modeM = true
    · simp only [hm, if_true]
      have h2 := hchk w cache d.source snap hq (hm1 hm).1 (hm1 hm).2
      generalize chk w cache d.source snap = r at h2
      obtain ⟨sub, w1, c1⟩ := r
      obtain ⟨hx, h2⟩ := h2
      dsimp only at hx h2
      rcases h2 with h2 | ⟨h2, h3⟩
      · subst h2
        have := goDeps_quiet hR P chk hchk hc f ds w1 c1 (hq.ext hx hR) (fun p hp => by
          obtain ⟨a, b⟩ := hds p (List.mem_cons_of_mem _ hp)
          exact ⟨fun h => ⟨(a h).1, (a h).2.ext hx⟩, fun h => by rw [hx.existsF]; exact b h⟩)
        dsimp only
        refine ⟨hx.trans this.1, ?_⟩
        rcases this.2 with h | ⟨h, p, hp, hpp⟩
        · exact Or.inl h
        · exact Or.inr ⟨h, p, List.mem_cons_of_mem _ hp, hpp⟩
      · subst h2
        exact ⟨hx, Or.inr ⟨rfl, (d, snap), by simp, hm, h3⟩⟩
    · have hm' : d.modeM = false := by simpa using hm
      simp only [hm', Bool.false_eq_true, if_false, hm0 hm']
      have := goDeps_quiet hR P chk hchk hc f ds w cache hq (fun p hp => hds p (List.mem_cons_of_mem _ hp))
      refine ⟨this.1, ?_⟩
      rcases this.2 with h | ⟨h, p, hp, hpp⟩
      · exact Or.inl h
      · exact Or.inr ⟨h, p, List.mem_cons_of_mem _ hp, hpp⟩

theorem QExt.mark {R' : Nat} {w w' : World} (f : Nat) (hx : QExt R' w w') :
    QExt R' w (setRec w' f { w.recs f with checked := some R' }) := by
  refine ⟨hx.same.trans (SameButRecs.setRec w' f _), fun x => ?_, hx.ran⟩
  by_cases h : x = f
  · subst h; right; simp [setRec]
  · simp only [setRec, h, if_false]; exact hx.recs x

theorem rec_ck_eq {q r : Rec} {c : Option Nat} {R' ch : Nat} {st : DStamp} (hre : r = { q with checked := c })
    (hch : q.changed = some ch) (hst : q.stamp = some st) (hfl : q.failed = none) :
    ({ row := r.row, isGenerated := r.isGenerated, isOverride := r.isOverride, checked := some R',
       changed := some ch, stamp := some st, csum := r.csum } : Rec) = { q with checked := some R' } := by
  subst hre; cases q; simp_all

theorem QExt.evWarn (R' : Nat) (w : World) (f : Nat) : QExt R' w (ev w (.warnOverride f)) := by
  refine ⟨SameButRecs.ev w _, fun _ => Or.inl rfl, fun t h => ?_⟩
  simp only [ev, List.mem_cons] at h
  rcases h with h | h
  · cases h
  · exact h

theorem isDirty_quiet {rank R R' S} (hR : R ≤ R') (ood : Bool) :
    ∀ (fuel f : Nat) (seen : List Nat) (w : World) (cache : List Nat) (pre : Option Rec) (mx : Nat),
    QSet rank R S w → S f → R ≤ mx → (∀ s, pre = some s → QSnap R w f s) →
    QExt R' w (isDirty ood R' fuel w cache f mx seen pre).2.1 ∧
    ((isDirty ood R' fuel w cache f mx seen pre).1 = .clean ∨
      ((isDirty ood R' fuel w cache f mx seen pre).1 = .cyclic ∧ ¬ FuelOk rank fuel seen f))
  | 0, f, seen, w, cache, pre, mx, _, _, _, _ => by
    simp only [isDirty]
    exact ⟨QExt.refl _ _, Or.inr ⟨trivial, fun h => by have := h.1; omega⟩⟩
  | fuel + 1, f, seen, w, cache, pre, mx, hq, hf, hmx, hpre => by
    have hqa := hq.mem f hf
    have hs : QSnap R w f (pre.getD (getRec w R' f)) := by
      cases pre with
      | none => simp only [Option.getD_none]; rw [getRec_ne w R' hqa.ne0]; exact QSnap.self hqa
      | some s => exact hpre s rfl
    rw [isDirty]
    by_cases hseen : f ∈ seen
    · simp only [hseen, if_true]
      exact ⟨QExt.refl _ _, Or.inr ⟨trivial, fun h => by have := h.2 f hseen; omega⟩⟩
    simp only [hseen, if_false]
    generalize pre.getD (getRec w R' f) = r at hs
    obtain ⟨⟨c, hre⟩, hmof⟩ := hs
    obtain ⟨ch, hch, hchle⟩ := hqa.ch
    have hfl : r.failed = none := by rw [hre]; exact hqa.failed
    have hrch : r.changed = some ch := by rw [hre]; exact hch
    have hst : r.stamp = some (readStamp w f) := by rw [hre]; exact hqa.stamp
    have hgen : genT r = genT (w.recs f) := by rw [hre]; rfl
    simp only [hfl, Option.isSome_none, Bool.false_eq_true, if_false, hrch]
    have hle : ¬ ch > mx := by omega
    simp only [hle, if_false]
    by_cases hck : (if ood = true then decide (f ∈ cache) else isCheckedR r R') = true
    · simp only [hck, if_true]
      exact ⟨QExt.refl _ _, Or.inl trivial⟩
    simp only [hck, hst, ne_eq, not_true_eq_false, if_false, Bool.false_eq_true]
    cases hg : genT r with
    | false =>
      have hnil : depsWithRecs w R' r f = [] := by
        unfold depsWithRecs depsOf
        rcases genT_false.1 hg with h | h <;> simp [h]
      rw [hnil]
      simp only [goDeps, List.isEmpty_nil, if_true]
      cases ood with
      | true =>
        simp only [Bool.not_true, Bool.and_false, Bool.false_eq_true, if_false, if_true, true_or, and_true]
        exact QExt.refl _ _
      | false =>
        simp only [Bool.not_false, Bool.and_true, Bool.false_eq_true, if_false, true_or, and_true]
        rw [rec_ck_eq hre hch hqa.stamp hqa.failed]
        split
        · exact QExt.mark f (QExt.evWarn R' w f)
        · exact QExt.mark f (QExt.refl R' w)
    | true =>
    have hmx' : R ≤ max ch (r.checked.getD 0) := by
      have := hmof hg; unfold Mof at this; rw [hrch] at this; simpa using this
    have hgo := goDeps_quiet (rank := rank) (R := R) (R' := R') (S := S) hR (FuelOk rank fuel (f :: seen))
      (fun w cache s snap => isDirty ood R' fuel w cache s (max ch (r.checked.getD 0)) (f :: seen) (some snap))
      (fun w1 c1 s snap hq1 hs1 hsn1 => isDirty_quiet hR ood fuel s (f :: seen) w1 c1 (some snap) _ hq1 hs1 hmx'
        (fun s' e => by cases e; exact hsn1))
      r.csum.isSome f (depsWithRecs w R' r f) w cache hq (by
        intro p hp
        obtain ⟨d, hd, rfl⟩ := List.mem_map.1 hp
        obtain ⟨_, hd1, hd2⟩ := mem_depsOf.1 hd
        have hgw : genT (w.recs f) = true := by rw [← hgen]; exact hg
        refine ⟨fun hm => ?_, fun hm => hqa.rowsC hgw d hd1 hd2 hm⟩
        have hS := hqa.rowsM hgw d hd1 hd2 hm
        have hqs := hq.mem _ hS
        refine ⟨hS, ?_⟩
        dsimp only
        rw [getRec_ne w R' hqs.ne0]
        exact QSnap.self hqs)
    generalize goDeps _ r.csum.isSome f _ w cache [] = res at hgo ⊢
    obtain ⟨o, w', c'⟩ := res
    obtain ⟨hx, hgo⟩ := hgo
    dsimp only at hx hgo
    rcases hgo with h | ⟨h, p, hp, hpm, hpf⟩
    · subst h
      dsimp only
      cases ood with
      | true =>
        simp only [Bool.not_true, Bool.and_false, Bool.false_eq_true, if_false, if_true, true_or, and_true]
        exact hx
      | false =>
        simp only [Bool.not_false, Bool.and_true, Bool.false_eq_true, if_false, true_or, and_true]
        rw [rec_ck_eq hre hch hqa.stamp hqa.failed]
        split
        · exact QExt.mark f (hx.trans (QExt.evWarn R' w' f))
        · exact QExt.mark f hx
    · subst h
      refine ⟨hx, Or.inr ⟨rfl, fun hfo => hpf ?_⟩⟩
      obtain ⟨d, hd, rfl⟩ := List.mem_map.1 hp
      obtain ⟨_, hd1, hd2⟩ := mem_depsOf.1 hd
      have hlt := hq.rowsLt d hd1
      rw [hd2] at hlt
      show rank d.source < fuel ∧ ∀ x ∈ f :: seen, rank d.source < rank x
      refine ⟨by have := hfo.1; omega, fun x hx => ?_⟩
      rcases List.mem_cons.1 hx with rfl | hx
      · exact hlt
      · have := hfo.2 x hx; omega

end RedoModel.Deps.Rich
