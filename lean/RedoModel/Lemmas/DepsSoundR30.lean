import RedoModel.Lemmas.DepsSoundR29
/-! Forced rebuild of a verified generated target: the record at the end, and `startSelf`. -/
namespace RedoModel.Deps.Rich
open RedoModel.Generated

theorem split_unique {w : World} : ∀ (pre pre' : List Nat) (dof dof' : Nat) (post post' : List Nat),
    pre ++ dof :: post = pre' ++ dof' :: post' → (∀ c ∈ pre, existsF w c = false) → existsF w dof = true →
    (∀ c ∈ pre', existsF w c = false) → existsF w dof' = true → pre = pre' ∧ dof = dof' ∧ post = post'
  | [], [], dof, dof', post, post', h, _, _, _, _ => by
    simp only [List.nil_append, List.cons.injEq] at h; exact ⟨rfl, h.1, h.2⟩
  | [], c :: pre', dof, dof', post, post', h, _, hd, hp', _ => by
    simp only [List.nil_append, List.cons_append, List.cons.injEq] at h
    have := hp' c (by simp); rw [← h.1, hd] at this; cases this
  | c :: pre, [], dof, dof', post, post', h, hp, _, _, hd' => by
    simp only [List.nil_append, List.cons_append, List.cons.injEq] at h
    have := hp c (by simp); rw [h.1, hd'] at this; cases this
  | c :: pre, c' :: pre', dof, dof', post, post', h, hp, hd, hp', hd' => by
    simp only [List.cons_append, List.cons.injEq] at h
    obtain ⟨e1, e2, e3⟩ := split_unique pre pre' dof dof' post post' h.2
      (fun x hx => hp x (List.mem_cons_of_mem _ hx)) hd (fun x hx => hp' x (List.mem_cons_of_mem _ hx)) hd'
    exact ⟨by rw [h.1, e1], e2, e3⟩

/-- A quiet update of a good file `t` (same content, still good, `VerR` unchanged) keeps `Ver`. -/
theorem Ver_upd_quiet {rank R X t w w'} (hi : Inv rank R X w) (h : OffT t w w')
    (hc : contentOf w' t = contentOf w t) (hgen : genT (w'.recs t) = genT (w.recs t))
    (hgood : Good w R t → Good w' R t) (hvr : VerR w' R t → VerR w R t)
    (hT : VerR w' R t → RecCur w' t ∧
      (genT (w'.recs t) = true → ∀ d ∈ w'.deps, d.target = t →
        (d.modeM = true → Good w' R d.source) ∧ (d.modeM = false → existsF w' d.source = false))) :
    Ver R w' := by
  have hfro : ∀ x, Good w R x → contentOf w' x = contentOf w x ∧ genT (w'.recs x) = genT (w.recs x) := by
    intro x _
    by_cases e : x = t
    · subst e; exact ⟨hc, hgen⟩
    · exact ⟨contentOf_congr (h.fs x e), by rw [h.recs x e]⟩
  have hup : ∀ x, Good w R x → UpToDateR w' x := fun x hx =>
    good_upToDate hi h.rules h.progs (fun y hy => contentOf_congr (h.fsPlain hi.base hy)) hfro (rank x + 1) x
      (Nat.lt_succ_self _) hx
  have hgd : ∀ x, Good w R x → Good w' R x := by
    intro x hx
    by_cases e : x = t
    · subst e; exact hgood hx
    · exact (h.good e R).2 hx
  intro f hv
  by_cases e : f = t
  · subst e
    exact ⟨(hT hv).1, hup f (Or.inl (hvr hv)), (hT hv).2⟩
  · have hv0 := (h.verR e R).1 hv
    obtain ⟨hrc, _, hcl⟩ := hi.ver f hv0
    refine ⟨(h.recCur e).2 hrc, hup f (Or.inl hv0), ?_⟩
    rw [h.recs f e]
    intro hg d hd hdt
    have hd0 := (h.rows d (by rw [hdt]; exact e)).1 hd
    obtain ⟨h1, h2⟩ := hcl hg d hd0 hdt
    exact ⟨fun hm => hgd _ (h1 hm), fun hm => by
      rw [existsF_congr (h.fsPlain hi.base (hi.base.cPlain d hd0 hm).1)]; exact h2 hm⟩

theorem KeepFields.hasRow {t out w w' s m} (hf : KeepFields t out w w') (h : HasRowU w t s m) : HasRow w' t s m := by
  obtain ⟨d, hd, h1, h2, h3, h4⟩ := h
  refine ⟨d, ?_, h1, h2, h3⟩
  rw [hf.deps, List.mem_filter]
  simp [hd, h4]

theorem recordIdem_spec {rank R X t w w' b po pre dof post} (hi : Inv rank R X w) (hv : VerR w R t)
    (hg : genT (w.recs t) = true) (hr : w.rules t = pre ++ dof :: post)
    (hpre : ∀ c ∈ pre, existsF w c = false ∧ HasRowU w t c false) (hdex : existsF w dof = true)
    (hdrow : HasRowU w t dof true) (hdecl : ∀ d ∈ (scriptAt w dof).ifchange.flatten, HasRowU w t d true)
    (halw : (scriptAt w dof).always = true → HasRowU w t alwaysId true)
    (hic : ∀ d ∈ (scriptAt w dof).ifcreate, HasRowU w t d false)
    (hcd : ∀ d ∈ (scriptAt w dof).cond, HasRowU w t d true ∨ (existsF w d = false ∧ HasRowU w t d false))
    (hf : KeepFields t (outOf w (scriptAt w dof)) w w') (hlt : rank t < b) :
    Inv rank R X w' ∧ VerR w' R t ∧ BExt rank R b po w w' := by
  obtain ⟨pre', dof', post', vs0⟩ := verR_script hi hv hg
  obtain ⟨e1, e2, e3⟩ := split_unique pre pre' dof dof' post post' (hr.symm.trans vs0.rules)
    (fun c hc => (hpre c hc).1) hdex (fun c hc => (vs0.pre c hc).1) vs0.dofEx
  subst e1 e2 e3
  have hexit := vs0.exit
  have hfn := vs0.noFail
  have hcont := vs0.content
  have hrne : w.rules t ≠ [] := by rw [hr]; simp
  have h0 : t ≠ alwaysId := fun e => hrne (e ▸ hi.base.rulesOk.1)
  have hrc := (hi.ver t hv).1
  have off : OffT t w w' := by
    refine ⟨hf.rules, hf.progs, hf.fs, fun h => absurd h hrne, hf.recs, fun d hd => ?_, hf.clock, hf.rc⟩
    rw [hf.deps, List.mem_filter]; simp [hd]
  have hsub : ∀ d ∈ w'.deps, d ∈ w.deps := fun d hd => by
    rw [hf.deps, List.mem_filter] at hd; exact hd.1
  have hne : ∀ x, rank x < rank t → x ≠ t := fun x hx e => by rw [e] at hx; exact Nat.lt_irrefl _ hx
  have hra := scriptAt_rich hi.base dof
  have hdne : ∀ d, (d ∈ (scriptAt w dof).ifchange.flatten ∨ d ∈ (scriptAt w dof).cond ∨ d ∈ (scriptAt w dof).ifcreate) →
      d ≠ t := fun d hd => hne d ((scriptAt_hyg hi.base (t := t) (dof := dof) (by rw [hr]; simp)).2.1 d hd).1
  have hrdne : ∀ d ∈ (scriptAt w dof).reads, d ≠ t := fun d hd => hdne d ((hra.2.1 d hd).imp id Or.inl)
  have hcontent : contentOf w' t = contentOf w t := by rw [hf.content, hcont]
  have hv' : VerR w' R t := by unfold VerR at hv ⊢; rw [hf.failed, hf.checked, hf.changed]; exact hv
  have hrc' : RecCur w' t := ⟨by rw [hf.failed]; exact hrc.1, by rw [hf.changed]; exact hrc.2.1, hf.stamp⟩
  have o := hi.base.recOk t
  have hok : RecOk R t w' := by
    refine ⟨?_, ?_, ?_, (fun h => by rw [hf.ovr] at h; cases h), ?_, fun e => absurd e h0, ?_, ?_, hf.fsB, ?_, ?_, ?_, ?_⟩
    · rw [hf.changed]; exact o.chLe
    · rw [hf.checked]; exact o.ckLe
    · rw [hf.csum]; exact o.noCsum
    · intro h; rw [hf.rules] at h; exact absurd h hrne
    · intro _; rw [hf.changed]; exact hrc.2.1
    · intro _ _ h; rw [hf.genT] at h; cases h
    · intro ms rest h
      rw [hf.stamp] at h
      cases hn : w'.fs t with
      | none => rw [readStamp_missing.2 hn] at h; cases h
      | some n =>
        have hrs : readStamp w' t = .st n.ms n.rest := by unfold readStamp; rw [hn]
        rw [hrs] at h; cases h
        exact ⟨hf.fsB n hn, fun n' hn' => by cases hn'; exact Or.inr ⟨rfl, Nat.le_refl _⟩⟩
    · rw [hf.checked, hf.failed]; exact o.ckFail
    · rw [hf.changed, hf.failed]; exact o.markFail
    · rw [hf.failed]; exact o.flLe
  have hdofP : w.rules dof = [] := (hi.base.rulesOk.2 t dof (by rw [hr]; simp)).1
  have hfsd := off.fsPlain hi.base hdofP
  have hmap : (scriptAt w dof).reads.map (contentOf w') = (scriptAt w dof).reads.map (contentOf w) :=
    List.map_congr_left (fun d hd => contentOf_congr (hf.fs d (hrdne d hd)))
  have hb' := Base_upd (X' := X) hi.base off hok (fun _ _ h => h) (fun d hd => hi.base.rowsLt d (hsub d hd))
    (fun d hd hm => by rw [off.rules]; exact hi.base.cPlain d (hsub d hd) hm)
    (hdet_quiet hcontent hf.changed (fun h => absurd hrc.2.2 h) (fun h => absurd hrc.1 h.1))
    (fun _ _ _ => by
      have hsc' : scriptAt w' dof = scriptAt w dof := scriptAt_congr hfsd hf.progs
      have hcand : ∀ c ∈ w.rules t, w'.fs c = w.fs c :=
        fun c hc => off.fsPlain hi.base (hi.base.rulesOk.2 t c hc).1
      have vs' : VScript w' t pre dof post := by
        refine ⟨by rw [hf.rules]; exact hr, fun c hc => ?_, by rw [existsF_congr hfsd]; exact hdex,
          hf.hasRow hdrow, ?_, ?_, by rw [hsc']; exact hexit, ?_, ?_, ?_, ?_, ?_⟩
        · exact ⟨by rw [existsF_congr (hcand c (by rw [hr]; simp [hc]))]; exact (hpre c hc).1,
            hf.hasRow (hpre c hc).2⟩
        · rw [hf.rules, firstEx_congr _ hcand]; exact vs0.first
        · rw [hsc']; exact fun d hd => hf.hasRow (hdecl d hd)
        · rw [hsc', ← hfn]; unfold failNowOf
          cases hfo : (scriptAt w dof).failIfOdd with
          | none => rfl
          | some f => simp only; rw [contentOf_congr (hf.fs f (hdne f (Or.inl (hra.2.2 f hfo))))]
        · rw [hsc', hf.content]; unfold outOf; rw [hmap]
        · rw [hsc']; exact fun ha => hf.hasRow (halw ha)
        · rw [hsc']; exact fun d hd => ⟨by
            rw [existsF_congr (hf.fs d (hdne d (Or.inr (Or.inr hd))))]; exact (vs0.ic d hd).1, hf.hasRow (hic d hd)⟩
        · rw [hsc']; intro d hd
          rcases hcd d hd with h | ⟨h1, h2⟩
          · exact Or.inl (hf.hasRow h)
          · exact Or.inr ⟨by rw [existsF_congr (hf.fs d (hdne d (Or.inr (Or.inl hd))))]; exact h1, hf.hasRow h2⟩
      refine vs'.recTruth (by rw [hsc']; exact hra) hf.stamp ?_
      rintro s ⟨d, hd, h1, h2, h3⟩ hgs hss
      have hd0 := hsub d hd
      have hgd : Good w R s := h2 ▸ ((hi.ver t hv).2.2 hg d hd0 h1).1 h3
      have hlt' : rank s < rank t := by have := hi.base.rowsLt d hd0; rwa [h1, h2] at this
      have e := hne s hlt'
      rw [hf.recs s e] at hss; rw [hf.fs s e]
      exact fs_none_of_cur (hgd.recCur hi).2.2 hss)
    (fun _ hs => Or.inl (fs_none_of_cur hf.stamp hs))
  have hver := Ver_upd_quiet hi off hcontent (by rw [hf.genT, hg]) (fun _ => Or.inl hv')
    (fun _ => hv) (fun _ => ⟨hrc', fun _ d hd hdt => by
      have hd0 := hsub d hd
      obtain ⟨h1, h2⟩ := (hi.ver t hv).2.2 hg d hd0 hdt
      have hlt' : rank d.source < rank t := hdt ▸ hi.base.rowsLt d hd0
      exact ⟨fun hm => (off.good (hne _ hlt') R).2 (h1 hm), fun hm => by
        rw [existsF_congr (hf.fs _ (hne _ hlt'))]; exact h2 hm⟩⟩)
  exact ⟨⟨hb', hi.Rpos, hver⟩, hv',
    off.toBExt hi.base hlt (fun _ => ⟨hv', hcontent, by rw [hf.genT, hg]⟩) (fun _ h => by rw [hg] at h; cases h)⟩

end RedoModel.Deps.Rich
