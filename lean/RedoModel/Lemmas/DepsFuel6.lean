import RedoModel.Lemmas.DepsFuel5
/-!
# C12 — the fuel of the engine is an artefact (part 6: jobs, commands, the engine)
-/
namespace RedoModel.Deps
open RedoModel.Generated

variable {nc : Bool}

/-- The two amounts of fuel handed to the dirtiness check are interchangeable: equal, or both enough. -/
def FuelOK (N f1 f2 : Nat) : Prop := f1 = f2 ∨ (N + 1 ≤ f1 ∧ N + 1 ≤ f2)

theorem shouldBuild_agree (N : Nat) (cx : Ctx) (f1 f2 t : Nat) (w : World) (hf : FuelOK N f1 f2) (ht : t < N)
    (hw : WInv nc N w) :
    shouldBuild cx f1 t w = shouldBuild cx f2 t w ∧ WInv nc N (shouldBuild cx f2 t w).2 ∧
    (∀ ts, (shouldBuild cx f2 t w).1 = some (.need ts) → nc = false ∧ ∀ x ∈ ts, x < N) := by
  have hfr := isDirty_frame false cx.runid f2 w [] t cx.runid [] none
  have hnc : nc = true → NoCsum (isDirty false cx.runid f2 w [] t cx.runid [] none).2.1 ∧
      ∀ ts, (isDirty false cx.runid f2 w [] t cx.runid [] none).1 ≠ .need ts :=
    fun hn => isDirty_nocsum false cx.runid f2 w [] t cx.runid [] none (hw.nocsum hn) (fun _ h => by cases h)
  have hwd : WInv nc N (isDirty false cx.runid f2 w [] t cx.runid [] none).2.1 :=
    ⟨hw.pos, hw.deps.of_same hfr, fun t c hc => hw.rules t c (hfr.2.2.2.2.2.2 ▸ hc),
      fun c sc hs => hw.progs c sc (hfr.2.2.2.2.2.1 ▸ hs), fun hn => (hnc hn).1⟩
  refine ⟨?_, ?_, ?_⟩
  · rcases hf with e | ⟨h1, h2⟩
    · rw [e]
    · unfold shouldBuild
      rw [isDirty_fuel_eq false cx.runid N f1 f2 w [] t cx.runid [] none hw.deps ht List.nodup_nil
        (fun x hx => by cases hx) (by simp; omega) (by simp; omega)]
  · unfold shouldBuild
    split
    · exact hw
    · dsimp only
      split
      · exact hw
      · exact hwd
  · intro ts hts
    unfold shouldBuild at hts
    split at hts
    · cases hts
    · dsimp only at hts
      split at hts
      · cases hts
      · have hb := isDirty_below false cx.runid N f2 w [] t cx.runid [] none hw.deps ht
        generalize isDirty false cx.runid f2 w [] t cx.runid [] none = r at hb hts hnc
        obtain ⟨dr, w1, c⟩ := r
        dsimp only at hb hts hnc
        simp only [Option.some.injEq] at hts
        have hfin : dr = .need ts → nc = false ∧ ∀ x ∈ ts, x < N := by
          intro e
          subst e
          refine ⟨?_, hb⟩
          cases hn : nc with
          | false => rfl
          | true => exact absurd rfl ((hnc hn).2 ts)
        split at hts
        · split at hts
          · cases hts
          · exact hfin hts
        · exact hfin hts

/-- A refused request is a failure, at every level. -/
def CycNZ (E : Engine) : Prop :=
  ∀ cx ts w, cx.unlocked = false → (∃ x ∈ ts, x ∈ cx.cycles) → (E.ifchangeCmd cx ts w).1 ≠ 0

/-- What a job needs of the two engines for its out-of-band rebuild (`redo-unlocked`): agreement in
every context with the same ancestors and no further out-of-band level. -/
def AgreeOob (nc : Bool) (N : Nat) (E1 E2 : Engine) (cx : Ctx) (t : Nat) : Prop :=
  ∀ cx0 : Ctx, (cx0.cycles = cx.cycles ∨ (cx0.cycles = t :: cx.cycles ∧ cx0.unlocked = false)) →
    cx0.noOob = true → ∀ ts, (∀ x ∈ ts, x < N) →
    (cx0.unlocked = true → ∀ x ∈ ts, x ∉ cx.cycles) → ∀ w, WInv nc N w →
    Agree nc N (E1.ifchangeCmd cx0 ts w) (E2.ifchangeCmd cx0 ts w)

theorem buildJob_agree (N : Nat) (E1 E2 : Engine) (d : Defects) (cx : Ctx) (f1 f2 t : Nat) (w : World)
    (hf : FuelOK N f1 f2) (ht : t < N) (htc : t ∉ cx.cycles) (hw : WInv nc N w)
    (hS : AgreeAt nc N E1 E2 { runid := cx.runid, parent := some t, cycles := t :: cx.cycles, keepGoing := cx.keepGoing, crash := cx.crash })
    (hO : nc = false → cx.noOob = false → AgreeOob nc N E1 E2 cx t) (hC : nc = false → cx.noOob = false → CycNZ E1) :
    buildJob E1 d cx f1 t w = buildJob E2 d cx f2 t w ∧ WInv nc N (buildJob E1 d cx f1 t w).2 := by
  obtain ⟨hsb, hsw, hsn⟩ := shouldBuild_agree N cx f1 f2 t w hf ht hw
  unfold buildJob
  dsimp only
  rw [hsb]
  generalize shouldBuild cx f2 t w = sb at hsw hsn
  obtain ⟨o, w1⟩ := sb
  dsimp only at hsw hsn
  have hst := startSelf_agree N E1 E2 d cx t (w.recs t) w1 hS (fun hn => hw.nocsum hn t) hsw
  cases o with
  | none => exact ⟨rfl, hsw⟩
  | some dr =>
    cases dr with
    | cyclic => exact ⟨rfl, hsw⟩
    | clean => exact ⟨rfl, hsw⟩
    | dirty =>
      dsimp only
      rw [hst.1]
      exact ⟨rfl, hst.1 ▸ hst.2⟩
    | need ts =>
      dsimp only
      obtain ⟨hncf, hts⟩ := hsn ts rfl
      by_cases hno : cx.noOob = true
      · simp only [hno, if_true]
        rw [hst.1]
        exact ⟨rfl, hst.1 ▸ hst.2⟩
      · simp only [hno, Bool.false_eq_true, if_false]
        have hO' := hO hncf (by simpa using hno)
        have hts' : ∀ x ∈ (if w1.oobRev then ts.eraseDups.reverse else ts.eraseDups), x < N := by
          intro x hx
          split at hx
          · exact hts x (List.mem_eraseDups.1 (List.mem_reverse.1 hx))
          · exact hts x (List.mem_eraseDups.1 hx)
        generalize (if w1.oobRev then ts.eraseDups.reverse else ts.eraseDups) = ts' at hts'
        have h1 := hO' { cx with noOob := true, unlocked := false, isRedo := false, cycles := t :: cx.cycles, parent := if d.oobRecordsDepsOnCaller then cx.parent else none }
          (Or.inr ⟨rfl, rfl⟩) rfl ts' hts' (fun h => by cases h) w1 hsw
        have hnz := hC hncf (by simpa using hno) { cx with noOob := true, unlocked := false, isRedo := false, cycles := t :: cx.cycles, parent := if d.oobRecordsDepsOnCaller then cx.parent else none } ts' w1 rfl
        obtain ⟨he1, hw2⟩ := h1
        rw [he1] at hw2 hnz ⊢
        generalize E2.ifchangeCmd _ ts' w1 = r1 at hw2 hnz ⊢
        obtain ⟨rv1, w2⟩ := r1
        dsimp only at hw2 hnz
        split
        · rename_i heq
          cases heq
          have hsec : ∀ x ∈ (if d.oobRebuildsDepsNotTarget then ts' else [t]), x < N ∧ x ∉ cx.cycles := by
            intro x hx
            split at hx
            · exact ⟨hts' x hx, fun hc => hnz ⟨x, hx, List.mem_cons_of_mem _ hc⟩ rfl⟩
            · simp only [List.mem_singleton] at hx
              subst hx
              exact ⟨ht, htc⟩
          have h2 := hO' { cx with noOob := true, unlocked := true, isRedo := false } (Or.inl rfl) rfl _
            (fun x hx => (hsec x hx).1) (fun _ x hx => (hsec x hx).2) w2 hw2
          exact ⟨congrArg (fun r : Status × World => (JobResult.done r.1, r.2)) h2.1, h2.2⟩
        · rename_i heq
          cases heq
          exact ⟨rfl, hw2⟩


/-! ### Contexts and their level -/

/-- A context the engine can be in: the ancestors are distinct ids below `N`, and `redo-unlocked`'s
second phase never starts another out-of-band rebuild. -/
structure CtxOK (N : Nat) (cx : Ctx) : Prop where
  nodup : cx.cycles.Nodup
  below : ∀ x ∈ cx.cycles, x < N
  unl : cx.unlocked = true → cx.noOob = true

/-- How many further levels of nested commands a context can still need: two per id that is not yet an
ancestor (a script level and the out-of-band level in front of it). -/
def lvl (nc : Bool) (N : Nat) (cx : Ctx) : Nat :=
  if nc then N - cx.cycles.length else 2 * (N - cx.cycles.length) + (if cx.noOob then 0 else 1)

/-- The engines agree on every command strictly below level `L`. -/
def AgreeBelow (nc : Bool) (N : Nat) (E1 E2 : Engine) (L : Nat) : Prop :=
  ∀ cx ts w, CtxOK N cx → (∀ t ∈ ts, t < N) → (cx.unlocked = true → ∀ t ∈ ts, t ∉ cx.cycles) → WInv nc N w →
    lvl nc N cx < L → Agree nc N (E1.ifchangeCmd cx ts w) (E2.ifchangeCmd cx ts w)

theorem AgreeBelow.script {N : Nat} {E1 E2 : Engine} {cx : Ctx} (hA : AgreeBelow nc N E1 E2 (lvl nc N cx)) (hcx : CtxOK N cx)
    {t : Nat} (ht : t < N) (htc : t ∉ cx.cycles) :
    AgreeAt nc N E1 E2 { runid := cx.runid, parent := some t, cycles := t :: cx.cycles, keepGoing := cx.keepGoing, crash := cx.crash } := by
  intro c w hc hw
  have hroom := fresh_room ht htc hcx.nodup hcx.below
  refine hA _ c w ⟨List.nodup_cons.2 ⟨htc, hcx.nodup⟩, ?_, fun h => by cases h⟩ hc (fun h => by cases h) hw ?_
  · intro x hx
    rcases List.mem_cons.1 hx with e | e
    · exact e ▸ ht
    · exact hcx.below x e
  · simp only [lvl, List.length_cons, Bool.false_eq_true, if_false]
    repeat' split
    all_goals omega

theorem AgreeBelow.oob {N : Nat} {E1 E2 : Engine} {cx : Ctx} (hA : AgreeBelow nc N E1 E2 (lvl nc N cx)) (hcx : CtxOK N cx)
    (hnc : nc = false) (hno : cx.noOob = false) {t : Nat} (ht : t < N) (htc : t ∉ cx.cycles) :
    AgreeOob nc N E1 E2 cx t := by
  intro cx0 hcy hno0 ts hts hun w hw
  rcases hcy with hcy | ⟨hcy, hu0⟩
  · refine hA cx0 ts w ⟨hcy ▸ hcx.nodup, hcy ▸ hcx.below, fun _ => hno0⟩ hts (fun h => hcy ▸ hun h) hw ?_
    simp only [lvl, hcy, hno0, hno, hnc, if_true, Bool.false_eq_true, if_false]
    omega
  · refine hA cx0 ts w ⟨hcy ▸ List.nodup_cons.2 ⟨htc, hcx.nodup⟩, ?_, fun _ => hno0⟩ hts
      (fun h => by rw [hu0] at h; cases h) hw ?_
    · intro x hx
      rw [hcy] at hx
      rcases List.mem_cons.1 hx with e | e
      · exact e ▸ ht
      · exact hcx.below x e
    · simp only [lvl, hcy, hno0, hno, hnc, if_true, Bool.false_eq_true, if_false, List.length_cons]
      omega

theorem runTargets_agree (N : Nat) (E1 E2 : Engine) (d : Defects) (cx : Ctx) (f1 f2 : Nat) (hf : FuelOK N f1 f2)
    (hcx : CtxOK N cx) (hA : AgreeBelow nc N E1 E2 (lvl nc N cx)) (hC : nc = false → cx.noOob = false → CycNZ E1) :
    ∀ (ts seen : List Nat) (e : Bool) (w : World), (∀ t ∈ ts, t < N) → (cx.unlocked = true → ∀ t ∈ ts, t ∉ cx.cycles) →
      WInv nc N w → Agree nc N (runTargets E1 d cx f1 ts seen e w) (runTargets E2 d cx f2 ts seen e w)
  | [], _, _, w, _, _, hw => by
    rw [runTargets, runTargets]
    exact ⟨rfl, hw⟩
  | t :: ts, seen, e, w, hts, hun, hw => by
    have ht : t < N := hts t (by simp)
    have hts' : ∀ x ∈ ts, x < N := fun x hx => hts x (by simp [hx])
    have hun' : cx.unlocked = true → ∀ x ∈ ts, x ∉ cx.cycles := fun h x hx => hun h x (by simp [hx])
    rw [runTargets, runTargets]
    by_cases hs : t ∈ seen
    · simp only [hs, if_true]
      exact runTargets_agree N E1 E2 d cx f1 f2 hf hcx hA hC ts seen e w hts' hun' hw
    · simp only [hs, if_false]
      by_cases hgo : (e && !cx.keepGoing) = true
      · simp only [hgo, if_true]
        exact ⟨rfl, hw⟩
      · simp only [hgo, Bool.false_eq_true, if_false]
        by_cases hcy : (!cx.unlocked && decide (t ∈ cx.cycles)) = true
        · simp only [hcy, if_true]
          exact ⟨rfl, hw.addKnown t⟩
        · simp only [hcy, Bool.false_eq_true, if_false]
          have htc : t ∉ cx.cycles := by
            cases hu : cx.unlocked with
            | true => exact hun hu t (by simp)
            | false =>
              intro hc
              apply hcy
              simp [hu, hc]
          obtain ⟨hje, hjw⟩ := buildJob_agree N E1 E2 d cx f1 f2 t (addKnown w t) hf ht htc (hw.addKnown t)
            (hA.script hcx ht htc) (fun hnc hno => hA.oob hcx hnc hno ht htc) hC
          rw [hje] at hjw ⊢
          generalize buildJob E2 d cx f2 t (addKnown w t) = r at hjw ⊢
          obtain ⟨jr, w1⟩ := r
          cases jr with
          | abort code => exact ⟨rfl, hjw⟩
          | done rv =>
            dsimp only
            split
            · exact ⟨rfl, hjw⟩
            · exact runTargets_agree N E1 E2 d cx f1 f2 hf hcx hA hC ts (t :: seen) _ w1 hts' hun' hjw

theorem ifchangeWith_agree (N : Nat) (E1 E2 : Engine) (d : Defects) (cx : Ctx) (f1 f2 : Nat) (hf : FuelOK N f1 f2)
    (hcx : CtxOK N cx) (hA : AgreeBelow nc N E1 E2 (lvl nc N cx)) (hC : nc = false → cx.noOob = false → CycNZ E1) (ts : List Nat) (w : World)
    (hts : ∀ t ∈ ts, t < N) (hun : cx.unlocked = true → ∀ t ∈ ts, t ∉ cx.cycles) (hw : WInv nc N w) :
    Agree nc N (ifchangeWith E1 d f1 cx ts w) (ifchangeWith E2 d f2 cx ts w) := by
  unfold ifchangeWith
  cases hp : cx.parent with
  | none =>
    simp only [Bool.false_eq_true, if_false]
    exact runTargets_agree N E1 E2 d cx f1 f2 hf hcx hA hC ts [] false w hts hun hw
  | some p =>
    dsimp only
    split
    · exact ⟨rfl, hw⟩
    · apply runTargets_agree N E1 E2 d cx f1 f2 hf hcx hA hC ts [] false _ hts hun
      split
      · exact hw
      · exact WInv.foldl_addDep p true ts _ hts (hw.addKnown p)

end RedoModel.Deps
