import RedoModel.DoFiles
import RedoModel.Lemmas.Paths
/-!
Lemmas about the `.do` rule enumeration (`RedoModel/DoFiles.lean`): the order of the candidate list,
absence of duplicates, the script arguments and the choice made by `findDoFile`.
Final statements are in `Props/C13b.lean`.
-/
namespace RedoModel.DoFiles
open RedoModel.Paths

/-- A directory component of a cleaned absolute path: non-empty, no `/`, neither `.` nor `..`. -/
def NormComp (c : List Char) : Prop := GoodComp c ∧ c ≠ dot ∧ c ≠ dotdot

theorem NormComp.good {c} (h : NormComp c) : GoodComp c := h.1

/-! ### Path lemmas -/

theorem getLast_joinSlash (ds : List (List Char)) (hne : ds ≠ []) (h : ∀ c ∈ ds, GoodComp c) :
    ∃ l, (joinSlash ds).getLast? = some l ∧ l ≠ '/' := by
  induction ds with
  | nil => exact absurd rfl hne
  | cons c cs ih =>
    cases cs with
    | nil =>
      have hc := h c (by simp)
      simp only [joinSlash]
      cases hl : c.getLast? with
      | none => rw [List.getLast?_eq_none_iff] at hl; exact absurd hl hc.1
      | some l =>
        refine ⟨l, rfl, ?_⟩
        intro e; subst e
        exact hc.2 (List.mem_of_getLast? hl)
    | cons d ds =>
      obtain ⟨l, hl, hne'⟩ := ih (by simp) (fun x hx => h x (by simp [hx]))
      refine ⟨l, ?_, hne'⟩
      simp only [joinSlash] at hl ⊢
      rw [List.getLast?_append, List.getLast?_cons, hl]
      simp

theorem joinSlash_append (ds es : List (List Char)) (hd : ds ≠ []) (he : es ≠ []) :
    joinSlash (ds ++ es) = joinSlash ds ++ '/' :: joinSlash es := by
  induction ds with
  | nil => exact absurd rfl hd
  | cons c cs ih =>
    cases cs with
    | nil =>
      cases es with
      | nil => exact absurd rfl he
      | cons e es => simp [joinSlash]
    | cons d ds =>
      have := ih (by simp)
      simp only [List.cons_append] at this ⊢
      simp only [joinSlash, this, List.append_assoc, List.cons_append]

theorem joinSlash_snoc_append (ds : List (List Char)) (b e : List Char) :
    joinSlash (ds ++ [b]) ++ e = joinSlash (ds ++ [b ++ e]) := by
  cases ds with
  | nil => simp [joinSlash]
  | cons c cs =>
    rw [joinSlash_append _ _ (by simp) (by simp), joinSlash_append _ _ (by simp) (by simp)]
    simp [joinSlash]

theorem pushPath_nil (x : List Char) : pushPath [] x = x := by
  unfold pushPath; split <;> simp

theorem pushPath_joinSlash (ds : List (List Char)) (x : List Char) (h : ∀ c ∈ ds, GoodComp c)
    (hx : rooted x = false) : pushPath (joinSlash ds) x = joinSlash (ds ++ [x]) := by
  by_cases hd : ds = []
  · subst hd; simp [joinSlash, pushPath_nil]
  · obtain ⟨l, hl, hne⟩ := getLast_joinSlash ds hd h
    have hnn := joinSlash_ne_nil ds hd h
    rw [joinSlash_append _ _ hd (by simp)]
    unfold pushPath
    simp [hx, hl, hne, hnn, joinSlash]

theorem pushPath_render (ds : List (List Char)) (x : List Char) (h : ∀ c ∈ ds, GoodComp c)
    (hx : rooted x = false) : pushPath (render true ds) x = render true (ds ++ [x]) := by
  by_cases hd : ds = []
  · subst hd; simp [render, joinSlash, pushPath, hx]
  · obtain ⟨l, hl, hne⟩ := getLast_joinSlash ds hd h
    have hnn := joinSlash_ne_nil ds hd h
    simp only [render, if_true]
    rw [joinSlash_append _ _ hd (by simp)]
    unfold pushPath
    have : ('/' :: joinSlash ds).getLast? = some l := by
      rw [List.getLast?_cons, hl]; rfl
    simp [hx, this, hne, joinSlash]

theorem joinSlash_snoc_join (ds es : List (List Char)) (he : es ≠ []) :
    joinSlash (ds ++ [joinSlash es]) = joinSlash (ds ++ es) := by
  by_cases hd : ds = []
  · subst hd; simp [joinSlash]
  · rw [joinSlash_append _ _ hd (by simp), joinSlash_append _ _ hd he]; simp [joinSlash]

/-- `$1`-style relative paths rejoin with the directory they are relative to. -/
theorem rejoin (dirs : List (List Char)) (k : Nat) (x : List Char)
    (h : ∀ c ∈ dirs, GoodComp c) (hx : GoodComp x) :
    pushPath (render true (dirs.take k)) (joinSlash (dirs.drop k ++ [x])) = render true (dirs ++ [x]) := by
  have hr : rooted (joinSlash (dirs.drop k ++ [x])) = false := by
    apply rooted_joinSlash _ (by simp)
    intro c hc
    rcases List.mem_append.1 hc with hc | hc
    · exact h c (List.mem_of_mem_drop hc)
    · simp at hc; subst hc; exact hx
  rw [pushPath_render _ _ (fun c hc => h c (List.mem_of_mem_take hc)) hr]
  simp only [render, if_true]
  rw [joinSlash_snoc_join _ _ (by simp), ← List.append_assoc, List.take_append_drop]

theorem nstack_of_norm (root : Bool) (st : List (List Char)) (h : ∀ c ∈ st, c ≠ dot ∧ c ≠ dotdot) :
    NStack root st := by
  induction st with
  | nil => exact .dds (by intro x hx; simp at hx) (fun _ => rfl)
  | cons c cs ih =>
    exact .real (h c (by simp)).1 (h c (by simp)).2 (ih (fun x hx => h x (by simp [hx])))

/-- A rendered list of normal components is a fixed point of `normpath`. -/
theorem normpath_render (cs : List (List Char)) (h : ∀ c ∈ cs, NormComp c) :
    normpath (render true cs) = render true cs := by
  have hg : ∀ c ∈ cs, GoodComp c := fun c hc => (h c hc).1
  rw [normpath_def, rooted_render hg]
  have : comps (render true cs) = cs := by
    simp only [render, if_true]; exact comps_slash_joinSlash cs hg
  rw [this, cleanComps_id]
  unfold NormalComps
  exact nstack_of_norm _ _ (fun c hc => (h c (List.mem_reverse.1 hc)).2)

/-- Rendering is injective on slash-free components (last component singled out). -/
theorem render_snoc_inj (ds ds' : List (List Char)) (x x' : List Char)
    (h : ∀ c ∈ ds, '/' ∉ c) (h' : ∀ c ∈ ds', '/' ∉ c) (hx : '/' ∉ x) (hx' : '/' ∉ x')
    (e : render true (ds ++ [x]) = render true (ds' ++ [x'])) : ds = ds' ∧ x = x' := by
  simp only [render, if_true, List.cons.injEq, true_and] at e
  have e2 := congrArg splitSlash e
  rw [splitSlash_joinSlash _ (by simp), splitSlash_joinSlash _ (by simp)] at e2
  · have := List.append_inj' e2 rfl
    exact ⟨this.1, by simpa using this.2⟩
  · intro c hc
    rcases List.mem_append.1 hc with hc | hc
    · exact h' c hc
    · simp at hc; subst hc; exact hx'
  · intro c hc
    rcases List.mem_append.1 hc with hc | hc
    · exact h c hc
    · simp at hc; subst hc; exact hx

/-! ### Structure of the candidate list -/

/-- The (base, extension) pairs of the default rules: every dot cut, then the empty extension. -/
def cuts' (f : List Char) : List (List Char × List Char) := dotCuts f ++ [(f, [])]

/-- The default-rule candidate in the ancestor `dirs.take k` for the cut `f = b ++ e`. -/
def mkCand (dirs : List (List Char)) (k : Nat) (b e : List Char) : Cand :=
  { doDir := render true (dirs.take k), doFile := "default".toList ++ e ++ ".do".toList,
    baseDir := joinSlash (dirs.drop k), baseName := pushPath (joinSlash (dirs.drop k)) b, ext := e }

/-- The specific candidate `<dir>/<f>.do`. -/
def specCand (dirs : List (List Char)) (f : List Char) : Cand :=
  { doDir := render true dirs, doFile := f ++ ".do".toList, baseDir := [], baseName := f, ext := [] }

theorem defaultDoFiles_eq (f : List Char) :
    defaultDoFiles f = (cuts' f).map (fun p => ("default".toList ++ p.2 ++ ".do".toList, p.1, p.2)) := by
  unfold defaultDoFiles cuts'
  rw [List.map_append]
  rfl

theorem candidates_eq (dirs : List (List Char)) (f : List Char) :
    candidates dirs f = specCand dirs f ::
      (List.range (dirs.length + 1)).reverse.flatMap
        (fun k => (cuts' f).map (fun p => mkCand dirs k p.1 p.2)) := by
  unfold candidates dirSplits
  rw [List.flatMap_map]
  congr 1
  congr 1
  funext k
  unfold candsIn
  rw [defaultDoFiles_eq, List.map_map]
  rfl

theorem mem_dotCuts {f b e : List Char} (h : (b, e) ∈ dotCuts f) : f = b ++ e ∧ e.head? = some '.' := by
  induction f generalizing b with
  | nil => simp [dotCuts] at h
  | cons c cs ih =>
    simp only [dotCuts] at h
    have hrest : (b, e) ∈ (dotCuts cs).map (fun x => (c :: x.1, x.2)) → c :: cs = b ++ e ∧ e.head? = some '.' := by
      intro hm
      rw [List.mem_map] at hm
      obtain ⟨⟨b', e'⟩, hm, heq⟩ := hm
      simp only [Prod.mk.injEq] at heq
      obtain ⟨rfl, rfl⟩ := heq
      obtain ⟨h1, h2⟩ := ih hm
      exact ⟨by simp [h1], h2⟩
    split at h
    · rename_i hc
      rcases List.mem_cons.1 h with h | h
      · simp only [Prod.mk.injEq] at h
        obtain ⟨rfl, rfl⟩ := h
        simp [hc]
      · exact hrest h
    · exact hrest h

theorem dotCuts_of_cut (b e : List Char) (he : e.head? = some '.') : (b, e) ∈ dotCuts (b ++ e) := by
  induction b with
  | nil =>
    cases e with
    | nil => simp at he
    | cons c cs =>
      simp only [List.head?_cons, Option.some.injEq] at he
      subst he
      simp [dotCuts]
  | cons c b ih =>
    simp only [List.cons_append, dotCuts]
    have : (c :: b, e) ∈ (dotCuts (b ++ e)).map (fun x => (c :: x.1, x.2)) :=
      List.mem_map.2 ⟨(b, e), ih, rfl⟩
    split
    · exact List.mem_cons_of_mem _ this
    · exact this

theorem mem_cuts' {f b e : List Char} (h : (b, e) ∈ cuts' f) :
    f = b ++ e ∧ (e = [] ∨ e.head? = some '.') := by
  unfold cuts' at h
  rcases List.mem_append.1 h with h | h
  · exact ⟨(mem_dotCuts h).1, .inr (mem_dotCuts h).2⟩
  · simp only [List.mem_singleton, Prod.mk.injEq] at h
    obtain ⟨rfl, rfl⟩ := h
    simp

theorem dotCuts_pairwise (f : List Char) :
    (dotCuts f).Pairwise (fun x y => y.2.length < x.2.length) := by
  induction f with
  | nil => simp [dotCuts]
  | cons c cs ih =>
    simp only [dotCuts]
    have hrest : ((dotCuts cs).map (fun x => (c :: x.1, x.2))).Pairwise (fun x y => y.2.length < x.2.length) := by
      rw [List.pairwise_map]; exact ih
    split
    · rw [List.pairwise_cons]
      refine ⟨?_, hrest⟩
      intro a ha
      rw [List.mem_map] at ha
      obtain ⟨⟨b', e'⟩, hm, rfl⟩ := ha
      have := (mem_dotCuts hm).1
      have hl := congrArg List.length this
      simp only [List.length_append] at hl
      simp only [List.length_cons]
      omega
    · exact hrest

theorem cuts'_pairwise (f : List Char) :
    (cuts' f).Pairwise (fun x y => y.2.length < x.2.length) := by
  unfold cuts'
  rw [List.pairwise_append]
  refine ⟨dotCuts_pairwise f, by simp, ?_⟩
  intro a ha b hb
  simp only [List.mem_singleton] at hb
  subst hb
  obtain ⟨b', e'⟩ := a
  have := (mem_dotCuts ha).2
  cases e' with
  | nil => simp at this
  | cons => simp

theorem mem_candidates {dirs : List (List Char)} {f : List Char} {c : Cand} :
    c ∈ candidates dirs f ↔ c = specCand dirs f ∨
      ∃ k, k ≤ dirs.length ∧ ∃ b e, (b, e) ∈ cuts' f ∧ c = mkCand dirs k b e := by
  rw [candidates_eq, List.mem_cons, List.mem_flatMap]
  constructor
  · rintro (h | ⟨k, hk, hm⟩)
    · exact .inl h
    · right
      rw [List.mem_map] at hm
      obtain ⟨⟨b, e⟩, hp, rfl⟩ := hm
      refine ⟨k, ?_, b, e, hp, rfl⟩
      simp at hk; omega
  · rintro (h | ⟨k, hk, b, e, hp, rfl⟩)
    · exact .inl h
    · right
      refine ⟨k, by simp; omega, ?_⟩
      exact List.mem_map.2 ⟨(b, e), hp, rfl⟩

/-- The specific candidate is also of the `mkCand` shape except for its file name. -/
theorem specCand_eq (dirs : List (List Char)) (f : List Char) :
    specCand dirs f = { mkCand dirs dirs.length f [] with doFile := f ++ ".do".toList } := by
  simp [specCand, mkCand, joinSlash, pushPath_nil]

/-! ### Order -/

/-- Priority key of a candidate, computed from its fields only (`dirs`, `f` are the target):

* first component — how many levels above the target's directory the script lives:
  `dirs.length - (number of path components of c.doDir)`; `0` for the target's own directory,
  `dirs.length` for the root;
* second component — rank within a directory: `0` when the file name is *not* of the default-rule
  form `"default" ++ c.ext ++ ".do"` (the specific script `<f>.do`); otherwise
  `f.length + 1 - c.ext.length`, i.e. the longer the matched extension the smaller the rank, and
  `default.do` (`ext = ""`) gets the largest rank `f.length + 1`. -/
def prio (dirs : List (List Char)) (f : List Char) (c : Cand) : Nat × Nat :=
  (dirs.length - (comps c.doDir).length,
   if c.doFile = "default".toList ++ c.ext ++ ".do".toList then f.length + 1 - c.ext.length else 0)

/-- Strict lexicographic order on pairs of naturals. -/
def PLt (a b : Nat × Nat) : Prop := a.1 < b.1 ∨ (a.1 = b.1 ∧ a.2 < b.2)

theorem PLt_irrefl (a : Nat × Nat) : ¬ PLt a a := by
  unfold PLt; omega

theorem prio_mk (dirs : List (List Char)) (f : List Char) (k : Nat) (b e : List Char)
    (h : ∀ c ∈ dirs, GoodComp c) (hk : k ≤ dirs.length) :
    prio dirs f (mkCand dirs k b e) = (dirs.length - k, f.length + 1 - e.length) := by
  unfold prio mkCand
  simp only [if_true, render]
  rw [comps_slash_joinSlash _ (fun c hc => h c (List.mem_of_mem_take hc)), List.length_take]
  rw [Nat.min_eq_left hk]

theorem prio_spec (dirs : List (List Char)) (f : List Char) (h : ∀ c ∈ dirs, GoodComp c) :
    prio dirs f (specCand dirs f) = (0, if f = "default".toList then f.length + 1 else 0) := by
  unfold prio specCand
  simp only [render, if_true]
  rw [comps_slash_joinSlash _ h]
  simp only [Nat.sub_self, List.append_nil, List.length_nil, Nat.sub_zero, List.append_cancel_right_eq]

/-- The default-rule candidates (everything after the specific one) are strictly sorted. -/
theorem order_defaults (dirs : List (List Char)) (f : List Char) (h : ∀ c ∈ dirs, GoodComp c) :
    ((List.range (dirs.length + 1)).reverse.flatMap
        (fun k => (cuts' f).map (fun p => mkCand dirs k p.1 p.2))).Pairwise
      (fun a b => PLt (prio dirs f a) (prio dirs f b)) := by
  rw [List.pairwise_flatMap]
  constructor
  · intro k hk
    have hk' : k ≤ dirs.length := by simp at hk; omega
    rw [List.pairwise_map]
    refine List.Pairwise.imp_of_mem ?_ (cuts'_pairwise f)
    intro a b ha hb hlt
    rw [prio_mk _ _ _ _ _ h hk', prio_mk _ _ _ _ _ h hk']
    right
    refine ⟨rfl, ?_⟩
    have h1 := congrArg List.length (mem_cuts' (b := a.1) (e := a.2) ha).1
    simp only [List.length_append] at h1
    show f.length + 1 - a.2.length < f.length + 1 - b.2.length
    omega
  · rw [List.pairwise_reverse]
    refine List.Pairwise.imp_of_mem ?_ (List.pairwise_lt_range (n := dirs.length + 1))
    intro k k' hk hk' hlt x hx y hy
    have hk1 : k ≤ dirs.length := by simp at hk; omega
    have hk2 : k' ≤ dirs.length := by simp at hk'; omega
    rw [List.mem_map] at hx hy
    obtain ⟨p, _, rfl⟩ := hx
    obtain ⟨q, _, rfl⟩ := hy
    rw [prio_mk _ _ _ _ _ h hk1, prio_mk _ _ _ _ _ h hk2]
    left
    show dirs.length - k' < dirs.length - k
    omega

theorem order_strict (dirs : List (List Char)) (f : List Char) (h : ∀ c ∈ dirs, GoodComp c)
    (hf : f ≠ "default".toList) :
    (candidates dirs f).Pairwise (fun a b => PLt (prio dirs f a) (prio dirs f b)) := by
  rw [candidates_eq, List.pairwise_cons]
  refine ⟨?_, order_defaults dirs f h⟩
  intro c hc
  rw [List.mem_flatMap] at hc
  obtain ⟨k, hk, hc⟩ := hc
  have hk' : k ≤ dirs.length := by simp at hk; omega
  rw [List.mem_map] at hc
  obtain ⟨⟨b, e⟩, hp, rfl⟩ := hc
  rw [prio_spec _ _ h, prio_mk _ _ _ _ _ h hk', if_neg hf]
  have h1 := congrArg List.length (mem_cuts' hp).1
  simp only [List.length_append] at h1
  unfold PLt
  simp only
  omega

/-- Unconditional form: strictly sorted except that identical candidates may repeat
(this happens exactly for `f = "default"`, whose specific script *is* `default.do`). -/
theorem order_weak (dirs : List (List Char)) (f : List Char) (h : ∀ c ∈ dirs, GoodComp c) :
    (candidates dirs f).Pairwise (fun a b => PLt (prio dirs f a) (prio dirs f b) ∨ a = b) := by
  by_cases hf : f = "default".toList
  · rw [candidates_eq, List.pairwise_cons]
    refine ⟨?_, (order_defaults dirs f h).imp (fun h => .inl h)⟩
    intro c hc
    rw [List.mem_flatMap] at hc
    obtain ⟨k, hk, hc⟩ := hc
    have hk' : k ≤ dirs.length := by simp at hk; omega
    rw [List.mem_map] at hc
    obtain ⟨⟨b, e⟩, hp, rfl⟩ := hc
    have hbe : b = f ∧ e = [] := by
      subst hf
      have hcd : cuts' "default".toList = [("default".toList, [])] := by decide
      rw [hcd] at hp
      simpa using hp
    obtain ⟨rfl, rfl⟩ := hbe
    by_cases hkn : k = dirs.length
    · right
      subst hkn
      rw [specCand_eq]
      subst hf
      rfl
    · left
      rw [prio_spec _ _ h, prio_mk _ _ _ _ _ h hk']
      left
      show 0 < dirs.length - k
      omega
  · exact (order_strict dirs f h hf).imp (fun h => .inl h)

/-! ### No duplicates -/

/-- Names whose specific script `<f>.do` is at the same time a default rule:
`default` (→ `default.do`) and `default.<ext>` (→ `default.<ext>.do`). -/
def DefaultLike (f : List Char) : Prop := f = "default".toList ∨ "default.".toList <+: f

theorem rooted_default (e : List Char) : rooted ("default".toList ++ e ++ ".do".toList) = false := by
  have : "default".toList = 'd' :: "efault".toList := by decide
  rw [this]; rfl

theorem rooted_prefix {f b e : List Char} (hf : '/' ∉ f) (h : f = b ++ e) : rooted b = false := by
  cases b with
  | nil => rfl
  | cons a b =>
    subst h
    simp only [List.cons_append, List.mem_cons, not_or] at hf
    simp only [rooted, beq_eq_false_iff_ne, ne_eq]
    exact fun e => hf.1 e.symm

theorem noslash_default {e : List Char} (he : '/' ∉ e) : '/' ∉ "default".toList ++ e ++ ".do".toList := by
  have h1 : '/' ∉ "default".toList := by decide
  have h2 : '/' ∉ ".do".toList := by decide
  simp only [List.mem_append, not_or]
  exact ⟨⟨h1, he⟩, h2⟩

theorem noslash_suffix {f b e : List Char} (hf : '/' ∉ f) (h : f = b ++ e) : '/' ∉ e := by
  subst h; simp only [List.mem_append, not_or] at hf; exact hf.2

theorem doPath_mk (dirs : List (List Char)) (k : Nat) (b e : List Char) (h : ∀ c ∈ dirs, GoodComp c) :
    doPath (mkCand dirs k b e) = render true (dirs.take k ++ ["default".toList ++ e ++ ".do".toList]) := by
  unfold doPath mkCand
  exact pushPath_render _ _ (fun c hc => h c (List.mem_of_mem_take hc)) (rooted_default e)

theorem doPath_spec (dirs : List (List Char)) (f : List Char) (h : ∀ c ∈ dirs, GoodComp c)
    (hf : GoodComp f) : doPath (specCand dirs f) = render true (dirs ++ [f ++ ".do".toList]) := by
  unfold doPath specCand
  refine pushPath_render _ _ h ?_
  obtain ⟨hne, hns⟩ := hf
  cases f with
  | nil => exact absurd rfl hne
  | cons a f =>
    simp only [List.mem_cons, not_or] at hns
    simp only [List.cons_append, rooted, beq_eq_false_iff_ne, ne_eq]
    exact fun e => hns.1 e.symm

theorem defaultLike_of_eq {f e : List Char} (h : f = "default".toList ++ e)
    (he : e = [] ∨ e.head? = some '.') : DefaultLike f := by
  rcases he with rfl | he
  · left; simpa using h
  · right
    cases e with
    | nil => simp at he
    | cons c cs =>
      simp only [List.head?_cons, Option.some.injEq] at he
      subst he
      refine ⟨cs, ?_⟩
      rw [h]
      have : "default.".toList = "default".toList ++ ['.'] := by decide
      rw [this]; simp

theorem take_inj {α} (l : List α) {k k' : Nat} (hk : k ≤ l.length) (hk' : k' ≤ l.length)
    (h : l.take k = l.take k') : k = k' := by
  have := congrArg List.length h
  simp only [List.length_take] at this
  omega

/-- Two candidates with the same script path are the same candidate, unless the name is default-like. -/
theorem doPath_inj (dirs : List (List Char)) (f : List Char) (h : ∀ c ∈ dirs, GoodComp c)
    (hf : GoodComp f) (hnd : ¬ DefaultLike f) {a b : Cand}
    (ha : a ∈ candidates dirs f) (hb : b ∈ candidates dirs f) (e : doPath a = doPath b) : a = b := by
  have hs : ∀ c ∈ dirs, '/' ∉ c := fun c hc => (h c hc).2
  have hst : ∀ k, ∀ c ∈ dirs.take k, '/' ∉ c := fun k c hc => hs c (List.mem_of_mem_take hc)
  have hfdo : '/' ∉ f ++ ".do".toList := by
    have h2 : '/' ∉ ".do".toList := by decide
    simp only [List.mem_append, not_or]; exact ⟨hf.2, h2⟩
  -- a specific candidate never collides with a default one
  have key : ∀ k b' e', (b', e') ∈ cuts' f →
      doPath (specCand dirs f) = doPath (mkCand dirs k b' e') → False := by
    intro k b' e' hp he
    rw [doPath_spec _ _ h hf, doPath_mk _ _ _ _ h] at he
    have hc := mem_cuts' hp
    have := (render_snoc_inj _ _ _ _ hs (hst k) hfdo
      (noslash_default (noslash_suffix hf.2 hc.1)) he).2
    rw [List.append_cancel_right_eq] at this
    exact hnd (defaultLike_of_eq this hc.2)
  rw [mem_candidates] at ha hb
  rcases ha with rfl | ⟨k, hk, b1, e1, hp1, rfl⟩ <;> rcases hb with rfl | ⟨k', hk', b2, e2, hp2, rfl⟩
  · rfl
  · exact (key _ _ _ hp2 e).elim
  · exact (key _ _ _ hp1 e.symm).elim
  · rw [doPath_mk _ _ _ _ h, doPath_mk _ _ _ _ h] at e
    have hc1 := mem_cuts' hp1
    have hc2 := mem_cuts' hp2
    obtain ⟨ht, hd⟩ := render_snoc_inj _ _ _ _ (hst k) (hst k')
      (noslash_default (noslash_suffix hf.2 hc1.1)) (noslash_default (noslash_suffix hf.2 hc2.1)) e
    have hkk := take_inj dirs hk hk' ht
    rw [List.append_cancel_right_eq, List.append_cancel_left_eq] at hd
    subst hkk hd
    have : b1 = b2 := by
      have := hc1.1.symm.trans hc2.1
      exact List.append_cancel_right this
    subst this
    rfl

theorem nodup_of_not_defaultLike (dirs : List (List Char)) (f : List Char) (h : ∀ c ∈ dirs, GoodComp c)
    (hf : GoodComp f) (hnd : ¬ DefaultLike f) : ((candidates dirs f).map doPath).Nodup := by
  rw [List.nodup_iff_pairwise_ne, List.pairwise_map]
  have hfd : f ≠ "default".toList := fun e => hnd (.inl e)
  refine List.Pairwise.imp_of_mem ?_ (order_strict dirs f h hfd)
  intro a b ha hb hlt e
  have := doPath_inj dirs f h hf hnd ha hb e
  subst this
  exact PLt_irrefl _ hlt

/-- Conversely, for a default-like name the specific script is listed a second time as a default rule
in the target's own directory. -/
theorem not_nodup_of_defaultLike (dirs : List (List Char)) (f : List Char) (h : ∀ c ∈ dirs, GoodComp c)
    (hf : GoodComp f) (hd : DefaultLike f) : ¬ ((candidates dirs f).map doPath).Nodup := by
  obtain ⟨e, hfe, he⟩ : ∃ e, f = "default".toList ++ e ∧ (e = [] ∨ e.head? = some '.') := by
    rcases hd with rfl | ⟨t, rfl⟩
    · exact ⟨[], by simp, .inl rfl⟩
    · refine ⟨'.' :: t, ?_, .inr rfl⟩
      have : "default.".toList = "default".toList ++ ['.'] := by decide
      rw [this]; simp
  have hp : ("default".toList, e) ∈ cuts' f := by
    unfold cuts'
    rcases he with rfl | he
    · simp [hfe]
    · rw [hfe]; exact List.mem_append_left _ (dotCuts_of_cut _ _ he)
  have hm : mkCand dirs dirs.length "default".toList e ∈
      (List.range (dirs.length + 1)).reverse.flatMap
        (fun k => (cuts' f).map (fun p => mkCand dirs k p.1 p.2)) := by
    rw [List.mem_flatMap]
    exact ⟨dirs.length, by simp, List.mem_map.2 ⟨_, hp, rfl⟩⟩
  rw [candidates_eq, List.map_cons, List.nodup_cons]
  intro hn
  apply hn.1
  rw [List.mem_map]
  refine ⟨_, hm, ?_⟩
  rw [doPath_mk _ _ _ _ h, doPath_spec _ _ h hf, List.take_length, hfe]

/-! ### Arguments -/

theorem cand_args (dirs : List (List Char)) (f : List Char) (h : ∀ c ∈ dirs, GoodComp c)
    (hf : GoodComp f) {c : Cand} (hc : c ∈ candidates dirs f) :
    ∃ k, k ≤ dirs.length ∧ c.doDir = render true (dirs.take k) ∧
      ∀ s, arg1 c ++ s = joinSlash (dirs.drop k ++ [f ++ s]) := by
  rw [mem_candidates] at hc
  rcases hc with rfl | ⟨k, hk, b, e, hp, rfl⟩
  · refine ⟨dirs.length, Nat.le_refl _, by simp [specCand], ?_⟩
    intro s; simp [arg1, specCand, joinSlash]
  · refine ⟨k, hk, rfl, ?_⟩
    intro s
    have hcut := mem_cuts' hp
    have hb : rooted b = false := rooted_prefix hf.2 hcut.1
    simp only [arg1, mkCand]
    rw [pushPath_joinSlash _ _ (fun c hc => h c (List.mem_of_mem_drop hc)) hb, List.append_assoc,
      joinSlash_snoc_append, hcut.1, List.append_assoc]

theorem normComp_tmp {f : List Char} (hf : GoodComp f) : NormComp (f ++ ".redo.tmp".toList) := by
  have h2 : '/' ∉ ".redo.tmp".toList := by decide
  have hl : (".redo.tmp".toList).length = 9 := by decide
  refine ⟨⟨by simp [hf.1], ?_⟩, ?_, ?_⟩
  · simp only [List.mem_append, not_or]; exact ⟨hf.2, h2⟩
  · intro e
    have := congrArg List.length e
    simp only [List.length_append, hl, dot, List.length_cons, List.length_nil] at this
    omega
  · intro e
    have := congrArg List.length e
    simp only [List.length_append, hl, dotdot, List.length_cons, List.length_nil] at this
    omega

theorem args_target (dirs : List (List Char)) (f : List Char) (h : ∀ c ∈ dirs, NormComp c)
    (hf : NormComp f) {c : Cand} (hc : c ∈ candidates dirs f) :
    normpath (pushPath c.doDir (arg1 c)) = render true (dirs ++ [f]) := by
  have hg : ∀ c ∈ dirs, GoodComp c := fun c hc => (h c hc).1
  obtain ⟨k, _, hd, ha⟩ := cand_args dirs f hg hf.1 hc
  have ha' := ha []
  simp only [List.append_nil] at ha'
  rw [hd, ha', rejoin _ _ _ hg hf.1, normpath_render]
  intro x hx
  rcases List.mem_append.1 hx with hx | hx
  · exact h x hx
  · simp at hx; subst hx; exact hf

theorem args_tmp (dirs : List (List Char)) (f : List Char) (h : ∀ c ∈ dirs, NormComp c)
    (hf : GoodComp f) {c : Cand} (hc : c ∈ candidates dirs f) :
    normpath (tmpName c) = render true (dirs ++ [f ++ ".redo.tmp".toList]) := by
  have hg : ∀ c ∈ dirs, GoodComp c := fun c hc => (h c hc).1
  obtain ⟨k, _, hd, ha⟩ := cand_args dirs f hg hf hc
  have ha' := ha ".redo.tmp".toList
  unfold arg1 at ha'
  unfold tmpName
  rw [hd, ha', rejoin _ _ _ hg (normComp_tmp hf).1, normpath_render]
  intro x hx
  rcases List.mem_append.1 hx with hx | hx
  · exact h x hx
  · simp at hx; subst hx; exact normComp_tmp hf

theorem args_dir (dirs : List (List Char)) (f : List Char) {c : Cand} (hc : c ∈ candidates dirs f) :
    ∃ k, k ≤ dirs.length ∧ c.doDir = render true (dirs.take k) := by
  rw [mem_candidates] at hc
  rcases hc with rfl | ⟨k, hk, b, e, hp, rfl⟩
  · exact ⟨dirs.length, Nat.le_refl _, by simp [specCand]⟩
  · exact ⟨k, hk, rfl⟩

/-! ### Shape -/

theorem cand_shape (dirs : List (List Char)) (f : List Char) {c : Cand} (hc : c ∈ candidates dirs f) :
    (c = specCand dirs f ∨ c.doFile = "default".toList ++ c.ext ++ ".do".toList) ∧
    ∃ b, f = b ++ c.ext ∧ c.baseName = pushPath c.baseDir b ∧ (c.ext = [] ∨ c.ext.head? = some '.') := by
  rw [mem_candidates] at hc
  rcases hc with rfl | ⟨k, hk, b, e, hp, rfl⟩
  · exact ⟨.inl rfl, f, by simp [specCand], by simp [specCand, pushPath_nil], .inl rfl⟩
  · have := mem_cuts' hp
    exact ⟨.inr rfl, b, this.1, rfl, this.2⟩

/-! ### The choice -/

theorem findDoFile_eq (exist : List Char → Bool) (cs : List Cand) :
    findDoFile exist cs =
      (cs.find? (fun c => exist (doPath c)), cs.takeWhile (fun c => !exist (doPath c))) := by
  induction cs with
  | nil => rfl
  | cons c cs ih =>
    simp only [findDoFile, List.find?_cons, List.takeWhile_cons]
    by_cases h : exist (doPath c) = true
    · simp [h]
    · simp only [Bool.not_eq_true] at h
      simp [h, ih]

/-- The chosen candidate exists, everything before it does not, and in particular no earlier
candidate has the same script path: among candidates sharing a path only the earliest can win. -/
theorem chosen_spec (exist : List Char → Bool) (cs : List Cand) (c : Cand) (pre : List Cand)
    (h : findDoFile exist cs = (some c, pre)) :
    ∃ rest, cs = pre ++ c :: rest ∧ exist (doPath c) = true ∧
      ∀ a ∈ pre, exist (doPath a) = false ∧ doPath a ≠ doPath c := by
  induction cs generalizing pre with
  | nil => simp [findDoFile] at h
  | cons x xs ih =>
    simp only [findDoFile] at h
    by_cases hx : exist (doPath x) = true
    · simp only [hx, if_true, Prod.mk.injEq, Option.some.injEq] at h
      obtain ⟨rfl, rfl⟩ := h
      exact ⟨xs, rfl, hx, by simp⟩
    · simp only [hx, if_false, Bool.false_eq_true] at h
      generalize hr : findDoFile exist xs = r at h
      obtain ⟨r1, r2⟩ := r
      simp only [Prod.mk.injEq] at h
      obtain ⟨rfl, rfl⟩ := h
      obtain ⟨rest, h1, h2, h3⟩ := ih r2 hr
      refine ⟨rest, by simp [h1], h2, ?_⟩
      intro a ha
      rcases List.mem_cons.1 ha with rfl | ha
      · simp only [Bool.not_eq_true] at hx
        exact ⟨hx, fun e => by rw [e, h2] at hx; cases hx⟩
      · exact h3 a ha

/-- Later candidates with the same script path as an earlier one never influence the choice. -/
theorem later_dups_irrelevant (exist : List Char → Bool) (l1 l2 : List Cand) (a : Cand) :
    (findDoFile exist (l1 ++ a :: l2)).1 =
      (findDoFile exist (l1 ++ a :: l2.filter (fun b => doPath b != doPath a))).1 := by
  rw [findDoFile_eq, findDoFile_eq]
  simp only [List.find?_append, List.find?_cons]
  congr 1
  by_cases h : exist (doPath a) = true
  · simp [h]
  · simp only [h]
    rw [List.find?_filter]
    congr 1
    funext x
    by_cases hx : exist (doPath x) = true
    · have : doPath x ≠ doPath a := fun e => h (e ▸ hx)
      simp [hx, this]
    · simp [hx]

/-! ### Packaging for `Props/C13b.lean` -/

instance (f : List Char) : Decidable (DefaultLike f) := by unfold DefaultLike; infer_instance

theorem order_tail (dirs : List (List Char)) (f : List Char) (h : ∀ c ∈ dirs, GoodComp c) :
    (candidates dirs f).tail.Pairwise (fun a b => PLt (prio dirs f a) (prio dirs f b)) := by
  rw [candidates_eq]; exact order_defaults dirs f h

theorem nodup_iff (dirs : List (List Char)) (f : List Char) (h : ∀ c ∈ dirs, GoodComp c)
    (hf : GoodComp f) : ((candidates dirs f).map doPath).Nodup ↔ ¬ DefaultLike f :=
  ⟨fun hn hd => not_nodup_of_defaultLike dirs f h hf hd hn, nodup_of_not_defaultLike dirs f h hf⟩

theorem args_rejoin (dirs : List (List Char)) (f : List Char) (h : ∀ c ∈ dirs, NormComp c)
    (hf : NormComp f) {c : Cand} (hc : c ∈ candidates dirs f) :
    normpath (pushPath c.doDir (arg1 c)) = render true (dirs ++ [f]) ∧
    (∃ k, k ≤ dirs.length ∧ c.doDir = render true (dirs.take k)) ∧
    normpath (tmpName c) = render true (dirs ++ [f ++ ".redo.tmp".toList]) :=
  ⟨args_target dirs f h hf hc, args_dir dirs f hc, args_tmp dirs f h hf.1 hc⟩

theorem choice_first (exist : List Char → Bool) (cs : List Cand) :
    (findDoFile exist cs).1 = cs.find? (fun c => exist (doPath c)) ∧
    (findDoFile exist cs).2 = cs.takeWhile (fun c => !exist (doPath c)) := by
  rw [findDoFile_eq]; exact ⟨rfl, rfl⟩

theorem nstack_true_norm {st : List (List Char)} (h : NStack true st) :
    ∀ c ∈ st, c ≠ dot ∧ c ≠ dotdot := by
  induction h with
  | dds _ hr => intro c hc; rw [hr rfl] at hc; simp at hc
  | real h1 h2 _ ih =>
    intro c hc
    rcases List.mem_cons.1 hc with rfl | hc
    · exact ⟨h1, h2⟩
    · exact ih c hc

/-- The hypotheses of the theorems above hold for whatever `possibleDoFiles` enumerates. -/
theorem possibleDoFiles_hyps (p : List Char) (cs : List Cand) (h : possibleDoFiles p = some cs) :
    ∃ dirs f, cs = candidates dirs f ∧ (∀ c ∈ dirs, NormComp c) ∧ NormComp f ∧
      cleanComps true (comps p) = dirs ++ [f] := by
  unfold possibleDoFiles at h
  split at h
  · cases h
  · rename_i f revDirs heq
    simp only [Option.some.injEq] at h
    have hcl : cleanComps true (comps p) = revDirs.reverse ++ [f] := by
      have := congrArg List.reverse heq
      simpa using this
    have hall : ∀ c ∈ cleanComps true (comps p), NormComp c := by
      intro c hc
      refine ⟨cleanComps_good (comps_good p) c hc, ?_⟩
      have hn := cleanComps_normal true (comps p)
      unfold NormalComps at hn
      exact nstack_true_norm hn c (List.mem_reverse.2 hc)
    rw [hcl] at hall
    exact ⟨revDirs.reverse, f, h.symm, fun c hc => hall c (by simp [hc]), hall f (by simp), hcl⟩

/-- Example data: `dirs = ["a","b"]`, `f = "x.tar.gz"`. -/
def exDirs : List (List Char) := ["a".toList, "b".toList]
def exF : List Char := "x.tar.gz".toList

theorem exDirs_norm : ∀ c ∈ exDirs, NormComp c := by
  intro c hc
  simp only [exDirs, List.mem_cons, List.not_mem_nil, or_false] at hc
  rcases hc with rfl | rfl <;> exact ⟨⟨by decide, by decide⟩, by decide, by decide⟩

theorem exDirs_good : ∀ c ∈ exDirs, GoodComp c := fun c hc => (exDirs_norm c hc).1

theorem exF_norm : NormComp exF := ⟨⟨by decide, by decide⟩, by decide, by decide⟩

end RedoModel.DoFiles
