import RedoModel.Lemmas.DepsSoundR35
/-! What the user does between commands (edit, remove, chmod a file) keeps `Btw`. -/
namespace RedoModel.Deps.Rich
open RedoModel.Generated

/-- `w'` is `w` with the file `f` changed by hand (and the clock possibly advanced). -/
structure FsUpd (f : Nat) (w w' : World) : Prop where
  rules : w'.rules = w.rules
  progs : w'.progs = w.progs
  recs : w'.recs = w.recs
  deps : w'.deps = w.deps
  rc : w'.runCounter = w.runCounter
  fs : ∀ x, x ≠ f → w'.fs x = w.fs x
  clock : w.clock ≤ w'.clock

/-- What a hand-made change of `f` must look like to the records: the recorded stamp no longer matches, or the
record is that of a failed absent source, or (third case) the user removes a file he had put at the name of a
target that redo recorded as "no output". -/
def UserDiff (f : Nat) (w w' : World) : Prop :=
  (w.recs f).stamp ≠ some (readStamp w' f) ∨ FailedAbsent w f ∨
  (genT (w.recs f) = true ∧ (w.recs f).stamp = some .missing ∧ w'.fs f = none)

theorem FsUpd.key {f w w'} (h : FsUpd f w w') (hdiff : w'.fs f ≠ w.fs f → UserDiff f w w') (d M : Nat) :
    (w'.fs d = w.fs d ∧ (DetectS w' M d ↔ DetectS w M d)) ∨ DetectS w' M d ∨
    (d = f ∧ genT (w.recs f) = true ∧ (w.recs f).stamp = some .missing ∧ w'.fs f = none) := by
  have hsame : w'.fs d = w.fs d → (w'.fs d = w.fs d ∧ (DetectS w' M d ↔ DetectS w M d)) := fun e =>
    ⟨e, by unfold DetectS FailedAbsent; rw [h.recs, readStamp_congr e]⟩
  by_cases e : d = f
  · subst e
    by_cases e2 : w'.fs d = w.fs d
    · exact Or.inl (hsame e2)
    · rcases hdiff e2 with h1 | h1 | h1
      · right; left; unfold DetectS FailedAbsent; rw [h.recs]; exact Or.inr (Or.inr (Or.inl h1))
      · right; left; unfold DetectS FailedAbsent; rw [h.recs]; exact Or.inr (Or.inr (Or.inr h1))
      · exact Or.inr (Or.inr ⟨rfl, h1⟩)
  · exact Or.inl (hsame (h.fs d e))

theorem DetectC.toS {w w' : World} {M d : Nat} (hr : w'.recs = w.recs) (h : DetectC w M d) : DetectS w' M d := by
  unfold DetectS; rw [hr]
  exact h.elim Or.inl (fun h => Or.inr (Or.inl h))

theorem RecTruth_user {rank R f w w' u} (hb : Base rank R X w) (h : FsUpd f w w')
    (hdiff : w'.fs f ≠ w.fs f → UserDiff f w w')
    (hu : (w.recs u).stamp = some .missing ∨ w'.fs u = w.fs u)
    (ht : RecTruth w u) : RecTruth w' u := by
  obtain ⟨pre, dof, post, sc, hr, hpre, hdof, hdecl, hic, hcd, halw, hexit, hsc, hodd, cs, hcont, hlen, hz⟩ := ht
  have hrow : ∀ s m, HasRow w u s m → HasRow w' u s m := fun s m hh => by unfold HasRow at hh ⊢; rw [h.deps]; exact hh
  have hdofP : w.rules dof = [] := (hb.rulesOk.2 u dof (by rw [hr]; simp)).1
  have hnone : w'.fs f = none → contentOf w' f = none := fun e => by unfold contentOf; rw [e]; rfl
  refine ⟨pre, dof, post, sc, by rw [h.rules]; exact hr, fun c hc => hrow _ _ (hpre c hc), hrow _ _ hdof,
    fun d hd => hrow _ _ (hdecl d hd), fun d hd => hrow _ _ (hic d hd),
    fun d hd => (hcd d hd).imp (hrow _ _) (hrow _ _), fun ha => hrow _ _ (halw ha), hexit, ?_, ?_,
    cs, by rw [contentV_congr (by rw [h.recs]) hu]; exact hcont, hlen, ?_⟩
  · rw [h.recs]
    rcases h.key hdiff dof (Mof (w.recs u)) with ⟨e, hiff⟩ | hd | ⟨e, hg, _, _⟩
    · rcases hsc with ⟨h1, h2⟩ | h1
      · exact Or.inl ⟨by rw [existsF_congr e]; exact h1, by rw [scriptAt_congr e h.progs]; exact h2⟩
      · exact Or.inr (hiff.2 h1)
    · exact Or.inr hd
    · subst e; rw [hb.srcT dof hdofP] at hg; cases hg
  · intro f' hf'
    refine ⟨hrow _ _ (hodd f' hf').1, ?_⟩
    rw [h.recs]
    rcases h.key hdiff f' (Mof (w.recs u)) with ⟨e, hiff⟩ | hd | ⟨e, _, _, hn⟩
    · rcases (hodd f' hf').2 with h1 | h1
      · exact Or.inl (by rw [contentOf_congr e]; exact h1)
      · exact Or.inr (hiff.2 h1)
    · exact Or.inr hd
    · subst e; exact Or.inl (by rw [hnone hn]; rfl)
  · intro p hp
    rcases hz p hp with ⟨h1, h2, h3⟩ | ⟨h1, h2⟩
    · refine Or.inl ⟨hrow _ _ h1, fun hne => ?_, by unfold DetectC; rw [h.recs]; exact h3⟩
      rw [h.recs]
      rcases h.key hdiff p.1 (Mof (w.recs u)) with ⟨e, hiff⟩ | hd | ⟨e, hg, hs, hn⟩
      · rw [contentOf_congr e] at hne
        exact hiff.2 (h2 hne)
      · exact hd
      · rw [e, hnone hn] at hne
        exact (h3 (by rw [e]; exact hg) (by rw [e]; exact hs) hne).toS h.recs
    · exact Or.inr ⟨hrow _ _ h1, h2⟩

theorem Base_user {rank R f w w'} (hb : Base rank R NoX w) (h : FsUpd f w w') (hrk : RankedR rank w')
    (hf0 : f ≠ alwaysId)
    (hfsB : ∀ n, w'.fs f = some n → n.ms ≤ w'.clock)
    (hstB : ∀ ms rest, (w.recs f).stamp = some (.st ms rest) → ∀ n, w'.fs f = some n →
      ms < n.ms ∨ (ms = n.ms ∧ rest ≤ n.rest))
    (hdiff : w'.fs f ≠ w.fs f → UserDiff f w w') : Base rank R NoX w' := by
  have hr := h.recs
  refine ⟨by rw [h.rules]; exact hb.rulesOk, hrk, by rw [h.progs]; exact hb.richProgs, by rw [hr]; exact hb.chLe,
    by rw [hr]; exact hb.ckLe, by rw [hr]; exact hb.noCsum, by rw [hr]; exact hb.ovrSt,
    by rw [hr, h.rules]; exact hb.srcNotGen, by rw [h.fs _ (Ne.symm hf0)]; exact hb.fs0, by rw [hr]; exact hb.rec0,
    by rw [h.deps]; exact hb.rowsLt, by rw [h.deps, h.rules]; exact hb.cPlain, by rw [hr]; exact hb.stampCh,
    by rw [hr]; exact hb.staticEx, ?_, ?_, by rw [hr]; exact hb.ckFail, by rw [hr]; exact hb.markFail,
    by rw [hr]; exact hb.flLe, ?_⟩
  · intro x n hn
    by_cases e : x = f
    · subst e; exact hfsB n hn
    · rw [h.fs x e] at hn; exact Nat.le_trans (hb.fsB x n hn) h.clock
  · intro x ms rest hs
    rw [hr] at hs
    refine ⟨Nat.le_trans (hb.stB x ms rest hs).1 h.clock, fun n hn => ?_⟩
    by_cases e : x = f
    · subst e; exact hstB ms rest hs n hn
    · rw [h.fs x e] at hn; exact (hb.stB x ms rest hs).2 n hn
  · intro t hx hrc hg
    rw [hr] at hg
    have hx0 : ¬ NoX t ∨ VerR w R t := Or.inl (fun hh => hh)
    have hrc1 := hrc
    unfold RecCurV at hrc1; rw [hr] at hrc1
    have hsame : w'.fs t = w.fs t → RecTruth w' t := fun hfs =>
      RecTruth_user hb h hdiff (Or.inr hfs)
        (hb.recA t hx0 ⟨hrc1.1, hrc1.2.1, by rw [← readStamp_congr hfs]; exact hrc1.2.2⟩ hg)
    have hmiss : (w.recs t).stamp = some .missing → RecTruth w' t := fun hs =>
      RecTruth_user hb h hdiff (Or.inl hs) (hb.recA t hx0 ⟨hrc1.1, hrc1.2.1, Or.inr hs⟩ hg)
    by_cases e : t = f
    · subst e
      by_cases e2 : w'.fs t = w.fs t
      · exact hsame e2
      · rcases hdiff e2 with h1 | h1 | h1
        · exact hmiss (hrc1.2.2.resolve_left h1)
        · exact absurd hrc1.1 h1.1
        · exact hmiss h1.2.1
    · exact hsame (h.fs t e)

end RedoModel.Deps.Rich
