import RedoModel.Lemmas.LogFollow2
import RedoModel.Lemmas.LogFollow3
import RedoModel.Lemmas.LogFollow4
/-!
# `redo-log --follow` — kernel-checked runs: the two defects, tightness of the bound, non-vacuity
-/
namespace RedoModel.LogFollow

/-- What one looks at in the final state of a run: follower's pc, lines shown (oldest first), log at the name. -/
def outcome (s0 : Sys) (es : List Ev) : Option (Pc × List Nat × List Nat) :=
  (run s0 es).map (fun s => (s.pc, s.emitted.reverse, current s))

/-- The reproduced defect.  Old instance `[1]`; the builder holds the lock and has not created the new instance.
The follower opens (the old instance), the builder creates the new one and writes `2`, the follower shows `1`, the
builder unlocks, the follower sees end of file, re-checks the lock, sees end of file again and stops. -/
def staleRun : List Ev := [.fol, .fol, .create, .append 2, .fol, .fol, .unlock, .fol, .fol, .fol, .fol]

theorem stale_open_outcome : outcome (enter [[1]] .lockedNoLog) staleRun = some (.stopped, [1], [2]) := by decide

theorem staleRun_no_lock : Ev.lock ∉ staleRun := by decide

/-- A second build of the target while the follower holds a descriptor on the first one. -/
def rebuildRun : List Ev := [.fol, .fol, .lock, .create, .append 2, .unlock, .fol, .fol, .fol]

theorem rebuild_outcome : outcome (enter [[1]] .idle) rebuildRun = some (.stopped, [1], [2]) := by decide

/-- No log at all when the follower enters, lock free; the build starts only afterwards. -/
def lateBuildRun : List Ev := [.fol, .fol, .lock, .create, .append 1, .unlock, .fol]

theorem lateBuild_outcome : outcome (enter [] .idle) lateBuildRun = some (.stopped, [], [1]) := by decide

/-- A correct stop, and then a second build: the log at the name is no longer what was shown. -/
theorem stop_then_rebuild :
    outcome (enter [[1]] .idle) [.fol, .fol, .fol, .fol, .fol] = some (.stopped, [1], [1]) ∧
    outcome (enter [[1]] .idle) ([.fol, .fol, .fol, .fol, .fol] ++ [.lock, .create, .append 2, .unlock]) =
      some (.stopped, [1], [2]) := by decide

/-- Without hypotheses the completeness statement is false — already when the lock is never taken again. -/
theorem not_complete_stale :
    ¬ ∀ (insts : List (List Nat)) (ph : Phase) (es : List Ev) (s : Sys), Ev.lock ∉ es →
        run (enter insts ph) es = some s → s.pc = .stopped → s.emitted.reverse = current s := by
  intro h
  have := h [[1]] .lockedNoLog staleRun _ staleRun_no_lock rfl rfl
  revert this; decide

/-- … and already when the follower does not enter in the phase "locked, nothing created". -/
theorem not_complete_rebuild :
    ¬ ∀ (insts : List (List Nat)) (ph : Phase) (es : List Ev) (s : Sys), ph ≠ .lockedNoLog →
        run (enter insts ph) es = some s → s.pc = .stopped → s.emitted.reverse = current s := by
  intro h
  have := h [[1]] .idle rebuildRun _ (by decide) rfl rfl
  revert this; decide

/-! ### Non-vacuity -/

/-- A session in which the follower enters during the build, lines are appended before and after it opens, the
lock is taken again later (target found clean), and the loop ends. -/
def goodRun : List Ev :=
  [.fol, .append 2, .fol, .fol, .fol, .fol, .append 3, .fol, .unlock, .fol, .fol, .fol, .lock, .fol, .unlock,
   .fol, .fol, .fol, .fol, .fol]

theorem goodRun_outcome : outcome (enter [[9], [1]] .building) goodRun = some (.stopped, [1, 2, 3], [1, 2, 3]) := by
  decide

theorem goodRun_no_create : Ev.create ∉ goodRun := by decide

/-- Fresh log: the follower enters before the instance exists and there is no old one. -/
def freshRun : List Ev := [.fol, .fol, .fol, .create, .append 1, .unlock, .fol, .fol, .fol, .fol, .fol]

theorem freshRun_outcome : outcome (enter [] .lockedNoLog) freshRun = some (.stopped, [1], [1]) := by decide

theorem freshRun_no_lock : Ev.lock ∉ freshRun := by decide

/-- A state in the middle of a run (descriptor open, one of two lines shown, a third still to come). -/
theorem midRun_outcome :
    (run (enter [[9], [1, 2]] .building) [.fol, .fol, .fol, .append 3]).map
        (fun s => (s.opened, s.pos, s.emitted, s.insts)) = some (some 1, 1, [1], [[9], [1, 2, 3]]) := by decide

/-! ### The bound `2 * remaining + 5` is attained -/

def slowState : Sys := { insts := [[7]], phase := .idle, pc := .top, wasLocked := true }

theorem slowState_remaining : remaining slowState = 1 := by decide

theorem slowState_needs_7 :
    (∀ n, n < 7 → (run slowState (List.replicate n .fol)).map (·.pc) ≠ some .stopped) ∧
    (run slowState (List.replicate 7 .fol)).map (·.pc) = some .stopped := by decide

/-! ### Pieces -/

theorem pieces_example :
    (∀ p ∈ [[1, 2], [3, 10], [10], [4], [5, 6, 10], [7]], Piece p) ∧
    feedAll [] [[1, 2], [3, 10], [10], [4], [5, 6, 10], [7]] = ([[1, 2, 3], [], [4, 5, 6]], [7]) ∧
    splitLines [] [1, 2, 3, 10, 10, 4, 5, 6, 10, 7] = ([[1, 2, 3], [], [4, 5, 6]], [7]) := by
  refine ⟨?_, by decide, by decide⟩
  intro p hp
  simp only [List.mem_cons, List.not_mem_nil, or_false] at hp
  rcases hp with rfl | rfl | rfl | rfl | rfl | rfl <;> exact ⟨by decide, by decide⟩

/-- The hypothesis on pieces is needed: a piece with a newline in the middle is glued wrongly. -/
theorem feed_bad_piece : feedAll [] [[1, 10, 2, 10]] ≠ splitLines [] [[1, 10, 2, 10]].flatten := by decide

end RedoModel.LogFollow
