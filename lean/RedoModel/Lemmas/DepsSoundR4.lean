import RedoModel.Lemmas.DepsSoundR3
/-! The general single-file update lemmas (`Base_upd`, `Ver_upd`): the analogue of `P.Inv_upd`. -/
namespace RedoModel.Deps.Rich

/-- `w'` differs from `w` only at file `t`: its file, its record, the rows whose target is `t`; the clock may advance. -/
structure OffT (t : Nat) (w w' : World) : Prop where
  rules : w'.rules = w.rules
  progs : w'.progs = w.progs
  fs : ∀ x, x ≠ t → w'.fs x = w.fs x
  fsP : w.rules t = [] → w'.fs t = w.fs t
  recs : ∀ x, x ≠ t → w'.recs x = w.recs x
  rows : ∀ d : Dep, d.target ≠ t → (d ∈ w'.deps ↔ d ∈ w.deps)
  clock : w.clock ≤ w'.clock
  rc : w'.runCounter = w.runCounter

theorem OffT.refl (t : Nat) (w : World) : OffT t w w :=
  ⟨rfl, rfl, fun _ _ => rfl, fun _ => rfl, fun _ _ => rfl, fun _ _ => Iff.rfl, Nat.le_refl _, rfl⟩

theorem OffT.trans {t : Nat} {a b c : World} (h1 : OffT t a b) (h2 : OffT t b c) : OffT t a c :=
  ⟨h2.rules.trans h1.rules, h2.progs.trans h1.progs, fun x hx => (h2.fs x hx).trans (h1.fs x hx),
   fun ht => (h2.fsP (by rw [h1.rules]; exact ht)).trans (h1.fsP ht),
   fun x hx => (h2.recs x hx).trans (h1.recs x hx),
   fun d hd => (h2.rows d hd).trans (h1.rows d hd), Nat.le_trans h1.clock h2.clock, h2.rc.trans h1.rc⟩

theorem OffT.hasRow {t w w'} (h : OffT t w w') {x s m} (hx : x ≠ t) : HasRow w' x s m ↔ HasRow w x s m := by
  unfold HasRow
  constructor
  · rintro ⟨d, hd, h1, h2, h3⟩
    exact ⟨d, (h.rows d (by rw [h1]; exact hx)).1 hd, h1, h2, h3⟩
  · rintro ⟨d, hd, h1, h2, h3⟩
    exact ⟨d, (h.rows d (by rw [h1]; exact hx)).2 hd, h1, h2, h3⟩

theorem OffT.fsPlain {rank R t w w'} (h : OffT t w w') (_hb : Base rank R X w) {x} (hx : w.rules x = []) :
    w'.fs x = w.fs x := by
  by_cases e : x = t
  · subst e; exact h.fsP hx
  · exact h.fs x e

theorem OffT.readStamp {t w w'} (h : OffT t w w') {x} (hx : x ≠ t) : readStamp w' x = readStamp w x :=
  readStamp_congr (h.fs x hx)

theorem OffT.recCur {t w w'} (h : OffT t w w') {x} (hx : x ≠ t) : RecCur w' x ↔ RecCur w x := by
  unfold RecCur; rw [h.recs x hx, h.readStamp hx]

theorem OffT.recCurV {t w w'} (h : OffT t w w') {x} (hx : x ≠ t) : RecCurV w' x ↔ RecCurV w x := by
  unfold RecCurV; rw [h.recs x hx, h.readStamp hx]

theorem OffT.detectS {t w w'} (h : OffT t w w') {x} (hx : x ≠ t) (M) : DetectS w' M x ↔ DetectS w M x := by
  unfold DetectS FailedAbsent; rw [h.recs x hx, h.readStamp hx]

theorem OffT.verR {t w w'} (h : OffT t w w') {x} (hx : x ≠ t) (R) : VerR w' R x ↔ VerR w R x := by
  unfold VerR; rw [h.recs x hx]

theorem OffT.good {t w w'} (h : OffT t w w') {x} (hx : x ≠ t) (R) : Good w' R x ↔ Good w R x := by
  unfold Good; rw [h.verR hx, h.recCur hx, h.recs x hx]

theorem OffT.ranked {rank R t w w'} (h : OffT t w w') (hb : Base rank R X w) : RankedR rank w' := by
  refine ⟨fun x c hc => hb.ranked.1 x c (by rw [← h.rules]; exact hc), ?_⟩
  intro x dof hdof n sc hn hsc
  rw [h.rules] at hdof
  have hp : w.rules dof = [] := (hb.rulesOk.2 x dof hdof).1
  rw [h.fsPlain hb hp] at hn
  rw [h.progs] at hsc
  rw [h.rules]
  exact hb.ranked.2 x dof hdof n sc hn hsc

theorem fs_none_of_cur {w : World} {f : Nat} (hc : (w.recs f).stamp = some (readStamp w f))
    (hs : (w.recs f).stamp = some .missing) : w.fs f = none :=
  readStamp_missing.1 (by rw [hs] at hc; exact (Option.some.inj hc).symm)

/-- The "recorded as absent" clause of a parent's promise across an update of `t`. -/
theorem RecTruth_off_mem {t M : Nat} {w w' : World} {c : Option Content}
    (hdet : DetectS w' M t ∨ (contentOf w' t = contentOf w t ∧ ¬ DetectS w M t))
    (hmem : genT (w'.recs t) = true → (w'.recs t).stamp = some .missing → w'.fs t = none ∨
      (genT (w.recs t) = true ∧ (w.recs t).stamp = some .missing ∧ (w'.recs t).changed = (w.recs t).changed))
    (hz1 : c ≠ contentOf w t → DetectS w M t)
    (hz2 : genT (w.recs t) = true → (w.recs t).stamp = some .missing → c ≠ none → DetectC w M t) :
    genT (w'.recs t) = true → (w'.recs t).stamp = some .missing → c ≠ none → DetectC w' M t := by
  intro hg hs hne
  rcases hmem hg hs with hfs | ⟨hg0, hs0, hch⟩
  · have hc' : contentOf w' t = none := by unfold contentOf; rw [hfs]; rfl
    rcases hdet with (h | h | h | h) | ⟨h3, h4⟩
    · exact Or.inl h
    · exact Or.inr h
    · exact absurd (by rw [hs, readStamp_missing.2 hfs]) h
    · rw [h.2.1] at hg; cases hg
    · exfalso; apply hne
      by_cases e : c = contentOf w t
      · rw [e, ← h3, hc']
      · exact absurd (hz1 e) h4
  · unfold DetectC; rw [hch]; exact hz2 hg0 hs0 hne

/-- The promise of another target's record survives an update of `t`, provided a change of `t` is detectable
by that target whenever it matters. -/
theorem RecTruth_off {rank R t w w' u} (hb : Base rank R X w) (h : OffT t w w') (hu : u ≠ t)
    (hdet : HasRow w u t true →
      DetectS w' (Mof (w.recs u)) t ∨ (contentOf w' t = contentOf w t ∧ ¬ DetectS w (Mof (w.recs u)) t))
    (hmem : genT (w'.recs t) = true → (w'.recs t).stamp = some .missing → w'.fs t = none ∨
      (genT (w.recs t) = true ∧ (w.recs t).stamp = some .missing ∧ (w'.recs t).changed = (w.recs t).changed))
    (ht : RecTruth w u) : RecTruth w' u := by
  obtain ⟨pre, dof, post, sc, hr, hpre, hdof, hdecl, hic, hcd, halw, hexit, hsc, hodd, cs, hcont, hlen, hz⟩ := ht
  have hdofP : w.rules dof = [] := (hb.rulesOk.2 u dof (by rw [hr]; simp)).1
  refine ⟨pre, dof, post, sc, by rw [h.rules]; exact hr, fun c hc => (h.hasRow hu).2 (hpre c hc),
    (h.hasRow hu).2 hdof, fun d hd => (h.hasRow hu).2 (hdecl d hd), fun d hd => (h.hasRow hu).2 (hic d hd),
    fun d hd => (hcd d hd).imp (h.hasRow hu).2 (h.hasRow hu).2,
    fun ha => (h.hasRow hu).2 (halw ha), hexit, ?_, ?_, cs, ?_, hlen, ?_⟩
  · rw [h.recs u hu]
    have hfs := h.fsPlain hb hdofP
    rcases hsc with ⟨h1, h2⟩ | h1
    · exact Or.inl ⟨by rw [existsF_congr hfs]; exact h1, by rw [scriptAt_congr hfs h.progs]; exact h2⟩
    · by_cases e : dof = t
      · subst e
        rcases hdet hdof with h3 | ⟨_, h3⟩
        · exact Or.inr h3
        · exact absurd h1 h3
      · exact Or.inr ((h.detectS e _).2 h1)
  · intro f hf
    obtain ⟨hrow, hor⟩ := hodd f hf
    refine ⟨(h.hasRow hu).2 hrow, ?_⟩
    rw [h.recs u hu]
    by_cases e : f = t
    · subst e
      rcases hdet hrow with h3 | ⟨h3, h4⟩
      · exact Or.inr h3
      · rcases hor with h5 | h5
        · exact Or.inl (by rw [h3]; exact h5)
        · exact absurd h5 h4
    · rcases hor with h5 | h5
      · exact Or.inl (by rw [contentOf_congr (h.fs f e)]; exact h5)
      · exact Or.inr ((h.detectS e _).2 h5)
  · rw [contentV_congr (by rw [h.recs u hu]) (Or.inr (h.fs u hu))]; exact hcont
  · intro p hp
    rcases hz p hp with ⟨hrow, hz1, hz2⟩ | ⟨hrow, hz1⟩
    · refine Or.inl ⟨(h.hasRow hu).2 hrow, fun hne => ?_, ?_⟩
      · rw [h.recs u hu]
        by_cases e : p.1 = t
        · rcases hdet (e ▸ hrow) with h3 | ⟨h3, h4⟩
          · rw [e]; exact h3
          · rw [e, h3] at hne
            exact absurd (hz1 (by rw [e]; exact hne)) (by rw [e]; exact h4)
        · rw [contentOf_congr (h.fs p.1 e)] at hne
          exact (h.detectS e _).2 (hz1 hne)
      · rw [h.recs u hu]
        by_cases e : p.1 = t
        · rw [e]; rw [e] at hrow hz1 hz2
          exact RecTruth_off_mem (hdet hrow) hmem hz1 hz2
        · unfold DetectC; rw [h.recs p.1 e]; exact hz2
    · exact Or.inr ⟨(h.hasRow hu).2 hrow, hz1⟩

/-- The clauses of `Base` that speak about one record, for file `t` in world `w`. -/
structure RecOk (R t : Nat) (w : World) : Prop where
  chLe : ∀ ch, (w.recs t).changed = some ch → ch ≤ R
  ckLe : ∀ ck, (w.recs t).checked = some ck → ck ≤ R
  noCsum : (w.recs t).csum = none
  ovrSt : (w.recs t).isOverride = true →
    (w.recs t).isGenerated = true ∧ ∃ ms rest, (w.recs t).stamp = some (.st ms rest)
  srcNotGen : w.rules t = [] → (w.recs t).isGenerated = false
  rec0 : t = alwaysId → Rec0 R (w.recs t)
  stampCh : (w.recs t).stamp ≠ none → (w.recs t).changed ≠ none
  staticEx : t ≠ alwaysId → (w.recs t).failed = none → genT (w.recs t) = false → (w.recs t).stamp ≠ some .missing
  fsB : ∀ n, w.fs t = some n → n.ms ≤ w.clock
  stB : ∀ ms rest, (w.recs t).stamp = some (.st ms rest) →
      ms ≤ w.clock ∧ ∀ n, w.fs t = some n → ms < n.ms ∨ (ms = n.ms ∧ rest ≤ n.rest)
  ckFail : (w.recs t).checked = some R → (w.recs t).failed = none
  markFail : (w.recs t).changed = some R → (w.recs t).failed = none ∨ (w.recs t).failed = some R
  flLe : ∀ k, (w.recs t).failed = some k → k ≤ R

theorem Base.recOk {rank R w} (hb : Base rank R X w) (t : Nat) : RecOk R t w :=
  ⟨hb.chLe t, hb.ckLe t, hb.noCsum t, hb.ovrSt t, hb.srcNotGen t, fun e => e ▸ hb.rec0, hb.stampCh t,
   hb.staticEx t, hb.fsB t, hb.stB t, hb.ckFail t, hb.markFail t, hb.flLe t⟩

theorem Base_upd {rank R t w w'} {X X' : Nat → Prop} (hb : Base rank R X w) (h : OffT t w w') (hok : RecOk R t w')
    (hX : ∀ u, u ≠ t → ¬ X' u → ¬ X u)
    (hrowsLt : ∀ d ∈ w'.deps, rank d.source < rank d.target)
    (hcPlain : ∀ d ∈ w'.deps, d.modeM = false → w'.rules d.source = [] ∧ d.source ≠ alwaysId)
    (hdet : ∀ u, u ≠ t → RecCurV w u → genT (w.recs u) = true → HasRow w u t true →
      DetectS w' (Mof (w.recs u)) t ∨ (contentOf w' t = contentOf w t ∧ ¬ DetectS w (Mof (w.recs u)) t))
    (hA : (¬ X' t ∨ VerR w' R t) → RecCur w' t → genT (w'.recs t) = true → RecTruth w' t)
    (hsq : genT (w'.recs t) = true → (w'.recs t).stamp = some .missing → w'.fs t = none ∨
      ((genT (w.recs t) = true ∧ (w.recs t).stamp = some .missing ∧ (w'.recs t).changed = (w.recs t).changed) ∧
        ((¬ X' t ∨ VerR w' R t) → (w'.recs t).failed = none → RecTruth w' t))) :
    Base rank R X' w' := by
  have hrec : ∀ x, RecOk R x w' := by
    intro x
    by_cases e : x = t
    · subst e; exact hok
    · have o := hb.recOk x
      have hf := h.fs x e
      refine ⟨?_, ?_, ?_, ?_, ?_, ?_, ?_, ?_, ?_, ?_, ?_, ?_, ?_⟩
      all_goals try rw [h.recs x e]
      · exact o.chLe
      · exact o.ckLe
      · exact o.noCsum
      · exact o.ovrSt
      · rw [h.rules]; exact o.srcNotGen
      · exact o.rec0
      · exact o.stampCh
      · exact o.staticEx
      · rw [hf]; exact fun n hn => Nat.le_trans (o.fsB n hn) h.clock
      · rw [hf]; exact fun ms rest hs => ⟨Nat.le_trans (o.stB ms rest hs).1 h.clock, (o.stB ms rest hs).2⟩
      · exact o.ckFail
      · exact o.markFail
      · exact o.flLe
  refine ⟨by rw [h.rules]; exact hb.rulesOk, h.ranked hb, by rw [h.progs]; exact hb.richProgs,
    fun f => (hrec f).chLe, fun f => (hrec f).ckLe, fun f => (hrec f).noCsum, fun f => (hrec f).ovrSt,
    fun f => (hrec f).srcNotGen, ?_, (hrec alwaysId).rec0 rfl, hrowsLt, hcPlain, fun f => (hrec f).stampCh,
    fun f => (hrec f).staticEx, fun f => (hrec f).fsB, fun f => (hrec f).stB,
    fun f => (hrec f).ckFail, fun f => (hrec f).markFail, fun f => (hrec f).flLe, ?_⟩
  · rw [h.fsPlain hb hb.rulesOk.1]; exact hb.fs0
  · intro u hx hrc hg
    by_cases e : u = t
    · subst e
      rcases hrc.2.2 with hs | hs
      · exact hA hx ⟨hrc.1, hrc.2.1, hs⟩ hg
      · rcases hsq hg hs with hfs | ⟨_, h2⟩
        · exact hA hx ⟨hrc.1, hrc.2.1, by rw [hs, readStamp_missing.2 hfs]⟩ hg
        · exact h2 hx hrc.1
    · have hrc0 := (h.recCurV e).1 hrc
      rw [h.recs u e] at hg
      have hx0 : ¬ X u ∨ VerR w R u := hx.imp (hX u e) (h.verR e R).1
      exact RecTruth_off hb h e (hdet u e hrc0 hg) (fun hg' hs' => (hsq hg' hs').imp id (fun h' => h'.1))
        (hb.recA u hx0 hrc0 hg)

theorem Ver_upd {rank R t w w'} (hi : Inv rank R X w) (h : OffT t w w') (hng : ¬ Good w R t)
    (hT : VerR w' R t → RecCur w' t ∧ UpToDateR w' t ∧
      (genT (w'.recs t) = true → ∀ d ∈ w'.deps, d.target = t →
        (d.modeM = true → Good w' R d.source) ∧ (d.modeM = false → existsF w' d.source = false))) :
    Ver R w' := by
  intro f hv
  by_cases e : f = t
  · subst e; exact hT hv
  · have hv0 := (h.verR e R).1 hv
    obtain ⟨hrc, _, hcl⟩ := hi.ver f hv0
    have hne : ∀ x, Good w R x → x ≠ t := fun x hx ex => hng (ex ▸ hx)
    refine ⟨(h.recCur e).2 hrc, ?_, ?_⟩
    · refine good_upToDate hi h.rules h.progs (fun x hx => contentOf_congr (h.fsPlain hi.base hx))
        (fun x hx => ⟨contentOf_congr (h.fs x (hne x hx)), by rw [h.recs x (hne x hx)]⟩)
        (rank f + 1) f (Nat.lt_succ_self _) (Or.inl hv0)
    · rw [h.recs f e]
      intro hg d hd hdt
      have hd0 := (h.rows d (by rw [hdt]; exact e)).1 hd
      obtain ⟨h1, h2⟩ := hcl hg d hd0 hdt
      refine ⟨fun hm => ?_, fun hm => ?_⟩
      · exact (h.good (hne _ (h1 hm)) R).2 (h1 hm)
      · rw [existsF_congr (h.fsPlain hi.base (hi.base.cPlain d hd0 hm).1)]; exact h2 hm

/-- A current parent of a file that is not good has not been marked in this run. -/
theorem parents_lt {rank R w t u} (hi : Inv rank R X w) (hng : ¬ Good w R t) (hrc : RecCurV w u)
    (hg : genT (w.recs u) = true) (hrow : HasRow w u t true) : Mof (w.recs u) < R := by
  have hle := hi.base.Mof_le u
  rcases Nat.lt_or_ge (Mof (w.recs u)) R with h | h
  · exact h
  · exfalso
    have he : Mof (w.recs u) = R := Nat.le_antisymm hle h
    have hv : VerR w R u := ⟨hrc.1, (Mof_eq_R he hi.Rpos).symm⟩
    exact hng (hrow.good hi hv hg)

/-- Loud update: the new record of a file that is not good has `changed = R`. -/
theorem hdet_loud {rank R w w' t} (hi : Inv rank R X w) (hng : ¬ Good w R t) (hch : (w'.recs t).changed = some R) :
    ∀ u, u ≠ t → RecCurV w u → genT (w.recs u) = true → HasRow w u t true →
      DetectS w' (Mof (w.recs u)) t ∨ (contentOf w' t = contentOf w t ∧ ¬ DetectS w (Mof (w.recs u)) t) :=
  fun _ _ hrc hg hrow => Or.inl (Or.inr (Or.inl ⟨R, hch, parents_lt hi hng hrc hg hrow⟩))

/-- Quiet update: same content, same `changed`, same stamp-currency. -/
theorem hdet_quiet {w w' : World} {t : Nat} (hc : contentOf w' t = contentOf w t)
    (hch : (w'.recs t).changed = (w.recs t).changed)
    (hst : (w.recs t).stamp ≠ some (readStamp w t) → (w'.recs t).stamp ≠ some (readStamp w' t))
    (hfa : FailedAbsent w t → FailedAbsent w' t) :
    ∀ u, u ≠ t → RecCurV w u → genT (w.recs u) = true → HasRow w u t true →
      DetectS w' (Mof (w.recs u)) t ∨ (contentOf w' t = contentOf w t ∧ ¬ DetectS w (Mof (w.recs u)) t) := by
  intro u _ _ _ _
  by_cases hd : DetectS w (Mof (w.recs u)) t
  · left
    unfold DetectS at hd ⊢
    rw [hch]
    rcases hd with h | h | h | h
    · exact Or.inl h
    · exact Or.inr (Or.inl h)
    · exact Or.inr (Or.inr (Or.inl (hst h)))
    · exact Or.inr (Or.inr (Or.inr (hfa h)))
  · exact Or.inr ⟨hc, hd⟩

end RedoModel.Deps.Rich
