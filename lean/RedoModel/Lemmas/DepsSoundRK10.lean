import RedoModel.Lemmas.DepsSoundRK8
import RedoModel.Lemmas.DepsSoundRK0b
import RedoModel.Lemmas.DepsSoundK0b
/-!
The hypotheses of `recoversRichK_partial` cannot be dropped:
* without `SingleDo` the statement is false also for the rich notion of up-to-date (`kxOps` of `DepsSoundK0`: the
  known finding `killed-build-forgets-old-dofile`);
* without `NoWatchOp` the invariant itself does not survive a kill (`kcOps` of `DepsSoundRK0`).
-/
namespace RedoModel.Deps.Rich
open RedoModel.Generated

/-- Rules and scripts along any history: the rules never change, and every script in place was given by a `setProg`
of the history (or was there at the start). -/
theorem worlds_rp (n : Nat) (d : Defects) (Q : Script → Prop) :
    ∀ (ops : List UserOp) (w : World), (∀ c s, UserOp.setProg c s ∈ ops → Q s) →
      (∀ c sc, w.progs c = some sc → Q sc) →
      ∀ w' ∈ worldsOf n d w ops, w'.rules = w.rules ∧ ∀ c sc, w'.progs c = some sc → Q sc
  | [], w, _, hw, w', h => by
    simp only [worldsOf, List.mem_singleton] at h; subst h; exact ⟨rfl, hw⟩
  | op :: ops, w, hq, hw, w', h => by
    simp only [worldsOf, List.mem_cons] at h
    rcases h with rfl | h
    · exact ⟨rfl, hw⟩
    have hstep : (applyOp d n op w).2.rules = w.rules ∧ ∀ c sc, (applyOp d n op w).2.progs c = some sc → Q sc := by
      cases op with
      | write f v => exact ⟨rfl, hw⟩
      | remove f => exact ⟨rfl, hw⟩
      | chmod f =>
        show (match w.fs f with
          | some n => setFile w f (some { n with rest := n.rest + 1 })
          | none => w).rules = _ ∧ ∀ c sc, (match w.fs f with
          | some n => setFile w f (some { n with rest := n.rest + 1 })
          | none => w).progs c = some sc → Q sc
        cases w.fs f <;> exact ⟨rfl, hw⟩
      | hide f =>
        show (match w.fs f with
          | some n => { setFile w f none with stash := fun x => if x = f then some n else w.stash x }
          | none => w).rules = _ ∧ ∀ c sc, (match w.fs f with
          | some n => { setFile w f none with stash := fun x => if x = f then some n else w.stash x }
          | none => w).progs c = some sc → Q sc
        cases w.fs f <;> exact ⟨rfl, hw⟩
      | unhide f =>
        show (match w.stash f with
          | some n => { setFile w f (some n) with stash := fun x => if x = f then none else w.stash x }
          | none => w).rules = _ ∧ ∀ c sc, (match w.stash f with
          | some n => { setFile w f (some n) with stash := fun x => if x = f then none else w.stash x }
          | none => w).progs c = some sc → Q sc
        cases w.stash f <;> exact ⟨rfl, hw⟩
      | setProg c s =>
        refine ⟨rfl, fun c' sc hc => ?_⟩
        have hc' : (if c' = c then some s else w.progs c') = some sc := hc
        split at hc'
        · cases hc'; exact hq c s (by simp)
        · exact hw c' sc hc'
      | cmd c =>
        have t := runCmd_tr d n c w
        exact ⟨t.rules, fun c' sc hc => hw c' sc (by rw [← t.progs]; exact hc)⟩
      | crashCmd ts t k =>
        have t' := crashCmd_tr d n ts t k w
        exact ⟨t'.rules, fun c' sc hc => hw c' sc (by rw [← t'.progs]; exact hc)⟩
    obtain ⟨a1, a2⟩ := worlds_rp n d Q ops _ (fun c s hm => hq c s (List.mem_cons_of_mem _ hm)) hstep.2 w' h
    exact ⟨a1.trans hstep.1, a2⟩

/-- `recoversRichK_partial` without `SingleDo`. -/
def RecoversRichK_noSingle : Prop :=
  ∀ (n : Nat) (rules : Nat → List Nat) (rank : Nat → Nat) (ops : List UserOp) (ts : List Nat) (kg forced : Bool),
    RulesOk rules → (∀ op ∈ ops, RichOpK rules op) → (∀ op ∈ ops, NoWatchOp op) →
    (∀ w ∈ worldsOf n {} (initWorld rules) ops, RankedR rank w) → (∀ f, rank f < n) →
    OpsOkW n (initWorld rules) ops → (∀ t ∈ ts, t ≠ alwaysId) →
    let w := ops.foldl (fun w op => (applyOp {} n op w).2) (initWorld rules)
    let r := runCmd {} n (if forced then .redo ts kg else .ifchange ts kg) w
    r.1.status = 0 → ∀ t ∈ ts, UpToDateR r.2 t

/-- What the recovery command of `kxOps` returns and leaves. -/
def kxSummaryR :=
  (kxRes.1.status, contentOf kxRes.2 5, contentOf kxRes.2 3, contentOf kxRes.2 1, (kxRes.2.recs 5).isGenerated,
    (kxRes.2.recs 5).isOverride, kxRes.2.progs [19], kxRes.2.rules 5)

set_option linter.unusedSimpArgs false in
set_option maxRecDepth 8000 in
set_option maxHeartbeats 4000000 in
theorem kx_evalR : kxSummaryR = (0, some [4], some [19], none, true, false, some { tag := 2 }, [1, 3]) := by
  unfold kxSummaryR kxRes kxW kxOps kxRules contentOf
  simp only [List.foldl]
  eval_runR

theorem kx_notUpToDateR : ¬ UpToDateR kxRes.2 5 := by
  have he := kx_evalR
  simp only [kxSummaryR, Prod.mk.injEq] at he
  obtain ⟨_, h5, h3, h1, hg, ho, hp, hr⟩ := he
  have hex3 : existsF kxRes.2 3 = true := by
    unfold contentOf at h3; unfold existsF; cases h : kxRes.2.fs 3 <;> simp_all
  have hex1 : existsF kxRes.2 1 = false := by
    unfold contentOf at h1; unfold existsF; cases h : kxRes.2.fs 1 <;> simp_all
  have hsc : scriptAt kxRes.2 3 = { tag := 2 } := by
    unfold contentOf at h3; unfold scriptAt
    cases h : kxRes.2.fs 3 with
    | none => rw [h] at h3; cases h3
    | some n => rw [h] at h3; simp only [Option.map_some, Option.some.injEq] at h3; simp [h3, hp]
  intro h
  cases h with
  | source hs =>
    have := hs 3 (by rw [hr]; simp)
    rw [hex3] at this; cases this
  | user hg' _ => rw [hg] at hg'; cases hg'
  | override ho' _ => rw [ho] at ho'; cases ho'
  | target hf _ _ _ _ _ hc =>
    rw [hr] at hf
    simp only [firstEx, hex1, hex3, Bool.false_eq_true, if_false, if_true, Option.some.injEq] at hf
    subst hf
    rw [h5, hsc] at hc
    simp [outOf, outContent] at hc

/-- The scripts of `kxOps` declare nothing. -/
def KxQ (s : Script) : Prop := s.always = false ∧ s.ifchange = [] ∧ s.cond = [] ∧ s.ifcreate = []

theorem kx_rankedR : ∀ w ∈ worldsOf 2 {} (initWorld kxRules) kxOps, RankedR kxRank w := by
  intro w hw
  obtain ⟨hr, hp⟩ := worlds_rp 2 {} KxQ kxOps (initWorld kxRules)
    (by
      intro c s hm
      simp only [kxOps, List.mem_cons, List.not_mem_nil, or_false, reduceCtorEq, UserOp.setProg.injEq] at hm
      rcases hm with ⟨_, rfl⟩ | ⟨_, rfl⟩ <;> exact ⟨rfl, rfl, rfl, rfl⟩)
    (fun c sc h => by cases h) w hw
  have hr' : w.rules = kxRules := hr
  refine ⟨fun t c hc => ?_, fun t dof _ n sc _ hsc => ?_⟩
  · rw [hr'] at hc; unfold kxRules at hc
    split at hc
    · simp at hc; rcases hc with rfl | rfl <;> subst_vars <;> simp [kxRank]
    · split at hc
      · simp at hc; subst hc; subst_vars; simp [kxRank]
      · simp at hc
  · obtain ⟨q1, q2, q3, q4⟩ := hp _ _ hsc
    refine ⟨(fun ha => by rw [q1] at ha; cases ha), fun d hd => ?_, fun d hd => ?_⟩
    · rw [q2, q3, q4] at hd; simp at hd
    · rw [q3, q4] at hd; simp at hd

theorem kx_richK : ∀ op ∈ kxOps, RichOpK kxRules op := by
  intro op hop
  simp only [kxOps, List.mem_cons, List.not_mem_nil, or_false] at hop
  rcases hop with rfl | rfl | rfl | rfl | rfl | rfl | rfl | rfl
  · exact ⟨rfl, by intro f hf; simp at hf, by intro f hf; simp at hf⟩
  · exact ⟨rfl, by intro f hf; simp at hf, by intro f hf; simp at hf⟩
  · simp [RichOpK, RichOp, alwaysId]
  · simp [RichOpK, RichOp, alwaysId]
  · intro t ht; simp only [Cmd.names, List.mem_singleton] at ht; subst ht; simp [alwaysId]
  · intro t ht; simp only [Cmd.names, List.mem_singleton] at ht; subst ht; simp [alwaysId]
  · simp [RichOpK, RichOp, alwaysId]
  · intro t ht; simp only [List.mem_singleton] at ht; subst ht; simp [alwaysId]

theorem kx_noWatch : ∀ op ∈ kxOps, NoWatchOp op := by
  intro op hop
  simp only [kxOps, List.mem_cons, List.not_mem_nil, or_false] at hop
  rcases hop with rfl | rfl | rfl | rfl | rfl | rfl | rfl | rfl <;> simp [NoWatchOp]

theorem kx_opsOkW : OpsOkW 2 (initWorld kxRules) kxOps := by
  refine ⟨?_, ?_, trivial, trivial, trivial, trivial, trivial, trivial, trivial⟩
  · intro t dof _ n hn; cases hn
  · intro t dof _ n hn; cases hn

/-- **`SingleDo` cannot be dropped** (known finding `killed-build-forgets-old-dofile`, here for the rich notion of
up-to-date): target 5 has the candidates [1, 3]; built by 1; 1 removed; the rebuild by 3 killed at step 0 — the row
`(5, 1, m)` has become `(5, 1, c)`; the recovery run finds everything clean. -/
theorem not_recoversRichK_noSingle : ¬ RecoversRichK_noSingle := by
  intro h
  have hs : kxRes.1.status = 0 := by
    have he := kx_evalR
    simp only [kxSummaryR, Prod.mk.injEq] at he
    exact he.1
  exact kx_notUpToDateR (h 2 kxRules kxRank kxOps [5] false false kx_rulesOk kx_richK kx_noWatch kx_rankedR
    kx_rank_lt kx_opsOkW (by simp [alwaysId]) hs 5 (by simp))

/-- `kill_keeps_invariant` for rich worlds under `SingleDo` alone. -/
def KillKeepsBtw : Prop :=
  ∀ (rank : Nat → Nat) (N : Nat) (w : World) (ts : List Nat) (t k : Nat), (∀ f, rank f < N) → SingleDo w.rules →
    Btw rank w → (∀ x ∈ ts, x ≠ alwaysId) → Btw rank (applyOp {} N (.crashCmd ts t k) w).2

/-- **A kill in a script with a conditional declaration breaks the invariant**: were it kept under `SingleDo`
alone, the recovery of `kcOps` would leave its target up to date. -/
theorem not_killKeepsBtw : ¬ KillKeepsBtw := by
  intro h
  have hp : ∀ op ∈ kcOps.take 5, RichOp cxRules op := by
    intro op hop
    simp only [kcOps, List.take, List.mem_cons, List.not_mem_nil, or_false] at hop
    rcases hop with rfl | rfl | rfl | rfl | rfl
    · exact kc_rich
    · simp [RichOp, alwaysId]
    · simp [RichOp, alwaysId]
    · intro t ht; simp only [Cmd.names, List.mem_singleton] at ht; subst ht; simp [alwaysId]
    · simp [RichOp, alwaysId]
  have hw : ∀ w ∈ worldsOf 2 {} (initWorld cxRules) (kcOps.take 5), RankedR cxRank w := by
    intro w hw
    refine kc_ranked w ?_
    simp only [kcOps, List.take, worldsOf, List.mem_cons, List.not_mem_nil, or_false] at hw ⊢
    rcases hw with h | h | h | h | h | h
    · exact Or.inl h
    · exact Or.inr (Or.inl h)
    · exact Or.inr (Or.inr (Or.inl h))
    · exact Or.inr (Or.inr (Or.inr (Or.inl h)))
    · exact Or.inr (Or.inr (Or.inr (Or.inr (Or.inl h))))
    · exact Or.inr (Or.inr (Or.inr (Or.inr (Or.inr (Or.inl h)))))
  have h0 : Btw cxRank (initWorld cxRules) := Btw_init cx_rulesOk (hw _ (worldsOf_head 2 {} _ _))
  obtain ⟨hb, hr⟩ := history_btw kc_rankLt (kcOps.take 5) (initWorld cxRules) h0 rfl hp hw
    (by
      refine ⟨?_, trivial, trivial, trivial, trivial, trivial⟩
      intro t dof _ n hn; cases hn)
  have hb6 := h cxRank 2 _ [2] 2 0 kc_rankLt (by rw [hr]; exact kc_single) hb
    (by intro t ht; simp only [List.mem_singleton] at ht; subst ht; simp [alwaysId])
  have hs := runCmd_sound {} kc_rankLt hb6 [2] false false (by simp [alwaysId])
  exact kc_notUpToDate (hs kc_eval'.1 2 (by simp))

end RedoModel.Deps.Rich
