import RedoModel.Lemmas.DepsOodUp5
/-!
# redo-ood, upper bound — part 6: the `need` verdict of redo-ood's walk, and the general upper bound
-/
namespace RedoModel.Deps

theorem mem_depsOf_target {w : World} {r : Rec} {f : Nat} {d : Dep} (h : d ∈ depsOf w r f) : d.target = f := by
  unfold depsOf at h
  split at h
  · cases h
  · rw [List.mem_mergeSort] at h
    simpa using (List.mem_filter.1 h).2

/-- redo-ood's walk: a `dirty` verdict excludes a `PC` derivation; the members of a `need` verdict are checksummed
files below `f` without a `PC` derivation. -/
theorem isDirty_ood_need (w : World) (R : Nat) :
    ∀ (fuel : Nat) (w' : World) (cache : List Nat) (f mx : Nat) (seen : List Nat) (pre : Option Rec),
      OInv w w' R → (∀ s, pre = some s → ORec w R f s) →
      OInv w (isDirty true R fuel w' cache f mx seen pre).2.1 R ∧
      ((isDirty true R fuel w' cache f mx seen pre).1 = .dirty → ¬ PC w R f mx) ∧
      ∀ ts, (isDirty true R fuel w' cache f mx seen pre).1 = .need ts → ∀ x ∈ ts, MReach w R f x ∧ NeedOk w R x
  | 0, w', cache, f, mx, seen, pre => by
    intro hi _
    rw [isDirty]
    exact ⟨hi, (fun h => by cases h), (fun ts h => by cases h)⟩
  | fuel + 1, w', cache, f, mx, seen, pre => by
    intro hi hpre
    refine ⟨isDirty_ood_oinv w R (fuel + 1) w' cache f mx seen pre hi hpre, fun hd hpc => ?_, ?_⟩
    · rcases isDirty_ood_cc w R hpc (fuel + 1) w' cache seen pre hi hpre with h | h <;> rw [h] at hd <;> cases hd
    have hr : ORec w R f (pre.getD (getRec w' R f)) := by
      cases pre with
      | none => exact hi.recOk f
      | some s => exact hpre s rfl
    simp (config := { zeta := true, zetaHave := true }) only [isDirty, ↓reduceIte]
    generalize pre.getD (getRec w' R f) = r at hr ⊢
    intro ts h x hx
    split at h
    · cases h
    split at h
    · cases h
    rename_i hnf
    have hre : r = getRec w R f := by
      rcases hr with h | h
      · exact h
      · exact absurd h.1 hnf
    split at h
    · cases h
    rename_i ch hch
    split at h
    · cases h
    split at h
    · cases h
    split at h
    · cases h
    rename_i old hold
    split at h
    · rename_i hdiff
      dsimp only at h
      split at h
      · rename_i hcs
        cases h
        simp only [List.mem_singleton] at hx
        subst hx
        refine ⟨MReach.refl _, by rw [← hre]; exact hcs, fun mx0 hpc => ?_⟩
        cases hpc with
        | mk _ _ ch0 hfail hch0 hle0 hst hm hc =>
          rw [← hre, hold] at hst
          apply hdiff
          rw [hi.toOod.rs]
          exact Option.some.inj hst
      · cases h
    have hgd := goDeps_ood_need w R (max ch (r.checked.getD 0))
      (fun w cache s snap => isDirty true R fuel w cache s (max ch (r.checked.getD 0)) (f :: seen) (some snap))
      (fun w2 c2 s snap h1 h2 => isDirty_ood_need w R fuel w2 c2 s _ (f :: seen) (some snap) h1
        (fun s' hs' => by cases hs'; exact h2))
      r.csum.isSome f (depsWithRecs w' R r f) w' cache [] hi
      (by
        intro p hp
        simp only [depsWithRecs, List.mem_map] at hp
        obtain ⟨d, _, rfl⟩ := hp
        exact hi.recOk d.source)
    generalize goDeps _ r.csum.isSome f (depsWithRecs w' R r f) w' cache [] = gr at hgd h
    obtain ⟨o, w2, c2⟩ := gr
    dsimp only at hgd h
    cases o with
    | none => simp at h
    | some dr =>
      dsimp only at h
      subst h
      have hmemd : ∀ p ∈ depsWithRecs w' R r f, p.1 ∈ depsOf w (getRec w R f) f := by
        intro p hp
        simp only [depsWithRecs, List.mem_map] at hp
        obtain ⟨d, hd, rfl⟩ := hp
        rw [hi.toOod.dp, hre] at hd
        exact hd
      rcases hgd ts rfl x hx with hmem | ⟨p, hp, hm, hreach, hok⟩ | ⟨hxf, hcs, p, hp, hwit⟩
      · cases hmem
      · exact ⟨MReach.step ⟨p.1, hmemd p hp, hm, rfl⟩ hreach, hok⟩
      · subst hxf
        refine ⟨MReach.refl _, by rw [← hre]; exact hcs, fun mx0 hpc => ?_⟩
        cases hpc with
        | mk _ _ ch0 hfail hch0 hle0 hst hm hc =>
          have hch' : ch0 = ch := by rw [← hre, hch] at hch0; exact (Option.some.inj hch0).symm
          subst hch'
          rcases hwit with ⟨hmode, hnpc⟩ | ⟨hmode, hex⟩
          · apply hnpc
            have := hm p.1 (hmemd p hp) hmode
            rw [← hre] at this
            exact this
          · have := hc p.1 (hmemd p hp) hmode
            rw [this] at hex; cases hex

/-- **General upper bound** (any world, any defect switches, checksums allowed), on the world the query runs on
(`w1 = w` with the run counter advanced) with its run id `R = runCounter + 1`:
what `redo-ood` lists is a known target whose own dirtiness walk does not answer "clean"; and whenever that walk
answers `need ts`, every member of `ts` lies below the target along recorded `m` rows, has a recorded checksum, has
no `PC` derivation, and is itself not found clean — neither by redo-ood's walk nor (in a well-formed world) by the
check of the following command. -/
theorem ood_upper_general_core (d : Defects) (n : Nat) (w : World) {Fu : Nat → List Nat → Nat → Prop}
    (hF : FuelCert { w with runCounter := w.runCounter + 1 } (w.runCounter + 1) Fu)
    (hfu : ∀ t, t < n → Fu (2 * n + 4) [] t) (t : Nat) (ht : t ∈ (runCmd d n .ood w).1.listing) :
    (t < n ∧ known w t = true ∧ isTarget w (w.runCounter + 1) t = true) ∧
    ∀ fuel, (isDirty true (w.runCounter + 1) fuel { w with runCounter := w.runCounter + 1 } [] t
        (w.runCounter + 1) [] none).1 ≠ .clean := by
  obtain ⟨h1, h2⟩ := ood_listed_notPC d n w hF hfu t ht
  refine ⟨h1, fun fuel hcl => h2 ?_⟩
  have := isDirty_ood_pc { w with runCounter := w.runCounter + 1 } (w.runCounter + 1) fuel
    { w with runCounter := w.runCounter + 1 } [] t (w.runCounter + 1) [] none (OodInv.refl _ _)
    (fun s hs => by cases hs) (fun g hg => by cases hg)
  exact PC.congr (w := { w with runCounter := w.runCounter + 1 }) (w2 := w) rfl rfl rfl (this.2.2.1 hcl)

/-- The `need` members, for any call of redo-ood's walk on the original world. -/
theorem ood_need_members (w : World) (R fuel t mx : Nat) (ts : List Nat)
    (h : (isDirty true R fuel w [] t mx [] none).1 = .need ts) (x : Nat) (hx : x ∈ ts) :
    MReach w R t x ∧ (getRec w R x).csum.isSome = true ∧ (∀ mx', ¬ PC w R x mx') ∧
    ∀ fuel' mx', (isDirty true R fuel' w [] x mx' [] none).1 ≠ .clean := by
  obtain ⟨hr, hcs, hnpc⟩ := (isDirty_ood_need w R fuel w [] t mx [] none (OInv.refl _ _) (fun s hs => by cases hs)).2.2
    ts h x hx
  refine ⟨hr, hcs, hnpc, fun fuel' mx' hcl => hnpc mx' ?_⟩
  exact (isDirty_ood_pc w R fuel' w [] x mx' [] none (OodInv.refl _ _) (fun s hs => by cases hs)
    (fun g hg => by cases hg)).2.2.1 hcl

end RedoModel.Deps
