import RedoModel.Lemmas.ParSerial
/-!
A concrete instance of `RedoModel.Par`: a diamond with a shared dependency.

    3 (top)  asks for 1 and 2 in one command
    1 (a)    asks for 4
    2 (b)    asks for 4 and the source 0 in one command
    4        asks for the source 0; it is requested twice (by 1 and by 2)

All facts below are checked by evaluation in the kernel (`rfl` / `decide`).
-/
namespace RedoModel.Par.Ex

def g : Graph where
  script
    | 1 => some { cmds := [[4]], reads := [4], tag := 1 }
    | 2 => some { cmds := [[4, 0]], reads := [4, 0], tag := 2 }
    | 3 => some { cmds := [[1, 2]], reads := [1, 2], tag := 3 }
    | 4 => some { cmds := [[0]], reads := [0], tag := 4 }
    | _ => none
  src := fun _ => [7]

def rank : Nat → Nat
  | 3 => 3
  | 1 => 2
  | 2 => 2
  | 4 => 1
  | _ => 0

/-- Nothing is built yet; 4 happens to hold already what a build would give it. -/
def s0 : State := { st := fun _ => .idle, content := fun t => if t = 4 then [10, 0, 7, 1] else [] }

/-- The depth-first -j1 schedule. -/
def esSerial : List Ev :=
  [.start 3 none, .start 1 (some 3), .start 4 (some 1), .ret 4, .finish 4, .ret 1, .finish 1,
   .start 2 (some 3), .ret 2, .finish 2, .ret 3, .finish 3]

/-- A -j3 interleaving: 2 starts before 1, and it is 2 (not 1) that builds the shared 4. -/
def esPar : List Ev :=
  [.start 3 none, .start 2 (some 3), .start 1 (some 3), .start 4 (some 2), .ret 4, .finish 4,
   .ret 2, .ret 1, .finish 2, .finish 1, .ret 3, .finish 3]

/-- A run in which the dirtiness check finds 4 clean. -/
def esClean : List Ev :=
  [.start 3 none, .start 1 (some 3), .clean 4, .ret 1, .start 2 (some 3), .finish 1, .ret 2, .finish 2,
   .ret 3, .finish 3]

theorem wellFormed : WellFormed g := by
  intro t sc hsc
  unfold g at hsc
  simp only at hsc
  split at hsc <;> cases hsc <;> decide

theorem ranked : Ranked g rank := by
  intro t sc hsc
  unfold g at hsc
  simp only at hsc
  split at hsc <;> cases hsc <;> decide

theorem init : Init g s0 := ⟨rfl, fun _ => Or.inl rfl, fun _ _ _ h => by cases h⟩

theorem spec4 : Spec g 4 [10, 0, 7, 1] :=
  Spec.tgt (g := g) (t := 4) (sc := { cmds := [[0]], reads := [0], tag := 4 }) [[7]] rfl rfl
    (fun i h _ => by
      have : i = 0 := by simpa using h
      subst this
      exact Spec.src (g := g) (f := 0) rfl)

theorem cleanOk : CleanOk g s0 esClean := by
  intro t sc ht _ _
  have : t = 4 := by simpa [esClean] using ht
  subst this
  exact spec4

theorem serial_schedule : (serialOne g 4 3 none s0).1 = esSerial := rfl

theorem serial_accepted : (run g s0 esSerial).isSome = true := rfl
theorem par_accepted : (run g s0 esPar).isSome = true := rfl
theorem clean_accepted : (run g s0 esClean).isSome = true := rfl

/-- The three schedules leave the same bytes in every file. -/
theorem same_contents :
    (run g s0 esPar).map (fun s => [1, 2, 3, 4].map s.content)
      = (run g s0 esSerial).map (fun s => [1, 2, 3, 4].map s.content) ∧
    (run g s0 esClean).map (fun s => [1, 2, 3, 4].map s.content)
      = (run g s0 esSerial).map (fun s => [1, 2, 3, 4].map s.content) := by
  decide

/-- Each script ran once in the parallel run although 4 was asked for twice. -/
theorem par_starts : (run g s0 esPar).map (·.starts) = some [4, 1, 2, 3] := by decide

/-- `ret` before the dependencies are settled is rejected. -/
theorem early_ret_rejected : (run g s0 [.start 3 none, .ret 3]).isNone = true := rfl

/-- A second start of the same script is rejected, whoever asks. -/
theorem second_start_rejected :
    (run g s0 [.start 3 none, .start 1 (some 3), .start 2 (some 3), .start 4 (some 1),
               .start 4 (some 2)]).isNone = true := rfl

/-- A start that nobody asked for is rejected (3 is not executing a command that names 4). -/
theorem unasked_start_rejected : (run g s0 [.start 3 none, .start 4 (some 3)]).isNone = true := rfl

/-- `finish` before the last command has returned is rejected. -/
theorem early_finish_rejected : (run g s0 [.start 3 none, .finish 3]).isNone = true := rfl

/-- Starting a target the dirtiness check has declared clean is rejected. -/
theorem start_after_clean_rejected :
    (run g s0 [.start 3 none, .start 1 (some 3), .clean 4, .start 4 (some 1)]).isNone = true := rfl

end RedoModel.Par.Ex
